(** C18 — proofs over the model in Model.v.

    Accounting invariant (for EVERY op sequence, i.e. every interleaving of droppers, drain goroutine and
    dead-letter actor, and every environment reading): as multisets,

       published ++ mailbox ++ queued-in-fan-out ++ lost  =  demanded ++ duplicates ++ replays

    where [demanded] is what the property asks for (one letter per accepted-then-dropped message), [lost]
    are the drops the code gives no dead letter (each with the branch that did it), [duplicates] the second
    letter of an Ask whose enqueue failed and [replays] what PublishDeadletters re-published.  It is proved
    once for an arbitrary projection of letters and instantiated with (message, receiver) — unconditionally —
    and with the whole letter — under the explicit guard [run_ok]. *)
From Coq Require Import List Bool Arith PeanoNat Lia Permutation.
From GV Require Import C18.Model.
Import ListNotations.

Lemma letter_eq_dec : forall x y : letter, {x = y} + {x <> y}.
Proof. repeat decide equality. Defined.

Definition key := (nat * addr)%type.
Lemma key_eq_dec : forall x y : key, {x = y} + {x <> y}.
Proof. repeat decide equality. Defined.
Definition key_of (l : letter) : key := (l_mid l, l_to l).

(** the letter the remote paths actually send for [w] when the receiver parses *)
Definition actual (w : wmsg) : letter := (w_mid w, sender_remote (w_from w), meant (w_to w)).

Lemma parse_meant : forall w a, parse w = Some a -> meant w = a.
Proof. destruct w; simpl; intros; congruence. Qed.

(* ------------------------------------------------------------------ generic facts about the state helpers *)

Lemma fold_lose_fields : forall c b s,
  let s' := fold_left (fun s' w => lose c (intended w) s') b s in
  mbox s' = mbox s /\ cur s' = cur s /\ fq s' = fq s /\ counter s' = counter s /\ published s' = published s
  /\ percount s' = percount s /\ lastl s' = lastl s /\ replays s' = replays s /\ dups s' = dups s
  /\ lost s' = lost s ++ map (fun w => (c, intended w)) b.
Proof.
  induction b as [|w b IH]; intros s; simpl.
  - rewrite app_nil_r. repeat split; reflexivity.
  - specialize (IH (lose c (intended w) s)). simpl in IH.
    destruct IH as (H1 & H2 & H3 & H4 & H5 & H6 & H7 & H8 & H9 & H10).
    repeat split; try assumption.
    rewrite H10. simpl. rewrite <- app_assoc. reflexivity.
Qed.

Lemma concat_snoc : forall (A : Type) (l : list (list A)) b, concat (l ++ [b]) = concat l ++ b.
Proof. intros. rewrite concat_app. simpl. rewrite app_nil_r. reflexivity. Qed.

Section Acct.
  Variable K : Type.
  Variable K_dec : forall x y : K, {x = y} + {x <> y}.
  Variable pr : letter -> K.

  Notation cnt := (count_occ K_dec).

  Definition okw (w : wmsg) : Prop := pr (actual w) = pr (intended w).

  Definition lhs (s : st) : list K :=
    map pr (published s) ++ map pr (mbox s) ++ map pr (map intended (cur s))
    ++ map pr (map intended (concat (fq s))) ++ map pr (map snd (lost s)).
  Definition rhs (s : st) : list K := map pr (dups s) ++ map pr (replays s).

  Definition st_wf (s : st) : Prop := Forall okw (cur s ++ concat (fq s)).
  Definition op_wf (o : op) : Prop :=
    match o with
    | ORemote _ w t => delivered w t = true \/ okw w
    | OCoalesce _ b => Forall okw b
    | _ => True
    end.

  Definition bal (s s' : st) (extra : list K) : Prop :=
    forall x, cnt (lhs s') x + cnt (rhs s) x = cnt (lhs s) x + cnt extra x + cnt (rhs s') x.

  Ltac cn := unfold bal, lhs, rhs; intros; simpl;
             repeat rewrite ?map_app, ?count_occ_app, ?concat_snoc; simpl; try lia.

  Lemma bal_refl : forall s, bal s s [].
  Proof. cn. Qed.

  Lemma bal_send : forall s l want, pr l = pr want -> bal s (send_dl l s) [pr want].
  Proof. intros s l want H. cn. rewrite H. destruct (K_dec (pr want) x); lia. Qed.

  Lemma bal_lose : forall s c l, bal s (lose c l s) [pr l].
  Proof. cn. Qed.

  Lemma bal_to_dl : forall e s l want, pr l = pr want -> bal s (to_dl e l want s) [pr want].
  Proof. intros. unfold to_dl. destruct (e_dl e); [apply bal_send; assumption | apply bal_lose]. Qed.

  Lemma bal_remote_dl : forall e s l want, pr l = pr want -> bal s (remote_dl e l want s) [pr want].
  Proof. intros. unfold remote_dl. destruct (e_dl e && e_guard e); [apply bal_send; assumption | apply bal_lose]. Qed.

  Lemma bal_drain_msg : forall e w s0 s1,
    okw w ->
    (forall x, cnt (lhs s1) x + cnt (pr (intended w) :: nil) x = cnt (lhs s0) x) ->
    rhs s1 = rhs s0 ->
    bal s0 (drain_msg e w s1) [].
  Proof.
    intros e w s0 s1 Hok H Hr. unfold drain_msg.
    assert (G : forall s2, bal s1 s2 [pr (intended w)] -> bal s0 s2 []).
    { intros s2 B x. specialize (B x). specialize (H x). rewrite <- Hr. simpl in *. lia. }
    destruct (parse (w_to w)) eqn:P.
    - destruct (negb (w_payload w)).
      + apply G, bal_lose.
      + apply G, bal_remote_dl. unfold okw, actual in Hok. rewrite (parse_meant _ _ P) in Hok. exact Hok.
    - apply G, bal_lose.
  Qed.

  Lemma step_bal : forall cap s o, st_wf s -> op_wf o -> bal s (step cap s o) (map pr (spec_op o)).
  Proof.
    intros cap s o Hs Ho. destruct o; simpl.
    - (* OLocal *)
      destruct (excluded k); [apply bal_refl|].
      destruct (negb stream); [apply bal_lose|].
      destruct rcv; [apply bal_to_dl; reflexivity | apply bal_lose].
    - apply bal_to_dl; reflexivity.
    - (* OAskSend *) destruct accepted; [apply bal_refl | apply bal_to_dl; reflexivity].
    - (* OAskTimeout *)
      destruct accepted; [apply bal_to_dl; reflexivity|].
      destruct (e_dl e); [|apply bal_refl].
      cn.
    - (* ORemote *)
      unfold delivered. simpl in Ho.
      destruct (w_payload w) eqn:Pl; simpl.
      2:{ apply bal_lose. }
      destruct (w_meta w) eqn:Me; simpl.
      + destruct t; simpl;
          try (destruct (parse (w_to w)) eqn:P; [|apply bal_lose];
               apply bal_remote_dl;
               destruct Ho as [Ho|Ho]; [unfold delivered in Ho; rewrite Pl, Me in Ho; discriminate|];
               unfold okw, actual in Ho; rewrite (parse_meant _ _ P) in Ho; exact Ho).
        destruct accepted; [apply bal_refl|].
        apply bal_to_dl.
        destruct Ho as [Ho|Ho]; [unfold delivered in Ho; rewrite Pl, Me in Ho; discriminate|]. exact Ho.
      + assert (E : (if match t with TOk true => true | _ => false end then [] else [intended w]) = [intended w] \/
                    True) by (right; exact I).
        replace (map pr (if false then [] else [intended w])) with [pr (intended w)] by reflexivity.
        destruct (parse (w_to w)) eqn:P; [|apply bal_lose].
        apply bal_remote_dl.
        destruct Ho as [Ho|Ho]; [unfold delivered in Ho; rewrite Pl, Me in Ho; discriminate|].
        unfold okw, actual in Ho; rewrite (parse_meant _ _ P) in Ho; exact Ho.
    - (* OCoalesce *)
      destruct (e_shut e || negb (e_qon e)).
      + pose proof (fold_lose_fields CShut b s) as F. simpl in F.
        destruct F as (H1 & H2 & H3 & H4 & H5 & H6 & H7 & H8 & H9 & H10).
        unfold bal, lhs, rhs. intros x. rewrite H1, H2, H3, H5, H8, H9, H10.
        repeat rewrite ?map_app, ?count_occ_app. rewrite !map_map. simpl. lia.
      + destruct (cap <=? length (fq s)).
        * pose proof (fold_lose_fields CQueueFull b s) as F. simpl in F.
          destruct F as (H1 & H2 & H3 & H4 & H5 & H6 & H7 & H8 & H9 & H10).
          unfold bal, lhs, rhs. intros x. rewrite H1, H2, H3, H5, H8, H9, H10.
          repeat rewrite ?map_app, ?count_occ_app. rewrite !map_map. simpl. lia.
        * cn.
    - (* ODrainTake *)
      destruct (cur s) eqn:C; [|apply bal_refl].
      destruct (fq s) eqn:F; [apply bal_refl|].
      unfold bal, lhs, rhs. intros x. simpl. rewrite C, F. simpl.
      repeat rewrite ?map_app, ?count_occ_app. simpl. lia.
    - (* ODrainMsg *)
      destruct (cur s) eqn:C; [apply bal_refl|].
      apply bal_drain_msg.
      + unfold st_wf in Hs. rewrite C in Hs. inversion Hs; assumption.
      + intros x. unfold lhs. simpl. rewrite C. simpl.
        repeat rewrite ?count_occ_app. simpl.
        destruct (K_dec (pr (intended w)) x); repeat rewrite ?count_occ_app; lia.
      + reflexivity.
    - (* ODLStep *)
      destruct (mbox s) eqn:M; [apply bal_refl|].
      unfold bal, lhs, rhs. intros x. simpl. rewrite M. simpl.
      repeat rewrite ?map_app, ?count_occ_app. simpl.
      destruct (K_dec (pr l) x); repeat rewrite ?map_app, ?count_occ_app; simpl; lia.
    - (* OPublishAll *)
      cn.
  Qed.

  Lemma fold_lose_wf : forall c b s, st_wf s -> st_wf (fold_left (fun s' w => lose c (intended w) s') b s).
  Proof.
    intros c b s H. pose proof (fold_lose_fields c b s) as F. simpl in F.
    destruct F as (H1 & H2 & H3 & _). unfold st_wf in *. rewrite H2, H3. exact H.
  Qed.

  Lemma drain_msg_cur_fq : forall e w s, cur (drain_msg e w s) = cur s /\ fq (drain_msg e w s) = fq s.
  Proof.
    intros. unfold drain_msg, remote_dl, lose, send_dl.
    destruct (parse (w_to w)); [destruct (negb (w_payload w)); [|destruct (e_dl e && e_guard e)]|]; simpl; auto.
  Qed.

  Lemma to_dl_cur_fq : forall e l want s, cur (to_dl e l want s) = cur s /\ fq (to_dl e l want s) = fq s.
  Proof. intros. unfold to_dl, lose, send_dl. destruct (e_dl e); simpl; auto. Qed.
  Lemma remote_dl_cur_fq : forall e l want s, cur (remote_dl e l want s) = cur s /\ fq (remote_dl e l want s) = fq s.
  Proof. intros. unfold remote_dl, lose, send_dl. destruct (e_dl e && e_guard e); simpl; auto. Qed.

  Lemma wf_of_eq : forall s s', cur s' = cur s -> fq s' = fq s -> st_wf s -> st_wf s'.
  Proof. unfold st_wf. intros s s' -> ->. auto. Qed.

  Lemma step_wf : forall cap s o, st_wf s -> op_wf o -> st_wf (step cap s o).
  Proof.
    intros cap s o Hs Ho. destruct o; simpl.
    - destruct (excluded k); auto. destruct (negb stream); [exact Hs|].
      destruct rcv; [|exact Hs]. destruct (to_dl_cur_fq e (mid, sender_of snd, a) (mid, sender_of snd, rcv_or (Some a)) s).
      eapply wf_of_eq; eauto.
    - destruct (to_dl_cur_fq e (mid, from, to) (mid, from, to) s). eapply wf_of_eq; eauto.
    - destruct accepted; auto.
      destruct (to_dl_cur_fq e (mid, sender_of snd, to) (mid, sender_of snd, to) s). eapply wf_of_eq; eauto.
    - destruct accepted.
      + destruct (to_dl_cur_fq e (mid, sender_of snd, to) (mid, sender_of snd, to) s). eapply wf_of_eq; eauto.
      + destruct (e_dl e); auto.
    - destruct (negb (w_payload w)); [exact Hs|].
      destruct (negb (w_meta w) || negb (is_ok_tree t)).
      + destruct (parse (w_to w)); [|exact Hs].
        destruct (remote_dl_cur_fq e (w_mid w, sender_remote (w_from w), a) (intended w) s). eapply wf_of_eq; eauto.
      + destruct t; auto. destruct accepted; auto.
        destruct (to_dl_cur_fq e (w_mid w, sender_remote (w_from w), meant (w_to w)) (intended w) s). eapply wf_of_eq; eauto.
    - destruct (e_shut e || negb (e_qon e)); [apply fold_lose_wf; exact Hs|].
      destruct (cap <=? length (fq s)); [apply fold_lose_wf; exact Hs|].
      unfold st_wf in *. simpl. rewrite concat_snoc, app_assoc. apply Forall_app. split; assumption.
    - destruct (cur s) eqn:C; [|exact Hs]. destruct (fq s) eqn:F; [exact Hs|].
      unfold st_wf in *. simpl. rewrite C, F in Hs. simpl in Hs. exact Hs.
    - destruct (cur s) eqn:C; [exact Hs|].
      destruct (drain_msg_cur_fq e w (set_cur s l)) as [H1 H2].
      unfold st_wf in *. rewrite H1, H2. simpl. rewrite C in Hs. inversion Hs; assumption.
    - destruct (mbox s); exact Hs.
    - exact Hs.
  Qed.

  Lemma run_bal : forall cap ops s, st_wf s -> Forall op_wf ops ->
    bal s (run cap ops s) (map pr (spec_drops ops)) /\ st_wf (run cap ops s).
  Proof.
    intros cap ops. induction ops as [|o ops IH]; intros s Hs Ho.
    - split; [apply bal_refl | exact Hs].
    - inversion Ho as [|? ? Ho1 Ho2]; subst.
      pose proof (step_bal cap s o Hs Ho1) as B1.
      pose proof (step_wf cap s o Hs Ho1) as W1.
      destruct (IH (step cap s o) W1 Ho2) as [B2 W2].
      split; [|exact W2].
      unfold run in *. simpl. intros x. specialize (B1 x). specialize (B2 x).
      unfold spec_drops in *. simpl. rewrite map_app, count_occ_app. lia.
  Qed.

  Lemma init_wf : st_wf init.
  Proof. unfold st_wf. simpl. constructor. Qed.

  (** the accounting identity for runs from the initial state *)
  Lemma run_accounting : forall cap ops, Forall op_wf ops ->
    let s := run cap ops init in
    Permutation (lhs s) (map pr (spec_drops ops) ++ rhs s).
  Proof.
    intros cap ops Ho s. destruct (run_bal cap ops init init_wf Ho) as [B _].
    apply (Permutation_count_occ K_dec). intros x. specialize (B x). fold s in B.
    rewrite count_occ_app. change (lhs init) with (@nil K) in B. change (rhs init) with (@nil K) in B.
    simpl in B. lia.
  Qed.
End Acct.

(* ------------------------------------------------------------------ instance 1: (message, receiver), no guard *)

Lemma okw_key : forall w, okw key key_of w.
Proof. intros w. reflexivity. Qed.
Lemma op_wf_key : forall o, op_wf key key_of o.
Proof.
  destruct o; simpl; auto.
  - right. apply okw_key.
  - apply Forall_forall. intros. apply okw_key.
Qed.

(** pending work: what is still on its way to the dead-letter actor *)
Definition pending (s : st) : list letter :=
  mbox s ++ map intended (cur s) ++ map intended (concat (fq s)).
Definition quiescent (s : st) : Prop := mbox s = [] /\ cur s = [] /\ fq s = [].

Theorem accounting_keys : forall cap ops,
  let s := run cap ops init in
  Permutation (map key_of (published s ++ pending s ++ map snd (lost s)))
              (map key_of (spec_drops ops ++ dups s ++ replays s)).
Proof.
  intros cap ops s.
  assert (W : Forall (op_wf key key_of) ops) by (apply Forall_forall; intros; apply op_wf_key).
  pose proof (run_accounting key key_eq_dec key_of cap ops W) as P. simpl in P. fold s in P.
  unfold lhs, rhs, pending in *. repeat rewrite map_app. repeat rewrite map_app in P.
  repeat rewrite <- app_assoc in *. exact P.
Qed.

(* ------------------------------------------------------------------ counter = number published *)

(** the fields only the dead-letter actor's handlers write *)
Definition core (s : st) := (counter s, published s, replays s, percount s).

Lemma core_send : forall l s, core (send_dl l s) = core s. Proof. reflexivity. Qed.
Lemma core_lose : forall c l s, core (lose c l s) = core s. Proof. reflexivity. Qed.
Lemma core_to_dl : forall e l w s, core (to_dl e l w s) = core s.
Proof. intros. unfold to_dl. destruct (e_dl e); reflexivity. Qed.
Lemma core_remote_dl : forall e l w s, core (remote_dl e l w s) = core s.
Proof. intros. unfold remote_dl. destruct (e_dl e && e_guard e); reflexivity. Qed.
Lemma core_drain_msg : forall e w s, core (drain_msg e w s) = core s.
Proof.
  intros. unfold drain_msg. destruct (parse (w_to w)); [|reflexivity].
  destruct (negb (w_payload w)); [reflexivity | apply core_remote_dl].
Qed.
Lemma core_fold_lose : forall c b s, core (fold_left (fun s' w => lose c (intended w) s') b s) = core s.
Proof.
  intros. pose proof (fold_lose_fields c b s) as F. simpl in F.
  destruct F as (_ & _ & _ & H4 & H5 & H6 & _ & H8 & _). unfold core. rewrite H4, H5, H6, H8. reflexivity.
Qed.

Lemma core_eq : forall a b, core a = core b ->
  counter a = counter b /\ published a = published b /\ replays a = replays b /\ percount a = percount b.
Proof. unfold core. intros a b H. inversion H. auto. Qed.

(** only the handler that publishes changes the counter: every other op leaves all four fields alone *)
Lemma step_core : forall cap s o,
  match o with ODLStep | OPublishAll => True | _ => core (step cap s o) = core s end.
Proof.
  intros cap s o. destruct o; simpl; auto.
  - destruct (excluded k); auto. destruct (negb stream); [reflexivity|]. destruct rcv; [apply core_to_dl | reflexivity].
  - apply core_to_dl.
  - destruct accepted; [reflexivity | apply core_to_dl].
  - destruct accepted; [apply core_to_dl|]. destruct (e_dl e); reflexivity.
  - destruct (negb (w_payload w)); [reflexivity|].
    destruct (negb (w_meta w) || negb (is_ok_tree t)).
    + destruct (parse (w_to w)); [apply core_remote_dl | reflexivity].
    + destruct t; auto. destruct accepted; [reflexivity | apply core_to_dl].
  - destruct (e_shut e || negb (e_qon e)); [apply core_fold_lose|].
    destruct (cap <=? length (fq s)); [apply core_fold_lose | reflexivity].
  - destruct (cur s); [|reflexivity]. destruct (fq s); reflexivity.
  - destruct (cur s); [reflexivity|]. rewrite core_drain_msg. reflexivity.
Qed.

Definition counter_inv (s : st) : Prop := counter s + length (replays s) = length (published s).

Lemma core_inv : forall (P : nat * list letter * list letter * list (addr * nat) -> Prop) cap s o,
  (forall s, P (core s) -> P (core (step cap s ODLStep))) ->
  (forall s, P (core s) -> P (core (step cap s OPublishAll))) ->
  P (core s) -> P (core (step cap s o)).
Proof.
  intros P cap s o H1 H2 H. pose proof (step_core cap s o) as C.
  destruct o; try (rewrite C; exact H); [apply H1 | apply H2]; exact H.
Qed.

Lemma step_counter_inv : forall cap s o, counter_inv s -> counter_inv (step cap s o).
Proof.
  intros cap s o H.
  apply (core_inv (fun c => match c with (n, p, r, _) => n + length r = length p end) cap s o); [| |exact H];
    clear; intros s H; simpl in *.
  - destruct (mbox s); simpl; [exact H|]. rewrite app_length. simpl. lia.
  - rewrite !app_length. lia.
Qed.

Lemma run_counter_inv : forall cap ops s, counter_inv s -> counter_inv (run cap ops s).
Proof.
  intros cap ops. induction ops as [|o ops IH]; intros s H; [exact H|].
  unfold run in *. simpl. apply IH, step_counter_inv, H.
Qed.

Theorem counter_matches_published : forall cap ops,
  let s := run cap ops init in counter s + length (replays s) = length (published s).
Proof. intros. apply run_counter_inv. reflexivity. Qed.

(** the counter moves only in the step that publishes, and by exactly the number of fresh events *)
Theorem counter_changes_only_when_publishing : forall cap s o,
  counter (step cap s o) = counter s + (length (published (step cap s o)) - length (published s))
                           - (length (replays (step cap s o)) - length (replays s)).
Proof.
  intros cap s o. pose proof (step_core cap s o) as C.
  destruct o; try (apply core_eq in C; destruct C as (C1 & C2 & C3 & C4); rewrite C1, C2, C3; lia).
  - simpl. destruct (mbox s); simpl; [lia|]. rewrite app_length. simpl. lia.
  - simpl. rewrite !app_length. lia.
Qed.

Definition is_publish_all (o : op) : bool := match o with OPublishAll => true | _ => false end.

Lemma step_replays : forall cap s o, is_publish_all o = false -> replays (step cap s o) = replays s.
Proof.
  intros cap s o H. pose proof (step_core cap s o) as C.
  destruct o; try discriminate; try (apply core_eq in C; destruct C as (C1 & C2 & C3 & C4); exact C3).
  simpl. destruct (mbox s); reflexivity.
Qed.

Lemma run_replays : forall cap ops s, existsb is_publish_all ops = false -> replays (run cap ops s) = replays s.
Proof.
  intros cap ops. induction ops as [|o ops IH]; intros s H; [reflexivity|].
  simpl in H. apply orb_false_iff in H. destruct H as [H1 H2].
  unfold run in *. simpl. rewrite IH by exact H2. apply step_replays, H1.
Qed.

Theorem counter_is_number_published : forall cap ops,
  existsb is_publish_all ops = false ->
  let s := run cap ops init in counter s = length (published s).
Proof.
  intros cap ops H s. pose proof (counter_matches_published cap ops) as C. simpl in C. fold s in C.
  unfold s in *. rewrite run_replays in C by exact H. simpl in C. lia.
Qed.

(* ------------------------------------------------------------------ per-receiver counters *)

Fixpoint count_to (a : addr) (l : list letter) : nat :=
  match l with
  | [] => 0
  | x :: r => (if Nat.eqb a (l_to x) then 1 else 0) + count_to a r
  end.
Lemma count_to_app : forall a l1 l2, count_to a (l1 ++ l2) = count_to a l1 + count_to a l2.
Proof. induction l1; simpl; intros; [reflexivity | rewrite IHl1; lia]. Qed.

Lemma getc_bump : forall a b pc, getc a (bump b pc) = (if Nat.eqb a b then 1 else 0) + getc a pc.
Proof.
  induction pc as [|[c n] r IH]; simpl.
  - destruct (Nat.eqb a b); reflexivity.
  - destruct (Nat.eqb b c) eqn:E; simpl.
    + apply Nat.eqb_eq in E. subst c. destruct (Nat.eqb a b); lia.
    + destruct (Nat.eqb a c) eqn:E2.
      * apply Nat.eqb_eq in E2. subst c. rewrite Nat.eqb_sym, E. reflexivity.
      * exact IH.
Qed.

Definition percount_inv (s : st) : Prop :=
  forall a, getc a (percount s) + count_to a (replays s) = count_to a (published s).

Lemma step_percount_inv : forall cap s o, percount_inv s -> percount_inv (step cap s o).
Proof.
  intros cap s o H.
  apply (core_inv (fun c => match c with (_, p, r, pc) => forall a, getc a pc + count_to a r = count_to a p end) cap s o);
    [| |exact H]; clear; intros s H; simpl in *.
  - destruct (mbox s); simpl; [exact H|]. intros a. rewrite getc_bump, count_to_app. simpl. specialize (H a). lia.
  - intros a. rewrite !count_to_app. specialize (H a). lia.
Qed.

Theorem per_receiver_counter : forall cap ops a,
  let s := run cap ops init in getc a (percount s) + count_to a (replays s) = count_to a (published s).
Proof.
  intros cap ops a s. unfold s. clear s.
  assert (G : forall ops s, percount_inv s -> percount_inv (run cap ops s)).
  { induction ops0 as [|o r IH]; intros s H; [exact H|]. unfold run in *. simpl. apply IH, step_percount_inv, H. }
  apply G. intros b. reflexivity.
Qed.

(* ------------------------------------------------------------------ instance 2: whole letters, under the guard *)

Definition is_some {A} (o : option A) : bool := match o with Some _ => true | None => false end.
Definition sender_ok (w : waddr) : bool := Nat.eqb (sender_remote w) (meant w).

(** the explicit guard: every branch in which the code itself gives up on the dead letter is excluded *)
Definition op_ok (cap : nat) (s : st) (o : op) : bool :=
  match o with
  | OLocal e stream snd rcv k mid =>
      excluded k || (stream && is_some rcv && e_dl e)
  | OToDL e _ _ _ => e_dl e
  | OAskSend e acc _ _ _ => acc || e_dl e
  | OAskTimeout e acc _ _ _ => acc && e_dl e      (* an Ask whose enqueue failed is dead-lettered twice *)
  | ORemote e w t =>
      delivered w t
      || (w_payload w && sender_ok (w_from w) && e_dl e
          && (if negb (w_meta w) || negb (is_ok_tree t) then is_some (parse (w_to w)) && e_guard e else true))
  | OCoalesce e b =>
      negb (e_shut e) && e_qon e && (length (fq s) <? cap) && forallb (fun w => sender_ok (w_from w)) b
  | ODrainMsg e =>
      match cur s with
      | [] => true
      | w :: _ => is_some (parse (w_to w)) && w_payload w && e_dl e && e_guard e
      end
  | ODrainTake | ODLStep | OPublishAll => true
  end.

Fixpoint run_ok (cap : nat) (ops : list op) (s : st) : bool :=
  match ops with
  | [] => true
  | o :: r => op_ok cap s o && run_ok cap r (step cap s o)
  end.

Lemma sender_ok_okw : forall w, sender_ok (w_from w) = true -> okw letter (fun l => l) w.
Proof.
  intros w H. unfold okw, actual, intended. apply Nat.eqb_eq in H. rewrite H. reflexivity.
Qed.

Lemma op_ok_wf : forall cap s o, op_ok cap s o = true -> op_wf letter (fun l => l) o.
Proof.
  intros cap s o H. destruct o; simpl in *; auto.
  - apply orb_true_iff in H. destruct H as [H|H]; [left; exact H|].
    right. apply sender_ok_okw.
    repeat (apply andb_true_iff in H; destruct H as [H ?]). assumption.
  - repeat (apply andb_true_iff in H; destruct H as [H ?]).
    apply Forall_forall. intros w Hin. apply sender_ok_okw.
    match goal with F : forallb _ _ = true |- _ => rewrite forallb_forall in F; apply F; exact Hin end.
Qed.

Definition clean (s : st) : Prop := lost s = [] /\ dups s = [].

Lemma step_ok_clean : forall cap s o, op_ok cap s o = true -> clean s -> clean (step cap s o).
Proof.
  intros cap s o H [L D]. unfold clean.
  destruct o; simpl in *;
    unfold to_dl, remote_dl, drain_msg, lose, send_dl, set_dups, set_fq, set_cur, set_lost, set_mbox, delivered in *.
  - destruct (excluded k); auto. simpl in H. apply andb_true_iff in H. destruct H as [H H3]. apply andb_true_iff in H. destruct H as [H1 H2].
    rewrite H1, H3. simpl. destruct rcv; simpl in *; [auto|discriminate].
  - rewrite H. auto.
  - destruct accepted; simpl in *; auto. rewrite H. auto.
  - apply andb_true_iff in H. destruct H as [H1 H2]. rewrite H1, H2. auto.
  - destruct (w_payload w); simpl in *.
    2:{ discriminate. }
    destruct (w_meta w); simpl in *.
    + destruct t; simpl in *;
        try (repeat (apply andb_true_iff in H; destruct H as [H ?]);
             destruct (parse (w_to w)); simpl in *; try discriminate;
             repeat match goal with E : _ = true |- _ => rewrite E end; simpl; auto; fail).
      destruct accepted; simpl in *; auto.
      repeat (apply andb_true_iff in H; destruct H as [H ?]).
      repeat match goal with E : _ = true |- _ => rewrite E end; simpl; auto.
    + repeat (apply andb_true_iff in H; destruct H as [H ?]).
      destruct (parse (w_to w)); simpl in *; try discriminate.
      repeat match goal with E : _ = true |- _ => rewrite E end; simpl; auto.
  - repeat (apply andb_true_iff in H; destruct H as [H ?]).
    apply negb_true_iff in H. rewrite H.
    match goal with E : e_qon e = true |- _ => rewrite E end. simpl.
    match goal with E : (_ <? _) = true |- _ => apply Nat.ltb_lt in E;
      destruct (cap <=? length (fq s)) eqn:C; [apply Nat.leb_le in C; lia|] end.
    auto.
  - destruct (cur s); auto. destruct (fq s); auto.
  - destruct (cur s) as [|w r]; auto.
    apply andb_true_iff in H. destruct H as [H H4]. apply andb_true_iff in H. destruct H as [H H3].
    apply andb_true_iff in H. destruct H as [H1 H2].
    destruct (parse (w_to w)); simpl in *; try discriminate.
    unfold remote_dl, send_dl, lose, set_mbox, set_lost. rewrite H2, H3, H4. simpl. auto.
  - destruct (mbox s); auto.
  - auto.
Qed.

Lemma run_ok_clean_wf : forall cap ops s, run_ok cap ops s = true -> clean s ->
  clean (run cap ops s) /\ Forall (op_wf letter (fun l => l)) ops.
Proof.
  intros cap ops. induction ops as [|o ops IH]; intros s H C; simpl in *.
  - split; [exact C | constructor].
  - apply andb_true_iff in H. destruct H as [H1 H2].
    destruct (IH (step cap s o) H2 (step_ok_clean cap s o H1 C)) as [C' W].
    split; [exact C'|]. constructor; [eapply op_ok_wf; exact H1 | exact W].
Qed.

Theorem guarded_accounting : forall cap ops,
  run_ok cap ops init = true ->
  let s := run cap ops init in
  lost s = [] /\ dups s = [] /\
  Permutation (published s ++ pending s) (spec_drops ops ++ replays s).
Proof.
  intros cap ops H s.
  destruct (run_ok_clean_wf cap ops init H (conj eq_refl eq_refl)) as [[L D] W].
  fold s in L, D. split; [exact L|]. split; [exact D|].
  pose proof (run_accounting letter letter_eq_dec (fun l => l) cap ops W) as P. simpl in P. fold s in P.
  unfold lhs, rhs, pending in *. rewrite L, D in P. simpl in P.
  rewrite !map_id in P. rewrite app_nil_r in P. repeat rewrite <- app_assoc. exact P.
Qed.

Theorem guarded_exactly_once_at_quiescence : forall cap ops,
  run_ok cap ops init = true ->
  existsb is_publish_all ops = false ->
  let s := run cap ops init in
  quiescent s ->
  Permutation (published s) (spec_drops ops) /\ counter s = length (spec_drops ops) /\
  (NoDup (spec_drops ops) -> forall l, In l (spec_drops ops) -> count_occ letter_eq_dec (published s) l = 1).
Proof.
  intros cap ops H NP s (Q1 & Q2 & Q3).
  destruct (guarded_accounting cap ops H) as (_ & _ & P). fold s in P.
  unfold pending in P. rewrite Q1, Q2, Q3 in P. simpl in P.
  assert (R : replays s = []) by (unfold s; rewrite run_replays by exact NP; reflexivity).
  rewrite R in P. rewrite !app_nil_r in P.
  split; [exact P|]. split.
  - pose proof (counter_is_number_published cap ops NP) as CN. simpl in CN. fold s in CN.
    rewrite CN. apply Permutation_length, P.
  - intros ND l Hin. rewrite (proj1 (Permutation_count_occ letter_eq_dec _ _) P l).
    apply (proj1 (NoDup_count_occ' letter_eq_dec _) ND l Hin).
Qed.

(* ------------------------------------------------------------------ quiescence is always reachable *)

Lemma dl_all_mbox : forall cap n s, length (mbox s) = n ->
  mbox (run cap (repeat ODLStep n) s) = [] /\ cur (run cap (repeat ODLStep n) s) = cur s
  /\ fq (run cap (repeat ODLStep n) s) = fq s.
Proof.
  intros cap n. induction n as [|n IH]; intros s H; simpl.
  - destruct (mbox s); [auto|discriminate].
  - destruct (mbox s) as [|l r] eqn:M; [discriminate|].
    unfold run in *. simpl. rewrite ?M.
    match goal with |- context [fold_left _ _ ?s1] => specialize (IH s1) end.
    simpl in IH. apply IH. simpl in H. lia.
Qed.

Lemma drain_cur : forall cap e n s, length (cur s) = n ->
  cur (run cap (repeat (ODrainMsg e) n) s) = [] /\ fq (run cap (repeat (ODrainMsg e) n) s) = fq s.
Proof.
  intros cap e n. induction n as [|n IH]; intros s H; simpl.
  - destruct (cur s); [auto|discriminate].
  - destruct (cur s) as [|w r] eqn:C; [discriminate|].
    unfold run in *. simpl. rewrite ?C.
    destruct (drain_msg_cur_fq e w (set_cur s r)) as [H1 H2].
    match goal with |- context [fold_left _ _ ?s1] => specialize (IH s1) end.
    rewrite H1, H2 in IH. simpl in IH. apply IH. simpl in H. lia.
Qed.

Lemma run_app : forall cap a b s, run cap (a ++ b) s = run cap b (run cap a s).
Proof. intros. unfold run. apply fold_left_app. Qed.

Lemma drain_fq : forall cap e q s, cur s = [] -> fq s = q ->
  cur (run cap (flat_map (fun b => ODrainTake :: repeat (ODrainMsg e) (length b)) q) s) = [] /\
  fq (run cap (flat_map (fun b => ODrainTake :: repeat (ODrainMsg e) (length b)) q) s) = [].
Proof.
  intros cap e q. induction q as [|b q IH]; intros s C F.
  - simpl. unfold run. simpl. auto.
  - cbn [flat_map].
    set (rest := flat_map (fun b0 => ODrainTake :: repeat (ODrainMsg e) (length b0)) q) in *.
    replace ((ODrainTake :: repeat (ODrainMsg e) (length b)) ++ rest)
      with ([ODrainTake] ++ (repeat (ODrainMsg e) (length b) ++ rest)) by reflexivity.
    rewrite run_app, run_app.
    assert (S1 : cur (run cap [ODrainTake] s) = b /\ fq (run cap [ODrainTake] s) = q).
    { unfold run. simpl. rewrite C, F. simpl. auto. }
    destruct S1 as [C1 F1].
    destruct (drain_cur cap e (length b) (run cap [ODrainTake] s)) as [C2 F2]; [rewrite C1; reflexivity|].
    apply IH; [exact C2 | rewrite F2; exact F1].
Qed.

Theorem quiescence_reachable : forall cap (e : env) s,
  exists ops', Forall (fun o => match o with ODrainTake | ODrainMsg _ | ODLStep => True | _ => False end) ops'
               /\ quiescent (run cap ops' s).
Proof.
  intros cap e s.
  set (s1 := run cap (drain_all_ops e s) s).
  exists (drain_all_ops e s ++ dl_all_ops s1).
  split.
  - apply Forall_app. split.
    + unfold drain_all_ops. apply Forall_app. split.
      * apply Forall_forall. intros o Hin. apply repeat_spec in Hin. subst. exact I.
      * apply Forall_forall. intros o Hin. apply in_flat_map in Hin. destruct Hin as (b & _ & [Hb|Hb]).
        -- subst. exact I.
        -- apply repeat_spec in Hb. subst. exact I.
    + apply Forall_forall. intros o Hin. apply repeat_spec in Hin. subst. exact I.
  - rewrite run_app. fold s1.
    assert (D : cur s1 = [] /\ fq s1 = []).
    { unfold s1, drain_all_ops. rewrite run_app.
      destruct (drain_cur cap e (length (cur s)) s eq_refl) as [C F].
      apply drain_fq; [exact C | exact F]. }
    destruct D as [C F].
    destruct (dl_all_mbox cap (length (mbox s1)) s1 eq_refl) as (M & C2 & F2).
    unfold quiescent, dl_all_ops. rewrite M, C2, F2, C, F. auto.
Qed.

(* ------------------------------------------------------------------ single-step facts: which messages, which target states *)

(** every message kind other than PostStart / Terminated / SendDeadletter that reaches the drop site of a
    running, addressable actor is handed to the dead-letter actor — in particular the reentrancy envelopes *)
Lemma local_drop_sends : forall cap s e snd r k mid,
  excluded k = false -> e_dl e = true ->
  step cap s (OLocal e true snd (Some r) k mid) = send_dl (mid, sender_of snd, r) s
  /\ spec_op (OLocal e true snd (Some r) k mid) = [(mid, sender_of snd, r)].
Proof. intros cap s e snd r k mid Hk He. simpl. rewrite Hk. simpl. unfold to_dl. rewrite He. auto. Qed.

Lemma local_excluded_silent : forall cap s e stream snd rcv k mid,
  excluded k = true ->
  step cap s (OLocal e stream snd rcv k mid) = s /\ spec_op (OLocal e stream snd rcv k mid) = [].
Proof. intros. simpl. rewrite H. auto. Qed.

(** a remote tell that finds its target in the tree but not running (any of: running bit clear, stopping,
    suspended, passivating) is dead-lettered and never enqueued; a running target gets it *)
Lemma remote_target_state : forall cap s e w p r,
  w_payload w = true -> w_meta w = true -> parse (w_to w) = Some r -> e_dl e = true -> e_guard e = true ->
  (is_running p = false ->
     step cap s (ORemote e w (tree_of_state p true)) = send_dl (w_mid w, sender_remote (w_from w), r) s
     /\ spec_op (ORemote e w (tree_of_state p true)) = [intended w])
  /\ (is_running p = true ->
     step cap s (ORemote e w (tree_of_state p true)) = s /\ spec_op (ORemote e w (tree_of_state p true)) = []).
Proof.
  intros cap s e w p r Hp Hm Hr Hd Hg. unfold tree_of_state. split; intros Hrun; rewrite Hrun; simpl;
    unfold delivered; rewrite Hp, Hm; simpl.
  - rewrite Hr. unfold remote_dl. rewrite Hd, Hg. auto.
  - auto.
Qed.

Example is_running_table :
  map is_running [PS true false false false; PS true true false false; PS true false true false;
                  PS true false false true; PS false false false false; PS true true true true]
  = [true; false; false; false; false; false].
Proof. reflexivity. Qed.

(* ------------------------------------------------------------------ what the guard excludes: witnesses *)

Definition eup : env := E true true false true.      (* everything running, queue present *)
Definition wgood (mid : nat) (from to : addr) : wmsg := W mid (WGood from) (WGood to) true true.

(** (1) the bounded fan-out queue: cap+1 failed one-message batches while the drain goroutine is not
        scheduled; afterwards everything is drained and handled: the last message has no dead letter. *)
Definition wit_queue (cap : nat) : list op :=
  map (fun i => OCoalesce eup [wgood (S i) 5 9]) (seq 0 (S cap)).
Definition flush_ops (cap : nat) (ops : list op) : list op :=
  let s := run cap ops init in
  let s1 := run cap (drain_all_ops eup s) s in
  ops ++ drain_all_ops eup s ++ dl_all_ops s1.

Definition letter_eqb (a b : letter) : bool := if letter_eq_dec a b then true else false.
Definition inb (l : letter) (ls : list letter) : bool := existsb (letter_eqb l) ls.
Definition quiescentb (s : st) : bool :=
  match mbox s, cur s, fq s with [], [], [] => true | _, _, _ => false end.
Lemma quiescentb_ok : forall s, quiescentb s = true -> quiescent s.
Proof. unfold quiescentb, quiescent. intros s. destruct (mbox s), (cur s), (fq s); intros; try discriminate; auto. Qed.
Lemma inb_ok : forall l ls, inb l ls = true -> In l ls.
Proof.
  unfold inb. intros l ls H. apply existsb_exists in H. destruct H as (x & Hin & E).
  unfold letter_eqb in E. destruct (letter_eq_dec l x); [subst; exact Hin | discriminate].
Qed.

Definition wq256 : list op := flush_ops 256 (wit_queue 256).

Lemma refuted_queue_full_256_b :
  quiescentb (run 256 wq256 init) = true /\ inb (257, 5, 9) (spec_drops wq256) = true
  /\ inb (257, 5, 9) (published (run 256 wq256 init)) = false
  /\ lost (run 256 wq256 init) = [(CQueueFull, (257, 5, 9))].
Proof. vm_compute. repeat split; reflexivity. Qed.

Lemma refuted_queue_full_256 :
  exists ops, let s := run 256 ops init in
    quiescent s /\ In (257, 5, 9) (spec_drops ops) /\ inb (257, 5, 9) (published s) = false
    /\ lost s = [(CQueueFull, (257, 5, 9))].
Proof.
  exists wq256. destruct refuted_queue_full_256_b as (H1 & H2 & H3 & H4).
  split; [apply quiescentb_ok; exact H1|]. split; [apply inb_ok; exact H2|]. split; assumption.
Qed.

(** (2) a receiver whose canonical string address.Parse rejects (raw IPv6 host): no dead letter *)
Definition wit_v6_receiver : list op :=
  [ORemote eup (W 1 (WGood 13) (WBad 9) true true) TMissing; ODLStep].
Lemma refuted_unparseable_receiver :
  spec_drops wit_v6_receiver = [(1, 13, 9)] /\ published (run 256 wit_v6_receiver init) = []
  /\ quiescent (run 256 wit_v6_receiver init)
  /\ lost (run 256 wit_v6_receiver init) = [(CRecvParse, (1, 13, 9))].
Proof. vm_compute. repeat split; reflexivity. Qed.

(** (3) a sender whose canonical string does not parse: the dead letter names NoSender instead *)
Definition wit_v6_sender : list op :=
  [ORemote eup (W 1 (WBad 13) (WGood 9) true true) TMissing; ODLStep].
Lemma refuted_unparseable_sender :
  spec_drops wit_v6_sender = [(1, 13, 9)] /\ published (run 256 wit_v6_sender init) = [(1, nosender, 9)].
Proof. vm_compute. split; reflexivity. Qed.

(** (4) an Ask whose enqueue fails: dead-lettered by doReceive and again when the timer fires *)
Definition wit_ask_twice : list op :=
  [OAskSend eup false (SPid 5) 2 1; OAskTimeout eup false (SPid 5) 2 1; ODLStep; ODLStep].
Lemma refuted_ask_twice :
  spec_drops wit_ask_twice = [(1, 5, 2)] /\ published (run 256 wit_ask_twice init) = [(1, 5, 2); (1, 5, 2)]
  /\ counter (run 256 wit_ask_twice init) = 2.
Proof. vm_compute. repeat split; reflexivity. Qed.

(** (5) undecodable payload, dead-letter actor / guardian not running, system shutting down: also lost *)
Definition wit_other : list op :=
  [ORemote eup (W 1 (WGood 13) (WGood 9) false true) TMissing;
   ORemote (E false true false true) (wgood 2 13 9) TMissing;
   ORemote (E true false false true) (wgood 3 13 9) TMissing;
   OCoalesce (E true true true true) [wgood 4 5 9];
   OLocal (E false true true true) true (SPid 5) (Some 3) KUser 5].
Lemma refuted_other :
  map fst (lost (run 256 wit_other init)) = [CPayload; CDLDown; CDLDown; CShut; CDLDown]
  /\ map snd (lost (run 256 wit_other init)) = spec_drops wit_other
  /\ published (run 256 wit_other init) = [] /\ pending (run 256 wit_other init) = [].
Proof. vm_compute. repeat split; reflexivity. Qed.

(* ------------------------------------------------------------------ the hypotheses are satisfiable (non-trivial run) *)

Definition ex_ops : list op :=
  [OLocal eup true (SPid 5) (Some 1) KUser 1;                (* Unhandled *)
   OLocal eup true SNoSender (Some 2) KUser 2;               (* full mailbox, no sender *)
   OLocal eup true (SPid 5) (Some 3) KPostStart 0;           (* excluded kind *)
   ORemote eup (wgood 3 13 9) TMissing;
   OCoalesce eup [wgood 4 5 10; wgood 5 6 11];
   ODLStep;
   ORemote eup (wgood 6 14 2) (TOk false);
   ORemote eup (wgood 7 14 3) (TOk true);                    (* delivered: no drop *)
   OAskSend eup true (SPid 5) 4 8; OAskTimeout eup true (SPid 5) 4 8;
   ODrainTake; ODLStep; ODrainMsg eup; ODLStep; ODrainMsg eup;
   ODLStep; ODLStep; ODLStep; ODLStep; ODLStep].
Example ex_guard_holds :
  run_ok 256 ex_ops init = true /\ existsb is_publish_all ex_ops = false
  /\ mbox (run 256 ex_ops init) = [] /\ cur (run 256 ex_ops init) = [] /\ fq (run 256 ex_ops init) = []
  /\ length (spec_drops ex_ops) = 7 /\ counter (run 256 ex_ops init) = 7.
Proof. vm_compute. repeat split; reflexivity. Qed.
