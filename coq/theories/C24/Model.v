(* C24 — connection compression (internal/net/compress*.go).
   compressedConn.Write p  =  writer.Write p ; writer.Flush        (compress.go)
   compressedConn.Read     =  reader.Read, the reader being created lazily on the first Read (gzip)
   The codecs themselves (DEFLATE, zstd, brotli) are external: they appear as an abstract streaming
   codec [codec] with an explicit contract ([codec_ok]); every theorem is for ALL codecs meeting it. *)
From Coq Require Import NArith List Bool.
From GV Require Import Lib.Bytes.
Import ListNotations.

Record codec := {
  E : Type;                         (* encoder state *)
  D : Type;                         (* decoder state *)
  e_reset : E;                      (* state after Reset(conn) — what Wrap establishes, also on pool reuse *)
  d_reset : D;                      (* state of a reader before its first Read (lazy initialisation included) *)
  e_write : E -> bytes -> E * bytes;   (* Write: new state, bytes put on the wire *)
  e_flush : E -> E * bytes;            (* Flush *)
  d_feed : D -> bytes -> D * bytes     (* wire bytes arriving -> decoded bytes that become readable *)
}.

Inductive wop := OpWrite (p : bytes) | OpFlush.

Section Conn.
  Variable c : codec.

  (* run encoder operations: final state and everything put on the wire *)
  Fixpoint enc_run (e : E c) (ops : list wop) : E c * bytes :=
    match ops with
    | [] => (e, [])
    | OpWrite p :: r => let '(e1, o1) := e_write c e p in let '(e2, o2) := enc_run e1 r in (e2, o1 ++ o2)
    | OpFlush :: r => let '(e1, o1) := e_flush c e in let '(e2, o2) := enc_run e1 r in (e2, o1 ++ o2)
    end.
  Definition wire (ops : list wop) : bytes := snd (enc_run (e_reset c) ops).
  Definition written (ops : list wop) : bytes :=
    concat (map (fun o => match o with OpWrite p => p | OpFlush => [] end) ops).

  (* the transport delivers the wire bytes in order, cut into arbitrary segments *)
  Fixpoint dec_run (d : D c) (chunks : list bytes) : D c * bytes :=
    match chunks with
    | [] => (d, [])
    | ch :: r => let '(d1, o1) := d_feed c d ch in let '(d2, o2) := dec_run d1 r in (d2, o1 ++ o2)
    end.
  Definition readable (chunks : list bytes) : bytes := snd (dec_run (d_reset c) chunks).

  (* compressedConn.Write: write, then flush *)
  Definition conn_write_ops (p : bytes) : list wop := [OpWrite p; OpFlush].
  Definition conn_ops (ws : list bytes) : list wop := flat_map conn_write_ops ws.
  (* the mutant "Write without Flush" *)
  Definition noflush_ops (ws : list bytes) : list wop := map OpWrite ws.

  (* what a peer can read after the first k Writes of ws have returned, the wire being segmented as chunks *)
  Definition peer_can_read (ws : list bytes) (k : nat) (chunks : list bytes) : bytes := readable chunks.

  (* contract *)
  Definition seg_independent : Prop :=
    (forall d a b, dec_run d [a ++ b] = dec_run d [a; b]) /\ (forall d, d_feed c d [] = (d, [])).
  Definition sync_flush : Prop :=
    forall ops, readable [wire (ops ++ [OpFlush])] = written ops.
  Definition codec_ok : Prop := seg_independent /\ sync_flush.

  (* Read(p) hands out at most len(p) of the readable bytes, oldest first *)
  Fixpoint reads (avail : bytes) (sizes : list nat) : list bytes :=
    match sizes with
    | [] => []
    | n :: r => firstn n avail :: reads (skipn n avail) r
    end.
End Conn.

(* ---- two concrete codecs, used to evaluate the model and as (counter-)examples *)

(* identity ("none"): every byte goes straight to the wire *)
Definition id_codec : codec :=
  {| E := unit; D := unit; e_reset := tt; d_reset := tt;
     e_write := fun _ p => (tt, p); e_flush := fun _ => (tt, []); d_feed := fun _ b => (tt, b) |}.

(* a buffering codec: Write only accumulates, Flush emits ONE block [u32 length; bytes] (an empty block
   when nothing is pending — the "sync marker"); the decoder releases a block only once it has all of
   it, as a decompressor does *)
Fixpoint unblocks (fuel : nat) (buf : bytes) : bytes * bytes :=   (* (released, kept) *)
  match fuel with
  | O => ([], buf)
  | S f =>
      match rd32 buf with
      | None => ([], buf)
      | Some n =>
          match slice 4 (4 + n) buf, slice_from (4 + n) buf with
          | Some b, Some rest => let '(o, k) := unblocks f rest in (b ++ o, k)
          | _, _ => ([], buf)
          end
      end
  end.
Definition buf_codec : codec :=
  {| E := bytes; D := bytes; e_reset := []; d_reset := [];
     e_write := fun pend p => (pend ++ p, []);
     e_flush := fun pend => ([], be32 (blen pend) ++ pend);
     d_feed := fun buf b => let '(o, k) := unblocks (S (length (buf ++ b))) (buf ++ b) in (k, o) |}.
