(* C24 — the gzip wrapper's lazy reader and the reader pool (compress_gzip.go).
   Wrap takes a *gzip.Reader from the pool and builds a NEW gzipLazyReader around it; the first Read
   runs Reset (reads the stream header) exactly once (sync.Once) and a failure is sticky for that
   connection only. The closer returns only the gzip.Reader to the pool. Consequently what earlier
   connections did — in particular handshakes that failed in the header — cannot influence a later
   connection. The alternative "pool the lazy reader and re-arm it only if it was initialised" does. *)
From Coq Require Import NArith List Bool.
From GV Require Import Lib.Bytes C24.Model C24.Proofs.
Import ListNotations.

Section Lazy.
  Variable c : codec.
  Variable header_ok : bytes -> bool.   (* the stream header can be read from the bytes that arrived *)

  Inductive lazy := Fresh | Ready (d : D c) | Failed.

  (* gzipLazyReader.Read on the bytes that have arrived; None = error returned to the caller *)
  Definition lazy_read (l : lazy) (arrived : bytes) : lazy * option bytes :=
    match l with
    | Fresh => if header_ok arrived
               then let '(d, o) := d_feed c (d_reset c) arrived in (Ready d, Some o)
               else (Failed, None)
    | Ready d => let '(d', o) := d_feed c d arrived in (Ready d', Some o)
    | Failed => (Failed, None)
    end.

  (* one earlier connection on the same wrapper: what arrived at each of its Reads *)
  Definition conn_history := list bytes.
  Fixpoint run_reads (l : lazy) (h : conn_history) : lazy :=
    match h with [] => l | a :: r => run_reads (fst (lazy_read l a)) r end.

  (* the code as it is: pool of decoder objects, a new lazy reader per Wrap *)
  Definition wrap_real (pool : list (D c)) : lazy := Fresh.
  Definition close_real (pool : list (D c)) (l : lazy) : list (D c) :=
    match l with Ready d => d :: pool | _ => d_reset c :: pool end.
  Fixpoint after_history_real (pool : list (D c)) (hs : list conn_history) : list (D c) :=
    match hs with
    | [] => pool
    | h :: r => after_history_real (close_real pool (run_reads (wrap_real pool) h)) r
    end.

  (* the variant: pool of lazy readers, re-armed on close only when they had been initialised *)
  Definition close_variant (l : lazy) : lazy := match l with Ready _ => Fresh | other => other end.
  Fixpoint after_history_variant (pooled : lazy) (hs : list conn_history) : lazy :=
    match hs with
    | [] => pooled
    | h :: r => after_history_variant (close_variant (run_reads pooled h)) r
    end.

  (* whatever happened on earlier connections, a new connection's reader starts fresh *)
  Theorem wrap_fresh_after_any_history pool hs : wrap_real (after_history_real pool hs) = Fresh.
  Proof. reflexivity. Qed.

  (* ... so its first Read succeeds whenever its own stream header is readable *)
  Theorem first_read_after_any_history pool hs arrived :
    header_ok arrived = true ->
    snd (lazy_read (wrap_real (after_history_real pool hs)) arrived) = Some (snd (d_feed c (d_reset c) arrived)).
  Proof.
    intros H. unfold wrap_real. cbn [lazy_read]. rewrite H. destruct (d_feed c (d_reset c) arrived). reflexivity.
  Qed.

  (* the variant is poisoned for ever by ONE connection whose first read failed in the header *)
  Theorem variant_poisoned bad hs arrived :
    header_ok bad = false ->
    snd (lazy_read (after_history_variant Fresh ([bad] :: hs)) arrived) = None.
  Proof.
    intros Hbad. cbn [after_history_variant run_reads lazy_read]. rewrite Hbad. cbn [fst close_variant].
    assert (H : forall hs, after_history_variant Failed hs = Failed).
    { induction hs0 as [|h r IH]; [reflexivity|]. cbn [after_history_variant].
      assert (Hr : forall h, run_reads Failed h = Failed) by (induction h0; cbn; auto).
      rewrite Hr. cbn [close_variant]. apply IH. }
    rewrite H. reflexivity.
  Qed.
End Lazy.
