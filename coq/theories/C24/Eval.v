(* C24 — evaluation support (not in the proofs' closure): run the connection model over the
   buffering codec on the write sequences the real wrappers were driven with, with a re-segmenting
   transport, and report per Write how many bytes became readable and their checksum. *)
From Coq Require Import NArith List Bool.
From GV Require Import Lib.Bytes C24.Model.
Import ListNotations.
Open Scope N_scope.

Definition fnv (b : bytes) : N :=
  fold_left (fun s x => (N.lxor s x * 1099511628211) mod 18446744073709551616) b 1469598103934665603.

Fixpoint split_every (fuel : nat) (n : nat) (l : bytes) : list bytes :=
  match fuel with
  | O => [l]
  | S f => match l with [] => [] | _ => firstn n l :: split_every f n (skipn n l) end
  end.

Section R.
  Variable c : codec.
  (* one direction of a connection: per Write (bytes readable afterwards, checksum, wire bytes) *)
  Fixpoint run_dir (e : E c) (d : D c) (seg : nat) (ws : list bytes) : list (N * N) :=
    match ws with
    | [] => []
    | p :: r =>
        let '(e1, o1) := e_write c e p in
        let '(e2, o2) := e_flush c e1 in
        let wire := o1 ++ o2 in
        let '(d1, got) := dec_run c d (split_every (S (length wire)) seg wire) in
        (blen got, fnv got) :: run_dir e2 d1 seg r
    end.
  Definition run_conn (seg : nat) (ws : list bytes) : list (N * N) := run_dir (e_reset c) (d_reset c) seg ws.
End R.

Fixpoint pairs_eq (a b : list (N * N)) : bool :=
  match a, b with
  | [], [] => true
  | (x, y) :: a', (x', y') :: b' => (x =? x') && (y =? y') && pairs_eq a' b'
  | _, _ => false
  end.
