(* C24 — proofs: for every codec meeting the contract, after each Write returns the peer can read
   exactly everything written so far, whatever the write sizes and the transport segmentation. *)
From Coq Require Import NArith Arith PeanoNat List Bool Lia.
From GV Require Import Lib.Bytes C24.Model.
Import ListNotations.

Section P.
  Variable c : codec.
  Hypothesis Hok : codec_ok c.

  Lemma enc_run_app e ops1 ops2 :
    enc_run c e (ops1 ++ ops2) =
      let '(e1, o1) := enc_run c e ops1 in let '(e2, o2) := enc_run c e1 ops2 in (e2, o1 ++ o2).
  Proof.
    revert e. induction ops1 as [|o r IH]; intros e; cbn [app enc_run].
    - destruct (enc_run c e ops2). reflexivity.
    - destruct o.
      + destruct (e_write c e p) as [e1 o1]. rewrite IH.
        destruct (enc_run c e1 r) as [e2 o2]. destruct (enc_run c e2 ops2) as [e3 o3]. rewrite app_assoc. reflexivity.
      + destruct (e_flush c e) as [e1 o1]. rewrite IH.
        destruct (enc_run c e1 r) as [e2 o2]. destruct (enc_run c e2 ops2) as [e3 o3]. rewrite app_assoc. reflexivity.
  Qed.

  Lemma dec_run_app d a b :
    dec_run c d (a ++ b) =
      let '(d1, o1) := dec_run c d a in let '(d2, o2) := dec_run c d1 b in (d2, o1 ++ o2).
  Proof.
    revert d. induction a as [|ch r IH]; intros d; cbn [app dec_run].
    - destruct (dec_run c d b). reflexivity.
    - destruct (d_feed c d ch) as [d1 o1]. rewrite IH.
      destruct (dec_run c d1 r) as [d2 o2]. destruct (dec_run c d2 b) as [d3 o3]. rewrite app_assoc. reflexivity.
  Qed.

  (* the transport's segmentation is irrelevant *)
  Lemma dec_run_concat chunks : forall d, dec_run c d chunks = dec_run c d [concat chunks].
  Proof.
    destruct Hok as [[Hseg Hnil] _].
    induction chunks as [|ch r IH]; intros d.
    - cbn. rewrite Hnil. reflexivity.
    - cbn [concat]. rewrite Hseg. cbn [dec_run]. destruct (d_feed c d ch) as [d1 o1].
      rewrite IH. cbn [dec_run]. reflexivity.
  Qed.

  Lemma written_app a b : written (a ++ b) = written a ++ written b.
  Proof. unfold written. rewrite map_app, concat_app. reflexivity. Qed.

  Lemma written_conn_ops ws : written (conn_ops ws) = concat ws.
  Proof.
    induction ws as [|p r IH]; [reflexivity|]. unfold conn_ops in *. cbn [flat_map conn_write_ops app].
    change (OpWrite p :: OpFlush :: flat_map conn_write_ops r) with ([OpWrite p; OpFlush] ++ flat_map conn_write_ops r).
    rewrite written_app, IH. cbn. rewrite app_nil_r. reflexivity.
  Qed.

  Lemma conn_ops_snoc ws p : conn_ops (ws ++ [p]) = (conn_ops ws ++ [OpWrite p]) ++ [OpFlush].
  Proof. unfold conn_ops. rewrite flat_map_app. cbn. rewrite <- app_assoc. reflexivity. Qed.

  (* after the Writes ws have returned, a peer that has received the wire bytes in ANY segmentation
     can read exactly the concatenation of ws *)
  Theorem conn_lossless_prompt ws chunks :
    concat chunks = wire c (conn_ops ws) -> readable c chunks = concat ws.
  Proof.
    intros Hch. unfold readable. rewrite dec_run_concat. rewrite Hch.
    destruct Hok as [[_ Hnil] Hflush].
    destruct ws as [|p r] using rev_ind.
    - cbn. rewrite Hnil. reflexivity.
    - rewrite conn_ops_snoc. unfold sync_flush, readable in Hflush. rewrite Hflush.
      rewrite written_app, written_conn_ops. cbn. rewrite app_nil_r, concat_app. cbn. rewrite app_nil_r. reflexivity.
  Qed.

  (* stated for every prefix of the write sequence: promptness after EACH Write *)
  Theorem conn_prompt_after_each_write ws k chunks :
    concat chunks = wire c (conn_ops (firstn k ws)) -> readable c chunks = concat (firstn k ws).
  Proof. apply conn_lossless_prompt. Qed.

  (* the wire only grows: what was sent before a later Write is a prefix of what is sent after it *)
  Theorem wire_extends ws p : exists more, wire c (conn_ops (ws ++ [p])) = wire c (conn_ops ws) ++ more.
  Proof.
    unfold wire, conn_ops. rewrite flat_map_app, enc_run_app.
    destruct (enc_run c (e_reset c) (flat_map conn_write_ops ws)) as [e1 o1].
    destruct (enc_run c e1 (flat_map conn_write_ops [p])) as [e2 o2]. exists o2. reflexivity.
  Qed.

  (* a reader that keeps its state: the bytes that BECOME readable when the segments carrying one
     more Write arrive are exactly the bytes of that Write *)
  Theorem conn_incremental ws p chunks more :
    concat chunks = wire c (conn_ops ws) ->
    concat (chunks ++ more) = wire c (conn_ops (ws ++ [p])) ->
    snd (dec_run c (fst (dec_run c (d_reset c) chunks)) more) = p.
  Proof.
    intros H1 H2.
    pose proof (conn_lossless_prompt ws chunks H1) as R1.
    pose proof (conn_lossless_prompt (ws ++ [p]) (chunks ++ more) H2) as R2.
    unfold readable in *. rewrite dec_run_app in R2.
    destruct (dec_run c (d_reset c) chunks) as [d1 o1]. cbn [fst snd] in *.
    destruct (dec_run c d1 more) as [d2 o2]. cbn [snd] in *. subst o1.
    rewrite concat_app in R2. cbn in R2. rewrite app_nil_r in R2. apply app_inv_head in R2. assumption.
  Qed.
End P.

(* Read calls with arbitrary buffer sizes hand the readable bytes out in order, without loss *)
Theorem reads_in_order avail sizes : concat (reads avail sizes) = firstn (fold_right Nat.add 0%nat sizes) avail.
Proof.
  revert avail. induction sizes as [|n r IH]; intros avail; cbn [reads concat fold_right].
  - reflexivity.
  - rewrite IH. rewrite <- (firstn_skipn n avail) at 3.
    rewrite firstn_app. rewrite firstn_length.
    destruct (Nat.le_gt_cases n (length avail)) as [H|H].
    + rewrite Nat.min_l by assumption. replace (n + fold_right Nat.add 0 r - n)%nat with (fold_right Nat.add 0%nat r) by lia.
      rewrite firstn_firstn. rewrite Nat.min_r by lia. reflexivity.
    + rewrite Nat.min_r by lia. rewrite firstn_firstn. rewrite Nat.min_r by lia.
      rewrite (skipn_all2 avail) by lia. rewrite !firstn_nil. reflexivity.
Qed.

(* the contract is satisfiable: the identity codec ("no compression") meets it *)
Theorem id_codec_ok : codec_ok id_codec.
Proof.
  split; [split|].
  - intros [] a b. cbn. rewrite !app_nil_r. reflexivity.
  - intros []. reflexivity.
  - intros ops. unfold readable, wire. cbn [dec_run id_codec d_feed d_reset]. cbn. rewrite app_nil_r.
    assert (H : forall l e, snd (enc_run id_codec e l) = written l).
    { induction l as [|o r IH]; intros []; [reflexivity|]. destruct o; cbn [enc_run id_codec e_write e_flush].
      - specialize (IH tt). destruct (enc_run id_codec tt r). cbn in *. unfold written in *. cbn. rewrite IH. reflexivity.
      - specialize (IH tt). destruct (enc_run id_codec tt r). cbn in *. unfold written in *. cbn. rewrite IH. reflexivity. }
    rewrite H. rewrite written_app. cbn. rewrite app_nil_r. reflexivity.
Qed.

(* the Flush in compressedConn.Write is necessary: with a codec that buffers (as every real
   compressor does) a Write that is not followed by Flush puts nothing on the wire *)
Theorem flush_needed :
  readable buf_codec [wire buf_codec (conn_ops [[1; 2; 3]%N; [4]%N])] = [1; 2; 3; 4]%N
  /\ readable buf_codec [wire buf_codec (noflush_ops [[1; 2; 3]%N; [4]%N])] = [].
Proof. split; vm_compute; reflexivity. Qed.
