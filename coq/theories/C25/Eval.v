(* C25 — evaluation support (not in the proofs' closure): instantiate the abstract dispatch model with
   the behaviour tables recorded from the real serializers for one (configuration, message) pair and
   compute what resolveSerializer / dispatch.Serialize / dispatch.Deserialize must do.
   Messages are numbered (0 = the message under test), a real frame number f is the byte string [f]. *)
From Coq Require Import NArith List Bool.
From GV Require Import Lib.Bytes C25.Model.
Import ListNotations.
Open Scope N_scope.

(* one entry as recorded: type matches?, interface entry?, is *remote.ProtoSerializer?, frame its
   Serialize produced, and per frame the message its Deserialize produced *)
Definition rec_entry := (bool * bool * bool * option N * list (option N))%type.

Definition nth_opt (l : list (option N)) (i : N) : option N := nth (N.to_nat i) l None.

Definition mk_entry (r : rec_entry) : entry N :=
  let '(mt, ifc, isp, s, tbl) := r in
  {| matches := fun _ => mt; is_iface := ifc;
     e_ser := {| ser := fun _ => match s with Some f => Some [f] | None => None end;
                 deser := fun data => match data with [f] => nth_opt tbl f | _ => None end;
                 is_proto := isp |} |}.

Definition mk_fast (fs : list bool) (data : bytes) : bool :=
  match data with [f] => nth (N.to_nat f) fs false | _ => false end.

Definition frame_no (o : option bytes) : option N := match o with Some [f] => Some f | _ => None end.

(* expected: resolve index, dispatch.Serialize frame, dispatch.Deserialize per frame *)
Definition run_case (rs : list rec_entry) (fs : list bool)
  : option nat * option N * list (option N) :=
  let es := map mk_entry rs in
  (resolve_idx N es 0, frame_no (d_serialize N es 0),
   map (fun f => d_deserialize N (mk_fast fs) es [N.of_nat f]) (seq 0 (length fs))).

Definition opt_eqb (a b : option N) : bool :=
  match a, b with Some x, Some y => x =? y | None, None => true | _, _ => false end.
Fixpoint opts_eqb (a b : list (option N)) : bool :=
  match a, b with
  | [], [] => true
  | x :: a', y :: b' => opt_eqb x y && opts_eqb a' b'
  | _, _ => false
  end.
Definition optnat_eqb (a : option nat) (b : option N) : bool :=
  match a, b with Some x, Some y => N.of_nat x =? y | None, None => true | _, _ => false end.

Definition check_case (rs : list rec_entry) (fs : list bool) (r_resolve r_dser : option N) (r_ddeser : list (option N)) : bool :=
  let '(a, b, c) := run_case rs fs in
  optnat_eqb a r_resolve && opt_eqb b r_dser && opts_eqb c r_ddeser.

(* ---- byte-level cases from the actor package: Terminated / PoisonPill frames *)
From GV Require Import C23.Model.

(* dec: 1 terminated, 2 poison, 3 shared layout (proto/cbor/json, structural part only), 4 delivery *)
Definition check_wire (kind dec : N) (data path : bytes) (nanos : N) (ok parse_ok : bool) : bool :=
  match dec with
  | 1 =>
      (* round-trip cases also check the encoder byte for byte *)
      (if kind =? 1 then beq (terminated_ser path nanos) data else true) &&
      match terminated_deser data with
      | Some (p, n) => if ok then beq p path && (n =? nanos) else negb parse_ok
      | None => negb ok
      end
  | 2 => Bool.eqb (poison_deser data) ok && (if kind =? 1 then beq poison_ser data else true)
  | 3 => Bool.eqb (match shared_deser (fun _ => true) bytes (fun _ p => Some p) data with Some _ => true | None => false end) ok
  | 4 => Bool.eqb (match delivery_deser data with Some _ => true | None => false end) ok
  | _ => false
  end.
