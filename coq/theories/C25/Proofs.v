(* C25 — proofs about the serializer dispatch (abstract) *)
From Coq Require Import NArith Arith List Bool Lia Permutation.
From GV Require Import Lib.Bytes C25.Model.
Import ListNotations.

Section P.
  Variable Msg : Type.
  Variable fast : bytes -> bool.
  Notation entry := (entry Msg).
  Notation serializer := (serializer Msg).

  (* ---- Serialize picks the first entry whose serializer accepts the message *)
  Lemma d_serialize_first es m :
    d_serialize Msg es m = match first_accepting Msg es m with Some (_, b) => Some b | None => None end.
  Proof.
    induction es as [|e r IH]; cbn; [reflexivity|].
    destruct (ser (e_ser e) m); [reflexivity|]. rewrite IH. destruct (first_accepting Msg r m) as [[i b]|]; reflexivity.
  Qed.

  Lemma first_accepting_spec es m i b :
    first_accepting Msg es m = Some (i, b) ->
    exists e, nth_error es i = Some e /\ ser (e_ser e) m = Some b /\
              forall j ej, (j < i)%nat -> nth_error es j = Some ej -> ser (e_ser ej) m = None.
  Proof.
    revert i. induction es as [|e r IH]; intros i H; cbn in H; [discriminate|].
    destruct (ser (e_ser e) m) as [b'|] eqn:E.
    - injection H as <- <-. exists e. repeat split; auto. intros j ej Hj. lia.
    - destruct (first_accepting Msg r m) as [[i' b']|] eqn:E'; [|discriminate]. injection H as <- <-.
      destruct (IH i' eq_refl) as (e' & Hn & Hs & Hb). exists e'. repeat split; auto.
      intros j ej Hj Hnj. destruct j; cbn in Hnj; [injection Hnj as <-; assumption|]. apply (Hb j); [lia|assumption].
  Qed.

  (* ---- the ordered loop returns the first acceptor's result *)
  Lemma d_loop_first es data : forall i e m,
    nth_error es i = Some e -> deser (e_ser e) data = Some m ->
    (forall j ej, (j < i)%nat -> nth_error es j = Some ej -> deser (e_ser ej) data = None) ->
    d_loop Msg es data = Some m.
  Proof.
    induction es as [|e0 r IH]; intros i e m Hn Hd Hb; [destruct i; discriminate|].
    destruct i; cbn in Hn.
    - injection Hn as ->. cbn. rewrite Hd. reflexivity.
    - cbn. rewrite (Hb 0%nat e0) by (try lia; reflexivity).
      apply (IH i e m Hn Hd). intros j ej Hj Hnj. apply (Hb (S j) ej); [lia|assumption].
  Qed.

  Lemma d_loop_none es data : (forall e, In e es -> deser (e_ser e) data = None) -> d_loop Msg es data = None.
  Proof.
    induction es as [|e r IH]; intros H; [reflexivity|]. cbn. rewrite (H e) by (left; reflexivity).
    apply IH. intros e' Hin. apply H. right. assumption.
  Qed.

  Lemma d_loop_some es data m : d_loop Msg es data = Some m -> exists e, In e es /\ deser (e_ser e) data = Some m.
  Proof.
    induction es as [|e r IH]; cbn; [discriminate|]. destruct (deser (e_ser e) data) as [m'|] eqn:E.
    - intros H. injection H as <-. exists e. split; [left; reflexivity|assumption].
    - intros H. destruct (IH H) as (e' & Hin & Hd). exists e'. split; [right; assumption|assumption].
  Qed.

  Lemma first_proto_in es p : first_proto Msg es = Some p -> exists e, In e es /\ e_ser e = p.
  Proof.
    induction es as [|e r IH]; cbn; [discriminate|]. destruct (is_proto (e_ser e)).
    - intros H. injection H as <-. exists e. split; [left|]; reflexivity.
    - intros H. destruct (IH H) as (e' & Hin & He). exists e'. split; [right; assumption|assumption].
  Qed.

  (* ---- main lemma: the i-th entry decodes the frame to m, no earlier entry accepts it, and the
          proto fast path (when it applies) either fails or agrees *)
  Definition fast_harmless (es : list entry) (data : bytes) (m : Msg) : Prop :=
    forall p, first_proto Msg es = Some p -> fast data = true -> deser p data = None \/ deser p data = Some m.

  Lemma d_deserialize_ith es data i e m :
    nth_error es i = Some e -> deser (e_ser e) data = Some m ->
    (forall j ej, (j < i)%nat -> nth_error es j = Some ej -> deser (e_ser ej) data = None) ->
    fast_harmless es data m ->
    d_deserialize Msg fast es data = Some m.
  Proof.
    intros Hn Hd Hb Hf. unfold d_deserialize.
    pose proof (d_loop_first es data i e m Hn Hd Hb) as Hl.
    destruct (first_proto Msg es) as [p|] eqn:Ep; [|assumption].
    destruct (fast data) eqn:Efast; [|assumption].
    destruct (Hf p Ep Efast) as [H|H]; rewrite H; [assumption|reflexivity].
  Qed.

  (* dispatch round trip: Deserialize (Serialize m) = m under the explicit cross-acceptance condition *)
  Theorem dispatch_roundtrip es m i b :
    first_accepting Msg es m = Some (i, b) ->
    (forall e, nth_error es i = Some e -> deser (e_ser e) b = Some m) ->
    (forall j ej, (j < i)%nat -> nth_error es j = Some ej -> deser (e_ser ej) b = None) ->
    fast_harmless es b m ->
    d_serialize Msg es m = Some b /\ d_deserialize Msg fast es b = Some m.
  Proof.
    intros Hfa Hrt Hcross Hfast. split.
    - rewrite d_serialize_first, Hfa. reflexivity.
    - destruct (first_accepting_spec es m i b Hfa) as (e & Hn & _ & _).
      apply (d_deserialize_ith es b i e m Hn (Hrt e Hn) Hcross Hfast).
  Qed.

  (* ---- send path: resolveSerializer = exact concrete type first, then the first interface *)
  Lemma find_first (p : entry -> bool) es e :
    find p es = Some e <->
    exists i, nth_error es i = Some e /\ p e = true /\
              forall j ej, (j < i)%nat -> nth_error es j = Some ej -> p ej = false.
  Proof.
    induction es as [|e0 r IH]; cbn.
    - split; [discriminate|]. intros (i & Hn & _). destruct i; discriminate.
    - destruct (p e0) eqn:E0; split.
      + intros H. injection H as <-. exists 0%nat. repeat split; auto. intros j ej Hj. lia.
      + intros (i & Hn & Hp & Hb). destruct i; cbn in Hn.
        * injection Hn as ->. reflexivity.
        * rewrite (Hb 0%nat e0) in E0 by (try lia; reflexivity). discriminate.
      + intros H. apply IH in H as (i & Hn & Hp & Hb). exists (S i). repeat split; auto.
        intros j ej Hj Hnj. destruct j; cbn in Hnj; [injection Hnj as <-; assumption|]. apply (Hb j); [lia|assumption].
      + intros (i & Hn & Hp & Hb). destruct i; cbn in Hn.
        * injection Hn as ->. congruence.
        * apply IH. exists i. repeat split; auto. intros j ej Hj Hnj. apply (Hb (S j)); [lia|assumption].
  Qed.

  Lemma find_idx_find (p : entry -> bool) es :
    find p es = match find_idx Msg p es with Some i => nth_error es i | None => None end.
  Proof.
    induction es as [|e r IH]; cbn; [reflexivity|]. destruct (p e); [reflexivity|].
    rewrite IH. destruct (find_idx Msg p r); reflexivity.
  Qed.

  Lemma resolve_idx_correct es m :
    resolve Msg es m = match resolve_idx Msg es m with Some i => option_map e_ser (nth_error es i) | None => None end.
  Proof.
    unfold resolve, resolve_entry, resolve_idx. rewrite !find_idx_find.
    destruct (find_idx Msg (exact_match Msg m) es) as [i|] eqn:E1.
    - destruct (nth_error es i) eqn:En; [reflexivity|].
      exfalso. clear -E1 En. revert i E1 En. induction es as [|e r IH]; intros i E1 En; cbn in E1; [discriminate|].
      destruct (exact_match Msg m e); [injection E1 as <-; discriminate|].
      destruct (find_idx Msg (exact_match Msg m) r) eqn:E; [|discriminate]. injection E1 as <-. cbn in En. apply (IH n eq_refl En).
    - destruct (find_idx Msg (iface_match Msg m) es); reflexivity.
  Qed.

  (* an entry registered for exactly the message's type is chosen — the first such one — no matter
     which interface entries were registered, and where *)
  Theorem resolve_exact_type_first es m i e :
    nth_error es i = Some e -> is_iface e = false -> matches e m = true ->
    (forall j ej, (j < i)%nat -> nth_error es j = Some ej -> is_iface ej = true \/ matches ej m = false) ->
    resolve Msg es m = Some (e_ser e).
  Proof.
    intros Hn Hi Hm Hb. unfold resolve, resolve_entry.
    assert (H : find (exact_match Msg m) es = Some e).
    { apply find_first. exists i. repeat split; auto.
      - unfold exact_match. rewrite Hi, Hm. reflexivity.
      - intros j ej Hj Hnj. unfold exact_match. destruct (Hb j ej Hj Hnj) as [H|H]; rewrite H; [reflexivity|apply andb_false_r]. }
    rewrite H. reflexivity.
  Qed.

  (* otherwise the first registered interface the message implements *)
  Theorem resolve_then_first_interface es m i e :
    (forall ej, In ej es -> is_iface ej = false -> matches ej m = false) ->
    nth_error es i = Some e -> is_iface e = true -> matches e m = true ->
    (forall j ej, (j < i)%nat -> nth_error es j = Some ej -> is_iface ej = false \/ matches ej m = false) ->
    resolve Msg es m = Some (e_ser e).
  Proof.
    intros Hno Hn Hi Hm Hb. unfold resolve, resolve_entry.
    assert (H0 : find (exact_match Msg m) es = None).
    { destruct (find (exact_match Msg m) es) as [x|] eqn:E; [|reflexivity]. exfalso.
      apply find_some in E as [Hin Hx]. unfold exact_match in Hx. apply andb_true_iff in Hx as [H1 H2].
      apply negb_true_iff in H1. rewrite (Hno x Hin H1) in H2. discriminate. }
    rewrite H0.
    assert (H : find (iface_match Msg m) es = Some e).
    { apply find_first. exists i. repeat split; auto.
      - unfold iface_match. rewrite Hi, Hm. reflexivity.
      - intros j ej Hj Hnj. unfold iface_match. destruct (Hb j ej Hj Hnj) as [H|H]; rewrite H; [reflexivity|apply andb_false_r]. }
    rewrite H. reflexivity.
  Qed.

  (* whatever is chosen is a registered entry whose type matches *)
  Theorem resolve_sound es m s :
    resolve Msg es m = Some s -> exists e, In e es /\ matches e m = true /\ s = e_ser e.
  Proof.
    unfold resolve, resolve_entry. intros H.
    destruct (find (exact_match Msg m) es) as [e|] eqn:E1.
    - injection H as <-. apply find_some in E1 as [Hin Hp]. exists e. unfold exact_match in Hp.
      apply andb_true_iff in Hp as [_ Hp]. auto.
    - destruct (find (iface_match Msg m) es) as [e|] eqn:E2; [|discriminate]. injection H as <-.
      apply find_some in E2 as [Hin Hp]. exists e. unfold iface_match in Hp. apply andb_true_iff in Hp as [_ Hp]. auto.
  Qed.

  (* a message sent with the serializer resolved for its type is received as itself *)
  Theorem send_receive_roundtrip es m i e b :
    nth_error es i = Some e -> resolve Msg es m = Some (e_ser e) ->
    ser (e_ser e) m = Some b -> deser (e_ser e) b = Some m ->
    (forall j ej, (j < i)%nat -> nth_error es j = Some ej -> deser (e_ser ej) b = None) ->
    fast_harmless es b m ->
    d_deserialize Msg fast es b = Some m.
  Proof.
    intros Hn _ Hs Hd Hcross Hfast. apply (d_deserialize_ith es b i e m); assumption.
  Qed.

  (* ---- unsupported messages yield an error *)
  Theorem unsupported_serialize_error es m :
    (forall e, In e es -> ser (e_ser e) m = None) -> d_serialize Msg es m = None.
  Proof.
    induction es as [|e r IH]; intros H; [reflexivity|]. cbn. rewrite (H e) by (left; reflexivity).
    apply IH. intros e' Hin. apply H. right. assumption.
  Qed.
  Theorem unsupported_resolve_none es m :
    (forall e, In e es -> matches e m = false) -> resolve Msg es m = None.
  Proof.
    intros H. destruct (resolve Msg es m) as [s|] eqn:E; [|reflexivity].
    apply resolve_sound in E as (e & Hin & Hm & _). rewrite (H e Hin) in Hm. discriminate.
  Qed.
  Theorem undecodable_error es data :
    (forall e, In e es -> deser (e_ser e) data = None) -> d_deserialize Msg fast es data = None.
  Proof.
    intros H. unfold d_deserialize. rewrite (d_loop_none es data H).
    destruct (first_proto Msg es) as [p|] eqn:Ep; [|reflexivity].
    destruct (first_proto_in es p Ep) as (e & Hin & <-). rewrite (H e Hin). destruct (fast data); reflexivity.
  Qed.

  (* ---- registration-order independence, where it holds: when all serializers that accept a frame
          agree on its meaning, the result does not depend on the order of registration *)
  Definition consistent (es : list entry) (data : bytes) : Prop :=
    forall e e' x y, In e es -> In e' es -> deser (e_ser e) data = Some x -> deser (e_ser e') data = Some y -> x = y.

  Lemma d_loop_perm es es' data :
    Permutation es es' -> consistent es data -> d_loop Msg es data = d_loop Msg es' data.
  Proof.
    intros Hp Hc.
    destruct (d_loop Msg es data) as [m|] eqn:E1; destruct (d_loop Msg es' data) as [m'|] eqn:E2; auto.
    - apply d_loop_some in E1 as (e & Hin & Hd). apply d_loop_some in E2 as (e' & Hin' & Hd').
      f_equal. apply (Hc e e' m m'); auto. apply Permutation_sym in Hp. apply (Permutation_in _ Hp). assumption.
    - apply d_loop_some in E1 as (e & Hin & Hd). exfalso.
      assert (Hnone : forall e0, In e0 es' -> deser (e_ser e0) data = None).
      { intros e0 Hin0. destruct (deser (e_ser e0) data) as [y|] eqn:Ey; [|reflexivity]. exfalso.
        clear Hd. revert E2. assert (exists k, nth_error es' k = Some e0) as [k Hk] by (apply In_nth_error; assumption).
        clear -Ey Hin0. induction es' as [|a r IH]; [destruct Hin0|]. cbn.
        destruct (deser (e_ser a) data) eqn:Ea; [discriminate|]. destruct Hin0 as [->|Hin0]; [congruence|]. apply IH. assumption. }
      rewrite (Hnone e) in Hd by (apply (Permutation_in _ Hp); assumption). discriminate.
    - apply d_loop_some in E2 as (e & Hin & Hd). exfalso.
      assert (Hin' : In e es) by (apply Permutation_sym in Hp; apply (Permutation_in _ Hp); assumption).
      clear Hp Hc Hin. revert E1. induction es as [|a r IH]; [destruct Hin'|]. cbn.
      destruct (deser (e_ser a) data) eqn:Ea; [discriminate|]. destruct Hin' as [->|Hin']; [congruence|]. apply IH. assumption.
  Qed.

  Theorem order_independent_partial es es' data :
    Permutation es es' -> consistent es data ->
    first_proto Msg es = None -> first_proto Msg es' = None ->
    d_deserialize Msg fast es data = d_deserialize Msg fast es' data.
  Proof.
    intros Hp Hc H1 H2. unfold d_deserialize. rewrite H1, H2. apply d_loop_perm; assumption.
  Qed.
End P.

(* ---- refutations (witnesses evaluated by the kernel, replayed on the real code by the harness) *)

(* (a) order DOES matter when an earlier serializer accepts a later one's frame with another meaning:
       messages are numbers; A encodes n as [n], decodes [k] as k; B encodes n as [n+1]... *)
Definition sA : serializer N := {| ser := fun n => if n <? 10 then None else Some [n]; deser := fun b => match b with [k] => Some k | _ => None end; is_proto := false |}.
Definition sB : serializer N := {| ser := fun n => Some [n + 100]; deser := fun b => match b with [k] => Some (k - 100) | _ => None end; is_proto := false |}.
Definition eA : entry N := {| matches := fun n => 10 <=? n; is_iface := false; e_ser := sA |}.
Definition eB : entry N := {| matches := fun _ => true; is_iface := true; e_ser := sB |}.

Theorem cross_acceptance_refuted :
  (* message 5 is sent with B (A does not take it) and comes back as 105: A accepted B's frame *)
  resolve N [eA; eB] 5 = Some sB /\ d_serialize N [eA; eB] 5 = Some [105] /\
  d_deserialize N (fun _ => false) [eA; eB] [105] = Some 105 /\
  (* with the other registration order it comes back right *)
  d_deserialize N (fun _ => false) [eB; eA] [105] = Some 5.
Proof. repeat split; vm_compute; reflexivity. Qed.

(* (b) the repaired resolveSerializer honours "exact concrete type first": the interface entry eB,
       although registered earlier, no longer shadows eA; before the repair it did *)
Theorem resolve_exact_beats_earlier_interface :
  resolve N [eB; eA] 50 = Some sA /\ resolve_first_match N [eB; eA] 50 = Some sB.
Proof. split; vm_compute; reflexivity. Qed.
