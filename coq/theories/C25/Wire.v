(* C25 — byte-level facts about the built-in serializers' frames: each round-trips through its own
   decoder and is rejected by the decoders of the others (the cross-acceptance conditions that
   dispatch_roundtrip needs), as far as the frame layouts decide it. *)
From Coq Require Import NArith ZArith List Bool Lia.
From GV Require Import Lib.Bytes C23.Model C23.Proofs C23.Frames C25.Model.
Import ListNotations.
Open Scope N_scope.

Section W.
  Variable known : bytes -> bool.
  Variable M : Type.
  Variable dec : bytes -> bytes -> option M.

  Lemma shared_frame_is_frame name payload : shared_frame name payload = frame name payload.
  Proof. reflexivity. Qed.

  (* a shared-layout serializer decodes its own frame to whatever its payload codec yields *)
  Theorem shared_roundtrip name payload :
    8 + blen name + blen payload < 4294967296 ->
    shared_deser known M dec (shared_frame name payload) = if known name then dec name payload else None.
  Proof.
    intros Hsz. unfold shared_deser. rewrite shared_frame_is_frame.
    rewrite <- (app_nil_r (frame name payload)). rewrite unmarshal_frame_gen by assumption.
    destruct (known name); cbn [negb]; [|reflexivity]. destruct (dec name payload); reflexivity.
  Qed.

  (* ... so another shared-layout serializer accepts it only if the type name is ALSO in its registry *)
  Corollary shared_cross_needs_common_name name payload :
    8 + blen name + blen payload < 4294967296 -> known name = false ->
    shared_deser known M dec (shared_frame name payload) = None.
  Proof. intros H1 H2. rewrite shared_roundtrip by assumption. rewrite H2. reflexivity. Qed.

  (* a shared-layout decoder rejects every byte string whose first u32 exceeds its length *)
  Theorem shared_rejects_overlong data t :
    rd32 data = Some t -> blen data < t -> shared_deser known M dec data = None.
  Proof.
    intros Hr Hl. unfold shared_deser, unmarshal.
    destruct (N.ltb_spec (blen data) 8); [reflexivity|].
    assert (E : rd32_at 0 data = Some t).
    { unfold rd32_at. destruct (slice_in_range 0 4 data ltac:(lia) ltac:(lia)) as [s [Hs _]]. cbn [N.add]. rewrite Hs.
      unfold slice in Hs. destruct ((0 <=? 4) && (4 <=? blen data)); [|discriminate]. injection Hs as <-.
      cbn. destruct data as [|a [|b [|c [|d r]]]]; try discriminate. cbn in *. assumption. }
    rewrite E. rewrite (ltb_true _ t) by assumption. reflexivity.
  Qed.
End W.

Lemma slice_at_end' y z : blen y = 8 -> slice 0 8 (y ++ z) = Some y.
Proof. intros H. apply (slice_at [] y z 0 8); [reflexivity | cbn; lia]. Qed.

Lemma rd32_app4 a b c d rest : rd32 (a :: b :: c :: d :: rest) = Some (a * 16777216 + b * 65536 + c * 256 + d).
Proof. reflexivity. Qed.

(* the internal frames start with a "length" far beyond any real frame: never taken by proto/CBOR/JSON *)
Theorem shared_rejects_poison known M dec : shared_deser known M dec poison_ser = None.
Proof. apply (shared_rejects_overlong known M dec poison_ser 3735928559); [reflexivity | vm_compute; reflexivity]. Qed.

Theorem shared_rejects_terminated known M dec path nanos :
  20 + blen path < 3735923824 -> shared_deser known M dec (terminated_ser path nanos) = None.
Proof.
  intros H. apply (shared_rejects_overlong known M dec _ 3735923824); [reflexivity|].
  unfold terminated_ser. rewrite !blen_app, blen_be32, blen_be64. change (blen terminated_magic) with 8. lia.
Qed.

Theorem shared_rejects_delivery known M dec env :
  8 + blen env < 4294967295 -> shared_deser known M dec (delivery_ser env) = None.
Proof.
  intros H. apply (shared_rejects_overlong known M dec _ 4294967295); [reflexivity|].
  unfold delivery_ser. rewrite blen_app. change (blen delivery_magic) with 8. lia.
Qed.

(* conversely the internal decoders never take a proto/CBOR/JSON frame *)
Lemma be32_head t rest a b c d tl :
  be32 t ++ rest = a :: b :: c :: d :: tl -> t mod 4294967296 = a * 16777216 + b * 65536 + c * 256 + d.
Proof.
  intros H. pose proof (rd32_be32_mod t rest) as R. rewrite H in R. cbn in R. injection R as R. lia.
Qed.

Theorem poison_rejects_shared name payload : poison_deser (shared_frame name payload) = false.
Proof.
  unfold poison_deser. destruct (N.eqb_spec (blen (shared_frame name payload)) 8) as [E|E]; [|reflexivity].
  cbn [andb]. unfold shared_frame in *. rewrite !blen_app, !blen_be32 in E.
  assert (blen name = 0 /\ blen payload = 0) as [Hn Hp] by lia.
  destruct name; [|rewrite blen_cons in Hn; lia]. destruct payload; [|rewrite blen_cons in Hp; lia]. reflexivity.
Qed.

Lemma shared_head name payload :
  slice 0 8 (shared_frame name payload) = Some (be32 (4 + 4 + blen name + blen payload) ++ be32 (blen name)).
Proof.
  unfold shared_frame. rewrite (app_assoc (be32 _) (be32 _)).
  apply (slice_at [] (be32 (4 + 4 + blen name + blen payload) ++ be32 (blen name)) (name ++ payload) 0 8); reflexivity.
Qed.

Lemma head_mismatch t nl magic c :
  rd32 magic = Some c -> t < 4294967296 -> t <> c -> beq (be32 t ++ be32 nl) magic = false.
Proof.
  intros Hm Ht Hne. destruct (beq (be32 t ++ be32 nl) magic) eqn:E; [|reflexivity]. exfalso.
  apply beq_spec in E. rewrite <- E in Hm. rewrite rd32_be32 in Hm by assumption. injection Hm as Hm. congruence.
Qed.

Theorem terminated_rejects_shared name payload :
  8 + blen name + blen payload < 3735923824 -> terminated_deser (shared_frame name payload) = None.
Proof.
  intros Hsz. unfold terminated_deser.
  destruct (blen (shared_frame name payload) <? 20); [reflexivity|].
  rewrite shared_head. rewrite (head_mismatch _ _ terminated_magic 3735923824); [reflexivity | reflexivity | lia | lia].
Qed.

Theorem delivery_rejects_shared name payload :
  8 + blen name + blen payload < 4294967295 -> delivery_deser (shared_frame name payload) = None.
Proof.
  intros Hsz. unfold delivery_deser.
  destruct (blen (shared_frame name payload) <? 8); [reflexivity|].
  rewrite shared_head. destruct (slice_from 8 (shared_frame name payload)); [|reflexivity].
  rewrite (head_mismatch _ _ delivery_magic 4294967295); [reflexivity | reflexivity | lia | lia].
Qed.

(* the three internal formats are mutually exclusive *)
Theorem internal_formats_disjoint path nanos env :
  terminated_deser poison_ser = None /\ delivery_deser poison_ser = None /\
  poison_deser (terminated_ser path nanos) = false /\ delivery_deser (terminated_ser path nanos) = None /\
  poison_deser (delivery_ser env) = false /\ terminated_deser (delivery_ser env) = None.
Proof.
  assert (S1 : forall rest, slice 0 8 (terminated_magic ++ rest) = Some terminated_magic)
    by (intros rest; apply (slice_at_end' terminated_magic rest); reflexivity).
  assert (S2 : forall rest, slice 0 8 (delivery_magic ++ rest) = Some delivery_magic)
    by (intros rest; apply (slice_at_end' delivery_magic rest); reflexivity).
  repeat split; try (vm_compute; reflexivity).
  - unfold poison_deser, terminated_ser. rewrite !blen_app, blen_be32, blen_be64. change (blen terminated_magic) with 8.
    destruct (N.eqb_spec (8 + (4 + (blen path + 8))) 8); [lia|reflexivity].
  - unfold delivery_deser, terminated_ser. rewrite S1.
    destruct (blen _ <? 8); [reflexivity|]. destruct (slice_from 8 _); reflexivity.
  - unfold poison_deser, delivery_ser. rewrite blen_app. change (blen delivery_magic) with 8.
    destruct (N.eqb_spec (8 + blen env) 8) as [E|E]; [|reflexivity].
    destruct env; [reflexivity | rewrite blen_cons in E; lia].
  - unfold terminated_deser, delivery_ser. rewrite S2. destruct (blen _ <? 20); reflexivity.
Qed.

(* the internal formats round-trip through their own decoders *)
Theorem terminated_roundtrip path nanos :
  blen path < 4294967296 -> nanos < 18446744073709551616 ->
  terminated_deser (terminated_ser path nanos) = Some (path, nanos).
Proof.
  intros Hp Hn. unfold terminated_deser, terminated_ser.
  assert (Hl : blen (terminated_magic ++ be32 (blen path) ++ path ++ be64 nanos) = 20 + blen path).
  { rewrite !blen_app, blen_be32, blen_be64. change (blen terminated_magic) with 8. lia. }
  rewrite Hl. rewrite ltb_false by lia.
  rewrite (slice_at_end' terminated_magic) by reflexivity. rewrite beq_refl. cbn [negb].
  rewrite (rd32_at_app terminated_magic (blen path) _ 8) by (try reflexivity; assumption).
  destruct (N.eqb_spec (12 + blen path + 8) (20 + blen path)); [|lia]. cbn [negb].
  assert (E1 : slice 12 (12 + blen path) (terminated_magic ++ be32 (blen path) ++ path ++ be64 nanos) = Some path).
  { rewrite (app_assoc terminated_magic). apply slice_at; rewrite ?blen_app, ?blen_be32; reflexivity. }
  assert (E2 : slice_from (12 + blen path) (terminated_magic ++ be32 (blen path) ++ path ++ be64 nanos) = Some (be64 nanos)).
  { rewrite (app_assoc terminated_magic). rewrite (app_assoc (terminated_magic ++ _) path).
    apply slice_from_app. rewrite !blen_app, blen_be32. change (blen terminated_magic) with 8. lia. }
  rewrite E1, E2. rewrite <- (app_nil_r (be64 nanos)). rewrite rd64_be64 by assumption. reflexivity.
Qed.

Theorem delivery_roundtrip env : delivery_deser (delivery_ser env) = Some env.
Proof.
  unfold delivery_deser, delivery_ser. rewrite blen_app. change (blen delivery_magic) with 8.
  rewrite ltb_false by lia.
  rewrite (slice_at_end' delivery_magic env) by reflexivity. rewrite (slice_from_app delivery_magic env 8) by reflexivity.
  rewrite beq_refl. reflexivity.
Qed.

Theorem poison_roundtrip : poison_deser poison_ser = true.
Proof. reflexivity. Qed.

(* frameTypeName on a shared-layout frame is its type name *)
Theorem frame_type_name_shared name payload :
  0 < blen name -> 8 + blen name + blen payload < 4294967296 ->
  frame_type_name (shared_frame name payload) = Some name.
Proof.
  intros Hn Hsz. unfold frame_type_name.
  assert (Hl : blen (shared_frame name payload) = 8 + blen name + blen payload) by apply blen_frame.
  rewrite Hl. rewrite ltb_false by lia.
  unfold shared_frame. rewrite rd32_at_0 by lia.
  rewrite (rd32_at_app (be32 _) (blen name) _ 4) by (rewrite ?blen_be32; lia).
  rewrite (ltb_false _ 8) by lia. rewrite (ltb_false (8 + blen name + blen payload)) by lia.
  destruct (N.eqb_spec (blen name) 0); [lia|]. rewrite ltb_false by lia. cbn [orb].
  rewrite (app_assoc (be32 _) (be32 _)). apply slice_at; rewrite ?blen_app, ?blen_be32; lia.
Qed.

(* and it fails on the internal frames (their "total length" exceeds the data) *)
Theorem frame_type_name_internal :
  frame_type_name poison_ser = None.
Proof. vm_compute. reflexivity. Qed.
