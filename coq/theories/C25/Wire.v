(* C25 — byte-level facts about the built-in serializers' frames: each round-trips through its own
   decoder and is rejected by the decoders of the others (the cross-acceptance conditions that
   dispatch_roundtrip needs), as far as the frame layouts decide it. *)
From Coq Require Import NArith ZArith List Bool Lia.
From GV Require Import Lib.Bytes C23.Model C23.Proofs C23.Frames C25.Model.
Import ListNotations.
Open Scope N_scope.

Section W.
  Variable known : bytes -> bool.
  Variable M : Type.
  Variable dec : bytes -> bytes -> option M.

  Lemma shared_frame_is_frame name payload : shared_frame name payload = frame name payload.
  Proof. reflexivity. Qed.

  (* a shared-layout serializer decodes its own frame to whatever its payload codec yields *)
  Theorem shared_roundtrip name payload :
    8 + blen name + blen payload < 4294967296 ->
    shared_deser known M dec (shared_frame name payload) = if known name then dec name payload else None.
  Proof.
    intros Hsz. unfold shared_deser. rewrite shared_frame_is_frame.
    rewrite <- (app_nil_r (frame name payload)). rewrite unmarshal_frame_gen by assumption.
    destruct (known name); cbn [negb]; [|reflexivity]. destruct (dec name payload); reflexivity.
  Qed.

  (* ... so another shared-layout serializer accepts it only if the type name is ALSO in its registry *)
  Corollary shared_cross_needs_common_name name payload :
    8 + blen name + blen payload < 4294967296 -> known name = false ->
    shared_deser known M dec (shared_frame name payload) = None.
  Proof. intros H1 H2. rewrite shared_roundtrip by assumption. rewrite H2. reflexivity. Qed.

  (* a shared-layout decoder rejects every byte string whose first u32 exceeds its length *)
  Theorem shared_rejects_overlong data t :
    rd32 data = Some t -> blen data < t -> shared_deser known M dec data = None.
  Proof.
    intros Hr Hl. unfold shared_deser, unmarshal.
    destruct (N.ltb_spec (blen data) 8); [reflexivity|].
    assert (E : rd32_at 0 data = Some t).
    { unfold rd32_at. destruct (slice_in_range 0 4 data ltac:(lia) ltac:(lia)) as [s [Hs _]]. cbn [N.add]. rewrite Hs.
      unfold slice in Hs. destruct ((0 <=? 4) && (4 <=? blen data)); [|discriminate]. injection Hs as <-.
      cbn. destruct data as [|a [|b [|c [|d r]]]]; try discriminate. cbn in *. assumption. }
    rewrite E. rewrite (ltb_true _ t) by assumption. reflexivity.
  Qed.
End W.

Lemma rd32_app4 a b c d rest : rd32 (a :: b :: c :: d :: rest) = Some (a * 16777216 + b * 65536 + c * 256 + d).
Proof. reflexivity. Qed.

(* the internal frames start with a "length" far beyond any real frame: never taken by proto/CBOR/JSON *)
Theorem shared_rejects_poison known M dec : shared_deser known M dec poison_ser = None.
Proof. apply (shared_rejects_overlong known M dec poison_ser 3735928559); [reflexivity | vm_compute; reflexivity]. Qed.

Theorem shared_rejects_terminated known M dec path nanos :
  20 + blen path < 3735923824 -> shared_deser known M dec (terminated_ser path nanos) = None.
Proof.
  intros H. apply (shared_rejects_overlong known M dec _ 3735923824); [reflexivity|].
  unfold terminated_ser. rewrite !blen_app, blen_be32, blen_be64. change (blen terminated_magic) with 8. lia.
Qed.

Theorem shared_rejects_delivery known M dec env :
  8 + blen env < 4294967295 -> shared_deser known M dec (delivery_ser env) = None.
Proof.
  intros H. apply (shared_rejects_overlong known M dec _ 4294967295); [reflexivity|].
  unfold delivery_ser. rewrite blen_app. change (blen delivery_magic) with 8. lia.
Qed.

(* conversely the internal decoders never take a proto/CBOR/JSON frame *)
Lemma be32_head t rest a b c d tl :
  be32 t ++ rest = a :: b :: c :: d :: tl -> t mod 4294967296 = a * 16777216 + b * 65536 + c * 256 + d.
Proof.
  intros H. pose proof (rd32_be32_mod t rest) as R. rewrite H in R. cbn in R. injection R as R. lia.
Qed.

Theorem poison_rejects_shared name payload : poison_deser (shared_frame name payload) = false.
Proof.
  unfold poison_deser. destruct (N.eqb_spec (blen (shared_frame name payload)) 8) as [E|E]; [|reflexivity].
  cbn [andb]. unfold shared_frame in *. rewrite !blen_app, !blen_be32 in E.
  assert (blen name = 0 /\ blen payload = 0) as [Hn Hp] by lia.
  destruct name; [|rewrite blen_cons in Hn; lia]. destruct payload; [|rewrite blen_cons in Hp; lia]. reflexivity.
Qed.

Theorem terminated_rejects_shared name payload :
  8 + blen name + blen payload < 3735923824 -> terminated_deser (shared_frame name payload) = None.
Proof.
  intros Hsz. unfold terminated_deser.
  destruct (N.ltb_spec (blen (shared_frame name payload)) 20); [reflexivity|].
  destruct (slice 0 8 (shared_frame name payload)) as [mg|] eqn:Es; [|reflexivity].
  destruct (beq mg terminated_magic) eqn:Eb; [|reflexivity]. exfalso.
  apply beq_spec in Eb. subst mg.
  unfold slice in Es. destruct ((0 <=? 8) && (8 <=? blen (shared_frame name payload))); [|discriminate].
  injection Es as Es. cbn in Es. unfold shared_frame in Es.
  remember (4 + 4 + blen name + blen payload) as t. unfold be32 at 1 in Es. cbn in Es.
  injection Es as E1 E2 E3 E4 _.
  assert (Ht : t mod 4294967296 = 222 * 16777216 + 173 * 65536 + 172 * 256 + 112).
  { pose proof (rd32_be32_mod t []) as R. unfold be32 in R. cbn in R. rewrite E1, E2, E3, E4 in R. injection R as R. lia. }
  rewrite N.mod_small in Ht by lia. lia.
Qed.

Theorem delivery_rejects_shared name payload :
  8 + blen name + blen payload < 4294967295 -> delivery_deser (shared_frame name payload) = None.
Proof.
  intros Hsz. unfold delivery_deser.
  destruct (N.ltb_spec (blen (shared_frame name payload)) 8); [reflexivity|].
  destruct (slice 0 8 (shared_frame name payload)) as [mg|] eqn:Es; [|reflexivity].
  destruct (slice_from 8 (shared_frame name payload)); [|reflexivity].
  destruct (beq mg delivery_magic) eqn:Eb; [|reflexivity]. exfalso.
  apply beq_spec in Eb. subst mg.
  unfold slice in Es. destruct ((0 <=? 8) && (8 <=? blen (shared_frame name payload))); [|discriminate].
  injection Es as Es. cbn in Es. unfold shared_frame in Es.
  remember (4 + 4 + blen name + blen payload) as t. unfold be32 at 1 in Es. cbn in Es.
  injection Es as E1 E2 E3 E4 _.
  assert (Ht : t mod 4294967296 = 255 * 16777216 + 255 * 65536 + 255 * 256 + 255).
  { pose proof (rd32_be32_mod t []) as R. unfold be32 in R. cbn in R. rewrite E1, E2, E3, E4 in R. injection R as R. lia. }
  rewrite N.mod_small in Ht by lia. lia.
Qed.

(* the three internal formats are mutually exclusive *)
Theorem internal_formats_disjoint path nanos env :
  terminated_deser poison_ser = None /\ delivery_deser poison_ser = None /\
  poison_deser (terminated_ser path nanos) = false /\ delivery_deser (terminated_ser path nanos) = None /\
  poison_deser (delivery_ser env) = false /\ terminated_deser (delivery_ser env) = None.
Proof.
  repeat split; try (vm_compute; reflexivity).
  - unfold poison_deser, terminated_ser. rewrite !blen_app, blen_be32, blen_be64. change (blen terminated_magic) with 8.
    destruct (N.eqb_spec (8 + (4 + (blen path + 8))) 8); [lia|reflexivity].
  - unfold delivery_deser, terminated_ser.
    destruct (blen (terminated_magic ++ be32 (blen path) ++ path ++ be64 nanos) <? 8); [reflexivity|].
    rewrite (slice_at [] terminated_magic _ 0 8) by reflexivity.
    destruct (slice_from 8 _); reflexivity.
  - unfold poison_deser, delivery_ser. rewrite blen_app. change (blen delivery_magic) with 8.
    destruct (N.eqb_spec (8 + blen env) 8) as [E|E]; [|reflexivity].
    destruct env; [reflexivity | rewrite blen_cons in E; lia].
  - unfold terminated_deser, delivery_ser.
    destruct (blen (delivery_magic ++ env) <? 20); [reflexivity|].
    rewrite <- (app_nil_r env) at 1.
    assert (E : slice 0 8 (delivery_magic ++ env) = Some delivery_magic) by (apply (slice_at_end [] delivery_magic) || idtac).
    all: try reflexivity.
Abort.
