(* C25 — message serializers and their dispatch.
   Mirrors internal/remoteclient:
     client.resolveSerializer   (send path: first entry, in registration order, whose type matches)
     serializerDispatch.Serialize   (first entry whose Serialize succeeds)
     serializerDispatch.Deserialize (proto fast path by frame type name, then entries in order)
     newSerializerDispatch      (proto = first entry that IS a *remote.ProtoSerializer)
   and, byte-level, the frame layouts of remote/{proto,cbor,json}_serializer.go (shared layout:
   the C23 legacy frame with a different registry/payload codec) and the magic-prefixed frames of
   actor/{terminated,poison_pill}_serializer.go and internal/commands/delivery_serializer.go.
   The payload codecs (protobuf, CBOR, sonic JSON, address parsing) are parameters.             *)
From Coq Require Import NArith List Bool.
From GV Require Import Lib.Bytes C23.Model.
Import ListNotations.
Open Scope N_scope.

Section Dispatch.
  Variable Msg : Type.

  Record serializer := {
    ser : Msg -> option bytes;          (* Serialize: None = error *)
    deser : bytes -> option Msg;        (* Deserialize: None = error *)
    is_proto : bool                     (* the entry is a *remote.ProtoSerializer *)
  }.
  Record entry := {
    matches : Msg -> bool;              (* concrete entry: dynamic type equal; interface entry: implements it *)
    is_iface : bool;
    e_ser : serializer
  }.

  (* client.resolveSerializer for a non-nil message: the first entry registered for exactly the
     message's concrete type; failing that, the first registered interface the message implements *)
  Definition exact_match (m : Msg) (e : entry) : bool := negb (is_iface e) && matches e m.
  Definition iface_match (m : Msg) (e : entry) : bool := is_iface e && matches e m.
  Definition resolve_entry (es : list entry) (m : Msg) : option entry :=
    match find (exact_match m) es with
    | Some e => Some e
    | None => find (iface_match m) es
    end.
  Definition resolve (es : list entry) (m : Msg) : option serializer := option_map e_ser (resolve_entry es m).

  (* position of the first entry satisfying p (used to compare with the real code) *)
  Fixpoint find_idx (p : entry -> bool) (es : list entry) : option nat :=
    match es with
    | [] => None
    | e :: r => if p e then Some O else option_map S (find_idx p r)
    end.
  Definition resolve_idx (es : list entry) (m : Msg) : option nat :=
    match find_idx (exact_match m) es with
    | Some i => Some i
    | None => find_idx (iface_match m) es
    end.

  (* the behaviour before the repair of resolveSerializer (commit "resolveSerializer prefers the exact
     concrete type"): first matching entry in registration order, whatever its kind *)
  Fixpoint resolve_first_match (es : list entry) (m : Msg) : option serializer :=
    match es with
    | [] => None
    | e :: r => if matches e m then Some (e_ser e) else resolve_first_match r m
    end.

  (* serializerDispatch.Serialize *)
  Fixpoint d_serialize (es : list entry) (m : Msg) : option bytes :=
    match es with
    | [] => None
    | e :: r => match ser (e_ser e) m with Some b => Some b | None => d_serialize r m end
    end.

  Fixpoint first_proto (es : list entry) : option serializer :=
    match es with
    | [] => None
    | e :: r => if is_proto (e_ser e) then Some (e_ser e) else first_proto r
    end.

  Fixpoint d_loop (es : list entry) (data : bytes) : option Msg :=
    match es with
    | [] => None
    | e :: r => match deser (e_ser e) data with Some m => Some m | None => d_loop r data end
    end.

  (* [fast data] = frameTypeName(data) succeeded and FindMessageType(name) resolved *)
  Variable fast : bytes -> bool.

  Definition d_deserialize (es : list entry) (data : bytes) : option Msg :=
    match first_proto es with
    | Some p =>
        if fast data then
          match deser p data with
          | Some m => Some m
          | None => d_loop es data
          end
        else d_loop es data
    | None => d_loop es data
    end.

  (* index of the first entry whose Serialize accepts m *)
  Fixpoint first_accepting (es : list entry) (m : Msg) : option (nat * bytes) :=
    match es with
    | [] => None
    | e :: r =>
        match ser (e_ser e) m with
        | Some b => Some (O, b)
        | None => match first_accepting r m with Some (i, b) => Some (S i, b) | None => None end
        end
    end.
End Dispatch.

Arguments ser {Msg}. Arguments deser {Msg}. Arguments is_proto {Msg}.
Arguments matches {Msg}. Arguments is_iface {Msg}. Arguments e_ser {Msg}.

(* ---------------------------------------------------------------- byte level: the frame layouts *)

(* remote.ProtoSerializer / CBORSerializer / JSONSerializer Deserialize: the C23 legacy layout over
   their own registry ([known]) and payload codec ([dec]) *)
Definition shared_deser (known : bytes -> bool) (M : Type) (dec : bytes -> bytes -> option M) (data : bytes) : option M :=
  match unmarshal known M dec data with Ok (_, m) => Some m | _ => None end.
Definition shared_frame (name payload : bytes) : bytes :=
  be32 (4 + 4 + blen name + blen payload) ++ be32 (blen name) ++ name ++ payload.

(* frameTypeName of serializer_dispatch.go *)
Definition frame_type_name (data : bytes) : option bytes :=
  if blen data <? 8 then None else
  match rd32_at 0 data, rd32_at 4 data with
  | Some total, Some nl =>
      if (total <? 8) || (blen data <? total) || (nl =? 0) || (total <? 8 + nl) then None
      else slice 8 (8 + nl) data
  | _, _ => None
  end.

Definition poison_magic : bytes := [222; 173; 190; 239; 202; 254; 186; 190].
Definition terminated_magic : bytes := [222; 173; 172; 112; 82; 190; 239; 237].
Definition delivery_magic : bytes := [255; 255; 255; 255; 82; 68; 69; 76].

(* poisonPillSerializer *)
Definition poison_ser : bytes := poison_magic.
Definition poison_deser (data : bytes) : bool := (blen data =? 8) && beq data poison_magic.

(* terminatedSerializer: magic, u32 path length, path, u64 unix nanos; exact total length *)
Definition terminated_ser (path : bytes) (nanos : N) : bytes :=
  terminated_magic ++ be32 (blen path) ++ path ++ be64 nanos.
Definition terminated_deser (data : bytes) : option (bytes * N) :=
  if blen data <? 20 then None else
  match slice 0 8 data with
  | Some mg =>
      if negb (beq mg terminated_magic) then None else
      match rd32_at 8 data with
      | Some pl =>
          if negb (12 + pl + 8 =? blen data) then None else
          match slice 12 (12 + pl) data, slice_from (12 + pl) data with
          | Some path, Some ts => match rd64 ts with Some n => Some (path, n) | None => None end
          | _, _ => None
          end
      | None => None
      end
  | None => None
  end.

(* DeliverySerializer: magic ++ protobuf envelope *)
Definition delivery_ser (envelope : bytes) : bytes := delivery_magic ++ envelope.
Definition delivery_deser (data : bytes) : option bytes :=
  if blen data <? 8 then None else
  match slice 0 8 data, slice_from 8 data with
  | Some mg, Some rest => if beq mg delivery_magic then Some rest else None
  | _, _ => None
  end.
