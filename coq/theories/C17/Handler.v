(* C17 — "after Stop returns no user handler runs": the per-actor view is C06's lifecycle model.
   System shutdown reaches every user actor through Shutdown called from another goroutine
   (userGuardian.Shutdown -> freeChildren -> child.Shutdown), i.e. C06's off-turn stop, and
   dispatcher.signalStop does not wait for the workers. *)
From Coq Require Import List Bool.
Import ListNotations.
From GV Require Import C06.Model C06.Theorems.

(* the actor's stop has completed (Shutdown returned, so Stop can return) while its handler is
   still running *)
Definition witness_handler_outlives_stop : list label := witness_overlap ++ [LPostEnd].

Theorem handler_outlives_stop_refuted : forall fp, exists s,
  run fp init witness_handler_outlives_stop = Some s /\ reach fp s /\
  running s = false /\ cs s = None /\ in_recv s = true /\
  trace s = [EPostE 1; EPostB 1; ERecvB 1; EPre 1].
Proof.
  intros fp. destruct (run fp init witness_handler_outlives_stop) as [s|] eqn:E; [|destruct fp; vm_compute in E; discriminate].
  exists s. split; [reflexivity|]. split; [eapply run_reach; [constructor|exact E]|].
  destruct fp; vm_compute in E; injection E as <-; repeat split; reflexivity.
Qed.

(* when no off-turn stop overlaps a turn (the actors are idle when Stop is called and no message
   is in flight) no handler runs during or after PostStop: C06_partial's clauses, restated *)
Theorem no_handler_during_poststop_quiet : forall fp s, reach_q fp s -> in_recv s && in_post s = false.
Proof. exact no_overlap_q. Qed.
