(* C17 — executable small-step model of ActorSystem.Stop (actor/actor_system.go shutdown):
     shuttingDown := true ; passivator.Stop ; scheduler.Stop ;
     userGuardian.Shutdown  (the whole user tree: C09's stop protocol, actor 0 = user guardian) ;
     system actors ; poisonAllGrains (PoisonPill to every active grain, wait for each `deactivated`) ;
     remaining guardians ; dispatcher.signalStop (workers are NOT awaited) ; reset.
   plus what runs concurrently: Shutdown/SpawnChild anywhere in the user tree, user PoisonPills to
   grains, sends.  The user tree part IS C09/StopModel.v (labels embedded with [LTree]); the
   per-actor handler view is C06/Model.v.  No proofs in this file. *)
From Coq Require Import List Bool Arith Lia.
Import ListNotations.
From GV Require Import C09.StopModel.

Inductive gev := GAct (g : nat) | GDeact (g : nat).
Inductive outcome := Accepted | Dead | Rejected.   (* enqueued | ErrDead | ErrSystemShuttingDown / dead letter *)

Record grain := Grain {
  g_active : bool;     (* activated flag *)
  g_pills  : nat;      (* PoisonPills queued in its mailbox *)
  g_done   : bool;     (* `deactivated` channel closed *)
}.

Inductive phase := PRun | PTree | PGrains (pending : list nat) | PDone.

Record sys := Sys {
  tree   : st;                       (* C09 stop-protocol state of the user tree *)
  sd     : bool;                     (* shuttingDown *)
  ph     : phase;
  grains : nat -> grain;
  gknown : list nat;                 (* ghost: grains ever activated (the system's grains map) *)
  gtrace : list gev;                 (* OnActivate / OnDeactivate events, newest first *)
  sends  : list (nat * bool * outcome)  (* ghost: (target actor, gate closed at the time?, outcome) *)
}.

Definition grain0 : grain := Grain false 0 false.
Definition sys0 : sys := Sys StopModel.init false PRun (fun _ => grain0) [] [] [].

Definition gupd (f : nat -> grain) (g : nat) (x : grain) : nat -> grain := fun h => if Nat.eqb h g then x else f h.
Definition gmem (g : nat) (l : list nat) : bool := existsb (Nat.eqb g) l.

Inductive label :=
| LTree (l : StopModel.label)   (* any step of the user tree's stop protocol *)
| LActivate (g : nat)           (* GrainIdentity: activation (refused once the system is stopping) *)
| LUserPill (g : nat)           (* a PoisonPill sent to a grain by user code *)
| LGrainPill (g : nat)          (* the grain's turn handles a PoisonPill: handlePoisonPill *)
| LTell (a : nat)               (* a send to user actor a: doReceive gate / IsRunning check *)
| LSysBegin                     (* Stop: shuttingDown := true, passivator and scheduler stopped *)
| LTreeDone                     (* userGuardian.Shutdown returned *)
| LGrainsDone                   (* poisonAllGrains: every pending grain signalled `deactivated`; remaining guardians;
                                   dispatcher.signalStop; reset() — Stop returns *)
.

(* the guardian (actor 0) cannot be stopped from outside while the system runs (ErrShutdownForbidden) *)
Definition tree_label_ok (s : sys) (l : StopModel.label) : bool :=
  match l with
  | LStopBegin 0 | LStopNoop 0 => match ph s with PTree => true | _ => false end
  | _ => true
  end.

Definition poison_all (f : nat -> grain) (known : list nat) : (nat -> grain) * list nat :=
  fold_right (fun g acc =>
                let '(f', pend) := acc in
                if g_active (f' g) && negb (gmem g pend)
                then (gupd f' g (Grain true (S (g_pills (f' g))) (g_done (f' g))), g :: pend)
                else (f', pend)) (f, []) known.

Definition step (ws : bool) (s : sys) (l : label) : option sys :=
  match l with
  | LTree tl =>
    if tree_label_ok s tl then
      match StopModel.step ws (tree s) tl with
      | Some t' => Some (Sys t' (sd s) (ph s) (grains s) (gknown s) (gtrace s) (sends s))
      | None => None
      end
    else None
  | LActivate g =>
    if match ph s with PRun => true | _ => false end && negb (g_active (grains s g))
    then Some (Sys (tree s) (sd s) (ph s) (gupd (grains s) g (Grain true (g_pills (grains s g)) false))
                   (if gmem g (gknown s) then gknown s else g :: gknown s) (GAct g :: gtrace s) (sends s))
    else None
  | LUserPill g =>
    if match ph s with PRun => true | _ => false end && g_active (grains s g)
    then Some (Sys (tree s) (sd s) (ph s) (gupd (grains s) g (Grain true (S (g_pills (grains s g))) (g_done (grains s g))))
                   (gknown s) (gtrace s) (sends s))
    else None
  | LGrainPill g =>
    let x := grains s g in
    match g_pills x with
    | S p =>
      if g_active x
      then Some (Sys (tree s) (sd s) (ph s) (gupd (grains s) g (Grain false p true)) (gknown s) (GDeact g :: gtrace s) (sends s))
      else Some (Sys (tree s) (sd s) (ph s) (gupd (grains s) g (Grain false p (g_done x))) (gknown s) (gtrace s) (sends s))
    | O => None
    end
  | LTell a =>
    let o := if sd s then Rejected else if is_running (acts (tree s) a) then Accepted else Dead in
    Some (Sys (tree s) (sd s) (ph s) (grains s) (gknown s) (gtrace s) ((a, sd s, o) :: sends s))
  | LSysBegin =>
    match ph s with
    | PRun => Some (Sys (tree s) true PTree (grains s) (gknown s) (gtrace s) (sends s))
    | _ => None
    end
  | LTreeDone =>
    match ph s with
    | PTree =>
      let g0 := acts (tree s) 0 in
      match sp g0 with
      | SIdle => if running g0 then None
                 else let '(f', pend) := poison_all (grains s) (gknown s) in
                      Some (Sys (tree s) (sd s) (PGrains pend) f' (gknown s) (gtrace s) (sends s))
      | _ => None
      end
    | _ => None
    end
  | LGrainsDone =>
    match ph s with
    | PGrains pend =>
      if forallb (fun g => g_done (grains s g)) pend
      then Some (Sys (tree s) false PDone (grains s) (gknown s) (gtrace s) (sends s))   (* reset(): shuttingDown := false *)
      else None
    | _ => None
    end
  end.

Fixpoint run (ws : bool) (s : sys) (ls : list label) : option sys :=
  match ls with
  | [] => Some s
  | l :: ls' => match step ws s l with Some s' => run ws s' ls' | None => None end
  end.

Inductive reach (ws : bool) : sys -> Prop :=
| reach_init : reach ws sys0
| reach_step s l s' : reach ws s -> step ws s l = Some s' -> reach ws s'.

(* race-free for the tree part (C09's guard): no stop of a descendant in flight when its parent's
   disown goroutine tests it (not needed for the repaired freeChildren), no SpawnChild in flight
   when a children snapshot is taken *)
Definition step_ok (s : sys) (l : label) : bool :=
  match l with LTree tl => StopModel.step_ok (tree s) tl | _ => true end.

Inductive reach_rf (ws : bool) : sys -> Prop :=
| reach_rf_init : reach_rf ws sys0
| reach_rf_step s l s' : reach_rf ws s -> step_ok s l = true -> step ws s l = Some s' -> reach_rf ws s'.

Definition count_gev (e : gev) (tr : list gev) : nat :=
  length (filter (fun x => match x, e with GAct a, GAct b | GDeact a, GDeact b => Nat.eqb a b | _, _ => false end) tr).

(* ------------------------------------------------------------------------------------------
   Driver level (used by the tie): what the Go harness does to a real system. *)
Inductive daction :=
| DSpawn (p c : nat)          (* parent.SpawnChild(c) (actor 0 is the user guardian: sys.Spawn) *)
| DSpawnGated (p c : nat)     (* go parent.SpawnChild(c), PreStart blocked *)
| DSpawnRelease (c : nat)
| DActivate (g : nat)         (* GrainIdentity *)
| DUserPill (g : nat)         (* TellGrain(PoisonPill) *)
| DUserPill2 (g : nat)        (* two PoisonPills back to back *)
| DTell (a : nat)             (* Tell(actor a, msg): flag 0 accepted, 1 ErrDead, 2 refused/dead-lettered by the gate *)
| DKill (a : nat)             (* go a.Shutdown(): an individual stop, possibly held in a gated PostStop *)
| DRelease (a : nat)          (* let a's gated PostStop return *)
| DStop.                      (* ActorSystem.Stop() (go Stop() when some PostStop is gated): returns when the
                                 user tree has stopped and the grains are deactivated *)

Definition opt_or {A} (o : option A) (d : A) : A := match o with Some x => x | None => d end.

Definition with_tree (s : sys) (t : st) : sys := Sys t (sd s) (ph s) (grains s) (gknown s) (gtrace s) (sends s).

Fixpoint pill_all (ws : bool) (s : sys) (l : list nat) : sys :=
  match l with
  | [] => s
  | g :: l' => pill_all ws (opt_or (step ws s (LGrainPill g)) s) l'
  end.

(* a Stop in progress goes as far as it can: the user tree to quiescence (gated PostStops hold it),
   then the grains, then it returns *)
Definition finish_stop (ws : bool) (gated : list nat) (n : nat) (s : sys) : sys :=
  let s3 := with_tree s (StopModel.quiesce ws gated n (64 * S n) (tree s)) in
  match ph s3 with
  | PTree =>
    match step ws s3 LTreeDone with
    | Some s4 =>
      let s5 := pill_all ws s4 (match ph s4 with PGrains l => l | _ => [] end) in
      opt_or (step ws s5 LGrainsDone) s5
    | None => s3
    end
  | _ => s3
  end.

Definition drive (ws : bool) (gated : list nat) (n : nat) (s : sys) (d : daction) : sys * nat :=
  match d with
  | DSpawn p c =>
    match run ws s [LTree (LSpawnCheck p c); LTree (LSpawnInit c); LTree (LSpawnAdd c)] with
    | Some s' => (s', 0) | None => (s, 1) end
  | DSpawnGated p c => match step ws s (LTree (LSpawnCheck p c)) with Some s' => (s', 0) | None => (s, 1) end
  | DSpawnRelease c => match run ws s [LTree (LSpawnInit c); LTree (LSpawnAdd c)] with Some s' => (finish_stop ws gated n s', 0) | None => (s, 1) end
  | DActivate g => match step ws s (LActivate g) with Some s' => (s', 0) | None => (s, 1) end
  | DUserPill g => match run ws s [LUserPill g; LGrainPill g] with Some s' => (s', 0) | None => (s, 1) end
  | DUserPill2 g => match run ws s [LUserPill g; LUserPill g; LGrainPill g; LGrainPill g] with Some s' => (s', 0) | None => (s, 1) end
  | DTell a =>
    match step ws s (LTell a) with
    | Some s' => (s', match sends s' with (_, _, Accepted) :: _ => 0 | (_, _, Dead) :: _ => 1 | _ => 2 end)
    | None => (s, 9)
    end
  | DKill a =>
    if Nat.eqb a 0 then (s, 1) else
    (finish_stop ws gated n (opt_or (step ws s (LTree (LStopBegin a))) s), 0)
  | DRelease a =>
    match step ws s (LTree (LPostEnd a)) with
    | Some s' => (finish_stop ws gated n s', 0)
    | None => (s, 1)
    end
  | DStop =>
    match step ws s LSysBegin with
    | Some s1 => (finish_stop ws gated n (opt_or (step ws s1 (LTree (LStopBegin 0))) s1), 0)
    | None => (s, 1)
    end
  end.

Definition ph_code (p : phase) : nat := match p with PRun => 0 | PTree => 1 | PGrains _ => 2 | PDone => 3 end.

Definition count_postE (a : nat) (tr : list ev) : nat :=
  length (filter (fun e => match e with EPostE b => Nat.eqb a b | _ => false end) tr).

(* per user actor 1..n-1: [number of completed PostStops; IsRunning]; per grain: [OnActivate count;
   OnDeactivate count; active]; then the phase of Stop *)
Definition observe (n k : nat) (s : sys) : list (list nat) :=
  map (fun a => [count_postE a (trace (tree s)); b2n (is_running (acts (tree s) a))]) (seq 1 (n - 1))
  ++ map (fun g => [count_gev (GAct g) (gtrace s); count_gev (GDeact g) (gtrace s); b2n (g_active (grains s g))]) (seq 0 k)
  ++ [[ph_code (ph s)]].

Fixpoint drive_obs (ws : bool) (gated : list nat) (n k : nat) (s : sys) (ds : list daction) : list (nat * list (list nat)) :=
  match ds with
  | [] => []
  | d :: ds' => let '(s', f) := drive ws gated n s d in (f, observe n k s') :: drive_obs ws gated n k s' ds'
  end.

Definition scenario_diff (ws : bool) (c : list nat * nat * nat * list daction * list (nat * list (list nat))) : option nat :=
  let '(gated, n, k, ds, expected) := c in StopModel.first_obs_diff 0 (drive_obs ws gated n k sys0 ds) expected.
