(* C17 — proofs over C17/Model.v (reusing C09/StopProofs.v for the user tree). *)
From Coq Require Import List Bool Arith Lia.
Import ListNotations.
From GV Require Import C09.StopModel C09.StopProofs C09.StopAll C17.Model.

Lemma gupd_same f g x : gupd f g x g = x.
Proof. unfold gupd. now rewrite Nat.eqb_refl. Qed.
Lemma gupd_other f g x h : h <> g -> gupd f g x h = f h.
Proof. intros H. unfold gupd. destruct (Nat.eqb_spec h g); [contradiction|reflexivity]. Qed.
Lemma gmem_In g l : gmem g l = true <-> In g l.
Proof.
  unfold gmem. rewrite existsb_exists. split.
  - intros (x & Hin & E). apply Nat.eqb_eq in E. now subst.
  - intros H. exists g. split; [assumption|apply Nat.eqb_refl].
Qed.

(* ---------------------------------------------------------------- the tree part is C09's system *)
Lemma tree_reach ws s : Model.reach ws s -> StopModel.reach ws (tree s).
Proof.
  induction 1 as [|s l s' Hr IH Hs]; [constructor|].
  destruct l; simpl in Hs;
    repeat match type of Hs with
    | (if ?c then _ else _) = Some _ => destruct c eqn:?; try discriminate
    | match ?x with _ => _ end = Some _ => destruct x eqn:?; try discriminate
    | (let '(_, _) := ?x in _) = Some _ => destruct x eqn:?
    end; try (injection Hs as <-; simpl; try assumption; fail).
  injection Hs as <-. simpl. econstructor; eauto.
Qed.

Lemma tree_reach_rf ws s : Model.reach_rf ws s -> StopModel.reach_rf ws (tree s).
Proof.
  induction 1 as [|s l s' Hr IH Hok Hs]; [constructor|].
  destruct l; simpl in Hs, Hok;
    repeat match type of Hs with
    | (if ?c then _ else _) = Some _ => destruct c eqn:?; try discriminate
    | match ?x with _ => _ end = Some _ => destruct x eqn:?; try discriminate
    | (let '(_, _) := ?x in _) = Some _ => destruct x eqn:?
    end; try (injection Hs as <-; simpl; try assumption; fail).
  injection Hs as <-. simpl. econstructor; eauto.
Qed.

Lemma reach_rf_reach ws s : Model.reach_rf ws s -> Model.reach ws s.
Proof. induction 1; [constructor|econstructor; eauto]. Qed.

(* ---------------------------------------------------------------- poison_all *)
Lemma poison_all_spec f known :
  let '(f', pend) := poison_all f known in
  (forall g, g_active (f' g) = g_active (f g) /\ g_done (f' g) = g_done (f g)) /\
  (forall g, In g pend <-> In g known /\ g_active (f g) = true).
Proof.
  induction known as [|a l IH]; simpl.
  - split; [intros g; split; reflexivity|]. intros g. split; [intros []|intros [[] _]].
  - destruct (poison_all f l) as [f1 p1]. destruct IH as [IH1 IH2].
    destruct (g_active (f1 a) && negb (gmem a p1)) eqn:E.
    + apply andb_true_iff in E as [Ea En]. split.
      * intros g. destruct (Nat.eq_dec g a) as [->|Hne].
        -- rewrite gupd_same. simpl. destruct (IH1 a) as [H1 H2]. rewrite <- H1, <- H2. auto.
        -- rewrite gupd_other by assumption. apply IH1.
      * intros g. simpl. rewrite IH2. destruct (IH1 a) as [H1 _]. rewrite H1 in Ea. split.
        -- intros [<-|[H Ha]]; [split; [left; reflexivity|assumption]|split; [right; assumption|assumption]].
        -- intros [[<-|H] Ha]; [left; reflexivity|right; split; assumption].
    + split; [exact IH1|]. intros g. rewrite IH2. destruct (IH1 a) as [H1 _]. rewrite H1 in E. split.
      * intros [H Ha]. split; [right; assumption|assumption].
      * intros [[<-|H] Ha]; [|split; assumption].
        rewrite Ha in E. simpl in E. apply negb_false_iff, gmem_In, IH2 in E. exact E.
Qed.

(* ---------------------------------------------------------------- invariant *)
Definition ph_pending (p : phase) : option (list nat) := match p with PGrains l => Some l | _ => None end.

Definition stopping_phase (p : phase) : bool := match p with PTree | PGrains _ => true | _ => false end.

Record inv (s : sys) : Prop := {
  i_once : forall g, count_gev (GAct g) (gtrace s) = count_gev (GDeact g) (gtrace s) + (if g_active (grains s g) then 1 else 0);
  i_active_not_done : forall g, g_active (grains s g) = true -> g_done (grains s g) = false;
  i_known : forall g, g_active (grains s g) = true -> In g (gknown s);
  i_sd : stopping_phase (ph s) = true -> sd s = true;
  i_sd_off : stopping_phase (ph s) = false -> sd s = false;
  i_pending : forall pend g, ph s = PGrains pend -> g_active (grains s g) = true -> In g pend;
  i_done : ph s = PDone -> forall g, g_active (grains s g) = false;
  i_sends : forall a o, In (a, true, o) (sends s) -> o = Rejected;
}.

Lemma inv0 : inv sys0.
Proof. split; simpl; intros; try discriminate; try tauto; try reflexivity; congruence. Qed.

Lemma count_cons_same e tr : count_gev e (e :: tr) = S (count_gev e tr).
Proof. unfold count_gev. simpl. destruct e; rewrite Nat.eqb_refl; reflexivity. Qed.
Lemma count_cons_act_deact g h tr : count_gev (GAct g) (GDeact h :: tr) = count_gev (GAct g) tr.
Proof. reflexivity. Qed.
Lemma count_cons_deact_act g h tr : count_gev (GDeact g) (GAct h :: tr) = count_gev (GDeact g) tr.
Proof. reflexivity. Qed.
Lemma count_cons_other_act g h tr : g <> h -> count_gev (GAct g) (GAct h :: tr) = count_gev (GAct g) tr.
Proof. intros H. unfold count_gev. simpl. destruct (Nat.eqb_spec h g); [congruence|reflexivity]. Qed.
Lemma count_cons_other_deact g h tr : g <> h -> count_gev (GDeact g) (GDeact h :: tr) = count_gev (GDeact g) tr.
Proof. intros H. unfold count_gev. simpl. destruct (Nat.eqb_spec h g); [congruence|reflexivity]. Qed.


Lemma inv_step ws s l s' : inv s -> Model.step ws s l = Some s' -> inv s'.
Proof.
  intros I H. destruct I as [I1 I2 I3 I4 I4' I5 I6 I7].
  destruct l as [tl|g|g|g|a| | |]; simpl in H.
  - destruct (tree_label_ok s tl) eqn:Ok; [|discriminate].
    destruct (StopModel.step ws (tree s) tl) as [t'|] eqn:Es; [|discriminate]. injection H as <-.
    split; simpl; auto.
  - (* activate *)
    destruct (Model.ph s) eqn:Hrun; simpl in H; try discriminate.
    destruct (negb (g_active (grains s g))) eqn:Ea; [|discriminate]. injection H as <-.
    apply negb_true_iff in Ea.
    split; simpl; intros.
    + destruct (Nat.eq_dec g0 g) as [->|Hne].
      * rewrite gupd_same, count_cons_same, count_cons_deact_act. simpl. rewrite (I1 g), Ea. lia.
      * rewrite gupd_other, count_cons_other_act, count_cons_deact_act by auto. apply I1.
    + destruct (Nat.eq_dec g0 g) as [->|Hne]; [rewrite gupd_same; reflexivity|].
      rewrite gupd_other in * by assumption. auto.
    + destruct (Nat.eq_dec g0 g) as [->|Hne].
      * destruct (gmem g (gknown s)) eqn:Em; [apply gmem_In, Em|left; reflexivity].
      * rewrite gupd_other in H by assumption. apply I3 in H. destruct (gmem g (gknown s)); [assumption|right; assumption].
    + auto.
    + auto.
    + congruence.
    + congruence.
    + eauto.
  - (* user pill *)
    destruct (Model.ph s) eqn:Hrun; simpl in H; try discriminate.
    destruct (g_active (grains s g)) eqn:Ea; [|discriminate]. injection H as <-.
    split; simpl; intros; auto; try (eapply I7; eassumption).
    + destruct (Nat.eq_dec g0 g) as [->|Hne]; [rewrite gupd_same; simpl; rewrite (I1 g), Ea; reflexivity|].
      rewrite gupd_other by assumption. apply I1.
    + destruct (Nat.eq_dec g0 g) as [->|Hne]; [rewrite gupd_same; simpl; auto|].
      rewrite gupd_other in * by assumption. auto.
    + destruct (Nat.eq_dec g0 g) as [->|Hne]; [auto|]. rewrite gupd_other in H by assumption. auto.
    + destruct (Nat.eq_dec g0 g) as [->|Hne]; [eauto|]. rewrite gupd_other in H0 by assumption. eauto.
    + congruence.
  - (* the grain's turn handles a pill *)
    destruct (g_pills (grains s g)) as [|p] eqn:Ep; [discriminate|].
    destruct (g_active (grains s g)) eqn:Ea; injection H as <-.
    + split; simpl; intros; auto; try (eapply I7; eassumption).
      * destruct (Nat.eq_dec g0 g) as [->|Hne].
        -- rewrite gupd_same, count_cons_same, count_cons_act_deact. simpl. rewrite (I1 g), Ea. lia.
        -- rewrite gupd_other, count_cons_other_deact, count_cons_act_deact by auto. apply I1.
      * destruct (Nat.eq_dec g0 g) as [->|Hne]; [rewrite gupd_same in H; discriminate|].
        rewrite gupd_other in * by assumption. auto.
      * destruct (Nat.eq_dec g0 g) as [->|Hne]; [rewrite gupd_same in H; discriminate|].
        rewrite gupd_other in H by assumption. auto.
      * destruct (Nat.eq_dec g0 g) as [->|Hne]; [rewrite gupd_same in H0; discriminate|].
        rewrite gupd_other in H0 by assumption. eauto.
      * destruct (Nat.eq_dec g0 g) as [->|Hne]; [rewrite gupd_same; reflexivity|].
        rewrite gupd_other by assumption. auto.
    + split; simpl; intros; auto; try (eapply I7; eassumption).
      * destruct (Nat.eq_dec g0 g) as [->|Hne]; [rewrite gupd_same; simpl; rewrite (I1 g), Ea; reflexivity|].
        rewrite gupd_other by assumption. apply I1.
      * destruct (Nat.eq_dec g0 g) as [->|Hne]; [rewrite gupd_same in H; discriminate|].
        rewrite gupd_other in * by assumption. auto.
      * destruct (Nat.eq_dec g0 g) as [->|Hne]; [rewrite gupd_same in H; discriminate|].
        rewrite gupd_other in H by assumption. auto.
      * destruct (Nat.eq_dec g0 g) as [->|Hne]; [rewrite gupd_same in H0; discriminate|].
        rewrite gupd_other in H0 by assumption. eauto.
      * destruct (Nat.eq_dec g0 g) as [->|Hne]; [rewrite gupd_same; reflexivity|].
        rewrite gupd_other by assumption. auto.
  - (* tell *)
    injection H as <-. split; simpl; auto.
    intros a0 o [E|Hin]; [|eauto]. injection E as _ Esd Eo. rewrite Esd in Eo. simpl in Eo. congruence.
  - (* Stop begins *)
    destruct (Model.ph s) eqn:Ep; try discriminate. injection H as <-.
    split; simpl; intros; auto; try discriminate; try (eapply I7; eassumption).
  - (* the user guardian has stopped: poison every active grain *)
    destruct (Model.ph s) eqn:Ep; try discriminate.
    destruct (sp (acts (tree s) 0)); try discriminate.
    destruct (running (acts (tree s) 0)); [discriminate|].
    pose proof (poison_all_spec (grains s) (gknown s)) as Hp.
    destruct (poison_all (grains s) (gknown s)) as [f' pend]. destruct Hp as [Hp1 Hp2]. injection H as <-.
    split; simpl; intros; try discriminate; try (eapply I7; eassumption).
    + destruct (Hp1 g) as [-> _]. apply I1.
    + destruct (Hp1 g) as [Ha Hd]. rewrite Hd. rewrite Ha in H. auto.
    + destruct (Hp1 g) as [Ha _]. rewrite Ha in H. auto.
    + apply I4. reflexivity.
    + injection H as <-. destruct (Hp1 g) as [Ha _]. rewrite Ha in H0. apply Hp2. split; auto.
  - (* every pending grain signalled; Stop returns *)
    destruct (Model.ph s) as [| |pend|] eqn:Ep; try discriminate.
    destruct (forallb (fun g => g_done (grains s g)) pend) eqn:Ef; [|discriminate]. injection H as <-.
    split; simpl; intros; auto; try discriminate; try (eapply I7; eassumption).
    destruct (g_active (grains s g)) eqn:Ea; [|reflexivity]. exfalso.
    pose proof (I5 pend g eq_refl Ea) as Hin. rewrite forallb_forall in Ef. apply Ef in Hin.
    rewrite (I2 g Ea) in Hin. discriminate.
Qed.

Lemma reach_inv ws s : Model.reach ws s -> inv s.
Proof. induction 1; [apply inv0|eapply inv_step; eauto]. Qed.

(* ---------------------------------------------------------------- the user guardian *)
Lemma root_started ws t : StopModel.reach ws t -> started (acts t 0) = true /\ StopModel.ph (acts t 0) = None.
Proof.
  induction 1 as [|t l t' Hr [IH1 IH2] Hs]; [split; reflexivity|].
  destruct l; unfold StopModel.step in Hs; simpl in Hs;
    repeat match type of Hs with
    | (if ?c then _ else _) = Some _ => destruct c eqn:?; try discriminate
    | match ?x with _ => _ end = Some _ => destruct x eqn:?; try discriminate
    end; injection Hs as <-; simpl; auto;
    try (match goal with |- context[upd _ ?a _ 0] => destruct (Nat.eq_dec 0 a) as [<-|Hne]; [rewrite upd_same; simpl; auto|rewrite upd_other by auto; auto] end; fail).
  - (* SpawnCheck p c : c <> 0 *)
    repeat match goal with H : _ && _ = true |- _ => apply andb_true_iff in H; destruct H end.
    repeat match goal with H : negb _ = true |- _ => apply negb_true_iff in H end.
    match goal with H : (c =? 0) = false |- _ => apply Nat.eqb_neq in H end.
    destruct (Nat.eq_dec 0 p) as [<-|Hne]; [rewrite upd_same; simpl; auto|].
    rewrite upd_other, upd_other by auto. auto.
  - (* SpawnInit c *)
    destruct (Nat.eq_dec 0 c) as [<-|Hne]; [congruence|]. rewrite upd_other by auto. auto.
  - (* SpawnAdd c *)
    destruct (Nat.eq_dec 0 n) as [<-|Hne].
    + rewrite upd_same. simpl. destruct (Nat.eq_dec 0 c) as [<-|Hne2]; [congruence|]. rewrite upd_other by auto. auto.
    + rewrite upd_other by auto. destruct (Nat.eq_dec 0 c) as [<-|Hne2]; [congruence|]. rewrite upd_other by auto. auto.
  - (* Reap *)
    destruct (reg (acts t a)); [|auto].
    set (A1 := unreg_all (acts t) _).
    assert (H1 : started (A1 0) = started (acts t 0) /\ StopModel.ph (A1 0) = StopModel.ph (acts t 0)).
    { destruct (unreg_all_core (subtree (length (kids (acts t a)) + 64) (acts t) a) (acts t) 0) as (_&_&?&_&?&_). split; assumption. }
    destruct H1 as [H1 H2]. destruct (par (acts t a)) as [p|].
    + destruct (Nat.eq_dec 0 p) as [<-|Hne]; [rewrite upd_same; simpl; rewrite H1, H2; auto|rewrite upd_other by auto; rewrite H1, H2; auto].
    + rewrite H1, H2. auto.
Qed.

Definition tree_stopped (p : phase) : bool := match p with PGrains _ | PDone => true | _ => false end.

Lemma guardian_done ws s : Model.reach ws s -> tree_stopped (Model.ph s) = true -> In (EPostE 0) (trace (tree s)).
Proof.
  induction 1 as [|s l s' Hr IH Hs]; [discriminate|]. intros Hp.
  pose proof (tree_reach _ _ Hr) as Rt.
  destruct l as [tl|g|g|g|a| | |]; simpl in Hs;
    repeat match type of Hs with
    | (if ?c then _ else _) = Some _ => destruct c eqn:?; try discriminate
    | match ?x with _ => _ end = Some _ => destruct x eqn:?; try discriminate
    | (let '(_, _) := ?x in _) = Some _ => destruct x eqn:?
    end; injection Hs as <-; simpl in *; try (apply IH; assumption); try discriminate.
  - eapply trace_grows; eauto.
  - (* LTreeDone *)
    destruct (root_started _ _ Rt) as [Hst _].
    eapply stopped_means_poststop; eauto.
Qed.

(* ---------------------------------------------------------------- theorems *)

(* grains: OnDeactivate at most once per activation, every interleaving (system pills, user pills) *)
Theorem grain_deactivated_at_most_once ws s g : Model.reach ws s ->
  count_gev (GDeact g) (gtrace s) <= count_gev (GAct g) (gtrace s) <= S (count_gev (GDeact g) (gtrace s)).
Proof.
  intros R. pose proof (i_once _ (reach_inv _ _ R) g) as H. destruct (g_active (grains s g)); lia.
Qed.

(* when Stop is through with the grains, every activation has had exactly one deactivation *)
Theorem grains_all_deactivated ws s g : Model.reach ws s -> Model.ph s = PDone ->
  g_active (grains s g) = false /\ count_gev (GAct g) (gtrace s) = count_gev (GDeact g) (gtrace s).
Proof.
  intros R Hp. pose proof (reach_inv _ _ R) as I. pose proof (i_done _ I Hp g) as Ha.
  split; [assumption|]. rewrite (i_once _ I g), Ha. lia.
Qed.

(* sends after the shutting-down gate are never enqueued *)
Theorem sends_after_gate_rejected ws s a o : Model.reach ws s -> In (a, true, o) (sends s) -> o = Rejected.
Proof. intros R. apply (i_sends _ (reach_inv _ _ R)). Qed.

(* the gate is closed from the first step of Stop until Stop returns (reset() reopens it) *)
Theorem gate_closed_during_stop ws s : Model.reach ws s -> stopping_phase (Model.ph s) = true -> sd s = true.
Proof. intros R. apply (i_sd _ (reach_inv _ _ R)). Qed.

(* after Stop returned: a send to an actor whose PostStop completed fails with ErrDead *)
Theorem send_to_stopped_actor_fails ws s a s' : Model.reach ws s -> Model.ph s = PDone ->
  In (EPostE a) (trace (tree s)) -> Model.step ws s (LTell a) = Some s' ->
  exists rest, sends s' = (a, false, Dead) :: rest.
Proof.
  intros R Hp Hd Hs. pose proof (reach_inv _ _ R) as I.
  assert (Hsd : sd s = false) by (apply (i_sd_off _ I); rewrite Hp; reflexivity).
  destruct (poststop_means_stopped ws _ a (tree_reach _ _ R) Hd) as [Hr _].
  simpl in Hs. injection Hs as <-. simpl. rewrite Hsd. unfold is_running. rewrite Hr. simpl. eauto.
Qed.

(* user actors: PostStop at most once each — every interleaving *)
Theorem user_poststop_at_most_once ws s : Model.reach ws s -> NoDup (trace (tree s)).
Proof. intros R. apply (events_at_most_once ws), tree_reach, R. Qed.

(* user actors, race-free executions (or the repaired freeChildren): once userGuardian.Shutdown has
   returned, every actor along the children snapshots below the guardian has completed its
   PostStop, is not running, and children completed before their parents began *)
Theorem user_tree_stopped_g ws s : (ws = true \/ Model.reach_rf ws s) -> Model.reach ws s ->
  tree_stopped (Model.ph s) = true ->
  forall d, chain (tree s) 0 d -> running (acts (tree s) d) = false /\ In (EPostE d) (trace (tree s)).
Proof.
  intros Hg R Hp d Hc.
  assert (Rg : reach_g ws (tree s)).
  { destruct Hg as [->|Hrf]; [apply reach_fixed_g, tree_reach, R|apply reach_rf_g, tree_reach_rf, Hrf]. }
  destruct (reach_g_inv _ _ Rg) as [I G].
  pose proof (guardian_done _ _ R Hp) as H0.
  pose proof (chain_done _ _ _ G H0 Hc) as Hd.
  split; [apply (pa_n _ _ _ (inv_pa _ I d) Hd)|exact Hd].
Qed.

Theorem user_children_first_g ws s : (ws = true \/ Model.reach_rf ws s) -> Model.reach ws s -> order_ok (tree s).
Proof.
  intros Hg R. apply (order_g ws).
  destruct Hg as [->|Hrf]; [apply reach_fixed_g, tree_reach, R|apply reach_rf_g, tree_reach_rf, Hrf].
Qed.

(* ---------------------------------------------------------------- witnesses *)
Lemma run_reach ws ls : forall s s', Model.reach ws s -> Model.run ws s ls = Some s' -> Model.reach ws s'.
Proof.
  induction ls as [|l ls IH]; simpl; intros s s' Hr H; [now injection H as <-|].
  destruct (Model.step ws s l) eqn:E; [|discriminate]. eapply IH; [|exact H]. econstructor; eauto.
Qed.

Definition tr (ls : list StopModel.label) : list Model.label := map LTree ls.

(* a SpawnChild in flight somewhere in the tree when the system stops: the child runs after Stop *)
Definition witness_spawn_during_stop : list Model.label :=
  tr (spawn 0 1) ++ tr [LSpawnCheck 1 2; LSpawnInit 2] ++ [LSysBegin] ++
  tr [LStopBegin 0; LSnapshot 0; LDisownTest 0 1; LStopBegin 1; LSnapshot 1; LPostBegin 1; LPostEnd 1; LDisownDone 0 1; LPostBegin 0; LPostEnd 0] ++
  [LTreeDone; LGrainsDone] ++ tr [LSpawnAdd 2].

Theorem spawn_during_stop_refuted : forall ws, exists s, Model.run ws sys0 witness_spawn_during_stop = Some s /\ Model.reach ws s /\
  Model.ph s = PDone /\ running (acts (tree s) 2) = true /\ par (acts (tree s) 2) = Some 1 /\
  running (acts (tree s) 1) = false /\ running (acts (tree s) 0) = false.
Proof.
  intros ws. destruct (Model.run ws sys0 witness_spawn_during_stop) as [s|] eqn:E; [|destruct ws; vm_compute in E; discriminate].
  exists s. split; [reflexivity|]. split; [eapply run_reach; [constructor|exact E]|].
  destruct ws; vm_compute in E; injection E as <-; repeat split; reflexivity.
Qed.

(* EXAMPLE: a race-free Stop of a system with a two-level tree and two grains (one of them also
   poisoned by user code): everything is torn down exactly once *)
Definition example_stop : list Model.label :=
  tr (spawn 0 1) ++ tr (spawn 1 2) ++ [LActivate 0; LActivate 1; LUserPill 1; LTell 2; LSysBegin] ++
  tr [LStopBegin 0; LSnapshot 0; LDisownTest 0 1; LStopBegin 1; LSnapshot 1; LDisownTest 1 2] ++ tr (stop_leaf 2) ++
  tr [LDisownDone 1 2; LPostBegin 1; LPostEnd 1; LDisownDone 0 1; LPostBegin 0; LPostEnd 0] ++
  [LGrainPill 1; LTreeDone; LGrainPill 0; LGrainsDone; LTell 2].

Fixpoint run_rf (ws : bool) (s : sys) (ls : list Model.label) : option sys :=
  match ls with
  | [] => Some s
  | l :: ls' => if Model.step_ok s l then match Model.step ws s l with Some s' => run_rf ws s' ls' | None => None end else None
  end.
Lemma run_rf_reach ws ls : forall s s', Model.reach_rf ws s -> run_rf ws s ls = Some s' -> Model.reach_rf ws s'.
Proof.
  induction ls as [|l ls IH]; simpl; intros s s' Hr H; [now injection H as <-|].
  destruct (Model.step_ok s l) eqn:Eo; [|discriminate].
  destruct (Model.step ws s l) eqn:E; [|discriminate]. eapply IH; [|exact H]. econstructor; eauto.
Qed.

Example example_stop_ok : exists s, run_rf false sys0 example_stop = Some s /\ Model.reach_rf false s /\
  Model.ph s = PDone /\ chain (tree s) 0 2 /\
  gtrace s = [GDeact 0; GDeact 1; GAct 1; GAct 0] /\
  sends s = [(2, false, Dead); (2, false, Accepted)].
Proof.
  destruct (run_rf false sys0 example_stop) as [s|] eqn:E; [|vm_compute in E; discriminate].
  exists s. split; [reflexivity|]. split; [eapply run_rf_reach; [constructor|exact E]|].
  vm_compute in E. injection E as <-. repeat split; try reflexivity.
  apply chain_more with (c := 1); simpl; [auto|]. apply chain_one. simpl. auto.
Qed.

(* ---------------------------------------------------------------- every running user actor *)
(* executions in which no children snapshot is taken while a SpawnChild of that actor is in flight *)
Definition step_ns (s : sys) (l : Model.label) : bool :=
  match l with LTree tl => StopAll.snap_ok_b (tree s) tl | _ => true end.

Inductive reach_ns (ws : bool) : sys -> Prop :=
| reach_ns_init : reach_ns ws sys0
| reach_ns_step s l s' : reach_ns ws s -> step_ns s l = true -> Model.step ws s l = Some s' -> reach_ns ws s'.

Lemma reach_ns_reach ws s : reach_ns ws s -> Model.reach ws s.
Proof. induction 1; [constructor|econstructor; eauto]. Qed.

Lemma tree_reach_ns ws s : reach_ns ws s -> StopAll.reach_ns ws (tree s).
Proof.
  induction 1 as [|s l s' Hr IH Hok Hs]; [constructor|].
  destruct l; simpl in Hs, Hok;
    repeat match type of Hs with
    | (if ?c then _ else _) = Some _ => destruct c eqn:?; try discriminate
    | match ?x with _ => _ end = Some _ => destruct x eqn:?; try discriminate
    | (let '(_, _) := ?x in _) = Some _ => destruct x eqn:?
    end; try (injection Hs as <-; simpl; try assumption; fail).
  injection Hs as <-. simpl. econstructor; eauto.
Qed.

(* PostStop for EVERY user actor whose spawn has returned, anywhere below the user guardian *)
Theorem every_user_actor_stopped s : reach_ns true s -> tree_stopped (Model.ph s) = true ->
  forall d, StopAll.desc (tree s) 0 d -> StopAll.complete (acts (tree s) d) ->
  running (acts (tree s) d) = false /\ In (EPostE d) (trace (tree s)).
Proof.
  intros R Hp. apply (StopAll.all_descendants_stopped true).
  - apply StopAll.reach_ns_s, tree_reach_ns, R.
  - apply (guardian_done true); [apply reach_ns_reach, R|assumption].
Qed.
