(* C45 — local invariant of the (repaired) batchFlowActor, and the refutation of the actor as it was
   before the repair. *)
From Coq Require Import ZArith List Bool Lia.
From GV Require Import C45.Model C45.Trace C45.Sem C45.Chain C45.StageFlow.
Import ListNotations.
Open Scope Z_scope.

Definition vz (l : list Z) : list val := map VZ l.

(* ---------- chunks ---------- *)
Lemma chunks_one n : forall (b w : list Z) r, (length w + length b = n)%nat -> b <> [] ->
  chunks_from n w (vz b ++ r) = let '(ys, e) := chunks_from n [] r in (VL (rev w ++ b) :: ys, e).
Proof.
  induction b as [|x b IH]; intros w r Hl Hb; [congruence|]. simpl.
  destruct b as [|y b'].
  - simpl in Hl. replace (n <=? S (length w))%nat with true by (symmetry; apply Nat.leb_le; lia).
    simpl. destruct (chunks_from n [] r). reflexivity.
  - replace (n <=? S (length w))%nat with false by (symmetry; apply Nat.leb_gt; simpl in Hl; lia).
    change (VZ y :: vz b' ++ r) with (vz (y :: b') ++ r).
    rewrite IH; [|simpl in *; lia|discriminate]. simpl. destruct (chunks_from n [] r).
    rewrite <- app_assoc. reflexivity.
Qed.

Lemma chunks_partial n : forall (b w : list Z), (length w + length b < n)%nat -> b <> [] ->
  chunks_from n w (vz b) = ([VL (rev w ++ b)], None).
Proof.
  induction b as [|x b IH]; intros w Hl Hb; [congruence|]. simpl.
  replace (n <=? S (length w))%nat with false by (symmetry; apply Nat.leb_gt; simpl in Hl; lia).
  destruct b as [|y b'].
  - simpl. reflexivity.
  - rewrite IH; [|simpl in *; lia|discriminate]. simpl. rewrite <- app_assoc. reflexivity.
Qed.

Lemma chunks_type_err n l rest : forall (b w : list Z),
  snd (chunks_from n w (vz b ++ VL l :: rest)) = Some type_err.
Proof.
  induction b as [|x b IH]; intros w; simpl; [reflexivity|].
  destruct (n <=? S (length w))%nat.
  - specialize (IH []). destruct (chunks_from n [] (vz b ++ VL l :: rest)). simpl in *. exact IH.
  - apply IH.
Qed.

Lemma delems_app a b : delems a ++ delems b = delems (a ++ b).
Proof. unfold delems. now rewrite map_app. Qed.

Lemma vz_app a b : vz (a ++ b) = vz a ++ vz b.
Proof. apply map_app. Qed.

(* ---------- the drain loop ---------- *)
Definition emit_batches (Bs : list (list Z)) : list action := map (fun b => ADown (DElem (VL b))) Bs.

Lemma downs_batches Bs : downs (emit_batches Bs) = delems (map VL Bs).
Proof. induction Bs; simpl; congruence. Qed.
Lemma ups_batches Bs : ups (emit_batches Bs) = [].
Proof. induction Bs; simpl; auto. Qed.
Lemma shuts_batches Bs : shuts (emit_batches Bs) = false.
Proof. induction Bs; simpl; auto. Qed.

Lemma drain_loop_spec n comp : (1 <= n)%nat -> forall fuel w d w' d' acts,
  (length w < fuel)%nat ->
  batch_drain_loop fuel n comp w d = (w', d', acts) ->
  exists Bs, acts = emit_batches Bs /\
    ((forall r, chunks_from n [] (vz w ++ r) =
                let '(ys, e) := chunks_from n [] (vz w' ++ r) in (map VL Bs ++ ys, e)) \/
     (comp = true /\ w' = [] /\ chunks_from n [] (vz w) = (map VL Bs, None))) /\
    (comp = true -> 0 < d' -> w' = []).
Proof.
  intros Hn. induction fuel as [|f IH]; intros w d w' d' acts Hf H; [lia|].
  simpl in H.
  destruct ((d >? 0) && (match w with [] => false | _ => true end) && ((n <=? length w)%nat || comp)) eqn:Hc.
  - destruct (batch_drain_loop f n comp (skipn (batch_take n w) w) (d - 1)) as [[w1 d1] a1] eqn:Hl.
    inversion H; subst w' d' acts; clear H.
    apply andb_prop in Hc. destruct Hc as [Hc Hc3]. apply andb_prop in Hc. destruct Hc as [Hc1 Hc2].
    assert (Hw : w <> []) by (destruct w; [discriminate|discriminate]).
    assert (Hk : (0 < batch_take n w <= length w)%nat).
    { unfold batch_take. destruct ((0 <? n)%nat && (n <? length w)%nat) eqn:E.
      - apply andb_prop in E. destruct E as [E1 E2]. apply Nat.ltb_lt in E1, E2. lia.
      - destruct w; [congruence|simpl; lia]. }
    assert (Hlen : (length (skipn (batch_take n w) w) < f)%nat) by (rewrite skipn_length; lia).
    destruct (IH _ _ _ _ _ Hlen Hl) as [Bs [-> [Hsp Hd]]].
    exists (firstn (batch_take n w) w :: Bs). split; [reflexivity|]. split; [|exact Hd].
    set (k := batch_take n w) in *.
    assert (Hsplit : w = firstn k w ++ skipn k w) by (symmetry; apply firstn_skipn).
    destruct (Nat.leb_spec n (length w)) as [Hfull|Hpart].
    + (* a full batch *)
      assert (Hkn : k = n).
      { unfold k, batch_take. destruct ((0 <? n)%nat && (n <? length w)%nat) eqn:E; auto.
        apply andb_false_iff in E. destruct E as [E|E]; [apply Nat.ltb_ge in E; lia|apply Nat.ltb_ge in E; lia]. }
      assert (Hfl : length (firstn k w) = n) by (rewrite firstn_length; lia).
      assert (Hone : forall r, chunks_from n [] (vz w ++ r) =
                let '(ys, e) := chunks_from n [] (vz (skipn k w) ++ r) in (VL (firstn k w) :: ys, e)).
      { intros r. rewrite Hsplit at 1. rewrite vz_app, <- app_assoc.
        rewrite chunks_one; [reflexivity|simpl; lia|]. intros E. rewrite E in Hfl. simpl in Hfl. lia. }
      destruct Hsp as [Hsp|[Hcomp [Hw1 Hsp]]].
      * left. intros r. rewrite Hone, Hsp. destruct (chunks_from n [] (vz w1 ++ r)). reflexivity.
      * right. split; [exact Hcomp|]. split; [exact Hw1|].
        specialize (Hone []). rewrite !app_nil_r in Hone. rewrite Hone, Hsp. reflexivity.
    + (* the final partial batch *)
      assert (Hcomp : comp = true).
      { destruct comp; auto. }
      assert (Hkl : k = length w).
      { unfold k, batch_take. destruct ((0 <? n)%nat && (n <? length w)%nat) eqn:E; auto.
        apply andb_prop in E. destruct E as [_ E]. apply Nat.ltb_lt in E. lia. }
      assert (Hs0 : skipn k w = []) by (rewrite Hkl; apply skipn_all).
      assert (Hf0 : firstn k w = w) by (rewrite Hkl; apply firstn_all).
      rewrite Hs0 in Hl. destruct f as [|f']; [simpl in Hlen; rewrite Hs0 in Hlen; simpl in Hlen; lia|].
      simpl in Hl. rewrite andb_false_r in Hl. simpl in Hl. inversion Hl; subst.
      right. split; [auto|]. split; [reflexivity|]. rewrite Hf0.
      destruct Hsp as [Hsp|[_ [_ Hsp]]].
      * specialize (Hsp []). simpl in Hsp. apply (f_equal fst) in Hsp. simpl in Hsp.
        destruct Bs; [|discriminate]. simpl. apply (chunks_partial n w []); simpl; auto; lia.
      * simpl in Hsp. inversion Hsp. destruct Bs; [|discriminate]. apply (chunks_partial n w []); simpl; auto; lia.
  - inversion H; subst. exists []. split; [reflexivity|]. split.
    + left. intros r. destruct (chunks_from n [] (vz w' ++ r)). reflexivity.
    + intros Hcomp Hd. subst comp. rewrite orb_true_r, andb_true_r in Hc.
      destruct w'; auto. rewrite andb_true_r in Hc. destruct (d' >? 0) eqn:E; [discriminate|lia].
Qed.

(* ---------- the invariant ---------- *)
Section Batch.
  Variable n : nat.
  Variable c : cfg.
  Hypothesis n_pos : (1 <= n)%nat.

  Definition BatchInv (nd : node kstate) : Prop :=
    exists st, n_st nd = SBatch st /\
    wf_trace (n_cout nd) /\
    (n_alive nd = true -> n_cancelled nd = false /\
       exists zs B, elems_of (n_cin nd) = vz zs /\ n_cout nd = delems (map VL B) /\
         (forall r, chunks_from n [] (vz zs ++ r) =
                    let '(ys, e) := chunks_from n [] (vz (b_window st) ++ r) in (map VL B ++ ys, e)) /\
         (term_of (n_cin nd) = None /\ b_completing st = false \/
          term_of (n_cin nd) = Some DComplete /\ b_completing st = true)) /\
    (n_alive nd = false -> n_cancelled nd = true \/
        forall S, approx (n_cin nd) S -> approx (n_cout nd) (ksem (KBatch n c) S)).

  Lemma batch_N0 : BatchInv (mk_node (kinit (KBatch n c))).
  Proof.
    exists batch_init. simpl. split; [reflexivity|]. split; [exact I|]. split; [|discriminate].
    intros _. split; [reflexivity|]. exists [], []. simpl. repeat split; auto.
    intros r. destruct (chunks_from n [] r). reflexivity.
  Qed.

  Lemma batch_N2 nd S : BatchInv nd -> n_cancelled nd = false -> approx (n_cin nd) S ->
    approx (n_cout nd) (ksem (KBatch n c) S).
  Proof.
    intros [st [Hst [W [A D]]]] Hc Ap. destruct (n_alive nd) eqn:Ha.
    - destruct (A eq_refl) as [_ [zs [B [Ez [Eo [Hch _]]]]]]. rewrite Eo. apply approx_delems. simpl.
      destruct Ap as [[r Hr] _]. rewrite Hr, Ez, Hch.
      destruct (chunks_from n [] (vz (b_window st) ++ r)). simpl. apply prefix_app.
    - destruct (D eq_refl) as [F|F]; [congruence|auto].
  Qed.

  Lemma batch_N4 nd : BatchInv nd -> wf_trace (n_cout nd).
  Proof. intros [st [_ [W _]]]. exact W. Qed.

  Lemma batch_request_spec st st' acts : batch_request n c st = (st', acts) ->
    b_window st' = b_window st /\ b_completing st' = b_completing st /\
    downs acts = [] /\ shuts acts = false /\ ~ In UCancel (ups acts).
  Proof.
    unfold batch_request. intros H.
    destruct (b_completing st) eqn:Hc; [inversion H; subst; simpl; repeat split; auto|].
    destruct (_ <=? 0); [inversion H; subst; simpl; repeat split; auto|].
    destruct (_ >? _); inversion H; subst; simpl; repeat split; auto; intros [F|[]]; discriminate.
  Qed.

  (* drain: emits batches; dies exactly when completing and the window is empty *)
  Lemma batch_drain_spec st st' acts : batch_drain n st = (st', acts) ->
    b_completing st' = b_completing st /\
    exists Bs, downs acts = delems (map VL Bs) ++ (if b_completing st && isnil (b_window st') then [DComplete] else []) /\
      shuts acts = b_completing st && isnil (b_window st') /\ ups acts = [] /\
      ((forall r, chunks_from n [] (vz (b_window st) ++ r) =
                  let '(ys, e) := chunks_from n [] (vz (b_window st') ++ r) in (map VL Bs ++ ys, e)) \/
       (b_completing st = true /\ b_window st' = [] /\ chunks_from n [] (vz (b_window st)) = (map VL Bs, None))).
  Proof.
    unfold batch_drain.
    destruct (batch_drain_loop (S (length (b_window st))) n (b_completing st) (b_window st) (b_demand st))
      as [[w' d'] a] eqn:Hl.
    intros H. inversion H; subst st' acts; clear H. simpl.
    destruct (drain_loop_spec n (b_completing st) n_pos _ _ _ _ _ _ (Nat.lt_succ_diag_r _) Hl) as [Bs [-> [Hsp _]]].
    split; [reflexivity|]. exists Bs.
    rewrite downs_app, shuts_app, ups_app, downs_batches, shuts_batches, ups_batches. simpl.
    split; [|split; [|split]].
    - destruct (b_completing st); destruct w'; reflexivity.
    - destruct (b_completing st); destruct w'; reflexivity.
    - destruct (b_completing st); destruct w'; reflexivity.
    - exact Hsp.
  Qed.

  Lemma batch_N1 nd m nd' ds us : BatchInv nd -> n_alive nd = true ->
    (match m with FromUp d => wf_trace (n_cin nd ++ [d]) | _ => True end) ->
    node_handle (krecv (KBatch n c)) nd m = (nd', ds, us) -> BatchInv nd'.
  Proof.
    intros [st [Hst [W [A _]]]] Ha Wm H.
    destruct (node_handle_eq _ _ _ _ _ _ H) as [s' [acts [R [-> [-> [Al [Ci [Co [Ca St]]]]]]]]].
    rewrite Hst in R. simpl in R. destruct (batch_recv n c st m) as [st' acts'] eqn:Hr.
    inversion R as [[Hs' Ha']]; clear R; rewrite <- Hs' in St; rewrite <- Ha' in *; clear Hs' Ha' s' acts.
    destruct (A Ha) as [Nc [zs [B [Ez [Eo [Hch Hterm]]]]]].
    assert (Tn : term_of (n_cout nd) = None) by (rewrite Eo; apply term_of_delems).
    exists st'. split; [exact St|].
    assert (Wc : match m with FromUp d => wf_trace (n_cin nd) | _ => True end).
    { destruct m; auto. eapply wf_prefix; eauto. }
    assert (Tcin : forall d, m = FromUp d -> d <> DComplete -> term_of (n_cin nd) = None).
    { intros d -> Hd. destruct Hterm as [[T _]|[T _]]; auto.
      specialize (wf_snoc_some _ _ _ Wc T Wm). congruence. }
    (* the common continuation after a drain *)
    assert (Drain : forall stA zs1 cin1 (Ez1 : elems_of cin1 = vz zs1)
               (Hch1 : forall r, chunks_from n [] (vz zs1 ++ r) =
                         let '(ys, e) := chunks_from n [] (vz (b_window stA) ++ r) in (map VL B ++ ys, e))
               (Hterm1 : term_of cin1 = None /\ b_completing stA = false \/
                         term_of cin1 = Some DComplete /\ b_completing stA = true)
               stB a (Hd : batch_drain n stA = (stB, a)) stC a3 (Hq : batch_request n c stB = (stC, a3)),
               let cout1 := n_cout nd ++ downs (a ++ a3) in
               wf_trace cout1 /\
               (negb (shuts (a ++ a3)) = true -> n_cancelled nd = false /\
                  exists zs B, elems_of cin1 = vz zs /\ cout1 = delems (map VL B) /\
                    (forall r, chunks_from n [] (vz zs ++ r) =
                       let '(ys, e) := chunks_from n [] (vz (b_window stC) ++ r) in (map VL B ++ ys, e)) /\
                    (term_of cin1 = None /\ b_completing stC = false \/
                     term_of cin1 = Some DComplete /\ b_completing stC = true)) /\
               (negb (shuts (a ++ a3)) = false -> n_cancelled nd = true \/
                  forall S, approx cin1 S -> approx cout1 (ksem (KBatch n c) S))).
    { intros. destruct (batch_drain_spec _ _ _ Hd) as [Hcomp [Bs [Hdn [Hsh [Hup Hsp]]]]].
      destruct (batch_request_spec _ _ _ Hq) as [Hw3 [Hc3 [Hd3 [Hs3 _]]]].
      subst cout1. rewrite downs_app, shuts_app, Hd3, Hs3, app_nil_r, orb_false_r, Hdn, Hsh.
      rewrite Eo, app_assoc, delems_app, <- map_app.
      destruct (b_completing stA && isnil (b_window stB)) eqn:Hfin; simpl.
      - apply andb_prop in Hfin. destruct Hfin as [Hcp Hnil]. apply isnil_true in Hnil.
        destruct Hterm1 as [[_ F]|[Tc _]]; [congruence|].
        split; [apply (wf_app_none (delems (map VL (B ++ Bs))) [] [DComplete] DComplete); auto; apply term_of_delems|].
        split; [discriminate|]. intros _. right. intros S [P [C _]]. destruct (C Tc) as [E1 E2].
        simpl. rewrite <- E1, E2, Ez1. simpl.
        assert (Hall : chunks_from n [] (vz zs1) = (map VL (B ++ Bs), None)).
        { specialize (Hch1 []). rewrite !app_nil_r in Hch1. rewrite Hch1.
          destruct Hsp as [Hsp|[_ [_ Hsp]]].
          - specialize (Hsp []). rewrite !app_nil_r in Hsp. rewrite Hsp, Hnil. simpl. rewrite app_nil_r, map_app. reflexivity.
          - rewrite Hsp. rewrite map_app. reflexivity. }
        rewrite Hall. simpl. apply approx_complete; auto.
      - rewrite app_nil_r. split; [apply wf_delems|]. split; [|discriminate].
        intros _. split; [exact Nc|]. exists zs1, (B ++ Bs). split; [exact Ez1|]. split; [reflexivity|].
        split.
        + destruct Hsp as [Hsp|[Hcp [Hnil _]]].
          * intros r. rewrite Hch1, Hsp, Hw3. destruct (chunks_from n [] (vz (b_window stB) ++ r)).
            rewrite map_app, app_assoc. reflexivity.
          * rewrite Hcp, Hnil in Hfin. discriminate.
        + rewrite Hc3, Hcomp. exact Hterm1. }
    destruct m as [[v| |e]|[k|]|s]; simpl in Hr.
    - (* element *)
      specialize (Tcin _ eq_refl ltac:(discriminate)).
      destruct Hterm as [[_ Hcf]|[F _]]; [|congruence].
      destruct (elems_of_snoc_none (n_cin nd) (DElem v) Tcin) as [Ex Tx].
      destruct v as [x|l].
      + match type of Hr with context [batch_drain n ?s] => destruct (batch_drain n s) as [st2 a2] eqn:Hd end.
        destruct (batch_request n c st2) as [st3 a3] eqn:Hq. inversion Hr; subst st' acts'; clear Hr.
        rewrite Ci, Co, Ca, Al.
        match type of Hd with batch_drain n ?s = _ =>
          apply (Drain s (zs ++ [x]) (n_cin nd ++ [DElem (VZ x)])) with (stB := st2); auto end.
        * rewrite Ex, Ez. unfold vz. rewrite map_app. reflexivity.
        * intros r. simpl. rewrite !vz_app, <- !app_assoc. apply Hch.
      + inversion Hr; subst st' acts'; clear Hr. rewrite Ci, Co, Ca, Al. simpl.
        split; [apply (wf_app_none (n_cout nd) [] [DError type_err] (DError type_err)); auto|].
        split; [discriminate|]. intros _. right. intros S [[r Hp] _]. rewrite Ex, Ez in Hp.
        simpl. rewrite Hp, <- app_assoc. simpl. rewrite Hch.
        pose proof (chunks_type_err n l r (b_window st) []) as Hte.
        destruct (chunks_from n [] (vz (b_window st) ++ VL l :: r)) as [ys e]. simpl in *. subst e.
        destruct (term_elems_app_none (n_cout nd) [] [DError type_err] Tn) as [E T]. simpl in E, T.
        unfold approx. rewrite E, T, Eo, elems_of_delems, app_nil_r. simpl.
        split; [apply prefix_app|]. split; [intros; discriminate|].
        intros e' X. inversion X; subst. apply in_or_app. right. left. reflexivity.
    - (* complete *)
      assert (Tx : term_of (n_cin nd ++ [DComplete]) = Some DComplete /\
                   elems_of (n_cin nd ++ [DComplete]) = elems_of (n_cin nd)).
      { destruct Hterm as [[T _]|[T _]].
        - destruct (elems_of_snoc_none _ DComplete T) as [E1 T1]. rewrite app_nil_r in E1. auto.
        - destruct (elems_of_snoc_some _ DComplete _ T) as [E1 T1]. auto. }
      destruct Tx as [Tx Ex].
      destruct (batch_request n c st') as [stC a3] eqn:Hq.
      assert (Hq' : stC = st' /\ a3 = []).
      { unfold batch_request in Hq. destruct (batch_drain_spec _ _ _ Hr) as [Hcomp _]. simpl in Hcomp.
        rewrite Hcomp in Hq. inversion Hq; auto. }
      destruct Hq' as [-> ->].
      rewrite Ci, Co, Ca, Al. rewrite <- (app_nil_r acts').
      match type of Hr with batch_drain n ?s = _ =>
        apply (Drain s zs (n_cin nd ++ [DComplete])) with (stB := st'); auto end.
      rewrite Ex. exact Ez.
    - (* upstream error *)
      specialize (Tcin _ eq_refl ltac:(discriminate)).
      destruct (elems_of_snoc_none (n_cin nd) (DError e) Tcin) as [Ex Tx]. rewrite app_nil_r in Ex.
      inversion Hr; subst st' acts'; clear Hr. rewrite Ci, Co, Ca, Al. simpl.
      split; [apply (wf_app_none (n_cout nd) [] [DError e] (DError e)); auto|].
      split; [discriminate|]. intros _. right. intros S [[r Hp] [_ Er]]. rewrite Ex, Ez in Hp.
      specialize (Er e Tx). simpl. rewrite Hp, Hch.
      destruct (chunks_from n [] (vz (b_window st) ++ r)) as [ys e0]. simpl.
      destruct (term_elems_app_none (n_cout nd) [] [DError e] Tn) as [E T]. simpl in E, T.
      unfold approx. rewrite E, T, Eo, elems_of_delems, app_nil_r. simpl.
      split; [apply prefix_app|]. split; [intros; discriminate|].
      intros e' X. inversion X; subst. apply in_or_app. left. exact Er.
    - (* request *)
      match type of Hr with context [batch_drain n ?s] => destruct (batch_drain n s) as [st2 a2] eqn:Hd end.
      destruct (batch_request n c st2) as [st3 a3] eqn:Hq. inversion Hr; subst st' acts'; clear Hr.
      rewrite Ci, Co, Ca, Al.
      match type of Hd with batch_drain n ?s = _ =>
        apply (Drain s zs (n_cin nd)) with (stB := st2); auto end.
    - (* cancel *)
      inversion Hr; subst st' acts'; clear Hr. rewrite Ci, Co, Ca, Al. simpl. rewrite app_nil_r.
      split; [exact W|]. split; [discriminate|]. intros _. left. reflexivity.
    - (* worker message: ignored *)
      inversion Hr; subst st' acts'; clear Hr. rewrite Ci, Co, Ca, Al. simpl. rewrite app_nil_r.
      split; [exact W|]. split; [|discriminate]. intros _. split; [exact Nc|]. exists zs, B. auto.
  Qed.
End Batch.
