(* C45 — executable model of goakt's linear stream pipelines (stream/flow.go, stage_flow.go,
   stage_source.go, stage_sink.go, stage_parallel.go, materializer.go, queue.go).

   Two layers:
     (i)  the denotational list semantics [sem] of a pipeline description [list op];
     (ii) the operational model: one handler per stage-actor kind (pull source, flowActor,
          fusedFlowActor, batchFlowActor, parallelMapActor, sinkActor) mirroring the Go Receive
          methods message by message, composed into a chain of ANY length with FIFO links, with a
          step relation that allows every interleaving of actor steps.
   No proofs here (this file must compile even when a proof breaks). *)
From Coq Require Import ZArith List Bool.
Import ListNotations.
Open Scope Z_scope.

(* ------------------------------------------------------------------------------------------ *)
(* Values, pipeline description language                                                       *)
(* ------------------------------------------------------------------------------------------ *)

Inductive val := VZ (z : Z) | VL (l : list Z).
Definition errc := Z.                  (* an error is identified by an integer code *)
Definition type_err : errc := -1.      (* "stream: ... got unexpected type" *)

Fixpoint zlist_eqb (a b : list Z) : bool :=
  match a, b with
  | [], [] => true
  | x :: a', y :: b' => (x =? y) && zlist_eqb a' b'
  | _, _ => false
  end.
Definition val_eqb (a b : val) : bool :=
  match a, b with
  | VZ x, VZ y => x =? y
  | VL x, VL y => zlist_eqb x y
  | _, _ => false
  end.

Inductive strat := SFailFast | SResume.

Inductive op :=
| OMap (a b : Z)                          (* Map        x -> a*x+b *)
| OTryMap (a b m r code : Z) (s : strat)  (* TryMap     error [code] when x mod m = r, else a*x+b *)
| OFilter (m r : Z)                       (* Filter     keep x when x mod m <> r *)
| OFlatMap (k : Z)                        (* FlatMap    x -> [10x; 10x+1; ...], (x mod k) elements *)
| OFlatten                                (* Flatten    VL l -> its elements *)
| OScan (z0 : Z)                          (* Scan       running sum from z0 *)
| ODedup                                  (* Deduplicate consecutive duplicates *)
| OBatch (n : nat)                        (* Batch n    VZ.. -> VL chunks *)
| OBuffer (n : nat)                       (* Buffer n   identity *)
| OParMap (ordered : bool) (w : nat) (a b : Z)  (* (Ordered)ParallelMap with w workers, x -> a*x+b *)
| OSumL.                                  (* Map on batches: VL l -> 1000*sum l + length l *)

(* ------------------------------------------------------------------------------------------ *)
(* (i) denotational semantics: plain list functions                                            *)
(* ------------------------------------------------------------------------------------------ *)

Definition lin (a b : Z) (v : val) : option val :=
  match v with VZ x => Some (VZ (a * x + b)) | VL _ => None end.

Definition flat_of (k x : Z) : list val :=
  map (fun i => VZ (10 * x + Z.of_nat i)) (seq 0 (Z.to_nat (x mod k))).

Definition sum_list (l : list Z) : Z := fold_right Z.add 0 l.

(* one element through a stateless elementwise operator: Some outputs / error *)
Inductive eres := EOut (l : list val) | EErr (e : errc).

Definition elem_fn (o : op) (v : val) : eres :=
  match o, v with
  | OMap a b, VZ x => EOut [VZ (a * x + b)]
  | OTryMap a b m r code _, VZ x => if x mod m =? r then EErr code else EOut [VZ (a * x + b)]
  | OFilter m r, VZ x => if x mod m =? r then EOut [] else EOut [v]
  | OFlatMap k, VZ x => EOut (flat_of k x)
  | OFlatten, VL l => EOut (map VZ l)
  | OBuffer _, _ => EOut [v]
  | OParMap _ _ a b, VZ x => EOut [VZ (a * x + b)]
  | OSumL, VL l => EOut [VZ (1000 * sum_list l + Z.of_nat (length l))]
  | _, _ => EErr type_err
  end.

Definition op_resumes (o : op) : bool :=
  match o with OTryMap _ _ _ _ _ SResume => true | _ => false end.

(* elementwise list function: outputs produced before the first failing element, and the failure
   (with Resume the failing element is dropped and processing continues) *)
Fixpoint elementwise (f : val -> eres) (resume : bool) (xs : list val) : list val * option errc :=
  match xs with
  | [] => ([], None)
  | x :: r =>
    match f x with
    | EOut o => let '(ys, e) := elementwise f resume r in (o ++ ys, e)
    | EErr e => if resume then elementwise f resume r else ([], Some e)
    end
  end.

Fixpoint scan_from (acc : Z) (xs : list val) : list val * option errc :=
  match xs with
  | [] => ([], None)
  | VZ x :: r => let '(ys, e) := scan_from (acc + x) r in (VZ (acc + x) :: ys, e)
  | VL _ :: _ => ([], Some type_err)
  end.

Fixpoint dedup_from (last : option val) (xs : list val) : list val :=
  match xs with
  | [] => []
  | x :: r =>
    match last with
    | Some l => if val_eqb l x then dedup_from last r else x :: dedup_from (Some x) r
    | None => x :: dedup_from (Some x) r
    end
  end.

(* chunks of n (the last one may be shorter); [w] is the current partial window (reversed) *)
Fixpoint chunks_from (n : nat) (w : list Z) (xs : list val) : list val * option errc :=
  match xs with
  | [] => (match w with [] => [] | _ => [VL (rev w)] end, None)
  | VZ x :: r =>
    if (n <=? S (length w))%nat
    then let '(ys, e) := chunks_from n [] r in (VL (rev (x :: w)) :: ys, e)
    else chunks_from n (x :: w) r
  | VL _ :: _ => ([], Some type_err)
  end.

(* the list function of one operator: (outputs before the first failure, the failure) *)
Definition sem_op (o : op) (xs : list val) : list val * option errc :=
  match o with
  | OScan z0 => scan_from z0 xs
  | ODedup => (dedup_from None xs, None)
  | OBatch n => chunks_from n [] xs
  | _ => elementwise (elem_fn o) (op_resumes o) xs
  end.

(* a stream as the list semantics sees it: the elements, and the errors raised so far by the
   stages (stage-major order) *)
Definition sstream := (list val * list errc)%type.

Definition olist {A} (o : option A) : list A := match o with Some a => [a] | None => [] end.

Definition sem_stage (o : op) (s : sstream) : sstream :=
  let '(ys, e) := sem_op o (fst s) in (ys, snd s ++ olist e).

Definition sem (p : list op) (input : list val) : sstream :=
  fold_left (fun s o => sem_stage o s) p (input, []).

(* ------------------------------------------------------------------------------------------ *)
(* (ii) operational model                                                                      *)
(* ------------------------------------------------------------------------------------------ *)

Inductive dmsg := DElem (v : val) | DComplete | DError (e : errc).   (* travel downstream *)
Inductive umsg := URequest (n : Z) | UCancel.                        (* travel upstream   *)
Inductive inmsg := FromUp (m : dmsg) | FromDown (m : umsg) | WorkerDone (seq : Z).
Inductive action := ADown (m : dmsg) | AUp (m : umsg) | AShutdown.

Record cfg := { c_init : Z; c_refill : Z }.
Definition default_cfg := {| c_init := 224; c_refill := 64 |}.
Definition buffer_cfg (n : nat) :=
  let size := Z.max (Z.of_nat n) 1 in {| c_init := size; c_refill := size / 4 |}.

(* --- the transformFn closures of flow.go (state kept in the closure) --- *)
Inductive tstate := TS0 | TSAcc (z : Z) | TSLast (v : val).

Definition op_init (o : op) : tstate := match o with OScan z0 => TSAcc z0 | _ => TS0 end.

Definition op_step (o : op) (s : tstate) (v : val) : tstate * eres :=
  match o with
  | OScan _ =>
    match s, v with
    | TSAcc acc, VZ x => (TSAcc (acc + x), EOut [VZ (acc + x)])
    | _, _ => (s, EErr type_err)
    end
  | ODedup =>
    match s with
    | TSLast l => if val_eqb l v then (s, EOut []) else (TSLast v, EOut [v])
    | _ => (TSLast v, EOut [v])
    end
  | _ => (s, elem_fn o v)
  end.

(* --- flowActor (stage_flow.go) --- *)
Record flow_st := {
  f_ts : tstate;          (* closure state of transformFn *)
  f_buf : list val;       (* outputBuf *)
  f_credit : Z;           (* upstreamCredit *)
  f_demand : Z;           (* downstreamDemand *)
  f_completing : bool }.

Definition flow_init (o : op) : flow_st :=
  {| f_ts := op_init o; f_buf := []; f_credit := 0; f_demand := 0; f_completing := false |}.

(* tryFlushOutput *)
Definition flow_flush (st : flow_st) : flow_st * list action :=
  let k := Nat.min (Z.to_nat (f_demand st)) (length (f_buf st)) in
  let out := firstn k (f_buf st) in
  let buf' := skipn k (f_buf st) in
  let st' := {| f_ts := f_ts st; f_buf := buf'; f_credit := f_credit st;
                f_demand := f_demand st - Z.of_nat k; f_completing := f_completing st |} in
  (st', map (fun v => ADown (DElem v)) out ++
        (if f_completing st && (match buf' with [] => true | _ => false end)
         then [ADown DComplete; AShutdown] else [])).

(* maybeRequestUpstream *)
Definition flow_request (c : cfg) (st : flow_st) : flow_st * list action :=
  if f_completing st then (st, []) else
  let available := c_init c - f_credit st - Z.of_nat (length (f_buf st)) in
  if available <=? 0 then (st, []) else
  if f_credit st >? c_refill c then (st, []) else
  ({| f_ts := f_ts st; f_buf := f_buf st; f_credit := f_credit st + available;
      f_demand := f_demand st; f_completing := f_completing st |}, [AUp (URequest available)]).

Definition flow_recv (o : op) (c : cfg) (st : flow_st) (m : inmsg) : flow_st * list action :=
  match m with
  | FromDown (URequest n) =>
    let st1 := {| f_ts := f_ts st; f_buf := f_buf st; f_credit := f_credit st;
                  f_demand := f_demand st + n; f_completing := f_completing st |} in
    let '(st2, a2) := flow_flush st1 in
    let '(st3, a3) := flow_request c st2 in (st3, a2 ++ a3)
  | FromUp (DElem v) =>
    match op_step o (f_ts st) v with
    | (_, EErr e) =>
      if op_resumes o then
        let st1 := {| f_ts := f_ts st; f_buf := f_buf st; f_credit := f_credit st - 1;
                      f_demand := f_demand st; f_completing := f_completing st |} in
        flow_request c st1
      else (st, [AUp UCancel; ADown (DError e); AShutdown])
    | (ts', EOut outs) =>
      let st1 := {| f_ts := ts'; f_buf := f_buf st ++ outs; f_credit := f_credit st - 1;
                    f_demand := f_demand st; f_completing := f_completing st |} in
      let '(st2, a2) := flow_flush st1 in
      let '(st3, a3) := flow_request c st2 in (st3, a2 ++ a3)
    end
  | FromUp DComplete =>
    let st1 := {| f_ts := f_ts st; f_buf := f_buf st; f_credit := f_credit st;
                  f_demand := f_demand st; f_completing := true |} in
    let '(st2, a2) := flow_flush st1 in
    (st2, a2 ++ (match f_buf st2 with [] => [ADown DComplete; AShutdown] | _ => [] end))
  | FromUp (DError e) => (st, [ADown (DError e); AShutdown])
  | FromDown UCancel => (st, [AUp UCancel; AShutdown])
  | WorkerDone _ => (st, [])
  end.

(* --- fusedFlowActor (stage_flow.go); fn = composition of the fused stages' fuseFn --- *)
(* fuseFn: (result, pass, err); only Map/TryMap/Filter have one *)
Inductive fres := FPass (v : val) | FDrop | FErr (e : errc).

Definition fuse_fn (o : op) (v : val) : fres :=
  match elem_fn o v with
  | EOut [w] => FPass w
  | EOut _ => FDrop
  | EErr e => FErr e
  end.

Fixpoint fused_fn (os : list op) (v : val) : fres :=
  match os with
  | [] => FPass v
  | o :: r => match fuse_fn o v with
              | FPass w => fused_fn r w
              | FDrop => FDrop
              | FErr e => FErr e
              end
  end.

Definition fused_init (c : cfg) : Z := c_init c.    (* credit after stageWire *)

Definition fused_recv (os : list op) (c : cfg) (credit : Z) (m : inmsg) : Z * list action :=
  match m with
  | FromUp (DElem v) =>
    match fused_fn os v with
    | FErr e => (credit, [ADown (DError e); AShutdown])
    | r =>
      let emit := match r with FPass w => [ADown (DElem w)] | _ => [] end in
      let credit1 := credit - 1 in
      if credit1 <=? c_refill c
      then (credit1 + (c_init c - credit1), emit ++ [AUp (URequest (c_init c - credit1))])
      else (credit1, emit)
    end
  | FromUp DComplete => (credit, [ADown DComplete; AShutdown])
  | FromUp (DError e) => (credit, [ADown (DError e); AShutdown])
  | FromDown UCancel => (credit, [AUp UCancel; ADown DComplete; AShutdown])
  | FromDown (URequest _) => (credit, [])          (* Unhandled *)
  | WorkerDone _ => (credit, [])
  end.

(* --- batchFlowActor (stage_flow.go); the maxWait timer is not modelled (harness uses 1h) --- *)
(* [batch_recv] mirrors the REPAIRED actor (fixes/C45-batch-flush-without-demand.diff): full windows
   held back for lack of demand are emitted when demand arrives, flush emits at most maxSize elements,
   and completion waits until the last (partial) batch has been delivered.
   [batch_recv0] mirrors the actor before the repair: flush is a no-op without demand, so windows
   grow beyond maxSize and the window is dropped when upstream completes without demand. *)
Record batch_st := { b_window : list Z (* in arrival order *); b_credit : Z; b_demand : Z; b_completing : bool }.
Definition batch_init := {| b_window := []; b_credit := 0; b_demand := 0; b_completing := false |}.

Definition batch_take (n : nat) (w : list Z) : nat :=
  if ((0 <? n) && (n <? length w))%nat then n else length w.

(* the loop of drain: one flush per iteration *)
Fixpoint batch_drain_loop (fuel n : nat) (completing : bool) (w : list Z) (demand : Z)
  : list Z * Z * list action :=
  match fuel with
  | O => (w, demand, [])
  | S f =>
    if (demand >? 0) && (match w with [] => false | _ => true end) && ((n <=? length w)%nat || completing)
    then let k := batch_take n w in
         let '(w', d', acts) := batch_drain_loop f n completing (skipn k w) (demand - 1) in
         (w', d', ADown (DElem (VL (firstn k w))) :: acts)
    else (w, demand, [])
  end.

Definition batch_drain (n : nat) (st : batch_st) : batch_st * list action :=
  let '(w', d', acts) := batch_drain_loop (S (length (b_window st))) n (b_completing st) (b_window st) (b_demand st) in
  ({| b_window := w'; b_credit := b_credit st; b_demand := d'; b_completing := b_completing st |},
   acts ++ (if b_completing st && (match w' with [] => true | _ => false end)
            then [ADown DComplete; AShutdown] else [])).

(* the window must be able to hold a full batch: limit = max(InitialDemand, maxSize)
   (fixes/C45-batch-size-exceeds-demand-window.diff; identical to the code before that repair when
   maxSize <= InitialDemand) *)
Definition batch_request (n : nat) (c : cfg) (st : batch_st) : batch_st * list action :=
  if b_completing st then (st, []) else
  let available := Z.max (c_init c) (Z.of_nat n) - b_credit st - Z.of_nat (length (b_window st)) in
  if available <=? 0 then (st, []) else
  if b_credit st >? c_refill c then (st, []) else
  ({| b_window := b_window st; b_credit := b_credit st + available; b_demand := b_demand st;
      b_completing := b_completing st |},
   [AUp (URequest available)]).

Definition batch_recv (n : nat) (c : cfg) (st : batch_st) (m : inmsg) : batch_st * list action :=
  match m with
  | FromDown (URequest k) =>
    let '(st2, a2) := batch_drain n {| b_window := b_window st; b_credit := b_credit st;
                                       b_demand := b_demand st + k; b_completing := b_completing st |} in
    let '(st3, a3) := batch_request n c st2 in (st3, a2 ++ a3)
  | FromUp (DElem (VZ x)) =>
    let '(st2, a2) := batch_drain n {| b_window := b_window st ++ [x]; b_credit := b_credit st - 1;
                                       b_demand := b_demand st; b_completing := b_completing st |} in
    let '(st3, a3) := batch_request n c st2 in (st3, a2 ++ a3)
  | FromUp (DElem (VL _)) =>
    ({| b_window := b_window st; b_credit := b_credit st - 1; b_demand := b_demand st;
        b_completing := b_completing st |},
     [AUp UCancel; ADown (DError type_err); AShutdown])
  | FromUp DComplete =>
    batch_drain n {| b_window := b_window st; b_credit := b_credit st; b_demand := b_demand st;
                     b_completing := true |}
  | FromUp (DError e) => (st, [ADown (DError e); AShutdown])
  | FromDown UCancel => (st, [AUp UCancel; AShutdown])
  | WorkerDone _ => (st, [])
  end.

(* before the repair *)
Definition batch_flush0 (st : batch_st) : batch_st * list action :=
  if b_demand st <=? 0 then (st, []) else
  ({| b_window := []; b_credit := b_credit st; b_demand := b_demand st - 1; b_completing := false |},
   [ADown (DElem (VL (b_window st)))]).

Definition batch_recv0 (n : nat) (c : cfg) (st : batch_st) (m : inmsg) : batch_st * list action :=
  match m with
  | FromDown (URequest k) =>
    batch_request 0 c {| b_window := b_window st; b_credit := b_credit st; b_demand := b_demand st + k;
                         b_completing := false |}
  | FromUp (DElem (VZ x)) =>
    let st1 := {| b_window := b_window st ++ [x]; b_credit := b_credit st - 1; b_demand := b_demand st;
                  b_completing := false |} in
    let '(st2, a2) := if (n <=? length (b_window st1))%nat then batch_flush0 st1 else (st1, []) in
    let '(st3, a3) := batch_request 0 c st2 in (st3, a2 ++ a3)
  | FromUp (DElem (VL _)) =>
    ({| b_window := b_window st; b_credit := b_credit st - 1; b_demand := b_demand st; b_completing := false |},
     [AUp UCancel; ADown (DError type_err); AShutdown])
  | FromUp DComplete =>
    let '(st2, a2) := match b_window st with [] => (st, []) | _ => batch_flush0 st end in
    (st2, a2 ++ [ADown DComplete; AShutdown])
  | FromUp (DError e) => (st, [ADown (DError e); AShutdown])
  | FromDown UCancel => (st, [AUp UCancel; AShutdown])
  | WorkerDone _ => (st, [])
  end.

(* --- parallelMapActor (stage_parallel.go) --- *)
(* workers are modelled by the multiset of dispatched tasks; a worker finishing task [seq] is the
   in-message [WorkerDone seq] (any order: the interleaving is chosen by the environment) *)
Record par_st := {
  p_tasks : list (Z * val);     (* dispatched, result not yet received: (seqNo, input) *)
  p_inseq : Z;                  (* inputSeqNo *)
  p_next : Z;                   (* nextEmit *)
  p_pending : list (Z * val);   (* resequencing heap, kept sorted by seqNo *)
  p_updone : bool }.
Definition par_init := {| p_tasks := []; p_inseq := 0; p_next := 0; p_pending := []; p_updone := false |}.

Fixpoint heap_insert (x : Z * val) (h : list (Z * val)) : list (Z * val) :=
  match h with
  | [] => [x]
  | y :: r => if fst x <? fst y then x :: h else y :: heap_insert x r
  end.

(* flushOrdered: pop while the minimum is nextEmit+1 *)
Fixpoint par_flush (fuel : nat) (next : Z) (h : list (Z * val)) : Z * list (Z * val) * list val :=
  match fuel, h with
  | S f, (s, v) :: r =>
    if s =? next + 1 then let '(n', h', out) := par_flush f (next + 1) r in (n', h', v :: out)
    else (next, h, [])
  | _, _ => (next, h, [])
  end.

Fixpoint remove_task (seq : Z) (l : list (Z * val)) : option val * list (Z * val) :=
  match l with
  | [] => (None, [])
  | (s, v) :: r => if s =? seq then (Some v, r)
                   else let '(o, r') := remove_task seq r in (o, (s, v) :: r')
  end.

Definition par_recv (ordered : bool) (a b : Z) (st : par_st) (m : inmsg) : par_st * list action :=
  match m with
  | FromUp (DElem v) =>
    match v with
    | VZ _ =>
      ({| p_tasks := p_tasks st ++ [(p_inseq st + 1, v)]; p_inseq := p_inseq st + 1; p_next := p_next st;
          p_pending := p_pending st; p_updone := p_updone st |}, [])
    | VL _ => (st, [AUp UCancel; ADown (DError type_err); AShutdown])
    end
  | WorkerDone seq =>
    match remove_task seq (p_tasks st) with
    | (None, _) => (st, [])
    | (Some v, tasks') =>
      let r := match lin a b v with Some w => w | None => v end in
      let '(next', pend', outs) :=
        if ordered then par_flush (S (length (p_pending st))) (p_next st) (heap_insert (seq, r) (p_pending st))
        else (p_next st, p_pending st, [r]) in
      let st' := {| p_tasks := tasks'; p_inseq := p_inseq st; p_next := next'; p_pending := pend';
                    p_updone := p_updone st |} in
      (st', map (fun w => ADown (DElem w)) outs ++
            (if p_updone st then [] else [AUp (URequest 1)]) ++
            (if p_updone st && (match tasks' with [] => true | _ => false end)
             then [ADown DComplete; AShutdown] else []))
    end
  | FromUp DComplete =>
    ({| p_tasks := p_tasks st; p_inseq := p_inseq st; p_next := p_next st; p_pending := p_pending st;
        p_updone := true |},
     match p_tasks st with [] => [ADown DComplete; AShutdown] | _ => [] end)
  | FromUp (DError e) => (st, [ADown (DError e); AShutdown])
  | FromDown UCancel => (st, [AUp UCancel; ADown DComplete; AShutdown])
  | FromDown (URequest _) => (st, [])              (* Unhandled *)
  end.

(* --- stage kinds as the materializer spawns them --- *)
Inductive kind :=
| KFlow (o : op) (c : cfg)
| KFused (os : list op) (c : cfg)
| KBatch (n : nat) (c : cfg)
| KBatch0 (n : nat) (c : cfg)          (* the batch actor before the repair *)
| KPar (ordered : bool) (w : nat) (a b : Z).

Inductive kstate :=
| SFlow (st : flow_st)
| SFused (credit : Z)
| SBatch (st : batch_st)
| SPar (st : par_st).

Definition kinit (k : kind) : kstate :=
  match k with
  | KFlow o _ => SFlow (flow_init o)
  | KFused _ c => SFused (fused_init c)
  | KBatch _ _ | KBatch0 _ _ => SBatch batch_init
  | KPar _ _ _ _ => SPar par_init
  end.

(* messages the stage sends upstream when it handles stageWire *)
Definition kwire (k : kind) : list umsg :=
  match k with
  | KFused _ c => [URequest (c_init c)]
  | KPar _ w _ _ => [URequest (Z.of_nat (Nat.max w 1))]    (* ParallelMap coerces n < 1 to 1 *)
  | _ => []
  end.

Definition krecv (k : kind) (s : kstate) (m : inmsg) : kstate * list action :=
  match k, s with
  | KFlow o c, SFlow st => let '(st', a) := flow_recv o c st m in (SFlow st', a)
  | KFused os c, SFused cr => let '(cr', a) := fused_recv os c cr m in (SFused cr', a)
  | KBatch n c, SBatch st => let '(st', a) := batch_recv n c st m in (SBatch st', a)
  | KBatch0 n c, SBatch st => let '(st', a) := batch_recv0 n c st m in (SBatch st', a)
  | KPar ord _ a b, SPar st => let '(st', acts) := par_recv ord a b st m in (SPar st', acts)
  | _, _ => (s, [])
  end.

(* tasks a parallel stage has in flight (the WorkerDone messages that may arrive) *)
Definition ktasks (s : kstate) : list Z :=
  match s with SPar st => map fst (p_tasks st) | _ => [] end.

(* --- planning: op -> stage kind, and applyFusion (materializer.go) --- *)
Definition fusable (o : op) : bool :=
  match o with OMap _ _ | OTryMap _ _ _ _ _ _ | OFilter _ _ => true | _ => false end.

Definition kind_of (o : op) : kind :=
  match o with
  | OBatch n => KBatch n default_cfg
  | OBuffer n => KFlow o (buffer_cfg n)
  | OParMap ord w a b => KPar ord w a b
  | _ => KFlow o default_cfg
  end.

(* take the maximal run of fusable ops at the head *)
Fixpoint take_fusable (p : list op) : list op * list op :=
  match p with
  | o :: r => if fusable o then let '(g, rest) := take_fusable r in (o :: g, rest) else ([], p)
  | [] => ([], [])
  end.

Fixpoint plan_fuel (fuel : nat) (p : list op) : list kind :=
  match fuel, p with
  | S f, o :: r =>
    if fusable o then
      match take_fusable p with
      | ((_ :: _ :: _) as g, rest) => KFused g default_cfg :: plan_fuel f rest
      | _ => kind_of o :: plan_fuel f r
      end
    else kind_of o :: plan_fuel f r
  | _, _ => []
  end.
Definition plan (fuse : bool) (p : list op) : list kind :=
  if fuse then plan_fuel (length p) p else map kind_of p.

(* the ops a stage kind stands for *)
Definition kind_ops (k : kind) : list op :=
  match k with
  | KFlow o _ => [o]
  | KFused os _ => os
  | KBatch n _ | KBatch0 n _ => [OBatch n]
  | KPar ord w a b => [OParMap ord w a b]
  end.

(* --- pull source (Of(values...)) and sink (Collect) --- *)
Definition src_recv (rest : list val) (m : inmsg) : list val * list action :=
  match m with
  | FromDown (URequest n) =>
    match rest with
    | [] => ([], [ADown DComplete; AShutdown])
    | _ =>
      let take := Nat.min (Z.to_nat n) (length rest) in
      let rest' := skipn take rest in
      (rest', map (fun v => ADown (DElem v)) (firstn take rest) ++
              (match rest' with [] => [ADown DComplete; AShutdown] | _ => [] end))
    end
  | FromDown UCancel => (rest, [ADown DComplete; AShutdown])
  | _ => (rest, [])
  end.

Record sink_st := {
  k_credit : Z;
  k_items : list val;            (* Collector.items *)
  k_completions : nat;           (* how many times onComplete ran (sync.Once guards it) *)
  k_err : option errc }.         (* termErr *)
Definition sink_init (c : cfg) := {| k_credit := c_init c; k_items := []; k_completions := 0; k_err := None |}.

Definition sink_recv (c : cfg) (st : sink_st) (m : inmsg) : sink_st * list action :=
  match m with
  | FromUp (DElem v) =>
    let credit1 := k_credit st - 1 in
    if credit1 <=? c_refill c
    then ({| k_credit := credit1 + (c_init c - credit1); k_items := k_items st ++ [v];
             k_completions := k_completions st; k_err := k_err st |}, [AUp (URequest (c_init c - credit1))])
    else ({| k_credit := credit1; k_items := k_items st ++ [v];
             k_completions := k_completions st; k_err := k_err st |}, [])
  | FromUp DComplete =>
    ({| k_credit := k_credit st; k_items := k_items st; k_completions := 1; k_err := k_err st |}, [AShutdown])
  | FromUp (DError e) =>
    ({| k_credit := k_credit st; k_items := k_items st; k_completions := 1; k_err := Some e |},
     [AUp UCancel; AShutdown])
  | _ => (st, [])
  end.

(* ------------------------------------------------------------------------------------------ *)
(* The chain: nodes with ghost histories, FIFO links, every interleaving                       *)
(* ------------------------------------------------------------------------------------------ *)

(* generic wrapper around an actor: liveness and the ghost histories the theorems talk about *)
Record node (S : Type) := {
  n_alive : bool;
  n_cin : list dmsg;            (* ghost: messages consumed from upstream, in order *)
  n_cout : list dmsg;           (* ghost: messages sent downstream, in order *)
  n_cancelled : bool;           (* ghost: a streamCancel was consumed *)
  n_st : S }.
Arguments n_alive {S}. Arguments n_cin {S}. Arguments n_cout {S}. Arguments n_cancelled {S}. Arguments n_st {S}.

Definition mk_node {S} (s : S) : node S :=
  {| n_alive := true; n_cin := []; n_cout := []; n_cancelled := false; n_st := s |}.

Fixpoint downs (a : list action) : list dmsg :=
  match a with ADown m :: r => m :: downs r | _ :: r => downs r | [] => [] end.
Fixpoint ups (a : list action) : list umsg :=
  match a with AUp m :: r => m :: ups r | _ :: r => ups r | [] => [] end.
Fixpoint shuts (a : list action) : bool :=
  match a with AShutdown :: _ => true | _ :: r => shuts r | [] => false end.

(* a live node handles [m]; the result is the new node and the messages to put on its outgoing
   downstream / upstream links (Tell after Shutdown in the same handler still goes out) *)
Definition node_handle {S} (recv : S -> inmsg -> S * list action) (n : node S) (m : inmsg)
  : node S * list dmsg * list umsg :=
  let '(s', acts) := recv (n_st n) m in
  ({| n_alive := negb (shuts acts);
      n_cin := match m with FromUp d => n_cin n ++ [d] | _ => n_cin n end;
      n_cout := n_cout n ++ downs acts;
      n_cancelled := match m with FromDown UCancel => true | _ => n_cancelled n end;
      n_st := s' |}, downs acts, ups acts).

(* A chain = the source, or a chain feeding one more stage through a link (d: towards the stage,
   u: towards the producer). Messages sent to a stopped actor stay in the link forever (dead
   letters): a stopped actor never takes a step. *)
Inductive chain :=
| CSrc (n : node (list val))
| CStage (up : chain) (d : list dmsg) (u : list umsg) (k : kind) (n : node kstate).

Definition top_alive (c : chain) : bool :=
  match c with CSrc n => n_alive n | CStage _ _ _ _ n => n_alive n end.
Definition top_cout (c : chain) : list dmsg :=
  match c with CSrc n => n_cout n | CStage _ _ _ _ n => n_cout n end.
Definition top_cancelled (c : chain) : bool :=
  match c with CSrc n => n_cancelled n | CStage _ _ _ _ n => n_cancelled n end.

(* one step of a chain whose consumer link is (dout: from the chain, uin: to the chain) *)
Inductive cstep : chain -> list dmsg -> list umsg -> chain -> list dmsg -> list umsg -> Prop :=
| cs_src : forall n m uin dout n' ds us,
    n_alive n = true ->
    node_handle src_recv n (FromDown m) = (n', ds, us) ->
    cstep (CSrc n) dout (m :: uin) (CSrc n') (dout ++ ds) uin
| cs_down : forall up d u k n m uin dout n' ds us,       (* the stage consumes a message of its consumer *)
    n_alive n = true ->
    node_handle (krecv k) n (FromDown m) = (n', ds, us) ->
    cstep (CStage up d u k n) dout (m :: uin) (CStage up d (u ++ us) k n') (dout ++ ds) uin
| cs_up : forall up d u k n m uin dout n' ds us,         (* the stage consumes a message of its producer *)
    n_alive n = true ->
    node_handle (krecv k) n (FromUp m) = (n', ds, us) ->
    cstep (CStage up (m :: d) u k n) dout uin (CStage up d (u ++ us) k n') (dout ++ ds) uin
| cs_worker : forall up d u k n seq uin dout n' ds us,   (* a worker of a parallel stage finishes *)
    n_alive n = true -> In seq (ktasks (n_st n)) ->
    node_handle (krecv k) n (WorkerDone seq) = (n', ds, us) ->
    cstep (CStage up d u k n) dout uin (CStage up d (u ++ us) k n') (dout ++ ds) uin
| cs_inner : forall up d u k n uin dout up' d' u',       (* a step somewhere in the producer chain *)
    cstep up d u up' d' u' ->
    cstep (CStage up d u k n) dout uin (CStage up' d' u' k n) dout uin.

(* the whole system: chain, link to the sink, sink *)
Record system := { y_chain : chain; y_d : list dmsg; y_u : list umsg; y_sink : node sink_st }.

Inductive sstep (c : cfg) : system -> system -> Prop :=
| ss_chain : forall ch d u k ch' d' u',
    cstep ch d u ch' d' u' ->
    sstep c {| y_chain := ch; y_d := d; y_u := u; y_sink := k |} {| y_chain := ch'; y_d := d'; y_u := u'; y_sink := k |}
| ss_sink : forall ch m d u k k' ds us,
    n_alive k = true ->
    node_handle (sink_recv c) k (FromUp m) = (k', ds, us) ->
    sstep c {| y_chain := ch; y_d := m :: d; y_u := u; y_sink := k |} {| y_chain := ch; y_d := d; y_u := u ++ us; y_sink := k' |}.

(* initial state after wiring: every stage has handled stageWire (those that request at wire time
   have their request on the link), the sink's initial demand is on its link *)
Fixpoint chain_init (input : list val) (ks : list kind) (* innermost first, reversed *) : chain :=
  match ks with
  | [] => CSrc (mk_node input)
  | k :: r => CStage (chain_init input r) [] (kwire k) k (mk_node (kinit k))
  end.

Definition sys_init (c : cfg) (input : list val) (ks : list kind) : system :=
  {| y_chain := chain_init input (rev ks); y_d := []; y_u := [URequest (c_init c)];
     y_sink := mk_node (sink_init c) |}.

Inductive reach (c : cfg) (input : list val) (ks : list kind) : system -> Prop :=
| reach_init : reach c input ks (sys_init c input ks)
| reach_step : forall s s', reach c input ks s -> sstep c s s' -> reach c input ks s'.

(* ------------------------------------------------------------------------------------------ *)
(* An executable scheduler: runs the model under a schedule (list of choices); used by the tie   *)
(* and by the examples to exercise the relation above.                                          *)
(* ------------------------------------------------------------------------------------------ *)

(* enabled moves, numbered from the sink inwards; [choice mod number-of-moves] picks one *)
Inductive move := MSink | MDown (depth : nat) | MUp (depth : nat) | MWorker (depth : nat) (seq : Z) | MSrc (depth : nat).

Fixpoint chain_moves (depth : nat) (c : chain) (uin : list umsg) : list move :=
  match c with
  | CSrc n => if n_alive n then match uin with _ :: _ => [MSrc depth] | [] => [] end else []
  | CStage up d u _ n =>
    (if n_alive n then
       (match uin with _ :: _ => [MDown depth] | [] => [] end) ++
       (match d with _ :: _ => [MUp depth] | [] => [] end) ++
       map (MWorker depth) (ktasks (n_st n))
     else []) ++ chain_moves (S depth) up u
  end.

Fixpoint chain_apply (mv : move) (depth : nat) (c : chain) (dout : list dmsg) (uin : list umsg)
  : chain * list dmsg * list umsg :=
  match c with
  | CSrc n =>
    match mv, uin with
    | MSrc dp, m :: uin' =>
      if Nat.eqb dp depth then
        let '(n', ds, _) := node_handle src_recv n (FromDown m) in (CSrc n', dout ++ ds, uin')
      else (c, dout, uin)
    | _, _ => (c, dout, uin)
    end
  | CStage up d u k n =>
    match mv with
    | MDown dp =>
      if Nat.eqb dp depth then
        match uin with
        | m :: uin' => let '(n', ds, us) := node_handle (krecv k) n (FromDown m) in
                       (CStage up d (u ++ us) k n', dout ++ ds, uin')
        | [] => (c, dout, uin)
        end
      else let '(up', d', u') := chain_apply mv (S depth) up d u in (CStage up' d' u' k n, dout, uin)
    | MUp dp =>
      if Nat.eqb dp depth then
        match d with
        | m :: d' => let '(n', ds, us) := node_handle (krecv k) n (FromUp m) in
                     (CStage up d' (u ++ us) k n', dout ++ ds, uin)
        | [] => (c, dout, uin)
        end
      else let '(up', d', u') := chain_apply mv (S depth) up d u in (CStage up' d' u' k n, dout, uin)
    | MWorker dp seq =>
      if Nat.eqb dp depth then
        let '(n', ds, us) := node_handle (krecv k) n (WorkerDone seq) in
        (CStage up d (u ++ us) k n', dout ++ ds, uin)
      else let '(up', d', u') := chain_apply mv (S depth) up d u in (CStage up' d' u' k n, dout, uin)
    | MSrc _ => let '(up', d', u') := chain_apply mv (S depth) up d u in (CStage up' d' u' k n, dout, uin)
    | MSink => (c, dout, uin)
    end
  end.

Definition sys_moves (s : system) : list move :=
  (if n_alive (y_sink s) then match y_d s with _ :: _ => [MSink] | [] => [] end else []) ++
  chain_moves 0 (y_chain s) (y_u s).

Definition sys_apply (c : cfg) (mv : move) (s : system) : system :=
  match mv with
  | MSink =>
    match y_d s with
    | m :: d' => let '(k', _, us) := node_handle (sink_recv c) (y_sink s) (FromUp m) in
                 {| y_chain := y_chain s; y_d := d'; y_u := y_u s ++ us; y_sink := k' |}
    | [] => s
    end
  | _ => let '(ch', d', u') := chain_apply mv 0 (y_chain s) (y_d s) (y_u s) in
         {| y_chain := ch'; y_d := d'; y_u := u'; y_sink := y_sink s |}
  end.

(* run until quiescent or out of fuel; [sched] supplies the choices (cyclically extended with 0) *)
Fixpoint run_sched (c : cfg) (fuel : nat) (sched : list nat) (s : system) : system :=
  match fuel with
  | O => s
  | S f =>
    match sys_moves s with
    | [] => s
    | mv0 :: _ as mvs =>
      let '(ch, sched') := match sched with x :: r => (x, r) | [] => (O, []) end in
      run_sched c f sched' (sys_apply c (nth (ch mod length mvs) mvs mv0) s)
    end
  end.

(* what the outside world observes of a finished run *)
Definition observe (s : system) : list val * nat * option errc * bool :=
  (k_items (n_st (y_sink s)), k_completions (n_st (y_sink s)), k_err (n_st (y_sink s)),
   match sys_moves s with [] => true | _ => false end).
