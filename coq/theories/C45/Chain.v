(* C45 — composition: from per-stage local invariants to the whole chain, for chains of ANY length
   and EVERY interleaving of actor steps ([cstep]/[sstep] of Model.v). *)
From Coq Require Import ZArith List Bool Lia.
From GV Require Import C45.Model C45.Trace C45.Sem.
Import ListNotations.
Open Scope Z_scope.

(* ---------- what node_handle does to the ghost fields ---------- *)
Lemma node_handle_eq {S} (recv : S -> inmsg -> S * list action) (n : node S) m n' ds us :
  node_handle recv n m = (n', ds, us) ->
  exists s' acts, recv (n_st n) m = (s', acts) /\ ds = downs acts /\ us = ups acts /\
    n_alive n' = negb (shuts acts) /\
    n_cin n' = (match m with FromUp d => n_cin n ++ [d] | _ => n_cin n end) /\
    n_cout n' = n_cout n ++ downs acts /\
    n_cancelled n' = (match m with FromDown UCancel => true | _ => n_cancelled n end) /\
    n_st n' = s'.
Proof.
  unfold node_handle. destruct (recv (n_st n) m) as [s' acts]. intros H. inversion H; subst; clear H.
  exists s', acts. simpl. repeat split; reflexivity.
Qed.

Lemma downs_app a b : downs (a ++ b) = downs a ++ downs b.
Proof. induction a as [|x a IH]; simpl; auto. destruct x; simpl; rewrite ?IH; auto. Qed.
Lemma ups_app a b : ups (a ++ b) = ups a ++ ups b.
Proof. induction a as [|x a IH]; simpl; auto. destruct x; simpl; rewrite ?IH; auto. Qed.
Lemma shuts_app a b : shuts (a ++ b) = shuts a || shuts b.
Proof. induction a as [|x a IH]; simpl; auto. destruct x; simpl; auto. Qed.
Lemma downs_elems l : downs (map (fun v => ADown (DElem v)) l) = delems l.
Proof. induction l; simpl; congruence. Qed.
Lemma ups_elems l : ups (map (fun v => ADown (DElem v)) l) = [].
Proof. induction l; simpl; auto. Qed.
Lemma shuts_elems l : shuts (map (fun v => ADown (DElem v)) l) = false.
Proof. induction l; simpl; auto. Qed.

(* ---------- source ---------- *)
Definition SrcInv (input : list val) (n : node (list val)) : Prop :=
  wf_trace (n_cout n) /\
  (n_cancelled n = false -> approx (n_cout n) (input, [])) /\
  (n_alive n = true -> n_cancelled n = false /\ exists em, n_cout n = delems em /\ em ++ n_st n = input).

Lemma src_init input : SrcInv input (mk_node input).
Proof.
  split; [exact I|]. split; [intros _; apply approx_nil|]. intros _. split; [reflexivity|]. exists []. auto.
Qed.

Lemma src_recv_spec rest m s' acts : src_recv rest (FromDown m) = (s', acts) ->
  (m = UCancel /\ s' = rest /\ acts = [ADown DComplete; AShutdown]) \/
  (exists k out, m = URequest k /\ rest = out ++ s' /\
     ((s' = [] /\ acts = map (fun v => ADown (DElem v)) out ++ [ADown DComplete; AShutdown]) \/
      (s' <> [] /\ acts = map (fun v => ADown (DElem v)) out))).
Proof.
  destruct m as [k|]; simpl.
  - intros H. right. exists k. destruct rest as [|x r].
    + inversion H; subst. exists []. simpl. auto.
    + remember (x :: r) as full. inversion H as [[Hs Ha]]. clear H.
      exists (firstn (Nat.min (Z.to_nat k) (length full)) full).
      split; [reflexivity|]. split; [symmetry; apply firstn_skipn|].
      destruct (skipn (Nat.min (Z.to_nat k) (length full)) full) eqn:E.
      * left. auto.
      * right. rewrite app_nil_r. split; [discriminate|reflexivity].
  - intros H. inversion H; subst. left. auto.
Qed.

Lemma approx_complete l S : l = fst S -> snd S = [] -> approx (delems l ++ [DComplete]) S.
Proof.
  intros -> Hs.
  destruct (term_elems_app_none (delems (fst S)) [] [DComplete] (term_of_delems _)) as [E T].
  simpl in E, T. unfold approx. rewrite E, T, elems_of_delems, app_nil_r.
  split; [apply prefix_refl|]. split; [auto|intros; discriminate].
Qed.

Lemma src_step input n m n' ds us :
  SrcInv input n -> n_alive n = true -> node_handle src_recv n (FromDown m) = (n', ds, us) ->
  SrcInv input n' /\ (n_cancelled n' = true -> m = UCancel) /\ (In UCancel us -> False).
Proof.
  intros [W [A L]] Ha H. destruct (node_handle_eq _ _ _ _ _ _ H) as [s' [acts [R [-> [-> [Al [Ci [Co [Ca St]]]]]]]]].
  destruct (L Ha) as [Nc [em [Eo Ei]]].
  assert (Tn : term_of (n_cout n) = None) by (rewrite Eo; apply term_of_delems).
  destruct (src_recv_spec _ _ _ _ R) as [[-> [-> ->]]|[k [out [-> [Er [[Es ->]|[Es ->]]]]]]].
  - (* cancel *)
    split; [|split; simpl; auto].
    unfold SrcInv. rewrite Co, Ca, Al. simpl. split; [|split]; try discriminate.
    apply (wf_app_none (n_cout n) [] [DComplete] DComplete); auto.
  - (* request, exhausted *)
    rewrite Es in Er. rewrite app_nil_r in Er.
    split; [|split].
    + unfold SrcInv. rewrite Co, Ca, Al. rewrite downs_app, downs_elems, shuts_app, shuts_elems. simpl.
      split; [|split]; try discriminate.
      * apply (wf_app_none (n_cout n) out [DComplete] DComplete); auto.
      * intros _. rewrite Eo. rewrite app_assoc. unfold delems. rewrite <- map_app.
        apply approx_complete; simpl; auto. rewrite <- Ei, Er. reflexivity.
    + rewrite Ca. intros; congruence.
    + rewrite ups_app, ups_elems. simpl. auto.
  - (* request, more to come *)
    split; [|split].
    + unfold SrcInv. rewrite Co, Ca, Al, St. rewrite downs_elems, shuts_elems. simpl.
      rewrite Eo. unfold delems. rewrite <- map_app.
      split; [apply wf_delems|]. split.
      * intros _. apply approx_delems. simpl. exists s'. rewrite <- app_assoc, <- Er. auto.
      * intros _. split; [exact Nc|]. exists (em ++ out). split; [reflexivity|]. rewrite <- app_assoc, <- Er. auto.
    + rewrite Ca. intros; congruence.
    + rewrite ups_elems. simpl. auto.
Qed.

(* ---------- sink ---------- *)
Definition SinkInv (k : node sink_st) : Prop :=
  k_items (n_st k) = elems_of (n_cin k) /\
  (n_alive k = true -> term_of (n_cin k) = None /\ k_completions (n_st k) = O /\ k_err (n_st k) = None) /\
  (n_alive k = false -> exists t, n_cin k = delems (k_items (n_st k)) ++ [t] /\ is_elem t = false /\
       k_completions (n_st k) = 1%nat /\ k_err (n_st k) = match t with DError e => Some e | _ => None end).

Lemma sink_init_inv c : SinkInv (mk_node (sink_init c)).
Proof. split; [reflexivity|]. split; [auto|discriminate]. Qed.

Lemma sink_step c k m k' ds us :
  SinkInv k -> n_alive k = true -> node_handle (sink_recv c) k (FromUp m) = (k', ds, us) ->
  SinkInv k' /\ (In UCancel us -> n_alive k' = false) /\ n_cancelled k' = n_cancelled k.
Proof.
  intros [It [A D]] Ha H. destruct (node_handle_eq _ _ _ _ _ _ H) as [s' [acts [R [-> [-> [Al [Ci [Co [Ca St]]]]]]]]].
  destruct (A Ha) as [Tn [Cn En]].
  destruct (elems_of_snoc_none (n_cin k) m Tn) as [E T].
  destruct m as [v| |e]; simpl in R.
  - assert (Hst : k_items s' = k_items (n_st k) ++ [v] /\ k_completions s' = k_completions (n_st k) /\
                  k_err s' = k_err (n_st k) /\ shuts acts = false /\ ~ In UCancel (ups acts)).
    { clear St. destruct (k_credit (n_st k) - 1 <=? c_refill c); inversion R; subst s' acts; simpl;
        repeat split; auto; intros [F|[]]; discriminate. }
    destruct Hst as [H1 [H2 [H3 [H4 H5]]]].
    split; [|split; [intros Hin; contradiction|exact Ca]].
    unfold SinkInv. rewrite Ci, Al, St, H1, H2, H3, H4, E, It. simpl.
    split; [reflexivity|]. split; [|discriminate]. intros _. rewrite T. auto.
  - inversion R as [[Hs Hacts]]; clear R; rewrite <- Hs in St; rewrite <- Hacts in *; clear Hs Hacts.
    split; [|split; [intros []|exact Ca]].
    unfold SinkInv. rewrite Ci, Al, St, E. simpl.
    split; [rewrite It, app_nil_r; reflexivity|]. split; [discriminate|].
    intros _. exists DComplete. rewrite It. rewrite <- (term_none_delems _ Tn). auto.
  - inversion R as [[Hs Hacts]]; clear R; rewrite <- Hs in St; rewrite <- Hacts in *; clear Hs Hacts.
    split; [|split; [intros _; rewrite Al; reflexivity|exact Ca]].
    unfold SinkInv. rewrite Ci, Al, St, E. simpl.
    split; [rewrite It, app_nil_r; reflexivity|]. split; [discriminate|].
    intros _. exists (DError e). rewrite It. rewrite <- (term_none_delems _ Tn). auto.
Qed.

(* ---------- the generic composition argument ---------- *)
Section Compose.
  (* which stage kinds are covered, and their local invariant *)
  Variable kok : kind -> Prop.
  Variable NInv : kind -> node kstate -> Prop.
  Hypothesis N0 : forall k, kok k -> NInv k (mk_node (kinit k)).
  Hypothesis N1 : forall k n m n' ds us, kok k -> NInv k n -> n_alive n = true ->
      (match m with FromUp d => wf_trace (n_cin n ++ [d]) | WorkerDone s => In s (ktasks (n_st n)) | _ => True end) ->
      node_handle (krecv k) n m = (n', ds, us) -> NInv k n'.
  Hypothesis N2 : forall k n S, kok k -> NInv k n -> n_cancelled n = false ->
      approx (n_cin n) S -> approx (n_cout n) (ksem k S).
  Hypothesis N3 : forall k n m n' ds us, kok k -> node_handle (krecv k) n m = (n', ds, us) ->
      In UCancel us -> n_alive n' = false.
  Hypothesis N4 : forall k n, kok k -> NInv k n -> wf_trace (n_cout n).

  Variable input : list val.

  Fixpoint cspec (c : chain) : sstream :=
    match c with CSrc _ => (input, []) | CStage up _ _ k _ => ksem k (cspec up) end.
  Fixpoint ckinds (c : chain) : list kind :=
    match c with CSrc _ => [] | CStage up _ _ k _ => k :: ckinds up end.

  Definition cancelled_to (c : chain) (u : list umsg) : Prop := In UCancel u \/ top_cancelled c = true.

  Fixpoint CInv (c : chain) : Prop :=
    match c with
    | CSrc n => SrcInv input n
    | CStage up d u k n =>
      CInv up /\ kok k /\ NInv k n /\ top_cout up = n_cin n ++ d /\
      (cancelled_to up u -> n_alive n = false) /\ approx (n_cin n) (cspec up)
    end.

  Lemma cinv_out c : CInv c ->
    wf_trace (top_cout c) /\ (top_cancelled c = false -> approx (top_cout c) (cspec c)).
  Proof.
    destruct c as [n|up d u k n]; simpl.
    - intros [W [A _]]. auto.
    - intros [_ [K [Ni [_ [_ Ap]]]]]. split; [eapply N4; eauto|]. intros Hc. eapply N2; eauto.
  Qed.

  Lemma cstep_inv c dout uin c' dout' uin' :
    cstep c dout uin c' dout' uin' -> CInv c ->
    CInv c' /\ (exists ds, dout' = dout ++ ds /\ top_cout c' = top_cout c ++ ds) /\
    (forall x, In x uin' -> In x uin) /\
    (top_cancelled c' = true -> top_cancelled c = true \/ In UCancel uin) /\
    ckinds c' = ckinds c /\ cspec c' = cspec c.
  Proof.
    intros Hs. induction Hs; intros Hi.
    - (* source *)
      simpl in Hi. destruct (src_step _ _ _ _ _ _ Hi H H0) as [Hi' [Hc _]].
      destruct (node_handle_eq _ _ _ _ _ _ H0) as [s' [acts [_ [Eds [_ [_ [_ [Co _]]]]]]]].
      split; [exact Hi'|]. split; [exists ds; split; [reflexivity|simpl; rewrite Co, Eds; reflexivity]|].
      split; [intros x Hx; right; exact Hx|]. split; [|split; reflexivity].
      simpl. intros Hc'. right. left. now apply Hc.
    - (* the stage consumes a message of its consumer *)
      simpl in Hi. destruct Hi as [Hup [K [Ni [Lk [Cd Ap]]]]].
      destruct (node_handle_eq _ _ _ _ _ _ H0) as [s' [acts [_ [Eds [Eus [_ [Ci [Co [Ca _]]]]]]]]].
      assert (Ni' : NInv k n') by (apply (N1 k n (FromDown m) n' ds us K Ni H I H0)).
      split; [|split; [|split; [|split; [|split]]]]; try reflexivity.
      + simpl. split; [exact Hup|]. split; [exact K|]. split; [exact Ni'|].
        split; [rewrite Ci; exact Lk|]. split; [|rewrite Ci; exact Ap].
        intros [Hin|Hc].
        * apply in_app_or in Hin. destruct Hin as [Hin|Hin].
          -- rewrite (Cd (or_introl Hin)) in H. discriminate.
          -- eapply N3; eauto.
        * rewrite (Cd (or_intror Hc)) in H. discriminate.
      + exists ds. split; [reflexivity|]. simpl. rewrite Co, Eds. reflexivity.
      + intros x Hx. right. exact Hx.
      + simpl. rewrite Ca. destruct m; auto.
    - (* the stage consumes a message of its producer *)
      simpl in Hi. destruct Hi as [Hup [K [Ni [Lk [Cd Ap]]]]].
      destruct (node_handle_eq _ _ _ _ _ _ H0) as [s' [acts [_ [Eds [Eus [_ [Ci [Co [Ca _]]]]]]]]].
      assert (Hnc : ~ cancelled_to up u) by (intros Hc; rewrite (Cd Hc) in H; discriminate).
      assert (Tc : top_cancelled up = false).
      { destruct (top_cancelled up) eqn:E; auto. exfalso. apply Hnc. right. exact E. }
      destruct (cinv_out up Hup) as [Wup Aup].
      assert (Lk' : top_cout up = (n_cin n ++ [m]) ++ d) by (rewrite Lk, <- app_assoc; reflexivity).
      assert (Wc : wf_trace (n_cin n ++ [m])) by (rewrite Lk' in Wup; eapply wf_prefix; eauto).
      assert (Ap' : approx (n_cin n ++ [m]) (cspec up)).
      { specialize (Aup Tc). rewrite Lk' in Aup. eapply approx_prefix; eauto. }
      assert (Ni' : NInv k n') by (apply (N1 k n (FromUp m) n' ds us K Ni H Wc H0)).
      split; [|split; [|split; [|split; [|split]]]]; try reflexivity.
      + simpl. split; [exact Hup|]. split; [exact K|]. split; [exact Ni'|].
        split; [rewrite Ci; exact Lk'|]. split; [|rewrite Ci; exact Ap'].
        intros [Hin|Hc].
        * apply in_app_or in Hin. destruct Hin as [Hin|Hin].
          -- exfalso. apply Hnc. left. exact Hin.
          -- eapply N3; eauto.
        * congruence.
      + exists ds. split; [reflexivity|]. simpl. rewrite Co, Eds. reflexivity.
      + auto.
      + simpl. rewrite Ca. auto.
    - (* a worker finishes *)
      simpl in Hi. destruct Hi as [Hup [K [Ni [Lk [Cd Ap]]]]].
      destruct (node_handle_eq _ _ _ _ _ _ H1) as [s' [acts [_ [Eds [Eus [_ [Ci [Co [Ca _]]]]]]]]].
      assert (Ni' : NInv k n') by (apply (N1 k n (WorkerDone seq) n' ds us K Ni H H0 H1)).
      split; [|split; [|split; [|split; [|split]]]]; try reflexivity.
      + simpl. split; [exact Hup|]. split; [exact K|]. split; [exact Ni'|].
        split; [rewrite Ci; exact Lk|]. split; [|rewrite Ci; exact Ap].
        intros [Hin|Hc].
        * apply in_app_or in Hin. destruct Hin as [Hin|Hin].
          -- rewrite (Cd (or_introl Hin)) in H. discriminate.
          -- eapply N3; eauto.
        * rewrite (Cd (or_intror Hc)) in H. discriminate.
      + exists ds. split; [reflexivity|]. simpl. rewrite Co, Eds. reflexivity.
      + auto.
      + simpl. rewrite Ca. auto.
    - (* a step inside the producer chain *)
      simpl in Hi. destruct Hi as [Hup [K [Ni [Lk [Cd Ap]]]]].
      destruct (IHHs Hup) as [Hup' [[ds [Ed Eo]] [Hu [Hc [Hk Hsp]]]]].
      split; [|split; [|split; [|split; [|split]]]].
      + simpl. split; [exact Hup'|]. split; [exact K|]. split; [exact Ni|].
        split; [rewrite Eo, Ed, Lk, app_assoc; reflexivity|]. split; [|rewrite Hsp; exact Ap].
        intros [Hin|Hc']; apply Cd.
        * left. auto.
        * destruct (Hc Hc'); [right|left]; auto.
      + exists []. rewrite !app_nil_r. auto.
      + auto.
      + simpl. auto.
      + simpl. now rewrite Hk.
      + simpl. now rewrite Hsp.
  Qed.

  (* ---------- the whole system ---------- *)
  Definition SysInv (s : system) : Prop :=
    CInv (y_chain s) /\ SinkInv (y_sink s) /\
    top_cout (y_chain s) = n_cin (y_sink s) ++ y_d s /\
    (cancelled_to (y_chain s) (y_u s) -> n_alive (y_sink s) = false) /\
    approx (n_cin (y_sink s)) (cspec (y_chain s)).

  Lemma chain_init_inv ks : Forall kok ks -> CInv (chain_init input ks) /\
    top_cout (chain_init input ks) = [] /\ top_cancelled (chain_init input ks) = false.
  Proof.
    induction ks as [|k r IH]; intros F; simpl.
    - split; [apply src_init|auto].
    - inversion F; subst. destruct (IH H2) as [Hi [Ho Hc]].
      split; [|auto]. split; [exact Hi|]. split; [assumption|]. split; [apply N0; assumption|].
      split; [rewrite Ho; reflexivity|]. split; [|apply approx_nil].
      intros [Hin|Hc']; [|congruence]. exfalso.
      destruct k; simpl in Hin; intuition discriminate.
  Qed.

  Lemma sysinv_init c ks : Forall kok ks -> SysInv (sys_init c input ks).
  Proof.
    intros F. destruct (chain_init_inv (rev ks)) as [Hi [Ho Hc]]; [apply Forall_rev; exact F|].
    unfold SysInv, sys_init. simpl. split; [exact Hi|]. split; [apply sink_init_inv|].
    split; [rewrite Ho; reflexivity|]. split; [|apply approx_nil].
    intros [[Hin|[]]|Hc']; [discriminate|congruence].
  Qed.

  Lemma sysinv_step c s s' : sstep c s s' -> SysInv s -> SysInv s' /\ ckinds (y_chain s') = ckinds (y_chain s).
  Proof.
    intros Hs [Hi [Hk [Lk [Cd Ap]]]]. inversion Hs; subst; simpl in *.
    - destruct (cstep_inv _ _ _ _ _ _ H Hi) as [Hi' [[ds [Ed Eo]] [Hu [Hc [Hkk Hsp]]]]].
      split; [|exact Hkk]. unfold SysInv; simpl.
      split; [exact Hi'|]. split; [exact Hk|]. split; [rewrite Eo, Ed, Lk, app_assoc; reflexivity|].
      split; [|rewrite Hsp; exact Ap].
      intros [Hin|Hc']; apply Cd.
      + left; auto.
      + destruct (Hc Hc'); [right|left]; auto.
    - destruct (sink_step _ _ _ _ _ _ Hk H H0) as [Hk' [Hcs Hcc]].
      destruct (node_handle_eq _ _ _ _ _ _ H0) as [s0 [acts [_ [Eds [Eus [_ [Ci [Co [Ca _]]]]]]]]].
      split; [|reflexivity]. unfold SysInv; simpl.
      assert (Hnc : ~ cancelled_to ch u) by (intros Hc; rewrite (Cd Hc) in H; discriminate).
      assert (Tc : top_cancelled ch = false).
      { destruct (top_cancelled ch) eqn:E; auto. exfalso. apply Hnc. right. exact E. }
      destruct (cinv_out ch Hi) as [Wup Aup].
      assert (Lk' : top_cout ch = (n_cin k ++ [m]) ++ d) by (rewrite Lk, <- app_assoc; reflexivity).
      split; [exact Hi|]. split; [exact Hk'|]. split; [rewrite Ci; exact Lk'|]. split.
      + intros [Hin|Hc].
        * apply in_app_or in Hin. destruct Hin as [Hin|Hin]; [exfalso; apply Hnc; left; exact Hin|auto].
        * congruence.
      + rewrite Ci. specialize (Aup Tc). rewrite Lk' in Aup. eapply approx_prefix; eauto.
  Qed.

  Lemma ckinds_init ks : ckinds (chain_init input ks) = ks.
  Proof. induction ks; simpl; congruence. Qed.

  Theorem reach_inv c ks s : Forall kok ks -> reach c input ks s ->
    SysInv s /\ ckinds (y_chain s) = rev ks.
  Proof.
    intros F R. induction R.
    - split; [apply sysinv_init; exact F|]. simpl. apply ckinds_init.
    - destruct IHR as [Hi Hk]. destruct (sysinv_step _ _ _ H Hi) as [Hi' Hk']. split; [exact Hi'|congruence].
  Qed.

  (* the stream the list semantics assigns to the output of a planned pipeline *)
  Definition plan_sem (ks : list kind) : sstream := fold_left (fun S k => ksem k S) ks (input, []).

  Lemma cspec_kinds c : cspec c = fold_right (fun k S => ksem k S) (input, []) (ckinds c).
  Proof. induction c; simpl; congruence. Qed.

  Lemma cspec_plan c ks : ckinds c = rev ks -> cspec c = plan_sem ks.
  Proof.
    intros H. rewrite cspec_kinds, H. unfold plan_sem. rewrite <- fold_left_rev_right. reflexivity.
  Qed.
End Compose.
