(* C45 — executable helpers used by the check to compare the implementation with the model
   (evaluated with vm_compute on generated cases). No proofs. *)
From Coq Require Import ZArith List Bool.
From GV Require Import C45.Model.
Import ListNotations.
Open Scope Z_scope.

(* ---- encodings shared with the Go harness ---- *)
Definition enc_val (v : val) : list Z :=
  match v with VZ z => [1; z] | VL l => 2 :: Z.of_nat (length l) :: l end.
Definition enc_dmsg (m : dmsg) : list Z :=
  match m with DElem v => 10 :: enc_val v | DComplete => [11] | DError e => [12; e] end.
Definition enc_umsg (m : umsg) : list Z :=
  match m with URequest n => [20; n] | UCancel => [21] end.
(* a streamComplete directly after a streamComplete (the flowActor sends it twice when upstream completes
   with an empty buffer) is not observable downstream: the comparison ignores such repeats *)
Fixpoint enc_actions_from (prev_complete : bool) (a : list action) : list Z :=
  match a with
  | ADown DComplete :: r => (if prev_complete then [] else [11]) ++ enc_actions_from true r
  | ADown m :: r => enc_dmsg m ++ enc_actions_from false r
  | AUp m :: r => enc_umsg m ++ enc_actions_from false r
  | AShutdown :: r => enc_actions_from prev_complete r
  | [] => []
  end.
Definition enc_actions (a : list action) : list Z := enc_actions_from false a.

Fixpoint zl_eqb (a b : list Z) : bool :=
  match a, b with
  | [], [] => true
  | x :: a', y :: b' => (x =? y) && zl_eqb a' b'
  | _, _ => false
  end.
Fixpoint zll_eqb (a b : list (list Z)) : bool :=
  match a, b with
  | [], [] => true
  | x :: a', y :: b' => zl_eqb x y && zll_eqb a' b'
  | _, _ => false
  end.

Definition b2z (b : bool) : Z := if b then 1 else 0.

(* ---- actor-step conformance: run a script through a handler, one observation per step ---- *)
Section Steps.
  Context {S : Type} (recv : S -> inmsg -> S * list action) (snap : S -> list Z).
  Fixpoint run_steps (alive : bool) (s : S) (script : list inmsg) : list (list Z) :=
    match script with
    | [] => []
    | m :: r =>
      if alive then
        let '(s', acts) := recv s m in
        let alive' := negb (shuts acts) in
        (b2z alive' :: snap s' ++ [-7] ++ enc_actions acts) :: run_steps alive' s' r
      else [0] :: run_steps false s r
    end.
End Steps.

Definition snap_k (s : kstate) : list Z :=
  match s with
  | SFlow st => [f_credit st; f_demand st; Z.of_nat (length (f_buf st)); b2z (f_completing st)]
  | SFused c => [c]
  | SBatch st => [b_credit st; b_demand st; Z.of_nat (length (b_window st))]
  | SPar st => [Z.of_nat (length (p_tasks st)); p_inseq st; p_next st; Z.of_nat (length (p_pending st)); b2z (p_updone st)]
  end.
Definition steps_k (k : kind) (script : list inmsg) : list (list Z) :=
  concat (map enc_umsg (kwire k)) :: run_steps (krecv k) snap_k true (kinit k) script.

Definition snap_sink (s : sink_st) : list Z :=
  [k_credit s; Z.of_nat (length (k_items s)); Z.of_nat (k_completions s)].
Definition steps_sink (c : cfg) (script : list inmsg) : list (list Z) :=
  [20; c_init c] :: run_steps (sink_recv c) snap_sink true (sink_init c) script.
Definition steps_src (input : list val) (script : list inmsg) : list (list Z) :=
  [] :: run_steps src_recv (fun _ => []) true input script.

(* the same without the ledger snapshot (used when the implementation's private fields are not readable) *)
Definition steps_k_ns (k : kind) (script : list inmsg) : list (list Z) :=
  concat (map enc_umsg (kwire k)) :: run_steps (krecv k) (fun _ => []) true (kinit k) script.
Definition steps_sink_ns (c : cfg) (script : list inmsg) : list (list Z) :=
  [20; c_init c] :: run_steps (sink_recv c) (fun _ => []) true (sink_init c) script.

(* ---- black-box pipelines: is the observed outcome one the list semantics allows? ---- *)
Fixpoint count_val (x : val) (l : list val) : nat :=
  match l with [] => O | y :: r => (if val_eqb x y then 1 else 0) + count_val x r end.
Definition submultiset (a b : list val) : bool :=
  forallb (fun x => Nat.leb (count_val x a) (count_val x b)) a.
Definition same_multiset (a b : list val) : bool :=
  Nat.eqb (length a) (length b) && submultiset a b.
Fixpoint vals_eqb (a b : list val) : bool :=
  match a, b with
  | [], [] => true
  | x :: a', y :: b' => val_eqb x y && vals_eqb a' b'
  | _, _ => false
  end.
Fixpoint is_prefix (a b : list val) : bool :=
  match a, b with
  | [], _ => true
  | x :: a', y :: b' => val_eqb x y && is_prefix a' b'
  | _, _ => false
  end.
Definition has_unordered (p : list op) : bool :=
  existsb (fun o => match o with OParMap false _ _ _ => true | _ => false end) p.

(* observed: items, terminal error (None = completed normally), number of terminal signals the
   live sink handled, whether the stream finished before the harness timeout *)
Definition accept (p : list op) (input : list val) (items : list val) (err : option Z)
           (terminals : Z) (done : bool) : bool :=
  let '(ys, errs) := sem p input in
  done && (terminals =? 1) &&
  match errs, err with
  | [], None => if has_unordered p then same_multiset items ys else vals_eqb items ys
  | _ :: _, Some e => existsb (Z.eqb e) errs &&
                      (if has_unordered p then submultiset items ys else is_prefix items ys)
  | _, _ => false
  end.
