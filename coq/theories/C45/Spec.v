(* C45 — the per-kind list semantics [ksem] of a planned (fused) pipeline agrees with the list
   semantics [sem] of the operator description, and [sem_op] is the familiar list function. *)
From Coq Require Import ZArith List Bool Lia.
From GV Require Import C45.Model C45.Trace C45.Sem C45.Chain C45.StageFlow C45.Main.
Import ListNotations.
Open Scope Z_scope.

(* ---------- flowActor: run_flow = sem_op ---------- *)
Lemma run_flow_stateless o : (forall s v, op_step o s v = (s, elem_fn o v)) -> forall xs s,
  run_flow o s xs = (s, fst (elementwise (elem_fn o) (op_resumes o) xs), snd (elementwise (elem_fn o) (op_resumes o) xs)).
Proof.
  intros H. induction xs as [|x r IH]; intros s; simpl; [reflexivity|].
  rewrite H. destruct (elem_fn o x) as [outs|e].
  - rewrite IH. destruct (elementwise (elem_fn o) (op_resumes o) r). reflexivity.
  - destruct (op_resumes o); [apply IH|reflexivity].
Qed.

Lemma run_flow_scan z0 : forall xs acc,
  rf_out (run_flow (OScan z0) (TSAcc acc) xs) = fst (scan_from acc xs) /\
  rf_err (run_flow (OScan z0) (TSAcc acc) xs) = snd (scan_from acc xs).
Proof.
  induction xs as [|x r IH]; intros acc; simpl; [auto|].
  destruct x as [z|l]; simpl; [|auto].
  destruct (IH (acc + z)) as [I1 I2].
  destruct (run_flow (OScan z0) (TSAcc (acc + z)) r) as [[s1 o1] e1].
  destruct (scan_from (acc + z) r) as [ys e]. unfold rf_out, rf_err in *. simpl in *. subst. auto.
Qed.

Definition last_of (s : tstate) : option val := match s with TSLast v => Some v | _ => None end.

Lemma run_flow_dedup : forall xs s,
  rf_out (run_flow ODedup s xs) = dedup_from (last_of s) xs /\ rf_err (run_flow ODedup s xs) = None.
Proof.
  induction xs as [|x r IH]; intros s; simpl; [auto|].
  destruct s as [|z|l]; simpl.
  - destruct (IH (TSLast x)) as [I1 I2]. destruct (run_flow ODedup (TSLast x) r) as [[s1 o1] e1].
    unfold rf_out, rf_err in *. simpl in *. subst. auto.
  - destruct (IH (TSLast x)) as [I1 I2]. destruct (run_flow ODedup (TSLast x) r) as [[s1 o1] e1].
    unfold rf_out, rf_err in *. simpl in *. subst. auto.
  - destruct (val_eqb l x).
    + destruct (IH (TSLast l)) as [I1 I2]. destruct (run_flow ODedup (TSLast l) r) as [[s1 o1] e1].
      unfold rf_out, rf_err in *. simpl in *. subst. auto.
    + destruct (IH (TSLast x)) as [I1 I2]. destruct (run_flow ODedup (TSLast x) r) as [[s1 o1] e1].
      unfold rf_out, rf_err in *. simpl in *. subst. auto.
Qed.

Lemma run_flow_sem o xs : flow_op o ->
  rf_out (run_flow o (op_init o) xs) = fst (sem_op o xs) /\ rf_err (run_flow o (op_init o) xs) = snd (sem_op o xs).
Proof.
  intros H. destruct o; simpl in H; try contradiction;
    try (rewrite run_flow_stateless by (intros; reflexivity); unfold rf_out, rf_err; simpl; auto; fail).
  - apply run_flow_scan.
  - apply run_flow_dedup.
Qed.

(* ---------- fused stage: element-major composition = stage-major list semantics ---------- *)
Lemma fusable_out o v l : fusable o = true -> elem_fn o v = EOut l -> l = [] \/ exists w, l = [w].
Proof.
  destruct o; simpl; try discriminate; intros _; destruct v as [x|zs]; try discriminate.
  - intros H; inversion H; eauto.
  - destruct (x mod m =? r); intros H; inversion H; eauto.
  - destruct (x mod m =? r); intros H; inversion H; eauto.
Qed.

Lemma run_fused_nil xs : run_fused [] xs = (xs, None).
Proof. induction xs as [|x r IH]; simpl; [reflexivity|]. rewrite IH. reflexivity. Qed.

Lemma fused_cons o r : fusable o = true -> forall xs,
  run_fused (o :: r) xs =
  let '(ys1, e1) := elementwise (elem_fn o) false xs in
  let '(ys2, e2) := run_fused r ys1 in
  (ys2, match e2 with Some e => Some e | None => e1 end).
Proof.
  intros Hf. induction xs as [|x xs IH]; simpl; [reflexivity|].
  unfold fuse_fn. destruct (elem_fn o x) as [l|e] eqn:He.
  - destruct (fusable_out o x l Hf He) as [->|[w ->]].
    + rewrite IH. simpl. destruct (elementwise (elem_fn o) false xs) as [ys1 e1]. reflexivity.
    + destruct (elementwise (elem_fn o) false xs) as [ys1 e1] eqn:E1. simpl.
      destruct (fused_fn r w).
      * rewrite IH. destruct (run_fused r ys1) as [ys2 e2]. reflexivity.
      * rewrite IH. reflexivity.
      * reflexivity.
  - simpl. reflexivity.
Qed.

Definition sem_ops (os : list op) (S : sstream) : sstream := fold_left (fun s o => sem_stage o s) os S.

Lemma sem_op_fusable o xs : fuse_op o -> sem_op o xs = elementwise (elem_fn o) false xs.
Proof.
  intros [Hf Hr]. destruct o; simpl in Hf; try discriminate; unfold sem_op; try reflexivity.
  rewrite Hr. reflexivity.
Qed.

Lemma fused_sem os : Forall fuse_op os -> forall xs E,
  fst (sem_ops os (xs, E)) = fst (run_fused os xs) /\
  exists E', snd (sem_ops os (xs, E)) = E ++ E' /\
     (snd (run_fused os xs) = None -> E' = []) /\
     (forall e, snd (run_fused os xs) = Some e -> In e E').
Proof.
  induction 1 as [|o r Ho Hr IH]; intros xs E.
  - simpl. rewrite run_fused_nil. simpl. split; [reflexivity|]. exists []. rewrite app_nil_r.
    split; [reflexivity|]. split; [auto|intros; discriminate].
  - assert (Hst : sem_ops (o :: r) (xs, E) =
                  sem_ops r (fst (elementwise (elem_fn o) false xs), E ++ olist (snd (elementwise (elem_fn o) false xs)))).
    { unfold sem_ops. simpl. unfold sem_stage at 2. simpl. rewrite (sem_op_fusable o xs Ho).
      destruct (elementwise (elem_fn o) false xs). reflexivity. }
    rewrite Hst. rewrite (fused_cons o r (proj1 Ho) xs).
    destruct (elementwise (elem_fn o) false xs) as [ys1 e1]. simpl.
    destruct (IH ys1 (E ++ olist e1)) as [I1 [E' [I2 [I3 I4]]]].
    destruct (run_fused r ys1) as [ys2 e2]. simpl in *.
    split; [exact I1|]. exists (olist e1 ++ E'). split; [rewrite I2, app_assoc; reflexivity|].
    split.
    + destruct e2; [discriminate|]. intros ->. rewrite I3 by reflexivity. reflexivity.
    + intros e He. destruct e2 as [e2|].
      * inversion He; subst. apply in_or_app. right. apply I4. reflexivity.
      * subst e1. apply in_or_app. left. left. reflexivity.
Qed.

(* ---------- weakening of the error list ---------- *)
Definition swk (S S' : sstream) : Prop :=
  fst S = fst S' /\ incl (snd S) (snd S') /\ (snd S = [] -> snd S' = []).

Lemma swk_refl S : swk S S.
Proof. split; [reflexivity|]. split; [apply incl_refl|auto]. Qed.

Lemma approx_swk t S S' : approx t S -> swk S S' -> approx t S'.
Proof.
  intros [P [C E]] [F [I N]]. split; [rewrite <- F; exact P|]. split.
  - intros H. destruct (C H) as [C1 C2]. split; [rewrite <- F; exact C1|auto].
  - intros e H. apply I. auto.
Qed.

Lemma swk_ext S S' (ys : list val) (e : option errc) :
  swk S S' -> swk (ys, snd S ++ olist e) (ys, snd S' ++ olist e).
Proof.
  intros [F [I N]]. split; [reflexivity|]. simpl. split.
  - apply incl_app; [apply incl_appl; exact I|apply incl_appr; apply incl_refl].
  - intros H. apply app_eq_nil in H. destruct H as [H1 H2]. rewrite (N H1), H2. reflexivity.
Qed.

Lemma ksem_sem k S S' : kok k -> swk S S' -> swk (ksem k S) (sem_ops (kind_ops k) S').
Proof.
  intros K W. pose proof W as [F [I N]]. destruct k; simpl in K; try contradiction.
  - (* flowActor *)
    unfold sem_ops. simpl. unfold sem_stage. rewrite <- F.
    destruct (run_flow_sem o (fst S) K) as [R1 R2]. rewrite R1, R2.
    destruct (sem_op o (fst S)) as [ys e]. simpl. apply swk_ext. exact W.
  - (* fused *)
    simpl. destruct S' as [xs' E']. simpl in F. subst xs'.
    destruct (fused_sem os K (fst S) E') as [G1 [E'' [G2 [G3 G4]]]].
    split; [simpl; symmetry; exact G1|]. simpl in *. rewrite G2. split.
    + apply incl_app; [apply incl_appl; exact I|].
      destruct (snd (run_fused os (fst S))) as [e|] eqn:He; simpl; [|apply incl_nil_l].
      intros x [<-|[]]. apply in_or_app. right. apply G4. reflexivity.
    + intros H. apply app_eq_nil in H. destruct H as [H1 H2].
      destruct (snd (run_fused os (fst S))) as [e|]; [discriminate|].
      rewrite (N H1), G3 by reflexivity. reflexivity.
  - (* batch *)
    unfold sem_ops. simpl. unfold sem_stage. rewrite <- F. simpl.
    destruct (chunks_from n [] (fst S)) as [ys e]. simpl. apply swk_ext. exact W.
  - (* ordered parallel map: the worker count does not enter the list semantics *)
    subst. unfold sem_ops. cbn [kind_ops fold_left]. unfold sem_stage, ksem. rewrite <- F.
    cbn [sem_op op_resumes]. change (elem_fn (OParMap true w a b)) with (elem_fn (OParMap true 1 a b)).
    destruct (elementwise (elem_fn (OParMap true 1 a b)) false (fst S)) as [ys e]. cbn [fst snd].
    apply swk_ext. exact W.
Qed.

Lemma plan_sem_sem input ks : Forall kok ks ->
  swk (plan_sem input ks) (sem (concat (map kind_ops ks)) input).
Proof.
  unfold plan_sem, sem.
  assert (G : forall S S', swk S S' -> Forall kok ks ->
             swk (fold_left (fun S k => ksem k S) ks S)
                 (fold_left (fun s o => sem_stage o s) (concat (map kind_ops ks)) S')).
  { induction ks as [|k r IH]; intros S S' W F; simpl; [exact W|].
    inversion F; subst. rewrite fold_left_app. apply IH; [|assumption]. apply ksem_sem; assumption. }
  intros F. apply G; [apply swk_refl|exact F].
Qed.

(* ---------- planning keeps the operators ---------- *)
Lemma take_fusable_spec p : forall g rest, take_fusable p = (g, rest) -> p = g ++ rest.
Proof.
  induction p as [|o r IH]; simpl; intros g rest H; [inversion H; reflexivity|].
  destruct (fusable o); [|inversion H; reflexivity].
  destruct (take_fusable r) as [g1 rest1]. inversion H; subst. simpl. f_equal. apply IH. reflexivity.
Qed.

Lemma kind_ops_of o : kind_ops (kind_of o) = [o].
Proof. destruct o; reflexivity. Qed.

Lemma plan_fuel_ops : forall fuel p, (length p <= fuel)%nat -> concat (map kind_ops (plan_fuel fuel p)) = p.
Proof.
  induction fuel as [|f IH]; intros p Hl; [destruct p; [reflexivity|simpl in Hl; lia]|].
  destruct p as [|o r]; [reflexivity|]. simpl in Hl.
  cbn [plan_fuel]. destruct (fusable o) eqn:Hf.
  - destruct (take_fusable (o :: r)) as [g rest] eqn:Ht. pose proof (take_fusable_spec _ _ _ Ht) as Hp.
    destruct g as [|g1 [|g2 g']].
    + simpl. rewrite kind_ops_of. simpl. f_equal. apply IH. lia.
    + simpl. rewrite kind_ops_of. simpl. f_equal. apply IH. lia.
    + cbn [map concat kind_ops]. rewrite IH.
      * symmetry. exact Hp.
      * apply (f_equal (@length op)) in Hp. rewrite app_length in Hp. simpl in Hp. lia.
  - simpl. rewrite kind_ops_of. simpl. f_equal. apply IH. lia.
Qed.

Lemma plan_ops fuse p : concat (map kind_ops (plan fuse p)) = p.
Proof.
  unfold plan. destruct fuse; [apply plan_fuel_ops; lia|].
  induction p as [|o r IH]; simpl; [reflexivity|]. rewrite kind_ops_of, IH. reflexivity.
Qed.
