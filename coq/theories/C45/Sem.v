(* C45 — the list semantics of the stage kinds ([ksem]) and their prefix-monotonicity. *)
From Coq Require Import ZArith List Bool Lia.
From GV Require Import C45.Model C45.Trace.
Import ListNotations.
Open Scope Z_scope.

(* the transformFn closure run over a list: final closure state, outputs before the first failure,
   the failure *)
Fixpoint run_flow (o : op) (s : tstate) (xs : list val) : tstate * list val * option errc :=
  match xs with
  | [] => (s, [], None)
  | x :: r =>
    match op_step o s x with
    | (s', EOut outs) => let '(s'', ys, e) := run_flow o s' r in (s'', outs ++ ys, e)
    | (_, EErr e) => if op_resumes o then run_flow o s r else (s, [], Some e)
    end
  end.

Definition rf_state {A B C} (r : A * B * C) : A := fst (fst r).
Definition rf_out {A B C} (r : A * B * C) : B := snd (fst r).
Definition rf_err {A B C} (r : A * B * C) : C := snd r.

Lemma run_flow_app o : forall xs s ys,
  run_flow o s (xs ++ ys) =
  match run_flow o s xs with
  | (s', out, None) => let '(s'', out', e) := run_flow o s' ys in (s'', out ++ out', e)
  | (s', out, Some e) => (s', out, Some e)
  end.
Proof.
  induction xs as [|x r IH]; intros s ys; simpl.
  - destruct (run_flow o s ys) as [[s'' out'] e]. reflexivity.
  - destruct (op_step o s x) as [s' [outs|e]].
    + rewrite IH. destruct (run_flow o s' r) as [[s1 o1] [e1|]].
      * reflexivity.
      * destruct (run_flow o s1 ys) as [[s2 o2] e2]. now rewrite app_assoc.
    + destruct (op_resumes o); [apply IH|reflexivity].
Qed.

Lemma run_flow_prefix_ok o s xs xs' : prefix xs xs' -> rf_err (run_flow o s xs) = None ->
  prefix (rf_out (run_flow o s xs)) (rf_out (run_flow o s xs')).
Proof.
  intros [c ->] H. rewrite run_flow_app. destruct (run_flow o s xs) as [[s1 o1] e1].
  unfold rf_err, rf_out in *. simpl in *. subst e1.
  destruct (run_flow o s1 c) as [[s2 o2] e2]. simpl. apply prefix_app.
Qed.

Lemma run_flow_prefix_err o s xs xs' e : prefix xs xs' -> rf_err (run_flow o s xs) = Some e ->
  run_flow o s xs' = run_flow o s xs.
Proof.
  intros [c ->] H. rewrite run_flow_app. destruct (run_flow o s xs) as [[s1 o1] e1].
  unfold rf_err in H. simpl in H. subst e1. reflexivity.
Qed.

(* elementwise composition of fused stages *)
Fixpoint run_fused (os : list op) (xs : list val) : list val * option errc :=
  match xs with
  | [] => ([], None)
  | x :: r =>
    match fused_fn os x with
    | FPass w => let '(ys, e) := run_fused os r in (w :: ys, e)
    | FDrop => run_fused os r
    | FErr e => ([], Some e)
    end
  end.

Lemma run_fused_app os : forall xs ys,
  run_fused os (xs ++ ys) =
  match run_fused os xs with
  | (out, None) => let '(out', e) := run_fused os ys in (out ++ out', e)
  | (out, Some e) => (out, Some e)
  end.
Proof.
  induction xs as [|x r IH]; intros ys; simpl.
  - destruct (run_fused os ys). reflexivity.
  - destruct (fused_fn os x).
    + rewrite IH. destruct (run_fused os r) as [o1 [e1|]]; [reflexivity|].
      destruct (run_fused os ys). reflexivity.
    + apply IH.
    + reflexivity.
Qed.

(* the list semantics of a stage kind, applied to the stream on its input link *)
Definition ksem (k : kind) (S : sstream) : sstream :=
  match k with
  | KFlow o _ => let r := run_flow o (op_init o) (fst S) in (rf_out r, snd S ++ olist (rf_err r))
  | KFused os _ => let r := run_fused os (fst S) in (fst r, snd S ++ olist (snd r))
  | KBatch n _ | KBatch0 n _ => let r := chunks_from n [] (fst S) in (fst r, snd S ++ olist (snd r))
  | KPar _ _ a b => let r := elementwise (elem_fn (OParMap true 1 a b)) false (fst S) in (fst r, snd S ++ olist (snd r))
  end.
