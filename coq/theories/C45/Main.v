(* C45 — assembling the stage invariants into the chain theorem, and linking the per-kind list
   semantics [ksem] to the pipeline semantics [sem] of the operator description. *)
From Coq Require Import ZArith List Bool Lia.
From GV Require Import C45.Model C45.Trace C45.Sem C45.Chain C45.StageFlow C45.StageFused C45.StageBatch C45.StagePar.
Import ListNotations.
Open Scope Z_scope.

(* ---------- which stage kinds the theorem covers ---------- *)
Definition flow_op (o : op) : Prop :=
  match o with OBatch _ | OParMap _ _ _ _ => False | _ => True end.
Definition fuse_op (o : op) : Prop := fusable o = true /\ op_resumes o = false.

Definition kok (k : kind) : Prop :=
  match k with
  | KFlow o _ => flow_op o
  | KFused os _ => Forall fuse_op os
  | KBatch n _ => (1 <= n)%nat
  | KBatch0 _ _ => False        (* the batch actor before the repair: refuted below *)
  | KPar ordered _ _ _ => ordered = true   (* OrderedParallelMap; the unordered stage has its own theorem *)
  end.

Definition NInv (k : kind) (n : node kstate) : Prop :=
  match k with
  | KFlow o c => FlowInv o c n
  | KFused os c => FusedInv os c n
  | KBatch b c => BatchInv b c n
  | KPar true w a b => ParInv w a b n
  | _ => False
  end.

Lemma N0 k : kok k -> NInv k (mk_node (kinit k)).
Proof.
  destruct k; simpl; intros H; try contradiction.
  - apply flow_N0. - apply fused_N0. - apply batch_N0; exact H. - subst. apply par_N0.
Qed.

Lemma N1 k n m n' ds us : kok k -> NInv k n -> n_alive n = true ->
  (match m with FromUp d => wf_trace (n_cin n ++ [d]) | WorkerDone s => In s (ktasks (n_st n)) | _ => True end) ->
  node_handle (krecv k) n m = (n', ds, us) -> NInv k n'.
Proof.
  destruct k; simpl; intros K Hi Ha Wm H; try contradiction.
  - eapply flow_N1; eauto. destruct m; auto.
  - eapply fused_N1; eauto. destruct m; auto.
  - eapply batch_N1; eauto. destruct m; auto.
  - subst. eapply par_N1; eauto.
Qed.

Lemma N2 k n S : kok k -> NInv k n -> n_cancelled n = false -> approx (n_cin n) S -> approx (n_cout n) (ksem k S).
Proof.
  destruct k; simpl; intros K Hi Hc Ap; try contradiction.
  - eapply flow_N2; eauto. - eapply fused_N2; eauto. - eapply batch_N2; eauto. - subst. eapply par_N2; eauto.
Qed.

Lemma N4 k n : kok k -> NInv k n -> wf_trace (n_cout n).
Proof.
  destruct k; simpl; intros K Hi; try contradiction.
  - eapply flow_N4; eauto. - eapply fused_N4; eauto. - eapply batch_N4; eauto. - subst. eapply par_N4; eauto.
Qed.

(* a stage that sends streamCancel upstream stops in the same handler *)
Lemma batch_cancel_shuts n c st m st' acts : (1 <= n)%nat -> batch_recv n c st m = (st', acts) ->
  In UCancel (ups acts) -> shuts acts = true.
Proof.
  intros Hn. destruct m as [[[x|l]| |e]|[k|]|s]; simpl.
  - destruct (batch_drain n _) as [st2 a2] eqn:Hd. destruct (batch_request n c st2) as [st3 a3] eqn:Hq.
    intros H; inversion H; subst. destruct (batch_drain_spec n Hn _ _ _ Hd) as [_ [Bs [_ [_ [Hu _]]]]].
    destruct (batch_request_spec n c _ _ _ Hq) as [_ [_ [_ [_ Hn3]]]].
    rewrite ups_app, Hu. simpl. intros Hin. contradiction.
  - intros H; inversion H; subst. simpl. auto.
  - intros Hd. destruct (batch_drain_spec n Hn _ _ _ Hd) as [_ [Bs [_ [_ [Hu _]]]]]. rewrite Hu. intros [].
  - intros H; inversion H; subst. simpl. intros [].
  - destruct (batch_drain n _) as [st2 a2] eqn:Hd. destruct (batch_request n c st2) as [st3 a3] eqn:Hq.
    intros H; inversion H; subst. destruct (batch_drain_spec n Hn _ _ _ Hd) as [_ [Bs [_ [_ [Hu _]]]]].
    destruct (batch_request_spec n c _ _ _ Hq) as [_ [_ [_ [_ Hn3]]]].
    rewrite ups_app, Hu. simpl. intros Hin. contradiction.
  - intros H; inversion H; subst. simpl. auto.
  - intros H; inversion H; subst. simpl. intros [].
Qed.

Lemma par_cancel_shuts ordered a b st m st' acts : par_recv ordered a b st m = (st', acts) ->
  In UCancel (ups acts) -> shuts acts = true.
Proof.
  destruct m as [[[x|l]| |e]|[k|]|s]; cbn [par_recv]; try (intros H; inversion H; subst; simpl; auto; intros; contradiction).
  - intros H; inversion H; subst; simpl. destruct (p_tasks st); simpl; intros; contradiction.
  - destruct (remove_task s (p_tasks st)) as [[v|] tasks']; [|intros H; inversion H; subst; simpl; intros; contradiction].
    match goal with |- context [if ordered then ?x else ?y] => destruct (if ordered then x else y) as [[nx pd] outs] end.
    intros H; inversion H; subst; clear H. rewrite !ups_app, ups_elems. simpl.
    destruct (p_updone st); simpl; [destruct tasks'; simpl; intros; contradiction|].
    intros [F|F]; [discriminate|]. destruct tasks'; simpl in F; contradiction.
Qed.

Lemma N3 k n m n' ds us : kok k -> node_handle (krecv k) n m = (n', ds, us) -> In UCancel us -> n_alive n' = false.
Proof.
  intros K H Hin. destruct (node_handle_eq _ _ _ _ _ _ H) as [s' [acts [R [_ [-> [Al _]]]]]].
  rewrite Al. apply negb_false_iff.
  destruct k; simpl in K; try contradiction; simpl in R; destruct (n_st n) as [st|cr|st|st];
    try (inversion R; subst; simpl in Hin; contradiction).
  - destruct (flow_recv o c st m) as [st' a] eqn:Hr. inversion R; subst.
    destruct (flow_recv_eff _ _ _ _ _ _ Hr) as [_ X]. auto.
  - destruct (fused_recv os c cr m) as [cr' a] eqn:Hr. inversion R; subst.
    pose proof (fused_recv_spec _ _ _ _ _ _ Hr) as Sp.
    destruct m as [[v| |e]|[q|]|s]; try (destruct Sp as [_ [_ Hu]]; rewrite Hu in Hin; contradiction); auto.
    destruct (fused_fn os v); destruct Sp as [_ [Hs Hu]]; auto; try contradiction;
      try (rewrite Hu in Hin; contradiction).
  - destruct (batch_recv n0 c st m) as [st' a] eqn:Hr. inversion R; subst.
    eapply batch_cancel_shuts; eauto.
  - destruct (par_recv ordered a b st m) as [st' a0] eqn:Hr. inversion R; subst.
    eapply par_cancel_shuts; eauto.
Qed.

(* ---------- the chain theorem for every covered materialisation ---------- *)
Theorem chain_sound (c : cfg) (input : list val) (ks : list kind) (s : system) :
  Forall kok ks -> reach c input ks s ->
  SinkInv (y_sink s) /\ approx (n_cin (y_sink s)) (plan_sem input ks).
Proof.
  intros F R.
  destruct (reach_inv kok NInv N0 N1 N2 N3 N4 input c ks s F R) as [[Hi [Hk [_ [_ Ap]]]] Hkk].
  split; [exact Hk|]. rewrite <- (cspec_plan input _ _ Hkk). exact Ap.
Qed.
