(* C45 — local invariant of the fusedFlowActor. *)
From Coq Require Import ZArith List Bool Lia.
From GV Require Import C45.Model C45.Trace C45.Sem C45.Chain C45.StageFlow.
Import ListNotations.
Open Scope Z_scope.

Lemma run_fused_prefix_ok os xs xs' : prefix xs xs' -> snd (run_fused os xs) = None ->
  prefix (fst (run_fused os xs)) (fst (run_fused os xs')).
Proof.
  intros [c ->] H. rewrite run_fused_app. destruct (run_fused os xs) as [o1 e1]. simpl in *. subst e1.
  destruct (run_fused os c) as [o2 e2]. simpl. apply prefix_app.
Qed.
Lemma run_fused_prefix_err os xs xs' e : prefix xs xs' -> snd (run_fused os xs) = Some e ->
  run_fused os xs' = run_fused os xs.
Proof.
  intros [c ->] H. rewrite run_fused_app. destruct (run_fused os xs) as [o1 e1]. simpl in H. subst e1. reflexivity.
Qed.

(* what one fusedFlowActor step does *)
Lemma fused_recv_spec os c cr m cr' acts : fused_recv os c cr m = (cr', acts) ->
  match m with
  | FromUp (DElem v) =>
    match fused_fn os v with
    | FErr e => downs acts = [DError e] /\ shuts acts = true /\ ups acts = []
    | FPass w => downs acts = [DElem w] /\ shuts acts = false /\ ~ In UCancel (ups acts)
    | FDrop => downs acts = [] /\ shuts acts = false /\ ~ In UCancel (ups acts)
    end
  | FromUp DComplete => downs acts = [DComplete] /\ shuts acts = true /\ ups acts = []
  | FromUp (DError e) => downs acts = [DError e] /\ shuts acts = true /\ ups acts = []
  | FromDown UCancel => shuts acts = true
  | _ => downs acts = [] /\ shuts acts = false /\ ups acts = []
  end.
Proof.
  destruct m as [[v| |e]|[n|]|s]; simpl; try (intros H; inversion H; subst; simpl; auto; fail).
  destruct (fused_fn os v) eqn:Hf.
  - destruct (cr - 1 <=? c_refill c); intros H; inversion H; subst; simpl; repeat split; auto; intros [F|[]]; discriminate.
  - destruct (cr - 1 <=? c_refill c); intros H; inversion H; subst; simpl; repeat split; auto; intros [F|[]]; discriminate.
  - intros H; inversion H; subst; simpl; auto.
Qed.

Section Fused.
  Variable os : list op.
  Variable c : cfg.

  Definition FusedInv (n : node kstate) : Prop :=
    exists cr, n_st n = SFused cr /\
    wf_trace (n_cout n) /\
    let r := run_fused os (elems_of (n_cin n)) in
    (n_alive n = true -> n_cancelled n = false /\ snd r = None /\ n_cout n = delems (fst r) /\
                         term_of (n_cin n) = None) /\
    (n_alive n = false -> n_cancelled n = true \/
        forall S, approx (n_cin n) S -> approx (n_cout n) (ksem (KFused os c) S)).

  Lemma fused_N0 : FusedInv (mk_node (kinit (KFused os c))).
  Proof.
    exists (fused_init c). simpl. split; [reflexivity|]. split; [exact I|]. split; [|discriminate].
    intros _. auto.
  Qed.

  Lemma fused_N2 n S : FusedInv n -> n_cancelled n = false -> approx (n_cin n) S ->
    approx (n_cout n) (ksem (KFused os c) S).
  Proof.
    intros [cr [Hst [W [A D]]]] Hc Ap. destruct (n_alive n) eqn:Ha.
    - destruct (A eq_refl) as [_ [He [Eo _]]]. rewrite Eo. apply approx_delems. simpl.
      destruct Ap as [P _]. apply run_fused_prefix_ok; auto.
    - destruct (D eq_refl) as [F|F]; [congruence|auto].
  Qed.

  Lemma fused_N4 n : FusedInv n -> wf_trace (n_cout n).
  Proof. intros [cr [_ [W _]]]. exact W. Qed.

  Lemma fused_N1 n m n' ds us : FusedInv n -> n_alive n = true ->
    (match m with FromUp d => wf_trace (n_cin n ++ [d]) | _ => True end) ->
    node_handle (krecv (KFused os c)) n m = (n', ds, us) -> FusedInv n'.
  Proof.
    intros [cr [Hst [W [A _]]]] Ha Wm H.
    destruct (node_handle_eq _ _ _ _ _ _ H) as [s' [acts [R [-> [-> [Al [Ci [Co [Ca St]]]]]]]]].
    rewrite Hst in R. simpl in R. destruct (fused_recv os c cr m) as [cr' acts'] eqn:Hr.
    inversion R as [[Hs' Ha']]; clear R; rewrite <- Hs' in St; rewrite <- Ha' in *; clear Hs' Ha' s' acts.
    pose proof (fused_recv_spec _ _ _ _ _ _ Hr) as Sp.
    destruct (A Ha) as [Nc [He [Eo Tcin]]].
    assert (Tn : term_of (n_cout n) = None) by (rewrite Eo; apply term_of_delems).
    set (xs := elems_of (n_cin n)) in *.
    exists cr'. split; [exact St|].
    destruct m as [[v| |e]|[k|]|s].
    - (* element *)
      destruct (elems_of_snoc_none (n_cin n) (DElem v) Tcin) as [Ex Tx].
      rewrite Ci, Co, Ca, Al, Ex, Tx. fold xs.
      assert (Hrun : run_fused os (xs ++ [v]) =
                     match fused_fn os v with
                     | FPass w => (fst (run_fused os xs) ++ [w], None)
                     | FDrop => (fst (run_fused os xs), None)
                     | FErr e => (fst (run_fused os xs), Some e)
                     end).
      { rewrite run_fused_app. destruct (run_fused os xs) as [o1 e1]. simpl in He. subst e1. simpl.
        destruct (fused_fn os v); simpl; rewrite ?app_nil_r; reflexivity. }
      destruct (fused_fn os v) as [w| |e] eqn:Hf.
      + destruct Sp as [Hd [Hs _]]. rewrite Hd, Hs, Hrun. simpl.
        rewrite Eo. change [DElem w] with (delems [w]). unfold delems. rewrite <- map_app.
        split; [apply wf_delems|]. split; [|discriminate]. intros _. auto.
      + destruct Sp as [Hd [Hs _]]. rewrite Hd, Hs, Hrun. simpl. rewrite app_nil_r.
        split; [exact W|]. split; [|discriminate]. intros _. auto.
      + destruct Sp as [Hd [Hs _]]. rewrite Hd, Hs. simpl.
        split; [apply (wf_app_none (n_cout n) [] [DError e] (DError e)); auto|].
        split; [discriminate|]. intros _. right. intros S [P _].
        assert (HS : run_fused os (fst S) = run_fused os (xs ++ [v])).
        { rewrite Ex in P. fold xs in P. apply (run_fused_prefix_err os (xs ++ [v]) (fst S) e P).
          rewrite Hrun. reflexivity. }
        simpl. rewrite HS, Hrun. simpl.
        destruct (term_elems_app_none (n_cout n) [] [DError e] Tn) as [E T]. simpl in E, T.
        unfold approx. rewrite E, T, Eo, elems_of_delems, app_nil_r. simpl.
        split; [apply prefix_refl|]. split; [intros; discriminate|].
        intros e' X. inversion X; subst. apply in_or_app. right. left. reflexivity.
    - (* complete *)
      destruct Sp as [Hd [Hs _]].
      destruct (elems_of_snoc_none (n_cin n) DComplete Tcin) as [Ex Tx]. rewrite app_nil_r in Ex.
      rewrite Ci, Co, Ca, Al, Hd, Hs. simpl.
      split; [apply (wf_app_none (n_cout n) [] [DComplete] DComplete); auto|].
      split; [discriminate|]. intros _. right. intros S [P [C _]]. destruct (C Tx) as [E1 E2].
      rewrite Ex in E1. fold xs in E1. simpl. rewrite <- E1, E2, He. simpl. rewrite Eo.
      apply approx_complete; auto.
    - (* upstream error *)
      destruct Sp as [Hd [Hs _]].
      destruct (elems_of_snoc_none (n_cin n) (DError e) Tcin) as [Ex Tx]. rewrite app_nil_r in Ex.
      rewrite Ci, Co, Ca, Al, Hd, Hs. simpl.
      split; [apply (wf_app_none (n_cout n) [] [DError e] (DError e)); auto|].
      split; [discriminate|]. intros _. right. intros S [P [_ Er]]. rewrite Ex in P. fold xs in P.
      specialize (Er e Tx). simpl.
      destruct (term_elems_app_none (n_cout n) [] [DError e] Tn) as [E T]. simpl in E, T.
      unfold approx. rewrite E, T, Eo, elems_of_delems, app_nil_r. simpl.
      split; [apply run_fused_prefix_ok; auto|].
      split; [intros; discriminate|]. intros e' X. inversion X; subst. apply in_or_app. left. exact Er.
    - (* request: unhandled *)
      destruct Sp as [Hd [Hs _]]. rewrite Ci, Co, Ca, Al, Hd, Hs. simpl. rewrite app_nil_r. fold xs.
      split; [exact W|]. split; [|discriminate]. intros _. auto.
    - (* cancel *)
      rewrite Ci, Co, Ca, Al, Sp. simpl.
      split; [|split; [discriminate|intros _; left; reflexivity]].
      assert (Hd : exists ts, downs acts' = ts /\ Forall (eq DComplete) ts).
      { simpl in Hr. inversion Hr; subst. simpl. eexists; split; [reflexivity|]. repeat constructor. }
      destruct Hd as [ts [-> F]]. apply (wf_app_none (n_cout n) [] ts DComplete); auto.
    - (* worker message: ignored *)
      destruct Sp as [Hd [Hs _]]. rewrite Ci, Co, Ca, Al, Hd, Hs. simpl. rewrite app_nil_r. fold xs.
      split; [exact W|]. split; [|discriminate]. intros _. auto.
  Qed.
End Fused.
