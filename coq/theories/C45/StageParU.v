(* C45 — the unordered parallelMapActor (ParallelMap): as a multiset, what has been emitted together with
   what is still with the workers is the image of what has been consumed; at completion the emitted
   elements are a permutation of the image of the whole input. *)
From Coq Require Import ZArith List Bool Lia Permutation.
From GV Require Import C45.Model C45.Trace C45.Sem C45.Chain C45.StageFlow C45.StageBatch C45.StagePar.
Import ListNotations.
Open Scope Z_scope.

(* every behaviour of one stage actor in isolation: any well-formed upstream trace, any downstream
   messages, workers finishing in any order *)
Inductive node_reach (k : kind) : node kstate -> Prop :=
| nr_init : node_reach k (mk_node (kinit k))
| nr_step : forall n m, node_reach k n -> n_alive n = true ->
    (match m with FromUp d => wf_trace (n_cin n ++ [d]) | WorkerDone s => In s (ktasks (n_st n)) | _ => True end) ->
    node_reach k (fst (fst (node_handle (krecv k) n m))).

Section ParUnordered.
  Variable w : nat.
  Variable a b : Z.
  Let K := KPar false w a b.

  Definition ints (xs : list val) : Prop := forall x, In x xs -> exists z, x = VZ z.

  Definition UInv (n : node kstate) : Prop :=
    exists st, n_st n = SPar st /\
    let xs := elems_of (n_cin n) in
    (n_alive n = true -> ints xs /\ term_of (n_cout n) = None /\
       Permutation (elems_of (n_cout n) ++ map (fun t => pf a b (snd t)) (p_tasks st)) (map (pf a b) xs) /\
       (term_of (n_cin n) = None /\ p_updone st = false \/
        term_of (n_cin n) = Some DComplete /\ p_updone st = true /\ p_tasks st <> [])) /\
    (n_alive n = false -> term_of (n_cout n) = Some DComplete -> n_cancelled n = false ->
       ints xs /\ Permutation (elems_of (n_cout n)) (map (pf a b) xs)).

  Lemma elems_snoc_elem t v : term_of t = None -> elems_of (t ++ [DElem v]) = elems_of t ++ [v] /\ term_of (t ++ [DElem v]) = None.
  Proof. intros H. destruct (elems_of_snoc_none t (DElem v) H). auto. Qed.

  Lemma upar_step n m : UInv n -> n_alive n = true ->
    (match m with FromUp d => wf_trace (n_cin n ++ [d]) | WorkerDone s => In s (ktasks (n_st n)) | _ => True end) ->
    UInv (fst (fst (node_handle (krecv K) n m))).
  Proof.
    intros [st [Hst [A _]]] Ha Wm.
    destruct (node_handle (krecv K) n m) as [[n' ds] us] eqn:H. simpl.
    destruct (node_handle_eq _ _ _ _ _ _ H) as [s' [acts [R [-> [-> [Al [Ci [Co [Ca St]]]]]]]]].
    rewrite Hst in R. unfold K in R. simpl in R. destruct (par_recv false a b st m) as [st' acts'] eqn:Hr.
    inversion R as [[Hs' Ha']]; clear R; rewrite <- Hs' in St; rewrite <- Ha' in *; clear Hs' Ha' s' acts.
    destruct (A Ha) as [Hz [Tn [Hperm Hterm]]].
    set (xs := elems_of (n_cin n)) in *.
    exists st'. split; [exact St|].
    assert (Wc : match m with FromUp d => wf_trace (n_cin n) | _ => True end).
    { destruct m; auto. eapply wf_prefix; eauto. }
    assert (Tcin : forall d, m = FromUp d -> d <> DComplete -> term_of (n_cin n) = None).
    { intros d -> Hd. destruct Hterm as [[T _]|[T _]]; auto.
      specialize (wf_snoc_some _ _ _ Wc T Wm). congruence. }
    destruct m as [[v| |e]|[q|]|seq]; cbn [par_recv] in Hr.
    - specialize (Tcin _ eq_refl ltac:(discriminate)).
      destruct Hterm as [[_ Hud]|[F _]]; [|congruence].
      destruct (elems_snoc_elem (n_cin n) v Tcin) as [Ex Tx].
      destruct v as [z|l]; inversion Hr; subst st' acts'; clear Hr; rewrite Ci, Co, Ca, Al; simpl.
      + rewrite app_nil_r, Ex, Tx. fold xs. split; [|discriminate]. intros _.
        split. { intros x Hx. apply in_app_or in Hx. destruct Hx as [Hx|[<-|[]]]; [auto|eauto]. }
        split; [exact Tn|]. split; [|left; auto].
        rewrite !map_app. simpl. rewrite app_assoc. apply Permutation_app_tail. exact Hperm.
      + split; [discriminate|]. intros _ Hc.
        destruct (term_elems_app_none (n_cout n) [] [DError type_err] Tn) as [_ T]. simpl in T. rewrite T in Hc. discriminate.
    - assert (Tx : term_of (n_cin n ++ [DComplete]) = Some DComplete /\ elems_of (n_cin n ++ [DComplete]) = xs).
      { destruct Hterm as [[T _]|[T _]].
        - destruct (elems_of_snoc_none _ DComplete T) as [E1 T1]. rewrite app_nil_r in E1. auto.
        - destruct (elems_of_snoc_some _ DComplete _ T) as [E1 T1]. auto. }
      destruct Tx as [Tx Ex].
      inversion Hr; subst st' acts'; clear Hr. rewrite Ci, Co, Ca, Al, Ex, Tx. simpl.
      destruct (p_tasks st) as [|t0 tr] eqn:Etk; simpl.
      + split; [discriminate|]. intros _ _ _. split; [exact Hz|].
        destruct (term_elems_app_none (n_cout n) [] [DComplete] Tn) as [E _]. simpl in E. rewrite E, app_nil_r.
        simpl in Hperm. rewrite app_nil_r in Hperm. exact Hperm.
      + rewrite app_nil_r. split; [|discriminate]. intros _. split; [exact Hz|]. split; [exact Tn|].
        split; [exact Hperm|]. right. split; [reflexivity|]. split; [reflexivity|discriminate].
    - inversion Hr; subst st' acts'; clear Hr. rewrite Ci, Co, Ca, Al. simpl.
      split; [discriminate|]. intros _ Hc.
      destruct (term_elems_app_none (n_cout n) [] [DError e] Tn) as [_ T]. simpl in T. rewrite T in Hc. discriminate.
    - inversion Hr; subst st' acts'; clear Hr. rewrite Ci, Co, Ca, Al. simpl. rewrite app_nil_r. fold xs.
      split; [|discriminate]. intros _. auto.
    - inversion Hr; subst st' acts'; clear Hr. rewrite Ci, Co, Ca, Al. simpl.
      split; [discriminate|]. intros _ _ F. discriminate.
    - rewrite Hst in Wm. simpl in Wm.
      destruct (remove_task seq (p_tasks st)) as [o tasks'] eqn:Hrm.
      pose proof (remove_task_spec seq _ _ _ Hrm) as Hsp.
      destruct o as [v|]; [|destruct Hsp as [Hno _]; contradiction].
      destruct Hsp as [ta [tb [Et [Et' _]]]].
      cbv beta iota zeta in Hr. inversion Hr; subst st' acts'; clear Hr.
      rewrite Ci, Co, Ca, Al. fold xs.
      assert (Hperm' : Permutation ((elems_of (n_cout n) ++ [pf a b v]) ++ map (fun t => pf a b (snd t)) tasks') (map (pf a b) xs)).
      { eapply Permutation_trans; [|exact Hperm]. rewrite Et, Et', !map_app. simpl.
        rewrite <- !app_assoc. apply Permutation_app_head. simpl.
        apply Permutation_trans with (pf a b v :: map (fun t => pf a b (snd t)) ta ++ map (fun t => pf a b (snd t)) tb);
          [reflexivity|apply Permutation_middle]. }
      fold (pf a b v) in *.
      destruct (p_updone st) eqn:Hud; simpl.
      + destruct tasks' as [|t0 tr] eqn:Etk'; simpl.
        * split; [discriminate|]. intros _ _ _. split; [exact Hz|].
          destruct (term_elems_app_none (n_cout n) [pf a b v] [DComplete] Tn) as [E _]. simpl in E.
          rewrite E. simpl in Hperm'. rewrite !app_nil_r in *. exact Hperm'.
        * split; [|discriminate]. intros _. split; [exact Hz|].
          destruct (term_elems_app_none (n_cout n) [pf a b v] [] Tn) as [E T]. simpl in E, T. rewrite ?app_nil_r in E.
          rewrite T, E. split; [reflexivity|]. split; [exact Hperm'|].
          destruct Hterm as [[_ F]|[Tc _]]; [congruence|]. right. split; [exact Tc|]. split; [reflexivity|discriminate].
      + split; [|discriminate]. intros _. split; [exact Hz|].
        destruct (term_elems_app_none (n_cout n) [pf a b v] [] Tn) as [E T]. simpl in E, T. rewrite ?app_nil_r in E.
        rewrite T, E. split; [reflexivity|]. split; [exact Hperm'|].
        destruct Hterm as [[Tc _]|[_ [F _]]]; [|congruence]. left. auto.
  Qed.

  Theorem upar_inv n : node_reach K n -> UInv n.
  Proof.
    induction 1.
    - exists par_init. simpl. split; [reflexivity|]. split; [|discriminate]. intros _.
      split; [intros x []|]. split; [reflexivity|]. split; [reflexivity|]. left. auto.
    - apply upar_step; assumption.
  Qed.

  (* exported *)
  Theorem upar_spec n : node_reach K n ->
    n_alive n = false -> term_of (n_cout n) = Some DComplete -> n_cancelled n = false ->
    Permutation (elems_of (n_cout n)) (map (pf a b) (elems_of (n_cin n))).
  Proof.
    intros R Hd Hc Hn. destruct (upar_inv n R) as [st [_ [_ D]]]. destruct (D Hd Hc Hn) as [_ P]. exact P.
  Qed.
End ParUnordered.
