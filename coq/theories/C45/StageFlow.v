(* C45 — local invariant of the flowActor and of the fusedFlowActor. *)
From Coq Require Import ZArith List Bool Lia.
From GV Require Import C45.Model C45.Trace C45.Sem C45.Chain.
Import ListNotations.
Open Scope Z_scope.

Ltac splits := repeat match goal with |- _ /\ _ => split end.

Definition isnil {A} (l : list A) : bool := match l with [] => true | _ => false end.
Lemma isnil_true {A} (l : list A) : isnil l = true -> l = [].
Proof. destruct l; simpl; congruence. Qed.

(* ---------- what the helpers of flowActor do ---------- *)
Lemma flow_flush_spec st st' acts : flow_flush st = (st', acts) ->
  exists out, f_buf st = out ++ f_buf st' /\ f_ts st' = f_ts st /\ f_completing st' = f_completing st /\
    acts = map (fun v => ADown (DElem v)) out ++
           (if f_completing st && isnil (f_buf st') then [ADown DComplete; AShutdown] else []).
Proof.
  unfold flow_flush. intros H. inversion H; subst; clear H. simpl.
  exists (firstn (Nat.min (Z.to_nat (f_demand st)) (length (f_buf st))) (f_buf st)).
  split; [symmetry; apply firstn_skipn|]. repeat split.
Qed.

Lemma flow_request_spec c st st' acts : flow_request c st = (st', acts) ->
  f_buf st' = f_buf st /\ f_ts st' = f_ts st /\ f_completing st' = f_completing st /\
  downs acts = [] /\ shuts acts = false /\ ~ In UCancel (ups acts).
Proof.
  unfold flow_request. intros H.
  destruct (f_completing st) eqn:Hc; [inversion H; subst; simpl; repeat split; auto|].
  destruct (_ <=? 0); [inversion H; subst; simpl; repeat split; auto|].
  destruct (_ >? _); inversion H; subst; simpl; repeat split; auto; intros [F|[]]; discriminate.
Qed.

(* the observable effect of one flowActor step *)
Inductive flow_eff (o : op) (st : flow_st) : inmsg -> flow_st -> list dmsg -> bool -> Prop :=
| fe_req : forall n st' out,            (* streamRequest *)
    f_buf st = out ++ f_buf st' -> f_ts st' = f_ts st -> f_completing st' = f_completing st ->
    flow_eff o st (FromDown (URequest n)) st'
             (delems out ++ if f_completing st && isnil (f_buf st') then [DComplete] else [])
             (f_completing st && isnil (f_buf st'))
| fe_elem : forall v ts1 outs st' out,  (* streamElement, transform succeeded *)
    op_step o (f_ts st) v = (ts1, EOut outs) ->
    f_buf st ++ outs = out ++ f_buf st' -> f_ts st' = ts1 -> f_completing st' = f_completing st ->
    flow_eff o st (FromUp (DElem v)) st'
             (delems out ++ if f_completing st && isnil (f_buf st') then [DComplete] else [])
             (f_completing st && isnil (f_buf st'))
| fe_resume : forall v ts1 e st',       (* streamElement, Resume drops it *)
    op_step o (f_ts st) v = (ts1, EErr e) -> op_resumes o = true ->
    f_buf st' = f_buf st -> f_ts st' = f_ts st -> f_completing st' = f_completing st ->
    flow_eff o st (FromUp (DElem v)) st' [] false
| fe_fail : forall v ts1 e,             (* streamElement, FailFast *)
    op_step o (f_ts st) v = (ts1, EErr e) -> op_resumes o = false ->
    flow_eff o st (FromUp (DElem v)) st [DError e] true
| fe_complete : forall st' out,         (* streamComplete *)
    f_buf st = out ++ f_buf st' -> f_ts st' = f_ts st -> f_completing st' = true ->
    flow_eff o st (FromUp DComplete) st'
             (delems out ++ if isnil (f_buf st') then [DComplete; DComplete] else [])
             (isnil (f_buf st'))
| fe_error : forall e, flow_eff o st (FromUp (DError e)) st [DError e] true
| fe_cancel : flow_eff o st (FromDown UCancel) st [] true
| fe_worker : forall s, flow_eff o st (WorkerDone s) st [] false.

Lemma flow_recv_eff o c st m st' acts : flow_recv o c st m = (st', acts) ->
  flow_eff o st m st' (downs acts) (shuts acts) /\ (In UCancel (ups acts) -> shuts acts = true).
Proof.
  destruct m as [[v| |e]|[n|]|s]; cbn [flow_recv].
  - (* element *)
    destruct (op_step o (f_ts st) v) as [ts1 [outs|e]] eqn:Hs.
    + match goal with |- context [flow_flush ?x] => destruct (flow_flush x) as [st2 a2] eqn:Hf end.
      destruct (flow_request c st2) as [st3 a3] eqn:Hr.
      intros H; inversion H; subst; clear H.
      destruct (flow_flush_spec _ _ _ Hf) as [out [Hb [Ht [Hc ->]]]]. simpl in *.
      destruct (flow_request_spec _ _ _ _ Hr) as [Hb3 [Ht3 [Hc3 [Hd3 [Hs3 Hu3]]]]].
      rewrite downs_app, shuts_app, Hd3, Hs3, app_nil_r, orb_false_r.
      rewrite downs_app, downs_elems, shuts_app, shuts_elems. simpl.
      split.
      * replace (downs (if f_completing st && isnil (f_buf st2) then [ADown DComplete; AShutdown] else []))
          with (if f_completing st && isnil (f_buf st') then [DComplete] else [])
          by (rewrite Hb3; destruct (f_completing st && isnil (f_buf st2)); reflexivity).
        replace (shuts (if f_completing st && isnil (f_buf st2) then [ADown DComplete; AShutdown] else []))
          with (f_completing st && isnil (f_buf st'))
          by (rewrite Hb3; destruct (f_completing st && isnil (f_buf st2)); reflexivity).
        eapply fe_elem; eauto; try congruence.
      * rewrite ups_app, ups_app, ups_elems. simpl. intros Hin. apply in_app_or in Hin.
        destruct Hin as [Hin|Hin]; [|contradiction].
        destruct (f_completing st && isnil (f_buf st2)); simpl in Hin; contradiction.
    + destruct (op_resumes o) eqn:Hres.
      * intros Hr. destruct (flow_request_spec _ _ _ _ Hr) as [Hb3 [Ht3 [Hc3 [Hd3 [Hs3 Hu3]]]]]. simpl in *.
        rewrite Hd3, Hs3. split; [eapply fe_resume; eauto|]. intros; contradiction.
      * intros H; inversion H; subst; clear H. simpl. split; [eapply fe_fail; eauto|auto].
  - (* complete *)
    match goal with |- context [flow_flush ?x] => destruct (flow_flush x) as [st2 a2] eqn:Hf end.
    intros H; inversion H; subst; clear H.
    destruct (flow_flush_spec _ _ _ Hf) as [out [Hb [Ht [Hc ->]]]]. simpl in *.
    rewrite !downs_app, downs_elems, !shuts_app, shuts_elems, !ups_app, ups_elems. simpl.
    rewrite <- app_assoc.
    split.
    + replace (downs (if isnil (f_buf st') then [ADown DComplete; AShutdown] else []) ++
               downs (match f_buf st' with [] => [ADown DComplete; AShutdown] | _ :: _ => [] end))
        with (if isnil (f_buf st') then [DComplete; DComplete] else [])
        by (destruct (f_buf st'); reflexivity).
      replace (shuts (if isnil (f_buf st') then [ADown DComplete; AShutdown] else []) ||
               shuts (match f_buf st' with [] => [ADown DComplete; AShutdown] | _ :: _ => [] end))
        with (isnil (f_buf st')) by (destruct (f_buf st'); reflexivity).
      eapply fe_complete; eauto.
    + destruct (f_buf st'); simpl; intros; contradiction.
  - intros H; inversion H; subst; clear H. simpl. split; [constructor|auto].
  - (* request *)
    match goal with |- context [flow_flush ?x] => destruct (flow_flush x) as [st2 a2] eqn:Hf end.
    destruct (flow_request c st2) as [st3 a3] eqn:Hr.
    intros H; inversion H; subst; clear H.
    destruct (flow_flush_spec _ _ _ Hf) as [out [Hb [Ht [Hc ->]]]]. simpl in *.
    destruct (flow_request_spec _ _ _ _ Hr) as [Hb3 [Ht3 [Hc3 [Hd3 [Hs3 Hu3]]]]].
    rewrite downs_app, shuts_app, Hd3, Hs3, app_nil_r, orb_false_r.
    rewrite downs_app, downs_elems, shuts_app, shuts_elems. simpl.
    split.
    + replace (downs (if f_completing st && isnil (f_buf st2) then [ADown DComplete; AShutdown] else []))
        with (if f_completing st && isnil (f_buf st') then [DComplete] else [])
        by (rewrite Hb3; destruct (f_completing st && isnil (f_buf st2)); reflexivity).
      replace (shuts (if f_completing st && isnil (f_buf st2) then [ADown DComplete; AShutdown] else []))
        with (f_completing st && isnil (f_buf st'))
        by (rewrite Hb3; destruct (f_completing st && isnil (f_buf st2)); reflexivity).
      eapply fe_req; eauto; congruence.
    + rewrite ups_app, ups_app, ups_elems. simpl. intros Hin. apply in_app_or in Hin.
      destruct Hin as [Hin|Hin]; [|contradiction].
      destruct (f_completing st && isnil (f_buf st2)); simpl in Hin; contradiction.
  - intros H; inversion H; subst; clear H. simpl. split; [constructor|auto].
  - intros H; inversion H; subst; clear H. simpl. split; [constructor|intros []].
Qed.

Lemma flow_eff_req o st n st' d b : flow_eff o st (FromDown (URequest n)) st' d b ->
  exists out, f_buf st = out ++ f_buf st' /\ f_ts st' = f_ts st /\ f_completing st' = f_completing st /\
    d = delems out ++ (if f_completing st && isnil (f_buf st') then [DComplete] else []) /\
    b = f_completing st && isnil (f_buf st').
Proof. inversion 1; subst. eexists; splits; try eassumption; try reflexivity. Qed.

Lemma flow_eff_elem o st v st' d b : flow_eff o st (FromUp (DElem v)) st' d b ->
  (exists ts1 outs out, op_step o (f_ts st) v = (ts1, EOut outs) /\ f_buf st ++ outs = out ++ f_buf st' /\
     f_ts st' = ts1 /\ f_completing st' = f_completing st /\
     d = delems out ++ (if f_completing st && isnil (f_buf st') then [DComplete] else []) /\
     b = f_completing st && isnil (f_buf st')) \/
  (exists ts1 e, op_step o (f_ts st) v = (ts1, EErr e) /\ op_resumes o = true /\
     f_buf st' = f_buf st /\ f_ts st' = f_ts st /\ f_completing st' = f_completing st /\ d = [] /\ b = false) \/
  (exists ts1 e, op_step o (f_ts st) v = (ts1, EErr e) /\ op_resumes o = false /\ st' = st /\ d = [DError e] /\ b = true).
Proof.
  inversion 1; subst.
  - left. do 3 eexists. splits; try eassumption; try reflexivity.
  - right. left. do 2 eexists. splits; try eassumption; try reflexivity.
  - right. right. do 2 eexists. splits; try eassumption; try reflexivity.
Qed.

Lemma flow_eff_complete o st st' d b : flow_eff o st (FromUp DComplete) st' d b ->
  exists out, f_buf st = out ++ f_buf st' /\ f_ts st' = f_ts st /\ f_completing st' = true /\
    d = delems out ++ (if isnil (f_buf st') then [DComplete; DComplete] else []) /\ b = isnil (f_buf st').
Proof. inversion 1; subst. eexists; splits; try eassumption; try reflexivity. Qed.

Lemma flow_eff_error o st e st' d b : flow_eff o st (FromUp (DError e)) st' d b ->
  st' = st /\ d = [DError e] /\ b = true.
Proof. inversion 1; subst. auto. Qed.
Lemma flow_eff_cancel o st st' d b : flow_eff o st (FromDown UCancel) st' d b -> st' = st /\ d = [] /\ b = true.
Proof. inversion 1; subst. auto. Qed.
Lemma flow_eff_worker o st s st' d b : flow_eff o st (WorkerDone s) st' d b -> st' = st /\ d = [] /\ b = false.
Proof. inversion 1; subst. auto. Qed.

(* ---------- the invariant ---------- *)
Section Flow.
  Variable o : op.
  Variable c : cfg.

  Definition FlowInv (n : node kstate) : Prop :=
    exists st, n_st n = SFlow st /\
    wf_trace (n_cout n) /\
    let r := run_flow o (op_init o) (elems_of (n_cin n)) in
    (n_alive n = true -> n_cancelled n = false /\ rf_err r = None /\ f_ts st = rf_state r /\
        (exists em, n_cout n = delems em /\ em ++ f_buf st = rf_out r) /\
        (term_of (n_cin n) = None /\ f_completing st = false \/
         term_of (n_cin n) = Some DComplete /\ f_completing st = true)) /\
    (n_alive n = false -> n_cancelled n = true \/
        forall S, approx (n_cin n) S -> approx (n_cout n) (ksem (KFlow o c) S)).

  Lemma flow_N0 : FlowInv (mk_node (kinit (KFlow o c))).
  Proof.
    exists (flow_init o). simpl. split; [reflexivity|]. split; [exact I|]. split; [|discriminate].
    intros _. repeat split; auto. exists []. auto.
  Qed.

  Lemma flow_N2 n S : FlowInv n -> n_cancelled n = false -> approx (n_cin n) S ->
    approx (n_cout n) (ksem (KFlow o c) S).
  Proof.
    intros [st [Hst [W [A D]]]] Hc Ap. destruct (n_alive n) eqn:Ha.
    - destruct (A eq_refl) as [_ [He [_ [[em [Eo Eb]] _]]]]. rewrite Eo. apply approx_delems. simpl.
      destruct Ap as [P _].
      eapply prefix_trans; [|apply (run_flow_prefix_ok o (op_init o) _ _ P He)].
      rewrite <- Eb. apply prefix_app.
    - destruct (D eq_refl) as [F|F]; [congruence|auto].
  Qed.

  Lemma flow_N4 n : FlowInv n -> wf_trace (n_cout n).
  Proof. intros [st [_ [W _]]]. exact W. Qed.

  (* a completed stage: everything the list semantics gives has been delivered *)
  Lemma frozen_complete cin em k : term_of cin = Some DComplete ->
    rf_err (run_flow o (op_init o) (elems_of cin)) = None ->
    em = rf_out (run_flow o (op_init o) (elems_of cin)) -> (0 < k)%nat ->
    forall S, approx cin S -> approx (delems em ++ repeat DComplete k) (ksem (KFlow o c) S).
  Proof.
    intros Ht He -> Hk S [P [C _]]. destruct (C Ht) as [Ex Es]. simpl. rewrite <- Ex, Es, He. simpl.
    destruct k as [|k]; [lia|]. simpl.
    destruct (term_elems_app_none (delems (rf_out (run_flow o (op_init o) (elems_of cin)))) []
                (DComplete :: repeat DComplete k) (term_of_delems _)) as [E T].
    simpl in E, T. unfold approx. rewrite E, T, elems_of_delems, app_nil_r. simpl.
    split; [apply prefix_refl|]. split; [auto|intros; discriminate].
  Qed.

  Lemma flow_N1 n m n' ds us : FlowInv n -> n_alive n = true ->
    (match m with FromUp d => wf_trace (n_cin n ++ [d]) | _ => True end) ->
    node_handle (krecv (KFlow o c)) n m = (n', ds, us) -> FlowInv n'.
  Proof.
    intros [st [Hst [W [A _]]]] Ha Wm H.
    destruct (node_handle_eq _ _ _ _ _ _ H) as [s' [acts [R [-> [-> [Al [Ci [Co [Ca St]]]]]]]]].
    rewrite Hst in R. simpl in R. destruct (flow_recv o c st m) as [st' acts'] eqn:Hr.
    inversion R as [[Hs' Ha']]; clear R; rewrite <- Hs' in St; rewrite <- Ha' in *; clear Hs' Ha' s' acts.
    destruct (flow_recv_eff _ _ _ _ _ _ Hr) as [Eff _].
    destruct (A Ha) as [Nc [He [Hts [[em [Eo Eb]] Hterm]]]].
    assert (Tn : term_of (n_cout n) = None) by (rewrite Eo; apply term_of_delems).
    set (xs := elems_of (n_cin n)) in *.
    exists st'. split; [exact St|].
    assert (Wc : match m with FromUp d => wf_trace (n_cin n) | _ => True end).
    { destruct m; auto. eapply wf_prefix; eauto. }
    assert (Tcin : forall d, m = FromUp d -> d <> DComplete -> term_of (n_cin n) = None).
    { intros d -> Hd. destruct Hterm as [[T _]|[T _]]; auto.
      specialize (wf_snoc_some _ _ _ Wc T Wm). congruence. }
    destruct m as [[v| |e]|[k|]|s].
    - (* element *)
      specialize (Tcin _ eq_refl ltac:(discriminate)).
      destruct Hterm as [[_ Hcf]|[F _]]; [|congruence].
      destruct (elems_of_snoc_none (n_cin n) (DElem v) Tcin) as [Ex Tx].
      destruct (flow_eff_elem _ _ _ _ _ _ Eff) as
          [[ts1 [outs [out [Hs [Hb [Ht [Hc [Hd Hsh]]]]]]]]|[[ts1 [e [Hs [Hres [Hb [Ht [Hc [Hd Hsh]]]]]]]]|[ts1 [e [Hs [Hres [Hst' [Hd Hsh]]]]]]]].
      + (* transformed *)
        rewrite Hcf in Hd, Hsh. simpl in Hd, Hsh. rewrite app_nil_r in Hd.
        rewrite Ci, Co, Ca, Al, Hd, Hsh. simpl. rewrite Ex, Tx. fold xs.
        assert (Hrun : run_flow o (op_init o) (xs ++ [v]) =
                       (ts1, rf_out (run_flow o (op_init o) xs) ++ outs, None)).
        { rewrite run_flow_app. destruct (run_flow o (op_init o) xs) as [[s1 o1] e1] eqn:Er.
          unfold rf_err, rf_state, rf_out in *. simpl in *. subst e1. rewrite <- Hts, Hs. simpl.
          rewrite app_nil_r. reflexivity. }
        rewrite Hrun. unfold rf_err, rf_state, rf_out. simpl.
        rewrite Eo. unfold delems. rewrite <- map_app.
        split; [apply wf_delems|]. split; [|discriminate].
        intros _. split; [exact Nc|]. split; [reflexivity|]. split; [exact Ht|].
        split; [|left; split; congruence].
        exists (em ++ out). split; [reflexivity|]. rewrite <- app_assoc, <- Hb, app_assoc. f_equal. exact Eb.
      + (* dropped by Resume *)
        rewrite Ci, Co, Ca, Al, Hd, Hsh. simpl. rewrite app_nil_r. rewrite Ex, Tx. fold xs.
        assert (Hrun : run_flow o (op_init o) (xs ++ [v]) = run_flow o (op_init o) xs).
        { rewrite run_flow_app. destruct (run_flow o (op_init o) xs) as [[s1 o1] e1] eqn:Er.
          unfold rf_err, rf_state, rf_out in *. simpl in *. subst e1. rewrite <- Hts, Hs, Hres. simpl.
          rewrite app_nil_r. reflexivity. }
        rewrite Hrun.
        split; [exact W|]. split; [|discriminate].
        intros _. split; [exact Nc|]. split; [exact He|]. split; [congruence|].
        split; [exists em; split; [exact Eo|congruence]|left; split; congruence].
      + (* FailFast *)
        rewrite Ci, Co, Ca, Al, Hd, Hsh. simpl.
        split; [apply (wf_app_none (n_cout n) [] [DError e] (DError e)); auto|].
        split; [discriminate|]. intros _. right. intros S [P [_ _]]. rewrite Ex in P. fold xs in P.
        assert (Hrun : run_flow o (op_init o) (xs ++ [v]) =
                       (rf_state (run_flow o (op_init o) xs), rf_out (run_flow o (op_init o) xs), Some e)).
        { rewrite run_flow_app. destruct (run_flow o (op_init o) xs) as [[s1 o1] e1] eqn:Er.
          unfold rf_err, rf_state, rf_out in *. simpl in *. subst e1. rewrite <- Hts, Hs, Hres. simpl.
          rewrite app_nil_r. reflexivity. }
        assert (HS : run_flow o (op_init o) (fst S) = run_flow o (op_init o) (xs ++ [v])).
        { apply (run_flow_prefix_err o (op_init o) (xs ++ [v]) (fst S) e P). rewrite Hrun. reflexivity. }
        simpl. rewrite HS, Hrun. unfold rf_err, rf_out. simpl.
        destruct (term_elems_app_none (n_cout n) [] [DError e] Tn) as [E T]. simpl in E, T.
        unfold approx. rewrite E, T, Eo, elems_of_delems, app_nil_r. simpl.
        split; [unfold rf_out in Eb; rewrite <- Eb; apply prefix_app|]. split; [intros; discriminate|].
        intros e' X. inversion X; subst. apply in_or_app. right. left. reflexivity.
    - (* complete *)
      destruct (flow_eff_complete _ _ _ _ _ Eff) as [out [Hb [Ht [Hc [Hd Hsh]]]]].
      assert (Tx : term_of (n_cin n ++ [DComplete]) = Some DComplete /\ elems_of (n_cin n ++ [DComplete]) = xs).
      { destruct Hterm as [[T _]|[T _]].
        - destruct (elems_of_snoc_none _ DComplete T) as [E1 T1]. rewrite app_nil_r in E1. auto.
        - destruct (elems_of_snoc_some _ DComplete _ T) as [E1 T1]. auto. }
      destruct Tx as [Tx Ex].
      assert (Eb' : (em ++ out) ++ f_buf st' = rf_out (run_flow o (op_init o) xs))
        by (rewrite <- app_assoc, <- Hb; exact Eb).
      rewrite Ci, Co, Ca, Al, Ex, Tx, Hd, Hsh.
      destruct (isnil (f_buf st')) eqn:Hnil; simpl.
      + apply isnil_true in Hnil. rewrite Hnil, app_nil_r in Eb'.
        split; [apply (wf_app_none (n_cout n) out [DComplete; DComplete] DComplete); auto|].
        split; [discriminate|]. intros _. right. rewrite Eo, app_assoc. unfold delems at 1 2. rewrite <- map_app.
        apply (frozen_complete (n_cin n ++ [DComplete]) (em ++ out) 2); auto; rewrite Ex; auto.
      + rewrite app_nil_r. rewrite Eo. unfold delems. rewrite <- map_app.
        split; [apply wf_delems|]. split; [|discriminate].
        intros _. split; [exact Nc|]. split; [exact He|]. split; [congruence|].
        split; [exists (em ++ out); auto|right; auto].
    - (* upstream error *)
      specialize (Tcin _ eq_refl ltac:(discriminate)).
      destruct (flow_eff_error _ _ _ _ _ _ Eff) as [Hst' [Hd Hsh]].
      destruct (elems_of_snoc_none (n_cin n) (DError e) Tcin) as [Ex Tx]. rewrite app_nil_r in Ex.
      rewrite Ci, Co, Ca, Al, Hd, Hsh. simpl.
      split; [apply (wf_app_none (n_cout n) [] [DError e] (DError e)); auto|].
      split; [discriminate|]. intros _. right. intros S [P [_ Er]]. rewrite Ex in P. fold xs in P.
      specialize (Er e Tx). simpl.
      destruct (term_elems_app_none (n_cout n) [] [DError e] Tn) as [E T]. simpl in E, T.
      unfold approx. rewrite E, T, Eo, elems_of_delems, app_nil_r. simpl.
      split.
      + eapply prefix_trans; [|apply (run_flow_prefix_ok o (op_init o) _ _ P He)]. rewrite <- Eb. apply prefix_app.
      + split; [intros; discriminate|]. intros e' X. inversion X; subst. apply in_or_app. left. exact Er.
    - (* request *)
      destruct (flow_eff_req _ _ _ _ _ _ Eff) as [out [Hb [Ht [Hc [Hd Hsh]]]]].
      assert (Eb' : (em ++ out) ++ f_buf st' = rf_out (run_flow o (op_init o) xs))
        by (rewrite <- app_assoc, <- Hb; exact Eb).
      rewrite Ci, Co, Ca, Al, Hd, Hsh. fold xs.
      destruct (f_completing st && isnil (f_buf st')) eqn:Hfin; simpl.
      + apply andb_prop in Hfin. destruct Hfin as [Hcomp Hnil]. apply isnil_true in Hnil.
        rewrite Hnil, app_nil_r in Eb'.
        destruct Hterm as [[_ F]|[Tc _]]; [congruence|].
        split; [apply (wf_app_none (n_cout n) out [DComplete] DComplete); auto|].
        split; [discriminate|]. intros _. right. rewrite Eo, app_assoc. unfold delems at 1 2. rewrite <- map_app.
        apply (frozen_complete (n_cin n) (em ++ out) 1); auto.
      + rewrite app_nil_r. rewrite Eo. unfold delems. rewrite <- map_app.
        split; [apply wf_delems|]. split; [|discriminate].
        intros _. split; [exact Nc|]. split; [exact He|]. split; [congruence|].
        split; [exists (em ++ out); auto|]. rewrite Hc. exact Hterm.
    - (* cancel *)
      destruct (flow_eff_cancel _ _ _ _ _ Eff) as [Hst' [Hd Hsh]].
      rewrite Ci, Co, Ca, Al, Hd, Hsh. simpl. rewrite app_nil_r.
      split; [exact W|]. split; [discriminate|]. intros _. left. reflexivity.
    - (* worker message: ignored *)
      destruct (flow_eff_worker _ _ _ _ _ _ Eff) as [Hst' [Hd Hsh]].
      rewrite Ci, Co, Ca, Al, Hd, Hsh, Hst'. simpl. rewrite app_nil_r. fold xs.
      split; [exact W|]. split; [|discriminate]. intros _. split; [exact Nc|]. split; [exact He|].
      split; [exact Hts|]. split; [exists em; auto|exact Hterm].
  Qed.
End Flow.
