(* C45 — demand safety of the flowActor: for every message sequence in which downstream requests are
   non-negative, the stage never emits more elements than downstream has requested, and its
   downstreamDemand ledger is exactly requested - emitted (so it never goes negative). *)
From Coq Require Import ZArith List Bool Lia.
From GV Require Import C45.Model C45.Chain.
Import ListNotations.
Open Scope Z_scope.

Definition n_elems (a : list action) : Z :=
  Z.of_nat (length (filter (fun m => match m with DElem _ => true | _ => false end) (downs a))).

Lemma n_elems_app a b : n_elems (a ++ b) = n_elems a + n_elems b.
Proof. unfold n_elems. rewrite downs_app, filter_app, app_length. lia. Qed.

Lemma n_elems_emit l : n_elems (map (fun v => ADown (DElem v)) l) = Z.of_nat (length l).
Proof. unfold n_elems. induction l; simpl; auto. rewrite Zpos_P_of_succ_nat. simpl in IHl. lia. Qed.

Definition requested (m : inmsg) : Z := match m with FromDown (URequest n) => n | _ => 0 end.
Definition req_ok (m : inmsg) : Prop := match m with FromDown (URequest n) => 0 <= n | _ => True end.

Lemma flow_flush_demand st st' acts : flow_flush st = (st', acts) -> 0 <= f_demand st ->
  0 <= f_demand st' /\ f_demand st' + n_elems acts = f_demand st.
Proof.
  unfold flow_flush. intros H Hd. inversion H; subst; clear H. simpl.
  set (k := Nat.min (Z.to_nat (f_demand st)) (length (f_buf st))).
  assert (Hk : Z.of_nat k <= f_demand st) by (unfold k; lia).
  rewrite n_elems_app, n_elems_emit, firstn_length.
  replace (Nat.min k (length (f_buf st))) with k by (unfold k; lia).
  assert (Hfin : n_elems (if f_completing st && match skipn k (f_buf st) with [] => true | _ :: _ => false end
                          then [ADown DComplete; AShutdown] else []) = 0).
  { destruct (f_completing st && _); reflexivity. }
  rewrite Hfin. lia.
Qed.

Lemma flow_request_demand c st st' acts : flow_request c st = (st', acts) ->
  f_demand st' = f_demand st /\ n_elems acts = 0.
Proof.
  unfold flow_request. intros H.
  destruct (f_completing st); [inversion H; subst; auto|].
  destruct (_ <=? 0); [inversion H; subst; auto|].
  destruct (_ >? _); inversion H; subst; auto.
Qed.

Lemma flow_recv_demand o c st m st' acts : flow_recv o c st m = (st', acts) -> 0 <= f_demand st -> req_ok m ->
  0 <= f_demand st' /\ f_demand st' + n_elems acts = f_demand st + requested m.
Proof.
  intros H Hd Hr. destruct m as [[v| |e]|[n|]|s]; cbn [flow_recv] in H; cbn [requested req_ok] in *.
  - destruct (op_step o (f_ts st) v) as [ts1 [outs|e]].
    + match type of H with context [flow_flush ?x] => destruct (flow_flush x) as [st2 a2] eqn:Hf end.
      destruct (flow_request c st2) as [st3 a3] eqn:Hq. inversion H; subst; clear H.
      destruct (flow_flush_demand _ _ _ Hf Hd) as [F1 F2]. destruct (flow_request_demand _ _ _ _ Hq) as [Q1 Q2].
      rewrite n_elems_app. simpl in F2. lia.
    + destruct (op_resumes o).
      * destruct (flow_request_demand _ _ _ _ H) as [Q1 Q2]. simpl in Q1. lia.
      * inversion H; subst. unfold n_elems. simpl. lia.
  - match type of H with context [flow_flush ?x] => destruct (flow_flush x) as [st2 a2] eqn:Hf end.
    inversion H; subst; clear H. destruct (flow_flush_demand _ _ _ Hf Hd) as [F1 F2]. simpl in F2.
    rewrite n_elems_app.
    assert (X : n_elems (match f_buf st' with [] => [ADown DComplete; AShutdown] | _ :: _ => [] end) = 0)
      by (destruct (f_buf st'); reflexivity).
    lia.
  - inversion H; subst. unfold n_elems. simpl. lia.
  - match type of H with context [flow_flush ?x] => destruct (flow_flush x) as [st2 a2] eqn:Hf end.
    destruct (flow_request c st2) as [st3 a3] eqn:Hq. inversion H; subst; clear H.
    destruct (flow_flush_demand _ _ _ Hf ltac:(simpl; lia)) as [F1 F2]. destruct (flow_request_demand _ _ _ _ Hq) as [Q1 Q2].
    rewrite n_elems_app. simpl in F2. lia.
  - inversion H; subst. unfold n_elems. simpl. lia.
  - inversion H; subst. unfold n_elems. simpl. lia.
Qed.

(* run a whole script through the handler *)
Fixpoint flow_run (o : op) (c : cfg) (st : flow_st) (script : list inmsg) : flow_st * list action :=
  match script with
  | [] => (st, [])
  | m :: r => let '(st1, a1) := flow_recv o c st m in
              let '(st2, a2) := flow_run o c st1 r in (st2, a1 ++ a2)
  end.

Theorem flow_demand_safe o c : forall script st st' acts,
  Forall req_ok script -> 0 <= f_demand st -> flow_run o c st script = (st', acts) ->
  0 <= f_demand st' /\
  f_demand st' + n_elems acts = f_demand st + fold_right (fun m a => requested m + a) 0 script.
Proof.
  induction script as [|m r IH]; intros st st' acts Hok Hd H; simpl in H.
  - inversion H; subst. unfold n_elems. simpl. lia.
  - inversion Hok as [|? ? Hm Hrest]; subst. destruct (flow_recv o c st m) as [st1 a1] eqn:R1.
    destruct (flow_run o c st1 r) as [st2 a2] eqn:R2. inversion H; subst; clear H.
    destruct (flow_recv_demand _ _ _ _ _ _ R1 Hd Hm) as [D1 D2].
    destruct (IH _ _ _ Hrest D1 R2) as [E1 E2]. rewrite n_elems_app. simpl. lia.
Qed.

(* every prefix of a run: the elements emitted so far never exceed what has been requested so far *)
Corollary flow_never_emits_beyond_demand o c script st' acts :
  Forall req_ok script -> flow_run o c (flow_init o) script = (st', acts) ->
  n_elems acts <= fold_right (fun m a => requested m + a) 0 script.
Proof.
  intros Hok H. destruct (flow_demand_safe o c script (flow_init o) st' acts Hok ltac:(simpl; lia) H) as [D1 D2].
  simpl in D2. lia.
Qed.
