(* C45 — proofs. Part 1: the list semantics [sem_op] is the familiar list function of each operator. *)
From Coq Require Import ZArith List Bool Lia.
From GV Require Import C45.Model.
Import ListNotations.
Open Scope Z_scope.

Lemma elementwise_total f xs :
  (forall x, In x xs -> exists o, f x = EOut o) ->
  elementwise f false xs = (flat_map (fun x => match f x with EOut o => o | EErr _ => [] end) xs, None).
Proof.
  induction xs as [|x r IH]; intros H; simpl; [reflexivity|].
  destruct (H x (or_introl eq_refl)) as [o Ho]. rewrite Ho.
  rewrite IH by (intros y Hy; apply H; right; exact Hy). reflexivity.
Qed.

Lemma sem_map a b (zs : list Z) :
  sem_op (OMap a b) (map VZ zs) = (map (fun z => VZ (a * z + b)) zs, None).
Proof.
  unfold sem_op. induction zs as [|z r IH]; simpl; [reflexivity|].
  simpl in IH. rewrite IH. reflexivity.
Qed.
