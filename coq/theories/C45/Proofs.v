(* C45 — the statements exported to Properties/C45.v. *)
From Coq Require Import ZArith List Bool Lia.
From GV Require Import C45.Model C45.Trace C45.Sem C45.Chain C45.StageFlow C45.StageFused C45.StageBatch C45.StagePar C45.StageParU C45.Demand C45.Main C45.Spec.
Import ListNotations.
Open Scope Z_scope.

(* ---------- the sink of every covered pipeline receives the list semantics ---------- *)
Definition terminals (t : list dmsg) : nat := length (filter (fun m => negb (is_elem m)) t).

Lemma terminals_delems l : terminals (delems l) = O.
Proof. induction l; simpl; auto. Qed.
Lemma terminals_app a b : terminals (a ++ b) = (terminals a + terminals b)%nat.
Proof. unfold terminals. rewrite filter_app, app_length. reflexivity. Qed.

Lemma sink_view k S : SinkInv k -> approx (n_cin k) S ->
  prefix (k_items (n_st k)) (fst S) /\
  (terminals (n_cin k) <= 1)%nat /\
  (n_alive k = true -> terminals (n_cin k) = O /\ k_completions (n_st k) = O) /\
  (n_alive k = false ->
     terminals (n_cin k) = 1%nat /\ k_completions (n_st k) = 1%nat /\
     (k_err (n_st k) = None -> k_items (n_st k) = fst S /\ snd S = []) /\
     (forall e, k_err (n_st k) = Some e -> In e (snd S))).
Proof.
  intros [It [A D]] [P [C E]]. split; [rewrite It; exact P|].
  destruct (n_alive k) eqn:Ha.
  - destruct (A eq_refl) as [Tn [Cn En]]. rewrite (term_none_delems _ Tn), terminals_delems.
    split; [lia|]. split; [auto|discriminate].
  - destruct (D eq_refl) as [t [Ec [Ht [Cn En]]]].
    assert (T1 : terminals (n_cin k) = 1%nat).
    { rewrite Ec, terminals_app, terminals_delems. unfold terminals. simpl. rewrite Ht. reflexivity. }
    split; [lia|]. split; [discriminate|]. intros _. split; [exact T1|]. split; [exact Cn|].
    assert (Tt : term_of (n_cin k) = Some t /\ elems_of (n_cin k) = k_items (n_st k)).
    { rewrite Ec. destruct (term_elems_app_none (delems (k_items (n_st k))) [] [t] (term_of_delems _)) as [E1 T1'].
      simpl in E1, T1'. rewrite E1, T1', elems_of_delems. destruct t; simpl in *; try discriminate; rewrite app_nil_r; auto. }
    destruct Tt as [Tt Et]. rewrite En. split.
    + intros Hn. destruct t as [v| |e]; simpl in *; try discriminate. destruct (C Tt) as [C1 C2]. rewrite <- Et. auto.
    + intros e He. destruct t as [v| |e']; simpl in *; try discriminate. inversion He; subst. apply E. exact Tt.
Qed.

Theorem pipeline_sound (c : cfg) (input : list val) (p : list op) (fuse : bool) (s : system) :
  Forall kok (plan fuse p) -> reach c input (plan fuse p) s ->
  let S := sem p input in
  let k := y_sink s in
  prefix (k_items (n_st k)) (fst S) /\
  (terminals (n_cin k) <= 1)%nat /\
  (n_alive k = true -> terminals (n_cin k) = O /\ k_completions (n_st k) = O) /\
  (n_alive k = false ->
     terminals (n_cin k) = 1%nat /\ k_completions (n_st k) = 1%nat /\
     (k_err (n_st k) = None -> k_items (n_st k) = fst S /\ snd S = []) /\
     (forall e, k_err (n_st k) = Some e -> In e (snd S))).
Proof.
  intros F R. destruct (chain_sound c input _ s F R) as [Hk Ap]. simpl.
  apply sink_view; [exact Hk|].
  eapply approx_swk; [exact Ap|]. rewrite <- (plan_ops fuse p) at 2. apply plan_sem_sem. exact F.
Qed.

(* the same for any way of cutting the operators into stage actors *)
Theorem materialisation_sound (c : cfg) (input : list val) (ks : list kind) (s : system) :
  Forall kok ks -> reach c input ks s ->
  SinkInv (y_sink s) /\ approx (n_cin (y_sink s)) (sem (concat (map kind_ops ks)) input).
Proof.
  intros F R. destruct (chain_sound c input _ s F R) as [Hk Ap]. split; [exact Hk|].
  eapply approx_swk; [exact Ap|]. apply plan_sem_sem. exact F.
Qed.

(* only one stage can fail => the terminal error is exactly that stage's error *)
Corollary single_error (c : cfg) (input : list val) (p : list op) (fuse : bool) (s : system) e0 :
  Forall kok (plan fuse p) -> reach c input (plan fuse p) s ->
  snd (sem p input) = [e0] -> n_alive (y_sink s) = false ->
  k_err (n_st (y_sink s)) = Some e0.
Proof.
  intros F R He Hd. destruct (pipeline_sound c input p fuse s F R) as [_ [_ [_ D]]].
  destruct (D Hd) as [_ [_ [Hn Hs]]]. destruct (k_err (n_st (y_sink s))) as [e|].
  - specialize (Hs e eq_refl). rewrite He in Hs. destruct Hs as [<-|[]]. reflexivity.
  - destruct (Hn eq_refl) as [_ X]. rewrite He in X. discriminate.
Qed.

(* ---------- sem_op is the familiar list function ---------- *)
Lemma sem_map a b (zs : list Z) :
  sem_op (OMap a b) (vz zs) = (vz (map (fun z => a * z + b) zs), None).
Proof.
  unfold sem_op, vz. induction zs as [|z r IH]; simpl; [reflexivity|]. simpl in IH. rewrite IH. reflexivity.
Qed.

Lemma sem_filter m r (zs : list Z) :
  sem_op (OFilter m r) (vz zs) = (vz (filter (fun z => negb (z mod m =? r)) zs), None).
Proof.
  unfold sem_op, vz. induction zs as [|z t IH]; simpl; [reflexivity|]. simpl in IH. rewrite IH.
  destruct (z mod m =? r); reflexivity.
Qed.

Lemma sem_flatmap k (zs : list Z) :
  sem_op (OFlatMap k) (vz zs) = (flat_map (flat_of k) zs, None).
Proof.
  unfold sem_op, vz. induction zs as [|z t IH]; simpl; [reflexivity|]. simpl in IH. rewrite IH. reflexivity.
Qed.

Lemma sem_buffer n (xs : list val) : sem_op (OBuffer n) xs = (xs, None).
Proof.
  unfold sem_op. induction xs as [|x t IH]; simpl; [reflexivity|]. simpl in IH. rewrite IH. reflexivity.
Qed.

Fixpoint sums_from (acc : Z) (zs : list Z) : list Z :=
  match zs with [] => [] | z :: r => (acc + z) :: sums_from (acc + z) r end.
Lemma sem_scan z0 (zs : list Z) : sem_op (OScan z0) (vz zs) = (vz (sums_from z0 zs), None).
Proof.
  unfold sem_op, vz. revert z0. induction zs as [|z t IH]; intros z0; simpl; [reflexivity|].
  rewrite IH. reflexivity.
Qed.

(* Batch n then Flatten is the identity; every batch but the last has exactly n elements *)
Fixpoint all_vl (xs : list val) : option (list (list Z)) :=
  match xs with
  | [] => Some []
  | VL l :: r => match all_vl r with Some t => Some (l :: t) | None => None end
  | VZ _ :: _ => None
  end.

Lemma chunks_concat n : (1 <= n)%nat -> forall (zs w : list Z), (length w < n)%nat ->
  exists B, chunks_from n w (vz zs) = (map VL B, None) /\ concat B = rev w ++ zs /\
            Forall (fun b => (length b <= n)%nat /\ b <> []) B.
Proof.
  intros Hn. induction zs as [|z r IH]; intros w Hw; simpl.
  - destruct w as [|x w'].
    + exists []. simpl. auto.
    + exists [rev (x :: w')]. simpl. rewrite !app_nil_r. split; [reflexivity|]. split; [reflexivity|].
      constructor; [|constructor]. split.
      * rewrite app_length, rev_length. simpl in *. lia.
      * intros E. apply (f_equal (@length Z)) in E. rewrite app_length in E. simpl in E. lia.
  - destruct (Nat.leb_spec n (S (length w))) as [Hfull|Hpart].
    + destruct (IH [] ltac:(simpl; lia)) as [B [E1 [E2 E3]]]. fold (vz r). rewrite E1.
      exists (rev (z :: w) :: B). simpl. split; [reflexivity|]. split.
      * rewrite E2. simpl. rewrite <- app_assoc. reflexivity.
      * constructor; [|exact E3]. split.
        -- rewrite app_length, rev_length. simpl. lia.
        -- intros E. apply (f_equal (@length Z)) in E. rewrite app_length in E. simpl in E. lia.
    + destruct (IH (z :: w) ltac:(simpl; lia)) as [B [E1 [E2 E3]]]. fold (vz r). rewrite E1.
      exists B. split; [reflexivity|]. split; [|exact E3]. rewrite E2. simpl. rewrite <- app_assoc. reflexivity.
Qed.

Lemma flatten_chunks (B : list (list Z)) : sem_op OFlatten (map VL B) = (vz (concat B), None).
Proof.
  unfold sem_op, vz. induction B as [|b r IH]; simpl; [reflexivity|]. simpl in IH. rewrite IH.
  rewrite map_app. reflexivity.
Qed.

Lemma sem_batch_flatten n (zs : list Z) : (1 <= n)%nat ->
  sem [OBatch n; OFlatten] (vz zs) = (vz zs, []).
Proof.
  intros Hn. destruct (chunks_concat n Hn zs [] ltac:(simpl; lia)) as [B [E1 [E2 _]]].
  assert (H1 : sem_stage (OBatch n) (vz zs, []) = (map VL B, [])).
  { unfold sem_stage. cbn [fst snd sem_op]. rewrite E1. reflexivity. }
  unfold sem. cbn [fold_left]. rewrite H1. unfold sem_stage. cbn [fst snd].
  rewrite flatten_chunks, E2. reflexivity.
Qed.

(* ---------- the batch actor as it was before the repair does not meet its local specification ---------- *)
Definition run_node (k : kind) (script : list inmsg) : node kstate :=
  fold_left (fun n m => if n_alive n then fst (fst (node_handle (krecv k) n m)) else n) script (mk_node (kinit k)).

Definition batch0_witness : list inmsg :=
  [FromDown (URequest 1); FromUp (DElem (VZ 1)); FromUp (DElem (VZ 2)); FromUp DComplete].

Lemma batch0_refuted :
  let n := run_node (KBatch0 1 default_cfg) batch0_witness in
  n_cin n = [DElem (VZ 1); DElem (VZ 2); DComplete] /\
  n_cout n = [DElem (VL [1]); DComplete] /\
  approx (n_cin n) ([VZ 1; VZ 2], []) /\
  ~ approx (n_cout n) (ksem (KBatch0 1 default_cfg) ([VZ 1; VZ 2], [])).
Proof.
  vm_compute. split; [reflexivity|]. split; [reflexivity|]. split.
  - split; [exists []; reflexivity|]. split; [auto|intros; discriminate].
  - intros [_ [C _]]. destruct (C eq_refl) as [X _]. discriminate.
Qed.

(* the repaired actor on the same script keeps the second element and completes only after delivering it *)
Lemma batch_repaired_witness :
  let n := run_node (KBatch 1 default_cfg) (batch0_witness ++ [FromDown (URequest 1)]) in
  n_cout n = [DElem (VL [1]); DElem (VL [2]); DComplete] /\ n_alive n = false.
Proof. vm_compute. auto. Qed.

(* ---------- examples: the hypotheses are satisfiable ---------- *)
Example ex_pipeline : list op :=
  [OMap 2 1; OFilter 3 0; OScan 0; OFlatMap 3; OBuffer 2; ODedup; OBatch 4; OFlatten; OTryMap 1 0 7 3 42 SFailFast;
   OParMap true 3 2 0].

Example ex_kok_fused : Forall kok (plan true ex_pipeline).
Proof. vm_compute. repeat constructor. Qed.
Example ex_kok_unfused : Forall kok (plan false ex_pipeline).
Proof. vm_compute. repeat constructor. Qed.

(* a reachable state that is not the initial one: the sink's first request has reached the last stage *)
Example ex_reach : exists s, reach default_cfg (vz [1; 2; 3]) (plan true ex_pipeline) s /\
                             s <> sys_init default_cfg (vz [1; 2; 3]) (plan true ex_pipeline).
Proof.
  eexists. split.
  - eapply reach_step; [apply reach_init|]. vm_compute. apply ss_chain. eapply cs_down; [reflexivity|]. vm_compute. reflexivity.
  - vm_compute. discriminate.
Qed.

(* an unordered parallel stage that has run to completion with its three workers finishing in the order 3,1,2 *)
Example ex_unordered : exists n, node_reach (KPar false 3 2 1) n /\ n_alive n = false /\
  n_cin n = [DElem (VZ 10); DElem (VZ 20); DElem (VZ 30); DComplete] /\
  n_cout n = [DElem (VZ 61); DElem (VZ 21); DElem (VZ 41); DComplete].
Proof.
  pose proof (nr_init (KPar false 3 2 1)) as R0.
  pose proof (nr_step _ _ (FromUp (DElem (VZ 10))) R0 eq_refl ltac:(simpl; auto)) as R1. vm_compute in R1.
  pose proof (nr_step _ _ (FromUp (DElem (VZ 20))) R1 eq_refl ltac:(simpl; auto)) as R2. vm_compute in R2.
  pose proof (nr_step _ _ (FromUp (DElem (VZ 30))) R2 eq_refl ltac:(simpl; auto)) as R3. vm_compute in R3.
  pose proof (nr_step _ _ (FromUp DComplete) R3 eq_refl ltac:(simpl; auto)) as R4. vm_compute in R4.
  pose proof (nr_step _ _ (WorkerDone 3) R4 eq_refl ltac:(vm_compute; auto)) as R5. vm_compute in R5.
  pose proof (nr_step _ _ (WorkerDone 1) R5 eq_refl ltac:(vm_compute; auto)) as R6. vm_compute in R6.
  pose proof (nr_step _ _ (WorkerDone 2) R6 eq_refl ltac:(vm_compute; auto)) as R7. vm_compute in R7.
  eexists. split; [exact R7|]. vm_compute. auto.
Qed.
