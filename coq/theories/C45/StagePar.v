(* C45 — local invariants of the parallelMapActor.
   Ordered (OrderedParallelMap): the resequencing heap releases results in input order, so the stage meets
   the same local specification as the other stage kinds (and composes into chains).
   Unordered (ParallelMap): what has been emitted plus what is still with the workers is, as a multiset,
   the image of what has been consumed. *)
From Coq Require Import ZArith List Bool Lia Permutation.
From GV Require Import C45.Model C45.Trace C45.Sem C45.Chain C45.StageFlow C45.StageBatch.
Import ListNotations.
Open Scope Z_scope.

Definition pf (a b : Z) (v : val) : val := match lin a b v with Some w => w | None => v end.

(* ---------- the sorted pending list ---------- *)
Fixpoint sorted_seq (h : list (Z * val)) : Prop :=
  match h with
  | [] => True
  | x :: r => (match r with [] => True | y :: _ => fst x < fst y end) /\ sorted_seq r
  end.

Lemma sorted_tail x r : sorted_seq (x :: r) -> sorted_seq r.
Proof. simpl. tauto. Qed.

Lemma sorted_lb x r : sorted_seq (x :: r) -> forall y, In y r -> fst x < fst y.
Proof.
  revert x. induction r as [|z r IH]; intros x H y Hy; [destruct Hy|].
  destruct H as [H1 H2]. destruct Hy as [<-|Hy]; [exact H1|].
  specialize (IH z H2 y Hy). lia.
Qed.

Lemma insert_in x h y : In y (heap_insert x h) <-> y = x \/ In y h.
Proof.
  induction h as [|z r IH]; simpl; [intuition|].
  destruct (fst x <? fst z); simpl; [intuition|]. rewrite IH. intuition.
Qed.

Lemma insert_sorted x h : sorted_seq h -> (forall y, In y h -> fst y <> fst x) -> sorted_seq (heap_insert x h).
Proof.
  induction h as [|z r IH]; intros Hs Hne; simpl; [auto|].
  destruct (Z.ltb_spec (fst x) (fst z)) as [Hlt|Hge].
  - simpl. split; [exact Hlt|exact Hs].
  - assert (Hzx : fst z < fst x) by (specialize (Hne z (or_introl eq_refl)); lia).
    destruct Hs as [H1 H2].
    assert (Hr : sorted_seq (heap_insert x r)) by (apply IH; [exact H2|intros y Hy; apply Hne; right; exact Hy]).
    simpl. split; [|exact Hr].
    destruct r as [|w r']; simpl.
    + exact Hzx.
    + destruct (fst x <? fst w); simpl; [exact Hzx|exact H1].
Qed.

(* flushOrdered pops the consecutive run starting at next+1 *)
Lemma par_flush_spec : forall fuel next h next' h' out, (length h <= fuel)%nat -> sorted_seq h ->
  par_flush fuel next h = (next', h', out) ->
  exists popped, h = popped ++ h' /\ out = map snd popped /\
    map fst popped = map (fun i => next + 1 + Z.of_nat i) (seq 0 (length popped)) /\
    next' = next + Z.of_nat (length popped) /\
    (match h' with [] => True | y :: _ => fst y <> next' + 1 end).
Proof.
  induction fuel as [|f IH]; intros next h next' h' out Hl Hs H.
  - destruct h; [|simpl in Hl; lia]. simpl in H. inversion H; subst. exists []. simpl. repeat split; auto; lia.
  - simpl in H. destruct h as [|[s v] r].
    + inversion H; subst. exists []. simpl. repeat split; auto; lia.
    + destruct (Z.eqb_spec s (next + 1)) as [->|Hne].
      * destruct (par_flush f (next + 1) r) as [[n1 h1] o1] eqn:Hr. inversion H; subst; clear H.
        assert (Hl' : (length r <= f)%nat) by (simpl in Hl; lia).
        destruct (IH _ _ _ _ _ Hl' (sorted_tail _ _ Hs) Hr) as [pp [E1 [E2 [E3 [E4 E5]]]]].
        exists ((next + 1, v) :: pp). split; [rewrite E1; reflexivity|]. split; [rewrite E2; reflexivity|].
        split; [|split].
        -- cbn [map fst length seq]. f_equal; [lia|]. rewrite E3, <- seq_shift, map_map. apply map_ext. intros i. lia.
        -- rewrite E4. cbn [length]. lia.
        -- rewrite E4 in E5. destruct h' as [|y h1']; [exact I|]. cbn [length]. lia.
      * inversion H; subst. exists []. simpl. repeat split; auto; try lia.
Qed.

Lemma remove_task_spec seq : forall l o l', remove_task seq l = (o, l') ->
  match o with
  | Some v => exists a b, l = a ++ (seq, v) :: b /\ l' = a ++ b /\ ~ In seq (map fst a)
  | None => ~ In seq (map fst l) /\ l' = l
  end.
Proof.
  induction l as [|[s v] r IH]; intros o l' H; simpl in H.
  - inversion H; subst. simpl. auto.
  - destruct (Z.eqb_spec s seq) as [->|Hne].
    + inversion H; subst. exists [], l'. simpl. auto.
    + destruct (remove_task seq r) as [o1 r1] eqn:Hr. inversion H; subst; clear H.
      specialize (IH _ _ eq_refl). destruct o as [v1|].
      * destruct IH as [a [b [E1 [E2 E3]]]]. exists ((s, v) :: a), b. simpl. rewrite E1, E2.
        split; [reflexivity|]. split; [reflexivity|]. intros [F|F]; [congruence|contradiction].
      * destruct IH as [E1 E2]. split; [|rewrite E2; reflexivity]. simpl. intros [F|F]; [congruence|contradiction].
Qed.

Lemma insert_perm x h : Permutation (heap_insert x h) (x :: h).
Proof.
  induction h as [|z r IH]; simpl; [reflexivity|].
  destruct (fst x <? fst z); [reflexivity|]. rewrite IH. apply perm_swap.
Qed.

Lemma sorted_app_r p h : sorted_seq (p ++ h) -> sorted_seq h.
Proof. induction p as [|x r IH]; simpl; auto. intros [_ H]. auto. Qed.

Lemma sorted_head_min x r : sorted_seq (x :: r) -> forall y, In y (x :: r) -> fst x <= fst y.
Proof. intros H y [<-|Hy]; [lia|]. pose proof (sorted_lb _ _ H y Hy). lia. Qed.

Lemma seq_map_shift {A} : forall k j (f : nat -> A), map f (seq j k) = map (fun i => f (j + i)%nat) (seq 0 k).
Proof.
  induction k as [|k IH]; intros j f; simpl; [reflexivity|].
  rewrite Nat.add_0_r. f_equal. rewrite (IH (S j) f), (IH 1%nat (fun i => f (j + i)%nat)).
  apply map_ext. intros i. f_equal. lia.
Qed.

Definition zrange (lo : Z) (k : nat) : list Z := map (fun i => lo + 1 + Z.of_nat i) (seq 0 k).

Lemma zrange_app lo j k : zrange lo (j + k) = zrange lo j ++ zrange (lo + Z.of_nat j) k.
Proof.
  unfold zrange. rewrite seq_app, map_app. f_equal. simpl. rewrite seq_map_shift.
  apply map_ext. intros i. lia.
Qed.

Lemma zrange_in lo k s : In s (zrange lo k) <-> lo < s <= lo + Z.of_nat k.
Proof.
  unfold zrange. rewrite in_map_iff. split.
  - intros [i [<- Hi]]. apply in_seq in Hi. lia.
  - intros H. exists (Z.to_nat (s - lo - 1)). split; [lia|]. apply in_seq. lia.
Qed.

Lemma firstn_snoc {A} (l : list A) n d : (n < length l)%nat -> firstn (S n) l = firstn n l ++ [nth n l d].
Proof.
  revert n. induction l as [|x r IH]; intros n H; simpl in *; [lia|].
  destruct n; simpl; [reflexivity|]. f_equal. apply IH. lia.
Qed.

Lemma firstn_range {A} (l : list A) d : forall k n, (n + k <= length l)%nat ->
  firstn (n + k) l = firstn n l ++ map (fun i => nth (n + i) l d) (seq 0 k).
Proof.
  induction k as [|k IH]; intros n H; simpl.
  - rewrite Nat.add_0_r, app_nil_r. reflexivity.
  - replace (n + S k)%nat with (S n + k)%nat by lia. rewrite (IH (S n)) by lia.
    rewrite (firstn_snoc l n d) by lia. rewrite <- app_assoc. simpl. rewrite Nat.add_0_r. f_equal. f_equal.
    rewrite (seq_map_shift k 1). apply map_ext. intros i. f_equal. lia.
Qed.

Lemma popped_values (g : Z -> val) : forall (pp : list (Z * val)) lo,
  map fst pp = map (fun i => lo + 1 + Z.of_nat i) (seq 0 (length pp)) ->
  (forall y, In y pp -> snd y = g (fst y)) ->
  map snd pp = map (fun i => g (lo + 1 + Z.of_nat i)) (seq 0 (length pp)).
Proof.
  induction pp as [|y t IH]; intros lo E Hv; [reflexivity|].
  simpl in E. inversion E as [[Ey Et]]. simpl. f_equal.
  - rewrite (Hv y (or_introl eq_refl)), Ey. reflexivity.
  - rewrite (seq_map_shift (length t) 1) in Et. rewrite (seq_map_shift (length t) 1).
    rewrite (IH (lo + 1)).
    + apply map_ext. intros i. f_equal. lia.
    + rewrite Et. apply map_ext. intros i. lia.
    + intros z Hz. apply Hv. right. exact Hz.
Qed.

(* ---------- ordered ---------- *)
Section ParOrdered.
  Variable w : nat.
  Variable a b : Z.
  Let K := KPar true w a b.

  (* the s-th (1-based) consumed input *)
  Definition input_at (xs : list val) (s : Z) : val := nth (Z.to_nat (s - 1)) xs (VZ 0).

  Definition ParInv (n : node kstate) : Prop :=
    exists st, n_st n = SPar st /\
    wf_trace (n_cout n) /\
    let xs := elems_of (n_cin n) in
    (n_alive n = true -> n_cancelled n = false /\
       (forall x, In x xs -> exists z, x = VZ z) /\
       p_inseq st = Z.of_nat (length xs) /\ 0 <= p_next st <= p_inseq st /\
       n_cout n = delems (map (pf a b) (firstn (Z.to_nat (p_next st)) xs)) /\
       Permutation (map fst (p_tasks st) ++ map fst (p_pending st))
                   (zrange (p_next st) (Z.to_nat (p_inseq st - p_next st))) /\
       (forall s v, In (s, v) (p_tasks st) -> v = input_at xs s) /\
       (forall s r, In (s, r) (p_pending st) -> r = pf a b (input_at xs s)) /\
       sorted_seq (p_pending st) /\
       (match p_pending st with [] => True | y :: _ => fst y <> p_next st + 1 end) /\
       (term_of (n_cin n) = None /\ p_updone st = false \/
        term_of (n_cin n) = Some DComplete /\ p_updone st = true /\ p_tasks st <> [])) /\
    (n_alive n = false -> n_cancelled n = true \/
        forall S, approx (n_cin n) S -> approx (n_cout n) (ksem K S)).

  Lemma par_N0 : ParInv (mk_node (kinit K)).
  Proof.
    exists par_init. simpl. split; [reflexivity|]. split; [exact I|]. split; [|discriminate].
    intros _. split; [reflexivity|]. split; [intros x []|]. split; [reflexivity|]. split; [lia|].
    split; [reflexivity|]. split; [reflexivity|].
    split; [intros s v []|]. split; [intros s r []|]. split; [exact I|]. split; [exact I|]. left. auto.
  Qed.

  Lemma par_sem_prefix xs rest : (forall x, In x xs -> exists z, x = VZ z) ->
    prefix (map (pf a b) xs) (fst (elementwise (elem_fn (OParMap true 1 a b)) false (xs ++ rest))).
  Proof.
    induction xs as [|x r IH]; intros H; simpl; [apply prefix_nil|].
    destruct (H x (or_introl eq_refl)) as [z ->]. simpl.
    specialize (IH (fun y Hy => H y (or_intror Hy))).
    destruct (elementwise (elem_fn (OParMap true 1 a b)) false (r ++ rest)) as [ys e]. simpl in *.
    destruct IH as [c ->]. exists c. reflexivity.
  Qed.

  Lemma par_sem_ints xs : (forall x, In x xs -> exists z, x = VZ z) ->
    elementwise (elem_fn (OParMap true 1 a b)) false xs = (map (pf a b) xs, None).
  Proof.
    induction xs as [|x r IH]; intros H; simpl; [reflexivity|].
    destruct (H x (or_introl eq_refl)) as [z ->]. simpl.
    rewrite IH by (intros y Hy; apply H; right; exact Hy). reflexivity.
  Qed.

  Lemma par_sem_type_err xs l rest : (forall x, In x xs -> exists z, x = VZ z) ->
    elementwise (elem_fn (OParMap true 1 a b)) false (xs ++ VL l :: rest) = (map (pf a b) xs, Some type_err).
  Proof.
    induction xs as [|x r IH]; intros H; simpl; [reflexivity|].
    destruct (H x (or_introl eq_refl)) as [z ->]. simpl.
    rewrite IH by (intros y Hy; apply H; right; exact Hy). reflexivity.
  Qed.

  Lemma par_N2 n S : ParInv n -> n_cancelled n = false -> approx (n_cin n) S -> approx (n_cout n) (ksem K S).
  Proof.
    intros [st [Hst [W [A D]]]] Hc Ap. destruct (n_alive n) eqn:Ha.
    - destruct (A eq_refl) as [_ [Hz [_ [_ [Eo _]]]]]. rewrite Eo. apply approx_delems. simpl.
      destruct Ap as [[rest Hr] _]. rewrite Hr.
      eapply prefix_trans; [|apply par_sem_prefix; exact Hz].
      rewrite <- (firstn_skipn (Z.to_nat (p_next st)) (elems_of (n_cin n))) at 2. rewrite map_app. apply prefix_app.
    - destruct (D eq_refl) as [F|F]; [congruence|auto].
  Qed.

  Lemma par_N4 n : ParInv n -> wf_trace (n_cout n).
  Proof. intros [st [_ [W _]]]. exact W. Qed.

  (* when nothing is with the workers, the maximally flushed heap is empty and everything has been emitted *)
  Lemma drained next inseq (pend : list (Z * val)) : 0 <= next <= inseq ->
    Permutation (map fst pend) (zrange next (Z.to_nat (inseq - next))) -> sorted_seq pend ->
    (match pend with [] => True | y :: _ => fst y <> next + 1 end) -> pend = [] /\ next = inseq.
  Proof.
    intros Hr Hp Hs Hh. destruct pend as [|y t].
    - split; [reflexivity|]. apply Permutation_nil in Hp. unfold zrange in Hp.
      destruct (Z.to_nat (inseq - next)) eqn:E; [lia|discriminate].
    - exfalso.
      assert (Hy : In (fst y) (zrange next (Z.to_nat (inseq - next)))) by (eapply Permutation_in; [exact Hp|left; reflexivity]).
      apply zrange_in in Hy.
      assert (Hn1 : In (next + 1) (map fst (y :: t))).
      { eapply Permutation_in; [symmetry; exact Hp|]. apply zrange_in. lia. }
      apply in_map_iff in Hn1. destruct Hn1 as [z [Hz1 Hz2]].
      pose proof (sorted_head_min _ _ Hs z Hz2). lia.
  Qed.

  Lemma complete_frozen cin (xs : list val) : term_of cin = Some DComplete -> elems_of cin = xs ->
    (forall x, In x xs -> exists z, x = VZ z) ->
    forall k, (0 < k)%nat -> forall S, approx cin S -> approx (delems (map (pf a b) xs) ++ repeat DComplete k) (ksem K S).
  Proof.
    intros Ht Hx Hz k Hk S [_ [C _]]. destruct (C Ht) as [E1 E2]. simpl. rewrite <- E1, E2, Hx, (par_sem_ints xs Hz). simpl.
    destruct k as [|k]; [lia|]. simpl.
    destruct (term_elems_app_none (delems (map (pf a b) xs)) [] (DComplete :: repeat DComplete k) (term_of_delems _)) as [E T].
    simpl in E, T. unfold approx. rewrite E, T, elems_of_delems, app_nil_r. simpl.
    split; [apply prefix_refl|]. split; [auto|intros; discriminate].
  Qed.

  Lemma par_N1 n m n' ds us : ParInv n -> n_alive n = true ->
    (match m with FromUp d => wf_trace (n_cin n ++ [d]) | WorkerDone s => In s (ktasks (n_st n)) | _ => True end) ->
    node_handle (krecv K) n m = (n', ds, us) -> ParInv n'.
  Proof.
    intros [st [Hst [W [A _]]]] Ha Wm H.
    destruct (node_handle_eq _ _ _ _ _ _ H) as [s' [acts [R [-> [-> [Al [Ci [Co [Ca St]]]]]]]]].
    rewrite Hst in R. unfold K in R. simpl in R. destruct (par_recv true a b st m) as [st' acts'] eqn:Hr.
    inversion R as [[Hs' Ha']]; clear R; rewrite <- Hs' in St; rewrite <- Ha' in *; clear Hs' Ha' s' acts.
    destruct (A Ha) as [Nc [Hz [Hin [Hnx [Eo [Hperm [Htk [Hpd [Hsort [Hhead Hterm]]]]]]]]]].
    assert (Tn : term_of (n_cout n) = None) by (rewrite Eo; apply term_of_delems).
    set (xs := elems_of (n_cin n)) in *.
    exists st'. split; [exact St|].
    assert (Wc : match m with FromUp d => wf_trace (n_cin n) | _ => True end).
    { destruct m; auto. eapply wf_prefix; eauto. }
    assert (Tcin : forall d, m = FromUp d -> d <> DComplete -> term_of (n_cin n) = None).
    { intros d -> Hd. destruct Hterm as [[T _]|[T _]]; auto.
      specialize (wf_snoc_some _ _ _ Wc T Wm). congruence. }
    destruct m as [[v| |e]|[q|]|seq]; cbn [par_recv] in Hr.
    - (* element *)
      specialize (Tcin _ eq_refl ltac:(discriminate)).
      destruct Hterm as [[_ Hud]|[F _]]; [|congruence].
      destruct (elems_of_snoc_none (n_cin n) (DElem v) Tcin) as [Ex Tx].
      destruct v as [z|l].
      + inversion Hr; subst st' acts'; clear Hr. rewrite Ci, Co, Ca, Al, Ex, Tx. fold xs. simpl. rewrite app_nil_r.
        split; [exact W|]. split; [|discriminate]. intros _.
        assert (Hlen : length (xs ++ [VZ z]) = S (length xs)) by (rewrite app_length; simpl; lia).
        split; [exact Nc|]. split.
        { intros x Hx. apply in_app_or in Hx. destruct Hx as [Hx|[<-|[]]]; [auto|eauto]. }
        split; [rewrite Hlen; lia|]. split; [lia|]. split.
        { rewrite Eo. f_equal. f_equal. rewrite firstn_app.
          replace (Z.to_nat (p_next st) - length xs)%nat with O by lia. simpl. rewrite app_nil_r. reflexivity. }
        split.
        { rewrite map_app. simpl.
          replace (Z.to_nat (p_inseq st + 1 - p_next st)) with (Z.to_nat (p_inseq st - p_next st) + 1)%nat by lia.
          rewrite zrange_app.
          assert (Hz1 : zrange (p_next st + Z.of_nat (Z.to_nat (p_inseq st - p_next st))) 1 = [p_inseq st + 1])
            by (unfold zrange; simpl; f_equal; lia).
          rewrite Hz1.
          apply Permutation_trans with ((map fst (p_tasks st) ++ map fst (p_pending st)) ++ [p_inseq st + 1]).
          - rewrite <- !app_assoc. apply Permutation_app_head. apply Permutation_app_comm.
          - apply Permutation_app_tail. exact Hperm. }
        split.
        { intros s v Hsv. apply in_app_or in Hsv. destruct Hsv as [Hsv|[Hsv|[]]].
          - rewrite (Htk s v Hsv). unfold input_at.
            assert (Hs : In s (map fst (p_tasks st) ++ map fst (p_pending st))).
            { apply in_or_app. left. apply in_map_iff. exists (s, v). auto. }
            eapply Permutation_in in Hs; [|exact Hperm]. apply zrange_in in Hs.
            rewrite app_nth1 by lia. reflexivity.
          - inversion Hsv; subst. unfold input_at. rewrite Hin.
            replace (Z.to_nat (Z.of_nat (length xs) + 1 - 1)) with (length xs) by lia.
            rewrite nth_middle. reflexivity. }
        split.
        { intros s r Hsr. rewrite (Hpd s r Hsr). unfold input_at.
          assert (Hs : In s (map fst (p_tasks st) ++ map fst (p_pending st))).
          { apply in_or_app. right. apply in_map_iff. exists (s, r). auto. }
          eapply Permutation_in in Hs; [|exact Hperm]. apply zrange_in in Hs.
          rewrite app_nth1 by lia. reflexivity. }
        split; [exact Hsort|]. split; [exact Hhead|]. left. auto.
      + inversion Hr; subst st' acts'; clear Hr. rewrite Ci, Co, Ca, Al. simpl.
        split; [apply (wf_app_none (n_cout n) [] [DError type_err] (DError type_err)); auto|].
        split; [discriminate|]. intros _. right. intros S [[rest Hp] _]. rewrite Ex in Hp. fold xs in Hp.
        simpl. rewrite Hp, <- app_assoc. simpl. rewrite (par_sem_type_err xs l rest Hz). simpl.
        destruct (term_elems_app_none (n_cout n) [] [DError type_err] Tn) as [E T]. simpl in E, T.
        unfold approx. rewrite E, T, Eo, elems_of_delems, app_nil_r. simpl.
        split.
        { rewrite <- (firstn_skipn (Z.to_nat (p_next st)) xs) at 2. rewrite map_app. apply prefix_app. }
        split; [intros; discriminate|]. intros e' X. inversion X; subst. apply in_or_app. right. left. reflexivity.
    - (* complete *)
      assert (Tx : term_of (n_cin n ++ [DComplete]) = Some DComplete /\ elems_of (n_cin n ++ [DComplete]) = xs).
      { destruct Hterm as [[T _]|[T _]].
        - destruct (elems_of_snoc_none _ DComplete T) as [E1 T1]. rewrite app_nil_r in E1. auto.
        - destruct (elems_of_snoc_some _ DComplete _ T) as [E1 T1]. auto. }
      destruct Tx as [Tx Ex].
      inversion Hr; subst st' acts'; clear Hr. rewrite Ci, Co, Ca, Al, Ex, Tx. simpl.
      destruct (p_tasks st) as [|t0 tr] eqn:Etk; simpl.
      + simpl in Hperm. destruct (drained _ _ _ Hnx Hperm Hsort Hhead) as [Hp0 Hn0].
        split; [apply (wf_app_none (n_cout n) [] [DComplete] DComplete); auto|].
        split; [discriminate|]. intros _. right. rewrite Eo.
        replace (firstn (Z.to_nat (p_next st)) xs) with xs by (symmetry; apply firstn_all2; lia).
        apply (complete_frozen (n_cin n ++ [DComplete]) xs Tx Ex Hz 1 ltac:(lia)).
      + rewrite app_nil_r. split; [exact W|]. split; [|discriminate]. intros _.
        split; [exact Nc|]. split; [exact Hz|]. split; [exact Hin|]. split; [exact Hnx|]. split; [exact Eo|].
        split; [exact Hperm|]. split; [exact Htk|].
        split; [exact Hpd|]. split; [exact Hsort|]. split; [exact Hhead|]. right. split; [reflexivity|]. split; [reflexivity|discriminate].
    - (* upstream error *)
      specialize (Tcin _ eq_refl ltac:(discriminate)).
      destruct (elems_of_snoc_none (n_cin n) (DError e) Tcin) as [Ex Tx]. rewrite app_nil_r in Ex.
      inversion Hr; subst st' acts'; clear Hr. rewrite Ci, Co, Ca, Al. simpl.
      split; [apply (wf_app_none (n_cout n) [] [DError e] (DError e)); auto|].
      split; [discriminate|]. intros _. right. intros S [[rest Hp] [_ Er]]. rewrite Ex in Hp. fold xs in Hp.
      specialize (Er e Tx). simpl.
      destruct (term_elems_app_none (n_cout n) [] [DError e] Tn) as [E T]. simpl in E, T.
      unfold approx. rewrite E, T, Eo, elems_of_delems, app_nil_r. simpl.
      split.
      { rewrite Hp. eapply prefix_trans; [|apply par_sem_prefix; exact Hz].
        rewrite <- (firstn_skipn (Z.to_nat (p_next st)) xs) at 2. rewrite map_app. apply prefix_app. }
      split; [intros; discriminate|]. intros e' X. inversion X; subst. apply in_or_app. left. exact Er.
    - (* request: unhandled *)
      inversion Hr; subst st' acts'; clear Hr. rewrite Ci, Co, Ca, Al. simpl. rewrite app_nil_r. fold xs.
      split; [exact W|]. split; [|discriminate]. intros _.
      split; [exact Nc|]. split; [exact Hz|]. split; [exact Hin|]. split; [exact Hnx|]. split; [exact Eo|].
      split; [exact Hperm|]. split; [exact Htk|]. split; [exact Hpd|]. split; [exact Hsort|]. split; [exact Hhead|exact Hterm].
    - (* cancel *)
      inversion Hr; subst st' acts'; clear Hr. rewrite Ci, Co, Ca, Al. simpl.
      split; [apply (wf_app_none (n_cout n) [] [DComplete] DComplete); auto|].
      split; [discriminate|]. intros _. left. reflexivity.
    - (* a worker finishes task seq *)
      rewrite Hst in Wm. simpl in Wm.
      destruct (remove_task seq (p_tasks st)) as [o tasks'] eqn:Hrm.
      pose proof (remove_task_spec seq _ _ _ Hrm) as Hsp.
      destruct o as [v|]; [|destruct Hsp as [Hno _]; contradiction].
      destruct Hsp as [ta [tb [Et [Et' Hnota]]]].
      set (r := match lin a b v with Some w0 => w0 | None => v end) in *.
      assert (Hrv : r = pf a b (input_at xs seq)).
      { unfold r, pf. rewrite (Htk seq v) by (rewrite Et; apply in_or_app; right; left; reflexivity). reflexivity. }
      destruct (par_flush (S (length (p_pending st))) (p_next st) (heap_insert (seq, r) (p_pending st)))
        as [[next' pend'] outs] eqn:Hfl.
      assert (Hpermh : Permutation (heap_insert (seq, r) (p_pending st)) ((seq, r) :: p_pending st)) by apply insert_perm.
      assert (Hseq_range : p_next st < seq <= p_inseq st).
      { assert (Hs : In seq (map fst (p_tasks st) ++ map fst (p_pending st))) by (apply in_or_app; left; exact Wm).
        eapply Permutation_in in Hs; [|exact Hperm]. apply zrange_in in Hs. lia. }
      assert (Hnd : NoDup (map fst (p_tasks st) ++ map fst (p_pending st))).
      { eapply Permutation_NoDup; [symmetry; exact Hperm|]. unfold zrange. apply FinFun.Injective_map_NoDup; [|apply seq_NoDup].
        intros i j Hij. lia. }
      assert (Hfresh : forall y, In y (p_pending st) -> fst y <> fst (seq, r)).
      { intros y Hy Heq. simpl in Heq. rewrite Et, map_app in Hnd. simpl in Hnd.
        rewrite <- app_assoc in Hnd. apply NoDup_remove_2 in Hnd. apply Hnd.
        apply in_or_app. right. apply in_or_app. right. rewrite <- Heq. apply in_map. exact Hy. }
      assert (Hsorth : sorted_seq (heap_insert (seq, r) (p_pending st))) by (apply insert_sorted; assumption).
      assert (Hlenh : (length (heap_insert (seq, r) (p_pending st)) <= S (length (p_pending st)))%nat).
      { rewrite (Permutation_length Hpermh). simpl. lia. }
      destruct (par_flush_spec _ _ _ _ _ _ Hlenh Hsorth Hfl) as [pp [Eh [Eouts [Epp [Enext Ehead]]]]].
      (* the union of tasks' and the new heap is still the range *)
      assert (Hperm2 : Permutation (map fst tasks' ++ map fst pp ++ map fst pend')
                                   (zrange (p_next st) (Z.to_nat (p_inseq st - p_next st)))).
      { rewrite <- map_app, <- Eh. eapply Permutation_trans; [|exact Hperm].
        rewrite (Permutation_map fst Hpermh). rewrite Et, Et', !map_app. simpl.
        rewrite <- !app_assoc. apply Permutation_app_head. simpl.
        symmetry. apply Permutation_middle. }
      assert (Hk : (length pp <= Z.to_nat (p_inseq st - p_next st))%nat).
      { destruct pp as [|p0 pr] eqn:Epp0; [simpl; lia|]. rewrite <- Epp0 in *.
        assert (Hl : In (p_next st + Z.of_nat (length pp)) (map fst pp)).
        { rewrite Epp. apply in_map_iff. exists (length pp - 1)%nat. split; [rewrite Epp0; simpl; lia|].
          apply in_seq. rewrite Epp0. simpl. lia. }
        assert (Hl2 : In (p_next st + Z.of_nat (length pp)) (zrange (p_next st) (Z.to_nat (p_inseq st - p_next st)))).
        { eapply Permutation_in; [exact Hperm2|]. apply in_or_app. right. apply in_or_app. left. exact Hl. }
        apply zrange_in in Hl2. lia. }
      assert (Hperm3 : Permutation (map fst tasks' ++ map fst pend')
                                   (zrange next' (Z.to_nat (p_inseq st - next')))).
      { assert (Hsplit : zrange (p_next st) (Z.to_nat (p_inseq st - p_next st)) =
                         zrange (p_next st) (length pp) ++ zrange next' (Z.to_nat (p_inseq st - next'))).
        { replace (Z.to_nat (p_inseq st - p_next st)) with (length pp + Z.to_nat (p_inseq st - next'))%nat by lia.
          rewrite zrange_app, Enext. reflexivity. }
        rewrite Hsplit in Hperm2. unfold zrange at 1 in Hperm2. rewrite <- Epp in Hperm2.
        apply (Permutation_app_inv_l (map fst pp)).
        eapply Permutation_trans; [|exact Hperm2].
        rewrite app_assoc. eapply Permutation_trans; [apply Permutation_app_tail; apply Permutation_app_comm|].
        rewrite <- app_assoc. reflexivity. }
      assert (Houts : map (pf a b) (firstn (Z.to_nat next') xs) = map (pf a b) (firstn (Z.to_nat (p_next st)) xs) ++ outs).
      { replace (Z.to_nat next') with (Z.to_nat (p_next st) + length pp)%nat by lia.
        rewrite (firstn_range xs (VZ 0)) by lia. rewrite map_app. f_equal.
        rewrite Eouts, map_map.
        (* popped entries carry the image of their input *)
        assert (Hval : forall y, In y pp -> snd y = pf a b (input_at xs (fst y))).
        { intros [s0 r0] Hy. simpl.
          assert (Hy' : In (s0, r0) (heap_insert (seq, r) (p_pending st))) by (rewrite Eh; apply in_or_app; left; exact Hy).
          apply insert_in in Hy'. destruct Hy' as [Hy'|Hy']; [inversion Hy'; subst; exact Hrv|apply Hpd; exact Hy']. }
        rewrite (popped_values (fun s0 => pf a b (input_at xs s0)) pp (p_next st) Epp Hval).
        apply map_ext. intros i. unfold input_at. f_equal. f_equal. lia. }
      cbv beta iota zeta in Hr. inversion Hr; subst st' acts'; clear Hr.
      rewrite Ci, Co, Ca, Al. fold xs.
      rewrite !downs_app, downs_elems, !shuts_app, shuts_elems. simpl.
      destruct (p_updone st) eqn:Hud; simpl.
      + destruct tasks' as [|t0 tr] eqn:Etk'; simpl.
        * (* last task of a completed upstream: everything is delivered, complete *)
          simpl in Hperm3.
          destruct (drained next' (p_inseq st) pend' ltac:(lia) Hperm3 (sorted_app_r _ _ ltac:(rewrite <- Eh; exact Hsorth)) Ehead) as [Hp0 Hn0].
          destruct Hterm as [[_ F]|[Tc _]]; [congruence|].
          split; [apply (wf_app_none (n_cout n) outs [DComplete] DComplete); auto|].
          split; [discriminate|]. intros _. right. rewrite Eo, app_assoc, delems_app, <- Houts.
          replace (firstn (Z.to_nat next') xs) with xs by (symmetry; apply firstn_all2; lia).
          apply (complete_frozen (n_cin n) xs Tc eq_refl Hz 1 ltac:(lia)).
        * rewrite !app_nil_r. rewrite Eo, delems_app, <- Houts.
          split; [apply wf_delems|]. split; [|discriminate]. intros _.
          split; [exact Nc|]. split; [exact Hz|]. split; [exact Hin|]. split; [lia|]. split; [reflexivity|].
          split; [exact Hperm3|].
          split. { intros s v0 Hsv. apply Htk. rewrite Et.
                   assert (Hsv' : In (s, v0) (ta ++ tb)) by (rewrite <- Et'; exact Hsv). clear Hsv. rename Hsv' into Hsv.
                   apply in_app_or in Hsv. apply in_or_app.
                   destruct Hsv; [left|right; right]; assumption. }
          split. { intros s r0 Hsr. assert (Hy' : In (s, r0) (heap_insert (seq, r) (p_pending st))) by (rewrite Eh; apply in_or_app; right; exact Hsr).
                   apply insert_in in Hy'. destruct Hy' as [Hy'|Hy']; [inversion Hy'; subst; exact Hrv|apply Hpd; exact Hy']. }
          split; [apply (sorted_app_r pp); rewrite <- Eh; exact Hsorth|]. split; [exact Ehead|].
          destruct Hterm as [[_ F]|[Tc _]]; [congruence|]. right. split; [exact Tc|]. split; [reflexivity|discriminate].
      + rewrite !app_nil_r. rewrite Eo, delems_app, <- Houts.
        split; [apply wf_delems|]. split; [|discriminate]. intros _.
        split; [exact Nc|]. split; [exact Hz|]. split; [exact Hin|]. split; [lia|]. split; [reflexivity|].
        split; [exact Hperm3|].
        split. { intros s v0 Hsv. apply Htk. rewrite Et.
                   assert (Hsv' : In (s, v0) (ta ++ tb)) by (rewrite <- Et'; exact Hsv). clear Hsv. rename Hsv' into Hsv.
                   apply in_app_or in Hsv. apply in_or_app.
                 destruct Hsv; [left|right; right]; assumption. }
        split. { intros s r0 Hsr. assert (Hy' : In (s, r0) (heap_insert (seq, r) (p_pending st))) by (rewrite Eh; apply in_or_app; right; exact Hsr).
                 apply insert_in in Hy'. destruct Hy' as [Hy'|Hy']; [inversion Hy'; subst; exact Hrv|apply Hpd; exact Hy']. }
        split; [apply (sorted_app_r pp); rewrite <- Eh; exact Hsorth|]. split; [exact Ehead|].
        destruct Hterm as [[Tc _]|[_ [F _]]]; [|congruence]. left. auto.
  Qed.
End ParOrdered.
