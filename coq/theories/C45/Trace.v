(* C45 — traces of downstream messages, prefix order, and the approximation relation between what
   has crossed a link so far and the list semantics of the stream on that link. *)
From Coq Require Import ZArith List Bool Lia.
From GV Require Import C45.Model.
Import ListNotations.
Open Scope Z_scope.

(* ---------- prefix ---------- *)
Definition prefix {A} (a b : list A) : Prop := exists c, b = a ++ c.

Lemma prefix_refl {A} (a : list A) : prefix a a.
Proof. exists []. now rewrite app_nil_r. Qed.
Lemma prefix_nil {A} (a : list A) : prefix [] a.
Proof. now exists a. Qed.
Lemma prefix_trans {A} (a b c : list A) : prefix a b -> prefix b c -> prefix a c.
Proof. intros [x ->] [y ->]. exists (x ++ y). now rewrite app_assoc. Qed.
Lemma prefix_app {A} (a b : list A) : prefix a (a ++ b).
Proof. now exists b. Qed.
Lemma prefix_app_l {A} (a b c : list A) : prefix b c -> prefix (a ++ b) (a ++ c).
Proof. intros [x ->]. exists x. now rewrite app_assoc. Qed.
Lemma prefix_firstn {A} n (a : list A) : prefix (firstn n a) a.
Proof. exists (skipn n a). now rewrite firstn_skipn. Qed.
Lemma prefix_app_inv {A} (a b c : list A) : prefix (a ++ b) c -> prefix a c.
Proof. intros [x ->]. exists (b ++ x). now rewrite app_assoc. Qed.
Lemma prefix_length_eq {A} (a b : list A) : prefix a b -> length a = length b -> a = b.
Proof.
  intros [c ->] H. rewrite app_length in H. destruct c; [now rewrite app_nil_r|simpl in H; lia].
Qed.

(* ---------- traces ---------- *)
Definition is_elem (m : dmsg) : bool := match m with DElem _ => true | _ => false end.

(* the elements before the first terminal message *)
Fixpoint elems_of (t : list dmsg) : list val :=
  match t with DElem v :: r => v :: elems_of r | _ => [] end.
(* the first terminal message *)
Fixpoint term_of (t : list dmsg) : option dmsg :=
  match t with [] => None | DElem _ :: r => term_of r | m :: _ => Some m end.
(* after the first terminal message only copies of it follow *)
Fixpoint wf_trace (t : list dmsg) : Prop :=
  match t with [] => True | DElem _ :: r => wf_trace r | m :: r => Forall (eq m) r end.

Definition delems (l : list val) : list dmsg := map DElem l.

Lemma elems_of_delems l : elems_of (delems l) = l.
Proof. induction l; simpl; congruence. Qed.
Lemma term_of_delems l : term_of (delems l) = None.
Proof. induction l; simpl; auto. Qed.
Lemma wf_delems l : wf_trace (delems l).
Proof. induction l; simpl; auto. Qed.

Lemma elems_of_app_delems l t : elems_of (delems l ++ t) = l ++ elems_of t.
Proof. induction l; simpl; congruence. Qed.
Lemma term_of_app_delems l t : term_of (delems l ++ t) = term_of t.
Proof. induction l; simpl; auto. Qed.
Lemma wf_app_delems l t : wf_trace (delems l ++ t) <-> wf_trace t.
Proof. induction l; simpl; tauto. Qed.

(* every trace splits into its elements and the rest, which starts with a terminal or is empty *)
Lemma trace_split t : exists r, t = delems (elems_of t) ++ r /\ term_of r = term_of t /\
                                 (match r with DElem _ :: _ => False | _ => True end).
Proof.
  induction t as [|m t IH]; [exists []; simpl; auto|].
  destruct m; simpl.
  - destruct IH as [r [E [T H]]]. exists r. rewrite <- E. auto.
  - exists (DComplete :: t). auto.
  - exists (DError e :: t). auto.
Qed.

Lemma term_none_delems t : term_of t = None -> t = delems (elems_of t).
Proof.
  induction t as [|m t IH]; simpl; auto. destruct m; try discriminate.
  intros H. simpl. f_equal. auto.
Qed.

Lemma elems_of_snoc_none t m : term_of t = None ->
  elems_of (t ++ [m]) = elems_of t ++ (match m with DElem v => [v] | _ => [] end) /\
  term_of (t ++ [m]) = (match m with DElem _ => None | _ => Some m end).
Proof.
  intros H. pose proof (term_none_delems t H) as E. remember (elems_of t) as l eqn:Hl. clear Hl H. subst t.
  rewrite elems_of_app_delems, term_of_app_delems, ?elems_of_delems. destruct m; simpl; auto.
Qed.

Lemma elems_of_snoc_some t m x : term_of t = Some x ->
  elems_of (t ++ [m]) = elems_of t /\ term_of (t ++ [m]) = Some x.
Proof.
  induction t as [|y t IH]; simpl; [discriminate|]. destruct y; simpl; auto.
  intros H. destruct (IH H) as [E T]. rewrite E. auto.
Qed.

Lemma wf_snoc_some t m x : wf_trace t -> term_of t = Some x -> wf_trace (t ++ [m]) -> m = x.
Proof.
  induction t as [|y t IH]; simpl; [discriminate|]. destruct y; simpl; auto.
  - intros _ H W. injection H as <-. apply Forall_app in W. destruct W as [_ W]. inversion W; auto.
  - intros _ H W. injection H as <-. apply Forall_app in W. destruct W as [_ W]. inversion W; auto.
Qed.

Lemma wf_prefix a b : wf_trace (a ++ b) -> wf_trace a.
Proof.
  induction a as [|m a IH]; simpl; auto. destruct m; auto.
  - intros H. apply Forall_app in H. tauto.
  - intros H. apply Forall_app in H. tauto.
Qed.

(* appending to a trace without terminal: elements then copies of one terminal *)
Lemma wf_app_none t l ts m : term_of t = None -> Forall (eq m) ts -> is_elem m = false ->
  wf_trace (t ++ delems l ++ ts).
Proof.
  intros H F E. rewrite (term_none_delems t H). rewrite app_assoc. unfold delems. rewrite <- map_app.
  apply (wf_app_delems (elems_of t ++ l)). destruct ts as [|x ts]; simpl; auto. inversion F; subst. destruct x; simpl in E; try discriminate; auto.
Qed.

Lemma term_elems_app_none t l ts : term_of t = None ->
  elems_of (t ++ delems l ++ ts) = elems_of t ++ l ++ elems_of ts /\ term_of (t ++ delems l ++ ts) = term_of ts.
Proof.
  intros H. pose proof (term_none_delems t H) as E. remember (elems_of t) as l0 eqn:Hl. clear Hl H. subst t.
  rewrite !elems_of_app_delems, !term_of_app_delems, ?elems_of_delems. auto.
Qed.

Lemma prefix_elems a b : prefix (elems_of a) (elems_of (a ++ b)).
Proof.
  induction a as [|m a IH]; simpl; [apply prefix_nil|]. destruct m; simpl; try apply prefix_nil.
  destruct IH as [c ->]. exists c. reflexivity.
Qed.
Lemma term_app_some a b x : term_of a = Some x -> term_of (a ++ b) = Some x /\ elems_of (a ++ b) = elems_of a.
Proof.
  induction a as [|m a IH]; simpl; [discriminate|]. destruct m; simpl; auto.
  intros H. destruct (IH H) as [T E]. rewrite E. auto.
Qed.

(* ---------- approximation ---------- *)
(* [approx t (xs, E)]: the trace [t] observed so far on a link is consistent with the stream whose list
   semantics is: elements [xs], errors raised by the stages so far [E] *)
Definition approx (t : list dmsg) (S : sstream) : Prop :=
  prefix (elems_of t) (fst S) /\
  (term_of t = Some DComplete -> elems_of t = fst S /\ snd S = []) /\
  (forall e, term_of t = Some (DError e) -> In e (snd S)).

Lemma approx_nil S : approx [] S.
Proof. split; [apply prefix_nil|]. simpl. split; intros; discriminate. Qed.

Lemma approx_prefix a b S : approx (a ++ b) S -> approx a S.
Proof.
  intros [P [C E]]. split; [|split].
  - eapply prefix_trans; [apply prefix_elems|exact P].
  - intros H. destruct (term_app_some a b _ H) as [T El]. rewrite <- El. auto.
  - intros e H. destruct (term_app_some a b _ H) as [T El]. auto.
Qed.

Lemma approx_delems l S : prefix l (fst S) -> approx (delems l) S.
Proof.
  intros P. split; [now rewrite elems_of_delems|]. rewrite term_of_delems. split; intros; discriminate.
Qed.
