//go:build verif

package eventstream

// Yield-point hook for the /verif C20 harness: eventstream.go is replaced at build time (go test
// -overlay) by a copy of the CURRENT source in which tools/vinstr has put a verifESPoint call before
// every acquisition of one of the stream's locks. A thread parked there holds no stream lock, so the
// controlled scheduler can interleave other threads between two critical sections of one operation.
// With no hook installed a point is a nil check.

var verifESHook func(fn, kind string)

func verifESPoint(fn, kind string) {
	if h := verifESHook; h != nil {
		h(fn, kind)
	}
}
