//go:build verif

package eventstream

// C20 harness for the event stream (in-package).
//
//   TestVerifC20StreamSeq    sequential op sequences on the real EventsStream; after EVERY op the
//                            observable state (active flags, topic sets, subscriber counts) and the
//                            op's result are recorded; checks/C20.py compares with the Coq model.
//   TestVerifC20StreamSched  multi-threaded programs under a controlled scheduler. internal/queue is
//                            built from the vinstr-instrumented copy of the current source, so a
//                            publisher / drainer can be preempted at every atomic step of the
//                            subscriber's queue (threads hold no stream lock at those points).
//                            Every op is recorded with the scheduler steps at which it started and
//                            ended; the property's oracle is evaluated by the check.
//   TestVerifC20StreamStress real goroutines, logical timestamps from one atomic counter.

import (
	"fmt"
	"runtime"
	"sort"
	"sync"
	"sync/atomic"
	"testing"
	"time"

	"github.com/tochemey/goakt/v4/internal/queue"
)

// op encodings (first element):
// 0 add | 1 sub s t | 2 unsub s t | 3 pub t e | 4 bcast e t1 t2.. | 5 remove s | 6 shutdown s | 7 iter s | 8 close | 9 count t
type c20SCase struct {
	ID       int       `json:"id"`
	NSubs    int       `json:"nsubs"`  // subscribers created before the threads start (sched mode)
	NTopics  int       `json:"ntopics"`
	Init     [][]int   `json:"init"`   // ops applied sequentially before the threads start (sched mode)
	Ops      [][]int   `json:"ops"`    // sequential mode
	Progs    [][][]int `json:"progs"`  // sched mode
	Post     [][]int   `json:"post"`   // ops applied sequentially after all threads finished (sched mode)
	Sched    []int     `json:"sched"`
	Seed     uint64    `json:"seed"`
	Sticky   int       `json:"sticky"`
	MaxSteps int       `json:"maxsteps"`
}

type c20SObs struct {
	Result [][]int `json:"result"` // iter: [[topic, event]...]; count: [[n]]
	Active []bool  `json:"active"`
	Topics [][]int `json:"topics"` // per subscriber, sorted
	Counts []int   `json:"counts"` // per topic
}

type c20SOut struct {
	ID  int       `json:"id"`
	Obs []c20SObs `json:"obs"`
	Panic string  `json:"panic"`
}

func c20Topic(t int) string { return fmt.Sprintf("t%d", t) }

func c20TopicNo(s string) int {
	var n int
	if _, err := fmt.Sscanf(s, "t%d", &n); err != nil {
		return -1
	}
	return n
}

type c20World struct {
	st   Stream
	subs []Subscriber
}

func c20Drain(s Subscriber) [][]int {
	out := [][]int{}
	for m := range s.Iterator() {
		e, ok := m.Payload().(int)
		if !ok {
			e = -2
		}
		out = append(out, []int{c20TopicNo(m.Topic()), e})
	}
	return out
}

// apply executes one op; subscriber handles that do not exist yet make the op a no-op.
func (w *c20World) apply(op []int) [][]int {
	sub := func(i int) Subscriber {
		if i < 0 || i >= len(w.subs) {
			return nil
		}
		return w.subs[i]
	}
	switch op[0] {
	case 0:
		w.subs = append(w.subs, w.st.AddSubscriber())
	case 1:
		if s := sub(op[1]); s != nil {
			w.st.Subscribe(s, c20Topic(op[2]))
		}
	case 2:
		if s := sub(op[1]); s != nil {
			w.st.Unsubscribe(s, c20Topic(op[2]))
		}
	case 3:
		w.st.Publish(c20Topic(op[1]), op[2])
	case 4:
		ts := []string{}
		for _, t := range op[2:] {
			ts = append(ts, c20Topic(t))
		}
		w.st.Broadcast(op[1], ts)
	case 5:
		if s := sub(op[1]); s != nil {
			w.st.RemoveSubscriber(s)
		}
	case 6:
		if s := sub(op[1]); s != nil {
			s.Shutdown()
		}
	case 7:
		if s := sub(op[1]); s != nil {
			return c20Drain(s)
		}
	case 8:
		w.st.Close()
	case 9:
		return [][]int{{w.st.SubscribersCount(c20Topic(op[1]))}}
	}
	return [][]int{}
}

func (w *c20World) observe(ntopics int) c20SObs {
	o := c20SObs{Active: []bool{}, Topics: [][]int{}, Counts: []int{}}
	for _, s := range w.subs {
		o.Active = append(o.Active, s.Active())
		ts := []int{}
		for _, t := range s.Topics() {
			ts = append(ts, c20TopicNo(t))
		}
		sort.Ints(ts)
		o.Topics = append(o.Topics, ts)
	}
	for t := 0; t < ntopics; t++ {
		o.Counts = append(o.Counts, w.st.SubscribersCount(c20Topic(t)))
	}
	return o
}

func TestVerifC20StreamSeq(t *testing.T) {
	cases := verifReadJSONL[c20SCase](t, "c20_s_in.jsonl")
	wr := newVerifWriter(t, "c20_s_out.jsonl")
	defer wr.close()
	for _, c := range cases {
		out := c20SOut{ID: c.ID, Obs: []c20SObs{}}
		func() {
			defer func() {
				if r := recover(); r != nil {
					out.Panic = fmt.Sprint(r)
				}
			}()
			w := &c20World{st: New()}
			for _, op := range c.Ops {
				res := w.apply(op)
				o := w.observe(c.NTopics)
				o.Result = res
				out.Obs = append(out.Obs, o)
			}
		}()
		wr.put(out)
	}
}

// ---------------------------------------------------------------- controlled scheduler

type c20Park struct {
	fn, kind string
	done     bool
}

type c20Thread struct {
	id     int
	resume chan struct{}
	parked chan c20Park
	at     c20Park
	done   bool
	locks  []string
}

type c20Sched struct {
	cur   *c20Thread
	abort atomic.Bool
}

func (t *c20Thread) park(sc *c20Sched, fn, kind string) {
	t.parked <- c20Park{fn: fn, kind: kind}
	<-t.resume
	if sc.abort.Load() {
		runtime.Goexit()
	}
}

type c20OpRec struct {
	Thread int     `json:"thread"`
	Index  int     `json:"index"`
	Op     []int   `json:"op"`
	Start  int     `json:"start"` // scheduler step at which the op's call step was executed
	End    int     `json:"end"`   // scheduler step during which the op returned
	Result [][]int `json:"result"`
	Panic  string  `json:"panic"`
	Locks  []string `json:"locks"` // lock acquisitions of eventstream.go this op went through ("Func/kind")
}

type c20TOut struct {
	ID       int        `json:"id"`
	Sched    []int      `json:"sched"`
	Kinds    []string   `json:"kinds"`
	Ops      []c20OpRec `json:"ops"`
	Final    [][][]int  `json:"final"`     // per subscriber: everything still buffered at quiescence
	FinalLen []int64    `json:"final_len"` // per subscriber: Length() after the final drain
	Aborted  string     `json:"aborted"`
}

func c20RunSched(c c20SCase) c20TOut {
	out := c20TOut{ID: c.ID, Ops: []c20OpRec{}, Final: [][][]int{}, FinalLen: []int64{}}
	w := &c20World{st: New()}
	for i := 0; i < c.NSubs; i++ {
		w.subs = append(w.subs, w.st.AddSubscriber())
	}
	for _, op := range c.Init {
		w.apply(op)
	}
	sc := &c20Sched{}
	var step atomic.Int64
	ths := make([]*c20Thread, len(c.Progs))
	var recMu sync.Mutex
	for i := range c.Progs {
		t := &c20Thread{id: i, resume: make(chan struct{}), parked: make(chan c20Park, 1)}
		ths[i] = t
		prog := c.Progs[i]
		go func() {
			for k, op := range prog {
				t.park(sc, "harness", "call")
				rec := c20OpRec{Thread: t.id, Index: k, Op: op, Start: int(step.Load())}
				t.locks = []string{}
				func() {
					defer func() {
						if r := recover(); r != nil {
							rec.Panic = fmt.Sprint(r)
						}
					}()
					rec.Result = w.apply(op)
				}()
				rec.End = int(step.Load())
				rec.Locks = t.locks
				recMu.Lock()
				out.Ops = append(out.Ops, rec)
				recMu.Unlock()
			}
			t.parked <- c20Park{done: true}
		}()
	}
	queue.VerifHook = func(fn, kind string) { sc.cur.park(sc, fn, kind) }
	defer func() { queue.VerifHook = nil }()
	verifESHook = func(fn, kind string) {
		t := sc.cur
		t.locks = append(t.locks, fn+"/"+kind)
		t.park(sc, fn, kind)
	}
	defer func() { verifESHook = nil }()
	live := 0
	for _, t := range ths {
		t.at = <-t.parked
		if t.at.done {
			t.done = true
		} else {
			live++
		}
	}
	rng := newVerifRNG(c.Seed)
	last := -1
	for n := 0; live > 0; n++ {
		if n >= c.MaxSteps {
			out.Aborted = "maxsteps"
			break
		}
		pick := -1
		if n < len(c.Sched) && c.Sched[n] >= 0 && c.Sched[n] < len(ths) && !ths[c.Sched[n]].done {
			pick = c.Sched[n]
		} else if last >= 0 && !ths[last].done && rng.intn(100) < c.Sticky {
			pick = last
		} else {
			k := rng.intn(live)
			for i, t := range ths {
				if !t.done {
					if k == 0 {
						pick = i
						break
					}
					k--
				}
			}
		}
		t := ths[pick]
		last = pick
		out.Sched = append(out.Sched, pick)
		out.Kinds = append(out.Kinds, t.at.kind)
		step.Store(int64(n))
		sc.cur = t
		t.resume <- struct{}{}
		select {
		case t.at = <-t.parked:
		case <-time.After(5 * time.Second):
			out.Aborted = "thread did not reach a yield point"
		}
		if out.Aborted != "" {
			break
		}
		if t.at.done {
			t.done = true
			live--
		}
	}
	if out.Aborted != "" {
		sc.abort.Store(true)
		for _, t := range ths {
			if !t.done {
				select {
				case t.resume <- struct{}{}:
				default:
				}
			}
		}
	}
	queue.VerifHook = nil
	verifESHook = nil
	if out.Aborted == "" {
		for k, op := range c.Post {
			rec := c20OpRec{Thread: -1, Index: k, Op: op, Start: 1000000 + 2*k, End: 1000000 + 2*k + 1}
			func() {
				defer func() {
					if r := recover(); r != nil {
						rec.Panic = fmt.Sprint(r)
					}
				}()
				rec.Result = w.apply(op)
			}()
			out.Ops = append(out.Ops, rec)
		}
		for _, s := range w.subs {
			all := [][]int{}
			func() {
				defer func() {
					if r := recover(); r != nil {
						all = append(all, []int{-9, -9})
					}
				}()
				for k := 0; k < 3; k++ {
					all = append(all, c20Drain(s)...)
				}
			}()
			out.Final = append(out.Final, all)
			out.FinalLen = append(out.FinalLen, int64(s.(*subscriber).messages.Length()))
		}
	}
	return out
}

func TestVerifC20StreamSched(t *testing.T) {
	cases := verifReadJSONL[c20SCase](t, "c20_t_in.jsonl")
	wr := newVerifWriter(t, "c20_t_out.jsonl")
	defer wr.close()
	for _, c := range cases {
		wr.put(c20RunSched(c))
	}
}

// ---------------------------------------------------------------- stress with real goroutines

type c20StressEv struct {
	Kind  string  `json:"kind"` // pub | sub | unsub | iter | shutdown
	Who   int     `json:"who"`  // publisher or subscriber
	Topic int     `json:"topic"`
	Ev    int     `json:"ev"`
	T0    int64   `json:"t0"`
	T1    int64   `json:"t1"`
	Got   [][]int `json:"got"`
	Drainer int   `json:"drainer"`
}

type c20StressRound struct {
	Round  int           `json:"round"`
	Events []c20StressEv `json:"events"`
	Final  [][][]int     `json:"final"`
	FinalLen []int64     `json:"final_len"`
	Panic  string        `json:"panic"`
	Hang   bool          `json:"hang"`
}

func TestVerifC20StreamStress(t *testing.T) {
	wr := newVerifWriter(t, "c20_stress.jsonl")
	defer wr.close()
	rounds := verifEnvInt("VERIF_C20_ROUNDS", 20)
	rng := newVerifRNG(verifSeed() + 991)
	for r := 0; r < rounds; r++ {
		np, ns, per := 1+rng.intn(4), 1+rng.intn(3), 100+rng.intn(700)
		churn := rng.intn(3) > 0
		drainers := 1 + rng.intn(2)
		old := runtime.GOMAXPROCS(1 + rng.intn(8))
		st := New()
		subs := make([]Subscriber, ns)
		for i := range subs {
			subs[i] = st.AddSubscriber()
			st.Subscribe(subs[i], c20Topic(0))
		}
		var clock atomic.Int64
		var mu sync.Mutex
		round := c20StressRound{Round: r, Events: []c20StressEv{}, Final: [][][]int{}, FinalLen: []int64{}}
		add := func(e c20StressEv) { mu.Lock(); round.Events = append(round.Events, e); mu.Unlock() }
		var pwg, owg sync.WaitGroup
		var producing atomic.Int32
		producing.Store(int32(np))
		guard := func() {
			if x := recover(); x != nil {
				mu.Lock()
				round.Panic = fmt.Sprint(x)
				mu.Unlock()
			}
		}
		for p := 0; p < np; p++ {
			pwg.Add(1)
			go func(p int) {
				defer pwg.Done()
				defer producing.Add(-1)
				defer guard()
				for i := 0; i < per; i++ {
					ev := p*1000000 + i
					t0 := clock.Add(1)
					st.Publish(c20Topic(0), ev)
					add(c20StressEv{Kind: "pub", Who: p, Ev: ev, T0: t0, T1: clock.Add(1)})
					if i%13 == p {
						runtime.Gosched()
					}
				}
			}(p)
		}
		for s := 0; s < ns; s++ {
			for d := 0; d < drainers; d++ {
				owg.Add(1)
				go func(s, d int) {
					defer owg.Done()
					defer guard()
					for {
						fin := producing.Load() == 0
						t0 := clock.Add(1)
						got := c20Drain(subs[s])
						if len(got) > 0 {
							add(c20StressEv{Kind: "iter", Who: s, Drainer: d, T0: t0, T1: clock.Add(1), Got: got})
						}
						if fin {
							return
						}
						runtime.Gosched()
					}
				}(s, d)
			}
			if churn && s == 0 {
				owg.Add(1)
				go func(s int) {
					defer owg.Done()
					defer guard()
					for producing.Load() != 0 {
						t0 := clock.Add(1)
						st.Unsubscribe(subs[s], c20Topic(0))
						add(c20StressEv{Kind: "unsub", Who: s, T0: t0, T1: clock.Add(1)})
						runtime.Gosched()
						t0 = clock.Add(1)
						st.Subscribe(subs[s], c20Topic(0))
						add(c20StressEv{Kind: "sub", Who: s, T0: t0, T1: clock.Add(1)})
						runtime.Gosched()
					}
				}(s)
			}
		}
		fin := make(chan struct{})
		go func() { pwg.Wait(); owg.Wait(); close(fin) }()
		select {
		case <-fin:
		case <-time.After(time.Duration(verifEnvInt("VERIF_C20_HANG_MS", 8000)) * time.Millisecond):
			mu.Lock()
			wr.put(c20StressRound{Round: r, Hang: true, Events: []c20StressEv{}, Final: [][][]int{}, FinalLen: []int64{}})
			mu.Unlock()
			runtime.GOMAXPROCS(old)
			return
		}
		for _, s := range subs {
			all := [][]int{}
			func() {
				defer guard()
				for k := 0; k < 3; k++ {
					all = append(all, c20Drain(s)...)
				}
			}()
			round.Final = append(round.Final, all)
			round.FinalLen = append(round.FinalLen, int64(s.(*subscriber).messages.Length()))
		}
		runtime.GOMAXPROCS(old)
		wr.put(round)
	}
}

// ---------------------------------------------------------------- hand-over with real goroutines

type c20Handover struct {
	Rounds   int   `json:"rounds"`
	Lost     int   `json:"lost"`      // the newcomer did not receive the event published after both calls returned
	Stray    int   `json:"stray"`     // the leaver received it
	BadCount int   `json:"bad_count"` // SubscribersCount != 1 after the hand-over
	Dup      int   `json:"dup"`
	FirstBad int   `json:"first_bad"`
}

// TestVerifC20StreamHandover: the only subscriber of a topic unsubscribes while a newcomer
// subscribes, concurrently; after both calls returned one event is published: the newcomer must
// receive exactly it, the leaver nothing, and the topic must have exactly one subscriber.
func TestVerifC20StreamHandover(t *testing.T) {
	wr := newVerifWriter(t, "c20_handover.jsonl")
	defer wr.close()
	rounds := verifEnvInt("VERIF_C20_HANDOVER", 3000)
	res := c20Handover{Rounds: rounds, FirstBad: -1}
	old := runtime.GOMAXPROCS(4)
	defer runtime.GOMAXPROCS(old)
	for r := 0; r < rounds; r++ {
		st := New()
		a, b := st.AddSubscriber(), st.AddSubscriber()
		topic := c20Topic(r % 3)
		st.Subscribe(a, topic)
		var wg sync.WaitGroup
		start := make(chan struct{})
		wg.Add(2)
		go func() { defer wg.Done(); <-start; st.Unsubscribe(a, topic) }()
		go func() { defer wg.Done(); <-start; st.Subscribe(b, topic) }()
		if r%2 == 0 {
			runtime.Gosched()
		}
		close(start)
		wg.Wait()
		st.Publish(topic, r)
		gb, ga := c20Drain(b), c20Drain(a)
		bad := false
		if len(gb) == 0 {
			res.Lost++
			bad = true
		} else if len(gb) > 1 {
			res.Dup++
			bad = true
		}
		if len(ga) != 0 {
			res.Stray++
			bad = true
		}
		if st.SubscribersCount(topic) != 1 {
			res.BadCount++
			bad = true
		}
		if bad && res.FirstBad < 0 {
			res.FirstBad = r
		}
	}
	wr.put(res)
}
