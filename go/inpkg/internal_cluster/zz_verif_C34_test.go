//go:build verif

package cluster

import (
	"encoding/json"
	"fmt"
	"sort"
	"testing"

	"github.com/tochemey/olric/events"

	"github.com/tochemey/goakt/v4/discovery"
	"github.com/tochemey/goakt/v4/log"
)

// One notification: [code, node, epoch, reason, t]
//
//	code 0=node-join 1=node-left 2=rebalance-start 3=rebalance-complete 4=the 30s safety-net timer firing
//	     for node (emitOverdueNodeLeft) 5=a payload the handler must ignore or reject (kind by epoch)
//	node 1..63 -> peers address 127.0.0.1:(4000+node); the local node is c34Self
//	reason 0="node-left" 1="node-join" 2=something else
type c34Case struct {
	ID   int       `json:"id"`
	Self int       `json:"self"`
	Evs  [][]int64 `json:"evs"`
}

type c34Emit struct {
	Type string `json:"type"` // "joined" | "left" | other
	Node int    `json:"node"`
	Ms   int64  `json:"ms"`
}

type c34Step struct {
	Obs  [6]int64  `json:"obs"` // Model.observe
	Out  []c34Emit `json:"out"`
	Err  bool      `json:"err"`
	JF   []int     `json:"jf"`
	LF   []int     `json:"lf"`
	JT   []int     `json:"jt"`
	LT   []int     `json:"lt"`
	LE   [][2]int  `json:"le"`
	JE   [][2]int  `json:"je"`
	LL   uint64    `json:"ll"`
	JL   uint64    `json:"jl"`
	CS   []uint64  `json:"cs"`
	Skip bool      `json:"skip"` // code 5: not an event of the model; the state must not change
	Bad  string    `json:"bad,omitempty"`
}

type c34Out struct {
	ID    int       `json:"id"`
	Steps []c34Step `json:"steps"`
	Panic string    `json:"panic,omitempty"`
}

func c34Addr(n int) string { return fmt.Sprintf("127.0.0.1:%d", 4000+n) }

func c34Node(addr string) int {
	var p int
	if _, err := fmt.Sscanf(addr, "127.0.0.1:%d", &p); err != nil {
		return -1
	}
	return p - 4000
}

const c34M61 = 2305843009213693951

func c34Observe(x *cluster, out []c34Emit) (st c34Step) {
	x.eventsLock.Lock()
	defer x.eventsLock.Unlock()
	var jf, lf, jt, lt, je, le, ss, cs int64
	for _, a := range x.nodeJoinedEventsFilter.ToSlice() {
		n := int64(c34Node(a))
		jf += n*n*31 + 7
		st.JF = append(st.JF, int(n))
	}
	for _, a := range x.nodeLeftEventsFilter.ToSlice() {
		n := int64(c34Node(a))
		lf += n*n*31 + 7
		st.LF = append(st.LF, int(n))
	}
	for a, t := range x.nodeJoinTimestamps {
		n := int64(c34Node(a))
		jt += (n*1009 + 1) * (t%1000003 + 11)
		st.JT = append(st.JT, int(n))
	}
	for a, t := range x.nodeLeftTimestamps {
		n := int64(c34Node(a))
		lt += (n*1009 + 1) * (t%1000003 + 11)
		st.LT = append(st.LT, int(n))
	}
	for a, e := range x.rebalanceJoinNodeEpochs {
		n := int64(c34Node(a))
		je += (n*1013 + 1) * (int64(e) + 13)
		st.JE = append(st.JE, [2]int{int(n), int(e)})
	}
	for a, e := range x.rebalanceLeftNodeEpochs {
		n := int64(c34Node(a))
		le += (n*1013 + 1) * (int64(e) + 13)
		st.LE = append(st.LE, [2]int{int(n), int(e)})
	}
	for e := range x.rebalanceStartSeen {
		ss += (int64(e) + 3) * (int64(e) + 5)
	}
	for e := range x.rebalanceCompleteSeen {
		cs += (int64(e) + 3) * (int64(e) + 5)
		st.CS = append(st.CS, e)
	}
	sort.Ints(st.JF)
	sort.Ints(st.LF)
	sort.Ints(st.JT)
	sort.Ints(st.LT)
	sort.Slice(st.CS, func(i, j int) bool { return st.CS[i] < st.CS[j] })
	st.LL, st.JL = x.rebalanceLeftLatestEpoch, x.rebalanceJoinLatestEpoch
	var od int64
	for _, o := range out {
		switch o.Type {
		case "joined":
			od += (int64(o.Node)*2 + 1) * (o.Ms + 17)
		case "left":
			od += (int64(o.Node)*2 + 2) * (o.Ms + 19)
		default:
			od += 999983
		}
	}
	st.Obs = [6]int64{(jf + 1000003*lf) & c34M61, (jt + 7*lt) & c34M61, (je + 7*le) & c34M61,
		int64(x.rebalanceJoinLatestEpoch) + 65536*int64(x.rebalanceLeftLatestEpoch), (ss + 1000003*cs) & c34M61,
		int64(len(out)) + 16*(od&1152921504606846975)}
	st.Out = out
	return st
}

func c34Drain(x *cluster) []c34Emit {
	out := []c34Emit{}
	for {
		select {
		case e := <-x.events:
			switch p := e.Payload.(type) {
			case *NodeJoinedEvent:
				if e.Type != NodeJoined {
					out = append(out, c34Emit{Type: "joined-with-wrong-type", Node: c34Node(p.Address)})
				} else {
					out = append(out, c34Emit{Type: "joined", Node: c34Node(p.Address), Ms: p.Timestamp.UnixMilli()})
				}
			case *NodeLeftEvent:
				if e.Type != NodeLeft {
					out = append(out, c34Emit{Type: "left-with-wrong-type", Node: c34Node(p.Address)})
				} else {
					out = append(out, c34Emit{Type: "left", Node: c34Node(p.Address), Ms: p.Timestamp.UnixMilli()})
				}
			default:
				out = append(out, c34Emit{Type: fmt.Sprintf("other-%v", e.Type)})
			}
		default:
			return out
		}
	}
}

func c34RunCase(c c34Case) (out c34Out) {
	out.ID = c.ID
	x := New("verif", nil, &discovery.Node{Host: "127.0.0.1", PeersPort: 4000 + c.Self}, WithLogger(log.DiscardLogger)).(*cluster)
	defer func() {
		if r := recover(); r != nil {
			out.Panic = fmt.Sprint(r)
		}
	}()
	reasons := []string{rebalanceReasonNodeLeft, rebalanceReasonNodeJoin, "manual"}
	for _, e := range c.Evs {
		code, node, epoch, reason, t := e[0], int(e[1]), uint64(e[2]), int(e[3]), e[4]
		var payload []byte
		var err error
		switch code {
		case 0:
			payload, _ = json.Marshal(events.NodeJoinEvent{Kind: events.KindNodeJoinEvent, Source: "src", NodeJoin: c34Addr(node), Timestamp: t})
		case 1:
			payload, _ = json.Marshal(events.NodeLeftEvent{Kind: events.KindNodeLeftEvent, Source: "src", NodeLeft: c34Addr(node), Timestamp: t})
		case 2:
			payload, _ = json.Marshal(events.RebalanceStartEvent{Kind: events.KindRebalanceStartEvent, Source: "src", Epoch: epoch, Reason: reasons[reason], Node: c34Addr(node), Timestamp: t})
		case 3:
			payload, _ = json.Marshal(events.RebalanceCompleteEvent{Kind: events.KindRebalanceCompleteEvent, Source: "src", Epoch: epoch, Timestamp: t})
		case 5:
			payload = []byte([]string{`{"kind":"fragment-migration-event","epoch":3}`, `not-json`, `{"kind":42}`, `{"kind":"node-left-event","node_left":17}`,
				`{"kind":"rebalance-start-event","epoch":"x"}`, `{}`}[epoch%6])
		}
		before := c34Observe(x, nil)
		if code == 4 {
			x.emitOverdueNodeLeft(c34Addr(node))
		} else {
			err = x.handleClusterEvent(string(payload))
		}
		st := c34Observe(x, c34Drain(x))
		st.Err = err != nil
		if code == 5 {
			st.Skip = true
			b := before.Obs
			b[5] = st.Obs[5]
			if b != st.Obs || len(st.Out) != 0 {
				st.Bad = "an ignored/invalid payload changed the tracker or emitted events"
			}
		} else if err != nil {
			st.Bad = "handleClusterEvent rejected a well-formed payload: " + err.Error()
		}
		out.Steps = append(out.Steps, st)
	}
	return out
}

// TestVerifC34History feeds the real handler the JSON payloads olric publishes and reads the tracker's
// fields and the emitted channel after every notification.
func TestVerifC34History(t *testing.T) {
	cases := verifReadJSONL[c34Case](t, "c34_in.jsonl")
	w := newVerifWriter(t, "c34_out.jsonl")
	defer w.close()
	for _, c := range cases {
		w.put(c34RunCase(c))
	}
}
