//go:build verif

package cluster

// C30 harness (cluster side): the REAL grain-record operations of internal/cluster/cluster.go
// (PutGrain, the package-level PutGrainIfAbsent -> (*cluster).putGrainIfAbsent -> NX put, RemoveGrain) over a DMap
// that honours the NX option (inspected by reflection: olric's PutConfig lives in an internal package), driven by
// generated op sequences; results and the store contents after every op are compared with
// coq/theories/C30/Registry.v by checks/C30.py. (GetGrain/GrainExists need an olric.GetResponse, which cannot be
// built outside olric: they are exercised only through the actor-side fake.)

import (
	"context"
	"errors"
	"reflect"
	"sort"
	"strings"
	"sync"
	"testing"
	"time"

	"github.com/tochemey/olric"
	"go.uber.org/atomic"

	"github.com/tochemey/goakt/v4/internal/internalpb"
)

type c30Op struct {
	Op string `json:"op"` // put | pia | remove | tick (time passes: one hour on the DMap's clock, no registry call)
	K  int    `json:"k"`
	V  int    `json:"v"`
}

type c30Case struct {
	ID  string  `json:"id"`
	Ops []c30Op `json:"ops"`
}

type c30Out struct {
	ID    string    `json:"id"`
	Res   []int     `json:"res"`   // 0 ok, 1 already exists, 2 other error
	Store [][][2]int `json:"store"` // after every op: sorted (key, owner port)
	NX    []bool    `json:"nx"`    // whether the put carried the NX option
	TTL   []bool    `json:"ttl"`   // whether the put carried any expiry option (EX/PX/EXAT/PXAT)
}

// c30Opts applies the put options to olric's (internal) PutConfig by reflection: (NX?, any expiry?)
func c30Opts(options []olric.PutOption) (bool, bool) {
	if len(options) == 0 {
		return false, false
	}
	cfg := reflect.New(reflect.TypeOf(options[0]).In(0).Elem())
	for _, o := range options {
		reflect.ValueOf(o).Call([]reflect.Value{cfg})
	}
	v := cfg.Elem()
	ttl := false
	for _, f := range []string{"HasEX", "HasPX", "HasEXAT", "HasPXAT"} {
		if fv := v.FieldByName(f); fv.IsValid() && fv.Bool() {
			ttl = true
		}
	}
	return v.FieldByName("HasNX").Bool(), ttl
}

func TestVerifC30RegistryOps(t *testing.T) {
	cases := verifReadJSONL[c30Case](t, "c30_reg_cases.jsonl")
	w := newVerifWriter(t, "c30_reg_out.jsonl")
	defer w.close()
	ctx := context.Background()
	for _, cs := range cases {
		var mu sync.Mutex
		store := map[string][]byte{}
		expires := map[string]bool{} // records written with an expiry vanish at the next tick (every TTL is far below one hour)
		lastNX, lastTTL := false, false
		dm := &MockDMap{
			putFn: func(_ context.Context, key string, value any, options ...olric.PutOption) error {
				mu.Lock()
				defer mu.Unlock()
				lastNX, lastTTL = c30Opts(options)
				if _, ok := store[key]; ok && lastNX {
					return olric.ErrKeyFound
				}
				b, _ := value.([]byte)
				store[key] = append([]byte(nil), b...)
				expires[key] = lastTTL
				return nil
			},
			deleteFn: func(_ context.Context, keys ...string) (int, error) {
				mu.Lock()
				defer mu.Unlock()
				n := 0
				for _, k := range keys {
					if _, ok := store[k]; ok {
						delete(store, k)
						n++
					}
				}
				return n, nil
			},
		}
		cl := &cluster{dmap: dm, running: atomic.NewBool(true), writeTimeout: time.Second, readTimeout: time.Second}
		out := c30Out{ID: cs.ID}
		for _, op := range cs.Ops {
			id := "kind/g" + itoa30(op.K)
			grain := &internalpb.Grain{GrainId: &internalpb.GrainId{Kind: "kind", Name: "g" + itoa30(op.K), Value: id}, Host: "h", Port: int32(op.V)}
			var err error
			lastNX, lastTTL = false, false
			switch op.Op {
			case "tick":
				mu.Lock()
				for k, e := range expires {
					if e {
						delete(store, k)
						delete(expires, k)
					}
				}
				mu.Unlock()
			case "put":
				err = cl.PutGrain(ctx, grain)
			case "pia":
				err = PutGrainIfAbsent(ctx, cl, grain) // the package-level entry point the actor system calls
			case "remove":
				err = cl.RemoveGrain(ctx, id)
			}
			switch {
			case err == nil:
				out.Res = append(out.Res, 0)
			case errors.Is(err, ErrGrainAlreadyExists):
				out.Res = append(out.Res, 1)
			default:
				out.Res = append(out.Res, 2)
			}
			out.NX = append(out.NX, lastNX)
			out.TTL = append(out.TTL, lastTTL)
			var snap [][2]int
			mu.Lock()
			for key, b := range store {
				g, derr := decodeGrain(b)
				if derr != nil || !strings.HasPrefix(key, string(namespaceGrains)) {
					snap = append(snap, [2]int{-1, -1})
					continue
				}
				k := 0
				for _, c := range g.GetGrainId().GetName()[1:] {
					k = k*10 + int(c-'0')
				}
				snap = append(snap, [2]int{k, int(g.GetPort())})
			}
			mu.Unlock()
			sort.Slice(snap, func(i, j int) bool { return snap[i][0] < snap[j][0] })
			if snap == nil {
				snap = [][2]int{}
			}
			out.Store = append(out.Store, snap)
		}
		w.put(out)
	}
}

func itoa30(i int) string {
	if i == 0 {
		return "0"
	}
	s := ""
	for i > 0 {
		s = string(rune('0'+i%10)) + s
		i /= 10
	}
	return s
}
