//go:build verif

package cluster

// C19 harness (cluster side): the real cluster.ClaimScheduleFire over a DMap that implements
// put-if-absent with expiry (the options are inspected by reflection: olric's PutConfig lives in an
// internal package), raced by many callers.

import (
	"context"
	"errors"
	"fmt"
	"reflect"
	"strings"
	"sync"
	"testing"
	"time"

	"github.com/tochemey/olric"
	"go.uber.org/atomic"
)

type c19DMap struct {
	mu      sync.Mutex
	entries map[string]time.Time
	puts    []c19Put
}
type c19Put struct {
	Key   string
	NX    bool
	HasEX bool
	EXNs  int64
}

func c19Inspect(options []olric.PutOption) (nx, hasEX bool, ex time.Duration) {
	if len(options) == 0 {
		return
	}
	cfgT := reflect.TypeOf(options[0]).In(0).Elem()
	cfg := reflect.New(cfgT)
	for _, o := range options {
		reflect.ValueOf(o).Call([]reflect.Value{cfg})
	}
	v := cfg.Elem()
	nx = v.FieldByName("HasNX").Bool()
	hasEX = v.FieldByName("HasEX").Bool()
	ex = time.Duration(v.FieldByName("EX").Int())
	return
}

func (d *c19DMap) put(_ context.Context, key string, _ any, options ...olric.PutOption) error {
	nx, hasEX, ex := c19Inspect(options)
	d.mu.Lock()
	defer d.mu.Unlock()
	d.puts = append(d.puts, c19Put{Key: key, NX: nx, HasEX: hasEX, EXNs: int64(ex)})
	if exp, ok := d.entries[key]; ok && (exp.IsZero() || time.Now().Before(exp)) {
		if nx {
			return olric.ErrKeyFound
		}
	}
	if hasEX {
		d.entries[key] = time.Now().Add(ex)
	} else {
		d.entries[key] = time.Time{}
	}
	return nil
}

type c19RaceOut struct {
	Round    int
	Callers  int
	Won      int
	Claimed  int
	Other    int
	Puts     []c19Put
	ClaimKey string
	TTLNs    int64
}

func TestVerifC19ClusterClaim(t *testing.T) {
	out := newVerifWriter(t, "c19_cluster_out.jsonl")
	defer out.close()
	rounds := verifEnvInt("VERIF_C19_ROUNDS", 40)
	for round := 0; round < rounds; round++ {
		n := 2 + round%9
		d := &c19DMap{entries: map[string]time.Time{}}
		cl := &cluster{running: atomic.NewBool(true), writeTimeout: time.Second, dmap: &MockDMap{putFn: d.put}}
		key := fmt.Sprintf("ref%d@%d", round, 1000+round)
		ttl := time.Duration(1+round%3) * time.Minute
		res := c19RaceOut{Round: round, Callers: n, ClaimKey: key, TTLNs: int64(ttl)}
		var wg sync.WaitGroup
		var mu sync.Mutex
		start := make(chan struct{})
		for i := 0; i < n; i++ {
			wg.Add(1)
			go func() {
				defer wg.Done()
				<-start
				err := cl.ClaimScheduleFire(context.Background(), key, ttl)
				mu.Lock()
				switch {
				case err == nil:
					res.Won++
				case errors.Is(err, ErrScheduleFireClaimed):
					res.Claimed++
				default:
					res.Other++
				}
				mu.Unlock()
			}()
		}
		close(start)
		wg.Wait()
		// a different tick of the same reference is independent
		if err := cl.ClaimScheduleFire(context.Background(), key+"9", ttl); err == nil {
			res.Won += 100
		}
		res.Puts = d.puts
		for i := range res.Puts {
			if !strings.Contains(res.Puts[i].Key, key) {
				res.Other += 1000
			}
		}
		out.put(res)
	}
}
