//go:build verif

package client

import (
	"fmt"
	"math"
	"sync/atomic"
	"time"
	"reflect"
	"strconv"
	"sync"
	"testing"
	"unsafe"
)

// c22Cursor gives access to the round-robin cursor field whatever unsigned/signed integer type it has.
type c22Cursor struct {
	v    reflect.Value
	bits int
}

func c22CursorOf(b *RoundRobin) *c22Cursor {
	f := reflect.ValueOf(b).Elem().FieldByName("next")
	if !f.IsValid() {
		return nil
	}
	switch f.Kind() {
	case reflect.Uint32, reflect.Uint64, reflect.Uint, reflect.Int32, reflect.Int64, reflect.Int:
	default:
		return nil
	}
	return &c22Cursor{v: reflect.NewAt(f.Type(), unsafe.Pointer(f.UnsafeAddr())).Elem(), bits: f.Type().Bits()}
}

// set stores max+off (off <= 0, relative to the largest value of the field's type) or abs (off > 0 unused).
func (c *c22Cursor) set(abs uint64, fromMax bool) {
	if c.v.CanUint() {
		if fromMax {
			abs = (uint64(1)<<uint(c.bits-1))*2 - 1 - abs
		}
		c.v.SetUint(abs)
		return
	}
	if fromMax {
		abs = uint64(1)<<uint(c.bits-1) - 1 - abs
	}
	c.v.SetInt(int64(abs))
}
func (c *c22Cursor) get() uint64 {
	if c.v.CanUint() {
		return c.v.Uint()
	}
	return uint64(c.v.Int())
}

// Harness for C22: drives the real RoundRobin / LeastLoad / Random balancers with the op sequences
// written by checks/C22.py and records, after every op, the returned node and the observable state
// (round-robin cursor field, least-load node order).

type c22Op struct {
	Op    string            // set | next | preset
	Nodes []int             // set: node ids
	V     uint64            // preset: value put into the cursor field (a stale cursor) ...
	FromMax bool            // ... counted down from the largest value of the field's type when set
	W     map[string]string // next (least load): weight per node id ("nan", "inf", "-inf", "-0" or a decimal)
}

type c22Case struct {
	Kind  string // rr | ll | rnd | rrconc | flip
	Balancer string // flip: rr | ll | rnd
	Large, Small, Readers, Millis int // flip: pool sizes, reader goroutines, duration
	Ops   []c22Op
	Nodes []int // rnd / rrconc
	Calls int   // rnd: number of calls; rrconc: calls per goroutine
	G     int   // rrconc: goroutines
}

type c22Step struct {
	Op     string
	Ret    int    // id of the returned node; -1 panic; -3 not a Next
	Cursor uint64 // rr: cursor field after the op
	Order  []int  // ll: node order after the op
	Panic  string `json:",omitempty"`
}

type c22Out struct {
	Kind   string
	Bits   int            `json:",omitempty"` // rr: width of the cursor field (0: no integer field named next)
	Steps  []c22Step      `json:",omitempty"`
	Counts map[string]int `json:",omitempty"` // rnd / rrconc: calls per returned node id ("-1": panic, "-2": nil/unknown)
	// flip: a writer swaps Set(large)/Set(small) while readers call Next
	Calls, Flips, Panics, Foreign int
	FirstPanic, Hung            string `json:",omitempty"`
}

func c22Weight(s string) float64 {
	switch s {
	case "nan":
		return math.NaN()
	case "inf":
		return math.Inf(1)
	case "-inf":
		return math.Inf(-1)
	case "-0":
		return math.Copysign(0, -1)
	}
	f, err := strconv.ParseFloat(s, 64)
	if err != nil {
		panic(err)
	}
	return f
}

type c22Pool struct {
	byID  map[int]*Node
	idOf  map[*Node]int
	nodes []*Node
}

func newC22Pool() *c22Pool { return &c22Pool{byID: map[int]*Node{}, idOf: map[*Node]int{}} }
func (p *c22Pool) get(id int) *Node {
	if n, ok := p.byID[id]; ok {
		return n
	}
	n := &Node{address: fmt.Sprintf("10.0.0.%d:%d", id%250+1, 3000+id)}
	p.byID[id] = n
	p.idOf[n] = id
	return n
}
func (p *c22Pool) list(ids []int) []*Node {
	out := make([]*Node, 0, len(ids))
	for _, id := range ids {
		out = append(out, p.get(id))
	}
	return out
}
func (p *c22Pool) id(n *Node) int {
	if n == nil {
		return -2
	}
	if id, ok := p.idOf[n]; ok {
		return id
	}
	return -2
}

func c22Next(b Balancer) (n *Node, pmsg string) {
	defer func() {
		if r := recover(); r != nil {
			pmsg = fmt.Sprint(r)
			// the balancers lock with defer Unlock, so the mutex is released again
		}
	}()
	return b.Next(), ""
}

func TestVerifC22Balancers(t *testing.T) {
	cases := verifReadJSONL[c22Case](t, "c22_in.jsonl")
	w := newVerifWriter(t, "c22_out.jsonl")
	defer w.close()
	for _, c := range cases {
		out := c22Out{Kind: c.Kind}
		pool := newC22Pool()
		switch c.Kind {
		case "rr":
			b := NewRoundRobin()
			cur := c22CursorOf(b)
			if cur != nil {
				out.Bits = cur.bits
			}
			for _, op := range c.Ops {
				st := c22Step{Op: op.Op, Ret: -3}
				switch op.Op {
				case "set":
					b.Set(pool.list(op.Nodes)...)
				case "preset":
					if cur != nil {
						b.locker.Lock()
						cur.set(op.V, op.FromMax)
						b.locker.Unlock()
					}
				case "next":
					n, p := c22Next(b)
					if p != "" {
						st.Ret, st.Panic = -1, p
					} else {
						st.Ret = pool.id(n)
					}
				}
				if !b.locker.TryLock() {
					st.Panic += " [mutex left locked]"
					out.Steps = append(out.Steps, st)
					break
				}
				if cur != nil {
					st.Cursor = cur.get()
				}
				b.locker.Unlock()
				out.Steps = append(out.Steps, st)
			}
		case "ll":
			b := NewLeastLoad()
			for _, op := range c.Ops {
				st := c22Step{Op: op.Op, Ret: -3}
				switch op.Op {
				case "set":
					b.Set(pool.list(op.Nodes)...)
				case "next":
					for ids, ws := range op.W {
						id, _ := strconv.Atoi(ids)
						pool.get(id).SetWeight(c22Weight(ws))
					}
					n, p := c22Next(b)
					if p != "" {
						st.Ret, st.Panic = -1, p
					} else {
						st.Ret = pool.id(n)
					}
				}
				if !b.locker.TryLock() {
					st.Panic += " [mutex left locked]"
					out.Steps = append(out.Steps, st)
					break
				}
				for _, n := range b.nodes {
					st.Order = append(st.Order, pool.id(n))
				}
				b.locker.Unlock()
				out.Steps = append(out.Steps, st)
			}
		case "rnd":
			b := NewRandom()
			b.Set(pool.list(c.Nodes)...)
			out.Counts = map[string]int{}
			for i := 0; i < c.Calls; i++ {
				n, p := c22Next(b)
				if p != "" {
					out.Counts["-1"]++
					continue
				}
				out.Counts[strconv.Itoa(pool.id(n))]++
			}
		case "rrconc":
			// real goroutines: the cursor is guarded by the balancer's mutex, so G*Calls calls
			// (a multiple of the node count) must hit every node equally often
			b := NewRoundRobin()
			b.Set(pool.list(c.Nodes)...)
			var mu sync.Mutex
			out.Counts = map[string]int{}
			var wg sync.WaitGroup
			start := make(chan struct{})
			for g := 0; g < c.G; g++ {
				wg.Add(1)
				go func() {
					defer wg.Done()
					local := map[string]int{}
					<-start
					for i := 0; i < c.Calls; i++ {
						n, p := c22Next(b)
						if p != "" {
							local["-1"]++
							continue
						}
						local[strconv.Itoa(pool.id(n))]++
					}
					mu.Lock()
					for k, v := range local {
						out.Counts[k] += v
					}
					mu.Unlock()
				}()
			}
			close(start)
			wg.Wait()
		case "flip":
			c22Flip(&c, &out)
		}
		w.put(out)
	}
}


// c22Flip: real goroutines.  One writer keeps replacing the pool (large, small, large, ...) while the
// readers call Next; every Next must return a node of one of the two pools and must not panic.
func c22Flip(c *c22Case, out *c22Out) {
	var b Balancer
	switch c.Balancer {
	case "rr":
		b = NewRoundRobin()
	case "ll":
		b = NewLeastLoad()
	default:
		b = NewRandom()
	}
	large := make([]*Node, c.Large)
	known := map[*Node]bool{}
	for i := range large {
		large[i] = &Node{address: fmt.Sprintf("10.1.%d.%d:3322", i/250, i%250+1), weight: float64(i % 5)}
		known[large[i]] = true
	}
	small := make([]*Node, c.Small)
	for i := range small {
		small[i] = &Node{address: fmt.Sprintf("10.2.0.%d:3322", i+1), weight: 1}
		known[small[i]] = true
	}
	b.Set(append([]*Node(nil), large...)...)
	var stop atomic.Bool
	var calls, flips, panics, foreign atomic.Int64
	var first atomic.Pointer[string]
	var wg sync.WaitGroup
	wg.Add(1)
	go func() {
		defer wg.Done()
		defer func() {
			if r := recover(); r != nil {
				msg := fmt.Sprintf("Set panicked: %v", r)
				first.CompareAndSwap(nil, &msg)
				panics.Add(1)
			}
		}()
		for !stop.Load() {
			b.Set(append([]*Node(nil), small...)...)
			b.Set(append([]*Node(nil), large...)...)
			flips.Add(2)
		}
	}()
	for r := 0; r < c.Readers; r++ {
		wg.Add(1)
		go func() {
			defer wg.Done()
			for !stop.Load() {
				n, p := c22Next(b)
				calls.Add(1)
				if p != "" {
					msg := fmt.Sprintf("Next panicked after %d calls and %d pool replacements: %s", calls.Load(), flips.Load(), p)
					first.CompareAndSwap(nil, &msg)
					panics.Add(1)
					stop.Store(true)
					return
				}
				if !known[n] {
					foreign.Add(1)
					stop.Store(true)
					return
				}
			}
		}()
	}
	done := make(chan struct{})
	go func() { wg.Wait(); close(done) }()
	timer := time.NewTimer(time.Duration(c.Millis) * time.Millisecond)
	select {
	case <-timer.C:
	case <-done:
	}
	stop.Store(true)
	select {
	case <-done:
	case <-time.After(10 * time.Second):
		out.Hung = "goroutines still blocked 10 s after the stop flag (mutex left locked?)"
	}
	out.Calls, out.Flips, out.Panics, out.Foreign = int(calls.Load()), int(flips.Load()), int(panics.Load()), int(foreign.Load())
	if p := first.Load(); p != nil {
		out.FirstPanic = *p
	}
}
