//go:build verif

package breaker

import (
	"context"
	"errors"
	"fmt"
	"runtime"
	"sync"
	"sync/atomic"
	"testing"
	"time"
)

// A generated scenario. Intents are [kind, now, pick, outcome]:
//
//	kind 0: start a call (Execute in its own goroutine; the protected function blocks until told to finish)
//	kind 1: Metrics()
//	kind 2: finish the in-flight call number pick%len(inflight) with outcome 0=ok 1=error 2=caller cancelled
//	        3=panic 4=deadline error (3 and 4 count as failures); becomes a start when nothing is in flight
//	kind 3: Execute with an already cancelled context (must not touch the breaker)
type c47Case struct {
	ID          int       `json:"id"`
	Window      int64     `json:"window"`
	Buckets     int       `json:"buckets"`
	MinReq      int       `json:"minreq"`
	OpenTimeout int64     `json:"opentimeout"`
	Cap         int       `json:"cap"`
	RateP       int64     `json:"ratep"`
	RateQ       int64     `json:"rateq"`
	Start       int64     `json:"start"`
	Intents     [][]int64 `json:"intents"`
}

// The concrete event the model consumes (Model.decode_event: code + 8*now) and what was seen after it
// (Model.observe, 7 numbers), plus readable details for the oracle.
type c47Step struct {
	Ev      int64    `json:"ev"`
	Obs     [7]int64 `json:"obs"`
	Kind    string   `json:"kind"`
	Now     int64    `json:"now"`
	Call    int      `json:"call"`
	Allowed bool     `json:"allowed"`
	Tok     bool     `json:"tok"`
	Outcome int      `json:"outcome"`
	Pre     int      `json:"pre"`   // State() before the event
	State   int      `json:"state"` // State() after the event
	Succ    int64    `json:"succ"`
	Fail    int64    `json:"fail"`
}

type c47Out struct {
	ID    int       `json:"id"`
	Steps []c47Step `json:"steps"`
	Err   string    `json:"err,omitempty"`
}

type c47Call struct {
	id      int
	entered chan struct{}
	finish  chan int
	done    chan struct{}
	cancel  context.CancelFunc
	tok     bool
}

var errC47Boom = errors.New("boom")

func c47Observe(b *CircuitBreaker, out int64) [7]int64 {
	bw := b.buckets
	bw.mu.Lock()
	var dig int64
	for i := range bw.buf {
		dig += int64(i+1) * (int64(bw.buf[i].succ)*7919 + int64(bw.buf[i].fail)*104729 + bw.buf[i].start)
	}
	cur, lu := bw.cursor, bw.lastUpdate
	bw.mu.Unlock()
	return [7]int64{int64(b.state.Load()) + 4*int64(len(b.semCh)) + 1024*int64(cur), b.openUntil.Load(), lu,
		dig & 2305843009213693951, b.lastFailure.Load(), b.lastSuccess.Load(), out}
}

func c47RunCase(c c47Case) (out c47Out) {
	out.ID = c.ID
	var clock atomic.Int64
	clock.Store(c.Start)
	b := NewCircuitBreaker(
		WithFailureRate(float64(c.RateP)/float64(c.RateQ)),
		WithMinRequests(c.MinReq),
		WithOpenTimeout(time.Duration(c.OpenTimeout)),
		WithWindow(time.Duration(c.Window), c.Buckets),
		WithHalfOpenMaxCalls(c.Cap),
		WithClock(func() time.Time { return time.Unix(0, clock.Load()) }),
	)
	var inflight []*c47Call
	nextID := 0
	defer func() {
		// let every blocked call finish so no goroutine leaks
		for _, cl := range inflight {
			cl.finish <- 0
			<-cl.done
		}
	}()
	timeout := func(what string) { out.Err = "harness timeout: " + what }
	for _, in := range c.Intents {
		kind, now, pick, outcome := in[0], in[1], in[2], int(in[3])
		clock.Store(now)
		if kind == 2 && len(inflight) == 0 {
			kind = 0
		}
		st := c47Step{Now: now, Pre: int(b.State()), Call: -1}
		switch kind {
		case 0:
			semBefore := len(b.semCh)
			cl := &c47Call{id: nextID, entered: make(chan struct{}), finish: make(chan int, 1), done: make(chan struct{})}
			nextID++
			ctx, cancel := context.WithCancel(context.Background())
			cl.cancel = cancel
			go func() {
				defer close(cl.done)
				_, _ = b.Execute(ctx, func(ctx context.Context) (any, error) {
					close(cl.entered)
					switch <-cl.finish {
					case 0:
						return 1, nil
					case 1:
						return nil, errC47Boom
					case 2:
						cancel()
						return nil, ctx.Err()
					case 3:
						panic("boom")
					default:
						return nil, context.DeadlineExceeded
					}
				})
			}()
			select {
			case <-cl.entered:
				st.Allowed = true
			case <-cl.done:
				cancel()
			case <-time.After(20 * time.Second):
				timeout("start")
				return out
			}
			cl.tok = len(b.semCh) == semBefore+1
			st.Kind, st.Call, st.Tok = "start", cl.id, cl.tok
			if st.Allowed {
				inflight = append(inflight, cl)
			}
			code := int64(1)
			if st.Allowed {
				code += 2
			}
			if cl.tok {
				code += 4
			}
			st.Ev = 0 + 8*now
			st.Obs = c47Observe(b, code)
		case 1:
			m := b.Metrics()
			st.Kind, st.Succ, st.Fail = "metrics", int64(m.Successes), int64(m.Failures)
			if m.Total != m.Successes+m.Failures {
				out.Err = "Metrics.Total != Successes+Failures"
			}
			st.Ev = 1 + 8*now
			st.Obs = c47Observe(b, 8+16*(st.Succ+4096*st.Fail))
		case 2:
			i := int(pick) % len(inflight)
			cl := inflight[i]
			inflight = append(inflight[:i], inflight[i+1:]...)
			cl.finish <- outcome
			select {
			case <-cl.done:
			case <-time.After(20 * time.Second):
				timeout("finish")
				return out
			}
			cl.cancel()
			mo := outcome
			if mo > 2 {
				mo = 1
			}
			tok := int64(0)
			if cl.tok {
				tok = 1
			}
			st.Kind, st.Call, st.Outcome, st.Tok = "done", cl.id, outcome, cl.tok
			st.Ev = 2 + 2*int64(mo) + tok + 8*now
			st.Obs = c47Observe(b, 0)
		case 3:
			before := c47Observe(b, 0)
			ctx, cancel := context.WithCancel(context.Background())
			cancel()
			ran := false
			_, err := b.Execute(ctx, func(context.Context) (any, error) { ran = true; return nil, nil })
			if ran || err == nil || c47Observe(b, 0) != before {
				out.Err = fmt.Sprintf("Execute with a cancelled context ran=%v err=%v or touched the breaker", ran, err)
			}
			continue
		}
		st.State = int(b.State())
		out.Steps = append(out.Steps, st)
		if out.Err != "" {
			return out
		}
	}
	return out
}

// TestVerifC47History drives the real breaker through Execute with the options clock scripted.
func TestVerifC47History(t *testing.T) {
	cases := verifReadJSONL[c47Case](t, "c47_in.jsonl")
	w := newVerifWriter(t, "c47_out.jsonl")
	defer w.close()
	for _, c := range cases {
		w.put(c47RunCase(c))
	}
}

type c47Burst struct {
	Round, Cap, Callers, MaxConcurrent, Admitted int
	Phase                                         string
}

// TestVerifC47Burst: real goroutines. The breaker is opened, the clock moved past the open timeout, then
// many callers hit Execute at once; the protected function counts how many run at the same time.
// Oracle: never more than halfOpenMaxCalls probes run concurrently (for any number of callers), also
// across a second burst arriving while the first probes are still running.
func TestVerifC47Burst(t *testing.T) {
	_ = verifOutDir(t)
	w := newVerifWriter(t, "c47_burst.jsonl")
	defer w.close()
	rounds := verifEnvInt("VERIF_C47_ROUNDS", 60)
	rng := newVerifRNG(verifSeed())
	for r := 0; r < rounds; r++ {
		cp := 1 + rng.intn(4)
		callers := cp + 1 + rng.intn(24)
		procs := []int{1, 2, 4, 8, 16}[rng.intn(5)]
		old := runtime.GOMAXPROCS(procs)
		var clock atomic.Int64
		clock.Store(1000)
		b := NewCircuitBreaker(WithFailureRate(0.5), WithMinRequests(2), WithOpenTimeout(100), WithWindow(1000, 4),
			WithHalfOpenMaxCalls(cp), WithClock(func() time.Time { return time.Unix(0, clock.Load()) }))
		for i := 0; i < 2; i++ {
			_, _ = b.Execute(context.Background(), func(context.Context) (any, error) { return nil, errC47Boom })
		}
		if b.State() != Open {
			t.Fatalf("VERIF-C47-BURST setup: breaker not open after two failures (state %v)", b.State())
		}
		clock.Store(1000 + 100)
		var running, maxRunning, admitted atomic.Int64
		release := make(chan struct{})
		burst := func(n int) *sync.WaitGroup {
			var wg sync.WaitGroup
			startGate := make(chan struct{})
			for i := 0; i < n; i++ {
				wg.Add(1)
				go func(i int) {
					defer wg.Done()
					<-startGate
					if i%3 == 0 {
						runtime.Gosched()
					}
					_, _ = b.Execute(context.Background(), func(context.Context) (any, error) {
						admitted.Add(1)
						n := running.Add(1)
						for {
							m := maxRunning.Load()
							if n <= m || maxRunning.CompareAndSwap(m, n) {
								break
							}
						}
						<-release
						running.Add(-1)
						return nil, errC47Boom // failing probes keep the breaker from closing
					})
				}(i)
			}
			close(startGate)
			return &wg
		}
		wg1 := burst(callers)
		// wait until the admitted probes are inside the function (or everyone was turned away)
		deadline := time.Now().Add(5 * time.Second)
		for running.Load() < int64(cp) && time.Now().Before(deadline) {
			runtime.Gosched()
		}
		wg2 := burst(callers) // second wave while the first probes still hold their tokens
		time.Sleep(time.Millisecond)
		close(release)
		wg1.Wait()
		wg2.Wait()
		w.put(c47Burst{Round: r, Cap: cp, Callers: 2 * callers, MaxConcurrent: int(maxRunning.Load()), Admitted: int(admitted.Load()), Phase: "open-timeout-passed"})

		// churn: the breaker is brought back to half-open and kept there (every probe is cancelled by its
		// caller, which records nothing), while many goroutines take and return tokens thousands of times, so
		// the boundary len(semCh) == cap-1 is crossed again and again by competing callers.
		if b.State() == Open {
			clock.Store(clock.Load() + 1000)
		}
		runtime.GOMAXPROCS(procs)
		var running2, max2, admitted2 atomic.Int64
		var wg sync.WaitGroup
		workers := 8 + rng.intn(9)
		iters := verifEnvInt("VERIF_C47_CHURN", 150)
		for g := 0; g < workers; g++ {
			wg.Add(1)
			go func(g int) {
				defer wg.Done()
				for i := 0; i < iters; i++ {
					ctx, cancel := context.WithCancel(context.Background())
					_, _ = b.Execute(ctx, func(ctx context.Context) (any, error) {
						admitted2.Add(1)
						n := running2.Add(1)
						for {
							m := max2.Load()
							if n <= m || max2.CompareAndSwap(m, n) {
								break
							}
						}
						if (i+g)%2 == 0 {
							runtime.Gosched()
						}
						running2.Add(-1)
						cancel()
						return nil, ctx.Err()
					})
					cancel()
				}
			}(g)
		}
		wg.Wait()
		runtime.GOMAXPROCS(old)
		if b.State() == HalfOpen { // (a wrong transition here is the history harness's business)
			w.put(c47Burst{Round: r, Cap: cp, Callers: workers, MaxConcurrent: int(max2.Load()), Admitted: int(admitted2.Load()), Phase: "half-open-churn"})
		}
	}
}
