//go:build verif

package breaker

import (
	"context"
	"errors"
	"fmt"
	"runtime"
	"sync"
	"sync/atomic"
	"testing"
	"time"
)

// A generated scenario. Intents are [kind, now, pick, outcome]:
//
//	kind 0: start a call (Execute in its own goroutine; the protected function blocks until told to finish)
//	kind 1: Metrics()
//	kind 2: finish the in-flight call number pick%len(inflight) with outcome 0=ok 1=error 2=caller cancelled
//	        3=panic 4=deadline error (3 and 4 count as failures); becomes a start when nothing is in flight
//	kind 3: Execute with an already cancelled context (must not touch the breaker)
type c47Case struct {
	ID          int       `json:"id"`
	Window      int64     `json:"window"`
	Buckets     int       `json:"buckets"`
	MinReq      int       `json:"minreq"`
	OpenTimeout int64     `json:"opentimeout"`
	Cap         int       `json:"cap"`
	RateP       int64     `json:"ratep"`
	RateQ       int64     `json:"rateq"`
	Start       int64     `json:"start"`
	Intents     [][]int64 `json:"intents"`
}

// The concrete event the model consumes (Model.decode_event: code + 8*now) and what was seen after it
// (Model.observe, 7 numbers), plus readable details for the oracle.
type c47Step struct {
	Ev      int64    `json:"ev"`
	Obs     [7]int64 `json:"obs"`
	Kind    string   `json:"kind"`
	Now     int64    `json:"now"`
	Call    int      `json:"call"`
	Allowed bool     `json:"allowed"`
	Tok     bool     `json:"tok"`
	Outcome int      `json:"outcome"`
	Pre     int      `json:"pre"`   // State() before the event
	State   int      `json:"state"` // State() after the event
	Succ    int64    `json:"succ"`
	Fail    int64    `json:"fail"`
}

type c47Out struct {
	ID    int       `json:"id"`
	Steps []c47Step `json:"steps"`
	Err   string    `json:"err,omitempty"`
}

type c47Call struct {
	id      int
	entered chan struct{}
	finish  chan int
	done    chan struct{}
	cancel  context.CancelFunc
	tok     bool
}

var errC47Boom = errors.New("boom")

func c47Observe(b *CircuitBreaker, out int64) [7]int64 {
	bw := b.buckets
	bw.mu.Lock()
	var dig int64
	for i := range bw.buf {
		dig += int64(i+1) * (int64(bw.buf[i].succ)*7919 + int64(bw.buf[i].fail)*104729 + bw.buf[i].start)
	}
	cur, lu := bw.cursor, bw.lastUpdate
	bw.mu.Unlock()
	return [7]int64{int64(b.state.Load()) + 4*int64(len(b.semCh)) + 1024*int64(cur), b.openUntil.Load(), lu,
		dig & 2305843009213693951, b.lastFailure.Load(), b.lastSuccess.Load(), out}
}

func c47RunCase(c c47Case) (out c47Out) {
	out.ID = c.ID
	var clock atomic.Int64
	clock.Store(c.Start)
	b := NewCircuitBreaker(
		WithFailureRate(float64(c.RateP)/float64(c.RateQ)),
		WithMinRequests(c.MinReq),
		WithOpenTimeout(time.Duration(c.OpenTimeout)),
		WithWindow(time.Duration(c.Window), c.Buckets),
		WithHalfOpenMaxCalls(c.Cap),
		WithClock(func() time.Time { return time.Unix(0, clock.Load()) }),
	)
	var inflight []*c47Call
	nextID := 0
	defer func() {
		// let every blocked call finish so no goroutine leaks
		for _, cl := range inflight {
			cl.finish <- 0
			<-cl.done
		}
	}()
	timeout := func(what string) { out.Err = "harness timeout: " + what }
	for _, in := range c.Intents {
		kind, now, pick, outcome := in[0], in[1], in[2], int(in[3])
		clock.Store(now)
		if kind == 2 && len(inflight) == 0 {
			kind = 0
		}
		st := c47Step{Now: now, Pre: int(b.State()), Call: -1}
		switch kind {
		case 0:
			semBefore := len(b.semCh)
			cl := &c47Call{id: nextID, entered: make(chan struct{}), finish: make(chan int, 1), done: make(chan struct{})}
			nextID++
			ctx, cancel := context.WithCancel(context.Background())
			cl.cancel = cancel
			go func() {
				defer close(cl.done)
				_, _ = b.Execute(ctx, func(ctx context.Context) (any, error) {
					close(cl.entered)
					switch <-cl.finish {
					case 0:
						return 1, nil
					case 1:
						return nil, errC47Boom
					case 2:
						cancel()
						return nil, ctx.Err()
					case 3:
						panic("boom")
					default:
						return nil, context.DeadlineExceeded
					}
				})
			}()
			select {
			case <-cl.entered:
				st.Allowed = true
			case <-cl.done:
				cancel()
			case <-time.After(20 * time.Second):
				timeout("start")
				return out
			}
			cl.tok = len(b.semCh) == semBefore+1
			st.Kind, st.Call, st.Tok = "start", cl.id, cl.tok
			if st.Allowed {
				inflight = append(inflight, cl)
			}
			code := int64(1)
			if st.Allowed {
				code += 2
			}
			if cl.tok {
				code += 4
			}
			st.Ev = 0 + 8*now
			st.Obs = c47Observe(b, code)
		case 1:
			m := b.Metrics()
			st.Kind, st.Succ, st.Fail = "metrics", int64(m.Successes), int64(m.Failures)
			if m.Total != m.Successes+m.Failures {
				out.Err = "Metrics.Total != Successes+Failures"
			}
			st.Ev = 1 + 8*now
			st.Obs = c47Observe(b, 8+16*(st.Succ+4096*st.Fail))
		case 2:
			i := int(pick) % len(inflight)
			cl := inflight[i]
			inflight = append(inflight[:i], inflight[i+1:]...)
			cl.finish <- outcome
			select {
			case <-cl.done:
			case <-time.After(20 * time.Second):
				timeout("finish")
				return out
			}
			cl.cancel()
			mo := outcome
			if mo > 2 {
				mo = 1
			}
			tok := int64(0)
			if cl.tok {
				tok = 1
			}
			st.Kind, st.Call, st.Outcome, st.Tok = "done", cl.id, outcome, cl.tok
			st.Ev = 2 + 2*int64(mo) + tok + 8*now
			st.Obs = c47Observe(b, 0)
		case 3:
			before := c47Observe(b, 0)
			ctx, cancel := context.WithCancel(context.Background())
			cancel()
			ran := false
			_, err := b.Execute(ctx, func(context.Context) (any, error) { ran = true; return nil, nil })
			if ran || err == nil || c47Observe(b, 0) != before {
				out.Err = fmt.Sprintf("Execute with a cancelled context ran=%v err=%v or touched the breaker", ran, err)
			}
			continue
		}
		st.State = int(b.State())
		out.Steps = append(out.Steps, st)
		if out.Err != "" {
			return out
		}
	}
	return out
}

// TestVerifC47History drives the real breaker through Execute with the options clock scripted.
func TestVerifC47History(t *testing.T) {
	cases := verifReadJSONL[c47Case](t, "c47_in.jsonl")
	w := newVerifWriter(t, "c47_out.jsonl")
	defer w.close()
	for _, c := range cases {
		w.put(c47RunCase(c))
	}
}

type c47Burst struct {
	Round, Cap, Callers, MaxConcurrent, Admitted int
	Phase                                         string
}

// TestVerifC47Burst: real goroutines. The breaker is opened, the clock moved past the open timeout, then
// many callers hit Execute at once; the protected function counts how many run at the same time.
// Oracle: never more than halfOpenMaxCalls probes run concurrently (for any number of callers), also
// across a second burst arriving while the first probes are still running.
func TestVerifC47Burst(t *testing.T) {
	_ = verifOutDir(t)
	w := newVerifWriter(t, "c47_burst.jsonl")
	defer w.close()
	rounds := verifEnvInt("VERIF_C47_ROUNDS", 60)
	rng := newVerifRNG(verifSeed())
	for r := 0; r < rounds; r++ {
		cp := 1 + rng.intn(4)
		callers := cp + 1 + rng.intn(24)
		procs := []int{1, 2, 4, 8, 16}[rng.intn(5)]
		old := runtime.GOMAXPROCS(procs)
		var clock atomic.Int64
		clock.Store(1000)
		b := NewCircuitBreaker(WithFailureRate(0.5), WithMinRequests(2), WithOpenTimeout(100), WithWindow(1000, 4),
			WithHalfOpenMaxCalls(cp), WithClock(func() time.Time { return time.Unix(0, clock.Load()) }))
		for i := 0; i < 2; i++ {
			_, _ = b.Execute(context.Background(), func(context.Context) (any, error) { return nil, errC47Boom })
		}
		if b.State() != Open {
			t.Fatalf("VERIF-C47-BURST setup: breaker not open after two failures (state %v)", b.State())
		}
		clock.Store(1000 + 100)
		var running, maxRunning, admitted atomic.Int64
		release := make(chan struct{})
		burst := func(n int) *sync.WaitGroup {
			var wg sync.WaitGroup
			startGate := make(chan struct{})
			for i := 0; i < n; i++ {
				wg.Add(1)
				go func(i int) {
					defer wg.Done()
					<-startGate
					if i%3 == 0 {
						runtime.Gosched()
					}
					_, _ = b.Execute(context.Background(), func(context.Context) (any, error) {
						admitted.Add(1)
						n := running.Add(1)
						for {
							m := maxRunning.Load()
							if n <= m || maxRunning.CompareAndSwap(m, n) {
								break
							}
						}
						<-release
						running.Add(-1)
						return nil, errC47Boom // failing probes keep the breaker from closing
					})
				}(i)
			}
			close(startGate)
			return &wg
		}
		wg1 := burst(callers)
		// wait until the admitted probes are inside the function (or everyone was turned away)
		deadline := time.Now().Add(5 * time.Second)
		for running.Load() < int64(cp) && time.Now().Before(deadline) {
			runtime.Gosched()
		}
		wg2 := burst(callers) // second wave while the first probes still hold their tokens
		time.Sleep(time.Millisecond)
		close(release)
		wg1.Wait()
		wg2.Wait()
		w.put(c47Burst{Round: r, Cap: cp, Callers: 2 * callers, MaxConcurrent: int(maxRunning.Load()), Admitted: int(admitted.Load()), Phase: "open-timeout-passed"})

		// churn: the breaker is brought back to half-open and kept there (every probe is cancelled by its
		// caller, which records nothing), while many goroutines take and return tokens thousands of times, so
		// the boundary len(semCh) == cap-1 is crossed again and again by competing callers.
		if b.State() == Open {
			clock.Store(clock.Load() + 1000)
		}
		runtime.GOMAXPROCS(procs)
		var running2, max2, admitted2 atomic.Int64
		var wg sync.WaitGroup
		workers := 8 + rng.intn(9)
		iters := verifEnvInt("VERIF_C47_CHURN", 150)
		for g := 0; g < workers; g++ {
			wg.Add(1)
			go func(g int) {
				defer wg.Done()
				for i := 0; i < iters; i++ {
					ctx, cancel := context.WithCancel(context.Background())
					_, _ = b.Execute(ctx, func(ctx context.Context) (any, error) {
						admitted2.Add(1)
						n := running2.Add(1)
						for {
							m := max2.Load()
							if n <= m || max2.CompareAndSwap(m, n) {
								break
							}
						}
						if (i+g)%2 == 0 {
							runtime.Gosched()
						}
						running2.Add(-1)
						cancel()
						return nil, ctx.Err()
					})
					cancel()
				}
			}(g)
		}
		wg.Wait()
		runtime.GOMAXPROCS(old)
		if b.State() == HalfOpen { // (a wrong transition here is the history harness's business)
			w.put(c47Burst{Round: r, Cap: cp, Callers: workers, MaxConcurrent: int(max2.Load()), Admitted: int(admitted2.Load()), Phase: "half-open-churn"})
		}
	}
}

// ---------------------------------------------------------------------------------------------------
// Publication order: tryAcquire reads state and openUntil without the mutex, so "Open" must not become
// visible before the deadline of that open period is stored.
//
// The options clock is scripted and never advances during a scenario, so the open timeout cannot elapse.
// Every clock() call made by the tripping caller is a pause point (this includes the one transitionTo(Open)
// makes under the mutex): at each pause an observer looks at State(); when it sees Open it calls Execute at
// once. That call must be rejected with ErrOpen, its function must not run and the breaker must still be
// Open afterwards. The observer's call runs in its own goroutine: if it blocks (on the transition mutex
// the paused tripper holds) the tripper is resumed and the call is joined afterwards, so the verdict does
// not depend on timing.
type c47Publish struct {
	Scenario        string
	Pauses          int
	ProbesWhileOpen int
	Admitted        int   // observer calls whose function ran although Open was visible and the timeout had not passed
	NotErrOpen      int   // ... or that returned something else than ErrOpen
	StateAfter      []int // State() after each such call had returned and the tripper had finished
	FinalState      int
	OpenUntil       int64
	Now             int64
	Timeout         int64
}

type c47Pauser struct {
	armed    atomic.Bool
	observer atomic.Bool // the observer's own clock() calls are not pause points
	paused   chan struct{}
	resume   chan struct{}
	now      atomic.Int64
}

func (p *c47Pauser) clock() time.Time {
	if p.armed.Load() && !p.observer.Load() {
		p.paused <- struct{}{}
		<-p.resume
	}
	return time.Unix(0, p.now.Load())
}

// c47PublishRun lets trip() run on its own goroutine with every clock() call of it a pause point.
func c47PublishRun(b *CircuitBreaker, p *c47Pauser, scenario string, timeout int64, trip func()) c47Publish {
	res := c47Publish{Scenario: scenario, Now: p.now.Load(), Timeout: timeout}
	type probe struct {
		ran  atomic.Bool
		err  error
		done chan struct{}
	}
	var probes []*probe
	observe := func() {
		if b.State() != Open {
			return
		}
		res.ProbesWhileOpen++
		pr := &probe{done: make(chan struct{})}
		probes = append(probes, pr)
		go func() {
			defer close(pr.done)
			p.observer.Store(true)
			defer p.observer.Store(false)
			_, pr.err = b.Execute(context.Background(), func(context.Context) (any, error) {
				pr.ran.Store(true)
				return 1, nil
			})
		}()
		select {
		case <-pr.done:
		case <-time.After(150 * time.Millisecond): // blocked behind the paused tripper: let the tripper go on
		}
	}
	tripDone := make(chan struct{})
	p.armed.Store(true)
	go func() { defer close(tripDone); trip() }()
loop:
	for {
		select {
		case <-p.paused:
			res.Pauses++
			observe()
			p.resume <- struct{}{}
		case <-tripDone:
			break loop
		}
	}
	p.armed.Store(false)
	for _, pr := range probes {
		select {
		case <-pr.done:
		case <-time.After(10 * time.Second):
		}
	}
	observe() // and once more after the transition is complete
	for _, pr := range probes {
		select {
		case <-pr.done:
		case <-time.After(10 * time.Second):
			res.NotErrOpen++
			continue
		}
		if pr.ran.Load() {
			res.Admitted++
		}
		if !errors.Is(pr.err, ErrOpen) {
			res.NotErrOpen++
		}
		res.StateAfter = append(res.StateAfter, int(b.State()))
	}
	res.FinalState = int(b.State())
	res.OpenUntil = b.openUntil.Load()
	return res
}

// TestVerifC47PublishOrder: first trip (openUntil still 0) and re-trip from half-open (openUntil still the
// elapsed deadline of the previous open period).
func TestVerifC47PublishOrder(t *testing.T) {
	_ = verifOutDir(t)
	w := newVerifWriter(t, "c47_publish.jsonl")
	defer w.close()
	const timeout = 1000
	for round := 0; round < 2; round++ {
		p := &c47Pauser{paused: make(chan struct{}), resume: make(chan struct{})}
		p.now.Store(5000)
		b := NewCircuitBreaker(WithFailureRate(0.5), WithMinRequests(2), WithOpenTimeout(timeout), WithWindow(4000, 4),
			WithHalfOpenMaxCalls(1+round), WithClock(p.clock))
		fail := func() {
			_, _ = b.Execute(context.Background(), func(context.Context) (any, error) { return nil, errC47Boom })
		}
		fail() // one failure, not yet minRequests
		w.put(c47PublishRun(b, p, "first-trip", timeout, fail))
		if b.State() != Open {
			continue // (a wrong transition is the history harness's business)
		}
		// past the timeout: two failing probes re-open the breaker; the second one is the tripper
		p.now.Store(5000 + timeout + 10)
		fail()
		if b.State() != HalfOpen {
			continue
		}
		w.put(c47PublishRun(b, p, "re-trip-from-half-open", timeout, fail))
	}
}
