//go:build verif

package xsync

import (
	"fmt"
	"sort"
	"sync"
	"testing"
	"time"
)

// One generated history: ops are [code, now, key, value] with
// code 0=Set 1=Get 2=Delete 3=Reset 4=Len 5=ActiveLen; now is the reading of the scripted clock
// during the operation.
type c48Case struct {
	ID  int       `json:"id"`
	TTL int64     `json:"ttl"`
	Ops [][]int64 `json:"ops"`
}

// After every operation: result code (as Model.res_code), sizes and digests of the internal state
// (as Model.observe), and the live view: every key that is mapped to an entry not yet expired at
// the current clock reading, read off the internals without calling Get (Get mutates).
type c48Step struct {
	R    [2]int64   `json:"r"`
	Obs  [5]int64   `json:"o"`
	Live [][2]int64 `json:"l"`
	H    [2]int64   `json:"h"` // Model.step_code of (R, Obs)
}

// c48StepCode mirrors Model.step_code.
func c48StepCode(r [2]int64, o [5]int64) [2]int64 {
	return [2]int64{r[0] + 4*r[1] + 4194304*o[0] + 17179869184*o[1] + 70368744177664*o[2], (o[3] + 3*o[4]) & 2305843009213693951}
}

type c48Out struct {
	ID    int       `json:"id"`
	Steps []c48Step `json:"steps"`
	Panic string    `json:"panic,omitempty"`
	At    int       `json:"at"`
}

func c48Observe(m *TTLMap[int64, int64]) [5]int64 {
	var od int64
	for i, e := range m.order {
		od += int64(i+1) * (e.key*7919 + e.value*104729 + e.expireAt)
	}
	var id int64
	for k, idx := range m.items {
		x := k*1009 + int64(idx) + 1
		id += x * x
	}
	return [5]int64{int64(len(m.items)), int64(len(m.order)), int64(m.head), id, od}
}

func c48Live(m *TTLMap[int64, int64], now int64) [][2]int64 {
	out := [][2]int64{}
	for k, idx := range m.items {
		if idx < 0 || idx >= len(m.order) {
			out = append(out, [2]int64{k, -999999}) // dangling index: reported as a bogus live value
			continue
		}
		e := m.order[idx]
		if now < e.expireAt {
			out = append(out, [2]int64{k, e.value})
		}
	}
	sort.Slice(out, func(i, j int) bool { return out[i][0] < out[j][0] })
	return out
}

func c48RunCase(c c48Case) (out c48Out) {
	out.ID = c.ID
	var clock int64
	m := NewTTLMap[int64, int64](time.Duration(c.TTL))
	m.now = func() int64 { return clock }
	i := 0
	defer func() {
		if r := recover(); r != nil {
			out.Panic = fmt.Sprint(r)
			out.At = i
		}
	}()
	for i = 0; i < len(c.Ops); i++ {
		o := c.Ops[i]
		clock = o[1]
		var st c48Step
		switch o[0] {
		case 0:
			m.Set(o[2], o[3])
		case 1:
			v, ok := m.Get(o[2])
			if ok {
				st.R = [2]int64{2, v}
			} else {
				st.R = [2]int64{1, v} // v must be the zero value
			}
		case 2:
			m.Delete(o[2])
		case 3:
			m.Reset()
		case 4:
			st.R = [2]int64{3, int64(m.Len())}
		case 5:
			st.R = [2]int64{3, int64(m.ActiveLen())}
		}
		st.Obs = c48Observe(m)
		st.Live = c48Live(m, clock)
		st.H = c48StepCode(st.R, st.Obs)
		out.Steps = append(out.Steps, st)
	}
	return out
}

// TestVerifC48History runs the real TTLMap, with its clock field replaced by a scripted clock, on the
// histories chosen by checks/C48.py.
func TestVerifC48History(t *testing.T) {
	cases := verifReadJSONL[c48Case](t, "c48_in.jsonl")
	w := newVerifWriter(t, "c48_out.jsonl")
	defer w.close()
	for _, c := range cases {
		w.put(c48RunCase(c))
	}
}

// TestVerifC48Concurrent: many goroutines on one map with the scripted clock frozen, so nothing
// expires: afterwards every key holds the last value its (single) writer stored, deleted keys are
// absent. Run under -race in the thorough tier.
func TestVerifC48Concurrent(t *testing.T) {
	_ = verifOutDir(t)
	rounds := verifEnvInt("VERIF_C48_ROUNDS", 20)
	for r := 0; r < rounds; r++ {
		m := NewTTLMap[int64, int64](time.Hour)
		var clock int64 = 1000
		m.now = func() int64 { return clock }
		const writers = 8
		const per = 200
		var wg sync.WaitGroup
		for g := 0; g < writers; g++ {
			wg.Add(1)
			go func(g int64) {
				defer wg.Done()
				for i := int64(0); i < per; i++ {
					k := g*1000 + i%17
					m.Set(k, i)
					if i%5 == 4 {
						m.Delete(g*1000 + (i-2)%17)
					}
					m.Get(k)
					m.Len()
				}
			}(int64(g))
		}
		wg.Wait()
		for g := int64(0); g < writers; g++ {
			want := map[int64]int64{}
			for i := int64(0); i < per; i++ {
				want[g*1000+i%17] = i
				if i%5 == 4 {
					delete(want, g*1000+(i-2)%17)
				}
			}
			for j := int64(0); j < 17; j++ {
				k := g*1000 + j
				v, ok := m.Get(k)
				wv, wok := want[k]
				if ok != wok || (ok && v != wv) {
					t.Fatalf("VERIF-C48-CONCURRENT key=%d got=(%d,%v) want=(%d,%v)", k, v, ok, wv, wok)
				}
			}
		}
	}
}
