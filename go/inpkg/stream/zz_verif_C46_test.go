//go:build verif

package stream

// C46 harness: (1) black-box junction graphs through the public stream API on a real ActorSystem,
// (2) actor-step conformance of the junction actors (merge/concat/zip sources, broadcast/balance/
// partition hubs) driven message by message between probes. Uses the probe/wrapper helpers of
// zz_verif_C45_test.go.

import (
	"context"
	"fmt"
	"strconv"
	"strings"
	"sync"
	"sync/atomic"
	"testing"
	"time"

	"github.com/tochemey/goakt/v4/actor"
)

type c46Case struct {
	ID      int       `json:"id"`
	Kind    string    `json:"kind"` // merge concat zip broadcast balance partition
	Sources [][]int64 `json:"sources,omitempty"`
	Input   []int64   `json:"input,omitempty"`
	N       int       `json:"n,omitempty"`
	Mod     int64     `json:"mod,omitempty"`
	// pacing: the consumer stalls StallMs after every StallEvery elements; source i pauses PaceUs[i]
	// microseconds after every PaceEvery[i] elements (0: free running)
	StallEvery int   `json:"stall_every,omitempty"`
	StallMs    int   `json:"stall_ms,omitempty"`
	PaceEvery  []int `json:"pace_every,omitempty"`
	PaceUs     []int `json:"pace_us,omitempty"`
}

type c46Result struct {
	ID        int     `json:"id"`
	Items     []any   `json:"items"`              // fan-in: what the sink collected
	Branches  [][]any `json:"branches,omitempty"` // fan-out: what each branch sink collected
	Done      bool    `json:"done"`
	Err       string  `json:"err,omitempty"`
	Terminals []int64 `json:"terminals"`
	Micros    int64   `json:"us"`
}

func c46Source(xs []int64) Source[any] {
	vals := make([]any, len(xs))
	for i, x := range xs {
		vals[i] = x
	}
	return Of(vals...)
}

func c46RunCase(sys actor.ActorSystem, c c46Case, timeout time.Duration) c46Result {
	res := c46Result{ID: c.ID}
	ctx := context.Background()
	t0 := time.Now()
	var srcs []Source[any]
	fanIn := false
	switch c.Kind {
	case "merge", "concat", "zip":
		fanIn = true
		subs := make([]Source[any], len(c.Sources))
		for i, s := range c.Sources {
			subs[i] = c46Source(s)
			if i < len(c.PaceEvery) && c.PaceEvery[i] > 0 {
				every, pause, cnt := c.PaceEvery[i], time.Duration(c.PaceUs[i])*time.Microsecond, 0
				subs[i] = Via(subs[i], Map(func(v any) any {
					cnt++
					if cnt%every == 0 {
						time.Sleep(pause)
					}
					return v
				}))
			}
		}
		switch c.Kind {
		case "merge":
			srcs = []Source[any]{Merge(subs...)}
		case "concat":
			srcs = []Source[any]{Concat(subs...)}
		default:
			z := Zip(subs...)
			srcs = []Source[any]{Via(z, Map(func(t []any) any { return t }))}
		}
	case "broadcast":
		srcs = Broadcast(c46Source(c.Input), c.N)
	case "balance":
		srcs = Balance(c46Source(c.Input), c.N)
	case "partition":
		srcs = Partition(c46Source(c.Input), c.N, func(v any) int { return int(verifMod(v.(int64), c.Mod)) })
	}
	n := len(srcs)
	cols := make([]*Collector[any], n)
	handles := make([]StreamHandle, n)
	terms := make([]*atomic.Int64, n)
	for i, s := range srcs {
		terms[i] = &atomic.Int64{}
		var comp atomic.Int64
		col, sink := c45CollectStalling(terms[i], &comp, c.StallEvery, time.Duration(c.StallMs)*time.Millisecond)
		cols[i] = col
		h, err := s.To(sink).Run(ctx, sys)
		if err != nil {
			res.Err = "run: " + err.Error()
			return res
		}
		handles[i] = h
	}
	deadline := time.After(timeout)
	res.Done = true
	for _, h := range handles {
		select {
		case <-h.Done():
			if e := h.Err(); e != nil {
				res.Err = e.Error()
			}
		case <-deadline:
			res.Done = false
		}
		if !res.Done {
			break
		}
	}
	res.Micros = time.Since(t0).Microseconds()
	if !res.Done {
		for _, h := range handles {
			h.Abort()
		}
	}
	time.Sleep(200 * time.Microsecond)
	for i, col := range cols {
		col.mu.Lock()
		items := make([]any, 0, len(col.items))
		for _, v := range col.items {
			items = append(items, c45Norm(v))
		}
		col.mu.Unlock()
		if fanIn {
			res.Items = items
		} else {
			res.Branches = append(res.Branches, items)
		}
		res.Terminals = append(res.Terminals, terms[i].Load())
	}
	if res.Items == nil {
		res.Items = []any{}
	}
	return res
}

// TestVerifC46Graphs runs the generated junction graphs of checks/C46.py.
func TestVerifC46Graphs(t *testing.T) {
	cases := verifReadJSONL[c46Case](t, verifEnvStr("C46_IN", "c46_in.jsonl"))
	w := newVerifWriter(t, verifEnvStr("C46_OUT", "c46_out.jsonl"))
	defer w.close()
	timeout := time.Duration(verifEnvInt("VERIF_CASE_TIMEOUT_MS", 10000)) * time.Millisecond
	par := verifEnvInt("VERIF_PAR", 1)
	results := make([]c46Result, len(cases))
	var wg sync.WaitGroup
	slots := make(chan struct{}, par)
	for i := range cases {
		wg.Add(1)
		slots <- struct{}{}
		go func(i int) {
			defer wg.Done()
			defer func() { <-slots }()
			sys := verifSystem(t) // fresh system per graph, see TestVerifC45Pipelines
			results[i] = c46RunCase(sys, cases[i], timeout)
			_ = sys.Stop(context.Background())
		}(i)
	}
	wg.Wait()
	for _, r := range results {
		w.put(r)
	}
}

// ------------------------------------------------------------------------------------------
// actor-step conformance
// ------------------------------------------------------------------------------------------

type c46Msg struct {
	T    string `json:"t"` // req val done cancel | demand elem complete error scancel
	N    int64  `json:"n,omitempty"`
	Slot int    `json:"slot,omitempty"`
	V    int64  `json:"v,omitempty"`
}

type c46StepCase struct {
	ID     int      `json:"id"`
	Kind   string   `json:"kind"`
	N      int      `json:"n"`
	Mod    int64    `json:"mod,omitempty"`
	Script []c46Msg `json:"script"`
}

func c46EncMsg(m any) []int64 {
	slotOf := func(sub string) int64 {
		if strings.HasPrefix(sub, "slot") {
			i, _ := strconv.Atoi(sub[4:])
			return int64(i)
		}
		return -1
	}
	switch x := m.(type) {
	case *streamElement:
		var body []int64
		switch v := x.value.(type) {
		case int64:
			body = []int64{10, v}
		case []any:
			body = []int64{13, int64(len(v))}
			for _, e := range v {
				body = append(body, e.(int64))
			}
		default:
			body = []int64{99}
		}
		if s := slotOf(x.subID); s >= 0 {
			return append([]int64{30, s}, body...)
		}
		return body
	case *streamComplete:
		if s := slotOf(x.subID); s >= 0 {
			return []int64{30, s, 11}
		}
		return []int64{11}
	case *streamError:
		if s := slotOf(x.subID); s >= 0 {
			return []int64{30, s, 12}
		}
		return []int64{12}
	case *streamRequest:
		return []int64{20, x.n}
	case *streamCancel:
		return []int64{21}
	case *hubReady:
		return nil
	}
	return []int64{98}
}

func c46Snap(a actor.Actor) []int64 {
	var st []int64
	var ok bool
	switch a.(type) {
	case *mergeSourceActor[any]:
		st, ok = c45Fields(a, "demand", "buf", "doneCount")
	case *concatSourceActor[any]:
		st, ok = c45Fields(a, "demand", "buf", "current", "done")
		if ok {
			st[2]++ // the model counts spawned sub-pipelines (current+1)
		}
	case *zipNSourceActor[any, any]:
		st, ok = c45Fields(a, "demand", "bufs[]", "done[]")
	case *broadcastHubActor[any], *partitionHubActor[any]:
		var d []int64
		st, ok = c45Fields(a, "pending", "cancelled")
		if ok {
			d, ok = c45Fields(a, "demand[]")
			st = append(append(st, 0), d...)
		}
	case *balanceHubActor[any]:
		var d []int64
		st, ok = c45Fields(a, "pending", "cancelled", "nextSlot")
		if ok {
			d, ok = c45Fields(a, "demand[]")
			st = append(st, d...)
		}
	default:
		return nil
	}
	if !ok {
		return c45NoState
	}
	return st
}

func c46RunSteps(t testing.TB, sys actor.ActorSystem, c c46StepCase) c45StepResult {
	res := c45StepResult{ID: c.ID}
	ctx := context.Background()
	probe := &c45Probe{}
	ppid, err := sys.Spawn(ctx, fmt.Sprintf("c46-probe-%d-%d", c.ID, time.Now().UnixNano()), probe, actor.WithLongLived())
	if err != nil {
		res.Note = "spawn probe: " + err.Error()
		return res
	}
	defer ppid.Shutdown(ctx)
	cfg := defaultStageConfig()
	cfg.System = sys
	slots := make([]*actor.PID, c.N)
	subIDs := make([]string, c.N)
	for i := range slots {
		slots[i] = ppid
		subIDs[i] = fmt.Sprintf("slot%d", i)
	}
	var inner actor.Actor
	fanIn := true
	switch c.Kind {
	case "merge":
		inner = newMergeSourceActor[any](make([][]*stage, c.N), cfg)
	case "concat":
		inner = newConcatSourceActor[any](make([][]*stage, c.N), cfg)
	case "zip":
		inner = newZipNSourceActor[any, any](make([][]*stage, c.N), func(s []any) any {
			out := make([]any, len(s))
			copy(out, s)
			return out
		}, cfg)
	case "broadcast":
		fanIn = false
		inner = &broadcastHubActor[any]{n: c.N, slots: slots, slotSubIDs: subIDs, demand: make([]int64, c.N)}
	case "balance":
		fanIn = false
		inner = &balanceHubActor[any]{n: c.N, slots: slots, slotSubIDs: subIDs, demand: make([]int64, c.N)}
	case "partition":
		fanIn = false
		md := c.Mod
		inner = &partitionHubActor[any]{n: c.N, slots: slots, slotSubIDs: subIDs, demand: make([]int64, c.N),
			partitionFn: func(v any) int { return int(verifMod(v.(int64), md)) }}
	default:
		res.Note = "unknown kind"
		return res
	}
	wrap := &c45StepWrap{inner: inner, stepped: make(chan []int64, 4), snap: c46Snap}
	spid, err := sys.Spawn(ctx, fmt.Sprintf("c46-stage-%d-%d", c.ID, time.Now().UnixNano()), wrap, actor.WithLongLived())
	if err != nil {
		res.Note = "spawn stage: " + err.Error()
		return res
	}
	defer spid.Shutdown(ctx)
	drain := func() []int64 {
		r, err := actor.Ask(ctx, ppid, &c45Drain{}, 20*time.Second)
		if err != nil {
			return []int64{97}
		}
		var out []int64
		for _, m := range r.([]any) {
			out = append(out, c46EncMsg(m)...)
		}
		return out
	}
	send := func(m any) ([]int64, bool) {
		if err := actor.Tell(ctx, spid, m); err != nil {
			return nil, false
		}
		select {
		case st := <-wrap.stepped:
			return st, true
		case <-time.After(20 * time.Second):
			return nil, false
		}
	}
	wire := &stageWire{subID: "hub", downstream: ppid}
	if !fanIn {
		wire = &stageWire{subID: "hub", upstream: ppid}
	}
	st0, ok := send(wire)
	if !ok {
		res.Note = "wire not handled"
		return res
	}
	res.Wire = drain()
	res.Steps = append(res.Steps, c45StepObs{Alive: !wrap.stopped.Load(), State: st0})
	var elemSeq uint64
	for _, m := range c.Script {
		var msg any
		switch m.T {
		case "req":
			msg = &streamRequest{subID: "hub", n: m.N}
		case "val":
			msg = &mergeSubValue{slot: m.Slot, value: m.V}
		case "done":
			msg = &mergeSubDone{slot: m.Slot}
		case "cancel":
			msg = &streamCancel{subID: "hub"}
		case "demand":
			msg = &slotDemand{slot: m.Slot, n: m.N}
		case "elem":
			elemSeq++
			msg = &streamElement{subID: "hub", value: m.V, seqNo: elemSeq}
		case "complete":
			msg = &streamComplete{subID: "hub"}
		case "error":
			msg = &streamError{subID: "hub", err: &verifErr{1}}
		case "scancel":
			msg = &slotCancel{slot: m.Slot}
		}
		if wrap.stopped.Load() {
			res.Steps = append(res.Steps, c45StepObs{Alive: false})
			continue
		}
		st, ok := send(msg)
		if !ok {
			res.Steps = append(res.Steps, c45StepObs{Alive: !wrap.stopped.Load(), State: []int64{-999}})
			continue
		}
		res.Steps = append(res.Steps, c45StepObs{Alive: !wrap.stopped.Load(), State: st, Out: drain()})
	}
	return res
}

// TestVerifC46Steps drives the real junction actors with the scripts of checks/C46.py.
func TestVerifC46Steps(t *testing.T) {
	cases := verifReadJSONL[c46StepCase](t, "c46_steps_in.jsonl")
	sys := verifSystem(t)
	defer sys.Stop(context.Background())
	w := newVerifWriter(t, "c46_steps_out.jsonl")
	defer w.close()
	for _, c := range cases {
		w.put(c46RunSteps(t, sys, c))
	}
}

// ------------------------------------------------------------------------------------------
// the FIFO queue behind the fan-in junction buffers, driven sequentially
// ------------------------------------------------------------------------------------------

type c46QueueCase struct {
	ID  int     `json:"id"`
	Ops []int64 `json:"ops"` // v >= 0: push v; -1: pop (never on an empty queue)
}

type c46QueueResult struct {
	ID  int     `json:"id"`
	Obs []int64 `json:"obs"` // push: len afterwards; pop: value, len afterwards
}

// TestVerifC46Queue runs long push/pop patterns on the real queue type.
func TestVerifC46Queue(t *testing.T) {
	cases := verifReadJSONL[c46QueueCase](t, "c46_queue_in.jsonl")
	w := newVerifWriter(t, "c46_queue_out.jsonl")
	defer w.close()
	for _, c := range cases {
		var q queue
		res := c46QueueResult{ID: c.ID, Obs: make([]int64, 0, 2*len(c.Ops))}
		for _, op := range c.Ops {
			if op >= 0 {
				q.push(op)
				res.Obs = append(res.Obs, int64(q.len()))
				continue
			}
			if q.empty() {
				res.Obs = append(res.Obs, -1, 0)
				continue
			}
			v, _ := q.pop().(int64)
			res.Obs = append(res.Obs, v, int64(q.len()))
		}
		w.put(res)
	}
}
