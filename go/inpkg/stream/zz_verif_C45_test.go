//go:build verif

package stream

// C45 harness: (1) black-box pipelines through the public stream API on a real ActorSystem,
// (2) actor-step conformance: the real stage actors driven message by message between probes.

import (
	"context"
	"errors"
	"fmt"
	"reflect"
	"runtime"
	"strings"
	"sync"
	"sync/atomic"
	"testing"
	"time"

	"github.com/tochemey/goakt/v4/actor"
	"github.com/tochemey/goakt/v4/log"
)

// ------------------------------------------------------------------------------------------
// pipeline description language (mirrors C45/Model.v [op])
// ------------------------------------------------------------------------------------------

type c45Op struct {
	K       string `json:"k"`
	A       int64  `json:"a,omitempty"`
	B       int64  `json:"b,omitempty"`
	M       int64  `json:"m,omitempty"`
	R       int64  `json:"r,omitempty"`
	Code    int64  `json:"code,omitempty"`
	Resume  bool   `json:"resume,omitempty"`
	KK      int64  `json:"kk,omitempty"`
	Z       int64  `json:"z,omitempty"`
	N       int    `json:"n,omitempty"`
	W       int    `json:"w,omitempty"`
	Ordered bool   `json:"ordered,omitempty"`
}

type c45Case struct {
	ID    int     `json:"id"`
	Input []int64 `json:"input"`
	Ops   []c45Op `json:"ops"`
	Fuse  bool    `json:"fuse"`
	// Unbounded: give every stage an unbounded mailbox instead of the default BoundedMailbox(512).
	// (A stage that stops with messages left in a bounded mailbox keeps a dispatcher worker spinning
	// until the ActorSystem stops; that is an actor-runtime matter and makes runs slow.)
	Unbounded bool `json:"unbounded"`
}

type c45Result struct {
	ID        int    `json:"id"`
	Items     []any  `json:"items"`
	Err       *int64 `json:"err"`
	ErrStr    string `json:"errstr,omitempty"`
	Terminals int64  `json:"terminals"`
	Done      bool   `json:"done"`
	Micros    int64  `json:"us"`
}

type verifErr struct{ code int64 }

func (e *verifErr) Error() string { return fmt.Sprintf("verif error %d", e.code) }

func verifMod(x, m int64) int64 { return ((x % m) + m) % m }

func verifSystem(t testing.TB) actor.ActorSystem {
	sys, err := actor.NewActorSystem(fmt.Sprintf("verif-%d", time.Now().UnixNano()), actor.WithLogger(log.DiscardLogger))
	if err != nil {
		t.Fatalf("actor system: %v", err)
	}
	if err := sys.Start(context.Background()); err != nil {
		t.Fatalf("actor system start: %v", err)
	}
	return sys
}

func c45AsFlow[I, O any](f Flow[I, O]) Flow[any, any] { return Flow[any, any]{stage: f.stage} }

func c45Flow(o c45Op) Flow[any, any] {
	switch o.K {
	case "map":
		return Map(func(v any) any { return o.A*v.(int64) + o.B })
	case "trymap":
		f := TryMap(func(v any) (any, error) {
			x := v.(int64)
			if verifMod(x, o.M) == o.R {
				return nil, &verifErr{o.Code}
			}
			return o.A*x + o.B, nil
		})
		if o.Resume {
			f = f.WithErrorStrategy(Resume)
		}
		return f
	case "filter":
		return Filter(func(v any) bool { return verifMod(v.(int64), o.M) != o.R })
	case "flatmap":
		return FlatMap(func(v any) []any {
			x := v.(int64)
			n := verifMod(x, o.KK)
			out := make([]any, 0, n)
			for i := int64(0); i < n; i++ {
				out = append(out, 10*x+i)
			}
			return out
		})
	case "flatten":
		return c45AsFlow(Flatten[any]())
	case "scan":
		return Scan[any, any](o.Z, func(acc any, v any) any { return acc.(int64) + v.(int64) })
	case "dedup":
		return Deduplicate[any]()
	case "batch":
		return c45AsFlow(Batch[any](o.N, time.Hour))
	case "buffer":
		return Buffer[any](o.N, DropTail)
	case "parmap":
		fn := func(v any) any {
			x := v.(int64)
			// perturb completion order a little (no Gosched: with busy dispatcher workers it costs ms)
			spin := 0
			for i := int64(0); i < 200*verifMod(x, 4); i++ {
				spin += int(i)
			}
			if spin < 0 {
				runtime.KeepAlive(spin)
			}
			return o.A*x + o.B
		}
		if o.Ordered {
			return OrderedParallelMap[any, any](o.W, fn)
		}
		return ParallelMap[any, any](o.W, fn)
	case "suml":
		return Map(func(v any) any {
			l := v.([]any)
			var s int64
			for _, e := range l {
				s += e.(int64)
			}
			return 1000*s + int64(len(l))
		})
	}
	panic("unknown op " + o.K)
}

// c45CountingSink wraps the real sinkActor and counts the terminal messages the live sink handles.
type c45CountingSink struct {
	inner     *sinkActor
	terminals *atomic.Int64
}

func (w *c45CountingSink) PreStart(ctx *actor.Context) error { return w.inner.PreStart(ctx) }
func (w *c45CountingSink) PostStop(ctx *actor.Context) error { return w.inner.PostStop(ctx) }
func (w *c45CountingSink) TermErr() error                    { return w.inner.TermErr() }
func (w *c45CountingSink) Receive(rctx *actor.ReceiveContext) {
	switch rctx.Message().(type) {
	case *streamComplete, *streamError:
		w.terminals.Add(1)
	}
	w.inner.Receive(rctx)
}

// c45Collect is Collect[any] with the counting wrapper around the real sink actor.
func c45Collect(terminals *atomic.Int64, completions *atomic.Int64) (*Collector[any], Sink[any]) {
	return c45CollectStalling(terminals, completions, 0, 0)
}

// c45CollectStalling: a consumer that stalls for `pause` after every `every` elements (every = 0: never).
func c45CollectStalling(terminals *atomic.Int64, completions *atomic.Int64, every int, pause time.Duration) (*Collector[any], Sink[any]) {
	result := newCollector[any]()
	seen := 0
	config := defaultStageConfig()
	desc := &stage{
		id:   newStageID(),
		kind: sinkKind,
		actorFn: func(cfg StageConfig) actor.Actor {
			return &c45CountingSink{terminals: terminals, inner: newSinkActor(func(v any) error {
				result.append(v)
				seen++
				if every > 0 && seen%every == 0 {
					time.Sleep(pause)
				}
				return nil
			}, func() { completions.Add(1); result.markDone() }, cfg)}
		},
		config: config,
	}
	return result, Sink[any]{desc: desc}
}

func c45Norm(v any) any {
	switch x := v.(type) {
	case int64:
		return x
	case []any:
		out := make([]any, len(x))
		for i, e := range x {
			out[i] = c45Norm(e)
		}
		return out
	}
	return fmt.Sprintf("?%T", v)
}

func c45RunCase(sys actor.ActorSystem, c c45Case, timeout time.Duration) c45Result {
	vals := make([]any, len(c.Input))
	for i, x := range c.Input {
		vals[i] = x
	}
	src := Of(vals...)
	for _, o := range c.Ops {
		src = Via(src, c45Flow(o))
	}
	var terminals, completions atomic.Int64
	col, sink := c45Collect(&terminals, &completions)
	g := src.To(sink)
	if c.Unbounded {
		for _, st := range g.stages {
			st.config.Mailbox = actor.NewUnboundedMailbox()
		}
	}
	if !c.Fuse {
		g = g.WithFusion(FuseNone)
	}
	t0 := time.Now()
	res := c45Result{ID: c.ID}
	h, err := g.Run(context.Background(), sys)
	if err != nil {
		res.ErrStr = "run: " + err.Error()
		return res
	}
	select {
	case <-h.Done():
		res.Done = true
	case <-time.After(timeout):
		h.Abort()
	}
	res.Micros = time.Since(t0).Microseconds()
	if res.Done {
		for _, v := range col.Items() {
			res.Items = append(res.Items, c45Norm(v))
		}
		if e := h.Err(); e != nil {
			var ve *verifErr
			code := int64(-1)
			if errors.As(e, &ve) {
				code = ve.code
			}
			res.Err = &code
			res.ErrStr = e.Error()
		}
		// late duplicates of the terminal signal would arrive right behind the first one
		time.Sleep(200 * time.Microsecond)
	} else {
		col.mu.Lock()
		for _, v := range col.items {
			res.Items = append(res.Items, c45Norm(v))
		}
		col.mu.Unlock()
	}
	res.Terminals = terminals.Load()
	if completions.Load() > 1 {
		res.Terminals = 100 + completions.Load()
	}
	if res.Items == nil {
		res.Items = []any{}
	}
	return res
}

// TestVerifC45Pipelines runs the generated pipelines of checks/C45.py.
func TestVerifC45Pipelines(t *testing.T) {
	cases := verifReadJSONL[c45Case](t, verifEnvStr("C45_IN", "c45_in.jsonl"))
	w := newVerifWriter(t, verifEnvStr("C45_OUT", "c45_out.jsonl"))
	defer w.close()
	timeout := time.Duration(verifEnvInt("VERIF_CASE_TIMEOUT_MS", 10000)) * time.Millisecond
	// A stage actor that stops with messages left in its bounded mailbox keeps a dispatcher worker
	// spinning (actor runtime, not the stream property), so every pipeline gets a fresh
	// ActorSystem that is stopped as soon as the stream has terminated.
	par := verifEnvInt("VERIF_PAR", 4)
	results := make([]c45Result, len(cases))
	var wg sync.WaitGroup
	slots := make(chan struct{}, par)
	for i := range cases {
		wg.Add(1)
		slots <- struct{}{}
		go func(i int) {
			defer wg.Done()
			defer func() { <-slots }()
			sys := verifSystem(t)
			results[i] = c45RunCase(sys, cases[i], timeout)
			_ = sys.Stop(context.Background())
		}(i)
	}
	wg.Wait()
	for _, r := range results {
		w.put(r)
	}
}

// ------------------------------------------------------------------------------------------
// actor-step conformance
// ------------------------------------------------------------------------------------------

// c45Probe plays both neighbours of the stage under test and records what the stage sends.
type c45Probe struct {
	mu  sync.Mutex
	got []any
}

type c45Drain struct{}

func (p *c45Probe) PreStart(*actor.Context) error { return nil }
func (p *c45Probe) PostStop(*actor.Context) error { return nil }
func (p *c45Probe) Receive(rctx *actor.ReceiveContext) {
	switch m := rctx.Message().(type) {
	case *c45Drain:
		p.mu.Lock()
		out := p.got
		p.got = nil
		p.mu.Unlock()
		rctx.Response(out)
	case *actor.PostStart:
	default:
		p.mu.Lock()
		p.got = append(p.got, m)
		p.mu.Unlock()
	}
}

// c45StepWrap runs the real stage actor and reports the end of every Receive to the driver.
type c45StepWrap struct {
	inner   actor.Actor
	stepped chan []int64
	stopped atomic.Bool
	snap    func(actor.Actor) []int64
}

func (w *c45StepWrap) PreStart(ctx *actor.Context) error { return w.inner.PreStart(ctx) }
func (w *c45StepWrap) PostStop(ctx *actor.Context) error {
	w.stopped.Store(true)
	return w.inner.PostStop(ctx)
}
func (w *c45StepWrap) Receive(rctx *actor.ReceiveContext) {
	if _, ok := rctx.Message().(*actor.PostStart); ok {
		w.inner.Receive(rctx)
		return
	}
	w.inner.Receive(rctx)
	w.stepped <- w.snap(w.inner)
}

type c45Msg struct {
	T string `json:"t"` // req, cancel, elem, complete, error, worker (parallel: wait for all workers)
	N int64  `json:"n,omitempty"`
	V any    `json:"v,omitempty"` // int or [ints]
	E int64  `json:"e,omitempty"`
}

type c45StepCase struct {
	ID     int      `json:"id"`
	Kind   string   `json:"kind"` // flow, fused, batch, sink, source
	Ops    []c45Op  `json:"ops"`
	Input  []int64  `json:"input,omitempty"` // source
	Init   int64    `json:"init"`            // InitialDemand
	Refill int64    `json:"refill"`          // RefillThreshold
	Script []c45Msg `json:"script"`
	// parallel stage (kind "par"): ordered?, workers, x -> A*x+B; "worker" messages release one task
	Ordered bool  `json:"ordered,omitempty"`
	W       int   `json:"w,omitempty"`
	A       int64 `json:"a,omitempty"`
	B       int64 `json:"b,omitempty"`
}

type c45StepObs struct {
	Alive bool    `json:"alive"`
	State []int64 `json:"state"`
	Out   []int64 `json:"out"` // encoded messages the stage sent during the step
}

type c45StepResult struct {
	ID    int          `json:"id"`
	Wire  []int64      `json:"wire"` // messages sent while handling stageWire
	Steps []c45StepObs `json:"steps"`
	Note  string       `json:"note,omitempty"`
}

func c45EncVal(v any) []int64 {
	switch x := v.(type) {
	case int64:
		return []int64{1, x}
	case []any:
		out := []int64{2, int64(len(x))}
		for _, e := range x {
			out = append(out, e.(int64))
		}
		return out
	}
	return []int64{99}
}

func c45EncMsg(m any) []int64 {
	switch x := m.(type) {
	case *streamElement:
		return append([]int64{10}, c45EncVal(x.value)...)
	case *streamComplete:
		return []int64{11}
	case *streamError:
		var ve *verifErr
		code := int64(-1)
		if errors.As(x.err, &ve) {
			code = ve.code
		}
		return []int64{12, code}
	case *streamRequest:
		return []int64{20, x.n}
	case *streamCancel:
		return []int64{21}
	}
	return []int64{98}
}

func c45DecVal(v any) any {
	switch x := v.(type) {
	case float64:
		return int64(x)
	case []any:
		out := make([]any, len(x))
		for i, e := range x {
			out[i] = int64(e.(float64))
		}
		return out
	}
	return v
}

// c45Fields reads internal ledger fields by name through reflection, so that a change of the actor's
// private fields cannot break the harness build; a missing field yields ok=false and the step comparison
// then falls back to the messages only.
func c45Fields(a any, names ...string) ([]int64, bool) {
	v := reflect.ValueOf(a)
	for v.Kind() == reflect.Pointer || v.Kind() == reflect.Interface {
		v = v.Elem()
	}
	out := make([]int64, 0, len(names))
	for _, name := range names {
		sliceElems := false
		if strings.HasSuffix(name, "[]") {
			sliceElems = true
			name = name[:len(name)-2]
		}
		f := v.FieldByName(name)
		if !f.IsValid() {
			return nil, false
		}
		switch f.Kind() {
		case reflect.Int, reflect.Int8, reflect.Int16, reflect.Int32, reflect.Int64:
			out = append(out, f.Int())
		case reflect.Uint, reflect.Uint8, reflect.Uint16, reflect.Uint32, reflect.Uint64:
			out = append(out, int64(f.Uint()))
		case reflect.Bool:
			if f.Bool() {
				out = append(out, 1)
			} else {
				out = append(out, 0)
			}
		case reflect.Slice:
			if !sliceElems {
				out = append(out, int64(f.Len()))
				break
			}
			for i := 0; i < f.Len(); i++ {
				e := f.Index(i)
				switch e.Kind() {
				case reflect.Int64, reflect.Int:
					out = append(out, e.Int())
				case reflect.Bool:
					if e.Bool() {
						out = append(out, 1)
					} else {
						out = append(out, 0)
					}
				case reflect.Struct: // queue
					d, h := e.FieldByName("data"), e.FieldByName("head")
					if !d.IsValid() || !h.IsValid() {
						return nil, false
					}
					out = append(out, int64(d.Len())-h.Int())
				default:
					return nil, false
				}
			}
		case reflect.Struct: // queue: number of live elements
			d, h := f.FieldByName("data"), f.FieldByName("head")
			if !d.IsValid() || !h.IsValid() {
				return nil, false
			}
			out = append(out, int64(d.Len())-h.Int())
		default:
			return nil, false
		}
	}
	return out, true
}

// c45NoState marks a snapshot whose fields are not available any more.
var c45NoState = []int64{-424242}

func c45Snap(a actor.Actor) []int64 {
	var st []int64
	var ok bool
	switch a.(type) {
	case *flowActor:
		st, ok = c45Fields(a, "upstreamCredit", "downstreamDemand", "outputBuf", "completing")
	case *fusedFlowActor:
		st, ok = c45Fields(a, "credit")
	case *batchFlowActor[any]:
		st, ok = c45Fields(a, "upstreamCredit", "downstreamDemand", "window")
	case *sinkActor:
		st, ok = c45Fields(a, "credit")
	case *pullSourceActor:
		return []int64{}
	case *parallelMapActor[any, any]:
		st, ok = c45Fields(a, "inFlight", "inputSeqNo", "nextEmit", "pending", "upstreamDone")
	default:
		return nil
	}
	if !ok {
		return c45NoState
	}
	return st
}

// c45Gates lets the driver decide when (and so in which order) the workers of a parallel stage finish.
type c45Gates struct {
	mu sync.Mutex
	ch map[int64]chan struct{}
}

func (g *c45Gates) gate(v int64) chan struct{} {
	g.mu.Lock()
	defer g.mu.Unlock()
	if g.ch == nil {
		g.ch = map[int64]chan struct{}{}
	}
	c, ok := g.ch[v]
	if !ok {
		c = make(chan struct{})
		g.ch[v] = c
	}
	return c
}

func (g *c45Gates) release(v int64) {
	c := g.gate(v)
	select {
	case <-c:
	default:
		close(c)
	}
}

func (g *c45Gates) releaseAll() {
	g.mu.Lock()
	defer g.mu.Unlock()
	for _, c := range g.ch {
		select {
		case <-c:
		default:
			close(c)
		}
	}
}

var c45CurrentGates *c45Gates

func c45StageUnderTest(c c45StepCase, items *[]any, completions *atomic.Int64) (actor.Actor, error) {
	cfg := defaultStageConfig()
	cfg.InitialDemand = c.Init
	cfg.RefillThreshold = c.Refill
	switch c.Kind {
	case "flow", "batch":
		st := c45Flow(c.Ops[0]).stage
		a := st.actorFn(st.config)
		switch x := a.(type) {
		case *flowActor:
			x.config.InitialDemand, x.config.RefillThreshold = c.Init, c.Refill
		case *batchFlowActor[any]:
			x.config.InitialDemand, x.config.RefillThreshold = c.Init, c.Refill
		}
		return a, nil
	case "fused":
		stages := []*stage{Of[any]().stages[0]}
		for _, o := range c.Ops {
			stages = append(stages, c45Flow(o).stage)
		}
		stages = append(stages, Ignore[any]().desc)
		fused := applyFusion(stages, FuseStateless)
		if len(fused) != 3 {
			return nil, fmt.Errorf("expected one fused stage, got %d stages", len(fused)-2)
		}
		scfg := fused[1].config
		scfg.InitialDemand, scfg.RefillThreshold = c.Init, c.Refill
		return fused[1].actorFn(scfg), nil
	case "par":
		gates := &c45Gates{}
		c45CurrentGates = gates
		return newParallelMapActor[any, any](max(c.W, 1), func(v any) any {
			x := v.(int64)
			<-gates.gate(x)
			return c.A*x + c.B
		}, c.Ordered, cfg), nil
	case "sink":
		return newSinkActor(func(v any) error { *items = append(*items, v); return nil },
			func() { completions.Add(1) }, cfg), nil
	case "source":
		vals := make([]any, len(c.Input))
		for i, x := range c.Input {
			vals[i] = x
		}
		st := Of(vals...).stages[0]
		return st.actorFn(cfg), nil
	}
	return nil, fmt.Errorf("unknown kind %s", c.Kind)
}

func c45RunSteps(t testing.TB, sys actor.ActorSystem, c c45StepCase) c45StepResult {
	res := c45StepResult{ID: c.ID}
	ctx := context.Background()
	var items []any
	var completions atomic.Int64
	inner, err := c45StageUnderTest(c, &items, &completions)
	if err != nil {
		res.Note = err.Error()
		return res
	}
	probe := &c45Probe{}
	ppid, err := sys.Spawn(ctx, fmt.Sprintf("c45-probe-%d-%d", c.ID, time.Now().UnixNano()), probe, actor.WithLongLived())
	if err != nil {
		res.Note = "spawn probe: " + err.Error()
		return res
	}
	defer ppid.Shutdown(ctx)
	wrap := &c45StepWrap{inner: inner, stepped: make(chan []int64, 4), snap: c45Snap}
	spid, err := sys.Spawn(ctx, fmt.Sprintf("c45-stage-%d-%d", c.ID, time.Now().UnixNano()), wrap, actor.WithLongLived())
	if err != nil {
		res.Note = "spawn stage: " + err.Error()
		return res
	}
	defer spid.Shutdown(ctx)
	drain := func() []int64 {
		r, err := actor.Ask(ctx, ppid, &c45Drain{}, 20*time.Second)
		if err != nil {
			return []int64{97}
		}
		var out []int64
		for _, m := range r.([]any) {
			out = append(out, c45EncMsg(m)...)
		}
		return out
	}
	send := func(m any) ([]int64, bool) {
		if err := actor.Tell(ctx, spid, m); err != nil {
			return nil, false
		}
		select {
		case st := <-wrap.stepped:
			return st, true
		case <-time.After(20 * time.Second):
			return nil, false
		}
	}
	if c.Kind == "par" {
		defer c45CurrentGates.releaseAll()
	}
	wire := &stageWire{subID: "s", upstream: ppid, downstream: ppid}
	if c.Kind == "source" {
		wire.upstream = nil
	}
	if c.Kind == "sink" {
		wire.downstream = nil
	}
	if _, ok := send(wire); !ok {
		res.Note = "wire not handled"
		return res
	}
	res.Wire = drain()
	var elemSeq uint64
	for _, m := range c.Script {
		var msg any
		switch m.T {
		case "req":
			msg = &streamRequest{subID: "s", n: m.N}
		case "cancel":
			msg = &streamCancel{subID: "s"}
		case "elem":
			elemSeq++ // like a real upstream stage: elements are numbered 1..n in emission order
			msg = &streamElement{subID: "s", value: c45DecVal(m.V), seqNo: elemSeq}
		case "complete":
			msg = &streamComplete{subID: "s"}
		case "error":
			msg = &streamError{subID: "s", err: &verifErr{m.E}}
		}
		if wrap.stopped.Load() {
			// a stopped actor handles nothing: dead letter
			res.Steps = append(res.Steps, c45StepObs{Alive: false})
			continue
		}
		if m.T == "worker" {
			// let the worker holding this task finish; its parallelResult is the next message the stage handles
			c45CurrentGates.release(int64(m.V.(float64)))
			select {
			case st := <-wrap.stepped:
				res.Steps = append(res.Steps, c45StepObs{Alive: !wrap.stopped.Load(), State: st, Out: drain()})
			case <-time.After(20 * time.Second):
				res.Steps = append(res.Steps, c45StepObs{Alive: !wrap.stopped.Load(), State: []int64{-999}})
			}
			continue
		}
		st, ok := send(msg)
		if !ok {
			res.Steps = append(res.Steps, c45StepObs{Alive: !wrap.stopped.Load(), State: []int64{-999}})
			continue
		}
		obs := c45StepObs{Alive: !wrap.stopped.Load(), State: st, Out: drain()}
		if c.Kind == "sink" {
			obs.State = append(obs.State, int64(len(items)), completions.Load())
		}
		res.Steps = append(res.Steps, obs)
	}
	return res
}

// TestVerifC45Steps drives the real stage actors with the scripts of checks/C45.py.
func TestVerifC45Steps(t *testing.T) {
	cases := verifReadJSONL[c45StepCase](t, "c45_steps_in.jsonl")
	sys := verifSystem(t)
	defer sys.Stop(context.Background())
	w := newVerifWriter(t, "c45_steps_out.jsonl")
	defer w.close()
	for _, c := range cases {
		w.put(c45RunSteps(t, sys, c))
	}
}
