//go:build verif

package queue

// Yield-point hook for the /verif harness. queue.go is replaced at build time (go test -overlay) by a
// copy of the CURRENT source in which tools/vinstr has put a verifPoint call before every statement
// that performs an atomic operation, a pool operation or a plain access to an item field.
// With no hook installed a point is a nil check.

// VerifHook, when set, is called at every yield point with the enclosing function and the kind of
// the operation that follows. It must be set while no queue operation is running.
var VerifHook func(fn, kind string)

func verifPoint(fn, kind string) {
	if h := VerifHook; h != nil {
		h(fn, kind)
	}
}
