//go:build verif

package queue

// C20 harness for internal/queue (in-package; queue.go is the vinstr-instrumented copy of the
// current source, see zz_verif_hook.go).
//
// TestVerifC20QueueSched runs small multi-threaded programs over the REAL Queue under a controlled
// scheduler: every logical thread is a goroutine that runs only while it holds the run token and gives
// it back at the next yield point, so an execution is a total order of atomic steps. After every
// step the harness records the kind of the step, the values reachable from the head sentinel and
// the length counter. checks/C20.py replays the same schedule through the Coq model and evaluates
// the property's own oracle on the results.
//
// TestVerifC20QueueStress runs real goroutines without the scheduler.

import (
	"runtime"
	"sync"
	"sync/atomic"
	"testing"
	"time"
)

type c20Case struct {
	ID       int       `json:"id"`
	Progs    [][][]int `json:"progs"` // per thread: [0,v]=Enqueue(v)  [1]=Dequeue  [2]=Length
	Sched    []int     `json:"sched"` // scripted prefix of thread ids
	Seed     uint64    `json:"seed"`
	Sticky   int       `json:"sticky"` // percent chance to keep running the same thread
	MaxSteps int       `json:"maxsteps"`
}

type c20Out struct {
	ID       int     `json:"id"`
	Sched    []int   `json:"sched"`
	Kinds    []string `json:"kinds"`
	Fns      []string `json:"fns"`
	Contents [][]int `json:"contents"`
	Lens     []int64 `json:"lens"`
	Results  [][]int64 `json:"results"` // per thread, one per Dequeue (value, -1 = nil) / Length (1000000+len)
	Drained  []int   `json:"drained"`
	FinalLen int64   `json:"final_len"`
	Aborted  string  `json:"aborted"`
	Panic    string  `json:"panic"`
}

type c20Park struct {
	fn, kind string
	done     bool
	panicked string
}

type c20Thread struct {
	id     int
	resume chan struct{}
	parked chan c20Park
	at     c20Park
	done   bool
}

type c20Sched struct {
	cur   *c20Thread
	abort atomic.Bool
}

func (t *c20Thread) park(sc *c20Sched, fn, kind string) {
	t.parked <- c20Park{fn: fn, kind: kind}
	<-t.resume
	if sc.abort.Load() {
		runtime.Goexit()
	}
}

func c20Val(v any) int {
	if v == nil {
		return -1
	}
	if i, ok := v.(int); ok {
		return i
	}
	return -2
}

// c20Walk returns the values reachable from the head sentinel (at most limit of them).
func c20Walk(q *Queue, limit int) []int {
	out := []int{}
	n := (*item)(atomic.LoadPointer(&q.head))
	for i := 0; i < limit; i++ {
		nx := (*item)(atomic.LoadPointer(&n.next))
		if nx == nil {
			break
		}
		out = append(out, c20Val(nx.v))
		n = nx
	}
	return out
}

func c20RunCase(c c20Case) c20Out {
	out := c20Out{ID: c.ID}
	q := NewQueue()
	sc := &c20Sched{}
	ths := make([]*c20Thread, len(c.Progs))
	results := make([][]int64, len(c.Progs))
	nEnq := 0
	for i := range c.Progs {
		t := &c20Thread{id: i, resume: make(chan struct{}), parked: make(chan c20Park, 1)}
		ths[i] = t
		results[i] = []int64{}
		prog := c.Progs[i]
		for _, op := range prog {
			if op[0] == 0 {
				nEnq++
			}
		}
		go func() {
			defer func() {
				if r := recover(); r != nil {
					t.parked <- c20Park{done: true, panicked: "panic"}
				}
			}()
			for _, op := range prog {
				t.park(sc, "harness", "call")
				switch op[0] {
				case 0:
					q.Enqueue(op[1])
				case 1:
					results[t.id] = append(results[t.id], int64(c20Val(q.Dequeue())))
				case 2:
					results[t.id] = append(results[t.id], 1000000+int64(q.Length()))
				}
			}
			t.parked <- c20Park{done: true}
		}()
	}
	VerifHook = func(fn, kind string) { sc.cur.park(sc, fn, kind) }
	defer func() { VerifHook = nil }()
	live := 0
	for _, t := range ths {
		t.at = <-t.parked
		if t.at.done {
			t.done = true
		} else {
			live++
		}
	}
	rng := newVerifRNG(c.Seed)
	last := -1
	limit := 4*nEnq + 8
	for step := 0; live > 0; step++ {
		if step >= c.MaxSteps {
			out.Aborted = "maxsteps"
			break
		}
		pick := -1
		if step < len(c.Sched) && c.Sched[step] < len(ths) && !ths[c.Sched[step]].done {
			pick = c.Sched[step]
		} else if last >= 0 && !ths[last].done && rng.intn(100) < c.Sticky {
			pick = last
		} else {
			k := rng.intn(live)
			for i, t := range ths {
				if !t.done {
					if k == 0 {
						pick = i
						break
					}
					k--
				}
			}
		}
		t := ths[pick]
		last = pick
		out.Sched = append(out.Sched, pick)
		out.Kinds = append(out.Kinds, t.at.kind)
		out.Fns = append(out.Fns, t.at.fn)
		sc.cur = t
		t.resume <- struct{}{}
		select {
		case t.at = <-t.parked:
		case <-time.After(5 * time.Second):
			out.Aborted = "thread did not reach a yield point"
		}
		if out.Aborted != "" {
			break
		}
		if t.at.done {
			t.done = true
			live--
			if t.at.panicked != "" {
				out.Panic = t.at.panicked
			}
		}
		out.Contents = append(out.Contents, c20Walk(q, limit))
		out.Lens = append(out.Lens, atomic.LoadInt64(&q.len))
	}
	if out.Aborted != "" {
		sc.abort.Store(true)
		for _, t := range ths {
			if !t.done {
				select {
				case t.resume <- struct{}{}:
				default:
				}
			}
		}
	}
	VerifHook = nil
	out.Results = results
	out.Drained = []int{}
	if out.Aborted == "" {
		for i := 0; i < limit; i++ {
			v := q.Dequeue()
			if v == nil {
				break
			}
			out.Drained = append(out.Drained, c20Val(v))
		}
		out.FinalLen = atomic.LoadInt64(&q.len)
	}
	return out
}

func TestVerifC20QueueSched(t *testing.T) {
	cases := verifReadJSONL[c20Case](t, "c20_q_in.jsonl")
	w := newVerifWriter(t, "c20_q_out.jsonl")
	defer w.close()
	for _, c := range cases {
		w.put(c20RunCase(c))
	}
}

type c20StressOut struct {
	Round     int     `json:"round"`
	Producers int     `json:"producers"`
	Consumers int     `json:"consumers"`
	PerProd   int     `json:"per_producer"`
	Got       [][]int `json:"got"` // per consumer, in the order dequeued: producer*1000000+seq
	Drained   []int   `json:"drained"`
	FinalLen  int64   `json:"final_len"`
	Hang      bool    `json:"hang"` // the round did not finish: some goroutine never returned from Enqueue/Dequeue
}

// TestVerifC20QueueStress: real goroutines, no scheduler. Values carry (producer, sequence number).
func TestVerifC20QueueStress(t *testing.T) {
	w := newVerifWriter(t, "c20_q_stress.jsonl")
	defer w.close()
	rounds := verifEnvInt("VERIF_C20_ROUNDS", 30)
	rng := newVerifRNG(verifSeed() + 77)
	for r := 0; r < rounds; r++ {
		np, nc, per := 1+rng.intn(4), 1+rng.intn(3), 200+rng.intn(1500)
		procs := 1 + rng.intn(8)
		old := runtime.GOMAXPROCS(procs)
		q := NewQueue()
		got := make([][]int, nc)
		var wg, cwg sync.WaitGroup
		var producing atomic.Int32
		producing.Store(int32(np))
		for p := 0; p < np; p++ {
			wg.Add(1)
			go func(p int) {
				defer wg.Done()
				defer producing.Add(-1)
				for i := 0; i < per; i++ {
					q.Enqueue(p*1000000 + i)
					if i%17 == p {
						runtime.Gosched()
					}
				}
			}(p)
		}
		for c := 0; c < nc; c++ {
			cwg.Add(1)
			go func(c int) {
				defer cwg.Done()
				for {
					v := q.Dequeue()
					if v == nil {
						if producing.Load() == 0 {
							return
						}
						runtime.Gosched()
						continue
					}
					got[c] = append(got[c], c20Val(v))
				}
			}(c)
		}
		fin := make(chan struct{})
		go func() { wg.Wait(); cwg.Wait(); close(fin) }()
		select {
		case <-fin:
		case <-time.After(time.Duration(verifEnvInt("VERIF_C20_HANG_MS", 8000)) * time.Millisecond):
			// leaked goroutines keep spinning; this is the last test of the binary
			w.put(c20StressOut{Round: r, Producers: np, Consumers: nc, PerProd: per, Hang: true})
			runtime.GOMAXPROCS(old)
			return
		}
		o := c20StressOut{Round: r, Producers: np, Consumers: nc, PerProd: per, Got: got, Drained: []int{}}
		for i := 0; i < np*per+4; i++ {
			v := q.Dequeue()
			if v == nil {
				break
			}
			o.Drained = append(o.Drained, c20Val(v))
		}
		o.FinalLen = atomic.LoadInt64(&q.len)
		runtime.GOMAXPROCS(old)
		w.put(o)
	}
}
