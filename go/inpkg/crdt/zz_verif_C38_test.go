//go:build verif

package crdt

import "testing"

// TestVerifC38Programs runs the op programs chosen by checks/C38.py on the real crdt package.
func TestVerifC38Programs(t *testing.T) {
	progs := verifReadJSONL[vmProg](t, "c38_prog.jsonl")
	w := newVerifWriter(t, "c38_out.jsonl")
	defer w.close()
	for _, p := range progs {
		w.put(vmRun(p))
	}
}
