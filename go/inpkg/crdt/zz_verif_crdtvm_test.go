//go:build verif

package crdt

// A small register machine over the REAL crdt package (public operations only; private fields are
// only read, to dump the delta bookkeeping). Shared by the C38 and C39 harnesses.
//
// A program is a list of ops over slots. Every op that produces a value writes slot D. After every
// op the machine emits the canonical dump of the written slot and reports whether any INPUT slot
// changed while the op ran (purity). Canonical dump = tree of integers:
//   nil            -> []
//   value          -> [tag, observable, core, aux]
// with map/set/list content sorted, nodes/elements/values replaced by their table index.

import (
	"fmt"
	"reflect"
	"sort"
	"time"

	"github.com/tochemey/goakt/v4/internal/types"
	"github.com/tochemey/goakt/v4/remote"
)

// vmProfile is a user-defined struct registered for CBOR serialization the way remote.WithSerializers
// does it: the serializer's domain is "built-in primitives, proto messages and registered structs".
// Its wire name ("crdt.vmprofile") is package-qualified. Registered structs decode to a fresh pointer,
// so they are used as register values (LWWRegister, MVRegister), never as set elements / map keys.
type vmProfile struct {
	Name string
	Age  int
}

func init() {
	types.RegisterSerializerType(new(vmProfile), remote.NewCBORSerializer())
}

// node names: index order == lexicographic order of the strings (LWW tie-break is by string order).
var vmNodes = []string{"", "a", "aa", "ab", "b", "n1", "n10", "n2"}

// element / register values. 0 is the nil interface.
var vmVals = []any{nil, "x", "y", "", int(1), int64(1), uint64(1), true, float64(1.5), int(0), "z", int32(-7),
	&vmProfile{Name: "alice", Age: 30}, &vmProfile{Name: "bob", Age: -7}}

func vmValIndex(v any) int64 {
	for i, x := range vmVals {
		if x == nil || v == nil {
			if x == nil && v == nil {
				return int64(i)
			}
			continue
		}
		if reflect.TypeOf(x) != reflect.TypeOf(v) {
			continue
		}
		if px, ok := x.(*vmProfile); ok { // registered structs travel as pointers: compare the pointees
			if pv := v.(*vmProfile); px != nil && pv != nil && *px == *pv {
				return int64(i)
			}
			continue
		}
		if x == v {
			return int64(i)
		}
	}
	return -1
}

func vmNodeIndex(s string) int64 {
	for i, x := range vmNodes {
		if x == s {
			return int64(i)
		}
	}
	return -1
}

type vmOp struct {
	O  string `json:"o"`
	D  int    `json:"d"`
	S  int    `json:"s"`
	A  int    `json:"a"`
	B  int    `json:"b"`
	C  int    `json:"c"`
	N  int    `json:"n"`
	V  uint64 `json:"v"`
	E  int    `json:"e"`
	TS int64  `json:"ts"`
	T  string `json:"t"`
}

type vmProg struct {
	ID  int    `json:"id"`
	Ops []vmOp `json:"ops"`
}

type vmOut struct {
	ID     int    `json:"id"`
	Res    []any  `json:"res"`
	Impure []int  `json:"impure"`
	Panic  string `json:"panic,omitempty"`
	Extra  []any  `json:"extra,omitempty"`
}

type tree = any // int64 / uint64 leaves, []any nodes

func tl(xs ...any) []any { return xs }

// ---- canonical ordering of trees: leaf < node; leaves numerically; nodes lexicographically
func treeLess(a, b any) bool { return treeCmp(a, b) < 0 }
func leafBig(x any) (neg bool, mag uint64, ok bool) {
	switch v := x.(type) {
	case int64:
		if v < 0 {
			return true, uint64(-(v + 1)), true // order only; -(v+1) avoids overflow
		}
		return false, uint64(v), true
	case uint64:
		return false, v, true
	case int:
		return leafBig(int64(v))
	}
	return false, 0, false
}
func treeCmp(a, b any) int {
	an, am, aok := leafBig(a)
	bn, bm, bok := leafBig(b)
	switch {
	case aok && bok:
		if an != bn {
			if an {
				return -1
			}
			return 1
		}
		if an { // both negative: larger magnitude(-(v+1)) = smaller value
			am, bm = bm, am
		}
		if am < bm {
			return -1
		} else if am > bm {
			return 1
		}
		return 0
	case aok:
		return -1
	case bok:
		return 1
	}
	la, lb := a.([]any), b.([]any)
	for i := 0; i < len(la) && i < len(lb); i++ {
		if c := treeCmp(la[i], lb[i]); c != 0 {
			return c
		}
	}
	if len(la) < len(lb) {
		return -1
	} else if len(la) > len(lb) {
		return 1
	}
	return 0
}
func sorted(xs []any) []any {
	sort.SliceStable(xs, func(i, j int) bool { return treeLess(xs[i], xs[j]) })
	if xs == nil {
		return []any{}
	}
	return xs
}

func dumpU64Map(m map[string]uint64) []any {
	out := []any{}
	for k, v := range m {
		out = append(out, tl(vmNodeIndex(k), v))
	}
	return sorted(out)
}
func dumpDotMap(m map[any][]dot) []any {
	out := []any{}
	for e, ds := range m {
		for _, d := range ds {
			out = append(out, tl(vmValIndex(e), vmNodeIndex(d.nodeID), d.counter))
		}
	}
	return sorted(out)
}
func b2i(b bool) int64 {
	if b {
		return 1
	}
	return 0
}

const (
	tagG, tagPN, tagF, tagL, tagMV, tagS, tagM = 1, 2, 3, 4, 5, 6, 7
)

// vmValue: the observable value through the public accessors only.
func vmValue(x ReplicatedData) any {
	switch v := x.(type) {
	case *GCounter:
		return v.Value()
	case *PNCounter:
		return v.Value()
	case *Flag:
		return b2i(v.Enabled())
	case *LWWRegister:
		return vmValIndex(v.Value())
	case *MVRegister:
		out := []any{}
		for _, e := range v.Values() {
			out = append(out, vmValIndex(e))
		}
		return sorted(out)
	case *ORSet:
		out := []any{}
		for _, e := range v.Elements() {
			out = append(out, vmValIndex(e))
		}
		if len(out) != v.Len() {
			out = append(out, int64(-100-v.Len())) // Len disagrees with Elements: make it visible
		}
		for _, e := range v.Elements() {
			if !v.Contains(e) {
				out = append(out, int64(-2))
			}
		}
		return sorted(out)
	case *ORMap:
		out := []any{}
		ents := v.Entries()
		for _, k := range v.Keys() {
			got, ok := v.Get(k)
			if !ok {
				out = append(out, tl(vmValIndex(k), int64(-3)))
				continue
			}
			if _, in := ents[k]; !in {
				out = append(out, tl(vmValIndex(k), int64(-4)))
				continue
			}
			out = append(out, tl(vmValIndex(k), vmValue(got)))
		}
		if len(ents) != v.Len() || len(v.Keys()) != v.Len() {
			out = append(out, tl(int64(-5), int64(len(ents))))
		}
		return sorted(out)
	}
	return int64(-1)
}

// vmCore: the replicated state (what merge works on), public raw-state accessors.
func vmCore(x ReplicatedData) any {
	switch v := x.(type) {
	case *GCounter:
		return dumpU64Map(v.State())
	case *PNCounter:
		i, d := v.State()
		return tl(dumpU64Map(i), dumpU64Map(d))
	case *Flag:
		return b2i(v.Enabled())
	case *LWWRegister:
		return tl(vmValIndex(v.Value()), v.Timestamp(), vmNodeIndex(v.NodeID()))
	case *MVRegister:
		es, clk := v.RawState()
		out := []any{}
		for _, e := range es {
			out = append(out, tl(vmNodeIndex(e.Dot.NodeID), e.Dot.Counter, vmValIndex(e.Value)))
		}
		return tl(sorted(out), dumpU64Map(clk))
	case *ORSet:
		es, clk := v.RawState()
		out := []any{}
		for _, e := range es {
			for _, d := range e.Dots {
				out = append(out, tl(vmValIndex(e.Element), vmNodeIndex(d.NodeID), d.Counter))
			}
		}
		return tl(sorted(out), dumpU64Map(clk))
	case *ORMap:
		rs := v.RawState()
		ks := ORSetFromRawState(rs.KeyEntries, rs.KeyClock)
		vals := []any{}
		for k, vv := range rs.Values {
			vals = append(vals, tl(vmValIndex(k), vmCore(vv)))
		}
		return tl(vmCore(ks), sorted(vals))
	}
	return int64(-1)
}

// vmAux: delta bookkeeping (private fields, read only).
func vmAux(x ReplicatedData) any {
	switch v := x.(type) {
	case *GCounter:
		return dumpU64Map(v.delta)
	case *PNCounter:
		return tl(dumpU64Map(v.increments.delta), dumpU64Map(v.decrements.delta))
	case *Flag:
		return b2i(v.dirty)
	case *LWWRegister:
		return b2i(v.dirty)
	case *MVRegister:
		return b2i(v.dirty)
	case *ORSet:
		return tl(dumpDotMap(v.delta.added), dumpDotMap(v.delta.removed))
	case *ORMap:
		vals := []any{}
		for k, vv := range v.values {
			vals = append(vals, tl(vmValIndex(k), vmAux(vv)))
		}
		return tl(b2i(v.dirty), vmAux(v.keys), sorted(vals))
	}
	return int64(-1)
}

func vmTag(x ReplicatedData) int64 {
	switch x.(type) {
	case *GCounter:
		return tagG
	case *PNCounter:
		return tagPN
	case *Flag:
		return tagF
	case *LWWRegister:
		return tagL
	case *MVRegister:
		return tagMV
	case *ORSet:
		return tagS
	case *ORMap:
		return tagM
	}
	return 0
}

func isNilRD(x ReplicatedData) bool {
	if x == nil {
		return true
	}
	rv := reflect.ValueOf(x)
	return rv.Kind() == reflect.Pointer && rv.IsNil()
}

func vmDump(x ReplicatedData) any {
	if isNilRD(x) {
		return []any{}
	}
	return tl(vmTag(x), vmValue(x), vmCore(x), vmAux(x))
}

// vmVC: [value, core] only (what the join laws are about)
func vmVC(x ReplicatedData) any {
	if isNilRD(x) {
		return []any{}
	}
	return tl(vmTag(x), vmValue(x), vmCore(x))
}

func samePtr(a, b ReplicatedData) bool {
	if isNilRD(a) || isNilRD(b) {
		return false
	}
	return reflect.ValueOf(a).Pointer() == reflect.ValueOf(b).Pointer()
}

type vm struct {
	slots []ReplicatedData
}

func (m *vm) get(i int) ReplicatedData {
	if i < 0 || i >= len(m.slots) {
		return nil
	}
	return m.slots[i]
}

// set stores r in slot d; a result that IS one of the inputs (Remove of an absent element, Merge
// with a foreign type return the receiver) is cloned so that slots never alias.
func (m *vm) set(d int, r ReplicatedData, inputs ...int) {
	for len(m.slots) <= d {
		m.slots = append(m.slots, nil)
	}
	if !isNilRD(r) {
		for _, s := range m.slots {
			if samePtr(s, r) {
				r = r.Clone()
				break
			}
		}
	}
	m.slots[d] = r
}

func vmNew(t string) ReplicatedData {
	switch t {
	case "g":
		return NewGCounter()
	case "pn":
		return NewPNCounter()
	case "f":
		return NewFlag()
	case "l":
		return NewLWWRegister()
	case "mv":
		return NewMVRegister()
	case "s":
		return NewORSet()
	case "m", "mm":
		return NewORMap()
	}
	return nil
}

// exec runs one op. The returned tree is the op's output.
func (m *vm) exec(op vmOp) (out any) {
	node := func() string { return vmNodes[op.N] }
	val := func() any { return vmVals[op.E] }
	s := m.get(op.S)
	switch op.O {
	case "new":
		m.set(op.D, vmNew(op.T))
		return vmDump(m.get(op.D))
	case "inc":
		switch c := s.(type) {
		case *GCounter:
			m.set(op.D, c.Increment(node(), op.V))
		case *PNCounter:
			m.set(op.D, c.Increment(node(), op.V))
		default:
			m.set(op.D, s)
		}
	case "dec":
		switch c := s.(type) {
		case *PNCounter:
			m.set(op.D, c.Decrement(node(), op.V))
		default:
			m.set(op.D, s)
		}
	case "enable":
		if c, ok := s.(*Flag); ok {
			m.set(op.D, c.Enable())
		} else {
			m.set(op.D, s)
		}
	case "lset":
		if c, ok := s.(*LWWRegister); ok {
			m.set(op.D, c.Set(val(), time.Unix(0, op.TS), node()))
		} else {
			m.set(op.D, s)
		}
	case "mvset":
		if c, ok := s.(*MVRegister); ok {
			m.set(op.D, c.Set(node(), val()))
		} else {
			m.set(op.D, s)
		}
	case "add":
		if c, ok := s.(*ORSet); ok {
			m.set(op.D, c.Add(node(), val()))
		} else {
			m.set(op.D, s)
		}
	case "rem":
		if c, ok := s.(*ORSet); ok {
			m.set(op.D, c.Remove(val()))
		} else {
			m.set(op.D, s)
		}
	case "mset":
		c, ok := s.(*ORMap)
		v := m.get(op.A)
		if ok && !isNilRD(v) {
			m.set(op.D, c.Set(node(), val(), v))
		} else {
			m.set(op.D, s)
		}
	case "mrem":
		if c, ok := s.(*ORMap); ok {
			m.set(op.D, c.Remove(val()))
		} else {
			m.set(op.D, s)
		}
	case "mget": // nested value of a map key into a slot (nil when absent)
		if c, ok := s.(*ORMap); ok {
			if v, ok2 := c.Get(val()); ok2 {
				m.set(op.D, v)
			} else {
				m.set(op.D, nil)
			}
		} else {
			m.set(op.D, nil)
		}
	case "merge":
		a, b := m.get(op.A), m.get(op.B)
		if isNilRD(a) || isNilRD(b) {
			m.set(op.D, a)
		} else {
			m.set(op.D, a.Merge(b))
		}
	case "clone":
		if isNilRD(s) {
			m.set(op.D, nil)
		} else {
			m.set(op.D, s.Clone())
		}
	case "delta":
		if isNilRD(s) {
			m.set(op.D, nil)
		} else {
			m.set(op.D, s.Delta())
		}
	case "reset":
		if !isNilRD(s) {
			s.ResetDelta()
		}
		return vmDump(s)
	case "compact":
		if c, ok := s.(Compactable); ok && !isNilRD(s) {
			m.set(op.D, c.CompactData())
		} else {
			m.set(op.D, s)
		}
	case "laws":
		// join laws on three slots: [ab, ba, (ab)c, a(bc), aa, a, a(ab)] as [tag,value,core]
		a, b, c := m.get(op.A), m.get(op.B), m.get(op.C)
		if isNilRD(a) || isNilRD(b) || isNilRD(c) {
			return []any{}
		}
		ab := a.Merge(b)
		ba := b.Merge(a)
		abc1 := ab.Merge(c)
		abc2 := a.Merge(b.Merge(c))
		aa := a.Merge(a)
		aab := a.Merge(ab)
		return tl(vmVC(ab), vmVC(ba), vmVC(abc1), vmVC(abc2), vmVC(aa), vmVC(a), vmVC(aab))
	case "fold":
		// fold: D := A merged with slots listed in digits of V (base 16, least significant first, 0 terminates; slot = digit-1)
		acc := m.get(op.A)
		v := op.V
		for v != 0 && !isNilRD(acc) {
			x := m.get(int(v&15) - 1)
			v >>= 4
			if isNilRD(x) {
				continue
			}
			acc = acc.Merge(x)
		}
		m.set(op.D, acc)
	default:
		panic(fmt.Sprintf("unknown op %q", op.O))
	}
	return vmDump(m.get(op.D))
}

func (m *vm) inputs(op vmOp) []int {
	switch op.O {
	case "new":
		return nil
	case "merge":
		return []int{op.A, op.B}
	case "laws":
		return []int{op.A, op.B, op.C}
	case "mset":
		return []int{op.S, op.A}
	case "reset":
		return nil // mutates by contract
	case "fold":
		ins := []int{op.A}
		for v := op.V; v != 0; v >>= 4 {
			ins = append(ins, int(v&15)-1)
		}
		return ins
	}
	return []int{op.S}
}

// vmHook, when set, is called after every op with the value the op wrote (nil for laws/none) and all slots;
// what it returns is recorded in vmOut.Extra.
type vmHook func(i int, op vmOp, written ReplicatedData, slots []ReplicatedData) any

func vmRun(p vmProg) (out vmOut) { return vmRunHook(p, nil) }

func vmRunHook(p vmProg, hook vmHook) (out vmOut) {
	out.ID = p.ID
	out.Impure = []int{}
	m := &vm{}
	defer func() {
		if r := recover(); r != nil {
			out.Panic = fmt.Sprint(r)
		}
	}()
	for i, op := range p.Ops {
		ins := m.inputs(op)
		objs := make([]ReplicatedData, len(ins))
		before := make([]string, len(ins))
		for k, s := range ins {
			objs[k] = m.get(s)
			before[k] = fmt.Sprint(vmDump(objs[k]))
		}
		res := m.exec(op)
		for k := range ins {
			if fmt.Sprint(vmDump(objs[k])) != before[k] {
				out.Impure = append(out.Impure, i)
				break
			}
		}
		out.Res = append(out.Res, res)
		if hook != nil {
			var w ReplicatedData
			switch op.O {
			case "laws":
			case "reset":
				w = m.get(op.S)
			default:
				w = m.get(op.D)
			}
			out.Extra = append(out.Extra, hook(i, op, w, m.slots))
		}
	}
	return out
}
