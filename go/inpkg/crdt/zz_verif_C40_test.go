//go:build verif

package crdt_test

// C40 harness: values built by op programs on the real crdt package are encoded with the real
// internal/ddata codec, marshalled to protobuf wire bytes, unmarshalled, decoded; the decoded value is
// dumped (observable value, raw state, delta state) and its merge behaviour compared with the original's.

import (
	"bufio"
	"encoding/json"
	"fmt"
	"os"
	"path/filepath"
	"testing"

	"google.golang.org/protobuf/proto"

	"github.com/tochemey/goakt/v4/crdt"
	"github.com/tochemey/goakt/v4/internal/codec"
	"github.com/tochemey/goakt/v4/internal/ddata"
	"github.com/tochemey/goakt/v4/internal/internalpb"
)

type c40RT struct {
	EncErr  string `json:"enc_err,omitempty"`
	DecErr  string `json:"dec_err,omitempty"`
	WireErr string `json:"wire_err,omitempty"`
	RT      any    `json:"rt,omitempty"`     // [tag, value, core] of decode(encode v)
	Aux     any    `json:"aux,omitempty"`    // delta bookkeeping of the decoded value
	Orig    any    `json:"orig,omitempty"`   // [tag, value, core] of v
	MergeOK bool   `json:"merge_ok"`         // w.Merge(dec) ~ w.Merge(v) and dec.Merge(w) ~ v.Merge(w) for the other slots w
	MergeN  int    `json:"merge_n"`
	Bytes   int    `json:"bytes"`
}

func c40RoundTrip(v crdt.ReplicatedData, slots []crdt.ReplicatedData) any {
	if crdt.VerifIsNil(v) {
		return nil
	}
	ser := ddata.NewCRDTValueSerializer()
	out := c40RT{Orig: crdt.VerifVC(v)}
	pb, err := ddata.EncodeCRDT(v, ser)
	if err != nil {
		out.EncErr = err.Error()
		return out
	}
	wire, err := proto.Marshal(pb)
	if err != nil {
		out.WireErr = err.Error()
		return out
	}
	out.Bytes = len(wire)
	pb2 := &internalpb.CRDTData{}
	if err := proto.Unmarshal(wire, pb2); err != nil {
		out.WireErr = err.Error()
		return out
	}
	dec, err := ddata.DecodeCRDT(pb2, ser)
	if err != nil {
		out.DecErr = err.Error()
		return out
	}
	out.RT = crdt.VerifVC(dec)
	out.Aux = crdt.VerifAux(dec)
	out.MergeOK = true
	same := func(a, b crdt.ReplicatedData) bool {
		return fmt.Sprint(crdt.VerifVC(a)) == fmt.Sprint(crdt.VerifVC(b))
	}
	for _, w := range slots {
		if crdt.VerifIsNil(w) || fmt.Sprintf("%T", w) != fmt.Sprintf("%T", v) {
			continue
		}
		out.MergeN++
		if !same(w.Merge(dec), w.Merge(v)) || !same(dec.Merge(w), v.Merge(w)) {
			out.MergeOK = false
		}
	}
	return out
}

func TestVerifC40Programs(t *testing.T) {
	dir := os.Getenv("VERIF_OUT")
	if dir == "" {
		t.Skip("VERIF_OUT not set: /verif harness only")
	}
	in, err := os.Open(filepath.Join(dir, "c40_prog.jsonl"))
	if err != nil {
		t.Fatal(err)
	}
	defer in.Close()
	outf, err := os.Create(filepath.Join(dir, "c40_out.jsonl"))
	if err != nil {
		t.Fatal(err)
	}
	defer outf.Close()
	w := bufio.NewWriter(outf)
	defer w.Flush()
	sc := bufio.NewScanner(in)
	sc.Buffer(make([]byte, 1<<20), 1<<28)
	for sc.Scan() {
		if len(sc.Bytes()) == 0 {
			continue
		}
		line := crdt.VerifRunJSON(sc.Bytes(), func(i int, op string, v crdt.ReplicatedData, slots []crdt.ReplicatedData) any {
			return c40RoundTrip(v, slots)
		})
		w.Write(line)
		w.WriteByte('\n')
	}
}

type c40KeyCase struct {
	ID   string `json:"id"`
	Type int    `json:"type"` // crdt.DataType for "enc", raw proto enum for "raw"
	Mode string `json:"mode"` // enc: EncodeCRDTKey -> wire -> DecodeCRDTKey; raw: hand-built proto key; nil: nil key
}
type c40KeyOut struct {
	ID    string `json:"id"`
	Type  int    `json:"type"`
	Mode  string `json:"mode"`
	Err   bool   `json:"err"`
	GotID string `json:"got_id"`
	GotTy int    `json:"got_type"`
}

func TestVerifC40Keys(t *testing.T) {
	dir := os.Getenv("VERIF_OUT")
	if dir == "" {
		t.Skip("VERIF_OUT not set: /verif harness only")
	}
	raw, err := os.ReadFile(filepath.Join(dir, "c40_keys.json"))
	if err != nil {
		t.Fatal(err)
	}
	var cases []c40KeyCase
	if err := json.Unmarshal(raw, &cases); err != nil {
		t.Fatal(err)
	}
	var outs []c40KeyOut
	for _, c := range cases {
		o := c40KeyOut{ID: c.ID, Type: c.Type, Mode: c.Mode}
		var pb *internalpb.CRDTKey
		switch c.Mode {
		case "enc":
			pb = codec.EncodeCRDTKey(c.ID, crdt.DataType(c.Type))
		case "raw":
			pb = &internalpb.CRDTKey{Id: c.ID, DataType: internalpb.CRDTDataType(c.Type)}
		case "nil":
			pb = nil
		}
		if pb != nil {
			wire, err := proto.Marshal(pb)
			if err != nil {
				t.Fatal(err)
			}
			pb2 := &internalpb.CRDTKey{}
			if err := proto.Unmarshal(wire, pb2); err != nil {
				t.Fatal(err)
			}
			pb = pb2
		}
		id, ty, err := codec.DecodeCRDTKey(pb)
		o.Err = err != nil
		o.GotID, o.GotTy = id, int(ty)
		outs = append(outs, o)
	}
	// unknown / nil CRDTData
	ser := ddata.NewCRDTValueSerializer()
	_, e1 := ddata.DecodeCRDT(nil, ser)
	_, e2 := ddata.DecodeCRDT(&internalpb.CRDTData{}, ser)
	_, e3 := ddata.EncodeCRDT(nil, ser)
	outs = append(outs, c40KeyOut{Mode: "nil-data", Err: e1 != nil}, c40KeyOut{Mode: "empty-oneof", Err: e2 != nil}, c40KeyOut{Mode: "encode-nil", Err: e3 != nil})
	b, _ := json.Marshal(outs)
	if err := os.WriteFile(filepath.Join(dir, "c40_keys_out.json"), b, 0o644); err != nil {
		t.Fatal(err)
	}
}
