//go:build verif

package crdt

import "testing"

// TestVerifC39Programs runs the replication programs chosen by checks/C39.py (originators with
// Delta/ResetDelta ship points, receivers folding deltas / full states in several orders) on the
// real crdt package.
func TestVerifC39Programs(t *testing.T) {
	progs := verifReadJSONL[vmProg](t, "c39_prog.jsonl")
	w := newVerifWriter(t, "c39_out.jsonl")
	defer w.close()
	for _, p := range progs {
		w.put(vmRun(p))
	}
}
