//go:build verif

package crdt

import "encoding/json"

// Exported entry points of the slot machine for external test packages (crdt_test), which may import
// packages that themselves import crdt (internal/ddata) without an import cycle.

type VerifHook func(i int, op string, written ReplicatedData, slots []ReplicatedData) any

// VerifRunJSON runs one program (a JSON line as written by checks/*.py) and returns the JSON result line.
func VerifRunJSON(line []byte, hook VerifHook) []byte {
	var p vmProg
	if err := json.Unmarshal(line, &p); err != nil {
		b, _ := json.Marshal(vmOut{Panic: "bad program: " + err.Error()})
		return b
	}
	var h vmHook
	if hook != nil {
		h = func(i int, op vmOp, w ReplicatedData, slots []ReplicatedData) any { return hook(i, op.O, w, slots) }
	}
	b, _ := json.Marshal(vmRunHook(p, h))
	return b
}

func VerifVC(x ReplicatedData) any   { return vmVC(x) }
func VerifAux(x ReplicatedData) any  { return vmAux(x) }
func VerifIsNil(x ReplicatedData) bool { return isNilRD(x) }
