//go:build verif

package actor

// C15 harness: the REAL Ask paths (PID.Ask, package Ask, handleRemoteAsk) and the real Response,
// pools and mailbox, on a real actor system.
//
//   TestVerifC15Script  a director executes scripted interleavings: every asker goroutine and every
//                       handler invocation is a controlled thread that parks at the yield points the
//                       script names (emulated preemption at the atomic steps of the reply path); the
//                       order in which the steps were executed is logged. checks/C15.py replays
//                       the log through the Coq model and evaluates the property's oracle.
//   TestVerifC15Stress  no director: many askers with short timeouts against handlers with random
//                       delays; every reply carries the id of its request.

import (
	"bytes"
	"context"
	"fmt"
	"runtime"
	"strconv"
	"sync"
	"sync/atomic"
	"testing"
	"time"

	"github.com/tochemey/goakt/v4/log"
)

type c15Msg struct {
	ID, NResp int
	DelayUs   int
}
type c15Reply struct{ ID int }
type c15Filler struct{ done chan struct{} }

// c15Piped: a message that reaches the actor by a path that is NOT an Ask (Tell, PipeTo, PipeToName);
// the handler nevertheless calls Response with a reply no Ask may ever see.
type c15Piped struct {
	ID   int
	done chan struct{}
}

const c15NoiseBase = 900000

func c15Goid() uint64 {
	var buf [64]byte
	n := runtime.Stack(buf[:], false)
	f := bytes.Fields(buf[:n])
	id, _ := strconv.ParseUint(string(f[1]), 10, 64)
	return id
}

type c15Event struct {
	done     bool
	fn, kind string
}

type c15Thread struct {
	name     string
	untilFn  string
	untilK   string
	resume   chan struct{}
	events   chan c15Event
	parkedAt c15Event
	finished bool
}

type c15LogEntry struct {
	T    string `json:"t"`
	Fn   string `json:"fn"`
	Kind string `json:"kind"`
}

type c15AskRes struct {
	ID       int    `json:"id"`
	Reply    int    `json:"reply"` // -1: error
	Err      string `json:"err"`
	Ctx      int    `json:"ctx"`  // identity of the ReceiveContext the handler saw (-1: handler never ran)
	Chan     int    `json:"chan"` // identity of the reply channel the handler saw
	Api      string `json:"api"`
	TimeoutMs int   `json:"timeout_ms"`
}

type c15Director struct {
	mu      sync.Mutex
	threads map[uint64]*c15Thread
	byName  map[string]*c15Thread
	log     []c15LogEntry
	ctxIDs  map[*ReceiveContext]int
	chIDs   map[chan any]int
	res     map[int]*c15AskRes
	appear  chan string
	selAt   map[int]time.Time
}

func newC15Director() *c15Director {
	return &c15Director{threads: map[uint64]*c15Thread{}, byName: map[string]*c15Thread{}, ctxIDs: map[*ReceiveContext]int{},
		chIDs: map[chan any]int{}, res: map[int]*c15AskRes{}, appear: make(chan string, 64), selAt: map[int]time.Time{}}
}

func (d *c15Director) register(name string) *c15Thread {
	t := &c15Thread{name: name, resume: make(chan struct{}), events: make(chan c15Event, 1)}
	d.mu.Lock()
	d.threads[c15Goid()] = t
	d.byName[name] = t
	d.mu.Unlock()
	return t
}

func (d *c15Director) unregister() {
	d.mu.Lock()
	delete(d.threads, c15Goid())
	d.mu.Unlock()
}

func (d *c15Director) hook(fn, kind string) {
	d.mu.Lock()
	t := d.threads[c15Goid()]
	d.mu.Unlock()
	if t == nil {
		return
	}
	d.point(t, fn, kind)
}

// point: park if the script asked for it, then log the step as executed.
func (d *c15Director) point(t *c15Thread, fn, kind string) {
	if (t.untilFn == "" || t.untilFn == fn) && (t.untilK == "" || t.untilK == kind) {
		t.events <- c15Event{fn: fn, kind: kind}
		<-t.resume
	}
	d.mu.Lock()
	d.log = append(d.log, c15LogEntry{T: t.name, Fn: fn, Kind: kind})
	d.mu.Unlock()
}

func (d *c15Director) note(name, what string) {
	d.mu.Lock()
	d.log = append(d.log, c15LogEntry{T: name, Fn: "director", Kind: what})
	d.mu.Unlock()
}

type c15Actor struct{ d *c15Director }

func (a *c15Actor) PreStart(*Context) error { return nil }
func (a *c15Actor) PostStop(*Context) error { return nil }
func (a *c15Actor) Receive(ctx *ReceiveContext) {
	switch m := ctx.Message().(type) {
	case *c15Msg:
		d := a.d
		if d == nil { // stress mode
			if m.DelayUs > 0 {
				time.Sleep(time.Duration(m.DelayUs) * time.Microsecond)
			}
			for k := 0; k < m.NResp; k++ {
				ctx.Response(&c15Reply{ID: m.ID})
			}
			c15StressSent(m.ID)
			return
		}
		name := fmt.Sprintf("R%d", m.ID)
		t := d.register(name)
		d.mu.Lock()
		if _, ok := d.ctxIDs[ctx]; !ok {
			d.ctxIDs[ctx] = len(d.ctxIDs)
		}
		if _, ok := d.chIDs[ctx.response]; !ok {
			d.chIDs[ctx.response] = len(d.chIDs)
		}
		if r := d.res[m.ID]; r != nil {
			r.Ctx, r.Chan = d.ctxIDs[ctx], d.chIDs[ctx.response]
		}
		d.mu.Unlock()
		d.appear <- name
		for k := 0; k < m.NResp; k++ {
			ctx.Response(&c15Reply{ID: m.ID})
		}
		d.point(t, "handler", "end")
		t.events <- c15Event{done: true}
		d.unregister()
	case *c15Filler:
		close(m.done)
	case *c15Piped:
		ctx.Response(&c15Reply{ID: c15NoiseBase + m.ID})
		if m.done != nil {
			close(m.done)
		}
	}
}

type c15Op struct {
	Op        string `json:"op"` // start | run | wait_parked | sleep_deadline | tell | drain_ctx_pool | drain_ch_pool
	I         int    `json:"i"`
	T         string `json:"t"`
	Api       string `json:"api"` // pid | pkg | remote
	TimeoutMs int    `json:"timeout_ms"`
	NResp     int    `json:"nresp"`
	UntilFn   string `json:"until_fn"`
	UntilKind string `json:"until_kind"`
	Done      bool   `json:"done"` // run until the thread finishes
	N         int    `json:"n"`
	Target    int    `json:"target"`
	Cancel    bool   `json:"cancel"` // start: the Ask gets a cancellable context (cancelled by op "cancel")
	Kind      string `json:"kind"`   // noise: tell | pipe | pipename
}

type c15Case struct {
	ID     int     `json:"id"`
	Name   string  `json:"name"`
	Script []c15Op `json:"script"`
}

type c15Out struct {
	ID    int           `json:"id"`
	Log   []c15LogEntry `json:"log"`
	Asks  []c15AskRes   `json:"asks"`
	Error string        `json:"error"`
}

func c15DrainPools(ctxPool, chPool bool) {
	for ctxPool {
		select {
		case <-contextCh:
		default:
			ctxPool = false
		}
	}
	for chPool {
		select {
		case <-responseCh:
		default:
			chPool = false
		}
	}
}

func c15RunCase(t *testing.T, sys ActorSystem, c c15Case) c15Out {
	out := c15Out{ID: c.ID}
	d := newC15Director()
	ctx := context.Background()
	targets := []*PID{}
	for k := 0; k < 2; k++ {
		p, err := sys.Spawn(ctx, fmt.Sprintf("c15-%d-%d", c.ID, k), &c15Actor{d: d})
		if err != nil {
			out.Error = "spawn: " + err.Error()
			return out
		}
		targets = append(targets, p)
	}
	defer func() {
		for _, p := range targets {
			_ = p.Shutdown(ctx)
		}
	}()
	verifC15Hook = d.hook
	defer func() { verifC15Hook = nil }()
	// cases are independent: a reply channel pooled by an earlier case may hold a stale reply
	c15DrainPools(false, true)
	order := []int{}
	cancels := map[int]context.CancelFunc{}
	wait := func(th *c15Thread) (c15Event, bool) {
		select {
		case e := <-th.events:
			return e, true
		case <-time.After(4 * time.Second):
			return c15Event{}, false
		}
	}
	fail := func(f string, a ...any) c15Out {
		out.Error = fmt.Sprintf(f, a...)
		// release everything that is parked so the goroutines can end
		d.mu.Lock()
		ths := []*c15Thread{}
		for _, th := range d.byName {
			ths = append(ths, th)
		}
		d.mu.Unlock()
		for _, th := range ths {
			th.untilFn, th.untilK = "never", "never"
			select {
			case th.resume <- struct{}{}:
			default:
			}
		}
		time.Sleep(50 * time.Millisecond)
		return out
	}
	for n, op := range c.Script {
		switch op.Op {
		case "drain_ctx_pool":
			c15DrainPools(true, false)
		case "drain_ch_pool":
			c15DrainPools(false, true)
		case "keep_only_ctx":
			// empty the context pool except for the context ask op.I used (if it has been recycled):
			// emulates "thousands of other messages went by" for the FIFO pool
			var want *ReceiveContext
			d.mu.Lock()
			if r := d.res[op.I]; r != nil {
				for c, id := range d.ctxIDs {
					if id == r.Ctx {
						want = c
					}
				}
			}
			d.mu.Unlock()
			found := false
			for more := true; more; {
				select {
				case c := <-contextCh:
					if c == want {
						found = true
					}
				default:
					more = false
				}
			}
			if found {
				contextCh <- want
			}
		case "start":
			i := op.I
			res := &c15AskRes{ID: i, Reply: -1, Ctx: -1, Chan: -1, Api: op.Api, TimeoutMs: op.TimeoutMs}
			d.mu.Lock()
			d.res[i] = res
			d.mu.Unlock()
			order = append(order, i)
			started := make(chan *c15Thread, 1)
			to := targets[op.Target%len(targets)]
			msg := &c15Msg{ID: i, NResp: op.NResp}
			timeout := time.Duration(op.TimeoutMs) * time.Millisecond
			actx := ctx
			if op.Cancel {
				var cf context.CancelFunc
				actx, cf = context.WithCancel(ctx)
				cancels[i] = cf
			}
			go func() {
				th := d.register(fmt.Sprintf("A%d", i))
				started <- th
				d.point(th, "harness", "start")
				var r any
				var err error
				switch op.Api {
				case "pkg":
					r, err = Ask(actx, to, msg, timeout)
				case "remote":
					r, err = sys.(*actorSystem).handleRemoteAsk(actx, to, msg, timeout)
				default:
					r, err = sys.NoSender().Ask(actx, to, msg, timeout)
				}
				d.mu.Lock()
				if err != nil {
					res.Err = err.Error()
				} else if rep, ok := r.(*c15Reply); ok {
					res.Reply = rep.ID
				} else {
					res.Err = fmt.Sprintf("unexpected reply %T", r)
				}
				d.mu.Unlock()
				th.finished = true
				th.events <- c15Event{done: true}
				d.unregister()
			}()
			th := <-started
			if _, ok := wait(th); !ok {
				return fail("op %d: asker %d did not start", n, i)
			}
		case "run":
			d.mu.Lock()
			th := d.byName[op.T]
			d.mu.Unlock()
			if th == nil {
				return fail("op %d: unknown thread %s", n, op.T)
			}
			if op.Done {
				th.untilFn, th.untilK = "never", "never"
			} else {
				th.untilFn, th.untilK = op.UntilFn, op.UntilKind
			}
			th.resume <- struct{}{}
			e, ok := wait(th)
			if !ok {
				return fail("op %d: thread %s neither parked nor finished", n, op.T)
			}
			if op.Done != e.done {
				if e.done {
					return fail("op %d: thread %s finished before reaching %s/%s", n, op.T, op.UntilFn, op.UntilKind)
				}
				return fail("op %d: thread %s parked at %s/%s", n, op.T, e.fn, e.kind)
			}
			if !e.done && e.fn != "harness" && e.kind == "select" && op.T[0] == 'A' {
				var i int
				fmt.Sscanf(op.T, "A%d", &i)
				if _, seen := d.selAt[i]; !seen {
					d.selAt[i] = time.Now()
				}
			}
		case "wait_parked":
			deadline := time.After(4 * time.Second)
			for got := false; !got; {
				select {
				case name := <-d.appear:
					if name == op.T {
						got = true
					} else {
						return fail("op %d: handler %s started while waiting for %s", n, name, op.T)
					}
				case <-deadline:
					return fail("op %d: handler %s did not start", n, op.T)
				}
			}
			d.mu.Lock()
			th := d.byName[op.T]
			d.mu.Unlock()
			if _, ok := wait(th); !ok {
				return fail("op %d: handler %s did not reach Response", n, op.T)
			}
		case "sleep_deadline":
			at, ok := d.selAt[op.I]
			d.mu.Lock()
			r := d.res[op.I]
			d.mu.Unlock()
			if !ok || r == nil {
				return fail("op %d: asker %d is not waiting", n, op.I)
			}
			time.Sleep(time.Until(at.Add(time.Duration(r.TimeoutMs)*time.Millisecond + 25*time.Millisecond)))
			d.note(fmt.Sprintf("A%d", op.I), "tick")
		case "cancel":
			if cf := cancels[op.I]; cf != nil {
				cf()
				time.Sleep(5 * time.Millisecond)
				d.note(fmt.Sprintf("A%d", op.I), "tick")
			} else {
				return fail("op %d: ask %d has no cancellable context", n, op.I)
			}
		case "noise":
			// deliveries that are not Asks, to an actor that calls Response on them
			for k := 0; k < op.N; k++ {
				m := &c15Piped{ID: 100*n + k, done: make(chan struct{})}
				to := targets[op.Target%len(targets)]
				from := targets[(op.Target+1)%len(targets)]
				var err error
				switch op.Kind {
				case "pipe":
					err = from.PipeTo(ctx, to, func() (any, error) { return m, nil })
				case "pipename":
					err = from.PipeToName(ctx, to.Name(), func() (any, error) { return m, nil })
				default:
					err = from.Tell(ctx, to, m)
				}
				if err != nil {
					return fail("op %d: noise %s: %v", n, op.Kind, err)
				}
				select {
				case <-m.done:
				case <-time.After(4 * time.Second):
					return fail("op %d: noise message not handled", n)
				}
			}
			d.note("env", "noise")
		case "tell":
			for k := 0; k < op.N; k++ {
				f := &c15Filler{done: make(chan struct{})}
				if err := Tell(ctx, targets[op.Target%len(targets)], f); err != nil {
					return fail("op %d: tell: %v", n, err)
				}
				select {
				case <-f.done:
				case <-time.After(4 * time.Second):
					return fail("op %d: filler not handled", n)
				}
			}
			d.note("env", "recycle")
		}
	}
	d.mu.Lock()
	out.Log = d.log
	for _, i := range order {
		out.Asks = append(out.Asks, *d.res[i])
	}
	d.mu.Unlock()
	return out
}

func c15System(t *testing.T) ActorSystem {
	sys, err := NewActorSystem("verifC15", WithLogger(log.DiscardLogger))
	if err != nil {
		t.Fatal(err)
	}
	if err := sys.Start(context.Background()); err != nil {
		t.Fatal(err)
	}
	time.Sleep(300 * time.Millisecond)
	return sys
}

func TestVerifC15Script(t *testing.T) {
	cases := verifReadJSONL[c15Case](t, "c15_in.jsonl")
	w := newVerifWriter(t, "c15_out.jsonl")
	defer w.close()
	sys := c15System(t)
	defer func() { _ = sys.Stop(context.Background()) }()
	for _, c := range cases {
		w.put(c15RunCase(t, sys, c))
	}
}

// ---------------------------------------------------------------- stress

var c15SentAt sync.Map // ask id -> int64 (UnixNano at which the handler's Response calls had returned)

func c15StressSent(id int) { c15SentAt.Store(id, time.Now().UnixNano()) }

type c15StressRec struct {
	ID        int    `json:"id"`
	Reply     int    `json:"reply"`
	Err       string `json:"err"`
	StartNs   int64  `json:"start_ns"`
	EndNs     int64  `json:"end_ns"`
	TimeoutNs int64  `json:"timeout_ns"`
	SentNs    int64  `json:"sent_ns"` // 0: the handler had not finished when the record was written
	DelayUs   int    `json:"delay_us"`
	Api       string `json:"api"`
}

func TestVerifC15Stress(t *testing.T) {
	w := newVerifWriter(t, "c15_stress.jsonl")
	defer w.close()
	sys := c15System(t)
	ctx := context.Background()
	defer func() { _ = sys.Stop(ctx) }()
	// the scripted test before this one may have left stale replies in pooled channels (that is the listed
	// defect): start from an empty pool
	c15DrainPools(false, true)
	nAskers := verifEnvInt("VERIF_C15_ASKERS", 24)
	perAsker := verifEnvInt("VERIF_C15_PER_ASKER", 120)
	targets := []*PID{}
	for k := 0; k < 3; k++ {
		p, err := sys.Spawn(ctx, fmt.Sprintf("c15s-%d", k), &c15Actor{})
		if err != nil {
			t.Fatal(err)
		}
		targets = append(targets, p)
	}
	var mu sync.Mutex
	recs := []c15StressRec{}
	var wg sync.WaitGroup
	var nextID atomic.Int64
	// background traffic that is not Ask: Tell / PipeTo / PipeToName of messages the targets Response to
	stopNoise := make(chan struct{})
	var nwg sync.WaitGroup
	nwg.Add(1)
	go func() {
		defer nwg.Done()
		rng := newVerifRNG(verifSeed() + 4242)
		for k := 0; ; k++ {
			select {
			case <-stopNoise:
				return
			default:
			}
			to, from := targets[rng.intn(len(targets))], targets[rng.intn(len(targets))]
			m := &c15Piped{ID: k % 1000}
			switch rng.intn(3) {
			case 0:
				_ = from.Tell(ctx, to, m)
			case 1:
				_ = from.PipeTo(ctx, to, func() (any, error) { return m, nil })
			default:
				_ = from.PipeToName(ctx, to.Name(), func() (any, error) { return m, nil })
			}
			time.Sleep(200 * time.Microsecond)
		}
	}()
	for a := 0; a < nAskers; a++ {
		wg.Add(1)
		go func(a int) {
			defer wg.Done()
			rng := newVerifRNG(verifSeed()*1000 + uint64(a))
			for k := 0; k < perAsker; k++ {
				id := int(nextID.Add(1))
				timeoutUs := 300 + rng.intn(2500)
				delayUs := 0
				switch rng.intn(4) {
				case 0:
					delayUs = 0
				case 1:
					delayUs = timeoutUs - 150 + rng.intn(300) // around the deadline
				case 2:
					delayUs = rng.intn(2 * timeoutUs)
				case 3:
					delayUs = timeoutUs + 200 + rng.intn(1000)
				}
				if delayUs < 0 {
					delayUs = 0
				}
				api := []string{"pid", "pkg", "remote"}[rng.intn(3)]
				msg := &c15Msg{ID: id, NResp: 1 + rng.intn(2), DelayUs: delayUs}
				to := targets[rng.intn(len(targets))]
				timeout := time.Duration(timeoutUs) * time.Microsecond
				rec := c15StressRec{ID: id, Reply: -1, TimeoutNs: int64(timeout), DelayUs: delayUs, Api: api}
				rec.StartNs = time.Now().UnixNano()
				var r any
				var err error
				switch api {
				case "pkg":
					r, err = Ask(ctx, to, msg, timeout)
				case "remote":
					r, err = sys.(*actorSystem).handleRemoteAsk(ctx, to, msg, timeout)
				default:
					r, err = sys.NoSender().Ask(ctx, to, msg, timeout)
				}
				rec.EndNs = time.Now().UnixNano()
				if err != nil {
					rec.Err = err.Error()
				} else if rep, ok := r.(*c15Reply); ok {
					rec.Reply = rep.ID
				} else {
					rec.Err = fmt.Sprintf("unexpected reply %T", r)
				}
				mu.Lock()
				recs = append(recs, rec)
				mu.Unlock()
			}
		}(a)
	}
	wg.Wait()
	close(stopNoise)
	nwg.Wait()
	time.Sleep(100 * time.Millisecond)
	for i := range recs {
		if v, ok := c15SentAt.Load(recs[i].ID); ok {
			recs[i].SentNs = v.(int64)
		}
		w.put(recs[i])
	}
}
