//go:build verif

package actor

// C03 harness: per-sender FIFO on REAL actors (real actor system, real dispatcher, real mailboxes).
//   TestVerifC03Gate    deterministic op sequences (sends, stash on/off, unstash one/all) queued behind a
//                       gate message, then released: the processing log is compared with C03/Model.v
//   TestVerifC03Actors  concurrent sender goroutines (Tell, BatchTell, PID.Tell, PID.BatchTell) with a
//                       controller toggling stash phases; oracle: (sender, seq) monotone per sender,
//                       stashed messages re-delivered exactly once in stash order

import (
	"context"
	"fmt"
	"runtime"
	"sync"
	"sync/atomic"
	"testing"
	"time"

	"github.com/tochemey/goakt/v4/log"
	"github.com/tochemey/goakt/v4/reentrancy"
)

type c03Msg struct {
	Sender, Seq int
}
type c03Gate struct {
	entered chan struct{}
	release chan struct{}
}
type c03Ctl struct {
	Cmd int // 1 stash on, 2 stash off, 3 unstash all, 4 unstash one, 5 flush (stash off + unstash all + fin), 6 fin
	Ack chan int
}

type c03Ev struct {
	Kind   int // 0 handled, 1 stashed
	Sender int
	Seq    int
}

type c03Ack struct{ Seq int }

type c03Actor struct {
	ackTo    *PID // driver scenarios: every processed message is answered (Response for a Request, Tell otherwise)
	mu       sync.Mutex
	log      []c03Ev
	stashing bool
	nstash   int
	done     chan struct{}
	handled  atomic.Int64
}

func (a *c03Actor) PreStart(*Context) error { return nil }
func (a *c03Actor) PostStop(*Context) error { return nil }
func (a *c03Actor) Receive(ctx *ReceiveContext) {
	switch m := ctx.Message().(type) {
	case *c03Gate:
		close(m.entered)
		<-m.release
	case *c03Msg:
		a.mu.Lock()
		if a.stashing {
			a.log = append(a.log, c03Ev{1, m.Sender, m.Seq})
			a.nstash++
			a.mu.Unlock()
			ctx.Stash()
			return
		}
		a.log = append(a.log, c03Ev{0, m.Sender, m.Seq})
		a.mu.Unlock()
		a.handled.Add(1)
		if a.ackTo != nil {
			if ctx.CorrelationID() != "" {
				ctx.Response(&c03Ack{m.Seq})
			} else {
				ctx.Tell(a.ackTo, &c03Ack{m.Seq})
			}
		}
	case *c03Ctl:
		a.mu.Lock()
		n := a.nstash
		switch m.Cmd {
		case 1:
			a.stashing = true
		case 2:
			a.stashing = false
		case 3:
			a.nstash = 0
		case 4:
			if a.nstash > 0 {
				a.nstash--
			}
		case 5:
			a.stashing = false
			a.nstash = 0
		}
		a.mu.Unlock()
		switch m.Cmd {
		case 3:
			ctx.UnstashAll()
		case 4:
			if n > 0 {
				ctx.Unstash()
			}
		case 5:
			ctx.UnstashAll()
			// fin goes behind every re-delivered message
			_ = Tell(context.Background(), ctx.Self(), &c03Ctl{Cmd: 6})
		case 6:
			close(a.done)
		}
		if m.Ack != nil {
			m.Ack <- n
		}
	}
}

func (a *c03Actor) snapshot() []c03Ev {
	a.mu.Lock()
	defer a.mu.Unlock()
	return append([]c03Ev{}, a.log...)
}

func c03System(t *testing.T) ActorSystem {
	sys, err := NewActorSystem("verifC03", WithLogger(log.DiscardLogger))
	if err != nil {
		t.Fatalf("NewActorSystem: %v", err)
	}
	if err := sys.Start(context.Background()); err != nil {
		t.Fatalf("Start: %v", err)
	}
	return sys
}

func c03Mailbox(kind string, capacity int) Mailbox {
	return c04NewMailbox(kind, capacity, 0)
}

type c03GateCase struct {
	K   string
	C   int
	Ops [][]int // [code, id]: 0 send id, 1 stash on, 2 stash off, 3 unstash all, 4 unstash one; [7, n] = next n sends as one BatchTell
}
type c03GateOut struct {
	I   int
	Log [][]int // [kind, id]
	Err string
}

func TestVerifC03Gate(t *testing.T) {
	cases := verifReadJSONL[c03GateCase](t, "c03_gate_in.jsonl")
	w := newVerifWriter(t, "c03_gate_out.jsonl")
	defer w.close()
	sys := c03System(t)
	defer sys.Stop(context.Background())
	ctx := context.Background()
	for ci, c := range cases {
		out := c03GateOut{I: ci}
		a := &c03Actor{done: make(chan struct{})}
		pid, err := sys.Spawn(ctx, fmt.Sprintf("gate-%d", ci), a, WithMailbox(c03Mailbox(c.K, c.C)), WithStashing())
		if err != nil {
			out.Err = "spawn: " + err.Error()
			w.put(out)
			continue
		}
		g := &c03Gate{entered: make(chan struct{}), release: make(chan struct{})}
		if err := Tell(ctx, pid, g); err != nil {
			out.Err = "tell gate: " + err.Error()
		}
		select {
		case <-g.entered:
		case <-time.After(30 * time.Second):
			out.Err = "gate message never processed"
		}
		for i := 0; i < len(c.Ops) && out.Err == ""; i++ {
			op := c.Ops[i]
			var err error
			switch op[0] {
			case 0:
				err = Tell(ctx, pid, &c03Msg{0, op[1]})
			case 7:
				var batch []any
				for j := 1; j <= op[1] && i+j < len(c.Ops); j++ {
					batch = append(batch, &c03Msg{0, c.Ops[i+j][1]})
				}
				i += len(batch)
				err = BatchTell(ctx, pid, batch...)
			default:
				err = Tell(ctx, pid, &c03Ctl{Cmd: op[0]})
			}
			if err != nil {
				out.Err = "tell: " + err.Error()
			}
		}
		if out.Err == "" {
			if err := Tell(ctx, pid, &c03Ctl{Cmd: 5}); err != nil {
				out.Err = "tell flush: " + err.Error()
			}
		}
		close(g.release)
		if out.Err == "" {
			select {
			case <-a.done:
			case <-time.After(30 * time.Second):
				out.Err = "timeout: not every queued message was processed"
			}
		}
		for _, e := range a.snapshot() {
			out.Log = append(out.Log, []int{e.Kind, e.Seq})
		}
		_ = pid.Shutdown(ctx)
		w.put(out)
	}
}

type c03StressCfg struct {
	K        string
	C        int
	Senders  int
	PerSend  int
	Mode     int // 0 api.Tell, 1 api.BatchTell chunks, 2 PID.Tell from distinct sender actors, 3 PID.BatchTell, 4 mixed
	Stash    int // number of stash phases driven by the controller (0: none)
	Procs    int
	Lossless bool
}
type c03StressOut struct {
	Cfg        c03StressCfg
	Sent       int
	Handled    int
	Stashed    int
	Millis     int64
	Violations []c04Viol
}

type c03Nop struct{}

func (c03Nop) PreStart(*Context) error { return nil }
func (c03Nop) PostStop(*Context) error { return nil }
func (c03Nop) Receive(*ReceiveContext)  {}

func c03Stress(t *testing.T, sys ActorSystem, idx int, cfg c03StressCfg) c03StressOut {
	if cfg.Procs > 0 {
		defer runtime.GOMAXPROCS(runtime.GOMAXPROCS(cfg.Procs))
	}
	ctx := context.Background()
	start := time.Now()
	out := c03StressOut{Cfg: cfg}
	add := func(sig, what string) {
		for _, v := range out.Violations {
			if v.Sig == cfg.K+":"+sig {
				return
			}
		}
		out.Violations = append(out.Violations, c04Viol{Sig: cfg.K + ":" + sig, What: what})
	}
	a := &c03Actor{done: make(chan struct{})}
	pid, err := sys.Spawn(ctx, fmt.Sprintf("rec-%d", idx), a, WithMailbox(c03Mailbox(cfg.K, cfg.C)), WithStashing())
	if err != nil {
		add("harness", "spawn: "+err.Error())
		return out
	}
	senders := make([]*PID, cfg.Senders)
	for s := range senders {
		if cfg.Mode >= 2 {
			sp, err := sys.Spawn(ctx, fmt.Sprintf("snd-%d-%d", idx, s), c03Nop{})
			if err != nil {
				add("harness", "spawn sender: "+err.Error())
				return out
			}
			senders[s] = sp
		}
	}
	var wg sync.WaitGroup
	var sent atomic.Int64
	for s := 0; s < cfg.Senders; s++ {
		wg.Add(1)
		go func(s int) {
			defer wg.Done()
			rng := newVerifRNG(verifSeed()*131 + uint64(idx*64+s))
			for k := 0; k < cfg.PerSend; {
				mode := cfg.Mode
				if mode == 4 {
					// one sender identity per goroutine (the fair mailbox orders per sender PID):
					// even senders use the anonymous API, odd ones their own sender actor
					mode = (s%2)*2 + rng.intn(2)
				}
				if mode >= 2 && senders[s] == nil {
					mode -= 2
				}
				n := 1
				if mode == 1 || mode == 3 {
					n = 1 + rng.intn(7)
					if k+n > cfg.PerSend {
						n = cfg.PerSend - k
					}
				}
				msgs := make([]any, n)
				for j := range msgs {
					msgs[j] = &c03Msg{s, k + j}
				}
				var err error
				switch mode {
				case 0:
					err = Tell(ctx, pid, msgs[0])
				case 1:
					err = BatchTell(ctx, pid, msgs...)
				case 2:
					err = senders[s].Tell(ctx, pid, msgs[0])
				case 3:
					err = senders[s].BatchTell(ctx, pid, msgs...)
				}
				if err != nil {
					add("tell-error", "Tell returned "+err.Error())
					return
				}
				sent.Add(int64(n))
				k += n
				if rng.intn(5) == 0 {
					runtime.Gosched()
				}
			}
		}(s)
	}
	// controller: stash phases; each phase ends with unstash-all (or a run of unstash-one) and is
	// separated from the next by an acknowledged control message
	ctlDone := make(chan struct{})
	go func() {
		defer close(ctlDone)
		for ph := 0; ph < cfg.Stash; ph++ {
			time.Sleep(time.Duration(200+ph*150) * time.Microsecond)
			ack := make(chan int, 1)
			_ = Tell(ctx, pid, &c03Ctl{Cmd: 1})
			time.Sleep(300 * time.Microsecond)
			_ = Tell(ctx, pid, &c03Ctl{Cmd: 2})
			if ph%2 == 1 {
				_ = Tell(ctx, pid, &c03Ctl{Cmd: 4})
				_ = Tell(ctx, pid, &c03Ctl{Cmd: 4})
			}
			_ = Tell(ctx, pid, &c03Ctl{Cmd: 3, Ack: ack})
			select {
			case <-ack:
			case <-time.After(20 * time.Second):
				return
			}
			// this one is queued behind every re-delivered message: its ack ends the phase
			_ = Tell(ctx, pid, &c03Ctl{Cmd: 2, Ack: ack})
			select {
			case <-ack:
			case <-time.After(20 * time.Second):
				return
			}
		}
	}()
	wg.Wait()
	<-ctlDone
	if !cfg.Lossless {
		// a full non-blocking mailbox would also refuse the flush message: let the actor catch up first
		for i := 0; i < 3000 && !pid.mailbox.IsEmpty(); i++ {
			time.Sleep(time.Millisecond)
		}
	}
	_ = Tell(ctx, pid, &c03Ctl{Cmd: 5})
	finished := true
	select {
	case <-a.done:
	case <-time.After(25 * time.Second):
		finished = false
	}
	ev := a.snapshot()
	out.Sent = int(sent.Load())
	// oracle
	last := make([]int, cfg.Senders)
	for i := range last {
		last[i] = -1
	}
	type key struct{ s, q int }
	var global []key             // stashed, not yet re-delivered, in stash order
	perSender := map[int][]key{} // the same per sender
	stashedNow := map[key]bool{}
	everStashed := map[key]bool{}
	seen := map[key]int{}
	for _, e := range ev {
		k := key{e.Sender, e.Seq}
		if e.Kind == 1 {
			out.Stashed++
			global = append(global, k)
			perSender[k.s] = append(perSender[k.s], k)
			stashedNow[k] = true
			everStashed[k] = true
			continue
		}
		out.Handled++
		seen[k]++
		if seen[k] > 1 {
			add("duplicated", fmt.Sprintf("message (sender %d, seq %d) processed twice", e.Sender, e.Seq))
		}
		if stashedNow[k] {
			// a re-delivery: must be the oldest message of its sender still stashed; with a single
			// FIFO queue (every kind but the fair mailbox) the oldest stashed message overall
			if q := perSender[k.s]; len(q) > 0 && q[0] != k {
				add("stash-order", fmt.Sprintf("unstashed (sender %d, seq %d) was processed before the older stashed (sender %d, seq %d)", e.Sender, e.Seq, q[0].s, q[0].q))
			} else if cfg.K != "fair" && len(global) > 0 && global[0] != k {
				add("stash-order", fmt.Sprintf("unstashed (sender %d, seq %d) was processed before the older stashed (sender %d, seq %d)", e.Sender, e.Seq, global[0].s, global[0].q))
			}
			rm := func(l []key) []key {
				for i, x := range l {
					if x == k {
						return append(append([]key{}, l[:i]...), l[i+1:]...)
					}
				}
				return l
			}
			global, perSender[k.s] = rm(global), rm(perSender[k.s])
			delete(stashedNow, k)
			continue
		}
		if cfg.Stash == 0 {
			if e.Seq <= last[e.Sender] {
				add("fifo-order", fmt.Sprintf("sender %d: seq %d processed after seq %d", e.Sender, e.Seq, last[e.Sender]))
			}
			last[e.Sender] = e.Seq
		}
	}
	if cfg.Stash > 0 {
		// never-stashed messages of one sender keep send order among themselves
		for _, e := range ev {
			k := key{e.Sender, e.Seq}
			if e.Kind != 0 || everStashed[k] {
				continue
			}
			if e.Seq <= last[e.Sender] {
				add("fifo-order", fmt.Sprintf("sender %d: seq %d processed after seq %d (neither was stashed)", e.Sender, e.Seq, last[e.Sender]))
			}
			last[e.Sender] = e.Seq
		}
		// stash order itself follows arrival order per sender within a phase: checked through re-delivery order above
		if finished && len(stashedNow) > 0 {
			add("stash-lost", fmt.Sprintf("%d stashed messages were never re-delivered after the final unstash-all", len(stashedNow)))
		}
	}
	if !finished {
		if cfg.K == "fair" {
			add("stuck-at-quiescence:real-actors", fmt.Sprintf("all senders returned, %d sent, %d processed, the actor makes no progress (mailbox Len=%d)", out.Sent, out.Handled, pid.mailbox.Len()))
		} else {
			add("no-progress", fmt.Sprintf("all senders returned, %d sent, %d processed, the actor makes no progress", out.Sent, out.Handled))
		}
	} else if cfg.Lossless && out.Handled != out.Sent {
		add("lost", fmt.Sprintf("%d messages sent, %d processed", out.Sent, out.Handled))
	}
	_ = pid.Shutdown(ctx)
	for _, sp := range senders {
		if sp != nil {
			_ = sp.Shutdown(ctx)
		}
	}
	out.Millis = time.Since(start).Milliseconds()
	return out
}

func TestVerifC03Actors(t *testing.T) {
	cfgs := verifReadJSONL[c03StressCfg](t, "c03_stress_in.jsonl")
	w := newVerifWriter(t, "c03_stress_out.jsonl")
	defer w.close()
	sys := c03System(t)
	defer sys.Stop(context.Background())
	for i, cfg := range cfgs {
		w.put(c03Stress(t, sys, i, cfg))
	}
}

// ------------------------------------------------------------------------------------------------
// sender programs mixing Tell, BatchTell and Request, issued by ONE sender actor from one handler
// invocation towards one busy receiver; the receiver answers every processed message (Response
// for a Request, Tell otherwise) towards the then busy sender.

type c03Prog struct {
	Ops  [][]int
	To   *PID
	sent chan struct{}
}

type c03Driver struct {
	mu   sync.Mutex
	acks []int
	errs []string
	want int
	done chan struct{}
	once sync.Once
}

func (d *c03Driver) PreStart(*Context) error { return nil }
func (d *c03Driver) PostStop(*Context) error { return nil }
func (d *c03Driver) record(seq int) {
	d.mu.Lock()
	d.acks = append(d.acks, seq)
	n := len(d.acks)
	d.mu.Unlock()
	if n >= d.want {
		d.once.Do(func() { close(d.done) })
	}
}
func (d *c03Driver) Receive(ctx *ReceiveContext) {
	switch m := ctx.Message().(type) {
	case *c03Gate:
		close(m.entered)
		<-m.release
	case *c03Ack:
		d.record(m.Seq)
	case *c03Prog:
		for i := 0; i < len(m.Ops); i++ {
			op := m.Ops[i]
			switch op[0] {
			case 0:
				ctx.Tell(m.To, &c03Msg{0, op[1]})
			case 7:
				var batch []any
				for j := 1; j <= op[1] && i+j < len(m.Ops) && m.Ops[i+j][0] == 0; j++ {
					batch = append(batch, &c03Msg{0, m.Ops[i+j][1]})
				}
				i += len(batch)
				ctx.BatchTell(m.To, batch...)
			case 8:
				id := op[1]
				call := ctx.Request(m.To, &c03Msg{0, id}, WithRequestTimeout(90*time.Second))
				if call == nil {
					d.mu.Lock()
					d.errs = append(d.errs, fmt.Sprintf("Request(%d) refused: %v", id, ctx.getError()))
					d.mu.Unlock()
					continue
				}
				call.Then(func(resp any, err error) {
					if a, ok := resp.(*c03Ack); ok && err == nil {
						d.record(a.Seq)
						return
					}
					d.mu.Lock()
					d.errs = append(d.errs, fmt.Sprintf("Request(%d) completed with %v / %v", id, resp, err))
					d.mu.Unlock()
					d.record(-id)
				})
			default:
				ctx.Tell(m.To, &c03Ctl{Cmd: op[0]})
			}
		}
		ctx.Tell(m.To, &c03Ctl{Cmd: 5})
		close(m.sent)
	}
}

type c03DrvOut struct {
	I    int
	Log  [][]int // receiver: [kind, id]
	Acks []int   // sender: ids in the order their acknowledgements / responses were handled
	Err  string
}

func TestVerifC03Driver(t *testing.T) {
	cases := verifReadJSONL[c03GateCase](t, "c03_drv_in.jsonl")
	w := newVerifWriter(t, "c03_drv_out.jsonl")
	defer w.close()
	sys := c03System(t)
	defer sys.Stop(context.Background())
	ctx := context.Background()
	wait := func(ch chan struct{}, what string, out *c03DrvOut) bool {
		select {
		case <-ch:
			return true
		case <-time.After(30 * time.Second):
			if out.Err == "" {
				out.Err = "timeout: " + what
			}
			return false
		}
	}
	for ci, c := range cases {
		out := c03DrvOut{I: ci}
		nsend := 0
		for _, op := range c.Ops {
			if op[0] == 0 || op[0] == 8 {
				nsend++
			}
		}
		drv := &c03Driver{want: nsend, done: make(chan struct{})}
		dpid, err := sys.Spawn(ctx, fmt.Sprintf("drv-%d", ci), drv, WithReentrancy(reentrancy.New(reentrancy.WithMode(reentrancy.AllowAll))))
		if err != nil {
			out.Err = "spawn driver: " + err.Error()
			w.put(out)
			continue
		}
		a := &c03Actor{done: make(chan struct{}), ackTo: dpid}
		pid, err := sys.Spawn(ctx, fmt.Sprintf("rcv-%d", ci), a, WithMailbox(c03Mailbox(c.K, c.C)), WithStashing())
		if err != nil {
			out.Err = "spawn receiver: " + err.Error()
			w.put(out)
			continue
		}
		g1 := &c03Gate{entered: make(chan struct{}), release: make(chan struct{})}
		g2 := &c03Gate{entered: make(chan struct{}), release: make(chan struct{})}
		prog := &c03Prog{Ops: c.Ops, To: pid, sent: make(chan struct{})}
		_ = Tell(ctx, pid, g1)
		ok := wait(g1.entered, "the receiver never processed the gate message", &out)
		if ok {
			_ = Tell(ctx, dpid, prog)
			ok = wait(prog.sent, "the sender never finished its program", &out)
		}
		if ok {
			_ = Tell(ctx, dpid, g2) // now the sender is busy too: replies queue up
			ok = wait(g2.entered, "the sender never processed its gate message", &out)
		}
		close(g1.release)
		if ok {
			ok = wait(a.done, "the receiver did not process every queued message", &out)
		}
		close(g2.release)
		if ok && nsend > 0 {
			wait(drv.done, "the sender did not get every acknowledgement", &out)
		}
		for _, e := range a.snapshot() {
			out.Log = append(out.Log, []int{e.Kind, e.Seq})
		}
		drv.mu.Lock()
		out.Acks = append([]int{}, drv.acks...)
		if len(drv.errs) > 0 && out.Err == "" {
			out.Err = drv.errs[0]
		}
		drv.mu.Unlock()
		_ = pid.Shutdown(ctx)
		_ = dpid.Shutdown(ctx)
		w.put(out)
	}
}

// ------------------------------------------------------------------------------------------------
// turn hand-off windows: a wrapper around a real FIFO mailbox adds two legal perturbations —
// at the end of a turn (the owner's IsEmpty re-check, or a Dequeue that returned nil) the same sender
// sends a burst, waiting after its first message until ANOTHER dispatcher worker has dequeued it;
// and the Dequeue that hands out that first message is slow to return.

type c03Perturb struct {
	inner    Mailbox
	point    int // 0: IsEmpty, 1: Dequeue returned nil
	armed    atomic.Bool
	onWindow func()
	holdSeq  int
	holdOnce sync.Once
	gotHeld  chan struct{}
	release  chan struct{}
}

func (m *c03Perturb) Enqueue(rc *ReceiveContext) error { return m.inner.Enqueue(rc) }
func (m *c03Perturb) Dequeue() *ReceiveContext {
	rc := m.inner.Dequeue()
	if rc == nil {
		if m.point == 1 && m.armed.CompareAndSwap(true, false) {
			m.onWindow()
		}
		return nil
	}
	if x, ok := rc.Message().(*c03Msg); ok && m.holdSeq > 0 && x.Seq == m.holdSeq {
		m.holdOnce.Do(func() {
			close(m.gotHeld)
			select {
			case <-m.release:
			case <-time.After(250 * time.Millisecond):
			}
		})
	}
	return rc
}
func (m *c03Perturb) IsEmpty() bool {
	if m.point == 0 && m.armed.CompareAndSwap(true, false) {
		m.onWindow()
	}
	return m.inner.IsEmpty()
}
func (m *c03Perturb) Len() int64 { return m.inner.Len() }
func (m *c03Perturb) Dispose()   { m.inner.Dispose() }

type c03HandoffCase struct {
	K      string
	C      int
	Point  int
	Racing int  // messages sent inside the window
	Hold   bool // wait until another worker dequeued the first of them; that Dequeue is slow
	Batch  bool // the rest of the burst goes out as one BatchTell
}
type c03HandoffOut struct {
	I       int
	Starts  []int
	Ends    []int
	Overlap bool
	Fired   bool
	Err     string
}

type c03Order struct {
	mu      sync.Mutex
	starts  []int
	ends    []int
	running atomic.Int32
	overlap atomic.Bool
	total   int
	done    chan struct{}
	once    sync.Once
	box     *c03Perturb
}

func (a *c03Order) PreStart(*Context) error { return nil }
func (a *c03Order) PostStop(*Context) error { return nil }
func (a *c03Order) Receive(ctx *ReceiveContext) {
	m, ok := ctx.Message().(*c03Msg)
	if !ok {
		return
	}
	if a.running.Add(1) > 1 {
		a.overlap.Store(true)
	}
	a.mu.Lock()
	a.starts = append(a.starts, m.Seq)
	a.mu.Unlock()
	runtime.Gosched()
	a.mu.Lock()
	a.ends = append(a.ends, m.Seq)
	n := len(a.ends)
	a.mu.Unlock()
	a.running.Add(-1)
	if m.Seq == a.total-1 {
		select {
		case <-a.box.release:
		default:
			close(a.box.release)
		}
	}
	if n >= a.total {
		a.once.Do(func() { close(a.done) })
	}
}

func TestVerifC03Handoff(t *testing.T) {
	cases := verifReadJSONL[c03HandoffCase](t, "c03_handoff_in.jsonl")
	w := newVerifWriter(t, "c03_handoff_out.jsonl")
	defer w.close()
	if runtime.GOMAXPROCS(0) < 4 {
		defer runtime.GOMAXPROCS(runtime.GOMAXPROCS(4))
	}
	sys := c03System(t)
	defer sys.Stop(context.Background())
	ctx := context.Background()
	for ci, c := range cases {
		out := c03HandoffOut{I: ci}
		box := &c03Perturb{inner: c03Mailbox(c.K, c.C), point: c.Point, gotHeld: make(chan struct{}), release: make(chan struct{})}
		if c.Hold {
			box.holdSeq = 1
		}
		a := &c03Order{total: 1 + c.Racing, done: make(chan struct{}), box: box}
		pid, err := sys.Spawn(ctx, fmt.Sprintf("handoff-%d", ci), a, WithMailbox(box), WithLongLived())
		if err != nil {
			out.Err = "spawn: " + err.Error()
			w.put(out)
			continue
		}
		// let the start-up traffic settle: the actor must be idle with an empty mailbox
		for i := 0; i < 400; i++ {
			time.Sleep(5 * time.Millisecond)
			if i >= 10 && pid.schedState.Load() == dispatchIdle && box.inner.IsEmpty() {
				break
			}
		}
		var fired atomic.Bool
		box.onWindow = func() {
			fired.Store(true)
			_ = Tell(ctx, pid, &c03Msg{0, 1})
			if c.Hold {
				select {
				case <-box.gotHeld:
				case <-time.After(500 * time.Millisecond):
				}
			}
			if c.Batch {
				var rest []any
				for s := 2; s <= c.Racing; s++ {
					rest = append(rest, &c03Msg{0, s})
				}
				if len(rest) > 0 {
					_ = BatchTell(ctx, pid, rest...)
				}
			} else {
				for s := 2; s <= c.Racing; s++ {
					_ = Tell(ctx, pid, &c03Msg{0, s})
				}
			}
		}
		box.armed.Store(true)
		_ = Tell(ctx, pid, &c03Msg{0, 0}) // starts a turn; the window opens when that turn runs dry
		select {
		case <-a.done:
		case <-time.After(15 * time.Second):
			out.Err = "timeout: not every message was processed"
		}
		time.Sleep(20 * time.Millisecond) // a straggling handler
		a.mu.Lock()
		out.Starts = append([]int{}, a.starts...)
		out.Ends = append([]int{}, a.ends...)
		a.mu.Unlock()
		out.Overlap = a.overlap.Load()
		out.Fired = fired.Load()
		_ = pid.Shutdown(ctx)
		w.put(out)
	}
}
