//go:build verif

package actor

import (
	"context"
	"encoding/hex"
	"encoding/json"
	"errors"
	"fmt"
	"runtime"
	"sort"
	"strconv"
	"testing"
	"time"

	"github.com/stretchr/testify/mock"

	gerrors "github.com/tochemey/goakt/v4/errors"
	"github.com/tochemey/goakt/v4/extension"
	"github.com/tochemey/goakt/v4/internal/cluster"
	"github.com/tochemey/goakt/v4/internal/codec"
	dynaport "github.com/tochemey/goakt/v4/internal/net"
	"github.com/tochemey/goakt/v4/log"
	mockcluster "github.com/tochemey/goakt/v4/mocks/cluster"
	mocksremote "github.com/tochemey/goakt/v4/mocks/remoteclient"
	"github.com/tochemey/goakt/v4/passivation"
	"github.com/tochemey/goakt/v4/reentrancy"
	"github.com/tochemey/goakt/v4/remote"
	"github.com/tochemey/goakt/v4/supervisor"
)

// C37: every generated spawn configuration is applied (a) locally, (b) through Spawn+WithHostAndPort
// (real remoting client -> real RemoteSpawn handler), (c) through SpawnOn cluster placement (request
// captured from the real SpawnOn, shipped by the real client), (d) through relocation
// (PID.toSerialize -> wireSpawnOptions -> Spawn), and the configuration the resulting PID holds is
// probed the same way each time. The codec alone is also probed on a larger domain.

// ---- error types used as supervisor rule keys
type verifErrA struct{}

func (verifErrA) Error() string { return "A" }

type verifErrB struct{}

func (*verifErrB) Error() string { return "B" }

type verifErrC struct{ n int }

func (verifErrC) Error() string { return "C" }

type verifErrD struct{}

func (*verifErrD) Error() string { return "D" }

type verifErrZ struct{} // never configured

func (verifErrZ) Error() string { return "Z" }

func c37Err(name string) error {
	switch name {
	case "A":
		return verifErrA{}
	case "B":
		return &verifErrB{}
	case "C":
		return verifErrC{n: 3}
	case "D":
		return &verifErrD{}
	case "Z":
		return verifErrZ{}
	case "panic":
		return &gerrors.PanicError{}
	case "panicnil":
		return &runtime.PanicNilError{}
	case "any":
		return new(gerrors.AnyError)
	case "str":
		return errors.New("plain")
	case "internal":
		return gerrors.NewInternalError(errors.New("x"))
	}
	return nil
}

var c37ProbeErrs = []string{"A", "B", "C", "D", "Z", "panic", "panicnil", "any", "str", "internal"}

// ---- a dependency type with a real Marshal/Unmarshal pair
type VerifC37Dep struct {
	id      string
	Payload string
}

func (d *VerifC37Dep) ID() string { return d.id }
func (d *VerifC37Dep) MarshalBinary() ([]byte, error) {
	return json.Marshal(map[string]string{"id": d.id, "p": d.Payload})
}
func (d *VerifC37Dep) UnmarshalBinary(b []byte) error {
	m := map[string]string{}
	if err := json.Unmarshal(b, &m); err != nil {
		return err
	}
	d.id, d.Payload = m["id"], m["p"]
	return nil
}

var _ extension.Dependency = (*VerifC37Dep)(nil)

// handle-style dependencies: their identity is their type, their serialized form is nil, empty, one byte
// or large. The wire entry (type name + id) is what lets the receiving node rebuild them.
type VerifC37Nil struct{}

func (*VerifC37Nil) ID() string                     { return "n1" }
func (*VerifC37Nil) MarshalBinary() ([]byte, error) { return nil, nil }
func (*VerifC37Nil) UnmarshalBinary([]byte) error   { return nil }

type VerifC37Empty struct{}

func (*VerifC37Empty) ID() string                     { return "e1" }
func (*VerifC37Empty) MarshalBinary() ([]byte, error) { return []byte{}, nil }
func (*VerifC37Empty) UnmarshalBinary([]byte) error   { return nil }

type VerifC37One struct{ b byte }

func (*VerifC37One) ID() string                       { return "o1" }
func (d *VerifC37One) MarshalBinary() ([]byte, error) { return []byte{d.b}, nil }
func (d *VerifC37One) UnmarshalBinary(p []byte) error {
	if len(p) != 1 {
		return fmt.Errorf("one-byte dependency got %d bytes", len(p))
	}
	d.b = p[0]
	return nil
}

type VerifC37Large struct{ n int }

func (*VerifC37Large) ID() string { return "l1" }
func (d *VerifC37Large) MarshalBinary() ([]byte, error) {
	out := make([]byte, d.n)
	for i := range out {
		out[i] = byte(i*7 + 3)
	}
	return out, nil
}
func (d *VerifC37Large) UnmarshalBinary(p []byte) error { d.n = len(p); return nil }

func c37Dep(id, payload string) extension.Dependency {
	switch id {
	case "n1":
		return &VerifC37Nil{}
	case "e1":
		return &VerifC37Empty{}
	case "o1":
		b := byte('x')
		if payload != "" {
			b = payload[0]
		}
		return &VerifC37One{b: b}
	case "l1":
		n, _ := strconv.Atoi(payload)
		return &VerifC37Large{n: n}
	}
	return &VerifC37Dep{id: id, Payload: payload}
}

func c37DepBytes(d extension.Dependency) string {
	b, _ := d.MarshalBinary()
	if _, ok := d.(*VerifC37Dep); ok {
		return hex.EncodeToString(b)
	}
	sum := 0
	for _, x := range b {
		sum = (sum*31 + int(x)) % 1000003
	}
	return fmt.Sprintf("len=%d;sum=%d", len(b), sum)
}

// ---- the actor
type VerifC37Actor struct{}

func (*VerifC37Actor) PreStart(*Context) error   { return nil }
func (*VerifC37Actor) Receive(ctx *ReceiveContext) {}
func (*VerifC37Actor) PostStop(*Context) error   { return nil }

// ---- case format
type c37SupOpt struct {
	K string `json:"k"` // strategy | dir | retry | backoff | any
	S int    `json:"s"`
	E string `json:"e"`
	D int    `json:"d"`
	N uint32 `json:"n"`
	T int64  `json:"t"`
	I int64  `json:"i"`
	M int64  `json:"m"`
	R int64  `json:"r"`
}

type c37Case struct {
	N       int          `json:"n"`
	HasSup  bool         `json:"has_sup"`
	Sup     []c37SupOpt  `json:"sup"`
	Pass    string       `json:"pass"` // nil | time | count | long
	PassV   int64        `json:"pass_v"`
	HasRe   bool         `json:"has_re"`
	ReMode  int          `json:"re_mode"`
	ReMax   int64        `json:"re_max"`
	Stash   bool         `json:"stash"`
	HasRole bool         `json:"has_role"`
	Role    string       `json:"role"`
	Deps    [][2]string  `json:"deps"`
	Init    int64        `json:"init"`
	NoReloc bool         `json:"no_reloc"`
	Codec   bool         `json:"codec_only"`
}

type c37SupProbe struct {
	Strategy   int               `json:"strategy"`
	MaxRetries uint32            `json:"max_retries"`
	Timeout    int64             `json:"timeout"`
	Initial    int64             `json:"initial"`
	Max        int64             `json:"max"`
	Reset      int64             `json:"reset"`
	Dirs       map[string][2]int `json:"dirs"` // probe error -> [found, directive] after the any-error fallback
	Delays     []int64           `json:"delays"`
	Window     int64             `json:"window"`
	Rules      [][2]string       `json:"rules"`
}

type c37Probe struct {
	N     int          `json:"n"`
	Path  string       `json:"path"`
	Err   string       `json:"err"`
	Sup   *c37SupProbe `json:"sup"`
	Pass  string       `json:"pass"`
	PassV int64        `json:"pass_v"`
	HasRe bool         `json:"has_re"`
	ReMode int         `json:"re_mode"`
	ReMax int64        `json:"re_max"`
	Stash bool         `json:"stash"`
	Role  string       `json:"role"`
	Deps  [][3]string  `json:"deps"`
	HasInit bool       `json:"has_init"`
	Init  int64        `json:"init"`
	Reloc bool         `json:"reloc"`
}

func c37Supervisor(opts []c37SupOpt) *supervisor.Supervisor {
	var so []supervisor.SupervisorOption
	for _, o := range opts {
		switch o.K {
		case "strategy":
			so = append(so, supervisor.WithStrategy(supervisor.Strategy(o.S)))
		case "dir":
			so = append(so, supervisor.WithDirective(c37Err(o.E), supervisor.Directive(o.D)))
		case "retry":
			so = append(so, supervisor.WithRetry(o.N, time.Duration(o.T)))
		case "backoff":
			so = append(so, supervisor.WithExponentialBackoff(time.Duration(o.I), time.Duration(o.M), time.Duration(o.R)))
		case "any":
			so = append(so, supervisor.WithAnyErrorDirective(supervisor.Directive(o.D)))
		}
	}
	return supervisor.NewSupervisor(so...)
}

func c37Passivation(kind string, v int64) passivation.Strategy {
	switch kind {
	case "time":
		return passivation.NewTimeBasedStrategy(time.Duration(v))
	case "count":
		return passivation.NewMessageCountBasedStrategy(int(v))
	case "long":
		return passivation.NewLongLivedStrategy()
	}
	return nil
}

func c37ProbeSup(s *supervisor.Supervisor) *c37SupProbe {
	if s == nil {
		return nil
	}
	p := &c37SupProbe{
		Strategy: int(s.Strategy()), MaxRetries: s.MaxRetries(), Timeout: int64(s.Timeout()),
		Initial: int64(s.InitialDelay()), Max: int64(s.MaxDelay()), Reset: int64(s.BackoffResetAfter()),
		Dirs: map[string][2]int{},
	}
	for _, name := range c37ProbeErrs {
		// the lookup notifyParent performs: the error's own type, then the any-error rule
		d, ok := s.Directive(c37Err(name))
		if !ok {
			d, ok = s.Directive(new(gerrors.AnyError))
		}
		f := 0
		if ok {
			f = 1
		}
		p.Dirs[name] = [2]int{f, int(d)}
	}
	for f := int64(1); f <= 70; f++ {
		p.Delays = append(p.Delays, int64(backoffDelay(f, s.InitialDelay(), s.MaxDelay())))
	}
	// handleRestartDirective: the reset window is backoff's resetAfter when configured, otherwise the WithRetry timeout
	w := s.BackoffResetAfter()
	if w <= 0 {
		w = s.Timeout()
	}
	p.Window = int64(w)
	for _, r := range s.Rules() {
		p.Rules = append(p.Rules, [2]string{r.ErrorType, strconv.Itoa(int(r.Directive))})
	}
	sort.Slice(p.Rules, func(i, j int) bool { return p.Rules[i][0] < p.Rules[j][0] })
	return p
}

func c37PassOf(s passivation.Strategy) (string, int64) {
	switch v := s.(type) {
	case *passivation.TimeBasedStrategy:
		return "time", int64(v.Timeout())
	case *passivation.MessagesCountBasedStrategy:
		return "count", int64(v.MaxMessages())
	case *passivation.LongLivedStrategy:
		return "long", 0
	case nil:
		return "nil", 0
	}
	return "other", 0
}

func c37ProbePID(n int, path string, pid *PID) c37Probe {
	p := c37Probe{N: n, Path: path}
	p.Sup = c37ProbeSup(pid.supervisor)
	p.Pass, p.PassV = c37PassOf(pid.PassivationStrategy())
	if st := pid.reentrancy.Load(); st != nil {
		p.HasRe, p.ReMode, p.ReMax = true, int(st.getMode()), st.maxInFlight.Load()
	}
	p.Stash = pid.stashState != nil && pid.stashState.box != nil
	if r := pid.Role(); r != nil {
		p.Role = *r
	}
	for _, d := range pid.Dependencies() {
		p.Deps = append(p.Deps, [3]string{d.ID(), fmt.Sprintf("%T", d), c37DepBytes(d)})
	}
	sort.Slice(p.Deps, func(i, j int) bool { return p.Deps[i][0] < p.Deps[j][0] })
	if o := pid.initTimeout.Load(); o != nil {
		p.HasInit, p.Init = true, int64(*o)
	}
	p.Reloc = pid.IsRelocatable()
	return p
}

func c37Options(c c37Case) []SpawnOption {
	var opts []SpawnOption
	if c.HasSup {
		opts = append(opts, WithSupervisor(c37Supervisor(c.Sup)))
	}
	if c.Pass != "nil" {
		opts = append(opts, WithPassivationStrategy(c37Passivation(c.Pass, c.PassV)))
	}
	if c.HasRe {
		opts = append(opts, WithReentrancy(reentrancy.New(reentrancy.WithMode(reentrancy.Mode(c.ReMode)), reentrancy.WithMaxInFlight(int(c.ReMax)))))
	}
	if c.Stash {
		opts = append(opts, WithStashing())
	}
	if c.HasRole {
		opts = append(opts, WithRole(c.Role))
	}
	if len(c.Deps) > 0 {
		var ds []extension.Dependency
		for _, d := range c.Deps {
			ds = append(ds, c37Dep(d[0], d[1]))
		}
		opts = append(opts, WithDependencies(ds...))
	}
	if c.Init != 0 {
		opts = append(opts, WithInitTimeout(time.Duration(c.Init)))
	}
	if c.NoReloc {
		opts = append(opts, WithRelocationDisabled())
	}
	return opts
}

func c37Lookup(sys *actorSystem, name string) (*PID, error) {
	node, ok := sys.actors.nodeByName(name)
	if !ok || node.value() == nil {
		return nil, fmt.Errorf("actor %s not found on the hosting node", name)
	}
	return node.value(), nil
}

// codec-only probe: what Decode(Encode(x)) yields for the three codec'd parts
func c37CodecProbe(c c37Case) (local, decoded c37Probe) {
	local, decoded = c37Probe{N: c.N, Path: "codec-local"}, c37Probe{N: c.N, Path: "codec"}
	if c.HasSup {
		s := c37Supervisor(c.Sup)
		local.Sup = c37ProbeSup(s)
		decoded.Sup = c37ProbeSup(codec.DecodeSupervisor(codec.EncodeSupervisor(s)))
	}
	ps := c37Passivation(c.Pass, c.PassV)
	local.Pass, local.PassV = c37PassOf(ps)
	decoded.Pass, decoded.PassV = c37PassOf(codec.DecodePassivationStrategy(codec.EncodePassivationStrategy(ps)))
	if c.HasRe {
		r := reentrancy.New(reentrancy.WithMode(reentrancy.Mode(c.ReMode)), reentrancy.WithMaxInFlight(int(c.ReMax)))
		local.HasRe, local.ReMode, local.ReMax = true, int(r.Mode()), int64(r.MaxInFlight())
		d := codec.DecodeReentrancy(codec.EncodeReentrancy(r))
		decoded.HasRe, decoded.ReMode, decoded.ReMax = true, int(d.Mode()), int64(d.MaxInFlight())
	}
	return local, decoded
}

func TestVerifC37Wire(t *testing.T) {
	cases := verifReadJSONL[c37Case](t, "c37_in.jsonl")
	w := newVerifWriter(t, "c37_out.jsonl")
	defer w.close()

	ctx := context.Background()
	ports := dynaport.Get(1)
	host := "127.0.0.1"
	sysI, err := NewActorSystem("verifC37", WithLogger(log.DiscardLogger), WithRemote(remote.NewConfig(host, ports[0])))
	if err != nil {
		t.Fatal(err)
	}
	if err := sysI.Start(ctx); err != nil {
		t.Fatal(err)
	}
	defer func() { _ = sysI.Stop(ctx) }()
	sys := sysI.(*actorSystem)
	if err := sys.Register(ctx, &VerifC37Actor{}); err != nil {
		t.Fatal(err)
	}
	if err := sys.Inject(&VerifC37Dep{}, &VerifC37Nil{}, &VerifC37Empty{}, &VerifC37One{}, &VerifC37Large{}); err != nil {
		t.Fatal(err)
	}

	// one mocked cluster member set for the SpawnOn placement path
	clusterMock := mockcluster.NewCluster(t)
	remotingMock := mocksremote.NewClient(t)
	msys := MockReplicationTestSystem(clusterMock)
	msys.remoting = remotingMock
	defer msys.dispatcher.signalStop()
	peer := &cluster.Peer{Host: "10.9.9.9", RemotingPort: 9999}
	var shipErr error
	shipped := false
	clusterMock.EXPECT().ActorExists(mock.Anything, mock.Anything).Return(false, nil).Maybe()
	clusterMock.EXPECT().Members(mock.Anything).Return([]*cluster.Peer{peer}, nil).Maybe()
	remotingMock.EXPECT().RemoteSpawn(mock.Anything, peer.Host, peer.RemotingPort, mock.Anything).
		Run(func(ctx context.Context, _ string, _ int, request *remote.SpawnRequest) {
			shipped = true
			_, shipErr = sys.remoting.RemoteSpawn(ctx, host, ports[0], request)
		}).
		Return(new("goakt://verifC37@10.9.9.9:9999/placed"), nil).Maybe()

	for _, c := range cases {
		l, d := c37CodecProbe(c)
		w.put(l)
		w.put(d)
		if c.Codec {
			continue
		}
		opts := c37Options(c)
		base := "c" + strconv.Itoa(c.N)

		// (a) local
		pidL, err := sys.Spawn(ctx, base+"-local", &VerifC37Actor{}, opts...)
		if err != nil {
			w.put(c37Probe{N: c.N, Path: "local", Err: err.Error()})
			continue
		}
		w.put(c37ProbePID(c.N, "local", pidL))

		// (b) Spawn + WithHostAndPort: real client, real server handler
		func() {
			name := base + "-hostport"
			if _, err := sys.Spawn(ctx, name, &VerifC37Actor{}, append(c37Options(c), WithHostAndPort(host, ports[0]))...); err != nil {
				w.put(c37Probe{N: c.N, Path: "hostport", Err: err.Error()})
				return
			}
			pid, err := c37Lookup(sys, name)
			if err != nil {
				w.put(c37Probe{N: c.N, Path: "hostport", Err: err.Error()})
				return
			}
			w.put(c37ProbePID(c.N, "hostport", pid))
		}()

		// (c) SpawnOn with cluster placement: the request SpawnOn builds, shipped by the real client
		func() {
			name := base + "-placement"
			peer.Roles = nil
			if c.HasRole {
				peer.Roles = []string{c.Role}
			}
			shipErr, shipped = nil, false
			_, err := msys.SpawnOn(ctx, name, &VerifC37Actor{}, append(c37Options(c), WithPlacement(Random))...)
			if err != nil || shipErr != nil || !shipped {
				w.put(c37Probe{N: c.N, Path: "placement", Err: fmt.Sprint("spawnOn=", err, " ship=", shipErr, " shipped=", shipped)})
				return
			}
			pid, err := c37Lookup(sys, name)
			if err != nil {
				w.put(c37Probe{N: c.N, Path: "placement", Err: err.Error()})
				return
			}
			w.put(c37ProbePID(c.N, "placement", pid))
		}()

		// (d) relocation: only relocatable actors are ever relocated
		if !c.NoReloc {
			func() {
				name := base + "-reloc"
				wire, err := pidL.toSerialize()
				if err != nil {
					w.put(c37Probe{N: c.N, Path: "reloc", Err: err.Error()})
					return
				}
				ropts, err := sys.wireSpawnOptions(wire)
				if err != nil {
					w.put(c37Probe{N: c.N, Path: "reloc", Err: err.Error()})
					return
				}
				pid, err := sys.Spawn(ctx, name, &VerifC37Actor{}, ropts...)
				if err != nil {
					w.put(c37Probe{N: c.N, Path: "reloc", Err: err.Error()})
					return
				}
				w.put(c37ProbePID(c.N, "reloc", pid))
			}()
		}
	}
}
