//go:build verif

package actor

// C06 harness on REAL actor systems.
//  (P) TestVerifC06Paths: every stop path (PoisonPill, Kill, PID.Stop by the parent, parent Shutdown,
//      supervisor stop directive, passivation, Restart, system Stop) x {actor idle, actor inside
//      Receive}, plus the in-flight-send variants; the instrumented actor records PreStart/Receive/
//      PostStop begin and end with a timestamp from one atomic counter and the goroutine it ran on.
//  (M) TestVerifC06Model: generated driver sequences (Tell, PoisonPill, split Tell, Shutdown from
//      the driver, tryPassivation, gate releases) whose observable state after every action is
//      compared with the Coq model by checks/C06.py.

import (
	"context"
	"fmt"
	"runtime"
	"sort"
	"strings"
	"sync"
	"sync/atomic"
	"testing"
	"time"

	"github.com/tochemey/goakt/v4/log"
	"github.com/tochemey/goakt/v4/passivation"
	"github.com/tochemey/goakt/v4/supervisor"
)

type c06Event struct {
	Seq  int64  `json:"seq"`
	Who  string `json:"who"`
	Kind string `json:"kind"` // preB preE recvB recvE postB postE + driver marks
	G    uint64 `json:"g"`    // goroutine id
}

type c06Log struct {
	mu  sync.Mutex
	seq atomic.Int64
	evs []c06Event
}

func c06Goid() uint64 {
	var buf [64]byte
	n := runtime.Stack(buf[:], false)
	// "goroutine 123 ["
	var id uint64
	for _, c := range buf[10:n] {
		if c < '0' || c > '9' {
			break
		}
		id = id*10 + uint64(c-'0')
	}
	return id
}

func (l *c06Log) add(who, kind string) {
	e := c06Event{Seq: l.seq.Add(1), Who: who, Kind: kind, G: c06Goid()}
	l.mu.Lock()
	l.evs = append(l.evs, e)
	l.mu.Unlock()
}

func (l *c06Log) snapshot() []c06Event {
	l.mu.Lock()
	out := append([]c06Event(nil), l.evs...)
	l.mu.Unlock()
	sort.Slice(out, func(i, j int) bool { return out[i].Seq < out[j].Seq })
	return out
}

type c06Hold struct{}  // handler blocks at the receive gate
type c06Plain struct{} // handler returns at once
type c06Boom struct{}  // handler panics
type c06Pipe struct{ name string } // handler starts a piped task (PipeTo self, or PipeToName) whose result is a c06Plain

type c06Actor struct {
	name      string
	log       *c06Log
	gateRecv  atomic.Bool // every c06Plain handler blocks too
	recvGate  chan struct{}
	recvBegan chan struct{}
	postGate  chan struct{} // nil: PostStop not gated
	postBegan chan struct{}
	preGate   chan struct{} // gates PreStart number >= 2 (restart)
	preBegan  chan struct{}
	preN      atomic.Int32
	taskGate  chan struct{} // the piped task completes when this is closed
	nPipe     atomic.Int32
	inRecv    atomic.Int32
	inPost    atomic.Int32
	nPre      atomic.Int32
	nRecvB    atomic.Int32
	nRecvE    atomic.Int32
	nPostB    atomic.Int32
	nPostE    atomic.Int32
}

func newC06Actor(name string, l *c06Log) *c06Actor {
	return &c06Actor{name: name, log: l, recvGate: make(chan struct{}, 64), recvBegan: make(chan struct{}, 64),
		postBegan: make(chan struct{}, 8), preBegan: make(chan struct{}, 8)}
}

func (a *c06Actor) PreStart(*Context) error {
	n := a.preN.Add(1)
	a.log.add(a.name, "preB")
	if n >= 2 && a.preGate != nil {
		a.preBegan <- struct{}{}
		<-a.preGate
	}
	a.nPre.Add(1)
	a.log.add(a.name, "preE")
	return nil
}

func (a *c06Actor) Receive(ctx *ReceiveContext) {
	switch ctx.Message().(type) {
	case *c06Boom:
		panic("boom")
	case *c06Pipe:
		m := ctx.Message().(*c06Pipe)
		task := func() (any, error) { <-a.taskGate; return &c06Plain{}, nil }
		if m.name != "" {
			ctx.PipeToName(m.name, task)
		} else {
			ctx.PipeTo(ctx.Self(), task)
		}
		a.nPipe.Add(1)
	case *c06Hold, *c06Plain:
		_, hold := ctx.Message().(*c06Hold)
		a.inRecv.Add(1)
		a.nRecvB.Add(1)
		a.log.add(a.name, "recvB")
		if hold || a.gateRecv.Load() {
			a.recvBegan <- struct{}{}
			<-a.recvGate
		}
		a.log.add(a.name, "recvE")
		a.nRecvE.Add(1)
		a.inRecv.Add(-1)
	}
}

func (a *c06Actor) PostStop(*Context) error {
	a.inPost.Add(1)
	a.nPostB.Add(1)
	a.log.add(a.name, "postB")
	if a.postGate != nil {
		a.postBegan <- struct{}{}
		<-a.postGate
	}
	a.log.add(a.name, "postE")
	a.nPostE.Add(1)
	a.inPost.Add(-1)
	return nil
}

func c06System(t *testing.T, name string) ActorSystem {
	sys, err := NewActorSystem(name, WithLogger(log.DiscardLogger))
	if err != nil {
		t.Fatal(err)
	}
	if err := sys.Start(context.Background()); err != nil {
		t.Fatal(err)
	}
	return sys
}

type c06PathOut struct {
	Path    string     `json:"path"`
	Variant string     `json:"variant"` // idle | inrecv | special name
	Events  []c06Event `json:"events"`
	Note    string     `json:"note,omitempty"`
}

func c06WaitFor(cond func() bool, d time.Duration) bool {
	deadline := time.Now().Add(d)
	for time.Now().Before(deadline) {
		if cond() {
			return true
		}
		time.Sleep(200 * time.Microsecond)
	}
	return cond()
}

// c06RunPath: parent P with child C (and sibling S for the supervisor path); C is stopped via [path].
func c06RunPath(t *testing.T, idx int, path, variant string) c06PathOut {
	ctx := context.Background()
	sys := c06System(t, fmt.Sprintf("verifC06p%d", idx))
	l := &c06Log{}
	parent := newC06Actor("P", l)
	ppid, err := sys.Spawn(ctx, "parent", parent, WithLongLived())
	if err != nil {
		t.Fatal(err)
	}
	child := newC06Actor("C", l)
	sup := supervisor.NewSupervisor(supervisor.WithStrategy(supervisor.OneForAllStrategy), supervisor.WithAnyErrorDirective(supervisor.StopDirective))
	opts := []SpawnOption{}
	if path == "Passivation" {
		opts = append(opts, WithPassivationStrategy(passivation.NewTimeBasedStrategy(40*time.Millisecond)))
	} else {
		opts = append(opts, WithLongLived())
	}
	if path == "SupervisorStop" {
		opts = append(opts, WithSupervisor(sup))
	}
	cpid, err := ppid.SpawnChild(ctx, "child", child, opts...)
	if err != nil {
		t.Fatal(err)
	}
	var spid *PID
	if path == "SupervisorStop" {
		sib := newC06Actor("S", l)
		spid, err = ppid.SpawnChild(ctx, "sib", sib, WithLongLived(), WithSupervisor(sup))
		if err != nil {
			t.Fatal(err)
		}
	}
	if variant == "inrecv" {
		if err := Tell(ctx, cpid, &c06Hold{}); err != nil {
			t.Fatal(err)
		}
		<-child.recvBegan
	}
	l.add("driver", "stop:"+path)
	done := make(chan struct{})
	sysStopped := false
	go func() {
		switch path {
		case "PoisonPill":
			_ = Tell(ctx, cpid, &PoisonPill{})
		case "Kill":
			_ = sys.Kill(ctx, "child")
			_ = cpid.Shutdown(ctx)
		case "ParentStopChild":
			_ = ppid.Stop(ctx, cpid)
		case "ParentShutdown":
			_ = ppid.Shutdown(ctx)
		case "SupervisorStop":
			_ = Tell(ctx, spid, &c06Boom{})
		case "Passivation":
		case "Restart":
			_ = cpid.Restart(ctx)
		case "SystemStop":
			_ = sys.Stop(ctx)
		}
		close(done)
	}()
	// the stop has happened when PostStop of C completed (PoisonPill on a busy actor: only after the handler returns)
	wait := 1500 * time.Millisecond
	if path == "PoisonPill" && variant == "inrecv" {
		wait = 100 * time.Millisecond
	}
	stopped := c06WaitFor(func() bool { return child.nPostE.Load() >= 1 }, wait)
	note := ""
	if !stopped {
		note = "poststop-not-yet"
	}
	l.add("driver", "observe")
	if variant == "inrecv" {
		child.recvGate <- struct{}{}
	}
	c06WaitFor(func() bool { return child.nPostE.Load() >= 1 && child.inRecv.Load() == 0 }, 2*time.Second)
	select {
	case <-done:
	case <-time.After(2 * time.Second):
		note += " stopper-did-not-return"
	}
	if path == "Restart" {
		c06WaitFor(func() bool { return child.nPre.Load() >= 2 }, 2*time.Second)
	}
	if path == "SystemStop" {
		sysStopped = true
	}
	time.Sleep(20 * time.Millisecond)
	// after the stop (and not for Restart, which brings the actor back): a public Tell must be refused
	if path != "Restart" && !sysStopped {
		if err := Tell(ctx, cpid, &c06Plain{}); err == nil {
			note += " tell-after-stop-accepted"
			time.Sleep(30 * time.Millisecond)
		}
	}
	l.add("driver", "end")
	if !sysStopped {
		_ = sys.Stop(ctx)
	}
	return c06PathOut{Path: path, Variant: variant, Events: l.snapshot(), Note: note}
}

// special scenarios: sends in flight across a stop (the Tell is split at its check-then-enqueue
// point with the object's own operations), restart with a gated second PreStart, passivation after a stop.
func c06RunSpecial(t *testing.T, idx int, name string) c06PathOut {
	ctx := context.Background()
	sys := c06System(t, fmt.Sprintf("verifC06s%d", idx))
	defer sys.Stop(ctx)
	l := &c06Log{}
	a := newC06Actor("C", l)
	note := ""
	enq := func(pid *PID, msg any) {
		rc := getContext()
		rc.build(ctx, sys.NoSender(), pid, msg, true)
		pid.doReceive(rc)
	}
	switch name {
	case "inflight-tell-lands-during-poststop":
		a.postGate = make(chan struct{})
		pid, _ := sys.Spawn(ctx, "c", a, WithLongLived())
		ok := pid.IsRunning() // the sender's check, before the stop
		go pid.Shutdown(ctx)
		<-a.postBegan
		l.add("driver", "poststop-began")
		if ok {
			enq(pid, &c06Plain{})
		}
		c06WaitFor(func() bool { return a.nRecvE.Load() >= 1 }, 300*time.Millisecond)
		l.add("driver", "observe")
		close(a.postGate)
		c06WaitFor(func() bool { return a.nPostE.Load() >= 1 }, time.Second)
	case "tell-after-poststop-ended-is-dropped":
		pid, _ := sys.Spawn(ctx, "c", a, WithLongLived())
		ok := pid.IsRunning()
		_ = pid.Shutdown(ctx)
		l.add("driver", "stopped")
		if ok {
			enq(pid, &c06Plain{})
		}
		time.Sleep(60 * time.Millisecond)
	case "public-tell-during-poststop-refused":
		a.postGate = make(chan struct{})
		pid, _ := sys.Spawn(ctx, "c", a, WithLongLived())
		go pid.Shutdown(ctx)
		<-a.postBegan
		l.add("driver", "poststop-began")
		if err := Tell(ctx, pid, &c06Plain{}); err == nil {
			note = "tell-accepted-while-stopping"
		}
		time.Sleep(40 * time.Millisecond)
		close(a.postGate)
		c06WaitFor(func() bool { return a.nPostE.Load() >= 1 }, time.Second)
	case "restart-public-tell-during-prestart-refused", "restart-inflight-tell-lands-during-prestart":
		a.preGate = make(chan struct{})
		pid, _ := sys.Spawn(ctx, "c", a, WithLongLived())
		ok := pid.IsRunning()
		done := make(chan struct{})
		go func() { _ = pid.Restart(ctx); close(done) }()
		<-a.preBegan
		time.Sleep(3 * time.Millisecond)
		l.add("driver", "second-prestart-began")
		if name == "restart-public-tell-during-prestart-refused" {
			if err := Tell(ctx, pid, &c06Plain{}); err == nil {
				note = "tell-accepted-during-prestart"
			}
		} else if ok {
			enq(pid, &c06Plain{})
		}
		c06WaitFor(func() bool { return a.nRecvE.Load() >= 1 }, 200*time.Millisecond)
		l.add("driver", "observe")
		close(a.preGate)
		<-done
		time.Sleep(30 * time.Millisecond)
	case "pipe-result-lands:supervisor-restart-prestart/self", "pipe-result-lands:supervisor-restart-prestart/byname",
		"pipe-result-lands:api-restart-prestart/self", "pipe-result-lands:api-restart-prestart/byname",
		"pipe-result-lands:poststop/self", "pipe-result-lands:poststop/byname",
		"pipe-result-lands:after-stop/self", "pipe-result-lands:after-stop/byname":
		// an outstanding piped task (PipeTo self / PipeToName) completes at a chosen lifecycle point of
		// its receiver: inside the second PreStart of a supervisor restart (the receiver is suspended),
		// inside the second PreStart of PID.Restart, inside PostStop, after the stop
		rest := strings.TrimPrefix(name, "pipe-result-lands:")
		point, how, _ := strings.Cut(rest, "/")
		a.taskGate = make(chan struct{})
		switch point {
		case "supervisor-restart-prestart", "api-restart-prestart":
			a.preGate = make(chan struct{})
		case "poststop":
			a.postGate = make(chan struct{})
		}
		parent := newC06Actor("P", l)
		ppid, err := sys.Spawn(ctx, "parent", parent, WithLongLived())
		if err != nil {
			t.Fatal(err)
		}
		restart := supervisor.NewSupervisor(supervisor.WithAnyErrorDirective(supervisor.RestartDirective))
		pid, err := ppid.SpawnChild(ctx, "c", a, WithLongLived(), WithSupervisor(restart))
		if err != nil {
			t.Fatal(err)
		}
		msg := &c06Pipe{}
		if how == "byname" {
			msg.name = "c"
		}
		_ = Tell(ctx, pid, msg)
		if !c06WaitFor(func() bool { return a.nPipe.Load() >= 1 }, 2*time.Second) {
			note = "pipe-not-started"
		}
		time.Sleep(5 * time.Millisecond)
		switch point {
		case "supervisor-restart-prestart", "api-restart-prestart":
			done := make(chan struct{})
			if point == "api-restart-prestart" {
				go func() { _ = pid.Restart(ctx); close(done) }()
			} else {
				_ = Tell(ctx, pid, &c06Boom{})
				close(done)
			}
			select {
			case <-a.preBegan:
			case <-time.After(3 * time.Second):
				note += " no-second-prestart"
			}
			time.Sleep(3 * time.Millisecond)
			l.add("driver", "second-prestart-began")
			close(a.taskGate)
			c06WaitFor(func() bool { return a.nRecvE.Load() >= 1 }, 250*time.Millisecond)
			l.add("driver", "observe")
			close(a.preGate)
			<-done
			c06WaitFor(func() bool { return a.nPre.Load() >= 2 && pid.IsRunning() }, 2*time.Second)
			time.Sleep(30 * time.Millisecond)
		case "poststop":
			d := make(chan struct{})
			go func() { _ = pid.Shutdown(ctx); close(d) }()
			<-a.postBegan
			l.add("driver", "poststop-began")
			close(a.taskGate)
			c06WaitFor(func() bool { return a.nRecvE.Load() >= 1 }, 250*time.Millisecond)
			l.add("driver", "observe")
			close(a.postGate)
			<-d
			time.Sleep(20 * time.Millisecond)
		case "after-stop":
			_ = pid.Shutdown(ctx)
			l.add("driver", "stopped")
			close(a.taskGate)
			time.Sleep(80 * time.Millisecond)
		}
	case "passivation-entry-fires-after-stop":
		// the passivation manager has popped the entry and is about to call passivationTry when
		// the actor is stopped by somebody else: emulated through the manager's own passivateFn hook
		m := sys.(*actorSystem).passivator
		var pid *PID
		fired := make(chan bool, 1)
		m.mu.Lock()
		m.passivateFn = func(e *passivationEntry) bool {
			_ = pid.Shutdown(ctx)
			l.add("driver", "stopped-before-passivationTry")
			r := e.target.passivationTry(passivationReason(e))
			fired <- r
			return r
		}
		m.mu.Unlock()
		var err error
		pid, err = sys.Spawn(ctx, "c", a, WithPassivationStrategy(passivation.NewTimeBasedStrategy(30*time.Millisecond)))
		if err != nil {
			t.Fatal(err)
		}
		select {
		case <-fired:
		case <-time.After(2 * time.Second):
			note = "passivation-did-not-fire"
		}
		m.mu.Lock()
		m.passivateFn = nil
		m.mu.Unlock()
	case "two-concurrent-shutdowns":
		a.postGate = make(chan struct{})
		pid, _ := sys.Spawn(ctx, "c", a, WithLongLived())
		d1, d2 := make(chan struct{}), make(chan struct{})
		go func() { _ = pid.Shutdown(ctx); close(d1) }()
		<-a.postBegan
		go func() { _ = pid.Shutdown(ctx); close(d2) }()
		time.Sleep(20 * time.Millisecond)
		close(a.postGate)
		<-d1
		<-d2
		time.Sleep(20 * time.Millisecond)
	case "poisonpill-then-kill":
		a.postGate = make(chan struct{})
		pid, _ := sys.Spawn(ctx, "c", a, WithLongLived())
		_ = Tell(ctx, pid, &c06Hold{})
		<-a.recvBegan
		_ = Tell(ctx, pid, &PoisonPill{})
		a.recvGate <- struct{}{}
		<-a.postBegan // PoisonPill's PostStop, on the worker
		d := make(chan struct{})
		go func() { _ = pid.Shutdown(ctx); close(d) }()
		time.Sleep(20 * time.Millisecond)
		close(a.postGate)
		<-d
		time.Sleep(20 * time.Millisecond)
	}
	l.add("driver", "end")
	return c06PathOut{Path: "special", Variant: name, Events: l.snapshot(), Note: note}
}

func TestVerifC06Paths(t *testing.T) {
	w := newVerifWriter(t, "c06_paths_out.jsonl")
	defer w.close()
	idx := 0
	for _, path := range []string{"PoisonPill", "Kill", "ParentStopChild", "ParentShutdown", "SupervisorStop", "Passivation", "Restart", "SystemStop"} {
		for _, variant := range []string{"idle", "inrecv"} {
			w.put(c06RunPath(t, idx, path, variant))
			idx++
		}
	}
	for _, name := range []string{"inflight-tell-lands-during-poststop", "tell-after-poststop-ended-is-dropped", "public-tell-during-poststop-refused",
		"restart-public-tell-during-prestart-refused", "restart-inflight-tell-lands-during-prestart", "passivation-entry-fires-after-stop",
		"two-concurrent-shutdowns", "poisonpill-then-kill",
		"pipe-result-lands:supervisor-restart-prestart/self", "pipe-result-lands:supervisor-restart-prestart/byname",
		"pipe-result-lands:api-restart-prestart/self", "pipe-result-lands:api-restart-prestart/byname",
		"pipe-result-lands:poststop/self", "pipe-result-lands:poststop/byname",
		"pipe-result-lands:after-stop/self", "pipe-result-lands:after-stop/byname"} {
		w.put(c06RunSpecial(t, idx, name))
		idx++
	}
}

// ---------------------------------------------------------------------------- (M)
type c06Scenario struct {
	GateRecv bool     `json:"gate_recv"`
	Actions  []string `json:"actions"`
	Expect   [][]int  `json:"expect"`
}

type c06Step struct {
	F       int   `json:"f"`
	O       []int `json:"o"`
	Timeout bool  `json:"timeout"`
}

type c06ScOut struct {
	Steps  []c06Step  `json:"steps"`
	Events []c06Event `json:"events"`
}

func c06Observe(a *c06Actor, pid *PID) []int {
	b := func(x bool) int {
		if x {
			return 1
		}
		return 0
	}
	return []int{b(a.inRecv.Load() > 0), b(a.inPost.Load() > 0), b(pid.IsRunning()),
		int(a.nPre.Load()), int(a.nRecvB.Load()), int(a.nRecvE.Load()), int(a.nPostB.Load()), int(a.nPostE.Load())}
}

func c06IntsEq(a, b []int) bool {
	if len(a) != len(b) {
		return false
	}
	for i := range a {
		if a[i] != b[i] {
			return false
		}
	}
	return true
}

func c06RunScenario(t *testing.T, idx int, sc c06Scenario) c06ScOut {
	ctx := context.Background()
	sys := c06System(t, fmt.Sprintf("verifC06m%d", idx))
	l := &c06Log{}
	a := newC06Actor("C", l)
	a.gateRecv.Store(sc.GateRecv)
	a.postGate = make(chan struct{}, 8)
	// a passivation strategy that never fires by itself: tryPassivation is called by the driver
	pid, err := sys.Spawn(ctx, "c", a, WithPassivationStrategy(passivation.NewTimeBasedStrategy(time.Hour)))
	if err != nil {
		t.Fatal(err)
	}
	out := c06ScOut{}
	inflight := 0
	for ai, act := range sc.Actions {
		flag := 0
		switch act {
		case "tell":
			if err := Tell(ctx, pid, &c06Plain{}); err != nil {
				flag = 1
			}
		case "pill":
			if err := Tell(ctx, pid, &PoisonPill{}); err != nil {
				flag = 1
			}
		case "check":
			if pid.IsRunning() {
				inflight++
			} else {
				flag = 1
			}
		case "enq":
			if inflight == 0 {
				flag = 1
			} else {
				inflight--
				rc := getContext()
				rc.build(ctx, sys.NoSender(), pid, &c06Plain{}, true)
				pid.doReceive(rc)
			}
		case "stop_off":
			go func() { _ = pid.Shutdown(ctx) }()
		case "passivate":
			// what the manager does once the entry fired; its pre-lock state checks run here
			if pid.isStateSet(stoppingState) {
				flag = 1
			} else {
				go func() { _ = pid.tryPassivation("verif") }()
				c06WaitFor(func() bool { return pid.isStateSet(passivatingState) || a.nPostB.Load() > 0 }, 200*time.Millisecond)
			}
		case "release_recv":
			if a.inRecv.Load() == 0 {
				flag = 1
			} else {
				a.recvGate <- struct{}{}
			}
		case "release_post":
			if a.inPost.Load() == 0 {
				flag = 1
			} else {
				a.postGate <- struct{}{}
			}
		}
		var obs []int
		timeout := false
		deadline := time.Now().Add(4 * time.Second)
		for {
			obs = c06Observe(a, pid)
			if ai < len(sc.Expect) && c06IntsEq(obs, sc.Expect[ai]) {
				time.Sleep(2 * time.Millisecond)
				if c06IntsEq(c06Observe(a, pid), obs) {
					break
				}
				continue
			}
			if time.Now().After(deadline) {
				timeout = true
				break
			}
			time.Sleep(300 * time.Microsecond)
		}
		out.Steps = append(out.Steps, c06Step{F: flag, O: obs, Timeout: timeout})
	}
	// open the gates for good and tear down
	a.gateRecv.Store(false)
	for i := 0; i < 32; i++ {
		select {
		case a.recvGate <- struct{}{}:
		default:
		}
	}
	for i := 0; i < 8; i++ {
		select {
		case a.postGate <- struct{}{}:
		default:
		}
	}
	time.Sleep(5 * time.Millisecond)
	_ = sys.Stop(ctx)
	out.Events = l.snapshot()
	return out
}

func TestVerifC06Model(t *testing.T) {
	scs := verifReadJSONL[c06Scenario](t, "c06_model_in.jsonl")
	w := newVerifWriter(t, "c06_model_out.jsonl")
	defer w.close()
	for i, sc := range scs {
		w.put(c06RunScenario(t, i, sc))
	}
}
