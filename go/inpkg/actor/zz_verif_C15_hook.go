//go:build verif

package actor

// Yield-point hook for the /verif C15 harness. PID.Ask, the package-level Ask, handleRemoteAsk,
// ReceiveContext.Response and putResponseChannel/drainAnyChannel are replaced at build time
// (go test -overlay) by copies of the CURRENT source in which tools/vinstr has put a
// verifC15Point call before every statement that touches responseClosed, performs a channel
// operation, takes a context from the pool, builds it or enqueues it. With no hook installed a
// point is a nil check.

var verifC15Hook func(fn, kind string)

func verifC15Point(fn, kind string) {
	if h := verifC15Hook; h != nil {
		h(fn, kind)
	}
}
