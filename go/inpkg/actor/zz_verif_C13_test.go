//go:build verif

package actor

// C13 harness: stashing on REAL actors through the public API (ReceiveContext.Stash/Unstash/UnstashAll,
// PID.StashSize).
//
// A case is a list of events: "A" a message with a fresh identity is sent to the actor (Tell), "D" the
// actor's next delivery makes the given calls. The handler blocks at the start of every delivery until the
// harness hands it the calls of the next "D" event, so arrivals can be queued behind messages that are being
// re-sent by unstash, and the harness sees every delivery in order. After each call the handler records the
// error left in the context (and clears it so the actor keeps running) and StashSize().
// At the end the gate is opened, the actor drains whatever is left ("extra" deliveries).

import (
	"context"
	"errors"
	"fmt"
	"runtime"
	"sync"
	"testing"
	"time"

	gerrors "github.com/tochemey/goakt/v4/errors"
	"github.com/tochemey/goakt/v4/log"
)

type c13Event struct {
	E string   `json:"e"` // "A" arrive, "D" deliver
	M int      `json:"m"`
	D []string `json:"d"` // "S" Stash, "U" Unstash, "A" UnstashAll
}

type c13Case struct {
	ID     int        `json:"id"`
	Buf    bool       `json:"buf"`
	Events []c13Event `json:"events"`
}

type c13Res struct {
	Act    string `json:"a"`
	Err    string `json:"err"` // "" ok, "nobuf" ErrStashBufferNotSet, otherwise the error text
	Before int    `json:"before"`
	After  int    `json:"after"` // StashSize() after the call
}

type c13Delivery struct {
	Noop bool     `json:"noop,omitempty"` // "D" event with nothing to deliver
	ID   int      `json:"id"`
	Same bool     `json:"same"` // the delivered context carries the very message that was sent, with its sender
	Res  []c13Res `json:"res"`
}

type c13Out struct {
	ID        int           `json:"id"`
	Steps     []c13Delivery `json:"steps"`  // one per "D" event
	Extra     []c13Delivery `json:"extra"`  // deliveries that happened after the last event (free run)
	FinalSize int           `json:"final_size"`
	Lost      bool          `json:"lost,omitempty"` // an expected delivery never happened
	Err       string        `json:"err,omitempty"`
}

type c13Msg struct{ ID int }

type c13Actor struct {
	gate   chan []string
	done   chan c13Delivery
	mu     sync.Mutex
	sent   map[int]*c13Msg
	sender *PID // every message of the case is sent by this actor
}

func (a *c13Actor) PreStart(*Context) error { return nil }
func (a *c13Actor) PostStop(*Context) error { return nil }
func (a *c13Actor) Receive(ctx *ReceiveContext) {
	m, ok := ctx.Message().(*c13Msg)
	if !ok {
		return
	}
	d := <-a.gate // closed gate: free run, no calls
	a.mu.Lock()
	same := a.sent[m.ID] == m && a.sender != nil && ctx.Sender() != nil && ctx.Sender().Equals(a.sender)
	a.mu.Unlock()
	rec := c13Delivery{ID: m.ID, Same: same, Res: []c13Res{}}
	self := ctx.Self()
	for _, act := range d {
		before := int(self.StashSize())
		switch act {
		case "S":
			ctx.Stash()
		case "U":
			ctx.Unstash()
		case "A":
			ctx.UnstashAll()
		}
		err := ctx.getError()
		ctx.Err(nil) // keep the actor out of supervision; the error has been recorded
		kind := ""
		if err != nil {
			if errors.Is(err, gerrors.ErrStashBufferNotSet) {
				kind = "nobuf"
			} else {
				kind = err.Error()
			}
		}
		rec.Res = append(rec.Res, c13Res{Act: act, Err: kind, Before: before, After: int(self.StashSize())})
	}
	a.done <- rec
}

type c13Sender struct{}

func (*c13Sender) PreStart(*Context) error { return nil }
func (*c13Sender) PostStop(*Context) error { return nil }
func (*c13Sender) Receive(*ReceiveContext) {}

func c13Quiesce(pid *PID) error {
	deadline := time.Now().Add(30 * time.Second)
	for i := 0; ; i++ {
		if pid.mailbox.IsEmpty() && pid.systemMailbox.IsEmpty() && pid.schedState.Load() == dispatchIdle {
			return nil
		}
		if time.Now().After(deadline) {
			return fmt.Errorf("actor %s did not become idle", pid.Name())
		}
		if i < 200 {
			time.Sleep(20 * time.Microsecond)
		} else {
			time.Sleep(time.Millisecond)
		}
	}
}

func c13RunCase(ctx context.Context, sys ActorSystem, c c13Case) c13Out {
	out := c13Out{ID: c.ID, Steps: []c13Delivery{}, Extra: []c13Delivery{}}
	a := &c13Actor{gate: make(chan []string), done: make(chan c13Delivery, 1<<14), sent: map[int]*c13Msg{}}
	var opts []SpawnOption
	if c.Buf {
		opts = append(opts, WithStashing())
	}
	pid, err := sys.Spawn(ctx, fmt.Sprintf("c13-%d", c.ID), a, opts...)
	if err != nil {
		out.Err = "spawn: " + err.Error()
		return out
	}
	defer func() { _ = pid.Shutdown(ctx) }()
	sender, err := sys.Spawn(ctx, fmt.Sprintf("c13s-%d", c.ID), &c13Sender{})
	if err != nil {
		out.Err = "spawn sender: " + err.Error()
		return out
	}
	defer func() { _ = sender.Shutdown(ctx) }()
	a.mu.Lock()
	a.sender = sender
	a.mu.Unlock()
	const patience = 20 * time.Second
	pending := 0
loop:
	for _, e := range c.Events {
		switch e.E {
		case "A":
			m := &c13Msg{ID: e.M}
			a.mu.Lock()
			a.sent[e.M] = m
			a.mu.Unlock()
			if err := sender.Tell(ctx, pid, m); err != nil {
				out.Err = fmt.Sprintf("tell %d: %v", e.M, err)
				break loop
			}
			pending++
		case "D":
			if pending == 0 {
				out.Steps = append(out.Steps, c13Delivery{Noop: true, Res: []c13Res{}})
				continue
			}
			d := e.D
			if d == nil {
				d = []string{}
			}
			select {
			case a.gate <- d:
			case <-time.After(patience):
				out.Lost = true
				break loop
			}
			var rec c13Delivery
			select {
			case rec = <-a.done:
			case <-time.After(patience):
				out.Err = "handler did not finish"
				break loop
			}
			out.Steps = append(out.Steps, rec)
			pending--
			for _, r := range rec.Res {
				if r.Err == "" && r.Act == "U" {
					pending++
				}
				if r.Err == "" && r.Act == "A" && r.Before > r.After {
					pending += r.Before - r.After
				}
			}
		}
	}
	close(a.gate)
	if err := c13Quiesce(pid); err != nil && out.Err == "" {
		out.Err = err.Error()
	}
	for {
		select {
		case rec := <-a.done:
			out.Extra = append(out.Extra, rec)
			continue
		default:
		}
		break
	}
	out.FinalSize = int(pid.StashSize())
	return out
}

func TestVerifC13Stash(t *testing.T) {
	cases := verifReadJSONL[c13Case](t, "c13_in.jsonl")
	w := newVerifWriter(t, "c13_out.jsonl")
	defer w.close()
	ctx := context.Background()
	sys, err := NewActorSystem("verifC13", WithLogger(log.DiscardLogger))
	if err != nil {
		t.Fatalf("NewActorSystem: %v", err)
	}
	if err := sys.Start(ctx); err != nil {
		t.Fatalf("Start: %v", err)
	}
	defer func() { _ = sys.Stop(ctx) }()

	// each running case may hold one dispatcher worker (GOMAXPROCS of them) at its gate
	par := min(4, max(1, runtime.GOMAXPROCS(0)/4))
	outs := make([]c13Out, len(cases))
	var wg sync.WaitGroup
	sem := make(chan struct{}, par)
	for i := range cases {
		wg.Add(1)
		sem <- struct{}{}
		go func(i int) {
			defer wg.Done()
			defer func() { <-sem }()
			outs[i] = c13RunCase(ctx, sys, cases[i])
		}(i)
	}
	wg.Wait()
	for _, o := range outs {
		w.put(o)
	}
}
