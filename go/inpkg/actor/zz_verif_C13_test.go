//go:build verif

package actor

// C13 harness: stashing on REAL actors through the public API (ReceiveContext.Stash/Unstash/UnstashAll,
// PID.StashSize).
//
// A case is a list of events: "A" a message with a fresh identity is sent to the actor (Tell), "D" the
// actor's next delivery makes the given calls. The handler blocks at the start of every delivery until the
// harness hands it the calls of the next "D" event, so arrivals can be queued behind messages that are being
// re-sent by unstash, and the harness sees every delivery in order. After each call the handler records the
// error left in the context (and clears it so the actor keeps running) and StashSize().
// At the end the gate is opened, the actor drains whatever is left ("extra" deliveries).
// "R" rotates the process-wide ReceiveContext pool while messages are parked in the stash: twice the pool's
// capacity of cheap messages go through a sink actor, so every pooled context is handed out and reused.
// Every case runs in its own actor under a deadline: when a call never returns or the actor does not become idle
// the case is abandoned (the actor is left alone, nothing waits for it) and reported as hung with the call in flight.

import (
	"context"
	"errors"
	"fmt"
	"runtime"
	"sync"
	"sync/atomic"
	"testing"
	"time"

	gerrors "github.com/tochemey/goakt/v4/errors"
	"github.com/tochemey/goakt/v4/log"
)

type c13Event struct {
	E string   `json:"e"` // "A" arrive, "D" deliver, "R" rotate the context pool
	M int      `json:"m"`
	D []string `json:"d"` // "S" Stash, "U" Unstash, "A" UnstashAll
}

type c13Case struct {
	ID     int        `json:"id"`
	Buf    bool       `json:"buf"`
	Events []c13Event `json:"events"`
}

type c13Res struct {
	Act    string `json:"a"`
	Err    string `json:"err"` // "" ok, "nobuf" ErrStashBufferNotSet, otherwise the error text
	Before int    `json:"before"`
	After  int    `json:"after"` // StashSize() after the call
}

type c13Delivery struct {
	Noop bool     `json:"noop,omitempty"` // "D" event with nothing to deliver
	Rot  bool     `json:"rot,omitempty"`  // "R" event; Size = StashSize() after the rotation
	Size int      `json:"size,omitempty"`
	ID   int      `json:"id"`
	Same bool     `json:"same"` // the delivered context carries the very message that was sent, with its sender
	Res  []c13Res `json:"res"`
}

type c13Out struct {
	ID        int           `json:"id"`
	Steps     []c13Delivery `json:"steps"` // one per "D" event
	Extra     []c13Delivery `json:"extra"` // deliveries that happened after the last event (free run)
	FinalSize int           `json:"final_size"`
	Lost      bool          `json:"lost,omitempty"` // an expected delivery never happened
	Hung      bool          `json:"hung,omitempty"` // a call did not return / the actor did not become idle in time
	HungEvent int           `json:"hung_event"`     // index of the event during which it hung (-1: after the last event)
	HungCall  int           `json:"hung_call"`      // index of the call in flight within that delivery (-1: none)
	HungWhere string        `json:"hung_where,omitempty"`
	Skipped   bool          `json:"skipped,omitempty"` // not run: earlier cases hung and hold dispatcher workers
	Err       string        `json:"err,omitempty"`
}

type c13Msg struct{ ID int }

type c13Actor struct {
	gate   chan []string
	done   chan c13Delivery
	mu     sync.Mutex
	sent   map[int]*c13Msg
	sender *PID         // every message of the case is sent by this actor
	inCall atomic.Int32 // index of the call in flight (-1: none), for the hang report
	inID   atomic.Int32 // identity of the message being handled
}

func (a *c13Actor) PreStart(*Context) error { return nil }
func (a *c13Actor) PostStop(*Context) error { return nil }
func (a *c13Actor) Receive(ctx *ReceiveContext) {
	m, ok := ctx.Message().(*c13Msg)
	if !ok {
		return
	}
	d := <-a.gate // closed gate: free run, no calls
	a.mu.Lock()
	same := a.sent[m.ID] == m && a.sender != nil && ctx.Sender() != nil && ctx.Sender().Equals(a.sender)
	a.mu.Unlock()
	rec := c13Delivery{ID: m.ID, Same: same, Res: []c13Res{}}
	self := ctx.Self()
	a.inID.Store(int32(m.ID))
	for i, act := range d {
		a.inCall.Store(int32(i))
		before := int(self.StashSize())
		switch act {
		case "S":
			ctx.Stash()
		case "U":
			ctx.Unstash()
		case "A":
			ctx.UnstashAll()
		}
		err := ctx.getError()
		ctx.Err(nil) // keep the actor out of supervision; the error has been recorded
		kind := ""
		if err != nil {
			if errors.Is(err, gerrors.ErrStashBufferNotSet) {
				kind = "nobuf"
			} else {
				kind = err.Error()
			}
		}
		rec.Res = append(rec.Res, c13Res{Act: act, Err: kind, Before: before, After: int(self.StashSize())})
	}
	a.inCall.Store(-1)
	a.done <- rec
}

type c13Sender struct{}

func (*c13Sender) PreStart(*Context) error { return nil }
func (*c13Sender) PostStop(*Context) error { return nil }
func (*c13Sender) Receive(*ReceiveContext) {}

func c13Patience() time.Duration {
	return time.Duration(verifEnvInt("VERIF_C13_PATIENCE_MS", 6000)) * time.Millisecond
}

func c13Quiesce(pid *PID, patience time.Duration) error {
	deadline := time.Now().Add(patience)
	for i := 0; ; i++ {
		if pid.mailbox.IsEmpty() && pid.systemMailbox.IsEmpty() && pid.schedState.Load() == dispatchIdle {
			return nil
		}
		if time.Now().After(deadline) {
			return fmt.Errorf("actor %s did not become idle", pid.Name())
		}
		if i < 200 {
			time.Sleep(20 * time.Microsecond)
		} else {
			time.Sleep(time.Millisecond)
		}
	}
}

// c13Size reads StashSize() without trusting it to return (a corrupted chain can be cyclic).
func c13Size(pid *PID, patience time.Duration) (int, bool) {
	ch := make(chan int, 1)
	go func() { ch <- int(pid.StashSize()) }()
	select {
	case n := <-ch:
		return n, true
	case <-time.After(patience):
		return -1, false
	}
}

// sink: swallows the messages that rotate the context pool
type c13Sink struct{}

func (*c13Sink) PreStart(*Context) error { return nil }
func (*c13Sink) PostStop(*Context) error { return nil }
func (*c13Sink) Receive(ctx *ReceiveContext) {
	if m, ok := ctx.Message().(*c13Tick); ok {
		m.n.Add(1)
	}
}

type c13Tick struct{ n atomic.Int64 } // one per rotation, counts how many of its copies the sink has handled

// c13Rotate sends twice the context pool's capacity of messages through the sink and waits until all were
// handled: every context sitting in the pool is handed out and reused at least once.
func c13Rotate(ctx context.Context, sinkPID *PID, patience time.Duration) error {
	n := 2 * cap(contextCh)
	tick := &c13Tick{}
	for i := 0; i < n; i++ {
		if err := Tell(ctx, sinkPID, tick); err != nil {
			return err
		}
	}
	deadline := time.Now().Add(patience)
	for tick.n.Load() < int64(n) {
		if time.Now().After(deadline) {
			return fmt.Errorf("sink did not drain")
		}
		time.Sleep(50 * time.Microsecond)
	}
	return nil
}

type c13Env struct {
	sys     ActorSystem
	sinkPID *PID
	hung    atomic.Int32
}

func c13RunCase(ctx context.Context, env *c13Env, c c13Case) c13Out {
	out := c13Out{ID: c.ID, Steps: []c13Delivery{}, Extra: []c13Delivery{}, HungEvent: -1, HungCall: -1}
	if env.hung.Load() >= 2 {
		out.Skipped = true
		return out
	}
	sys := env.sys
	patience := c13Patience()
	a := &c13Actor{gate: make(chan []string), done: make(chan c13Delivery, 1<<14), sent: map[int]*c13Msg{}}
	a.inCall.Store(-1)
	var opts []SpawnOption
	if c.Buf {
		opts = append(opts, WithStashing())
	}
	pid, err := sys.Spawn(ctx, fmt.Sprintf("c13-%d", c.ID), a, opts...)
	if err != nil {
		out.Err = "spawn: " + err.Error()
		return out
	}
	sender, err := sys.Spawn(ctx, fmt.Sprintf("c13s-%d", c.ID), &c13Sender{})
	if err != nil {
		out.Err = "spawn sender: " + err.Error()
		return out
	}
	a.mu.Lock()
	a.sender = sender
	a.mu.Unlock()
	hang := func(ev int, where string) c13Out {
		// abandon the case: the actor may be blocked for good, nothing may wait for it
		out.Hung, out.HungEvent, out.HungCall, out.HungWhere = true, ev, int(a.inCall.Load()), where
		env.hung.Add(1)
		return out
	}
	pending := 0
	aborted := false
loop:
	for ei, e := range c.Events {
		switch e.E {
		case "A":
			m := &c13Msg{ID: e.M}
			a.mu.Lock()
			a.sent[e.M] = m
			a.mu.Unlock()
			if err := sender.Tell(ctx, pid, m); err != nil {
				out.Err = fmt.Sprintf("tell %d: %v", e.M, err)
				aborted = true
				break loop
			}
			pending++
		case "R":
			if err := c13Rotate(ctx, env.sinkPID, 5*patience); err != nil {
				out.Err = "rotate: " + err.Error()
				aborted = true
				break loop
			}
			n, ok := c13Size(pid, patience)
			if !ok {
				return hang(ei, "StashSize() did not return after the pool rotation")
			}
			out.Steps = append(out.Steps, c13Delivery{Rot: true, Size: n, Res: []c13Res{}})
		case "D":
			if pending == 0 {
				out.Steps = append(out.Steps, c13Delivery{Noop: true, Res: []c13Res{}})
				continue
			}
			d := e.D
			if d == nil {
				d = []string{}
			}
			select {
			case a.gate <- d:
			case <-time.After(patience):
				out.Lost = true
				out.HungEvent = ei
				aborted = true
				break loop
			}
			var rec c13Delivery
			select {
			case rec = <-a.done:
			case <-time.After(patience):
				return hang(ei, fmt.Sprintf("the handler of message %d did not return", a.inID.Load()))
			}
			out.Steps = append(out.Steps, rec)
			pending--
			for _, r := range rec.Res {
				if r.Err == "" && r.Act == "U" {
					pending++
				}
				if r.Err == "" && r.Act == "A" && r.Before > r.After {
					pending += r.Before - r.After
				}
			}
		}
	}
	_ = aborted
	close(a.gate)
	if err := c13Quiesce(pid, patience); err != nil {
		// still busy after the last event: it keeps delivering (or is stuck); collect what it did so far
		for len(out.Extra) < 64 {
			select {
			case rec := <-a.done:
				out.Extra = append(out.Extra, rec)
				continue
			default:
			}
			break
		}
		return hang(-1, "the actor did not become idle after the last event")
	}
	for {
		select {
		case rec := <-a.done:
			out.Extra = append(out.Extra, rec)
			continue
		default:
		}
		break
	}
	n, ok := c13Size(pid, patience)
	if !ok {
		return hang(-1, "StashSize() did not return")
	}
	out.FinalSize = n
	_ = pid.Shutdown(ctx)
	_ = sender.Shutdown(ctx)
	return out
}

func TestVerifC13Stash(t *testing.T) {
	cases := verifReadJSONL[c13Case](t, "c13_in.jsonl")
	w := newVerifWriter(t, "c13_out.jsonl")
	defer w.close()
	ctx := context.Background()
	sys, err := NewActorSystem("verifC13", WithLogger(log.DiscardLogger))
	if err != nil {
		t.Fatalf("NewActorSystem: %v", err)
	}
	if err := sys.Start(ctx); err != nil {
		t.Fatalf("Start: %v", err)
	}
	env := &c13Env{sys: sys}
	env.sinkPID, err = sys.Spawn(ctx, "c13-sink", &c13Sink{})
	if err != nil {
		t.Fatalf("spawn sink: %v", err)
	}

	// each running case may hold one dispatcher worker (GOMAXPROCS of them) at its gate
	par := min(4, max(1, runtime.GOMAXPROCS(0)/4))
	outs := make([]c13Out, len(cases))
	var wg sync.WaitGroup
	sem := make(chan struct{}, par)
	for i := range cases {
		wg.Add(1)
		sem <- struct{}{}
		go func(i int) {
			defer wg.Done()
			defer func() { <-sem }()
			outs[i] = c13RunCase(ctx, env, cases[i])
		}(i)
	}
	wg.Wait()
	for _, o := range outs {
		w.put(o)
	}
	if env.hung.Load() == 0 {
		_ = sys.Stop(ctx) // with abandoned (blocked) actors Stop could wait for them: the process just ends instead
	}
}
