//go:build verif

package actor

import (
	"runtime"
	"sync"
	"sync/atomic"
	"testing"
	"time"
)

// c05Tok is a distinguishable schedulable.
type c05Tok struct {
	id   int
	turn func(t *c05Tok, w *worker)
}

func (t *c05Tok) runTurn(w *worker) {
	if t.turn != nil {
		t.turn(t, w)
	}
}

func c05ID(s schedulable) int {
	if s == nil {
		return -1
	}
	if t, ok := s.(*c05Tok); ok && t != nil {
		return t.id
	}
	return -2
}

// ---------------------------------------------------------------- (a) sequential conformance
type c05Op struct {
	Op string `json:"op"` // push | pushLocal | popLocal | popGlobal | steal | trySteal | take
	W  int    `json:"w"`
	V  int    `json:"v"`
	ID int    `json:"id"`
}
type c05Case struct {
	Name    string  `json:"name"`
	Workers int     `json:"workers"`
	Full    bool    `json:"full"` // record contents after every step (otherwise only the digest)
	Ops     []c05Op `json:"ops"`
}
type c05Ring struct {
	Head       int   `json:"head"`
	Tail       int   `json:"tail"`
	Size       int   `json:"size"`
	Cap        int   `json:"cap"`
	SizeAtomic int   `json:"size_atomic"` // sizeAtomic (local) / globalCount (global)
	Items      []int `json:"items,omitempty"`
	NilInLive  bool  `json:"nil_in_live,omitempty"`
	Garbage    int   `json:"garbage,omitempty"` // non-nil slots outside the live window
}
type c05Step struct {
	Out     int       `json:"out"` // id returned, -1 for nil / no result
	Blocked bool      `json:"blocked,omitempty"`
	Locals  []c05Ring `json:"locals"`
	Global  c05Ring   `json:"global"`
}
type c05CaseOut struct {
	Name    string    `json:"name"`
	Workers int       `json:"workers"`
	Steps   []c05Step `json:"steps"`
	Final   c05Step   `json:"final"`
}

func c05ObsLocal(q *localQueue, full bool) c05Ring {
	q.mu.Lock()
	defer q.mu.Unlock()
	r := c05Ring{Head: q.head, Tail: q.tail, Size: q.size, Cap: len(q.buf), SizeAtomic: int(q.sizeAtomic.Load())}
	live := map[int]bool{}
	for i := 0; i < q.size && i < len(q.buf); i++ {
		idx := (q.head + i) % len(q.buf)
		live[idx] = true
		if q.buf[idx] == nil {
			r.NilInLive = true
		}
		if full {
			r.Items = append(r.Items, c05ID(q.buf[idx]))
		}
	}
	for i := range q.buf {
		if !live[i] && q.buf[i] != nil {
			r.Garbage++
		}
	}
	return r
}

func c05ObsGlobal(rq *readyQueue, full bool) c05Ring {
	rq.parkMu.Lock()
	defer rq.parkMu.Unlock()
	g := &rq.global
	r := c05Ring{Head: g.head, Tail: g.tail, Size: g.size, Cap: len(g.buf), SizeAtomic: int(rq.globalCount.Load())}
	live := map[int]bool{}
	for i := 0; i < g.size && i < len(g.buf); i++ {
		idx := (g.head + i) % len(g.buf)
		live[idx] = true
		if g.buf[idx] == nil {
			r.NilInLive = true
		}
		if full {
			r.Items = append(r.Items, c05ID(g.buf[idx]))
		}
	}
	for i := range g.buf {
		if !live[i] && g.buf[i] != nil {
			r.Garbage++
		}
	}
	return r
}

func c05Obs(rq *readyQueue, out int, full bool) c05Step {
	st := c05Step{Out: out}
	for _, q := range rq.locals {
		st.Locals = append(st.Locals, c05ObsLocal(q, full))
	}
	st.Global = c05ObsGlobal(rq, full)
	return st
}

func TestVerifC05Seq(t *testing.T) {
	cases := verifReadJSONL[c05Case](t, "c05_seq_in.jsonl")
	w := newVerifWriter(t, "c05_seq_out.jsonl")
	defer w.close()
	for _, c := range cases {
		rq := newReadyQueue(c.Workers)
		out := c05CaseOut{Name: c.Name, Workers: c.Workers}
		dead := false
		for _, op := range c.Ops {
			res := -1
			blocked := false
			if !dead {
				switch op.Op {
				case "push":
					rq.push(&c05Tok{id: op.ID})
				case "pushLocal":
					rq.pushLocal(op.W, &c05Tok{id: op.ID})
				case "popLocal":
					res = c05ID(rq.locals[op.W].popFront())
				case "popGlobal":
					res = c05ID(rq.popGlobal())
				case "steal":
					res = c05ID(rq.locals[op.V].stealHalf(rq.locals[op.W]))
				case "trySteal":
					res = c05ID(rq.trySteal(op.W))
				case "take":
					// only issued when the generator knows an item is reachable for this worker; a
					// take that blocks anyway is reported (and the case abandoned)
					ch := make(chan schedulable, 1)
					go func() { s, _ := rq.take(op.W); ch <- s }()
					select {
					case s := <-ch:
						res = c05ID(s)
					case <-time.After(10 * time.Second):
						blocked, dead = true, true
						rq.close()
					}
				default:
					t.Fatalf("unknown op %q", op.Op)
				}
			}
			st := c05Obs(rq, res, c.Full)
			st.Blocked = blocked
			out.Steps = append(out.Steps, st)
		}
		out.Final = c05Obs(rq, -1, true)
		w.put(out)
	}
}

// ---------------------------------------------------------------- (b) real-goroutine stress
type c05StressOut struct {
	Workers     int    `json:"workers"`
	Procs       int    `json:"procs"`
	Producers   int    `json:"producers"`
	Pushed      int64  `json:"pushed"`
	Taken       int64  `json:"taken"`
	Dup         int    `json:"duplicates"`
	Lost        int    `json:"lost"`
	Unknown     int    `json:"unknown"`
	Stalled     bool   `json:"stalled"`
	ParkedWork  bool   `json:"parked_with_global_work"`
	Leftover    int    `json:"leftover_in_rings"`
	ExitedAll   bool   `json:"all_workers_exited_after_close"`
	Steals      int64  `json:"local_pushes"`
	Spills      bool   `json:"local_overflow_exercised"`
	GlobalCap   int    `json:"global_cap_final"`
	Detail      string `json:"detail"`
}

func c05RunStress(nWorkers, procs, producers, perProducer int, seed uint64, burst bool) (out c05StressOut) {
	old := runtime.GOMAXPROCS(procs)
	defer runtime.GOMAXPROCS(old)
	out.Workers, out.Procs, out.Producers = nWorkers, procs, producers
	rq := newReadyQueue(nWorkers)
	d := &dispatcher{readyQueue: rq, throughput: 1}
	var nextID atomic.Int64
	var pushed, taken, localPushes atomic.Int64
	const maxIDs = 1 << 20
	counts := make([]atomic.Int32, maxIDs)
	var unknown atomic.Int64
	var turn func(t *c05Tok, w *worker)
	newTok := func(gen int) *c05Tok {
		id := int(nextID.Add(1))
		pushed.Add(1)
		return &c05Tok{id: id<<4 | gen, turn: turn}
	}
	turn = func(t *c05Tok, w *worker) {
		id, gen := t.id>>4, t.id&15
		if id <= 0 || id >= maxIDs {
			unknown.Add(1)
		} else {
			counts[id].Add(1)
		}
		taken.Add(1)
		if gen > 0 {
			// like runTurn on budget exhaustion: re-push (a fresh ticket) onto the own local ring
			n := 1
			if burst && gen == 15 {
				n = 300 // overflow the local ring: spill into the global ring
			}
			for i := 0; i < n; i++ {
				g := gen - 1
				if n > 1 {
					g = 0
				}
				w.reschedule(newTok(g))
				localPushes.Add(1)
			}
		}
		if t.id&3 == 1 {
			runtime.Gosched()
		}
	}
	var wg sync.WaitGroup
	for i := 0; i < nWorkers; i++ {
		wk := &worker{id: i, dispatcher: d}
		wg.Add(1)
		go func() { defer wg.Done(); wk.run() }()
	}
	var pg sync.WaitGroup
	for p := 0; p < producers; p++ {
		pg.Add(1)
		go func(p int) {
			defer pg.Done()
			rng := newVerifRNG(seed*131 + uint64(p))
			for k := 0; k < perProducer; k++ {
				gen := rng.intn(4)
				if burst && k == perProducer/2 && p == 0 {
					gen = 15
				}
				rq.push(newTok(gen))
				switch rng.intn(6) {
				case 0:
					runtime.Gosched()
				case 1:
					// let the workers park so that the signal path is exercised
					for i := 0; i < 200 && rq.parkedCount() < nWorkers; i++ {
						runtime.Gosched()
					}
				}
			}
		}(p)
	}
	pg.Wait()
	ok := vdWaitUntil(20*time.Second, func() bool { return taken.Load() >= pushed.Load() })
	out.Stalled = !ok
	if !ok {
		out.ParkedWork = rq.parkedCount() > 0 && rq.globalLen() > 0
		out.Detail = "parked=" + itoa(rq.parkedCount()) + " global=" + itoa(rq.globalLen())
	}
	left := rq.globalLen()
	for _, q := range rq.locals {
		left += q.length()
	}
	out.Leftover = left
	rq.parkMu.Lock()
	out.GlobalCap = len(rq.global.buf)
	rq.parkMu.Unlock()
	rq.close()
	done := make(chan struct{})
	go func() { wg.Wait(); close(done) }()
	out.ExitedAll = vdWait(done, 10*time.Second)
	out.Pushed, out.Taken = pushed.Load(), taken.Load()
	out.Steals = localPushes.Load()
	out.Spills = burst
	n := int(nextID.Load())
	for id := 1; id <= n && id < maxIDs; id++ {
		switch c := counts[id].Load(); {
		case c == 0:
			out.Lost++
		case c > 1:
			out.Dup += int(c - 1)
		}
	}
	out.Unknown = int(unknown.Load())
	return out
}

func itoa(n int) string {
	if n == 0 {
		return "0"
	}
	neg := n < 0
	if neg {
		n = -n
	}
	var b []byte
	for n > 0 {
		b = append([]byte{byte('0' + n%10)}, b...)
		n /= 10
	}
	if neg {
		b = append([]byte{'-'}, b...)
	}
	return string(b)
}

func TestVerifC05Stress(t *testing.T) {
	w := newVerifWriter(t, "c05_stress_out.jsonl")
	defer w.close()
	seed := verifSeed()
	thorough := verifEnvInt("VERIF_THOROUGH", 0) == 1
	per := 1500
	rounds := 1
	if thorough {
		per, rounds = 6000, 4
	}
	k := 0
	for r := 0; r < rounds; r++ {
		for _, nw := range []int{1, 2, 3, 4, 8} {
			procs := []int{2, 4, 8, 16}[k%4]
			w.put(c05RunStress(nw, procs, 1+k%4, per, seed+uint64(k), k%2 == 0))
			k++
		}
	}
}

// ---------------------------------------------------------------- (c) scripted park/close witnesses
type c05ScenOut struct {
	Name   string `json:"name"`
	OK     bool   `json:"ok"`
	Why    string `json:"why"`
	Detail string `json:"detail"`
}

type c05TakeRes struct {
	s  schedulable
	ok bool
}

func c05Park(rq *readyQueue) chan c05TakeRes {
	ch := make(chan c05TakeRes, 1)
	go func() { s, ok := rq.parkAndTake(); ch <- c05TakeRes{s, ok} }()
	return ch
}

func c05Recv(ch chan c05TakeRes, d time.Duration) (c05TakeRes, bool) {
	select {
	case r := <-ch:
		return r, true
	case <-time.After(d):
		return c05TakeRes{}, false
	}
}

func TestVerifC05Scenarios(t *testing.T) {
	w := newVerifWriter(t, "c05_scen_out.jsonl")
	defer w.close()
	const wait = 10 * time.Second
	// P1: a push lands between the worker's failed popGlobal/trySteal and its park
	{
		o := c05ScenOut{Name: "P1 push between the failed probes and parkAndTake"}
		rq := newReadyQueue(2)
		a := rq.locals[0].popFront() == nil && rq.popGlobal() == nil && rq.trySteal(0) == nil
		rq.push(&c05Tok{id: 7})
		r, got := c05Recv(c05Park(rq), wait)
		o.OK = a && got && r.ok && c05ID(r.s) == 7
		if !got {
			o.Why = "parkAndTake blocked although the global ring holds an item"
			rq.close()
		} else if !o.OK {
			o.Why = "parkAndTake did not return the queued item"
		}
		o.Detail = "got=" + itoa(c05ID(r.s))
		w.put(o)
	}
	// P2: close while parked
	{
		o := c05ScenOut{Name: "P2 close while a worker is parked"}
		rq := newReadyQueue(2)
		ch := c05Park(rq)
		parked := vdWaitUntil(wait, func() bool { return rq.parkedCount() == 1 })
		rq.close()
		r, got := c05Recv(ch, wait)
		o.OK = parked && got && !r.ok && r.s == nil
		if !parked {
			o.Why = "worker did not park on an empty open queue"
		} else if !got {
			o.Why = "parked worker not woken by close"
		} else if !o.OK {
			o.Why = "parkAndTake after close returned ok"
		}
		o.Detail = "parked_after=" + itoa(rq.parkedCount())
		w.put(o)
	}
	// P3: park after close returns false immediately, even with queued items; and take exits
	{
		o := c05ScenOut{Name: "P3 parkAndTake / take after close"}
		rq := newReadyQueue(2)
		rq.close()
		r, got := c05Recv(c05Park(rq), wait)
		ch := make(chan c05TakeRes, 1)
		go func() { s, ok := rq.take(1); ch <- c05TakeRes{s, ok} }()
		r2, got2 := c05Recv(ch, wait)
		o.OK = got && !r.ok && got2 && !r2.ok
		if !o.OK {
			o.Why = "a worker does not exit after close"
		}
		w.put(o)
	}
	// P4: three parked workers, two pushes: exactly two wake with the two items (in order), the third stays parked; close releases it
	{
		o := c05ScenOut{Name: "P4 one signal per push"}
		rq := newReadyQueue(3)
		chs := []chan c05TakeRes{c05Park(rq), c05Park(rq), c05Park(rq)}
		parked := vdWaitUntil(wait, func() bool { return rq.parkedCount() == 3 })
		rq.push(&c05Tok{id: 1})
		rq.push(&c05Tok{id: 2})
		gotIDs := map[int]int{}
		woke := 0
		deadline := time.After(wait)
	loop:
		for woke < 2 {
			for _, ch := range chs {
				select {
				case r := <-ch:
					woke++
					gotIDs[c05ID(r.s)]++
					if !r.ok {
						o.Why = "woken worker told to exit"
					}
				default:
				}
			}
			select {
			case <-deadline:
				break loop
			default:
				time.Sleep(200 * time.Microsecond)
			}
		}
		time.Sleep(30 * time.Millisecond)
		still := rq.parkedCount() == 1
		left := rq.globalLen()
		rq.close()
		exited := 0
		for _, ch := range chs {
			if r, got := c05Recv(ch, wait); got && !r.ok {
				exited++
			}
		}
		o.OK = parked && woke == 2 && gotIDs[1] == 1 && gotIDs[2] == 1 && still && left == 0 && exited == 1 && o.Why == ""
		if !o.OK && o.Why == "" {
			o.Why = "pushes did not wake one worker each"
		}
		o.Detail = "woke=" + itoa(woke) + " parked_after=" + itoa(rq.parkedCount()) + " left=" + itoa(left) + " exited_on_close=" + itoa(exited)
		w.put(o)
	}
	// P5: local ring full: pushLocal spills into the global ring and wakes a parked worker
	{
		o := c05ScenOut{Name: "P5 local overflow spills to the global ring and signals"}
		rq := newReadyQueue(2)
		ch := c05Park(rq)
		parked := vdWaitUntil(wait, func() bool { return rq.parkedCount() == 1 })
		for i := 0; i < localQueueCap; i++ {
			rq.pushLocal(0, &c05Tok{id: 1000 + i})
		}
		stillParked := rq.parkedCount() == 1 && rq.globalLen() == 0
		rq.pushLocal(0, &c05Tok{id: 5000})
		r, got := c05Recv(ch, wait)
		o.OK = parked && stillParked && got && r.ok && c05ID(r.s) == 5000 && rq.locals[0].length() == localQueueCap
		if !got {
			o.Why = "spilled item did not wake the parked worker (or was dropped)"
			rq.close()
		} else if !o.OK {
			o.Why = "overflow handling differs"
		}
		o.Detail = "got=" + itoa(c05ID(r.s)) + " local0=" + itoa(rq.locals[0].length()) + " global=" + itoa(rq.globalLen())
		w.put(o)
	}
	// P6: a worker woken by a signal whose item was taken by somebody else goes back to waiting and is counted again
	{
		o := c05ScenOut{Name: "P6 woken worker finds nothing and parks again"}
		rq := newReadyQueue(2)
		ch := c05Park(rq)
		parked := vdWaitUntil(wait, func() bool { return rq.parkedCount() == 1 })
		rq.parkMu.Lock() // hold the lock so the woken worker cannot run before we steal the item
		rq.global.push(&c05Tok{id: 9})
		rq.globalCount.Store(int32(rq.global.size))
		rq.cond.Signal()
		s := rq.global.pop()
		rq.globalCount.Store(int32(rq.global.size))
		rq.parkMu.Unlock()
		time.Sleep(20 * time.Millisecond)
		again := vdWaitUntil(wait, func() bool { return rq.parkedCount() == 1 })
		rq.push(&c05Tok{id: 10})
		r, got := c05Recv(ch, wait)
		o.OK = parked && c05ID(s) == 9 && again && got && r.ok && c05ID(r.s) == 10
		if !o.OK {
			o.Why = "parked counter / re-wait after an empty wake-up is wrong"
			if !got {
				rq.close()
			}
		}
		o.Detail = "parked_now=" + itoa(rq.parkedCount())
		w.put(o)
	}
	// P7: concurrent steals that cross paths (A steals 0->1 while B steals 1->0, a third pair 1->2 / 2->1):
	// the ordered double locking must not deadlock, and no ticket may be lost or duplicated
	{
		o := c05ScenOut{Name: "P7 crossing steals do not deadlock and conserve tickets"}
		rq := newReadyQueue(3)
		const n = 150
		for i := 0; i < n; i++ {
			rq.pushLocal(i%3, &c05Tok{id: i + 1})
		}
		var got [4][]int
		var wg sync.WaitGroup
		pairs := [][2]int{{0, 1}, {1, 0}, {1, 2}, {2, 1}}
		for gi, pr := range pairs {
			wg.Add(1)
			go func(gi int, v, w int) {
				defer wg.Done()
				for k := 0; k < 20000; k++ {
					if s := rq.locals[v].stealHalf(rq.locals[w]); s != nil {
						got[gi] = append(got[gi], c05ID(s))
						// give the ticket back to the victim so the game continues
						if !rq.locals[v].pushBack(s) {
							rq.push(s)
						}
					}
					if k%64 == 0 {
						runtime.Gosched()
					}
				}
			}(gi, pr[0], pr[1])
		}
		done := make(chan struct{})
		go func() { wg.Wait(); close(done) }()
		finished := vdWait(done, 30*time.Second)
		seen := map[int]int{}
		total := 0
		if finished {
			for _, q := range rq.locals {
				q.mu.Lock()
				for i := 0; i < q.size; i++ {
					seen[c05ID(q.buf[(q.head+i)%len(q.buf)])]++
					total++
				}
				q.mu.Unlock()
			}
			rq.parkMu.Lock()
			for i := 0; i < rq.global.size; i++ {
				seen[c05ID(rq.global.buf[(rq.global.head+i)%len(rq.global.buf)])]++
				total++
			}
			rq.parkMu.Unlock()
		}
		okAll := finished && total == n
		for i := 1; i <= n && okAll; i++ {
			if seen[i] != 1 {
				okAll = false
			}
		}
		o.OK = okAll
		if !finished {
			o.Why = "crossing stealHalf calls deadlocked (30 s)"
		} else if !okAll {
			o.Why = "tickets lost or duplicated by concurrent steals"
		}
		o.Detail = "tickets_left=" + itoa(total)
		w.put(o)
	}
}
