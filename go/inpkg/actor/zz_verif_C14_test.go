//go:build verif

package actor

// C14 harness: behaviour switching on REAL actors.
//
// Every case spawns a fresh actor in a real ActorSystem. A message carries the list of switch calls
// (Become / BecomeStacked / UnBecomeStacked / UnBecome, through the public ReceiveContext API) that
// whichever behaviour handles it has to make. Each behaviour tags what it handles with its own
// identity, so the harness records, per message, which behaviour ran it (begin and end), and after
// every switch call the identity of Peek() and Len() of the actor's behaviour stack.
// checks/C14.py compares the record with the Coq model (vm_compute) and with the property's stack.

import (
	"context"
	"fmt"
	"sync"
	"sync/atomic"
	"testing"
	"time"

	"github.com/tochemey/goakt/v4/log"
)

type c14Op struct {
	K string `json:"k"` // "B" Become, "S" BecomeStacked, "P" UnBecomeStacked, "U" UnBecome
	B int    `json:"b"`
}

type c14Case struct {
	ID   int       `json:"id"`
	Mode string    `json:"mode"` // "seq": one message at a time; "batch": all messages sent, then drained
	Msgs [][]c14Op `json:"msgs"`
}

type c14Event struct {
	Msg  int    `json:"m"`
	H    int    `json:"h"`  // identity of the behaviour that is running
	Ph   string `json:"p"`  // "b" begin, "o" after a switch call, "e" end
	Peek int    `json:"pk"` // identity of Peek() (-1: empty stack)
	Len  int    `json:"l"`  // Len()
}

type c14Out struct {
	ID        int        `json:"id"`
	Events    []c14Event `json:"events"`
	FinalPeek int        `json:"final_peek"`
	FinalLen  int        `json:"final_len"`
	Hung      bool       `json:"hung,omitempty"` // the actor did not become idle after a message: case abandoned
	HungMsg   int        `json:"hung_msg"`
	Skipped   bool       `json:"skipped,omitempty"`
	Err       string     `json:"err,omitempty"`
}

var c14Hung atomic.Int32

type c14Msg struct {
	Idx int
	Ops []c14Op
}

type c14Probe struct{ id int }

type c14Actor struct {
	mu     sync.Mutex
	events []c14Event
}

func (a *c14Actor) PreStart(*Context) error { return nil }
func (a *c14Actor) PostStop(*Context) error { return nil }
func (a *c14Actor) Receive(ctx *ReceiveContext) {
	a.handle(0, ctx)
}

// behaviour number k (k >= 1); number 0 is the actor's own Receive
func (a *c14Actor) beh(k int) Behavior {
	return func(ctx *ReceiveContext) { a.handle(k, ctx) }
}

func (a *c14Actor) rec(e c14Event) {
	a.mu.Lock()
	a.events = append(a.events, e)
	a.mu.Unlock()
}

func c14PeekID(pid *PID) int {
	b := pid.behaviorStack.Peek()
	if b == nil {
		return -1
	}
	p := &c14Probe{id: -2}
	b(&ReceiveContext{message: p, self: pid})
	return p.id
}

func (a *c14Actor) handle(k int, ctx *ReceiveContext) {
	switch m := ctx.Message().(type) {
	case *c14Probe:
		m.id = k
	case *c14Msg:
		self := ctx.Self()
		a.rec(c14Event{Msg: m.Idx, H: k, Ph: "b", Peek: c14PeekID(self), Len: self.behaviorStack.Len()})
		for _, op := range m.Ops {
			switch op.K {
			case "B":
				ctx.Become(a.beh(op.B))
			case "S":
				ctx.BecomeStacked(a.beh(op.B))
			case "P":
				ctx.UnBecomeStacked()
			case "U":
				ctx.UnBecome()
			}
			a.rec(c14Event{Msg: m.Idx, H: k, Ph: "o", Peek: c14PeekID(self), Len: self.behaviorStack.Len()})
		}
		a.rec(c14Event{Msg: m.Idx, H: k, Ph: "e", Peek: c14PeekID(self), Len: self.behaviorStack.Len()})
	default:
		// PostStart and anything else: ignored
	}
}

// c14Quiesce waits until the actor has nothing queued and no turn in progress. Tell returns after the
// message is enqueued and the actor scheduled, so "idle and empty" after Tell means the message has
// been taken (handled, or skipped because no behaviour was installed).
func c14Quiesce(pid *PID) error {
	deadline := time.Now().Add(time.Duration(verifEnvInt("VERIF_C14_PATIENCE_MS", 10000)) * time.Millisecond)
	for i := 0; ; i++ {
		if pid.mailbox.IsEmpty() && pid.systemMailbox.IsEmpty() && pid.schedState.Load() == dispatchIdle {
			return nil
		}
		if time.Now().After(deadline) {
			return fmt.Errorf("actor %s did not become idle", pid.Name())
		}
		if i < 200 {
			time.Sleep(20 * time.Microsecond)
		} else {
			time.Sleep(time.Millisecond)
		}
	}
}

func c14System(t *testing.T, name string) ActorSystem {
	sys, err := NewActorSystem(name, WithLogger(log.DiscardLogger))
	if err != nil {
		t.Fatalf("NewActorSystem: %v", err)
	}
	if err := sys.Start(context.Background()); err != nil {
		t.Fatalf("Start: %v", err)
	}
	return sys
}

func c14RunCase(ctx context.Context, sys ActorSystem, c c14Case) c14Out {
	out := c14Out{ID: c.ID, FinalPeek: -3, HungMsg: -1}
	if c14Hung.Load() >= 2 {
		out.Skipped = true
		return out
	}
	a := &c14Actor{}
	pid, err := sys.Spawn(ctx, fmt.Sprintf("c14-%d", c.ID), a)
	if err != nil {
		out.Err = "spawn: " + err.Error()
		return out
	}
	collect := func() {
		a.mu.Lock()
		out.Events = append([]c14Event(nil), a.events...)
		a.mu.Unlock()
	}
	hang := func(i int) c14Out {
		// abandon the case: nothing waits for an actor that may be stuck
		out.Hung, out.HungMsg = true, i
		c14Hung.Add(1)
		collect()
		return out
	}
	if err := c14Quiesce(pid); err != nil {
		return hang(-1)
	}
	for i, ops := range c.Msgs {
		if err := Tell(ctx, pid, &c14Msg{Idx: i, Ops: ops}); err != nil {
			out.Err = fmt.Sprintf("tell %d: %v", i, err)
			break
		}
		if c.Mode != "batch" {
			if err := c14Quiesce(pid); err != nil {
				return hang(i)
			}
		}
	}
	if err := c14Quiesce(pid); err != nil {
		return hang(len(c.Msgs) - 1)
	}
	collect()
	out.FinalPeek = c14PeekID(pid)
	out.FinalLen = pid.behaviorStack.Len()
	_ = pid.Shutdown(ctx)
	return out
}

func TestVerifC14Behaviors(t *testing.T) {
	cases := verifReadJSONL[c14Case](t, "c14_in.jsonl")
	w := newVerifWriter(t, "c14_out.jsonl")
	defer w.close()
	ctx := context.Background()
	sys := c14System(t, "verifC14")
	defer func() {
		if c14Hung.Load() == 0 {
			_ = sys.Stop(ctx)
		}
	}()

	// cases are independent actors: run a few at a time
	const par = 8
	outs := make([]c14Out, len(cases))
	var wg sync.WaitGroup
	sem := make(chan struct{}, par)
	for i := range cases {
		wg.Add(1)
		sem <- struct{}{}
		go func(i int) {
			defer wg.Done()
			defer func() { <-sem }()
			outs[i] = c14RunCase(ctx, sys, cases[i])
		}(i)
	}
	wg.Wait()
	for _, o := range outs {
		w.put(o)
	}
}
