//go:build verif

package actor

// C09 harness, part 1: the real pid tree (actor/pid_tree.go) driven by the op sequences that
// checks/C09.py generated; after every op the whole observable state is recorded through the
// tree's own accessors. Part 2 (scenarios on real actor systems) is in zz_verif_C09_stop_test.go.

import (
	"errors"
	"fmt"
	"sort"
	"strconv"
	"strings"
	"testing"

	"github.com/tochemey/goakt/v4/internal/address"
	"github.com/tochemey/goakt/v4/log"
)

type c09TreeCase struct {
	K     int     `json:"k"`
	Names []int   `json:"names"`
	Ops   [][]any `json:"ops"`
}

type c09TreeStep struct {
	R int     `json:"r"`
	O [][]int `json:"o"`
}

type c09TreeOut struct {
	Steps []c09TreeStep `json:"steps"`
}

func c09MockPID(sys ActorSystem, id, name int) *PID {
	addr := address.New("n"+strconv.Itoa(name), sys.Name(), "h"+strconv.Itoa(id), 1000)
	return &PID{address: addr, path: newPath(addr), actorSystem: sys}
}

// c09Index recovers the case-local index of a PID from its host ("h<i>").
func c09Index(p *PID) int {
	if p == nil {
		return -1
	}
	h := p.Path().Host()
	i, err := strconv.Atoi(strings.TrimPrefix(h, "h"))
	if err != nil {
		return -1
	}
	return i
}

func c09Sorted(ps []*PID) []int {
	out := make([]int, 0, len(ps))
	for _, p := range ps {
		out = append(out, c09Index(p))
	}
	sort.Ints(out)
	return out
}

func c09Opt(p *PID, ok bool) int {
	if !ok || p == nil {
		return 0
	}
	return c09Index(p) + 1
}

func c09Observe(tr *tree, pids []*PID, k int) [][]int {
	obs := make([][]int, 0, 2+6*k)
	root, ok := tr.root()
	obs = append(obs, []int{int(tr.count()), c09Opt(root, ok)})
	for i := 0; i < k; i++ {
		p := pids[i]
		_, reg := tr.node(p.ID())
		r := 0
		if reg {
			r = 1
		}
		par, pok := tr.parent(p)
		obs = append(obs, []int{r, c09Opt(par, pok)})
		obs = append(obs, c09Sorted(tr.children(p)))
		obs = append(obs, c09Sorted(tr.descendants(p)))
		obs = append(obs, c09Sorted(tr.watchers(p)))
		obs = append(obs, c09Sorted(tr.watchees(p)))
		obs = append(obs, c09Sorted(tr.siblings(p)))
	}
	names := make([]int, 0, k)
	for nm := 0; nm < k; nm++ {
		n, ok := tr.nodeByName("n" + strconv.Itoa(nm))
		if !ok || n == nil {
			names = append(names, 0)
			continue
		}
		names = append(names, c09Opt(n.value(), true))
	}
	obs = append(obs, names)
	return obs
}

func c09Code(err error) int {
	switch {
	case err == nil:
		return 0
	case errors.Is(err, errNodeAlreadyExists) || err.Error() == "pid already exists":
		return 1
	case err.Error() == "parent pid does not exist":
		return 2
	case err.Error() == "pid does not exist":
		return 3
	}
	return 7
}

func c09Int(v any) int {
	f, _ := v.(float64)
	return int(f)
}

// TestVerifC09Tree runs every generated op sequence on a fresh real tree.
func TestVerifC09Tree(t *testing.T) {
	cases := verifReadJSONL[c09TreeCase](t, "c09_tree_in.jsonl")
	w := newVerifWriter(t, "c09_tree_out.jsonl")
	defer w.close()
	sys, err := NewActorSystem("verifTree", WithLogger(log.DiscardLogger))
	if err != nil {
		t.Fatal(err)
	}
	for ci, c := range cases {
		tr := newTree()
		pids := make([]*PID, c.K)
		for i := range pids {
			pids[i] = c09MockPID(sys, i, c.Names[i])
		}
		rootFresh := true
		out := c09TreeOut{}
		for oi, o := range c.Ops {
			kind, _ := o[0].(string)
			code := 0
			func() {
				defer func() {
					if r := recover(); r != nil {
						t.Errorf("case %d op %d %v: panic %v", ci, oi, o, r)
						code = 8
					}
				}()
				switch kind {
				case "addroot":
					if !rootFresh {
						code = 9
						return
					}
					e := tr.addRootNode(pids[c09Int(o[1])])
					code = c09Code(e)
					if e == nil {
						rootFresh = false
					}
				case "add":
					code = c09Code(tr.addNode(pids[c09Int(o[1])], pids[c09Int(o[2])]))
				case "attach":
					p, ch := pids[c09Int(o[1])], pids[c09Int(o[2])]
					_, pReg := tr.node(p.ID())
					_, cReg := tr.node(ch.ID())
					if pReg && cReg {
						// attaching a node below itself makes deleteNode loop forever: never driven
						cyc := p == ch
						for _, d := range tr.descendants(ch) {
							if d == p {
								cyc = true
							}
						}
						if cyc {
							code = 9
							return
						}
					}
					code = c09Code(tr.addOrAttachNode(p, ch))
				case "rmw":
					tr.removeWatcher(pids[c09Int(o[1])], pids[c09Int(o[2])])
				case "rmd":
					tr.removeDescendant(pids[c09Int(o[1])].ID(), pids[c09Int(o[2])].ID())
				case "addw":
					tr.addWatcher(pids[c09Int(o[1])], pids[c09Int(o[2])])
				case "del":
					tr.deleteNode(pids[c09Int(o[1])])
				case "reset":
					tr.reset()
					rootFresh = true
				default:
					t.Fatalf("unknown op %v", o)
				}
			}()
			out.Steps = append(out.Steps, c09TreeStep{R: code, O: c09Observe(tr, pids, c.K)})
		}
		w.put(out)
	}
	_ = fmt.Sprint
}
