//go:build verif

package actor

// C30 — a grain is active on at most one node at a time.
//
// Runs the REAL grain engine (ensureGrainProcess -> ensureGrainOwnership/tryClaimGrain -> activate ->
// finalizeGrainActivation, grainPID.deactivate) of 3 in-process actor systems that share one fake
// registry whose operations are scheduling points (zz_verif_C30reg_test.go).
//   TestVerifC30Scripts  controlled scheduler: corpus scripts (the Coq witnesses) and seeded random
//                        walks; after EVERY step the registry owner, every node's local grains map,
//                        activation flags, live instances and every thread's next operation are
//                        written out; checks/C30.py evaluates the Coq model on the same labels.
//   TestVerifC30Stress   real goroutines, no controlled scheduler; oracle: at most one live instance
//                        per identity at any instant.

import (
	"context"
	"errors"
	"fmt"
	"runtime"
	"sync"
	"testing"
	"time"

	"github.com/flowchartsman/retry"

	"github.com/tochemey/goakt/v4/discovery"
	mockremote "github.com/tochemey/goakt/v4/mocks/remoteclient"
)

// ---------------------------------------------------------------- instrumented grain

// c30Tracker observes instance liveness: an instance is live from the moment its OnActivate succeeds
// until its OnDeactivate is entered.
type c30Tracker struct {
	mu      sync.Mutex
	live    map[*C30Grain]int // instance -> node
	byName  map[string]int    // identity name -> number of live instances
	maxLive map[string]int    // identity name -> high-water mark
	maxNode map[string][]int  // nodes holding the instances at the high-water mark
	acts    int
	deacts  int
	recv    int
}

func newC30Tracker() *c30Tracker {
	return &c30Tracker{live: map[*C30Grain]int{}, byName: map[string]int{}, maxLive: map[string]int{}, maxNode: map[string][]int{}}
}

var (
	c30Track   = newC30Tracker()
	c30PortMu  sync.RWMutex
	c30PortMap = map[int]int{} // remoting port -> node index
	// stress mode: probability (per 1000) that OnActivate fails
	c30StressFail func(name string) bool
)

// C30Grain is instantiated as a zero value by the engine (reflection registry).
type C30Grain struct {
	name string
	node int
}

func c30NodeOf(sys ActorSystem) int {
	c30PortMu.RLock()
	defer c30PortMu.RUnlock()
	if n, ok := c30PortMap[sys.Port()]; ok {
		return n
	}
	return -1
}

func (g *C30Grain) OnActivate(ctx context.Context, props *GrainProps) error {
	ok := vregPoint(ctx, "activate")
	if ok && vregThreadOf(ctx) == nil && c30StressFail != nil && c30StressFail(props.Identity().Name()) {
		ok = false
	}
	if !ok {
		return retry.Stop(errors.New("verif: injected activation failure"))
	}
	g.name = props.Identity().Name()
	g.node = c30NodeOf(props.ActorSystem())
	t := c30Track
	t.mu.Lock()
	if _, dup := t.live[g]; !dup {
		t.live[g] = g.node
		t.byName[g.name]++
		if t.byName[g.name] > t.maxLive[g.name] {
			t.maxLive[g.name] = t.byName[g.name]
			var ns []int
			for inst, n := range t.live {
				if inst.name == g.name {
					ns = append(ns, n)
				}
			}
			t.maxNode[g.name] = ns
		}
	}
	t.acts++
	t.mu.Unlock()
	return nil
}

func (g *C30Grain) OnReceive(ctx *GrainContext) {
	c30Track.mu.Lock()
	c30Track.recv++
	c30Track.mu.Unlock()
	ctx.NoErr()
}

func (g *C30Grain) OnDeactivate(ctx context.Context, props *GrainProps) error {
	ok := vregPoint(ctx, "deactivate")
	t := c30Track
	t.mu.Lock()
	if _, isLive := t.live[g]; isLive {
		delete(t.live, g)
		t.byName[g.name]--
	}
	t.deacts++
	t.mu.Unlock()
	if !ok {
		return errors.New("verif: injected deactivation failure")
	}
	return nil
}

func (t *c30Tracker) isLive(g Grain) bool {
	cg, ok := g.(*C30Grain)
	if !ok {
		return false
	}
	t.mu.Lock()
	defer t.mu.Unlock()
	_, l := t.live[cg]
	return l
}

func (t *c30Tracker) liveOn(name string, node int) int {
	t.mu.Lock()
	defer t.mu.Unlock()
	c := 0
	for inst, n := range t.live {
		if inst.name == name && n == node {
			c++
		}
	}
	return c
}

// ---------------------------------------------------------------- the 3-node world

type c30World struct {
	reg  *vregRegistry
	sys  []*actorSystem
	view []*vregCluster
}

func newC30World(t testing.TB, nodes int) *c30World {
	w := &c30World{reg: newVregRegistry()}
	for i := 0; i < nodes; i++ {
		remoting := 19100 + i
		peers := 19000 + i
		cl := w.reg.addNode("127.0.0.1", remoting, peers)
		node := &discovery.Node{Name: fmt.Sprintf("verif-%d", i), Host: "127.0.0.1", PeersPort: peers, RemotingPort: remoting}
		sys := MockSimpleClusterReadyActorSystem(mockremote.NewClient(t), cl, node)
		sys.name = node.Name
		sys.registry.Register(&C30Grain{})
		c30PortMu.Lock()
		c30PortMap[remoting] = i
		c30PortMu.Unlock()
		w.sys = append(w.sys, sys)
		w.view = append(w.view, cl)
	}
	return w
}

func (w *c30World) close() {
	for _, s := range w.sys {
		s.dispatcher.signalStop()
	}
}

// ---------------------------------------------------------------- scripts

type c30Step struct {
	A   string `json:"a"`             // start | lead | dstart | deact
	N   int    `json:"n"`             // node
	OK  bool   `json:"ok"`            // outcome for lead/deact
	Src string `json:"src,omitempty"` // dstart: "map" (pid in the node's grains map) | "thr" (pid of deactivation thread I)
	I   int    `json:"i"`             // deact: thread index on node N; dstart src=thr: thread index
}

type c30Script struct {
	ID       string    `json:"id"`
	Nodes    int       `json:"nodes"`
	Mode     string    `json:"mode"` // script | random
	Seed     uint64    `json:"seed"`
	MaxSteps int       `json:"max_steps"`
	Flavor   string    `json:"flavor"`   // random: guarded (only steps allowed by the guard of C30_partial) | claimless (no deactivation threads) | overlap (no claim-less step)
	FailPct  int       `json:"fail_pct"` // random: probability (percent) of an injected failure at a step
	Steps    []c30Step `json:"steps"`
	// mode "pair": a victim flight on node 0 whose lead steps listed in Fails fail; before its InsertAt-th lead step a
	// competitor flight on node 1 runs from start to finish; afterwards full flights on node 2 and again on node 0
	Fails    []int `json:"fails"`
	InsertAt int   `json:"insert_at"`
}

type c30Trace struct {
	ID      string    `json:"id"`
	Nodes   int       `json:"nodes"`
	Steps   []c30Step `json:"steps"`
	Obs     [][]int   `json:"obs"` // observation after every step (flat encoding, see c30Observe)
	MaxLive int       `json:"max_live"`
	MaxOn   []int     `json:"max_on"`
	Err     string    `json:"err"`
	Ops     []vregOp  `json:"ops"`
}

var c30KindCode = map[string]int{"": 0, "exists": 1, "get": 2, "claim": 3, "activate": 4, "remove": 5, "put": 6, "deactivate": 7}

type c30Deact struct {
	th  *vregThread
	pid *grainPID
}

type c30Run struct {
	w      *c30World
	id     *GrainIdentity
	leader []*vregThread // per node: leader in flight (nil if none)
	lres   []int         // per node: last leader result 0 none 1 ok 2 owner-mismatch 3 error
	deacts [][]*c30Deact
}

func (r *c30Run) leaderBusy(n int) bool { return r.leader[n] != nil && !r.leader[n].Last.Finished }

// c30Observe encodes: [owner+1, then per node: G (0 none,1 mapped inactive,2 mapped active), GL (mapped
// pid's instance live), L (live instances on the node), F (leader next-op code, 0 none), R (last leader
// result), nd, then per deactivation thread: code (5 remove, 7 deactivate, 10 done ok, 11 done err), flag].
func (r *c30Run) observe() []int {
	key := r.id.String()
	out := []int{r.w.reg.grainOwner(key) + 1}
	for n, sys := range r.w.sys {
		g, gl := 0, 0
		if pid, ok := sys.grains.Get(key); ok {
			g = 1
			if pid.isActive() {
				g = 2
			}
			if c30Track.isLive(pid.getGrain()) {
				gl = 1
			}
		}
		f := 0
		if r.leaderBusy(n) {
			f = c30KindCode[r.leader[n].Last.Blocked]
		}
		out = append(out, g, gl, c30Track.liveOn(r.id.Name(), n), f, r.lres[n], len(r.deacts[n]))
		for _, d := range r.deacts[n] {
			code := 0
			switch {
			case d.th.Last.Finished && d.th.Last.Result == "ok":
				code = 10
			case d.th.Last.Finished:
				code = 11
			default:
				code = c30KindCode[d.th.Last.Blocked]
			}
			fl := 0
			if d.pid.isActive() {
				fl = 1
			}
			out = append(out, code, fl)
		}
	}
	return out
}

func (r *c30Run) apply(st c30Step) error {
	n := st.N
	if n < 0 || n >= len(r.w.sys) {
		return fmt.Errorf("bad node %d", n)
	}
	sys := r.w.sys[n]
	switch st.A {
	case "start":
		if r.leaderBusy(n) {
			return errors.New("start: a leader is already in flight on this node")
		}
		th := newVregThread(n)
		th.spawn(func(ctx context.Context) string {
			_, err := sys.ensureGrainProcess(ctx, r.id)
			var mismatch *grainOwnerMismatchError
			switch {
			case err == nil:
				return "ok"
			case errors.As(err, &mismatch):
				return "mismatch"
			default:
				return "err"
			}
		})
		r.leader[n] = th
		ev, err := th.advance(true)
		if err != nil {
			return err
		}
		r.noteLeader(n, ev)
	case "lead":
		if !r.leaderBusy(n) {
			return errors.New("lead: no leader in flight")
		}
		ev, err := r.leader[n].advance(st.OK)
		if err != nil {
			return err
		}
		r.noteLeader(n, ev)
	case "dstart":
		var pid *grainPID
		if st.Src == "thr" {
			if st.I < 0 || st.I >= len(r.deacts[n]) {
				return errors.New("dstart: bad thread index")
			}
			pid = r.deacts[n][st.I].pid
		} else {
			p, ok := sys.grains.Get(r.id.String())
			if !ok {
				return errors.New("dstart: no process in the grains map")
			}
			pid = p
		}
		// the gate of passivationTry / handlePoisonPill / handlePassivationPill
		if !pid.isActive() {
			return errors.New("dstart: process not active")
		}
		th := newVregThread(n)
		th.spawn(func(ctx context.Context) string {
			if err := pid.deactivate(ctx); err != nil {
				return "err"
			}
			return "ok"
		})
		r.deacts[n] = append(r.deacts[n], &c30Deact{th: th, pid: pid})
		if _, err := th.advance(true); err != nil {
			return err
		}
	case "deact":
		if st.I < 0 || st.I >= len(r.deacts[n]) || r.deacts[n][st.I].th.Last.Finished {
			return errors.New("deact: no such running thread")
		}
		if _, err := r.deacts[n][st.I].th.advance(st.OK); err != nil {
			return err
		}
	default:
		return fmt.Errorf("unknown action %q", st.A)
	}
	return nil
}

func (r *c30Run) noteLeader(n int, ev vregEvent) {
	if ev.Finished {
		switch ev.Result {
		case "ok":
			r.lres[n] = 1
		case "mismatch":
			r.lres[n] = 2
		default:
			r.lres[n] = 3
		}
	}
}

// enabled lists the steps the random walk may take now.
func (r *c30Run) enabled(rng *verifRNG, flavor string, failPct int) []c30Step {
	noOverlap := flavor != "overlap"
	noClaimless := flavor != "claimless"
	noDeact := flavor == "claimless"
	var out []c30Step
	key := r.id.String()
	outcome := func() bool { return rng.intn(100) >= failPct }
	for n, sys := range r.w.sys {
		running := 0
		for _, d := range r.deacts[n] {
			if !d.th.Last.Finished {
				running++
			}
		}
		if !r.leaderBusy(n) {
			if !noOverlap || running == 0 {
				// a start on a node whose process is already active returns at once: keep those rare
				if pid, ok := sys.grains.Get(key); !(ok && pid.isActive()) || rng.intn(6) == 0 {
					out = append(out, c30Step{A: "start", N: n})
				}
			}
		} else {
			th := r.leader[n]
			claimless := th.Last.Blocked == "get" && r.afterLostClaim(n) && r.w.reg.grainOwner(key) == -1
			if !(noClaimless && claimless) {
				o := outcome()
				out = append(out, c30Step{A: "lead", N: n, OK: o}, c30Step{A: "lead", N: n, OK: o})
			}
		}
		if pid, ok := sys.grains.Get(key); ok && pid.isActive() && !noDeact {
			if !noOverlap || (!r.leaderBusy(n) && running == 0) {
				out = append(out, c30Step{A: "dstart", N: n, Src: "map"})
			}
		}
		for i, d := range r.deacts[n] {
			if !d.th.Last.Finished {
				out = append(out, c30Step{A: "deact", N: n, I: i, OK: outcome()})
			}
			if !noOverlap && d.pid.isActive() && rng.intn(4) == 0 {
				out = append(out, c30Step{A: "dstart", N: n, Src: "thr", I: i})
			}
		}
	}
	return out
}

// afterLostClaim: the leader's previous operation was a claim that lost (so the pending get is the re-get).
func (r *c30Run) afterLostClaim(n int) bool {
	r.w.reg.mu.Lock()
	defer r.w.reg.mu.Unlock()
	for i := len(r.w.reg.log) - 1; i >= 0; i-- {
		op := r.w.reg.log[i]
		if op.Node == n && op.Key == r.id.String() {
			return op.Op == "claim" && op.Res == "exists"
		}
	}
	return false
}

func c30RunScript(t testing.TB, w *c30World, sc c30Script, idx int) c30Trace {
	name := fmt.Sprintf("g%d-%s", idx, sc.ID)
	run := &c30Run{w: w, id: newGrainIdentity(&C30Grain{}, name), leader: make([]*vregThread, len(w.sys)),
		lres: make([]int, len(w.sys)), deacts: make([][]*c30Deact, len(w.sys))}
	w.reg.mu.Lock()
	w.reg.log = nil
	w.reg.logOn = true
	w.reg.mu.Unlock()
	tr := c30Trace{ID: sc.ID, Nodes: len(w.sys)}
	do := func(st c30Step) bool {
		if err := run.apply(st); err != nil {
			tr.Err = fmt.Sprintf("step %d %+v: %v", len(tr.Steps), st, err)
			return false
		}
		tr.Steps = append(tr.Steps, st)
		tr.Obs = append(tr.Obs, run.observe())
		return true
	}
	if sc.Mode == "pair" {
		flight := func(n int) bool {
			if !do(c30Step{A: "start", N: n}) {
				return false
			}
			for k := 0; k < 12 && run.leaderBusy(n); k++ {
				if !do(c30Step{A: "lead", N: n, OK: true}) {
					return false
				}
			}
			return true
		}
		fails := map[int]bool{}
		for _, f := range sc.Fails {
			fails[f] = true
		}
		okAll := do(c30Step{A: "start", N: 0})
		inserted := false
		for k := 0; okAll && k < 14 && run.leaderBusy(0); k++ {
			if k == sc.InsertAt {
				inserted = true
				if okAll = flight(1); !okAll {
					break
				}
			}
			okAll = do(c30Step{A: "lead", N: 0, OK: !fails[k]})
		}
		if okAll && !inserted {
			okAll = flight(1)
		}
		if okAll {
			okAll = flight(2)
		}
		if okAll {
			flight(0)
		}
	} else if sc.Mode == "random" {
		rng := newVerifRNG(sc.Seed)
		for i := 0; i < sc.MaxSteps; i++ {
			en := run.enabled(rng, sc.Flavor, sc.FailPct)
			if len(en) == 0 {
				break
			}
			if !do(en[rng.intn(len(en))]) {
				break
			}
		}
	} else {
		for _, st := range sc.Steps {
			if !do(st) {
				break
			}
		}
	}
	c30Track.mu.Lock()
	tr.MaxLive = c30Track.maxLive[name]
	tr.MaxOn = append([]int(nil), c30Track.maxNode[name]...)
	c30Track.mu.Unlock()
	w.reg.mu.Lock()
	tr.Ops = append([]vregOp(nil), w.reg.log...)
	w.reg.logOn = false
	w.reg.mu.Unlock()
	// drain: let every blocked thread run to completion so nothing is left parked
	for n := range w.sys {
		if run.leaderBusy(n) {
			for k := 0; k < 40 && !run.leader[n].Last.Finished; k++ {
				if _, err := run.leader[n].advance(true); err != nil {
					break
				}
			}
		}
		for _, d := range run.deacts[n] {
			for k := 0; k < 10 && !d.th.Last.Finished; k++ {
				if _, err := d.th.advance(true); err != nil {
					break
				}
			}
		}
	}
	return tr
}

func TestVerifC30Scripts(t *testing.T) {
	scripts := verifReadJSONL[c30Script](t, "c30_scripts.jsonl")
	out := newVerifWriter(t, "c30_traces.jsonl")
	defer out.close()
	w := newC30World(t, 3)
	defer w.close()
	for i, sc := range scripts {
		if vregStuck.Load() > 2 {
			out.put(c30Trace{ID: sc.ID, Err: "skipped: the driver lost control of too many threads in earlier schedules"})
			continue
		}
		out.put(c30RunScript(t, w, sc, i))
	}
}

// ---------------------------------------------------------------- stress (real goroutines)

type c30StressOut struct {
	Regime   string   `json:"regime"`
	Rounds   int      `json:"rounds"`
	Sends    int      `json:"sends"`
	Acts     int      `json:"acts"`
	Deacts   int      `json:"deacts"`
	MaxLive  int      `json:"max_live"`
	Where    string   `json:"where"`
	Ops      []vregOp `json:"ops"`
	Settled  int      `json:"settled_checked"`
	BadOwner string   `json:"bad_owner"`
}

// TestVerifC30Stress: concurrent ensureGrainProcess callers on 3 nodes for one identity per round.
// Regime "sends": no deactivation and no failure is ever injected, so no registry record is ever
// removed and none of the known claim-less/late-remove schedules exists: ANY second live instance is a
// violation. After every round (quiescence) the registry must name the node holding the instance.
func TestVerifC30Stress(t *testing.T) {
	out := newVerifWriter(t, "c30_stress.jsonl")
	defer out.close()
	rounds := verifEnvInt("VERIF_C30_ROUNDS", 150)
	w := newC30World(t, 3)
	defer w.close()
	rng := newVerifRNG(verifSeed() + 77)
	yield := func() {
		if rng.intn(3) == 0 {
			runtime.Gosched()
		}
	}
	_ = yield
	res := c30StressOut{Regime: "sends", Rounds: rounds}
	for round := 0; round < rounds; round++ {
		name := fmt.Sprintf("s%d", round)
		id := newGrainIdentity(&C30Grain{}, name)
		w.reg.mu.Lock()
		w.reg.log = nil
		w.reg.logOn = true
		w.reg.mu.Unlock()
		var wg sync.WaitGroup
		start := make(chan struct{})
		perNode := 2 + int(rng.intn(3))
		for n := range w.sys {
			for k := 0; k < perNode; k++ {
				wg.Add(1)
				sys := w.sys[n]
				spin := int(rng.intn(200))
				go func() {
					defer wg.Done()
					<-start
					for i := 0; i < spin; i++ {
						runtime.Gosched()
					}
					for rep := 0; rep < 3; rep++ {
						ctx, cancel := context.WithTimeout(context.Background(), 5*time.Second)
						_, _ = sys.ensureGrainProcess(ctx, id)
						cancel()
					}
				}()
				res.Sends += 3
			}
		}
		close(start)
		wg.Wait()
		c30Track.mu.Lock()
		ml := c30Track.maxLive[name]
		on := append([]int(nil), c30Track.maxNode[name]...)
		c30Track.mu.Unlock()
		if ml > res.MaxLive {
			res.MaxLive = ml
		}
		if ml > 1 && res.Where == "" {
			res.Where = fmt.Sprintf("round %d identity %s: %d live instances on nodes %v", round, name, ml, on)
			w.reg.mu.Lock()
			res.Ops = append([]vregOp(nil), w.reg.log...)
			w.reg.mu.Unlock()
		}
		// quiescence: the registry names the holder
		res.Settled++
		owner := w.reg.grainOwner(id.String())
		for n := range w.sys {
			if c30Track.liveOn(name, n) > 0 && owner != n && res.BadOwner == "" {
				res.BadOwner = fmt.Sprintf("round %d identity %s: live on node %d but registry names %d", round, name, n, owner)
				w.reg.mu.Lock()
				res.Ops = append([]vregOp(nil), w.reg.log...)
				w.reg.mu.Unlock()
			}
		}
	}
	c30Track.mu.Lock()
	res.Acts, res.Deacts = c30Track.acts, c30Track.deacts
	c30Track.mu.Unlock()
	out.put(res)
}


// ---------------------------------------------------------------- the single-flight contract

type c30FlightOut struct {
	Fails       []int    `json:"fails"`
	ProbeAt     int      `json:"probe_at"`
	ProbeHook   string   `json:"probe_hook"`   // what the first flight was about to do when the second caller arrived
	Independent bool     `json:"independent"`  // the second caller ran an activation of its own while the first flight was in progress
	MaxLive     int      `json:"max_live"`
	MaxOn       []int    `json:"max_on"`
	Unnamed     string   `json:"unnamed"`      // at the end: a node holding a live instance that the registry does not name
	Notes       []string `json:"notes"`
	Ops         []vregOp `json:"ops"`
}

// TestVerifC30Flight checks the contract the model takes from runGrainActivation: on one node at most one activation
// flight per identity is in progress — from the lookup to the end of every rollback. While a flight on node 0 stands at
// each of its scheduling points (with failures injected so that the rollback paths are reached too) a second caller
// arrives on the same node: it must wait for the flight. Afterwards another node addresses the identity.
func TestVerifC30Flight(t *testing.T) {
	out := newVerifWriter(t, "c30_flight.jsonl")
	defer out.close()
	w := newC30World(t, 3)
	defer w.close()
	idx := 0
	ensure := func(sys *actorSystem, id *GrainIdentity) func(ctx context.Context) string {
		return func(ctx context.Context) string {
			if _, err := sys.ensureGrainProcess(ctx, id); err != nil {
				return "err"
			}
			return "ok"
		}
	}
	for _, fails := range [][]int{{}, {2}, {3}, {3, 4}, {3, 5}} {
		for probeAt := 1; probeAt <= 6; probeAt++ {
			idx++
			name := fmt.Sprintf("f%d", idx)
			id := newGrainIdentity(&C30Grain{}, name)
			res := c30FlightOut{Fails: fails, ProbeAt: probeAt}
			failAt := map[int]bool{}
			for _, f := range fails {
				failAt[f] = true
			}
			w.reg.mu.Lock()
			w.reg.log = nil
			w.reg.logOn = true
			w.reg.mu.Unlock()
			a := newVregThread(0)
			a.spawn(ensure(w.sys[0], id))
			ev, ok := a.tryAdvance(true, 10*time.Second)
			k := 0
			for ok && !ev.Finished && k < probeAt {
				ev, ok = a.tryAdvance(!failAt[k], 10*time.Second)
				k++
			}
			if !ok || ev.Finished {
				continue // the flight is shorter than probeAt: nothing to probe
			}
			res.ProbeHook = ev.Blocked
			// the second caller on the same node
			b := newVregThread(0)
			b.spawn(ensure(w.sys[0], id))
			bev, reached := b.tryAdvance(true, 700*time.Millisecond)
			if reached && !bev.Finished {
				res.Independent = true
				for j := 0; j < 12 && !bev.Finished; j++ {
					var ok2 bool
					if bev, ok2 = b.tryAdvance(true, 10*time.Second); !ok2 {
						break
					}
				}
			}
			// the first flight goes on to its end
			for j := 0; j < 12 && !ev.Finished; j++ {
				var ok2 bool
				if ev, ok2 = a.tryAdvance(!failAt[k], 10*time.Second); !ok2 {
					break
				}
				k++
			}
			if !bev.Finished {
				if e2, ok2 := b.await(10 * time.Second); ok2 {
					bev = e2
					for j := 0; j < 12 && !bev.Finished; j++ {
						res.Independent = true // it was only slow to get going: it runs a flight of its own after all
						if bev, ok2 = b.tryAdvance(true, 10*time.Second); !ok2 {
							break
						}
					}
				}
			}
			res.Notes = append(res.Notes, "first flight: "+ev.Result+", second caller: "+bev.Result)
			// another node addresses the identity
			c := newVregThread(1)
			c.spawn(ensure(w.sys[1], id))
			cev, okc := c.tryAdvance(true, 10*time.Second)
			for j := 0; okc && j < 12 && !cev.Finished; j++ {
				cev, okc = c.tryAdvance(true, 10*time.Second)
			}
			res.Notes = append(res.Notes, "other node: "+cev.Result)
			c30Track.mu.Lock()
			res.MaxLive = c30Track.maxLive[name]
			res.MaxOn = append([]int(nil), c30Track.maxNode[name]...)
			c30Track.mu.Unlock()
			owner := w.reg.grainOwner(id.String())
			for n := range w.sys {
				if c30Track.liveOn(name, n) > 0 && owner != n {
					res.Unnamed = fmt.Sprintf("node %d holds a live instance, the registry names %d", n, owner)
				}
			}
			w.reg.mu.Lock()
			res.Ops = append([]vregOp(nil), w.reg.log...)
			w.reg.logOn = false
			w.reg.mu.Unlock()
			out.put(res)
		}
	}
}
