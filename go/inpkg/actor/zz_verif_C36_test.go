//go:build verif

package actor

// C36 — a cluster singleton runs at most once cluster-wide.
//
// Runs the REAL SpawnSingleton (spawn.go: retrySpawnSingleton / spawnSingletonOnLeader /
// spawnSingletonOnLocal / handleSingletonNameConflict; actor_system.go: checkSpawnPreconditions,
// completeSpawn/attachAndPublish/rollbackSpawn; death_watch.go: RemoveActor on termination) of started
// in-process actor systems that share the fake registry of zz_verif_C30reg_test.go. Leadership is a
// scripted oracle: every Members() call is a scheduling point whose answer (who is coordinator) is chosen
// by the schedule, so it may change at any step and differ between nodes. RemoteSpawn is forwarded
// in-process to the target node's SpawnSingleton (what remoteSpawnHandler does).
//   TestVerifC36Scripts  controlled scheduler, corpus + random schedules, state observed after every step
//   TestVerifC36Stress   real goroutines; oracle: at most one running instance at any instant (stable leader)

import (
	"context"
	"errors"
	"fmt"
	"strings"
	"sync"
	"testing"
	"time"

	"github.com/tochemey/goakt/v4/discovery"
	gerrors "github.com/tochemey/goakt/v4/errors"
	"github.com/tochemey/goakt/v4/internal/remoteclient"
	"github.com/tochemey/goakt/v4/log"
	"github.com/tochemey/goakt/v4/remote"
)

// ---------------------------------------------------------------- instrumented singleton actor

type c36Tracker struct {
	mu      sync.Mutex
	running map[*C36Actor]int // instance -> node
	byName  map[string]int
	maxRun  map[string]int
	maxOn   map[string][]int
	starts  int
	stops   map[int]int // node -> PostStop count (each announces one death-watch RemoveActor)
}

func newC36Tracker() *c36Tracker {
	return &c36Tracker{running: map[*C36Actor]int{}, byName: map[string]int{}, maxRun: map[string]int{}, maxOn: map[string][]int{}, stops: map[int]int{}}
}

var (
	c36Track   = newC36Tracker()
	c36PortMu  sync.RWMutex
	c36PortMap = map[int]int{}
)

type C36Actor struct {
	name string
	node int
}

func c36NodeOf(sys ActorSystem) int {
	c36PortMu.RLock()
	defer c36PortMu.RUnlock()
	if n, ok := c36PortMap[sys.Port()]; ok {
		return n
	}
	return -1
}

func (a *C36Actor) PreStart(ctx *Context) error {
	if !vregPoint(ctx.Context(), "prestart") {
		return errors.New("verif: injected PreStart failure")
	}
	a.name = ctx.ActorName()
	a.node = c36NodeOf(ctx.ActorSystem())
	t := c36Track
	t.mu.Lock()
	t.running[a] = a.node
	t.byName[a.name]++
	t.starts++
	if t.byName[a.name] > t.maxRun[a.name] {
		t.maxRun[a.name] = t.byName[a.name]
		var ns []int
		for inst, n := range t.running {
			if inst.name == a.name {
				ns = append(ns, n)
			}
		}
		t.maxOn[a.name] = ns
	}
	t.mu.Unlock()
	return nil
}

func (a *C36Actor) Receive(ctx *ReceiveContext) {}

func (a *C36Actor) PostStop(ctx *Context) error {
	t := c36Track
	t.mu.Lock()
	if _, ok := t.running[a]; ok {
		delete(t.running, a)
		t.byName[a.name]--
		t.stops[a.node]++
	}
	t.mu.Unlock()
	return nil
}

func (t *c36Tracker) runningOn(name string, node int) int {
	t.mu.Lock()
	defer t.mu.Unlock()
	c := 0
	for inst, n := range t.running {
		if inst.name == name && n == node {
			c++
		}
	}
	return c
}

// ---------------------------------------------------------------- fake remoting: RemoteSpawn -> target.SpawnSingleton

type c36Remoting struct {
	remoteclient.Client // everything else is unused by the singleton path (nil: panics if reached)
	w                   *c36World
}

func (r *c36Remoting) RemoteSpawn(ctx context.Context, host string, port int, req *remote.SpawnRequest) (*string, error) {
	c36PortMu.RLock()
	n, ok := c36PortMap[port]
	c36PortMu.RUnlock()
	if !ok || req.Singleton == nil {
		return nil, gerrors.ErrRemoteSendFailure
	}
	if t := vregThreadOf(ctx); t != nil {
		t.Hops = append(t.Hops, n)
	}
	target := r.w.sys[n]
	opts := []ClusterSingletonOption{
		WithSingletonSpawnTimeout(req.Singleton.SpawnTimeout),
		WithSingletonSpawnWaitInterval(req.Singleton.WaitInterval),
		WithSingletonSpawnRetries(int(req.Singleton.MaxRetries)),
	}
	pid, err := target.SpawnSingleton(ctx, req.Name, &C36Actor{}, opts...)
	if t := vregThreadOf(ctx); t != nil && len(t.Hops) > 0 {
		t.Hops = t.Hops[:len(t.Hops)-1]
	}
	if err != nil {
		return nil, err
	}
	addr := pid.address.String()
	return &addr, nil
}

func (r *c36Remoting) Close() {}

// ---------------------------------------------------------------- world

type c36World struct {
	reg *vregRegistry
	sys []*actorSystem
}

func newC36World(t testing.TB, nodes int) *c36World {
	w := &c36World{reg: newVregRegistry()}
	ctx := context.Background()
	for i := 0; i < nodes; i++ {
		remoting := 19300 + i
		peers := 19200 + i
		s, err := NewActorSystem("verifsingle", WithLogger(log.DiscardLogger))
		if err != nil {
			t.Fatalf("NewActorSystem: %v", err)
		}
		sys := s.(*actorSystem)
		if err := sys.Start(ctx); err != nil {
			t.Fatalf("Start: %v", err)
		}
		cl := w.reg.addNode("127.0.0.1", remoting, peers)
		sys.locker.Lock()
		sys.remoteConfig = remote.NewConfig("127.0.0.1", remoting)
		sys.cluster = cl
		sys.clusterNode = &discovery.Node{Name: fmt.Sprintf("verif-%d", i), Host: "127.0.0.1", PeersPort: peers, RemotingPort: remoting}
		sys.remoting = &c36Remoting{w: w}
		sys.locker.Unlock()
		sys.clusterEnabled.Store(true)
		sys.remotingEnabled.Store(true)
		if err := sys.spawnSingletonManager(ctx); err != nil {
			t.Fatalf("spawnSingletonManager: %v", err)
		}
		c36PortMu.Lock()
		c36PortMap[remoting] = i
		c36PortMu.Unlock()
		w.sys = append(w.sys, sys)
	}
	return w
}

func (w *c36World) close() {
	for _, sys := range w.sys {
		sys.clusterEnabled.Store(false)
		sys.locker.Lock()
		sys.cluster = nil
		sys.locker.Unlock()
		_ = sys.Stop(context.Background())
	}
}

// ---------------------------------------------------------------- scripts

type c36Step struct {
	A  string `json:"a"`  // call (new SpawnSingleton call on node N) | adv (advance call I) | dw (run pending death-watch removal I)
	N  int    `json:"n"`  // call: node
	I  int    `json:"i"`  // adv: call index; dw: background op index
	OK bool   `json:"ok"` // adv/dw: outcome of the operation the thread is blocked at
	L  int    `json:"l"`  // adv at a Members point: the node this Members() call names coordinator
}

type c36Script struct {
	ID       string    `json:"id"`
	Nodes    int       `json:"nodes"`
	Mode     string    `json:"mode"`
	Seed     uint64    `json:"seed"`
	MaxSteps int       `json:"max_steps"`
	Flavor   string    `json:"flavor"` // stable (one leader for the whole run) | churn (leadership answers arbitrary)
	FailPct  int       `json:"fail_pct"`
	Steps    []c36Step `json:"steps"`
}

type c36Trace struct {
	ID     string    `json:"id"`
	Nodes  int       `json:"nodes"`
	Steps  []c36Step `json:"steps"`
	Obs    [][]int   `json:"obs"`
	MaxRun int       `json:"max_run"`
	MaxOn  []int     `json:"max_on"`
	Err    string    `json:"err"`
	Ops    []vregOp  `json:"ops"`
	Res    []string  `json:"results"` // raw result of every finished call (diagnostics)
}

var c36KindCode = map[string]int{"": 0, "members": 1, "aexists": 2, "prestart": 3, "aput": 4, "aclaim": 5, "aget": 6, "aremove": 7}

type c36Call struct {
	th   *vregThread
	node int
}

type c36Run struct {
	w     *c36World
	name  string
	calls []*c36Call
	bg    []*vregThread // death-watch removals, in order of arrival
}

// where a call currently executes (top of its hop stack)
func (c *c36Call) cur() int {
	if len(c.th.Hops) > 0 {
		return c.th.Hops[len(c.th.Hops)-1]
	}
	return c.node
}

// observe: [owner+1, per node: T (tree: 0 absent, 1 present not running, 2 present running), R (running instances),
//           then ncalls, per call: code (next operation; 20 ok, 21 already-exists error, 22 other error), cur node, depth,
//           then nbg, per background removal: code (7 pending, 20 done), node]
func (r *c36Run) observe() []int {
	out := []int{r.w.reg.actorOwner(r.name) + 1}
	for n, sys := range r.w.sys {
		tr := 0
		if node, ok := sys.actors.nodeByName(r.name); ok {
			tr = 1
			if pid := node.value(); pid != nil && pid.IsRunning() {
				tr = 2
			}
		}
		out = append(out, tr, c36Track.runningOn(r.name, n))
	}
	out = append(out, len(r.calls))
	for _, c := range r.calls {
		code := 0
		if c.th.Last.Finished {
			switch c.th.Last.Result {
			case "ok":
				code = 20
			case "exists":
				code = 21
			default:
				code = 22
			}
		} else {
			code = c36KindCode[c.th.Last.Blocked]
		}
		out = append(out, code, c.cur(), len(c.th.Hops))
	}
	out = append(out, len(r.bg))
	for _, b := range r.bg {
		code := 7
		if b.Last.Finished {
			code = 20
		}
		out = append(out, code, b.Node)
	}
	return out
}

// collectBG waits for the death-watch removals announced by PostStop hooks to reach the registry.
func (r *c36Run) collectBG() error {
	for {
		c36Track.mu.Lock()
		want := 0
		for _, v := range c36Track.stops {
			want += v
		}
		c36Track.mu.Unlock()
		if len(r.bg)+r.w.reg.bgBase >= want {
			return nil
		}
		select {
		case th := <-r.w.reg.bgArrivals:
			th.Last = vregEvent{Blocked: "aremove"}
			r.bg = append(r.bg, th)
		case <-time.After(40 * time.Second):
			return errors.New("death-watch RemoveActor did not arrive within 40s")
		}
	}
}

func (r *c36Run) apply(st c36Step) error {
	switch st.A {
	case "call":
		if st.N < 0 || st.N >= len(r.w.sys) {
			return errors.New("bad node")
		}
		sys := r.w.sys[st.N]
		th := newVregThread(st.N)
		th.spawn(func(ctx context.Context) string {
			_, err := sys.SpawnSingleton(ctx, r.name, &C36Actor{}, WithSingletonSpawnRetries(1), WithSingletonSpawnTimeout(time.Hour))
			switch {
			case err == nil:
				return "ok"
			case errors.Is(err, gerrors.ErrActorAlreadyExists):
				return "exists"
			default:
				return "err:" + err.Error()
			}
		})
		r.calls = append(r.calls, &c36Call{th: th, node: st.N})
		if _, err := th.advance(true); err != nil {
			return err
		}
	case "adv":
		if st.I < 0 || st.I >= len(r.calls) || r.calls[st.I].th.Last.Finished {
			return errors.New("adv: no such running call")
		}
		c := r.calls[st.I]
		if c.th.Last.Blocked == "members" {
			c.th.Answer = st.L
		}
		if _, err := c.th.advance(st.OK); err != nil {
			return err
		}
	case "dw":
		if st.I < 0 || st.I >= len(r.bg) || r.bg[st.I].Last.Finished {
			return errors.New("dw: no such pending removal")
		}
		b := r.bg[st.I]
		b.resume <- st.OK
		select {
		case <-b.report:
			b.Last = vregEvent{Finished: true, Result: "ok"}
		case <-time.After(10 * time.Second):
			return errors.New("death-watch removal did not complete")
		}
	default:
		return fmt.Errorf("unknown action %q", st.A)
	}
	return r.collectBG()
}

// flightBusy: some call is inside spawnSingletonOnLocal on node n (a second one would block in the single flight)
func (r *c36Run) flightBusy(n int) bool {
	for _, c := range r.calls {
		if c.th.Last.Finished {
			continue
		}
		switch c.th.Last.Blocked {
		case "aexists", "prestart", "aput", "aclaim":
			if c.cur() == n {
				return true
			}
		}
	}
	return false
}

func (r *c36Run) enabled(rng *verifRNG, sc c36Script, leader int) []c36Step {
	var out []c36Step
	nn := len(r.w.sys)
	running := 0
	for i, c := range r.calls {
		if c.th.Last.Finished {
			continue
		}
		running++
		ok := rng.intn(100) >= sc.FailPct
		if c.th.Last.Blocked == "prestart" {
			ok = true // a failing PreStart is retried by pid.init with back-off: not a scheduling choice of this harness
		}
		st := c36Step{A: "adv", I: i, OK: ok}
		if c.th.Last.Blocked == "members" {
			l := leader
			if sc.Flavor == "churn" {
				l = rng.intn(nn)
			}
			// do not walk into a busy single flight (the caller would block off a scheduling point), bound the hop depth
			if ok && l == c.cur() && r.flightBusy(l) {
				continue
			}
			if ok && l != c.cur() && len(c.th.Hops) >= 2 {
				l = c.cur()
				if r.flightBusy(l) {
					continue
				}
			}
			st.L = l
		}
		out = append(out, st)
	}
	if running < 3 && len(r.calls) < 8 {
		for n := 0; n < nn; n++ {
			out = append(out, c36Step{A: "call", N: n})
		}
	}
	for i, b := range r.bg {
		if !b.Last.Finished {
			// no failure injection here: a failing RemoveActor makes the death watch actor itself fail, which is
			// escalated and stops the whole actor system (outside this property)
			out = append(out, c36Step{A: "dw", I: i, OK: true})
		}
	}
	return out
}

func c36RunScript(t testing.TB, w *c36World, sc c36Script, idx int) c36Trace {
	name := fmt.Sprintf("single%d", idx)
	run := &c36Run{w: w, name: name}
	w.reg.mu.Lock()
	w.reg.log = nil
	w.reg.logOn = true
	w.reg.controlled = true
	w.reg.mu.Unlock()
	tr := c36Trace{ID: sc.ID, Nodes: len(w.sys)}
	do := func(st c36Step) bool {
		if err := run.apply(st); err != nil {
			tr.Err = fmt.Sprintf("step %d %+v: %v", len(tr.Steps), st, err)
			return false
		}
		tr.Steps = append(tr.Steps, st)
		tr.Obs = append(tr.Obs, run.observe())
		return true
	}
	if sc.Mode == "random" {
		rng := newVerifRNG(sc.Seed)
		leader := rng.intn(len(w.sys))
		for i := 0; i < sc.MaxSteps; i++ {
			en := run.enabled(rng, sc, leader)
			if len(en) == 0 {
				break
			}
			if !do(en[rng.intn(len(en))]) {
				break
			}
		}
	} else {
		for _, st := range sc.Steps {
			if !do(st) {
				break
			}
		}
	}
	for _, c := range run.calls {
		if c.th.Last.Finished {
			tr.Res = append(tr.Res, c.th.Last.Result)
		} else {
			tr.Res = append(tr.Res, "")
		}
	}
	c36Track.mu.Lock()
	tr.MaxRun = c36Track.maxRun[name]
	tr.MaxOn = append([]int(nil), c36Track.maxOn[name]...)
	c36Track.mu.Unlock()
	w.reg.mu.Lock()
	tr.Ops = append([]vregOp(nil), w.reg.log...)
	w.reg.logOn = false
	w.reg.mu.Unlock()
	// drain: finish every call (each Members answers "local"), run every pending removal, stop the instances
	for _, c := range run.calls {
		for k := 0; k < 30 && !c.th.Last.Finished; k++ {
			// a call waiting for a Members() answer is ended by failing that call: answering "local" could make it join
			// the single flight of a call that is drained later, which never returns to the driver
			ok := c.th.Last.Blocked != "members"
			if _, err := c.th.advance(ok); err != nil {
				break
			}
		}
	}
	_ = run.collectBG()
	for _, b := range run.bg {
		if !b.Last.Finished {
			b.resume <- true
			<-b.report
			b.Last.Finished = true
		}
	}
	w.reg.mu.Lock()
	w.reg.controlled = false
	w.reg.mu.Unlock()
	for _, sys := range w.sys {
		if node, ok := sys.actors.nodeByName(name); ok {
			if pid := node.value(); pid != nil {
				_ = pid.Shutdown(context.Background())
			}
		}
	}
	// the shutdowns above announce further removals: let them run uncontrolled, then rebase the counter
	time.Sleep(20 * time.Millisecond)
	c36Track.mu.Lock()
	total := 0
	for _, v := range c36Track.stops {
		total += v
	}
	c36Track.mu.Unlock()
	w.reg.bgBase = total
	return tr
}

func TestVerifC36Scripts(t *testing.T) {
	scripts := verifReadJSONL[c36Script](t, "c36_scripts.jsonl")
	out := newVerifWriter(t, "c36_traces.jsonl")
	defer out.close()
	w := newC36World(t, 3)
	defer w.close()
	for i, sc := range scripts {
		if vregStuck.Load() > 2 {
			out.put(c36Trace{ID: sc.ID, Err: "skipped: the driver lost control of too many threads in earlier schedules"})
			continue
		}
		out.put(c36RunScript(t, w, sc, i))
	}
}

// ---------------------------------------------------------------- stress

type c36StressOut struct {
	Regime string   `json:"regime"`
	Rounds int      `json:"rounds"`
	Calls  int      `json:"calls"`
	Starts int      `json:"starts"`
	MaxRun int      `json:"max_run"`
	Where  string   `json:"where"`
	OKs    int      `json:"oks"`
	Errs   []string `json:"errs"`
}

// TestVerifC36Stress: real goroutines call SpawnSingleton for one name from all three nodes while the
// leader is stable (every Members() names the same coordinator): the calls of the two other nodes are
// forwarded to it. At most one instance may ever run, and every call must succeed.
func TestVerifC36Stress(t *testing.T) {
	out := newVerifWriter(t, "c36_stress.jsonl")
	defer out.close()
	rounds := verifEnvInt("VERIF_C36_ROUNDS", 60)
	w := newC36World(t, 3)
	defer w.close()
	rng := newVerifRNG(verifSeed() + 99)
	res := c36StressOut{Regime: "stable-leader", Rounds: rounds}
	errSeen := map[string]bool{}
	for round := 0; round < rounds; round++ {
		name := fmt.Sprintf("stress%d", round)
		leader := rng.intn(3)
		w.reg.mu.Lock()
		for n := range w.reg.leaderOf {
			w.reg.leaderOf[n] = leader
		}
		w.reg.mu.Unlock()
		var wg sync.WaitGroup
		var mu sync.Mutex
		start := make(chan struct{})
		for n := range w.sys {
			for k := 0; k < 3; k++ {
				wg.Add(1)
				sys := w.sys[n]
				res.Calls++
				go func() {
					defer wg.Done()
					<-start
					_, err := sys.SpawnSingleton(context.Background(), name, &C36Actor{}, WithSingletonSpawnTimeout(10*time.Second))
					mu.Lock()
					if err == nil {
						res.OKs++
					} else if !errSeen[err.Error()] && len(res.Errs) < 5 {
						errSeen[err.Error()] = true
						res.Errs = append(res.Errs, strings.ReplaceAll(err.Error(), name, "<name>"))
					}
					mu.Unlock()
				}()
			}
		}
		close(start)
		wg.Wait()
		c36Track.mu.Lock()
		mr := c36Track.maxRun[name]
		on := append([]int(nil), c36Track.maxOn[name]...)
		c36Track.mu.Unlock()
		if mr > res.MaxRun {
			res.MaxRun = mr
		}
		if mr > 1 && res.Where == "" {
			res.Where = fmt.Sprintf("round %d (leader %d): %d running instances of %s on nodes %v", round, leader, mr, name, on)
		}
		if pidnode, ok := w.sys[leader].actors.nodeByName(name); ok {
			if pid := pidnode.value(); pid != nil {
				_ = pid.Shutdown(context.Background())
			}
		}
	}
	c36Track.mu.Lock()
	res.Starts = c36Track.starts
	c36Track.mu.Unlock()
	out.put(res)
}


// ---------------------------------------------------------------- the single-flight contract under abandonment

type c36AbandonOut struct {
	CancelAt     string   `json:"cancel_at"`     // where the first flight stood when its caller gave up
	Second       string   `json:"second"`        // same-node | forwarded
	CallerGaveUp bool     `json:"caller_gave_up"`
	SecondFlight bool     `json:"second_flight"` // the later caller started a flight of its own while the first was still in progress
	MaxRun       int      `json:"max_run"`
	MaxOn        []int    `json:"max_on"`
	Notes        []string `json:"notes"`
	Ops          []vregOp `json:"ops"`
}

// TestVerifC36Abandon checks the contract the model takes from runSpawnActivation: on one node at most one spawn
// flight per name is in progress, whatever the callers do. A caller abandons SpawnSingleton (its context is cancelled)
// at each scheduling point of its flight; a later caller (on the same node, or forwarded from another node) must wait
// for that flight instead of starting a second one. Stable leader (node 0) throughout.
func TestVerifC36Abandon(t *testing.T) {
	out := newVerifWriter(t, "c36_abandon.jsonl")
	defer out.close()
	w := newC36World(t, 3)
	defer w.close()
	idx := 0
	for _, cancelAt := range []string{"aexists", "prestart", "aput"} {
		for _, second := range []string{"same-node", "forwarded"} {
			idx++
			name := fmt.Sprintf("abandon%d", idx)
			res := c36AbandonOut{CancelAt: cancelAt, Second: second}
			w.reg.mu.Lock()
			w.reg.log = nil
			w.reg.logOn = true
			w.reg.controlled = false
			w.reg.mu.Unlock()
			call := func(node int) (*vregThread, context.CancelFunc) {
				th := newVregThread(node)
				cctx, cancel := context.WithCancel(th.ctx())
				sys := w.sys[node]
				go func() {
					<-th.resume
					_, err := sys.SpawnSingleton(cctx, name, &C36Actor{}, WithSingletonSpawnRetries(1), WithSingletonSpawnTimeout(time.Hour))
					r := "ok"
					if err != nil {
						r = "err:" + err.Error()
					}
					th.report <- vregEvent{Finished: true, Result: r}
				}()
				return th, cancel
			}
			a, cancelA := call(0)
			a.Answer = 0
			reachedPoint := false
			for k := 0; k < 6; k++ {
				ev, ok := a.tryAdvance(true, 10*time.Second)
				if !ok || ev.Finished {
					break
				}
				if ev.Blocked == cancelAt {
					reachedPoint = true
					break
				}
			}
			if !reachedPoint {
				res.Notes = append(res.Notes, "first call never reached "+cancelAt)
				cancelA()
				out.put(res)
				continue
			}
			// the caller gives up; its flight stays where it is
			cancelA()
			if ev, ok := a.await(5 * time.Second); ok && ev.Finished {
				res.CallerGaveUp = true
				res.Notes = append(res.Notes, "abandoning caller returned: "+ev.Result)
			} else {
				res.Notes = append(res.Notes, "abandoning caller did not return within 5s")
			}
			// a later caller
			bNode := 0
			if second == "forwarded" {
				bNode = 1
			}
			b, cancelB := call(bNode)
			b.Answer = 0
			independent := false
			var bev vregEvent
			for k := 0; k < 4; k++ {
				ev, ok := b.tryAdvance(true, 700*time.Millisecond)
				if !ok {
					break // parked behind the first flight (or still on its way: collected below)
				}
				bev = ev
				if ev.Finished {
					break
				}
				if ev.Blocked != "members" {
					independent = true
					break
				}
			}
			res.SecondFlight = independent
			if independent {
				for k := 0; k < 8 && !bev.Finished; k++ {
					ev, ok := b.tryAdvance(true, 5*time.Second)
					if !ok {
						break
					}
					bev = ev
				}
			}
			// the abandoned flight goes on to its end (its caller is gone: nobody reports its completion)
			for k := 0; k < 6; k++ {
				a.resume <- true
				if _, ok := a.await(700 * time.Millisecond); !ok {
					break
				}
			}
			if !bev.Finished {
				if ev, ok := b.await(10 * time.Second); ok {
					bev = ev
					// a parked caller may turn out to run its own flight after all: drive it to the end
					for k := 0; k < 8 && !bev.Finished; k++ {
						ev, ok := b.tryAdvance(true, 5*time.Second)
						if !ok {
							break
						}
						bev = ev
					}
				}
			}
			res.Notes = append(res.Notes, "later caller: "+bev.Result)
			cancelB()
			time.Sleep(20 * time.Millisecond)
			c36Track.mu.Lock()
			res.MaxRun = c36Track.maxRun[name]
			res.MaxOn = append([]int(nil), c36Track.maxOn[name]...)
			var leftovers []*C36Actor
			for inst := range c36Track.running {
				if inst.name == name {
					leftovers = append(leftovers, inst)
				}
			}
			c36Track.mu.Unlock()
			w.reg.mu.Lock()
			res.Ops = append([]vregOp(nil), w.reg.log...)
			w.reg.logOn = false
			w.reg.mu.Unlock()
			res.Notes = append(res.Notes, fmt.Sprintf("instances still running at the end: %d", len(leftovers)))
			for _, sys := range w.sys {
				if node, ok := sys.actors.nodeByName(name); ok {
					if pid := node.value(); pid != nil {
						_ = pid.Shutdown(context.Background())
					}
				}
			}
			out.put(res)
		}
	}
	time.Sleep(50 * time.Millisecond)
	c36Track.mu.Lock()
	total := 0
	for _, v := range c36Track.stops {
		total += v
	}
	c36Track.mu.Unlock()
	w.reg.bgBase = total
}
