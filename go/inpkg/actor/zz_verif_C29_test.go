//go:build verif

package actor

// C29 — per-message context metadata restored on the receiver.
//
// Sender side is the REAL remoteclient (RemoteTell coalesced and direct, RemoteAsk) with an injecting
// propagator that writes exactly the generated header map; receiver side is a REAL actor system whose
// propagator records every header set Extract is called with (as a chain stored in the context) and whose
// actor records the chain it sees for every message.
//   part 1 (all batchings): the RemoteMessages produced by the real coalesced RemoteTell are captured at a
//          fake destination, then re-batched in every composition of the 6 messages and handed to the real
//          remoteTellHandler, with and without request-level metadata.
//   part 2 (real batching): concurrent callers through the real coalescer to the real server; direct tells;
//          asks (the actor replies with what it saw).

import (
	"context"
	"encoding/json"
	"fmt"
	"net"
	nethttp "net/http"
	"sort"
	"strconv"
	"strings"
	"sync"
	"testing"
	"time"

	"google.golang.org/protobuf/proto"

	"github.com/tochemey/goakt/v4/internal/address"
	"github.com/tochemey/goakt/v4/internal/internalpb"
	inet "github.com/tochemey/goakt/v4/internal/net"
	"github.com/tochemey/goakt/v4/internal/remoteclient"
	"github.com/tochemey/goakt/v4/log"
	"github.com/tochemey/goakt/v4/remote"
	"github.com/tochemey/goakt/v4/test/data/testpb"
)

type c29Entry struct {
	K string   `json:"k"`
	V []string `json:"v"`
}

type c29Spec struct {
	Mode    string     `json:"mode"` // raw | add | set
	Entries []c29Entry `json:"entries"`
}

type c29Group struct {
	Name  string    `json:"name"`
	Specs []c29Spec `json:"specs"`
}

type c29Out struct {
	Group    string       `json:"group"`
	Part     string       `json:"part"` // batchings | coalesced | direct | ask
	Comp     int          `json:"comp"`
	ReqMD    bool         `json:"req_md"`
	Pos      int          `json:"pos"`
	Spec     int          `json:"spec"`
	ID       string       `json:"id"`
	Injected []c29Entry   `json:"injected"` // the http.Header after Inject (sorted by key)
	Wire     []c29Entry   `json:"wire"`     // RemoteMessage.Metadata as captured (part batchings)
	Chain    [][]c29Entry `json:"chain"`    // header sets Extract was called with for this message, outermost first
	Err      string       `json:"err,omitempty"`
}

type c29SpecKey struct{}
type c29ChainKey struct{}

func c29Snapshot(h nethttp.Header) []c29Entry {
	out := make([]c29Entry, 0, len(h))
	for k, v := range h {
		out = append(out, c29Entry{K: k, V: append([]string{}, v...)})
	}
	sort.Slice(out, func(i, j int) bool { return out[i].K < out[j].K })
	return out
}

// c29Injector writes the header map described by the spec found in the context, and remembers what the
// header looked like afterwards.
type c29Injector struct {
	mu       sync.Mutex
	injected map[string][]c29Entry // call id -> header after Inject
}

type c29Call struct {
	id   string
	spec c29Spec
}

func c29Apply(h nethttp.Header, spec c29Spec) {
	for _, e := range spec.Entries {
		switch spec.Mode {
		case "add":
			for _, v := range e.V {
				h.Add(e.K, v)
			}
		case "set":
			for _, v := range e.V {
				h.Set(e.K, v)
			}
		default:
			h[e.K] = append([]string{}, e.V...)
		}
	}
}

// c29Expected is what the propagator injects for a context carrying this spec (whether or not the code under
// test actually asked it to)
func c29Expected(spec c29Spec) []c29Entry {
	own := make(nethttp.Header)
	c29Apply(own, spec)
	return c29Snapshot(own)
}

func (p *c29Injector) Inject(ctx context.Context, h nethttp.Header) error {
	call, ok := ctx.Value(c29SpecKey{}).(c29Call)
	if !ok {
		return nil
	}
	c29Apply(h, call.spec)
	// what THIS call injected: the same writes on a carrier of its own
	own := make(nethttp.Header)
	c29Apply(own, call.spec)
	p.mu.Lock()
	p.injected[call.id] = c29Snapshot(own)
	p.mu.Unlock()
	return nil
}

func (p *c29Injector) Extract(ctx context.Context, _ nethttp.Header) (context.Context, error) {
	return ctx, nil
}

// c29Recorder is the receiving node's propagator: Extract appends the header set it was given to a chain
// kept in the context, so the actor can see every Extract that contributed to its context.
type c29Recorder struct{ inj *c29Injector }

// a node's propagator injects too: an actor that relays while handling an inbound remote message sends
// through its own system's remoting client
func (r c29Recorder) Inject(ctx context.Context, h nethttp.Header) error {
	if r.inj == nil {
		return nil
	}
	return r.inj.Inject(ctx, h)
}
func (c29Recorder) Extract(ctx context.Context, h nethttp.Header) (context.Context, error) {
	prev, _ := ctx.Value(c29ChainKey{}).([][]c29Entry)
	chain := make([][]c29Entry, 0, len(prev)+1)
	chain = append(chain, prev...)
	chain = append(chain, c29Snapshot(h))
	return context.WithValue(ctx, c29ChainKey{}, chain), nil
}

type c29Actor struct {
	mu   sync.Mutex
	seen map[string][][]c29Entry
	n    int
}

func (*c29Actor) PreStart(*Context) error { return nil }
func (*c29Actor) PostStop(*Context) error { return nil }
func (a *c29Actor) Receive(ctx *ReceiveContext) {
	m, ok := ctx.Message().(*testpb.Reply)
	if !ok {
		return
	}
	chain, _ := ctx.Context().Value(c29ChainKey{}).([][]c29Entry)
	a.mu.Lock()
	a.seen[m.GetContent()] = chain
	a.n++
	a.mu.Unlock()
	if strings.HasPrefix(m.GetContent(), "ask|") {
		b, _ := json.Marshal(chain)
		ctx.Response(&testpb.Reply{Content: string(b)})
	}
}
func (a *c29Actor) count() int { a.mu.Lock(); defer a.mu.Unlock(); return a.n }
func (a *c29Actor) get(id string) ([][]c29Entry, bool) {
	a.mu.Lock()
	defer a.mu.Unlock()
	c, ok := a.seen[id]
	return c, ok
}

// c29Relay forwards while handling an inbound remote message: its outbound context is DERIVED from the
// context of the message being handled, with a different propagated value (the plan found under the inbound
// message id says what the propagator must inject for the outbound send).
type c29Plan struct {
	id2  string
	spec c29Spec
	mode string // ask (the system's own remoting client) | tell (a non-coalescing client)
}

type c29Relay struct {
	mu     sync.Mutex
	plans  map[string]c29Plan
	leaf   *address.Address
	direct remoteclient.Client
	done   chan string
}

func (*c29Relay) PreStart(*Context) error { return nil }
func (*c29Relay) PostStop(*Context) error { return nil }
func (a *c29Relay) Receive(ctx *ReceiveContext) {
	m, ok := ctx.Message().(*testpb.Reply)
	if !ok {
		return
	}
	a.mu.Lock()
	plan, ok := a.plans[m.GetContent()]
	a.mu.Unlock()
	if !ok {
		return
	}
	out := context.WithValue(ctx.Context(), c29SpecKey{}, c29Call{id: plan.id2, spec: plan.spec})
	res := plan.id2
	switch plan.mode {
	case "ask":
		if _, err := ctx.Self().remoteAsk(out, a.leaf, &testpb.Reply{Content: plan.id2}, 3*time.Second); err != nil {
			res = "ERR " + plan.id2 + ": " + err.Error()
		}
	default:
		if err := a.direct.RemoteTell(out, ctx.Self().getAddress(), a.leaf, &testpb.Reply{Content: plan.id2}); err != nil {
			res = "ERR " + plan.id2 + ": " + err.Error()
		}
	}
	if strings.HasPrefix(m.GetContent(), "ask|") {
		ctx.Response(&testpb.Reply{Content: "[]"})
	}
	a.done <- res
}

type c29Capture struct {
	mu   sync.Mutex
	msgs map[string]*internalpb.RemoteMessage
}

func c29WaitFor(d time.Duration, cond func() bool) bool {
	deadline := time.Now().Add(d)
	for time.Now().Before(deadline) {
		if cond() {
			return true
		}
		time.Sleep(time.Millisecond)
	}
	return cond()
}

func c29MDEntries(md map[string]string) []c29Entry {
	out := make([]c29Entry, 0, len(md))
	for k, v := range md {
		out = append(out, c29Entry{K: k, V: []string{v}})
	}
	sort.Slice(out, func(i, j int) bool { return out[i].K < out[j].K })
	return out
}

func TestVerifC29(t *testing.T) {
	groups := verifReadJSONL[c29Group](t, "c29_groups.jsonl")
	w := newVerifWriter(t, "c29_out.jsonl")
	defer w.close()
	ctx := context.Background()
	ser := remote.NewProtoSerializer()

	// ---- receiving node
	host := "127.0.0.1"
	port := inet.Get(1)[0]
	inj := &c29Injector{injected: map[string][]c29Entry{}}
	sys, err := NewActorSystem("c29sys", WithLogger(log.DiscardLogger),
		WithRemote(remote.NewConfig(host, port, remote.WithContextPropagator(c29Recorder{inj: inj}))))
	if err != nil {
		t.Fatalf("actor system: %v", err)
	}
	if err := sys.Start(ctx); err != nil {
		t.Fatalf("start: %v", err)
	}
	defer func() { _ = sys.Stop(ctx) }()
	time.Sleep(200 * time.Millisecond)
	rec := &c29Actor{seen: map[string][][]c29Entry{}}
	pid, err := sys.Spawn(ctx, "c29rec", rec)
	if err != nil {
		t.Fatalf("spawn: %v", err)
	}
	x := sys.(*actorSystem)
	recAddr := pid.getAddress()
	recAddrStr := recAddr.String()

	// ---- fake destination that captures what the real sender puts on the wire
	capt := &c29Capture{msgs: map[string]*internalpb.RemoteMessage{}}
	cps, err := inet.NewProtoServer("127.0.0.1:0", inet.WithProtoHandler("internalpb.RemoteTellRequest",
		func(_ context.Context, _ inet.Connection, req proto.Message) (proto.Message, error) {
			if r, ok := req.(*internalpb.RemoteTellRequest); ok {
				capt.mu.Lock()
				for _, m := range r.GetRemoteMessages() {
					if v, err := ser.Deserialize(m.GetMessage()); err == nil {
						if rr, ok := v.(*testpb.Reply); ok {
							capt.msgs[rr.GetContent()] = proto.Clone(m).(*internalpb.RemoteMessage)
						}
					}
				}
				capt.mu.Unlock()
			}
			return &internalpb.RemoteTellResponse{}, nil
		}))
	if err != nil {
		t.Fatalf("capture server: %v", err)
	}
	if err := cps.Listen(); err != nil {
		t.Fatalf("capture listen: %v", err)
	}
	go func() { _ = cps.Serve() }()
	defer func() { _ = cps.Shutdown(time.Second) }()
	chost, cportStr, _ := net.SplitHostPort(cps.ListenAddr().String())
	cport, _ := strconv.Atoi(cportStr)
	c29WaitFor(3*time.Second, func() bool {
		c, err := net.DialTimeout("tcp", cps.ListenAddr().String(), 100*time.Millisecond)
		if err == nil {
			c.Close()
		}
		return err == nil
	})
	captAddr := address.New("c29rec", "c29sys", chost, cport)

	coal := remoteclient.NewClient(remoteclient.WithClientContextPropagator(inj), remoteclient.WithSendCoalescing(8))
	defer coal.Close()
	direct := remoteclient.NewClient(remoteclient.WithClientContextPropagator(inj))
	defer direct.Close()
	from := address.NoSender()

	// ---- second node (leaf) and the relay actor on the first node
	port2 := inet.Get(1)[0]
	sys2, err := NewActorSystem("c29leaf", WithLogger(log.DiscardLogger),
		WithRemote(remote.NewConfig(host, port2, remote.WithContextPropagator(c29Recorder{inj: inj}))))
	if err != nil {
		t.Fatalf("leaf system: %v", err)
	}
	if err := sys2.Start(ctx); err != nil {
		t.Fatalf("leaf start: %v", err)
	}
	defer func() { _ = sys2.Stop(ctx) }()
	time.Sleep(200 * time.Millisecond)
	leaf := &c29Actor{seen: map[string][][]c29Entry{}}
	leafPID, err := sys2.Spawn(ctx, "c29leafrec", leaf)
	if err != nil {
		t.Fatalf("leaf spawn: %v", err)
	}
	relay := &c29Relay{plans: map[string]c29Plan{}, leaf: leafPID.getAddress(), direct: direct, done: make(chan string, 1024)}
	relayPID, err := sys.Spawn(ctx, "c29relay", relay)
	if err != nil {
		t.Fatalf("relay spawn: %v", err)
	}
	relayAddr := relayPID.getAddress()

	expect := 0
	for _, g := range groups {
		// ---------------- part 1: capture, then every batching
		n := len(g.Specs)
		ids := make([]string, n)
		for i, sp := range g.Specs {
			ids[i] = fmt.Sprintf("%s.cap.%d", g.Name, i)
			cctx := context.WithValue(ctx, c29SpecKey{}, c29Call{id: ids[i], spec: sp})
			if err := coal.RemoteTell(cctx, from, captAddr, &testpb.Reply{Content: ids[i]}); err != nil {
				w.put(c29Out{Group: g.Name, Part: "batchings", Spec: i, ID: ids[i], Err: "RemoteTell: " + err.Error()})
			}
		}
		c29WaitFor(3*time.Second, func() bool {
			capt.mu.Lock()
			defer capt.mu.Unlock()
			for _, id := range ids {
				if _, ok := capt.msgs[id]; !ok {
					return false
				}
			}
			return true
		})
		type sent struct {
			id        string
			comp, pos int
			spec      int
			reqMD     bool
		}
		var sents []sent
		for comp := 0; comp < 1<<(n-1); comp++ {
			reqMD := comp%2 == 1
			var batches [][]*internalpb.RemoteMessage
			var cur []*internalpb.RemoteMessage
			for i := 0; i < n; i++ {
				capt.mu.Lock()
				cm := capt.msgs[ids[i]]
				capt.mu.Unlock()
				if cm == nil {
					continue
				}
				id := fmt.Sprintf("%s.b%d.%d", g.Name, comp, i)
				payload, _ := ser.Serialize(&testpb.Reply{Content: id})
				m := proto.Clone(cm).(*internalpb.RemoteMessage)
				m.Receiver = recAddrStr
				m.Message = payload
				cur = append(cur, m)
				sents = append(sents, sent{id: id, comp: comp, pos: i, spec: i, reqMD: reqMD})
				if i == n-1 || comp&(1<<i) != 0 {
					batches = append(batches, cur)
					cur = nil
				}
			}
			for _, b := range batches {
				rctx := ctx
				if reqMD {
					md := inet.NewMetadata()
					md.Set("x-req-level", "r")
					rctx = md.ToContext(ctx)
				}
				resp, herr := x.remoteTellHandler(rctx, nil, &internalpb.RemoteTellRequest{RemoteMessages: b})
				if herr != nil {
					w.put(c29Out{Group: g.Name, Part: "batchings", Comp: comp, Err: "handler error: " + herr.Error()})
				} else if _, ok := resp.(*internalpb.RemoteTellResponse); !ok {
					w.put(c29Out{Group: g.Name, Part: "batchings", Comp: comp, Err: fmt.Sprintf("handler response %T", resp)})
				}
				expect += len(b)
			}
		}
		c29WaitFor(5*time.Second, func() bool { return rec.count() >= expect })
		for _, s := range sents {
			o := c29Out{Group: g.Name, Part: "batchings", Comp: s.comp, ReqMD: s.reqMD, Pos: s.pos, Spec: s.spec, ID: s.id}
			o.Injected = c29Expected(g.Specs[s.spec])
			capt.mu.Lock()
			if cm := capt.msgs[ids[s.spec]]; cm != nil {
				o.Wire = c29MDEntries(cm.GetMetadata())
			}
			capt.mu.Unlock()
			if chain, ok := rec.get(s.id); ok {
				o.Chain = chain
			} else {
				o.Err = "not delivered"
			}
			w.put(o)
		}

		// ---------------- part 2: real coalescer with concurrent callers, direct tell, ask
		var wg sync.WaitGroup
		type e2e struct {
			id, part string
			spec     int
		}
		var e2es []e2e
		var emu sync.Mutex
		for k := 0; k < 3; k++ {
			wg.Add(1)
			go func(k int) {
				defer wg.Done()
				for i, sp := range g.Specs {
					id := fmt.Sprintf("%s.co.%d.%d", g.Name, k, i)
					cctx := context.WithValue(ctx, c29SpecKey{}, c29Call{id: id, spec: sp})
					err := coal.RemoteTell(cctx, from, recAddr, &testpb.Reply{Content: id})
					emu.Lock()
					if err == nil {
						e2es = append(e2es, e2e{id, "coalesced", i})
					}
					emu.Unlock()
				}
			}(k)
		}
		wg.Wait()
		for i, sp := range g.Specs {
			id := fmt.Sprintf("%s.di.%d", g.Name, i)
			cctx := context.WithValue(ctx, c29SpecKey{}, c29Call{id: id, spec: sp})
			if err := direct.RemoteTell(cctx, from, recAddr, &testpb.Reply{Content: id}); err == nil {
				e2es = append(e2es, e2e{id, "direct", i})
			} else {
				w.put(c29Out{Group: g.Name, Part: "direct", Spec: i, ID: id, Err: "RemoteTell: " + err.Error()})
			}
		}
		expect += len(e2es)
		c29WaitFor(5*time.Second, func() bool { return rec.count() >= expect })
		for _, s := range e2es {
			o := c29Out{Group: g.Name, Part: s.part, Spec: s.spec, ID: s.id}
			o.Injected = c29Expected(g.Specs[s.spec])
			if chain, ok := rec.get(s.id); ok {
				o.Chain = chain
			} else {
				o.Err = "not delivered"
			}
			w.put(o)
		}
		for i, sp := range g.Specs {
			id := fmt.Sprintf("ask|%s.%d", g.Name, i)
			cctx := context.WithValue(ctx, c29SpecKey{}, c29Call{id: id, spec: sp})
			o := c29Out{Group: g.Name, Part: "ask", Spec: i, ID: id}
			resp, err := direct.RemoteAsk(cctx, from, recAddr, &testpb.Reply{Content: id}, 3*time.Second)
			expect++
			o.Injected = c29Expected(sp)
			if err != nil {
				o.Err = "RemoteAsk: " + err.Error()
			} else if rr, ok := resp.(*testpb.Reply); ok {
				if jerr := json.Unmarshal([]byte(rr.GetContent()), &o.Chain); jerr != nil {
					o.Err = "reply: " + jerr.Error()
				}
			} else {
				o.Err = fmt.Sprintf("reply type %T", resp)
			}
			w.put(o)
		}

		// ---------------- part 3: first-hop sends whose context already carries (stale) wire metadata
		for i, sp := range g.Specs {
			stale := inet.NewMetadata()
			stale.Set("X-Stale-Upstream", "s")
			stale.Set("Traceparent", "00-stale-00")
			id := fmt.Sprintf("ask|%s.pre.%d", g.Name, i)
			cctx := inet.ContextWithMetadata(context.WithValue(ctx, c29SpecKey{}, c29Call{id: id, spec: sp}), stale)
			o := c29Out{Group: g.Name, Part: "ask-preattached", Spec: i, ID: id}
			resp, err := direct.RemoteAsk(cctx, from, recAddr, &testpb.Reply{Content: id}, 3*time.Second)
			expect++
			o.Injected = c29Expected(sp)
			if err != nil {
				o.Err = "RemoteAsk: " + err.Error()
			} else if rr, ok := resp.(*testpb.Reply); ok {
				if jerr := json.Unmarshal([]byte(rr.GetContent()), &o.Chain); jerr != nil {
					o.Err = "reply: " + jerr.Error()
				}
			} else {
				o.Err = fmt.Sprintf("reply type %T", resp)
			}
			w.put(o)
		}

		// ---------------- part 4: two hops. client -> relay actor (node 1) -> leaf actor (node 2); the relay
		// derives its outbound context from the context of the message it is handling and changes what the
		// propagator injects (spec of the NEXT message of the group)
		n2 := len(g.Specs)
		for i, sp := range g.Specs {
			for _, mode := range []string{"ask", "tell"} {
				for _, hop1 := range []string{"ask", "tell"} {
					id1 := fmt.Sprintf("%s.h1.%s.%s.%d", g.Name, hop1, mode, i)
					if hop1 == "ask" {
						id1 = "ask|" + id1
					}
					id2 := fmt.Sprintf("%s.h2.%s.%s.%d", g.Name, hop1, mode, i)
					if mode == "ask" {
						id2 = "ask|" + id2 // the leaf replies to these
					}
					spec2 := g.Specs[(i+1)%n2]
					relay.mu.Lock()
					relay.plans[id1] = c29Plan{id2: id2, spec: spec2, mode: mode}
					relay.mu.Unlock()
					cctx := context.WithValue(ctx, c29SpecKey{}, c29Call{id: id1, spec: sp})
					var herr error
					if hop1 == "ask" {
						_, herr = direct.RemoteAsk(cctx, from, relayAddr, &testpb.Reply{Content: id1}, 5*time.Second)
					} else {
						herr = direct.RemoteTell(cctx, from, relayAddr, &testpb.Reply{Content: id1})
					}
					o := c29Out{Group: g.Name, Part: "relay-" + hop1 + "-" + mode, Spec: (i + 1) % n2, ID: id2}
					if herr != nil {
						o.Err = "first hop: " + herr.Error()
						w.put(o)
						continue
					}
					select {
					case res := <-relay.done:
						if strings.HasPrefix(res, "ERR ") {
							o.Err = "relay: " + res
						}
					case <-time.After(5 * time.Second):
						o.Err = "relay did not forward"
					}
					if o.Err == "" {
						c29WaitFor(3*time.Second, func() bool { _, ok := leaf.get(id2); return ok })
						if chain, ok := leaf.get(id2); ok {
							o.Chain = chain
						} else {
							o.Err = "not delivered to the leaf"
						}
					}
					o.Injected = c29Expected(spec2)
					w.put(o)
				}
			}
		}
	}
}
