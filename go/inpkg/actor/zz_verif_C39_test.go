//go:build verif

package actor

import (
	"context"
	"testing"
)

// TestVerifC39Replicator runs multi-replica replication histories (updates through the real
// handleUpdate, published deltas re-delivered in any order with duplication through the real
// handleProtoDelta/handleDelta, anti-entropy full states through the real handleFullState) on the real
// replicator; the driver is the one of zz_verif_C41_test.go.
func TestVerifC39Replicator(t *testing.T) {
	hs := verifReadJSONL[c41Hist](t, "c39_hist.jsonl")
	w := newVerifWriter(t, "c39_hist_out.jsonl")
	defer w.close()
	sys := c41System(t)
	defer func() { _ = sys.Stop(context.Background()) }()
	for _, h := range hs {
		w.put(c41RunHist(t, sys, h))
	}
}
