//go:build verif

package actor

// C25 harness (actor package part): the REAL terminatedSerializer and poisonPillSerializer on generated
// Terminated messages and malformed frames, their mutual exclusion with the frames of the other
// serializers, and the production serializer composition of setupRemoting (PoisonPill, Terminated and
// the reliable-delivery commands behind remoteclient's resolve + composite dispatcher).
// Output: c25a_cases.jsonl — compared by checks/C25.py with the byte-level Coq model
// (terminated_ser / terminated_deser / poison_deser) evaluated on the same bytes.

import (
	"encoding/binary"
	"encoding/hex"
	"fmt"
	"math"
	"reflect"
	"testing"
	"time"

	"google.golang.org/protobuf/proto"

	"github.com/tochemey/goakt/v4/internal/address"
	"github.com/tochemey/goakt/v4/internal/commands"
	"github.com/tochemey/goakt/v4/internal/remoteclient"
	"github.com/tochemey/goakt/v4/remote"
	"github.com/tochemey/goakt/v4/test/data/testpb"
)

type c25aCase struct {
	I       int
	Kind    string // "term-rt", "term-mal", "poison", "cross", "prod"
	Data    string // frame bytes fed to the decoder
	Path    string // hex of the path string (term-rt: as encoded; decoders: as decoded)
	Nanos   uint64 // two's complement of UnixNano
	Dec     string // which real decoder ran: "terminated", "poison"
	OK      bool   // real decoder accepted
	ParseOK bool   // address.Parse accepts the path bytes the frame carries (or the path is empty)
	Oracle  []string
}

func c25aTerminatedEqual(a, b *Terminated) bool {
	pa, pb := pathString(a.actorPath), pathString(b.actorPath)
	return pa == pb && a.terminatedAt.Equal(b.terminatedAt) && a.terminatedAt.UnixNano() == b.terminatedAt.UnixNano()
}

func TestVerifC25Actor(t *testing.T) {
	r := newVerifRNG(verifSeed())
	w := newVerifWriter(t, "c25a_cases.jsonl")
	defer w.close()
	ts := &terminatedSerializer{}
	ps := &poisonPillSerializer{}
	idx := 0
	put := func(c c25aCase) {
		c.I = idx
		idx++
		w.put(c)
	}

	names := []string{"a", "actor-1", "Worker_42", "child", "x.y", "n0"}
	systems := []string{"sys", "GoAktSystem", "s1"}
	hosts := []string{"127.0.0.1", "localhost", "node-3.cluster.local", "10.0.0.254", "::1", "fe80::1ff:fe23:4567:890a"}
	ports := []int{0, 1, 80, 9000, 65535}
	nanos := []int64{0, 1, -1, 1_000_000_000, time.Now().UnixNano(), math.MaxInt64, math.MinInt64 + 1, 1 << 62, -(1 << 40)}
	var frames [][]byte
	for i := 0; i < 60; i++ {
		var p Path
		if i%9 != 0 {
			addr := address.New(names[r.intn(len(names))], systems[r.intn(len(systems))], hosts[r.intn(len(hosts))], ports[r.intn(len(ports))])
			p = newPath(addr)
		}
		n := nanos[r.intn(len(nanos))]
		if r.intn(3) == 0 {
			n = int64(r.next())
		}
		msg := &Terminated{actorPath: p, terminatedAt: time.Unix(0, n).UTC()}
		c := c25aCase{Kind: "term-rt", Dec: "terminated", Path: hex.EncodeToString([]byte(pathString(p))), Nanos: uint64(n)}
		b, err := ts.Serialize(msg)
		if err != nil {
			c.Oracle = append(c.Oracle, fmt.Sprintf("terminatedSerializer refuses a *Terminated: %v", err))
			put(c)
			continue
		}
		c.Data = hex.EncodeToString(b)
		frames = append(frames, b)
		back, err := ts.Deserialize(b)
		c.OK = err == nil
		c.ParseOK = true
		if err != nil {
			c.Oracle = append(c.Oracle, fmt.Sprintf("Terminated{path=%q, at=%d} does not decode: %v", pathString(p), n, err))
		} else if bt, ok := back.(*Terminated); !ok || !c25aTerminatedEqual(bt, msg) {
			c.Oracle = append(c.Oracle, fmt.Sprintf("Terminated{path=%q, at=%d} came back as %T path=%q at=%d", pathString(p), n, back, pathString(bt.actorPath), bt.terminatedAt.UnixNano()))
		}
		put(c)
	}
	// refusals
	for _, m := range []any{nil, (*Terminated)(nil), new(PoisonPill), "x", &testpb.Reply{}} {
		if b, err := ts.Serialize(m); err == nil {
			put(c25aCase{Kind: "refuse", Dec: "terminated", Oracle: []string{fmt.Sprintf("terminatedSerializer serialized a %T as %x", m, b)}})
		}
	}
	for _, m := range []any{nil, NewTerminated(nil), "x", &testpb.Reply{}} {
		if b, err := ps.Serialize(m); err == nil {
			put(c25aCase{Kind: "refuse", Dec: "poison", Oracle: []string{fmt.Sprintf("poisonPillSerializer serialized a %T as %x", m, b)}})
		}
	}

	// malformed Terminated frames
	runTerm := func(kind string, data []byte) {
		c := c25aCase{Kind: kind, Dec: "terminated", Data: hex.EncodeToString(data)}
		func() {
			defer func() {
				if p := recover(); p != nil {
					c.Oracle = append(c.Oracle, fmt.Sprintf("terminatedSerializer.Deserialize panicked: %v", p))
				}
			}()
			v, err := ts.Deserialize(append([]byte(nil), data...))
			c.OK = err == nil
			if err == nil {
				bt := v.(*Terminated)
				c.Path = hex.EncodeToString([]byte(pathString(bt.actorPath)))
				c.Nanos = uint64(bt.terminatedAt.UnixNano())
			}
		}()
		// would the path bytes this frame carries parse? (only meaningful when the layout is consistent)
		if len(data) >= 20 {
			pl := int(binary.BigEndian.Uint32(data[8:12]))
			if 12+pl+8 == len(data) {
				if pl == 0 {
					c.ParseOK = true
				} else if _, err := address.Parse(string(data[12 : 12+pl])); err == nil {
					c.ParseOK = true
				}
			}
		}
		put(c)
	}
	for _, f := range frames {
		if r.intn(2) == 0 {
			continue
		}
		n := len(f)
		for _, k := range []int{0, 7, 8, 12, 19, n - 1, n - 8, r.intn(n)} {
			if k >= 0 && k < n {
				runTerm("term-mal", f[:k])
			}
		}
		runTerm("term-mal", append(append([]byte(nil), f...), 0))
		for _, d := range []int{-1, 1, 8, 1 << 20} {
			o := append([]byte(nil), f...)
			binary.BigEndian.PutUint32(o[8:12], uint32(int(binary.BigEndian.Uint32(o[8:12]))+d))
			runTerm("term-mal", o)
		}
		o := append([]byte(nil), f...)
		o[r.intn(8)] ^= 1 << uint(r.intn(8))
		runTerm("term-mal", o)
		o = append([]byte(nil), f...)
		if n > 20 {
			o[12+r.intn(n-20)] ^= 0x5a // corrupt the path text
			runTerm("term-mal", o)
		}
		o = append([]byte(nil), f...)
		o[n-1-r.intn(8)] ^= 0xff // another timestamp: still a valid frame
		runTerm("term-mal", o)
	}
	huge := append(append([]byte(nil), terminatedMagic[:]...), 0xff, 0xff, 0xff, 0xff, 1, 2, 3, 4, 5, 6, 7, 8)
	runTerm("term-mal", huge)

	// poison pill
	runPoison := func(kind string, data []byte) {
		c := c25aCase{Kind: kind, Dec: "poison", Data: hex.EncodeToString(data)}
		func() {
			defer func() {
				if p := recover(); p != nil {
					c.Oracle = append(c.Oracle, fmt.Sprintf("poisonPillSerializer.Deserialize panicked: %v", p))
				}
			}()
			v, err := ps.Deserialize(append([]byte(nil), data...))
			c.OK = err == nil
			if err == nil {
				if _, ok := v.(*PoisonPill); !ok {
					c.Oracle = append(c.Oracle, fmt.Sprintf("poison pill frame decoded as %T", v))
				}
			}
		}()
		put(c)
	}
	pb, err := ps.Serialize(new(PoisonPill))
	if err != nil {
		put(c25aCase{Kind: "poison", Dec: "poison", Oracle: []string{"poisonPillSerializer refuses *PoisonPill"}})
	} else {
		c := c25aCase{Kind: "poison-ser", Dec: "poison", Data: hex.EncodeToString(pb), OK: true}
		if v, err := ps.Deserialize(pb); err != nil || reflect.TypeOf(v) != reflect.TypeOf(new(PoisonPill)) {
			c.Oracle = append(c.Oracle, "PoisonPill does not round-trip")
		}
		put(c)
		for k := 0; k <= 8; k++ {
			if k < 8 {
				runPoison("poison", pb[:k])
			}
			o := append([]byte(nil), pb...)
			o[k%8] ^= 1 << uint(r.intn(8))
			runPoison("poison", o)
		}
		runPoison("poison", append(append([]byte(nil), pb...), 0))
	}

	// cross: frames of the other serializers through these two decoders, and these frames through the others
	others := map[string]remote.Serializer{"proto": remote.NewProtoSerializer(), "cbor": remote.NewCBORSerializer(), "json": remote.NewJSONSerializer(), "delivery": new(commands.DeliverySerializer)}
	var foreign [][]byte
	if b, err := others["proto"].Serialize(&testpb.Reply{Content: "hello"}); err == nil {
		foreign = append(foreign, b)
	}
	if b, err := others["proto"].Serialize(&testpb.TestSend{}); err == nil {
		foreign = append(foreign, b)
	}
	for _, v := range []any{5, "text", 1.5, true, int64(-17)} {
		if b, err := others["cbor"].Serialize(v); err == nil {
			foreign = append(foreign, b)
		}
		if b, err := others["json"].Serialize(v); err == nil {
			foreign = append(foreign, b)
		}
	}
	if a, err := commands.NewAck("s", "n", 3); err == nil {
		if b, err := others["delivery"].Serialize(a); err == nil {
			foreign = append(foreign, b)
		}
	}
	for _, f := range foreign {
		runTerm("cross", f)
		runPoison("cross", f)
	}
	mine := append([][]byte{pb}, frames[:min(len(frames), 12)]...)
	for name, s := range others {
		for _, f := range mine {
			c := c25aCase{Kind: "cross-out", Dec: name, Data: hex.EncodeToString(f)}
			func() {
				defer func() {
					if p := recover(); p != nil {
						c.Oracle = append(c.Oracle, fmt.Sprintf("%s.Deserialize panicked on an internal frame: %v", name, p))
					}
				}()
				if v, err := s.Deserialize(f); err == nil {
					c.OK = true
					c.Oracle = append(c.Oracle, fmt.Sprintf("%s serializer accepted an internal (Terminated/PoisonPill) frame as %T", name, v))
				}
			}()
			put(c)
		}
	}

	// production composition (setupRemoting): resolve + composite dispatcher
	deliverySerializer := new(commands.DeliverySerializer)
	cl := remoteclient.NewClient(
		remoteclient.WithClientSerializers(new(PoisonPill), &poisonPillSerializer{}),
		remoteclient.WithClientSerializers(new(Terminated), &terminatedSerializer{}),
		remoteclient.WithClientSerializers(new(commands.RegisterConsumer), deliverySerializer),
		remoteclient.WithClientSerializers(new(commands.RegistrationAck), deliverySerializer),
		remoteclient.WithClientSerializers(new(commands.Request), deliverySerializer),
		remoteclient.WithClientSerializers(new(commands.Ack), deliverySerializer),
		remoteclient.WithClientSerializers(new(commands.SequencedMessage), deliverySerializer),
		remoteclient.WithClientSerializers((*any)(nil), remote.NewCBORSerializer()),
	)
	defer cl.Close()
	var prod []any
	prod = append(prod, new(PoisonPill), &testpb.Reply{Content: "r"}, &testpb.TestSend{}, 5, "s")
	for i := 0; i < 8; i++ {
		addr := address.New(names[r.intn(len(names))], systems[r.intn(len(systems))], hosts[r.intn(len(hosts))], ports[r.intn(len(ports))])
		prod = append(prod, &Terminated{actorPath: newPath(addr), terminatedAt: time.Unix(0, int64(r.next()>>1)).UTC()})
	}
	prod = append(prod, NewTerminated(nil))
	if a, err := commands.NewAck("sess", "nonce", 7); err == nil {
		prod = append(prod, a)
	}
	if a, err := commands.NewRequest("sess", "nonce", 1, 5, true); err == nil {
		prod = append(prod, a)
	}
	if a, err := commands.NewChunkedSequencedMessage("sess", "m", 2, []byte{1}, true, false); err == nil {
		prod = append(prod, a)
	}
	for _, m := range prod {
		c := c25aCase{Kind: "prod", Dec: fmt.Sprintf("%T", m)}
		func() {
			defer func() {
				if p := recover(); p != nil {
					c.Oracle = append(c.Oracle, fmt.Sprintf("production composition panicked on %T: %v", m, p))
				}
			}()
			s := cl.Serializer(m)
			if s == nil {
				c.Oracle = append(c.Oracle, fmt.Sprintf("no serializer resolved for %T in the production composition", m))
				return
			}
			b, err := s.Serialize(m)
			if err != nil {
				c.Oracle = append(c.Oracle, fmt.Sprintf("%T: chosen serializer %T refuses it: %v", m, s, err))
				return
			}
			c.Data = hex.EncodeToString(b)
			back, err := cl.Serializer(nil).Deserialize(b)
			if err != nil {
				c.Oracle = append(c.Oracle, fmt.Sprintf("%T does not come back through the dispatcher: %v", m, err))
				return
			}
			c.OK = true
			equal := false
			switch mm := m.(type) {
			case *Terminated:
				bt, ok := back.(*Terminated)
				equal = ok && c25aTerminatedEqual(bt, mm)
			case proto.Message:
				bp, ok := back.(proto.Message)
				equal = ok && reflect.TypeOf(back) == reflect.TypeOf(m) && proto.Equal(bp, mm)
			default:
				equal = reflect.DeepEqual(back, m)
			}
			if !equal {
				c.Oracle = append(c.Oracle, fmt.Sprintf("%T came back different through the production composition: %T %+v", m, back, back))
			}
		}()
		put(c)
	}
}
