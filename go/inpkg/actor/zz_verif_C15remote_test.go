//go:build verif

package actor

// C15 harness, remote leg: PID.Ask to a PID on another actor system over the real TCP remoting
// (loopback). Requests carry their id (TestSum.A) and the delay the target should take (TestSum.B, µs);
// the target answers TestSumResult{Result: id}. Sequences mix fast Asks with Asks whose target is
// slower than the caller's deadline, sequentially (so pooled connections are reused) and concurrently.

import (
	"context"
	"fmt"
	"sync"
	"testing"
	"time"

	"github.com/tochemey/goakt/v4/internal/net"
	"github.com/tochemey/goakt/v4/log"
	"github.com/tochemey/goakt/v4/remote"
	"github.com/tochemey/goakt/v4/test/data/testpb"
)

type c15RemoteTarget struct{}

func (c15RemoteTarget) PreStart(*Context) error { return nil }
func (c15RemoteTarget) PostStop(*Context) error { return nil }
func (c15RemoteTarget) Receive(ctx *ReceiveContext) {
	if m, ok := ctx.Message().(*testpb.TestSum); ok {
		if m.GetB() > 0 {
			time.Sleep(time.Duration(m.GetB()) * time.Microsecond)
		}
		ctx.Response(&testpb.TestSumResult{Result: m.GetA()})
	}
}

type c15Idle struct{}

func (c15Idle) PreStart(*Context) error { return nil }
func (c15Idle) PostStop(*Context) error { return nil }
func (c15Idle) Receive(*ReceiveContext) {}

type c15RemoteRec struct {
	Seq       int    `json:"seq"`     // sequence (sequential mode) or goroutine (concurrent mode)
	Index     int    `json:"index"`   // position in the sequence
	ID        int64  `json:"id"`
	Reply     int64  `json:"reply"`   // -1: error
	Err       string `json:"err"`
	TimeoutUs int64  `json:"timeout_us"`
	DelayUs   int64  `json:"delay_us"`
	TookUs    int64  `json:"took_us"`
	Mode      string `json:"mode"`
	Target    int    `json:"target"`
}

func TestVerifC15Remote(t *testing.T) {
	w := newVerifWriter(t, "c15_remote.jsonl")
	defer w.close()
	ctx := context.Background()
	c15DrainPools(false, true)
	ports := net.Get(2)
	host := "127.0.0.1"
	mk := func(name string, port int) ActorSystem {
		sys, err := NewActorSystem(name, WithLogger(log.DiscardLogger), WithRemote(remote.NewConfig(host, port)))
		if err != nil {
			t.Fatal(err)
		}
		if err := sys.Start(ctx); err != nil {
			t.Fatal(err)
		}
		return sys
	}
	sysA, sysB := mk("verifC15A", ports[0]), mk("verifC15B", ports[1])
	defer func() { _ = sysA.Stop(ctx); _ = sysB.Stop(ctx) }()
	time.Sleep(500 * time.Millisecond)
	asker, err := sysA.Spawn(ctx, "asker", c15Idle{})
	if err != nil {
		t.Fatal(err)
	}
	targets := []*PID{}
	for k := 0; k < 2; k++ {
		name := fmt.Sprintf("rt%d", k)
		if _, err := sysB.Spawn(ctx, name, c15RemoteTarget{}); err != nil {
			t.Fatal(err)
		}
		rp, err := asker.RemoteLookup(ctx, host, ports[1], name)
		if err != nil || rp == nil {
			t.Fatalf("remote lookup: %v", err)
		}
		targets = append(targets, rp)
	}
	var nextID int64
	var mu sync.Mutex
	ask := func(seq, idx int, mode string, tgt int, timeoutUs, delayUs int64) {
		mu.Lock()
		nextID++
		id := nextID
		mu.Unlock()
		rec := c15RemoteRec{Seq: seq, Index: idx, ID: id, Reply: -1, TimeoutUs: timeoutUs, DelayUs: delayUs, Mode: mode, Target: tgt}
		t0 := time.Now()
		r, err := asker.Ask(ctx, targets[tgt], &testpb.TestSum{A: id, B: delayUs}, time.Duration(timeoutUs)*time.Microsecond)
		rec.TookUs = time.Since(t0).Microseconds()
		if err != nil {
			rec.Err = err.Error()
		} else if res, ok := r.(*testpb.TestSumResult); ok {
			rec.Reply = res.GetResult()
		} else {
			rec.Err = fmt.Sprintf("unexpected reply %T", r)
		}
		mu.Lock()
		w.put(rec)
		mu.Unlock()
	}
	rng := newVerifRNG(verifSeed() + 1515)
	nseq := verifEnvInt("VERIF_C15_REMOTE_SEQS", 6)
	// sequential sequences: fast asks around asks that give up before the target answers
	for s := 0; s < nseq; s++ {
		n := 4 + rng.intn(5)
		slowAt := map[int]bool{1 + rng.intn(n-2): true}
		if rng.intn(2) == 0 {
			slowAt[1+rng.intn(n-2)] = true
		}
		tgt := rng.intn(len(targets))
		for i := 0; i < n; i++ {
			if slowAt[i] {
				ask(s, i, "seq", tgt, 60000, 200000+int64(rng.intn(100000)))
				time.Sleep(time.Duration(350+rng.intn(100)) * time.Millisecond) // the late answer is on the wire by now
			} else {
				ask(s, i, "seq", tgt, 2000000, int64(rng.intn(3))*500)
			}
		}
	}
	// concurrent: several goroutines, occasional give-ups
	var wg sync.WaitGroup
	for g := 0; g < 4; g++ {
		wg.Add(1)
		go func(g int) {
			defer wg.Done()
			r := newVerifRNG(verifSeed()*77 + uint64(g))
			for i := 0; i < 12; i++ {
				if r.intn(6) == 0 {
					ask(100+g, i, "conc", r.intn(len(targets)), 40000, 120000)
				} else {
					ask(100+g, i, "conc", r.intn(len(targets)), 2000000, int64(r.intn(2000)))
				}
			}
		}(g)
	}
	wg.Wait()
	time.Sleep(300 * time.Millisecond)
	for i := 0; i < 6; i++ {
		ask(200, i, "tail", i%len(targets), 2000000, 0)
	}
}
