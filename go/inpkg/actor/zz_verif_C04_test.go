//go:build verif

package actor

// C04 harness: runs the REAL mailboxes of the current working tree.
//   TestVerifC04Seq     sequential op sequences chosen by checks/C04.py, outputs + Len/IsEmpty after every op
//   TestVerifC04Sched   logical threads over the instrumented mailbox files (tools/mbinstr yield points),
//                       iterative context-bounded schedule enumeration + random schedules, history oracle
//   TestVerifC04Stress  real goroutines, history oracle
// The oracle is written against the property text only (conservation, order, capacity, reject only
// when full, emptiness reports); it never consults the Coq model.

import (
	"errors"
	"fmt"
	"runtime"
	"sort"
	"strings"
	"sync"
	"sync/atomic"
	"testing"
	"time"

	gerrors "github.com/tochemey/goakt/v4/errors"
	"github.com/tochemey/goakt/v4/internal/address"
)

type c04Msg struct {
	ID     int
	Sender int
	Prio   int64
	Box    int
}

// priority family: less(a,b) = key_pf(a) < key_pf(b); mirrored by C04/Model.v [pkey]
func c04Key(pf int, p int64) int64 {
	switch pf {
	case 1:
		return -p
	case 2:
		return ((p % 3) + 3) % 3
	case 3:
		return 0
	case 4:
		if p >= 5 {
			return p - 5
		}
		return 5 - p
	}
	return p
}

func c04PF(pf int) PriorityFunc {
	return func(a, b any) bool { return c04Key(pf, a.(*c04Msg).Prio) < c04Key(pf, b.(*c04Msg).Prio) }
}

var (
	c04SenderMu sync.Mutex
	c04Senders  = map[int]*PID{}
)

func c04Sender(i int) *PID {
	if i < 0 {
		return nil // anonymous sender: key ""
	}
	c04SenderMu.Lock()
	defer c04SenderMu.Unlock()
	if p, ok := c04Senders[i]; ok {
		return p
	}
	p := &PID{path: newPath(address.New(fmt.Sprintf("s%d", i), "verif", "127.0.0.1", 1))}
	c04Senders[i] = p
	return p
}

func c04NewMailbox(kind string, capacity, pf int) Mailbox {
	switch kind {
	case "unbounded":
		return NewUnboundedMailbox()
	case "segmented":
		return NewUnboundedSegmentedMailbox()
	case "fair":
		return NewUnboundedFairMailbox()
	case "bounded":
		return NewBoundedMailbox(capacity)
	case "nbbounded":
		return NewNonBlockingBoundedMailbox(capacity)
	case "uprio":
		return NewUnboundedPriorityMailBox(c04PF(pf))
	case "ustable":
		return NewUnboundedStablePriorityMailbox(c04PF(pf))
	case "bprio":
		return NewBoundedPriorityMailbox(capacity, c04PF(pf))
	case "bstable":
		return NewBoundedStablePriorityMailbox(capacity, c04PF(pf))
	}
	panic("unknown mailbox kind " + kind)
}

func c04Ctx(m *c04Msg) *ReceiveContext {
	return &ReceiveContext{message: m, sender: c04Sender(m.Sender)}
}

// c04Read must be called right after Dequeue: the mailboxes recycle a context one Dequeue later.
func c04Read(rc *ReceiveContext) *c04Msg {
	if rc == nil {
		return nil
	}
	m, ok := rc.Message().(*c04Msg)
	if !ok || m == nil {
		return &c04Msg{ID: -4, Box: -1}
	}
	return m
}

func c04EnqCode(err error) int64 {
	switch {
	case err == nil:
		return 1
	case errors.Is(err, gerrors.ErrMailboxFull):
		return 0
	}
	return -3
}

func c04B2I(b bool) int64 {
	if b {
		return 1
	}
	return 0
}

// ------------------------------------------------------------------------------------------------
// (S) sequential differential

type c04SeqCase struct {
	K   string
	C   int
	P   int
	Ops [][]int64 // [code, id, sender, prio]; code 0 Enq, 1 Deq, 2 Len, 3 IsEmpty, 4 Enq expected to block (bounded)
}
type c04SeqOut struct {
	I int
	R [][]int64 // per op [out, Len after, IsEmpty after]
}

// after two operations of a mailbox kind did not return, later cases of that kind wait less
var c04Hangs = map[string]int{}

func c04Patience(kind string) time.Duration {
	if c04Hangs[kind] >= 2 {
		return 2 * time.Second
	}
	return 15 * time.Second
}

func c04Timed(d time.Duration, f func() int64) (int64, bool, chan int64) {
	ch := make(chan int64, 1)
	go func() { ch <- f() }()
	select {
	case v := <-ch:
		return v, true, nil
	case <-time.After(d):
		return 0, false, ch
	}
}

func TestVerifC04Seq(t *testing.T) {
	cases := verifReadJSONL[c04SeqCase](t, "c04_seq_in.jsonl")
	w := newVerifWriter(t, "c04_seq_out.jsonl")
	defer w.close()
	for ci, c := range cases {
		w.put(c04SeqCaseRun(ci, c))
	}
}

// c04SeqCaseRun runs one case under a watchdog: an operation that never returns (a loop introduced
// into a non-blocking mailbox) ends the case with out = -2 at that operation.
func c04SeqCaseRun(ci int, c c04SeqCase) c04SeqOut {
	var mu sync.Mutex
	out := c04SeqOut{I: ci}
	done := make(chan struct{})
	go func() {
		defer close(done)
		defer func() {
			if r := recover(); r != nil {
				mu.Lock()
				out.R = append(out.R, []int64{-6, -9, -9}) // the operation panicked
				mu.Unlock()
			}
		}()
		c04SeqCaseBody(c, &out, &mu)
	}()
	select {
	case <-done:
	case <-time.After(60 * time.Second):
		mu.Lock()
		out.R = append(append([][]int64{}, out.R...), []int64{-2, -9, -9})
		mu.Unlock()
	}
	mu.Lock()
	defer mu.Unlock()
	return c04SeqOut{I: ci, R: append([][]int64{}, out.R...)}
}

func c04SeqCaseBody(c c04SeqCase, outp *c04SeqOut, mu *sync.Mutex) {
	{
		mb := c04NewMailbox(c.K, c.C, c.P)
		blocking := c.K == "bounded"
		out := outp
		sent := map[int]*c04Msg{}
		var pending chan int64
		abort := false
		for _, op := range c.Ops {
			var r int64
			switch op[0] {
			case 0, 4:
				m := &c04Msg{ID: int(op[1]), Sender: int(op[2]), Prio: op[3]}
				sent[m.ID] = m
				rc := c04Ctx(m)
				if !blocking {
					r = c04EnqCode(mb.Enqueue(rc))
					break
				}
				wait := c04Patience(c.K)
				if op[0] == 4 {
					wait = 40 * time.Millisecond
				}
				v, done, ch := c04Timed(wait, func() int64 { return c04EnqCode(mb.Enqueue(rc)) })
				if done {
					r = v
				} else {
					r = 2 // blocked
					pending = ch
				}
			case 1:
				deq := func() int64 {
					m := c04Read(mb.Dequeue())
					if m == nil {
						return -1
					}
					if s, ok := sent[m.ID]; !ok || s != m {
						return -4 // a message that was never enqueued here / corrupted
					}
					return int64(m.ID)
				}
				if !blocking {
					r = deq()
				} else {
					v, done, _ := c04Timed(c04Patience(c.K), deq)
					if !done {
						c04Hangs[c.K]++
						r = -2 // Dequeue does not return
						abort = true
					} else {
						r = v
					}
				}
				if pending != nil && !abort {
					select {
					case <-pending:
					case <-time.After(c04Patience(c.K)):
						c04Hangs[c.K]++
						r = -5 // the blocked Enqueue did not resume after a Dequeue
						abort = true
					}
					pending = nil
				}
			case 2:
				r = mb.Len()
			case 3:
				r = c04B2I(mb.IsEmpty())
			}
			if abort {
				mu.Lock()
				out.R = append(out.R, []int64{r, -9, -9})
				mu.Unlock()
				mb.Dispose()
				break
			}
			l, e := mb.Len(), c04B2I(mb.IsEmpty())
			mu.Lock()
			out.R = append(out.R, []int64{r, l, e})
			mu.Unlock()
		}
		if pending != nil {
			mb.Dispose()
		}
	}
}

// ------------------------------------------------------------------------------------------------
// (T) logical threads over yield points

type c04Scenario struct {
	Name       string
	K          string
	C          int // requested capacity
	Eff        int // effective capacity the documentation promises (0: unbounded)
	P          int
	Procs      int
	Prefill    [][]int64   // ops run before the threads start
	Threads    [][][]int64 // per thread: ops [code, id, sender, prio, box]; code 5 = create box
	MaxPreempt int
	MaxRuns    int
	RandomRuns int
	Drain      int
	Scripts    [][][]int // directed schedules: list of [thread, steps] segments (steps < 0: until the thread returns)
	Traces     int       // number of runs whose atomic-step trace is written out (model conformance)
}

type c04Trace struct {
	Steps [][]string // [thread, label executed]
	Deqs  []int64    // results of every Dequeue of box 0 in order (concurrent phase, then drain)
	Obs   []int64    // results of every Dequeue and IsEmpty of box 0 in order (concurrent phase, then drain)
	Len   int64
}

type c04Ev struct {
	Th   int // -1 prefill, -2 drain
	Code int
	ID   int
	Box  int
	Res  bool
	Out  int64
	Got  *c04Msg
}

type c04Step struct {
	enabled    []int
	chosen     int
	cur        int
	curEnabled bool
	at         string // the yield point the chosen thread was paused at (the operation it now executes)
}

type c04Yield struct {
	t    *c04Thread
	done bool
	at   string
}

type c04Thread struct {
	id     int
	resume chan struct{}
	done   bool
	at     string // label of the point the thread is paused at ("" = not started / finished)
	midOp  bool
	spin   int // yield points passed inside the current operation
}

type c04Run struct {
	sc      *c04Scenario
	boxes   map[int]Mailbox
	hist    []c04Ev
	paused  [][]string // for every event index: labels of threads paused mid-operation
	steps   []c04Step
	threads []*c04Thread
	cur     *c04Thread
	events  chan c04Yield
	sent    map[int]*c04Msg
	finalLn map[int]int64
	finalEm map[int]bool
	hung    string
	panicked string
}

func (r *c04Run) record(ev c04Ev) {
	r.hist = append(r.hist, ev)
	var p []string
	for _, t := range r.threads {
		if t.midOp && !t.done && t != r.cur && t.at != "" {
			p = append(p, t.at)
		}
	}
	r.paused = append(r.paused, p)
}

func (r *c04Run) doOp(th int, op []int64) {
	code, id, box := int(op[0]), int(op[1]), 0
	if len(op) > 4 {
		box = int(op[4])
	}
	if code == 5 {
		r.boxes[box] = c04NewMailbox(r.sc.K, r.sc.C, r.sc.P)
		return
	}
	mb := r.boxes[box]
	r.record(c04Ev{Th: th, Code: code, ID: id, Box: box})
	ev := c04Ev{Th: th, Code: code, ID: id, Box: box, Res: true}
	switch code {
	case 0:
		m := &c04Msg{ID: id, Sender: int(op[2]), Prio: op[3], Box: box}
		r.sent[id] = m
		ev.Out = c04EnqCode(mb.Enqueue(c04Ctx(m)))
	case 1:
		m := c04Read(mb.Dequeue())
		ev.Out = -1
		if m != nil {
			ev.Out = int64(m.ID)
			ev.ID = m.ID
			ev.Got = m
		}
	case 2:
		ev.Out = mb.Len()
	case 3:
		ev.Out = c04B2I(mb.IsEmpty())
	}
	r.record(ev)
}

func (r *c04Run) yield(t *c04Thread, at string) {
	t.at = at
	t.spin++
	r.events <- c04Yield{t: t, at: at}
	<-t.resume
}

// c04Execute runs one schedule: prefix of forced choices, then `policy` (nil: keep the running
// thread while it is enabled, else the lowest enabled one).
func c04Execute(sc *c04Scenario, prefix []int, policy func(step int, enabled []int, cur int, curEnabled bool) int) (r *c04Run) {
	r = &c04Run{sc: sc, boxes: map[int]Mailbox{}, events: make(chan c04Yield), sent: map[int]*c04Msg{},
		finalLn: map[int]int64{}, finalEm: map[int]bool{}}
	r.boxes[0] = c04NewMailbox(sc.K, sc.C, sc.P)
	for _, op := range sc.Prefill {
		r.doOp(-1, op)
	}
	hook := func(fn, op string) {
		t := r.cur
		if t == nil || (fn == "newSegment" && strings.HasPrefix(op, "data.Store")) {
			return
		}
		r.yield(t, fn+"/"+op)
	}
	for i, ops := range sc.Threads {
		t := &c04Thread{id: i, resume: make(chan struct{})}
		r.threads = append(r.threads, t)
		go func(t *c04Thread, ops [][]int64) {
			defer func() {
				if p := recover(); p != nil {
					// a panic inside the mailbox code under this schedule: report it, keep the harness alive
					r.panicked = fmt.Sprintf("thread %d panicked after %s: %v", t.id, t.at, p)
					t.at = ""
					r.events <- c04Yield{t: t, done: true}
				}
			}()
			<-t.resume
			for k, op := range ops {
				if k > 0 {
					r.yield(t, "op-boundary")
				}
				t.midOp = true
				t.spin = 0
				r.doOp(t.id, op)
				t.midOp = false
				t.spin = 0
			}
			t.at = ""
			r.events <- c04Yield{t: t, done: true}
		}(t, ops)
	}
	verifMbHook.Store(&hook)
	watchdog := time.NewTimer(20 * time.Second)
	defer watchdog.Stop()
	curID := -1
	for step := 0; ; step++ {
		var enabled []int
		for _, t := range r.threads {
			if !t.done {
				enabled = append(enabled, t.id)
			}
		}
		if len(enabled) == 0 {
			break
		}
		curEnabled := false
		for _, e := range enabled {
			if e == curID {
				curEnabled = true
			}
		}
		chosen := -1
		if step < len(prefix) {
			for _, e := range enabled {
				if e == prefix[step] {
					chosen = e
				}
			}
		}
		if chosen < 0 && policy != nil {
			chosen = policy(step, enabled, curID, curEnabled)
		}
		// A thread that has passed many yield points inside one call is (probably) spinning on
		// another thread's progress (the ring's CAS retry loop does): hand over, round-robin.
		spinning := curEnabled && r.threads[curID].spin > c04SpinLimit && len(enabled) > 1
		if spinning && (chosen < 0 || chosen == curID) {
			chosen = -1
			for _, e := range enabled {
				if e > curID {
					chosen = e
					break
				}
			}
			if chosen < 0 {
				chosen = enabled[0]
			}
			r.threads[curID].spin = c04SpinLimit / 2
		}
		if chosen < 0 {
			if curEnabled {
				chosen = curID
			} else {
				chosen = enabled[0]
			}
		}
		if step > c04MaxSteps {
			r.hung = fmt.Sprintf("no termination after %d scheduling steps (threads still running: %v)", step, enabled)
			verifMbHook.Store(nil)
			return r
		}
		r.steps = append(r.steps, c04Step{enabled: enabled, chosen: chosen, cur: curID, curEnabled: curEnabled, at: r.threads[chosen].at})
		t := r.threads[chosen]
		r.cur = t
		curID = chosen
		t.resume <- struct{}{}
		select {
		case y := <-r.events:
			if y.done {
				y.t.done = true
			}
		case <-watchdog.C:
			// the running thread neither returned nor reached another yield point: it spins or blocks
			r.hung = fmt.Sprintf("thread %d does not return or reach a yield point after %s", chosen, t.at)
			verifMbHook.Store(nil)
			return r
		}
	}
	r.cur = nil
	verifMbHook.Store(nil)
	// quiescence: every thread has returned from every call; drain with the single consumer
	defer func() {
		if p := recover(); p != nil {
			r.panicked = fmt.Sprintf("Dequeue panicked while draining after the schedule: %v", p)
		}
	}()
	if r.panicked != "" {
		return r
	}
	for b, mb := range r.boxes {
		nils := 0
		for i := 0; i < sc.Drain && nils < 3; i++ {
			before := len(r.hist)
			r.doOp(-2, []int64{1, 0, 0, 0, int64(b)})
			if r.hist[before+1].Out < 0 {
				nils++
			} else {
				nils = 0
			}
		}
		r.finalLn[b] = mb.Len()
		r.finalEm[b] = mb.IsEmpty()
	}
	return r
}

const (
	c04SpinLimit = 60
	c04MaxSteps  = 200000
)

type c04Viol struct {
	Sig      string
	What     string
	Scenario string
	Sched    []int
	Hist     []string
}

func c04FifoKind(k string) bool {
	return k == "unbounded" || k == "segmented" || k == "bounded" || k == "nbbounded"
}
func c04PrioKind(k string) bool {
	return k == "uprio" || k == "ustable" || k == "bprio" || k == "bstable"
}
func c04StableKind(k string) bool { return k == "ustable" || k == "bstable" }

type c04Op struct {
	th, code, id, box int
	inv, res          int
	out               int64
	got               *c04Msg
}

// c04Oracle evaluates the property on one recorded history (total order of invocation/response events).
func c04Oracle(sc *c04Scenario, hist []c04Ev, paused [][]string, finalLn map[int]int64, finalEm map[int]bool, sent map[int]*c04Msg, concurrent bool) []c04Viol {
	var viols []c04Viol
	add := func(sig, what string) {
		for _, v := range viols {
			if v.Sig == sig {
				return
			}
		}
		viols = append(viols, c04Viol{Sig: sc.K + ":" + sig, What: what})
	}
	// pair invocation/response events per thread
	var ops []*c04Op
	open := map[int]*c04Op{}
	for i, e := range hist {
		if !e.Res {
			o := &c04Op{th: e.Th, code: e.Code, id: e.ID, box: e.Box, inv: i, res: -1}
			open[e.Th] = o
			ops = append(ops, o)
		} else if o := open[e.Th]; o != nil {
			o.res, o.out, o.got = i, e.Out, e.Got
			if e.Code == 1 && e.Out >= 0 {
				o.id = int(e.Out)
			}
			delete(open, e.Th)
		}
	}
	n := len(hist)
	boxes := map[int]bool{}
	for _, o := range ops {
		boxes[o.box] = true
	}
	enqOf := map[int]*c04Op{}
	for _, o := range ops {
		if o.code == 0 {
			if o.out != 0 && o.out != 1 {
				add("enqueue-error", fmt.Sprintf("Enqueue(id=%d) returned an unexpected error (code %d)", o.id, o.out))
			}
			if o.out == 1 {
				enqOf[o.id] = o
			}
		}
	}
	// conservation
	seen := map[int]*c04Op{}
	for _, o := range ops {
		if o.code != 1 || o.out == -1 {
			continue
		}
		e := enqOf[o.id]
		switch {
		case o.out == -4 || e == nil || sent[o.id] != o.got:
			add("invented-message", fmt.Sprintf("Dequeue returned a message (id %d) that was never accepted by Enqueue", o.out))
		case e.inv > o.res:
			add("invented-message", fmt.Sprintf("Dequeue returned id %d before its Enqueue was invoked", o.id))
		case e.box != o.box:
			add("wrong-mailbox", fmt.Sprintf("message id %d accepted by mailbox #%d was dequeued from mailbox #%d", o.id, e.box, o.box))
		case seen[o.id] != nil:
			add("duplicated", fmt.Sprintf("message id %d dequeued twice", o.id))
		}
		seen[o.id] = o
	}
	for b := range boxes {
		var deqs, bops []*c04Op
		for _, o := range ops {
			if o.box != b {
				continue
			}
			bops = append(bops, o)
			if o.code == 1 && o.out >= 0 {
				deqs = append(deqs, o)
			}
		}
		// order
		deqPos := map[int]int{}
		for i, d := range deqs {
			deqPos[d.id] = i
		}
		for _, d := range deqs {
			x := enqOf[d.id]
			if x == nil || x.box != b {
				continue
			}
			for id, y := range enqOf {
				if y.box != b || id == d.id || y.res < 0 {
					continue
				}
				py, yDeq := deqPos[id]
				yPending := !yDeq || py > deqPos[d.id] // y still held when d was returned
				if !yPending {
					continue
				}
				mx, my := sent[d.id], sent[id]
				switch {
				case c04FifoKind(sc.K) || (sc.K == "fair" && mx.Sender == my.Sender):
					if y.res < x.inv {
						add("fifo-order", fmt.Sprintf("id %d (Enqueue returned before Enqueue of id %d started) was overtaken: %d dequeued first", id, d.id, d.id))
					}
				case c04PrioKind(sc.K):
					if y.res < d.inv && c04Key(sc.P, my.Prio) < c04Key(sc.P, mx.Prio) {
						add("priority-order", fmt.Sprintf("Dequeue returned id %d (key %d) while id %d (key %d), enqueued before the call, was still held", d.id, c04Key(sc.P, mx.Prio), id, c04Key(sc.P, my.Prio)))
					}
					if c04StableKind(sc.K) && y.res < x.inv && c04Key(sc.P, my.Prio) == c04Key(sc.P, mx.Prio) {
						add("stable-order", fmt.Sprintf("equal-priority id %d arrived before id %d but was dequeued after it", id, d.id))
					}
				}
			}
		}
		// bounds on the number of held messages at every instant, by message identity:
		//   cHeld[t] = enqueue returned by t and no Dequeue that delivers it has started by t   (surely held)
		//   sHeld[t] = enqueue started by t and no Dequeue that delivers it has returned by t    (possibly held)
		cHeld, sHeld, rej := make([]int, n+1), make([]int, n+1), make([]int, n+1)
		deqOf := map[int]*c04Op{}
		for _, d := range deqs {
			if deqOf[d.id] == nil {
				deqOf[d.id] = d
			}
		}
		for _, o := range bops {
			end := o.res
			if end < 0 {
				end = n
			}
			switch {
			case o.code == 0 && o.out == 1:
				dInv, dRes := n+1, n+1
				if d := deqOf[o.id]; d != nil {
					dInv, dRes = d.inv, d.res
					if dRes < 0 {
						dRes = n + 1
					}
				}
				for t := o.inv; t <= n; t++ {
					if t < dRes {
						sHeld[t]++
					}
					if t >= end && t < dInv {
						cHeld[t]++
					}
				}
			case o.code == 0 && o.out == 0:
				for t := o.inv; t < end; t++ {
					rej[t]++
				}
			}
		}
		hmin := func(t int) int { return cHeld[t] }
		hmax := func(t int) int { return sHeld[t] }
		if sc.Eff > 0 {
			for t := 0; t < n; t++ {
				if hmin(t) > sc.Eff {
					add("capacity-exceeded", fmt.Sprintf("%d messages held (completed enqueues minus started dequeues) with capacity %d (effective %d)", hmin(t), sc.C, sc.Eff))
					break
				}
			}
		}
		inFlight := func(o *c04Op) bool {
			for _, e := range bops {
				if e.code == 0 && e.out == 1 && e != o && e.inv < o.res && e.res > o.inv {
					return true
				}
			}
			return false
		}
		for _, o := range bops {
			if o.res < 0 {
				continue
			}
			lo, hi, hiRej := 1<<30, -1, -1
			for t := o.inv; t <= o.res; t++ {
				if hmin(t) < lo {
					lo = hmin(t)
				}
				if hmax(t) > hi {
					hi = hmax(t)
				}
				if hmax(t)+rej[t] > hiRej {
					hiRej = hmax(t) + rej[t]
				}
			}
			switch {
			case o.code == 0 && o.out == 0:
				if sc.Eff == 0 {
					add("reject-unbounded", fmt.Sprintf("unbounded mailbox refused id %d", o.id))
				} else if hi < sc.Eff {
					sig := "reject-not-full"
					if rej[o.inv] > 0 || rej[o.res] > 0 {
						sig = "reject-not-full-while-other-reject-in-flight"
					}
					add(sig, fmt.Sprintf("Enqueue(id=%d) refused with ErrMailboxFull although at most %d < %d messages were held at any instant of the call", o.id, hi, sc.Eff))
				}
			case o.th != -2 && ((o.code == 1 && o.out == -1) || (o.code == 3 && o.out == 1)):
				if lo > 0 {
					what := map[int]string{1: "Dequeue returned nil", 2: "Len returned 0", 3: "IsEmpty returned true"}[o.code]
					if inFlight(o) {
						add("empty-report-while-enqueue-in-flight", fmt.Sprintf("%s while %d completed enqueue(s) were outstanding; another Enqueue was still in flight (paused at %v)", what, lo, paused[o.inv]))
					} else {
						add("empty-report-unexplained", fmt.Sprintf("%s while %d completed enqueue(s) were outstanding and no Enqueue was in flight", what, lo))
					}
				}
			case o.code == 2:
				// Len is documented as approximate under concurrency (counters are updated after the
				// slot store / before the push): only a quiescent mailbox is checked, below.
				_ = hiRej
			case o.code == 3 && o.out == 0:
				if hi <= 0 {
					add("nonempty-report-on-empty", "IsEmpty returned false although nothing could be held")
				}
			}
		}
		// quiescence
		if sc.Drain > 0 {
			var stuck []int
			for id, e := range enqOf {
				if e.box == b && seen[id] == nil {
					stuck = append(stuck, id)
				}
			}
			sort.Ints(stuck)
			if len(stuck) > 0 {
				// which pause points were occupied when the consumer first saw nothing
				at := "none"
				for _, o := range bops {
					if o.th >= 0 && o.code == 1 && o.out == -1 && len(paused[o.inv]) > 0 {
						at = strings.Join(paused[o.inv], ",")
						break
					}
				}
				// shape of the history: are all stuck messages from one sender key whose Enqueue calls
				// (from different threads) overlapped in time?
				shape := ""
				keys := map[int]bool{}
				for _, id := range stuck {
					keys[sent[id].Sender] = true
				}
				if sc.K == "fair" && len(keys) == 1 {
					for _, e1 := range bops {
						for _, e2 := range bops {
							if e1.code == 0 && e2.code == 0 && e1.out == 1 && e2.out == 1 && e1.th != e2.th && e1.th >= 0 && e2.th >= 0 &&
								keys[sent[e1.id].Sender] && keys[sent[e2.id].Sender] && e1.inv < e2.res && e2.inv < e1.res {
								shape = ":same-sender-concurrent-enqueues"
							}
						}
					}
				}
				add("stuck-at-quiescence"+shape+":paused@"+at, fmt.Sprintf("all threads returned; Dequeue keeps returning nil but accepted ids %v were never delivered (Len=%d)", stuck, finalLn[b]))
			} else if finalLn[b] != 0 || !finalEm[b] {
				add("len-nonzero-when-empty", fmt.Sprintf("every accepted message was dequeued but Len=%d IsEmpty=%v", finalLn[b], finalEm[b]))
			}
		}
	}
	// the fair-mailbox stall also shows as later nil Dequeues inside the same run: one defect, one report
	stalled := false
	for _, v := range viols {
		if strings.Contains(v.Sig, "stuck-at-quiescence:same-sender-concurrent-enqueues") {
			stalled = true
		}
	}
	if stalled {
		var keep []c04Viol
		for _, v := range viols {
			if v.Sig != sc.K+":empty-report-unexplained" {
				keep = append(keep, v)
			}
		}
		viols = keep
	}
	return viols
}

func c04HistStrings(h []c04Ev) []string {
	var out []string
	names := []string{"Enq", "Deq", "Len", "IsEmpty"}
	for _, e := range h {
		if !e.Res {
			out = append(out, fmt.Sprintf("T%d box%d %s(%d) call", e.Th, e.Box, names[e.Code], e.ID))
		} else {
			out = append(out, fmt.Sprintf("T%d box%d %s(%d) -> %d", e.Th, e.Box, names[e.Code], e.ID, e.Out))
		}
	}
	return out
}

type c04SchedSummary struct {
	Scenario   string
	K          string
	Runs       int
	Distinct   int
	Steps      int
	MaxPre     int
	Violations []c04Viol
	SigCounts  map[string]int
	Sample     []string
	Hung       bool
	Millis     int64
	Traces     []c04Trace
}

func c04Explore(sc *c04Scenario, rng *verifRNG) (sum c04SchedSummary) {
	if sc.Procs > 0 {
		defer runtime.GOMAXPROCS(runtime.GOMAXPROCS(sc.Procs))
	}
	sum = c04SchedSummary{Scenario: sc.Name, K: sc.K, SigCounts: map[string]int{}}
	t0 := time.Now()
	defer func() { sum.Millis = time.Since(t0).Milliseconds() }()
	distinct := map[string]bool{}
	type prefix struct {
		choices  []int
		preempts int
	}
	levels := make([][]prefix, sc.MaxPreempt+1)
	levels[0] = []prefix{{}}
	check := func(r *c04Run, sched []int) {
		sum.Runs++
		sum.Steps += len(r.steps)
		hs := c04HistStrings(r.hist)
		key := strings.Join(hs, ";")
		if !distinct[key] {
			distinct[key] = true
			if len(sum.Sample) == 0 && len(distinct) == 3 {
				sum.Sample = hs
			}
		}
		if r.hung != "" {
			sum.SigCounts[sc.K+":hang"]++
			if sum.SigCounts[sc.K+":hang"] == 1 {
				sum.Violations = append(sum.Violations, c04Viol{Sig: sc.K + ":hang", What: r.hung, Scenario: sc.Name, Sched: sched, Hist: hs})
			}
			sum.Hung = true
			return
		}
		if len(sum.Traces) < sc.Traces && r.hung == "" && r.panicked == "" {
			tr := c04Trace{Len: r.finalLn[0]}
			for _, st := range r.steps {
				tr.Steps = append(tr.Steps, []string{fmt.Sprint(st.chosen), st.at})
			}
			for _, e := range r.hist {
				if e.Res && e.Code == 1 && e.Box == 0 {
					tr.Deqs = append(tr.Deqs, e.Out)
				}
				if e.Res && (e.Code == 1 || e.Code == 3) && e.Box == 0 {
					tr.Obs = append(tr.Obs, e.Out)
				}
			}
			sum.Traces = append(sum.Traces, tr)
		}
		if r.panicked != "" {
			sum.SigCounts[sc.K+":panic"]++
			if sum.SigCounts[sc.K+":panic"] == 1 {
				sum.Violations = append(sum.Violations, c04Viol{Sig: sc.K + ":panic", What: r.panicked, Scenario: sc.Name, Sched: sched, Hist: hs})
			}
			return
		}
		for _, v := range c04Oracle(sc, r.hist, r.paused, r.finalLn, r.finalEm, r.sent, true) {
			sum.SigCounts[v.Sig]++
			if sum.SigCounts[v.Sig] == 1 {
				v.Scenario, v.Sched, v.Hist = sc.Name, sched, hs
				sum.Violations = append(sum.Violations, v)
			}
		}
	}
	for lvl := 0; lvl <= sc.MaxPreempt && sum.Runs < sc.MaxRuns && !sum.Hung; lvl++ {
		for len(levels[lvl]) > 0 && sum.Runs < sc.MaxRuns && !sum.Hung {
			// seeded choice of the next prefix keeps long levels from exploring only early positions
			k := 0
			if lvl > 0 {
				k = rng.intn(len(levels[lvl]))
			}
			p := levels[lvl][k]
			levels[lvl][k] = levels[lvl][len(levels[lvl])-1]
			levels[lvl] = levels[lvl][:len(levels[lvl])-1]
			r := c04Execute(sc, p.choices, nil)
			sched := make([]int, len(r.steps))
			for i, s := range r.steps {
				sched[i] = s.chosen
			}
			check(r, sched)
			for i := len(p.choices); i < len(r.steps); i++ {
				st := r.steps[i]
				for _, a := range st.enabled {
					if a == st.chosen {
						continue
					}
					np := p.preempts
					if st.curEnabled {
						np++
					}
					if np > sc.MaxPreempt || len(levels[np]) > 200000 {
						continue
					}
					c := append(append([]int{}, sched[:i]...), a)
					levels[np] = append(levels[np], prefix{c, np})
				}
			}
			if lvl > sum.MaxPre {
				sum.MaxPre = lvl
			}
		}
	}
	for _, script := range sc.Scripts {
		if sum.Hung {
			break
		}
		seg, used := 0, 0
		r := c04Execute(sc, nil, func(step int, enabled []int, cur int, curEnabled bool) int {
			for seg < len(script) {
				th, n := script[seg][0], script[seg][1]
				on := false
				for _, e := range enabled {
					if e == th {
						on = true
					}
				}
				if on && (n < 0 || used < n) {
					used++
					return th
				}
				seg, used = seg+1, 0
			}
			return -1
		})
		sched := make([]int, len(r.steps))
		for i, s := range r.steps {
			sched[i] = s.chosen
		}
		check(r, sched)
	}
	for i := 0; i < sc.RandomRuns && !sum.Hung; i++ {
		r := c04Execute(sc, nil, func(step int, enabled []int, cur int, curEnabled bool) int {
			if curEnabled && rng.intn(4) != 0 {
				return cur
			}
			return enabled[rng.intn(len(enabled))]
		})
		sched := make([]int, len(r.steps))
		for i, s := range r.steps {
			sched[i] = s.chosen
		}
		check(r, sched)
	}
	sum.Distinct = len(distinct)
	return sum
}

func TestVerifC04Sched(t *testing.T) {
	scs := verifReadJSONL[c04Scenario](t, "c04_sched_in.jsonl")
	w := newVerifWriter(t, "c04_sched_out.jsonl")
	defer w.close()
	rng := newVerifRNG(verifSeed() + 404)
	for i := range scs {
		w.put(c04Explore(&scs[i], rng))
	}
}

// TestVerifC04Replay re-executes one schedule (written by a failing run) and prints its history.
func TestVerifC04Replay(t *testing.T) {
	type rp struct {
		Scenario c04Scenario
		Sched    []int
	}
	in := verifReadJSONL[rp](t, "c04_replay_in.jsonl")
	w := newVerifWriter(t, "c04_replay_out.jsonl")
	defer w.close()
	for _, x := range in {
		sc := x.Scenario
		old := runtime.GOMAXPROCS(0)
		if sc.Procs > 0 {
			runtime.GOMAXPROCS(sc.Procs)
		}
		r := c04Execute(&sc, x.Sched, nil)
		runtime.GOMAXPROCS(old)
		vs := c04Oracle(&sc, r.hist, r.paused, r.finalLn, r.finalEm, r.sent, true)
		w.put(map[string]any{"Hist": c04HistStrings(r.hist), "Violations": vs})
	}
}

// ------------------------------------------------------------------------------------------------
// real goroutines

type c04StressCfg struct {
	K         string
	C, Eff, P int
	Producers int
	PerProd   int
	Procs     int
	SameKey   bool // fair mailbox: all producers use one sender key
	Gosched   int  // 1 in n enqueues yields
}

type c04StressOut struct {
	Cfg        c04StressCfg
	Accepted   int
	Rejected   int
	Dequeued   int
	NilPolls   int
	Millis     int64
	Violations []c04Viol
}

func c04Stress(cfg c04StressCfg, seed uint64) (out c04StressOut) {
	if cfg.Procs > 0 {
		defer runtime.GOMAXPROCS(runtime.GOMAXPROCS(cfg.Procs))
	}
	start := time.Now()
	out.Cfg = cfg
	var mu sync.Mutex
	add := func(sig, what string) {
		for _, v := range out.Violations {
			if v.Sig == cfg.K+":"+sig {
				return
			}
		}
		out.Violations = append(out.Violations, c04Viol{Sig: cfg.K + ":" + sig, What: what, Scenario: fmt.Sprintf("stress %+v", cfg)})
	}
	defer func() {
		if x := recover(); x != nil {
			add("panic", fmt.Sprintf("Dequeue panicked under concurrent producers: %v", x))
		}
	}()
	mb := c04NewMailbox(cfg.K, cfg.C, cfg.P)
	total := cfg.Producers * cfg.PerProd
	accepted := make([]atomic.Bool, total) // set after Enqueue returned nil
	started := make([]atomic.Bool, total)  // set before Enqueue is called
	var nAcc, nRej, nDone atomic.Int64
	var wg sync.WaitGroup
	for p := 0; p < cfg.Producers; p++ {
		wg.Add(1)
		go func(p int) {
			defer wg.Done()
			defer func() {
				if x := recover(); x != nil {
					mu.Lock()
					add("panic", fmt.Sprintf("Enqueue panicked: %v", x))
					mu.Unlock()
					nDone.Add(1)
				}
			}()
			rng := newVerifRNG(seed*977 + uint64(p))
			sender := p
			if cfg.SameKey {
				sender = -1
			}
			for i := 0; i < cfg.PerProd; i++ {
				id := p*cfg.PerProd + i
				m := &c04Msg{ID: id, Sender: sender, Prio: int64(rng.intn(12))}
				started[id].Store(true)
				err := mb.Enqueue(c04Ctx(m))
				if err == nil {
					accepted[id].Store(true)
					nAcc.Add(1)
				} else if errors.Is(err, gerrors.ErrMailboxFull) {
					nRej.Add(1)
					runtime.Gosched()
				} else {
					nRej.Add(1)
					add("enqueue-error", "Enqueue returned "+err.Error())
				}
				if cfg.Gosched > 0 && rng.intn(cfg.Gosched) == 0 {
					runtime.Gosched()
				}
			}
			nDone.Add(1)
		}(p)
	}
	lastSeq := make([]int, cfg.Producers)
	for i := range lastSeq {
		lastSeq[i] = -1
	}
	got := make([]bool, total)
	deq := 0
	var lastKey int64
	haveLast := false
	idleSince := time.Time{}
	deadline := time.Now().Add(20 * time.Second)
	for {
		allDone := int(nDone.Load()) == cfg.Producers
		accBefore := int(nAcc.Load())
		rc := mb.Dequeue()
		m := c04Read(rc)
		if m == nil {
			out.NilPolls++
			haveLast = false
			if allDone && deq >= int(nAcc.Load()) {
				break
			}
			if allDone {
				if idleSince.IsZero() {
					idleSince = time.Now()
				} else if time.Since(idleSince) > 1500*time.Millisecond {
					add("stuck-at-quiescence:stress", fmt.Sprintf("producers finished, %d accepted, %d dequeued, Dequeue keeps returning nil (Len=%d)", nAcc.Load(), deq, mb.Len()))
					break
				}
			}
			if time.Now().After(deadline) {
				add("stress-timeout", "no progress")
				break
			}
			runtime.Gosched()
			continue
		}
		idleSince = time.Time{}
		if m.ID < 0 || m.ID >= total || !started[m.ID].Load() {
			add("invented-message", fmt.Sprintf("Dequeue returned an unknown message (id %d)", m.ID))
			continue
		}
		if got[m.ID] {
			add("duplicated", fmt.Sprintf("message id %d dequeued twice", m.ID))
		}
		got[m.ID] = true
		deq++
		p, s := m.ID/cfg.PerProd, m.ID%cfg.PerProd
		if !c04PrioKind(cfg.K) {
			if s <= lastSeq[p] {
				add("fifo-order", fmt.Sprintf("producer %d: seq %d dequeued after seq %d", p, s, lastSeq[p]))
			}
			lastSeq[p] = s
		}
		// held lower bound: enqueues that had returned before this Dequeue started, minus everything dequeued before it
		if cfg.Eff > 0 && accBefore-(deq-1) > cfg.Eff {
			add("capacity-exceeded", fmt.Sprintf("%d completed enqueues outstanding before a Dequeue with capacity %d (effective %d)", accBefore-(deq-1), cfg.C, cfg.Eff))
		}
		_ = lastKey
		_ = haveLast
	}
	// a producer that never returns (e.g. looping over a corrupted segment chain) must not hang the harness
	allBack := make(chan struct{})
	go func() { wg.Wait(); close(allBack) }()
	select {
	case <-allBack:
	case <-time.After(10 * time.Second):
		add("hang", fmt.Sprintf("%d of %d producers did not return from Enqueue", cfg.Producers-int(nDone.Load()), cfg.Producers))
		out.Accepted, out.Rejected, out.Dequeued = int(nAcc.Load()), int(nRej.Load()), deq
		out.Millis = time.Since(start).Milliseconds()
		return out
	}
	// after quiescence: whatever is left must come out, in priority order for the priority kinds
	var rest []*c04Msg
	for i := 0; i < total+4; i++ {
		m := c04Read(mb.Dequeue())
		if m == nil {
			break
		}
		rest = append(rest, m)
		if m.ID >= 0 && m.ID < total {
			if got[m.ID] {
				add("duplicated", fmt.Sprintf("message id %d dequeued twice", m.ID))
			}
			got[m.ID] = true
			deq++
		}
	}
	for id := 0; id < total; id++ {
		if accepted[id].Load() && !got[id] {
			add("lost", fmt.Sprintf("accepted message id %d was never delivered (Len=%d)", id, mb.Len()))
			break
		}
		if !accepted[id].Load() && got[id] {
			add("rejected-but-delivered", fmt.Sprintf("message id %d was refused by Enqueue but delivered", id))
			break
		}
	}
	if l := mb.Len(); l != 0 && len(out.Violations) == 0 {
		add("len-nonzero-when-empty", fmt.Sprintf("drained but Len=%d", l))
	}
	out.Accepted, out.Rejected, out.Dequeued = int(nAcc.Load()), int(nRej.Load()), deq
	out.Millis = time.Since(start).Milliseconds()
	return out
}

// c04PrioDrain: concurrent producers, then (after all returned) a sequential drain must be sorted.
func c04PrioDrain(cfg c04StressCfg, seed uint64) c04StressOut {
	if cfg.Procs > 0 {
		defer runtime.GOMAXPROCS(runtime.GOMAXPROCS(cfg.Procs))
	}
	out := c04StressOut{Cfg: cfg}
	mb := c04NewMailbox(cfg.K, cfg.C, cfg.P)
	var wg sync.WaitGroup
	var nAcc atomic.Int64
	order := make([]atomic.Int64, cfg.Producers*cfg.PerProd) // completion stamp of each accepted enqueue
	var stamp atomic.Int64
	for p := 0; p < cfg.Producers; p++ {
		wg.Add(1)
		go func(p int) {
			defer wg.Done()
			rng := newVerifRNG(seed*31 + uint64(p))
			for i := 0; i < cfg.PerProd; i++ {
				id := p*cfg.PerProd + i
				before := stamp.Add(1)
				if mb.Enqueue(c04Ctx(&c04Msg{ID: id, Sender: p, Prio: int64(rng.intn(6))})) == nil {
					nAcc.Add(1)
					order[id].Store(before<<32 | stamp.Add(1))
				}
			}
		}(p)
	}
	wg.Wait()
	var prev *c04Msg
	n := 0
	for {
		m := c04Read(mb.Dequeue())
		if m == nil {
			break
		}
		n++
		if prev != nil {
			kp, km := c04Key(cfg.P, prev.Prio), c04Key(cfg.P, m.Prio)
			if km < kp {
				out.Violations = append(out.Violations, c04Viol{Sig: cfg.K + ":priority-order", What: fmt.Sprintf("sequential drain returned key %d (id %d) after key %d (id %d)", km, m.ID, kp, prev.ID)})
				break
			}
			// stable: prev completed-after m started is fine; m completed strictly before prev started is not
			if c04StableKind(cfg.K) && km == kp && (order[m.ID].Load()&0xffffffff) < (order[prev.ID].Load()>>32) {
				out.Violations = append(out.Violations, c04Viol{Sig: cfg.K + ":stable-order", What: fmt.Sprintf("equal-priority id %d was fully enqueued before id %d started but came out after it", m.ID, prev.ID)})
				break
			}
		}
		prev = m
	}
	out.Accepted, out.Dequeued = int(nAcc.Load()), n
	if n != int(nAcc.Load()) {
		out.Violations = append(out.Violations, c04Viol{Sig: cfg.K + ":lost", What: fmt.Sprintf("%d accepted, %d delivered by the drain", nAcc.Load(), n)})
	}
	if cfg.Eff > 0 && n > cfg.Eff {
		out.Violations = append(out.Violations, c04Viol{Sig: cfg.K + ":capacity-exceeded", What: fmt.Sprintf("%d messages held with capacity %d", n, cfg.Eff)})
	}
	return out
}

func TestVerifC04Stress(t *testing.T) {
	cfgs := verifReadJSONL[c04StressCfg](t, "c04_stress_in.jsonl")
	w := newVerifWriter(t, "c04_stress_out.jsonl")
	defer w.close()
	for i, cfg := range cfgs {
		w.put(c04Stress(cfg, verifSeed()+uint64(i)))
		if c04PrioKind(cfg.K) {
			w.put(c04PrioDrain(cfg, verifSeed()+uint64(i)))
		}
	}
}

// TestVerifC04Pow2 evaluates the real nextPowerOfTwo (ring size rounding).
func TestVerifC04Pow2(t *testing.T) {
	type in struct{ N int64 }
	type out struct {
		N int64
		R uint64
	}
	ins := verifReadJSONL[in](t, "c04_pow2_in.jsonl")
	w := newVerifWriter(t, "c04_pow2_out.jsonl")
	defer w.close()
	for _, x := range ins {
		w.put(out{x.N, nextPowerOfTwo(int(x.N))})
	}
}
