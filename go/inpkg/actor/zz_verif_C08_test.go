//go:build verif

package actor

import (
	"testing"
	"time"
)

type c08In struct {
	F, I, M int64
}
type c08Out struct {
	F, I, M, R int64
}

// TestVerifC08Backoff evaluates the real backoffDelay on the inputs chosen by checks/C08.py.
func TestVerifC08Backoff(t *testing.T) {
	ins := verifReadJSONL[c08In](t, "c08_in.jsonl")
	w := newVerifWriter(t, "c08_out.jsonl")
	defer w.close()
	for _, in := range ins {
		r := backoffDelay(in.F, time.Duration(in.I), time.Duration(in.M))
		w.put(c08Out{in.F, in.I, in.M, int64(r)})
	}
}

type c08WinIn struct {
	Window, Age, Count int64 // Age: how long before "now" the previous fault happened (0: no previous fault)
}
type c08WinOut struct {
	Window, Age, Count, Last, NowLo, NowHi, Result, StoredLast int64
}

// TestVerifC08Window drives the real recordFault. time.Now cannot be substituted, so the case
// records an interval [NowLo, NowHi] containing the reading recordFault made.
func TestVerifC08Window(t *testing.T) {
	ins := verifReadJSONL[c08WinIn](t, "c08_win_in.jsonl")
	w := newVerifWriter(t, "c08_win_out.jsonl")
	defer w.close()
	for _, in := range ins {
		pid := &PID{}
		var last int64
		lo := time.Now().UnixNano()
		if in.Age > 0 {
			last = lo - in.Age
		}
		pid.lastFaultAtNano.Store(last)
		pid.consecutiveFaults.Store(in.Count)
		r := pid.recordFault(time.Duration(in.Window))
		hi := time.Now().UnixNano()
		w.put(c08WinOut{in.Window, in.Age, in.Count, last, lo, hi, r, pid.lastFaultAtNano.Load()})
	}
}
