//go:build verif

package actor

import (
	"context"
	"fmt"
	"sync"
	"testing"
	"time"
)

// ---------------------------------------------------------------- (a) dispatchState, sequentially
type c01DsIn struct {
	Init string   `json:"init"`
	Ops  []string `json:"ops"`
}
type c01DsStep struct {
	V   string `json:"v"`   // state after the op
	Out string `json:"out"` // "", "true", "false", or the loaded value
}
type c01DsOut struct {
	Init  string      `json:"init"`
	Ops   []string    `json:"ops"`
	Steps []c01DsStep `json:"steps"`
}

func c01StateName(v uint32) string {
	switch v {
	case dispatchIdle:
		return "Idle"
	case dispatchScheduled:
		return "Scheduled"
	case dispatchProcessing:
		return "Processing"
	}
	return fmt.Sprintf("invalid(%d)", v)
}
func c01StateValue(n string) uint32 {
	switch n {
	case "Idle":
		return dispatchIdle
	case "Scheduled":
		return dispatchScheduled
	default:
		return dispatchProcessing
	}
}

// TestVerifC01DispatchStateSeq runs op sequences chosen by checks/C01.py on the real dispatchState.
func TestVerifC01DispatchStateSeq(t *testing.T) {
	ins := verifReadJSONL[c01DsIn](t, "c01_ds_in.jsonl")
	w := newVerifWriter(t, "c01_ds_out.jsonl")
	defer w.close()
	if dispatchIdle == dispatchScheduled || dispatchIdle == dispatchProcessing || dispatchScheduled == dispatchProcessing {
		t.Fatalf("dispatch state constants are not distinct")
	}
	for _, in := range ins {
		var s dispatchState
		s.v.Store(c01StateValue(in.Init))
		out := c01DsOut{Init: in.Init, Ops: in.Ops}
		for _, op := range in.Ops {
			var o string
			switch op {
			case "Load":
				o = c01StateName(s.Load())
			case "TrySchedule":
				o = fmt.Sprint(s.TrySchedule())
			case "TakeForProcessing":
				o = fmt.Sprint(s.TakeForProcessing())
			case "Yield":
				s.YieldToScheduled()
			case "Reset":
				s.reset()
			default:
				t.Fatalf("unknown op %q", op)
			}
			out.Steps = append(out.Steps, c01DsStep{V: c01StateName(s.v.Load()), Out: o})
		}
		w.put(out)
	}
}

// ---------------------------------------------------------------- (d) the restart witness on real actors
type c01RestartOut struct {
	Scenario        string   `json:"scenario"`
	Completed       bool     `json:"completed"` // the scenario reached its decisive step
	Why             string   `json:"why"`
	Overlap         bool     `json:"overlap"`
	MaxConcurrent   int32    `json:"max_concurrent"`
	OverlapAt       []string `json:"overlap_at"`
	StateAfter      string   `json:"state_after_restart"`
	SecondEnteredMs int64    `json:"second_entered_after_ms"`
	HandledOnce     bool     `json:"handled_once"`
}

// TestVerifC01RestartWitness replays the Coq witness [witness_restart] through the public API:
// parent P with a child whose second PreStart blocks, so Restart(P) sits between init(P)
// (P accepts messages again) and its final schedState.reset(). A first message is accepted and
// its handler is held inside Receive; the child is released so Restart finishes (reset executed
// while a worker owns the turn); a second message is told. If its handler is entered while the
// first is still inside Receive, two handler invocations of one actor overlap.
func TestVerifC01RestartWitness(t *testing.T) {
	w := newVerifWriter(t, "c01_restart_out.jsonl")
	defer w.close()
	out := c01RestartOut{Scenario: "restart(parent) blocked in child PreStart; m1 held in handler; restart finishes; m2 told"}
	defer func() { w.put(out) }()

	ctx := context.Background()
	sys, err := vdNewSystem("c01restart")
	if err != nil {
		out.Why = "system: " + err.Error()
		return
	}
	defer sys.Stop(ctx)

	rec := newVdRecorder()
	childRestarting := make(chan struct{})
	releaseChild := make(chan struct{})
	parent, err := sys.Spawn(ctx, "parent", &vdActor{rec: rec}, WithLongLived())
	if err != nil {
		out.Why = "spawn parent: " + err.Error()
		return
	}
	childRec := newVdRecorder()
	_, err = parent.SpawnChild(ctx, "child", &vdActor{rec: childRec, preStart: func(n int) {
		if n == 2 {
			close(childRestarting)
			<-releaseChild
		}
	}}, WithLongLived())
	if err != nil {
		out.Why = "spawn child: " + err.Error()
		return
	}
	// let the PostStart messages drain
	vdWaitUntil(2*time.Second, func() bool { return parent.schedState.Load() == dispatchIdle })

	done := make(chan error, 1)
	go func() { done <- parent.Restart(ctx) }()
	if !vdWait(childRestarting, 30*time.Second) {
		close(releaseChild)
		out.Why = "child PreStart was not re-run by Restart(parent)"
		return
	}
	m1 := &vdMsg{ID: 1, Entered: make(chan struct{}), Block: make(chan struct{})}
	m2 := &vdMsg{ID: 2, Entered: make(chan struct{}), Block: make(chan struct{})}
	var once1, once2 sync.Once
	rel1 := func() { once1.Do(func() { close(m1.Block) }) }
	rel2 := func() { once2.Do(func() { close(m2.Block) }) }
	defer rel1()
	defer rel2()
	if err := Tell(ctx, parent, m1); err != nil {
		close(releaseChild)
		out.Why = "parent does not accept messages between init and the end of Restart: " + err.Error()
		out.Completed = true
		return
	}
	if !vdWait(m1.Entered, 15*time.Second) {
		close(releaseChild)
		out.Why = "m1 not handled"
		return
	}
	close(releaseChild)
	select {
	case err := <-done:
		if err != nil {
			out.Why = "restart: " + err.Error()
			return
		}
	case <-time.After(10 * time.Second):
		out.Why = "Restart did not return (it may now wait for the turn owner)"
		out.Completed = true
		return
	}
	out.StateAfter = c01StateName(parent.schedState.Load())
	if err := Tell(ctx, parent, m2); err != nil {
		out.Why = "m2 rejected: " + err.Error()
		out.Completed = true
		return
	}
	t0 := time.Now()
	entered2 := vdWait(m2.Entered, 1500*time.Millisecond)
	out.SecondEnteredMs = time.Since(t0).Milliseconds()
	out.Completed = true
	out.MaxConcurrent = rec.maxConc.Load()
	out.Overlap = entered2 && rec.overlaps.Load() > 0
	rec.mu.Lock()
	out.OverlapAt = append([]string(nil), rec.overlapAt...)
	rec.mu.Unlock()
	rel1()
	rel2()
	ok := vdWaitUntil(5*time.Second, func() bool { c, _ := rec.snapshot(); return c[1] == 1 && c[2] == 1 })
	out.HandledOnce = ok
}

// ---------------------------------------------------------------- (c) real-goroutine stress (vdRunStress in the dispatch library)
func TestVerifC01Stress(t *testing.T) {
	w := newVerifWriter(t, "c01_stress_out.jsonl")
	defer w.close()
	seed := verifSeed()
	thorough := verifEnvInt("VERIF_THOROUGH", 0) == 1
	rounds := verifEnvInt("VERIF_C01_ROUNDS", 1)
	mailboxes := []string{"unbounded", "segmented", "bounded", "nonblocking-bounded", "priority"}
	procs := []int{2, 4, 8}
	budgets := []int{1, 2, 32}
	n := 0
	for r := 0; r < rounds; r++ {
		for _, mbn := range mailboxes {
			for gi, gate := range []bool{true, false} {
				rng := newVerifRNG(seed + uint64(n)*7919)
				cfg := vdStressCfg{Mailbox: mbn, Senders: 2 + rng.intn(5), PerSender: 120, Budget: budgets[(n+gi)%len(budgets)],
					Procs: procs[n%len(procs)], Gate: gate}
				if thorough {
					cfg.PerSender = 600
				}
				w.put(vdRunStress(cfg, seed+uint64(n)))
				n++
			}
		}
		// interleaved restarts (explicit Restart calls; supervisor restart / resume after handler panics)
		for _, v := range []vdStressCfg{
			{Mailbox: "unbounded", Senders: 3, PerSender: 150, Budget: 2, Procs: 4, Gate: true, Restarts: 6},
			{Mailbox: "unbounded", Senders: 3, PerSender: 150, Budget: 32, Procs: 8, Panics: 25, Directive: "restart"},
			{Mailbox: "segmented", Senders: 3, PerSender: 150, Budget: 1, Procs: 4, Gate: true, Panics: 10, Directive: "resume"},
		} {
			w.put(vdRunStress(v, seed+uint64(n)))
			n++
		}
	}
}

func TestVerifC01Grain(t *testing.T) {
	w := newVerifWriter(t, "c01_grain_out.jsonl")
	defer w.close()
	per := 150
	if verifEnvInt("VERIF_THOROUGH", 0) == 1 {
		per = 1200
	}
	w.put(vdRunGrainStress(5, per, 1, 4, verifSeed()+31))
	w.put(vdRunGrainStress(4, per, 32, 8, verifSeed()+32))
}

// ---------------------------------------------------------------- (d) scripted preemption scenarios
func TestVerifC01Scenarios(t *testing.T) {
	w := newVerifWriter(t, "c01_scen_out.jsonl")
	defer w.close()
	mbs := []string{"unbounded", "segmented", "nonblocking-bounded"}
	if verifEnvInt("VERIF_THOROUGH", 0) != 1 {
		mbs = []string{mbs[int(verifSeed())%len(mbs)]}
		if mbs[0] != "unbounded" {
			mbs = append(mbs, "unbounded")
		}
	}
	for _, mb := range mbs {
		for _, o := range vdScenarios(mb) {
			w.put(o)
		}
	}
}

// ---------------------------------------------------------------- Restart from outside while Receive is in flight
type c01InflightOut struct {
	Scenario      string   `json:"scenario"`
	Completed     bool     `json:"completed"`
	Why           string   `json:"why"`
	Overlap       bool     `json:"overlap"`
	MaxConcurrent int32    `json:"max_concurrent"`
	OverlapAt     []string `json:"overlap_at"`
	RestartWaited bool     `json:"restart_waited_for_the_turn"`
	StateDuring   string   `json:"state_while_receive_in_flight"`
	HandledOnce   bool     `json:"handled_once"`
}

// TestVerifC01RestartInFlight: a Receive is in progress (held) when Restart is called from another goroutine.
// Restart must not let the new incarnation handle anything (PostStart, a fresh Tell) before the in-flight
// Receive has returned: its wait loop on the dispatch state is what guarantees that.
func TestVerifC01RestartInFlight(t *testing.T) {
	w := newVerifWriter(t, "c01_inflight_out.jsonl")
	defer w.close()
	out := c01InflightOut{Scenario: "Restart(pid) from outside while Receive(m1) is held; Tell m2 to the new incarnation"}
	defer func() { w.put(out) }()
	ctx := context.Background()
	sys, err := vdNewSystem("c01inflight")
	if err != nil {
		out.Why = err.Error()
		return
	}
	defer sys.Stop(ctx)
	rec := newVdRecorder()
	pid, err := sys.Spawn(ctx, "a", &vdActor{rec: rec}, WithLongLived())
	if err != nil {
		out.Why = err.Error()
		return
	}
	vdWaitUntil(5*time.Second, func() bool { return pid.schedState.Load() == dispatchIdle && rec.inHandler.Load() == 0 })
	m1 := &vdMsg{ID: 1, Entered: make(chan struct{}), Block: make(chan struct{})}
	var once sync.Once
	rel := func() { once.Do(func() { close(m1.Block) }) }
	defer rel()
	if err := Tell(ctx, pid, m1); err != nil {
		out.Why = err.Error()
		return
	}
	if !vdWait(m1.Entered, 15*time.Second) {
		out.Why = "m1 not handled"
		return
	}
	done := make(chan error, 1)
	go func() { done <- pid.Restart(ctx) }()
	// while Receive(m1) is held: keep offering a message to whatever incarnation accepts it
	m2 := &vdMsg{ID: 2}
	told := false
	deadline := time.Now().Add(700 * time.Millisecond)
	returned := false
	for time.Now().Before(deadline) && rec.overlaps.Load() == 0 {
		if !told && Tell(ctx, pid, m2) == nil {
			told = true
		}
		select {
		case <-done:
			returned = true
		default:
		}
		if returned {
			break
		}
		time.Sleep(2 * time.Millisecond)
	}
	out.Completed = true
	out.StateDuring = c01StateName(pid.schedState.Load())
	out.RestartWaited = !returned
	time.Sleep(20 * time.Millisecond)
	out.MaxConcurrent = rec.maxConc.Load()
	out.Overlap = rec.overlaps.Load() > 0
	rec.mu.Lock()
	out.OverlapAt = append([]string(nil), rec.overlapAt...)
	rec.mu.Unlock()
	rel()
	if !returned {
		select {
		case <-done:
		case <-time.After(20 * time.Second):
			out.Why = "Restart did not return after the in-flight Receive ended"
		}
	}
	if !out.Overlap {
		out.MaxConcurrent = rec.maxConc.Load()
		out.Overlap = rec.overlaps.Load() > 0
	}
	c, _ := rec.snapshot()
	out.HandledOnce = c[1] == 1 && c[2] <= 1
}

// ---------------------------------------------------------------- grain: failed deactivation mid-turn, then re-activation
type c01GrainReactOut struct {
	Scenario      string   `json:"scenario"`
	Completed     bool     `json:"completed"`
	Why           string   `json:"why"`
	Overlap       bool     `json:"overlap"`
	MaxConcurrent int32    `json:"max_concurrent"`
	OverlapAt     []string `json:"overlap_at"`
	Deactivations int32    `json:"deactivations"`
	Activations   int32    `json:"activations"`
	StateDuring   string   `json:"state_while_onreceive_in_flight"`
}

// TestVerifC01GrainReactivation: hold#0 in OnReceive; PoisonPill and hold#1 queued behind it; hold#0 returns;
// the same turn runs the pill (OnDeactivate fails: the grain process is kept, inactive) and goes on into hold#1;
// a new TellGrain re-activates the same grain process. Its OnReceive must wait for hold#1.
func TestVerifC01GrainReactivation(t *testing.T) {
	w := newVerifWriter(t, "c01_grain_react_out.jsonl")
	defer w.close()
	out := c01GrainReactOut{Scenario: "hold#0 | PoisonPill (OnDeactivate fails) | hold#1 in one turn; TellGrain re-activates during hold#1"}
	defer func() { w.put(out) }()
	ctx := context.Background()
	sys, err := vdNewSystem("c01grainreact")
	if err != nil {
		out.Why = err.Error()
		return
	}
	defer sys.Stop(ctx)
	rec := newVdRecorder()
	g := &vdGrain{rec: rec, failDeactivate: true}
	id, err := sys.GrainIdentity(ctx, "g1", func(context.Context) (Grain, error) { return g, nil }, WithLongLivedGrain())
	if err != nil {
		out.Why = err.Error()
		return
	}
	x := sys.(*actorSystem)
	tell := func(m any) { go func() { _ = sys.TellGrain(ctx, id, m) }() }
	h0 := &vdMsg{ID: 10, Entered: make(chan struct{}), Block: make(chan struct{})}
	h1 := &vdMsg{ID: 11, Entered: make(chan struct{}), Block: make(chan struct{})}
	var o0, o1 sync.Once
	defer o0.Do(func() { close(h0.Block) })
	defer o1.Do(func() { close(h1.Block) })
	tell(h0)
	if !vdWait(h0.Entered, 15*time.Second) {
		out.Why = "hold#0 not handled"
		return
	}
	pid, err := x.ensureGrainProcess(ctx, id)
	if err != nil || pid == nil {
		out.Why = "no grain process"
		return
	}
	tell(new(PoisonPill))
	if !vdWaitUntil(10*time.Second, func() bool { return pid.mailbox.Len() >= 1 }) {
		out.Why = "pill not queued"
		return
	}
	tell(h1)
	if !vdWaitUntil(10*time.Second, func() bool { return pid.mailbox.Len() >= 2 }) {
		out.Why = "hold#1 not queued"
		return
	}
	o0.Do(func() { close(h0.Block) })
	if !vdWait(h1.Entered, 15*time.Second) {
		out.Why = "the turn did not go on into hold#1 after the failed deactivation (the scenario does not apply)"
		out.Deactivations = g.deactivations.Load()
		return
	}
	out.Deactivations = g.deactivations.Load()
	before := g.activations.Load()
	p := &vdMsg{ID: 12, Entered: make(chan struct{})}
	tell(p)
	early := vdWait(p.Entered, 700*time.Millisecond)
	out.Completed = g.activations.Load() > before || early
	if !out.Completed {
		out.Why = "the grain process was not re-activated by the new message"
	}
	out.StateDuring = c01StateName(pid.schedState.Load())
	out.Activations = g.activations.Load()
	out.MaxConcurrent = rec.maxConc.Load()
	out.Overlap = early && rec.overlaps.Load() > 0
	rec.mu.Lock()
	out.OverlapAt = append([]string(nil), rec.overlapAt...)
	rec.mu.Unlock()
	o1.Do(func() { close(h1.Block) })
	vdWait(p.Entered, 10*time.Second)
}
