//go:build verif

package actor

// C19 harness.
//  TestVerifC19Book  : generated schedule/cancel/pause/resume/wait sequences on the real scheduler of a
//                      real actor system: error class of every call, ListSchedules and deliveries.
//  TestVerifC19Live  : timing-tolerant runs (one-shots, interval schedules, cancel, pause/resume).
//  TestVerifC19Claim : the real claimClusterFire / makeJobFn of several schedulers ("nodes") sharing one
//                      put-if-absent registry behind the cluster interface.

import (
	"context"
	"errors"
	"fmt"
	"sort"
	"strings"
	"sync"
	"testing"
	"time"

	"github.com/reugn/go-quartz/quartz"
	"github.com/stretchr/testify/mock"

	gerrors "github.com/tochemey/goakt/v4/errors"
	"github.com/tochemey/goakt/v4/internal/cluster"
	"github.com/tochemey/goakt/v4/log"
	mockscluster "github.com/tochemey/goakt/v4/mocks/cluster"
)

type c19Msg struct {
	Ref string
}

type c19Recv struct {
	mu   sync.Mutex
	got  map[string][]time.Time
}

func (a *c19Recv) PreStart(*Context) error { return nil }
func (a *c19Recv) PostStop(*Context) error { return nil }
func (a *c19Recv) Receive(ctx *ReceiveContext) {
	if m, ok := ctx.Message().(*c19Msg); ok {
		now := time.Now()
		a.mu.Lock()
		if a.got == nil {
			a.got = map[string][]time.Time{}
		}
		a.got[m.Ref] = append(a.got[m.Ref], now)
		a.mu.Unlock()
	}
}
func (a *c19Recv) times(ref string) []time.Time {
	a.mu.Lock()
	defer a.mu.Unlock()
	return append([]time.Time(nil), a.got[ref]...)
}

func c19Class(err error) string {
	switch {
	case err == nil:
		return "ok"
	case errors.Is(err, gerrors.ErrScheduledReferenceNotFound):
		return "notfound"
	case errors.Is(err, quartz.ErrJobAlreadyExists):
		return "exists"
	case errors.Is(err, quartz.ErrJobNotFound):
		return "jobnotfound"
	case errors.Is(err, quartz.ErrJobIsSuspended):
		return "suspended"
	case errors.Is(err, quartz.ErrJobIsActive):
		return "active"
	case errors.Is(err, quartz.ErrTriggerExpired):
		return "expired"
	}
	return "other:" + err.Error()
}

// ---------------------------------------------------------------- bookkeeping sequences

type c19Op struct {
	K string // once_short once_long every_long cancel pause resume wait
	R int
}
type c19Case struct {
	Id      int
	Refs    int
	ShortMs int
	WaitMs  int
	Ops     []c19Op
}
type c19Step struct {
	Err       string
	Listed    []int
	Delivered []int
}
type c19Result struct {
	Id    int
	Steps []c19Step
}

func TestVerifC19Book(t *testing.T) {
	cases := verifReadJSONL[c19Case](t, "c19_book_in.jsonl")
	out := newVerifWriter(t, "c19_book_out.jsonl")
	defer out.close()
	ctx := context.Background()
	sys, err := NewActorSystem("verifC19b", WithLogger(log.DiscardLogger))
	if err != nil {
		t.Fatal(err)
	}
	if err := sys.Start(ctx); err != nil {
		t.Fatal(err)
	}
	defer func() { _ = sys.Stop(ctx) }()
	time.Sleep(50 * time.Millisecond)
	results := make([]c19Result, len(cases))
	var wg sync.WaitGroup
	sem := make(chan struct{}, verifEnvInt("VERIF_C19_PAR", 10))
	for ci := range cases {
		wg.Add(1)
		sem <- struct{}{}
		go func(ci int) {
			defer wg.Done()
			defer func() { <-sem }()
			cs := &cases[ci]
			recv := &c19Recv{}
			pid, err := sys.Spawn(ctx, fmt.Sprintf("c19b%d", cs.Id), recv, WithLongLived())
			if err != nil {
				return
			}
			ref := func(r int) string { return fmt.Sprintf("c19b-%d-%d", cs.Id, r) }
			prefix := fmt.Sprintf("c19b-%d-", cs.Id)
			res := c19Result{Id: cs.Id}
			for _, op := range cs.Ops {
				st := c19Step{}
				switch op.K {
				case "once_short":
					st.Err = c19Class(sys.ScheduleOnce(ctx, &c19Msg{Ref: ref(op.R)}, pid, time.Duration(cs.ShortMs)*time.Millisecond, WithReference(ref(op.R))))
				case "once_long":
					st.Err = c19Class(sys.ScheduleOnce(ctx, &c19Msg{Ref: ref(op.R)}, pid, time.Hour, WithReference(ref(op.R))))
				case "every_long":
					st.Err = c19Class(sys.Schedule(ctx, &c19Msg{Ref: ref(op.R)}, pid, time.Hour, WithReference(ref(op.R))))
				case "cancel":
					st.Err = c19Class(sys.CancelSchedule(ref(op.R)))
				case "pause":
					st.Err = c19Class(sys.PauseSchedule(ref(op.R)))
				case "resume":
					st.Err = c19Class(sys.ResumeSchedule(ref(op.R)))
				case "wait":
					time.Sleep(time.Duration(cs.WaitMs) * time.Millisecond)
					st.Err = "ok"
				}
				for _, info := range sys.ListSchedules() {
					if strings.HasPrefix(info.Reference, prefix) {
						var r int
						fmt.Sscanf(info.Reference[len(prefix):], "%d", &r)
						st.Listed = append(st.Listed, r)
					}
				}
				sort.Ints(st.Listed)
				for r := 0; r < cs.Refs; r++ {
					st.Delivered = append(st.Delivered, len(recv.times(ref(r))))
				}
				res.Steps = append(res.Steps, st)
			}
			// leave nothing scheduled behind
			for r := 0; r < cs.Refs; r++ {
				_ = sys.CancelSchedule(ref(r))
			}
			results[ci] = res
		}(ci)
	}
	wg.Wait()
	for i := range results {
		out.put(results[i])
	}
}

// ---------------------------------------------------------------- live, timing tolerant

type c19LiveOut struct {
	Kind      string
	Ref       string
	DelayNs   int64 // delay or interval
	CallNs    int64 // just before the scheduling call, ns since base
	Recv      []int64
	Marks     map[string]int64
	Errs      map[string]string
}

func TestVerifC19Live(t *testing.T) {
	out := newVerifWriter(t, "c19_live_out.jsonl")
	defer out.close()
	ctx := context.Background()
	sys, err := NewActorSystem("verifC19l", WithLogger(log.DiscardLogger))
	if err != nil {
		t.Fatal(err)
	}
	if err := sys.Start(ctx); err != nil {
		t.Fatal(err)
	}
	defer func() { _ = sys.Stop(ctx) }()
	time.Sleep(50 * time.Millisecond)
	base := time.Now()
	since := func() int64 { return time.Since(base).Nanoseconds() }
	recv := &c19Recv{}
	pid, err := sys.Spawn(ctx, "c19live", recv, WithLongLived())
	if err != nil {
		t.Fatal(err)
	}
	rng := newVerifRNG(verifSeed())
	var mu sync.Mutex
	var outs []*c19LiveOut
	add := func(o *c19LiveOut) { mu.Lock(); outs = append(outs, o); mu.Unlock() }
	var wg sync.WaitGroup
	// one-shots
	for i := 0; i < 24; i++ {
		d := time.Duration(20+rng.intn(230)) * time.Millisecond
		o := &c19LiveOut{Kind: "once", Ref: fmt.Sprintf("c19l-once-%d", i), DelayNs: int64(d), Marks: map[string]int64{}, Errs: map[string]string{}}
		add(o)
		wg.Add(1)
		go func() {
			defer wg.Done()
			o.CallNs = since()
			o.Errs["schedule"] = c19Class(sys.ScheduleOnce(ctx, &c19Msg{Ref: o.Ref}, pid, d, WithReference(o.Ref)))
			time.Sleep(d + 1500*time.Millisecond)
		}()
	}
	// interval schedules, cancelled after a while
	for i := 0; i < 6; i++ {
		i := i
		iv := time.Duration(30+rng.intn(60)) * time.Millisecond
		o := &c19LiveOut{Kind: "every", Ref: fmt.Sprintf("c19l-every-%d", i), DelayNs: int64(iv), Marks: map[string]int64{}, Errs: map[string]string{}}
		add(o)
		wg.Add(1)
		go func() {
			defer wg.Done()
			o.CallNs = since()
			o.Errs["schedule"] = c19Class(sys.Schedule(ctx, &c19Msg{Ref: o.Ref}, pid, iv, WithReference(o.Ref)))
			if i%2 == 1 {
				// registering again under a reference that is still live is refused and must leave the live schedule alone
				time.Sleep(iv * 2)
				o.Errs["duplicate"] = c19Class(sys.Schedule(ctx, &c19Msg{Ref: o.Ref + "#dup"}, pid, iv, WithReference(o.Ref)))
				o.Errs["duplicate_once"] = c19Class(sys.ScheduleOnce(ctx, &c19Msg{Ref: o.Ref + "#dup"}, pid, iv, WithReference(o.Ref)))
			}
			time.Sleep(iv*10 + iv/2)
			o.Errs["cancel"] = c19Class(sys.CancelSchedule(o.Ref))
			o.Marks["cancel_returned"] = since()
			time.Sleep(iv*4 + 200*time.Millisecond)
			o.Errs["cancel_again"] = c19Class(sys.CancelSchedule(o.Ref))
			o.Errs["pause_cancelled"] = c19Class(sys.PauseSchedule(o.Ref))
			o.Errs["resume_cancelled"] = c19Class(sys.ResumeSchedule(o.Ref))
		}()
	}
	// interval schedules, paused and resumed
	for i := 0; i < 4; i++ {
		iv := time.Duration(30+rng.intn(40)) * time.Millisecond
		o := &c19LiveOut{Kind: "pause", Ref: fmt.Sprintf("c19l-pause-%d", i), DelayNs: int64(iv), Marks: map[string]int64{}, Errs: map[string]string{}}
		add(o)
		wg.Add(1)
		go func() {
			defer wg.Done()
			o.CallNs = since()
			o.Errs["schedule"] = c19Class(sys.Schedule(ctx, &c19Msg{Ref: o.Ref}, pid, iv, WithReference(o.Ref)))
			time.Sleep(iv*8 + iv/2)
			o.Errs["pause"] = c19Class(sys.PauseSchedule(o.Ref))
			o.Marks["pause_returned"] = since()
			time.Sleep(iv * 6)
			o.Marks["resume_called"] = since()
			o.Errs["resume"] = c19Class(sys.ResumeSchedule(o.Ref))
			o.Marks["resume_returned"] = since()
			time.Sleep(iv*8 + 300*time.Millisecond)
			o.Errs["cancel"] = c19Class(sys.CancelSchedule(o.Ref))
			o.Marks["cancel_returned"] = since()
			time.Sleep(iv*3 + 100*time.Millisecond)
		}()
	}
	// a paused and resumed one-shot (witness of C19_once_exactly_once_refuted)
	{
		d := 300 * time.Millisecond
		o := &c19LiveOut{Kind: "once_paused", Ref: "c19l-once-paused", DelayNs: int64(d), Marks: map[string]int64{}, Errs: map[string]string{}}
		add(o)
		wg.Add(1)
		go func() {
			defer wg.Done()
			o.CallNs = since()
			o.Errs["schedule"] = c19Class(sys.ScheduleOnce(ctx, &c19Msg{Ref: o.Ref}, pid, d, WithReference(o.Ref)))
			o.Errs["pause"] = c19Class(sys.PauseSchedule(o.Ref))
			time.Sleep(20 * time.Millisecond)
			o.Errs["resume"] = c19Class(sys.ResumeSchedule(o.Ref))
			o.Marks["resume_returned"] = since()
			time.Sleep(d + 600*time.Millisecond)
			o.Errs["cancel"] = c19Class(sys.CancelSchedule(o.Ref))
		}()
	}
	// unknown reference
	{
		o := &c19LiveOut{Kind: "unknown", Ref: "c19l-unknown", Marks: map[string]int64{}, Errs: map[string]string{}}
		add(o)
		o.Errs["cancel"] = c19Class(sys.CancelSchedule(o.Ref))
		o.Errs["pause"] = c19Class(sys.PauseSchedule(o.Ref))
		o.Errs["resume"] = c19Class(sys.ResumeSchedule(o.Ref))
	}
	wg.Wait()
	for _, o := range outs {
		for _, tm := range recv.times(o.Ref) {
			o.Recv = append(o.Recv, tm.Sub(base).Nanoseconds())
		}
		out.put(o)
	}
}

// ---------------------------------------------------------------- cluster tick claims

type c19Registry struct {
	mu      sync.Mutex
	entries map[string]time.Time
	calls   []string
	ttls    []int64
}

func (r *c19Registry) claim(key string, ttl time.Duration) error {
	r.mu.Lock()
	defer r.mu.Unlock()
	r.calls = append(r.calls, key)
	r.ttls = append(r.ttls, int64(ttl))
	if exp, ok := r.entries[key]; ok && time.Now().Before(exp) {
		return cluster.ErrScheduleFireClaimed
	}
	r.entries[key] = time.Now().Add(ttl)
	return nil
}

type c19ClaimOp struct {
	Node   int
	Ref    int
	RunSec int64 // run time relative to now, seconds
}
type c19ClaimCase struct {
	Id    int
	Nodes int
	Zones []int // per node: offset of the node's process-local time zone from UTC, seconds
	TTLs  int64 // seconds
	Ops   []c19ClaimOp
}
type c19ClaimResult struct {
	Id      int
	Codes   []int // 0 skipped, 1 won, 2 lost, 3 error
	Keys    []string
	TTLsNs  []int64
	RunNs   []int64
}
type c19RaceResult struct {
	Round      int
	Nodes      int
	Won        int
	Lost       int
	Errors     int
	Delivered  int
	OtherTick  int // deliveries of a second tick of the same reference raced at the same time
	DistinctKeys int
}

func c19MetaCtx(runTime int64) context.Context {
	return context.WithValue(context.Background(), quartz.JobMetadataContextKey, quartz.JobMetadata{RunTime: runTime})
}

func TestVerifC19Claim(t *testing.T) {
	cases := verifReadJSONL[c19ClaimCase](t, "c19_claim_in.jsonl")
	out := newVerifWriter(t, "c19_claim_out.jsonl")
	defer out.close()
	rout := newVerifWriter(t, "c19_race_out.jsonl")
	defer rout.close()

	// sequential claims through the real claimClusterFire
	for ci := range cases {
		cs := &cases[ci]
		reg := &c19Registry{entries: map[string]time.Time{}}
		var nodes []*scheduler
		for i := 0; i < cs.Nodes; i++ {
			cm := mockscluster.NewCluster(t)
			cm.EXPECT().ClaimScheduleFire(mock.Anything, mock.Anything, mock.Anything).RunAndReturn(
				func(_ context.Context, key string, ttl time.Duration) error { return reg.claim(key, ttl) }).Maybe()
			nodes = append(nodes, newScheduler(log.DiscardLogger, time.Second, &actorSystem{cluster: cm}))
		}
		res := c19ClaimResult{Id: cs.Id}
		now := time.Now()
		savedLocal := time.Local
		for _, op := range cs.Ops {
			// the node handling this tick runs in its own process-local time zone
			if op.Node < len(cs.Zones) {
				time.Local = time.FixedZone(fmt.Sprintf("verif%+d", cs.Zones[op.Node]), cs.Zones[op.Node])
			}
			run := now.Add(time.Duration(op.RunSec) * time.Second).UnixNano()
			claim := &scheduleFireClaim{reference: fmt.Sprintf("c19ref%d", op.Ref), ttl: time.Duration(cs.TTLs) * time.Second}
			before := len(reg.calls)
			won, err := nodes[op.Node].claimClusterFire(c19MetaCtx(run), claim)
			code := 2
			switch {
			case err != nil:
				code = 3
			case won:
				code = 1
			case len(reg.calls) == before:
				code = 0
			}
			res.Codes = append(res.Codes, code)
			res.RunNs = append(res.RunNs, run)
		}
		time.Local = savedLocal
		res.Keys = reg.calls
		res.TTLsNs = reg.ttls
		out.put(res)
	}

	// races through the real job function: n nodes fire the same tick at the same time; the message
	// must reach the target exactly once
	ctx := context.Background()
	sysI, err := NewActorSystem("verifC19c", WithLogger(log.DiscardLogger))
	if err != nil {
		t.Fatal(err)
	}
	if err := sysI.Start(ctx); err != nil {
		t.Fatal(err)
	}
	defer func() { _ = sysI.Stop(ctx) }()
	time.Sleep(50 * time.Millisecond)
	recv := &c19Recv{}
	pid, err := sysI.Spawn(ctx, "c19claimrecv", recv, WithLongLived())
	if err != nil {
		t.Fatal(err)
	}
	rounds := verifEnvInt("VERIF_C19_ROUNDS", 40)
	for round := 0; round < rounds; round++ {
		n := 2 + round%7
		reg := &c19Registry{entries: map[string]time.Time{}}
		ref := fmt.Sprintf("c19race%d", round)
		claim := &scheduleFireClaim{reference: ref, ttl: time.Minute}
		run := time.Now().Add(-time.Duration(round%3) * time.Second).UnixNano()
		run2 := run + int64(time.Second)
		var fns []func(context.Context) (bool, error)
		for i := 0; i < n; i++ {
			cm := mockscluster.NewCluster(t)
			cm.EXPECT().ClaimScheduleFire(mock.Anything, mock.Anything, mock.Anything).RunAndReturn(
				func(_ context.Context, key string, ttl time.Duration) error { return reg.claim(key, ttl) }).Maybe()
			node := &actorSystem{cluster: cm, noSender: sysI.NoSender()}
			sched := newScheduler(log.DiscardLogger, time.Second, node)
			fns = append(fns, sched.makeJobFn(pid, &c19Msg{Ref: ref}, newScheduleConfig(WithReference(ref)), claim))
			fns = append(fns, sched.makeJobFn(pid, &c19Msg{Ref: ref + "#2"}, newScheduleConfig(WithReference(ref)), claim))
		}
		var wg sync.WaitGroup
		start := make(chan struct{})
		var mu sync.Mutex
		res := c19RaceResult{Round: round, Nodes: n}
		for i, fn := range fns {
			wg.Add(1)
			go func(i int, fn func(context.Context) (bool, error)) {
				defer wg.Done()
				<-start
				rt := run
				if i%2 == 1 {
					rt = run2
				}
				_, err := fn(c19MetaCtx(rt))
				mu.Lock()
				if err != nil {
					res.Errors++
				}
				mu.Unlock()
			}(i, fn)
		}
		close(start)
		wg.Wait()
		time.Sleep(30 * time.Millisecond)
		res.Delivered = len(recv.times(ref))
		res.OtherTick = len(recv.times(ref + "#2"))
		keys := map[string]bool{}
		for _, k := range reg.calls {
			keys[k] = true
		}
		res.DistinctKeys = len(keys)
		rout.put(res)
	}
}

// ---------------------------------------------------------------- concurrent operations on one reference

type c19RaceRef struct {
	Ref             string
	Rounds          int
	Orphaned        bool   // a round ended with a live quartz job whose reference the scheduler no longer knows
	OrphanRound     int
	CancelAfter     string // result of CancelSchedule right after that round
	DeliveredAfter  int    // deliveries received later than 30 ms after that CancelSchedule returned (interval 10 ms, 200 ms window)
	FinalCancel     string
	FinalCancel2    string
	FinalDelivered  int // deliveries received later than 30 ms after the last CancelSchedule returned
	FinalJobPresent bool
}

// TestVerifC19Race: CancelSchedule(R) and Schedule(R) are issued at the same time from two goroutines,
// over and over. Whatever the order in which they take effect, a CancelSchedule issued afterwards
// must find the schedule (or find nothing at all) and the ticks must stop.
func TestVerifC19Race(t *testing.T) {
	out := newVerifWriter(t, "c19_oprace_out.jsonl")
	defer out.close()
	ctx := context.Background()
	sysI, err := NewActorSystem("verifC19r", WithLogger(log.DiscardLogger))
	if err != nil {
		t.Fatal(err)
	}
	if err := sysI.Start(ctx); err != nil {
		t.Fatal(err)
	}
	defer func() { _ = sysI.Stop(ctx) }()
	time.Sleep(50 * time.Millisecond)
	sched := sysI.(*actorSystem).scheduler
	recv := &c19Recv{}
	pid, err := sysI.Spawn(ctx, "c19racerecv", recv, WithLongLived())
	if err != nil {
		t.Fatal(err)
	}
	budget := time.Duration(verifEnvInt("VERIF_C19_RACE_MS", 2500)) * time.Millisecond
	nrefs := 6
	results := make([]c19RaceRef, nrefs)
	var wg sync.WaitGroup
	const iv = 10 * time.Millisecond
	deliveredAfter := func(ref string, t0 time.Time) int {
		n := 0
		for _, tm := range recv.times(ref) {
			if tm.After(t0.Add(30 * time.Millisecond)) {
				n++
			}
		}
		return n
	}
	for ri := 0; ri < nrefs; ri++ {
		wg.Add(1)
		go func(ri int) {
			defer wg.Done()
			ref := fmt.Sprintf("c19oprace%d", ri)
			res := c19RaceRef{Ref: ref}
			key := quartz.NewJobKey(ref)
			live := func() (jobPresent, known bool) {
				_, err := sched.quartzScheduler.GetScheduledJob(key)
				_, known = sched.scheduledKeys.Get(ref)
				return err == nil, known
			}
			_ = sysI.Schedule(ctx, &c19Msg{Ref: ref}, pid, iv, WithReference(ref))
			deadline := time.Now().Add(budget)
			for time.Now().Before(deadline) && !res.Orphaned {
				res.Rounds++
				start := make(chan struct{})
				var w2 sync.WaitGroup
				w2.Add(2)
				go func() { defer w2.Done(); <-start; _ = sysI.CancelSchedule(ref) }()
				go func() {
					defer w2.Done()
					<-start
					_ = sysI.Schedule(ctx, &c19Msg{Ref: ref}, pid, iv, WithReference(ref))
				}()
				close(start)
				w2.Wait()
				job, known := live()
				if job && !known {
					// found by looking inside; shown through the public API
					res.Orphaned, res.OrphanRound = true, res.Rounds
					res.CancelAfter = c19Class(sysI.CancelSchedule(ref))
					t0 := time.Now()
					time.Sleep(200 * time.Millisecond)
					res.DeliveredAfter = deliveredAfter(ref, t0)
					// repair so that the final phase starts from a known reference
					_ = sysI.Schedule(ctx, &c19Msg{Ref: ref}, pid, iv, WithReference(ref))
				}
				if !job {
					_ = sysI.Schedule(ctx, &c19Msg{Ref: ref}, pid, iv, WithReference(ref))
				}
			}
			res.FinalCancel = c19Class(sysI.CancelSchedule(ref))
			res.FinalCancel2 = c19Class(sysI.CancelSchedule(ref))
			t0 := time.Now()
			time.Sleep(200 * time.Millisecond)
			res.FinalDelivered = deliveredAfter(ref, t0)
			res.FinalJobPresent, _ = live()
			results[ri] = res
		}(ri)
	}
	wg.Wait()
	for i := range results {
		out.put(results[i])
	}
}
