//go:build verif

package actor

// C42/C43 harness: the REAL producerController and consumerController structs, each hosted by a shell
// actor on a real ActorSystem, are driven step by step through their real Receive by this goroutine,
// which also plays the faulty network between them (drop / duplicate / reorder / delay), the timers
// and both endpoints. After every step the outgoing traffic (captured by recorder actors standing in
// for the peers) and the observable controller fields are written in the canonical integer encoding
// of coq/theories/C42/Model.v (enc_obs), so the Coq model can be evaluated on the same schedule.

import (
	"context"
	"fmt"
	"strconv"
	"strings"
	"sync"
	"testing"
	"time"

	gerrors "github.com/tochemey/goakt/v4/errors"
	"github.com/tochemey/goakt/v4/internal/commands"
	"github.com/tochemey/goakt/v4/log"
	"github.com/tochemey/goakt/v4/test/data/testpb"
)

// ---------------------------------------------------------------- stand-ins

type rdBarrier struct{ ch chan struct{} }

// rdRecorder stands in for a peer: it records everything it is told, in mailbox order.
type rdRecorder struct {
	mu   sync.Mutex
	msgs []any
}

func (x *rdRecorder) PreStart(*Context) error { return nil }
func (x *rdRecorder) PostStop(*Context) error { return nil }
func (x *rdRecorder) Receive(ctx *ReceiveContext) {
	switch m := ctx.Message().(type) {
	case *PostStart:
	case *rdBarrier:
		close(m.ch)
	default:
		x.mu.Lock()
		x.msgs = append(x.msgs, m)
		x.mu.Unlock()
	}
}
func (x *rdRecorder) take() []any {
	x.mu.Lock()
	defer x.mu.Unlock()
	out := x.msgs
	x.msgs = nil
	return out
}

// rdShell hosts a real controller: lifecycle hooks and PostStart run on the controller exactly as the
// runtime would run them; every later mailbox message (timer ticks, real Terminated notices) is parked
// so that the harness goroutine is the only caller of the controller's Receive.
type rdShell struct {
	inner   Actor
	started chan struct{}
	once    sync.Once
	mu      sync.Mutex
	stray   []any
}

func (x *rdShell) PreStart(c *Context) error { return x.inner.PreStart(c) }
func (x *rdShell) PostStop(c *Context) error { return x.inner.PostStop(c) }
func (x *rdShell) Receive(ctx *ReceiveContext) {
	switch m := ctx.Message().(type) {
	case *PostStart:
		x.inner.Receive(ctx)
		x.once.Do(func() { close(x.started) })
	default:
		x.mu.Lock()
		x.stray = append(x.stray, m)
		x.mu.Unlock()
	}
}
func (x *rdShell) takeStray() []any {
	x.mu.Lock()
	defer x.mu.Unlock()
	out := x.stray
	x.stray = nil
	return out
}

func rdFlush(ctx context.Context, pids ...*PID) {
	for _, p := range pids {
		if p == nil || !p.IsRunning() {
			continue
		}
		b := &rdBarrier{ch: make(chan struct{})}
		if err := Tell(ctx, p, b); err != nil {
			continue
		}
		select {
		case <-b.ch:
		case <-time.After(10 * time.Second):
		}
	}
}

// ---------------------------------------------------------------- an in-memory durable producer queue

// rdMemQueue is a linearizable in-memory DurableProducerQueue following the interface contract: epoch
// fencing, first-write-wins by MessageID, contiguous sequence assignment, cumulative confirmation.
type rdMemQueue struct {
	mu           sync.Mutex
	epoch        QueueEpoch
	currentSeq   int64
	confirmedSeq int64
	stored       []UnconfirmedMessage
	accepted     map[string]bool
	log          []string
}

func (x *rdMemQueue) ID() string                     { return "rdMemQueue" }
func (x *rdMemQueue) MarshalBinary() ([]byte, error) { return []byte(x.ID()), nil }
func (x *rdMemQueue) UnmarshalBinary([]byte) error   { return nil }

func (x *rdMemQueue) Load(context.Context) (DurableQueueState, QueueEpoch, error) {
	x.mu.Lock()
	defer x.mu.Unlock()
	x.epoch++
	var un []UnconfirmedMessage
	for _, m := range x.stored {
		if m.Seq() > x.confirmedSeq {
			un = append(un, m)
		}
	}
	st, err := NewDurableQueueState(x.currentSeq, x.confirmedSeq, un)
	return st, x.epoch, err
}

func (x *rdMemQueue) Store(_ context.Context, epoch QueueEpoch, request StoreRequest) (StoreResult, error) {
	x.mu.Lock()
	defer x.mu.Unlock()
	if epoch != x.epoch {
		return StoreResult{}, gerrors.ErrQueueFenced
	}
	for _, m := range x.stored {
		if m.MessageID() == request.MessageID() {
			return NewStoreResult(m.Seq(), true, m.Payload())
		}
	}
	if request.ProposedSeq() != x.currentSeq+1 {
		return StoreResult{}, gerrors.ErrQueueConflict
	}
	m, err := NewUnconfirmedMessage(request.MessageID(), request.ProposedSeq(), request.Payload())
	if err != nil {
		return StoreResult{}, err
	}
	x.currentSeq++
	x.stored = append(x.stored, m)
	x.log = append(x.log, fmt.Sprintf("store %s %d", request.MessageID(), m.Seq()))
	return NewStoreResult(m.Seq(), false, m.Payload())
}

func (x *rdMemQueue) StoreChunked(context.Context, QueueEpoch, []StoreRequest) ([]StoreResult, error) {
	return nil, gerrors.ErrQueueConflict
}

func (x *rdMemQueue) Accept(_ context.Context, epoch QueueEpoch, messageID string) error {
	x.mu.Lock()
	defer x.mu.Unlock()
	if epoch != x.epoch {
		return gerrors.ErrQueueFenced
	}
	if x.accepted == nil {
		x.accepted = map[string]bool{}
	}
	x.accepted[messageID] = true
	return nil
}

func (x *rdMemQueue) Confirm(_ context.Context, epoch QueueEpoch, upToSeq int64) error {
	x.mu.Lock()
	defer x.mu.Unlock()
	if epoch != x.epoch {
		return gerrors.ErrQueueFenced
	}
	if upToSeq > x.currentSeq {
		return gerrors.ErrQueueConflict
	}
	if upToSeq > x.confirmedSeq {
		x.confirmedSeq = upToSeq
	}
	return nil
}

// ---------------------------------------------------------------- identifier numbering

// rdIDs maps the strings of the implementation to the integers of the model. Real uuids are numbered
// by first appearance (1,2,3,...), which is the order in which the model's counters issue them.
type rdIDs struct {
	sess     string
	nonceNum map[string]int64
	nonceStr map[int64]string
	tokNum   map[string]int64
	tokStr   map[int64]string
}

func newRdIDs() *rdIDs {
	return &rdIDs{nonceNum: map[string]int64{}, nonceStr: map[int64]string{}, tokNum: map[string]int64{}, tokStr: map[int64]string{}}
}
func rdParse(prefix, s string) (int64, bool) {
	if strings.HasPrefix(s, prefix) {
		if n, err := strconv.ParseInt(s[len(prefix):], 10, 64); err == nil {
			return n, true
		}
	}
	return 0, false
}
func (x *rdIDs) sessN(s string) int64 {
	if s == "" {
		return 0
	}
	if s == x.sess {
		return 1
	}
	if n, ok := rdParse("sess-", s); ok {
		return n
	}
	return 999999
}
func (x *rdIDs) sessS(n int64) string {
	switch n {
	case 0:
		return ""
	case 1:
		return x.sess
	}
	return "sess-" + strconv.FormatInt(n, 10)
}
func (x *rdIDs) nonceN(s string) int64 {
	if s == "" {
		return 0
	}
	if n, ok := x.nonceNum[s]; ok {
		return n
	}
	if n, ok := rdParse("nonce-", s); ok {
		return n
	}
	n := int64(len(x.nonceNum) + 1)
	x.nonceNum[s] = n
	x.nonceStr[n] = s
	return n
}
func (x *rdIDs) nonceS(n int64) string {
	if n == 0 {
		return ""
	}
	if s, ok := x.nonceStr[n]; ok {
		return s
	}
	return "nonce-" + strconv.FormatInt(n, 10)
}
func (x *rdIDs) tokN(s string) int64 {
	if s == "" {
		return 0
	}
	if n, ok := x.tokNum[s]; ok {
		return n
	}
	if n, ok := rdParse("tok-", s); ok {
		return n
	}
	n := int64(len(x.tokNum) + 1)
	x.tokNum[s] = n
	x.tokStr[n] = s
	return n
}
func (x *rdIDs) tokS(n int64) string {
	if n == 0 {
		return ""
	}
	if s, ok := x.tokStr[n]; ok {
		return s
	}
	return "tok-" + strconv.FormatInt(n, 10)
}
func rdMidN(s string) int64 {
	if s == "" {
		return 0
	}
	if n, ok := rdParse("m-", s); ok {
		return n
	}
	return 999999
}
func rdMidS(n int64) string {
	if n == 0 {
		return ""
	}
	return "m-" + strconv.FormatInt(n, 10)
}
func rdB(b bool) int64 {
	if b {
		return 1
	}
	return 0
}

// ---------------------------------------------------------------- the world of one case

type rdOp struct {
	Op   string `json:"op"`
	I    int    `json:"i,omitempty"`
	G    bool   `json:"g,omitempty"`
	S    int64  `json:"s,omitempty"`
	T    int64  `json:"t,omitempty"`
	M    int64  `json:"m,omitempty"`
	Q    int64  `json:"q,omitempty"`
	N    int64  `json:"n,omitempty"`
	C    int64  `json:"c,omitempty"`
	U    int64  `json:"u,omitempty"`
	V    bool   `json:"v,omitempty"`
	Auth bool   `json:"auth,omitempty"`
	Kind string `json:"kind,omitempty"` // Raw ops: Register Request Ack Produced StoredAck Tick RegAck SeqMsg Confirmed
}

type rdCase struct {
	ID         string    `json:"id"`
	Mode       string    `json:"mode"`
	Window     int       `json:"window"`
	Notify     bool      `json:"notify"`
	Chunk      int       `json:"chunk"`           // maxChunkBytes of the producer flow (0: chunking disabled)
	Durable    bool      `json:"durable"`         // the producer flow runs on a durable queue (asynchronous store/accept/confirm lane)
	QueueConf  int64     `json:"queue_confirmed"` // the queue's persisted confirmation watermark at the end
	QueueSeq   int64     `json:"queue_seq"`
	Ops        []rdOp    `json:"ops"`
	Obs        [][]int64 `json:"obs"` // Obs[0]: initial observation; Obs[k]: after Ops[k-1]
	PayloadBad int       `json:"payload_bad"`
	Chunked    int       `json:"chunked_seen"`
	Drained    int       `json:"drained"` // -1: no drain phase, 0: something left unconfirmed, 1: everything confirmed
	Failed     bool      `json:"failed"`
	Runaway    bool      `json:"runaway"` // the loss-free fair tail did not become quiescent within the step budget
	Error      string    `json:"error,omitempty"`
}

// rdMaxOps bounds one case: a fair tail that keeps generating traffic is cut and reported.
const rdMaxOps = 2500

type rdWorld struct {
	ctx    context.Context
	sys    *actorSystem
	ids    *rdIDs
	window int
	chunk  int

	prodRec, consRec, pcsRec, ccsRec, strangerRec *rdRecorder
	prod, cons, pcs, ccs, stranger                *PID

	pc           *producerController
	cc           *consumerController
	pcSh, ccSh   *rdShell
	pcPID, ccPID *PID

	netPC, netCC []any // everything ever sent towards the producer / consumer controller
	newProd      []any // told to the producer endpoint in the last step
	newCons      []any // told to the consumer endpoint in the last step

	payloadBad, chunked int

	queue   *rdMemQueue
	results []any // completed durable operations not yet delivered to the controller
}

func rdSpawn(ctx context.Context, sys *actorSystem, name string, a Actor, opts ...SpawnOption) (*PID, error) {
	return sys.Spawn(ctx, name, a, opts...)
}

// rdContent is the payload produced for message number mid: with chunking enabled its size varies so that
// messages need one to four chunks.
func rdContent(mid int64, chunk int) string {
	if chunk <= 0 {
		return rdMidS(mid)
	}
	return rdMidS(mid) + strings.Repeat(string(rune('a'+mid%26)), int(mid%4)*chunk*3/4)
}

func newRdWorld(ctx context.Context, sys *actorSystem, tag string, window int, notify bool, chunk int, durable bool) (*rdWorld, error) {
	w := &rdWorld{ctx: ctx, sys: sys, ids: newRdIDs(), window: window, chunk: chunk,
		prodRec: &rdRecorder{}, consRec: &rdRecorder{}, pcsRec: &rdRecorder{}, ccsRec: &rdRecorder{}, strangerRec: &rdRecorder{}}
	var err error
	if w.prod, err = rdSpawn(ctx, sys, "vprod-"+tag, w.prodRec); err != nil {
		return nil, err
	}
	if w.cons, err = rdSpawn(ctx, sys, "vcons-"+tag, w.consRec); err != nil {
		return nil, err
	}
	if w.stranger, err = rdSpawn(ctx, sys, "vstranger-"+tag, w.strangerRec); err != nil {
		return nil, err
	}
	specP, err := newReliableCompanionSpec(ReliableControllerRoleProducer, w.prod.Name(), w.prod.IncarnationID())
	if err != nil {
		return nil, err
	}
	if w.pcs, err = rdSpawn(ctx, sys, reliableCompanionName(ReliableControllerRoleProducer, w.prod.IncarnationID()), w.pcsRec, asSystem(), asReliableCompanion(specP)); err != nil {
		return nil, err
	}
	specC, err := newReliableCompanionSpec(ReliableControllerRoleConsumer, w.cons.Name(), w.cons.IncarnationID())
	if err != nil {
		return nil, err
	}
	if w.ccs, err = rdSpawn(ctx, sys, reliableCompanionName(ReliableControllerRoleConsumer, w.cons.IncarnationID()), w.ccsRec, asSystem(), asReliableCompanion(specC)); err != nil {
		return nil, err
	}
	pconf := &reliableProducerConfig{consumerName: w.cons.Name(), retryInterval: time.Hour, deliveryConfirmation: notify, maxChunkBytes: uint32(chunk),
		queueRetry: &reliableQueueRetryConfig{maxAttempts: 1, initialBackoff: time.Millisecond}}
	if durable {
		w.queue = &rdMemQueue{}
		w.pc = newProducerController(w.prod, pconf, w.queue)
	} else {
		w.pc = newProducerController(w.prod, pconf, nil)
	}
	w.pcSh = &rdShell{inner: w.pc, started: make(chan struct{})}
	if w.pcPID, err = rdSpawn(ctx, sys, "vpc-"+tag, w.pcSh); err != nil {
		return nil, err
	}
	cconf := &reliableConsumerConfig{producerName: w.prod.Name(), flowControlWindow: window, resendInterval: time.Hour}
	w.cc = newConsumerController(w.cons, cconf)
	w.ccSh = &rdShell{inner: w.cc, started: make(chan struct{})}
	if w.ccPID, err = rdSpawn(ctx, sys, "vcc-"+tag, w.ccSh); err != nil {
		return nil, err
	}
	for _, ch := range []chan struct{}{w.pcSh.started, w.ccSh.started} {
		select {
		case <-ch:
		case <-time.After(10 * time.Second):
			return nil, fmt.Errorf("controller PostStart not processed")
		}
	}
	w.ids.sess = w.pc.sessionID
	return w, nil
}

func (w *rdWorld) close() {
	for _, p := range []*PID{w.pcPID, w.ccPID, w.pcs, w.ccs, w.prod, w.cons, w.stranger} {
		if p != nil && p.IsRunning() {
			_ = p.Shutdown(w.ctx)
		}
	}
}

// ---------------------------------------------------------------- encoding (mirror of enc_* in Model.v)

func (w *rdWorld) encMsg(m any) []int64 {
	ids := w.ids
	switch x := m.(type) {
	case *commands.RegistrationAck:
		return []int64{1, ids.sessN(x.SessionID()), x.NextSeq(), ids.nonceN(x.Nonce())}
	case *commands.SequencedMessage:
		if x.Chunked() {
			w.chunked++
		}
		return []int64{2, ids.sessN(x.SessionID()), rdMidN(x.MessageID()), x.Seq()}
	case *RequestNext:
		return []int64{3, ids.sessN(x.SessionID()), ids.tokN(x.Token())}
	case *Stored:
		return []int64{4, ids.sessN(x.SessionID()), ids.tokN(x.Token()), rdMidN(x.MessageID()), x.Seq()}
	case *DeliveryConfirmed:
		return []int64{5, ids.sessN(x.SessionID()), rdMidN(x.MessageID()), x.Seq()}
	case *commands.RegisterConsumer:
		return []int64{11, ids.nonceN(x.Nonce())}
	case *commands.Request:
		return []int64{12, ids.sessN(x.SessionID()), ids.nonceN(x.RegistrationNonce()), x.ConfirmedSeq(), x.RequestUpToSeq(), rdB(x.ViaTimeout())}
	case *commands.Ack:
		return []int64{13, ids.sessN(x.SessionID()), ids.nonceN(x.RegistrationNonce()), x.ConfirmedSeq()}
	case *Delivery:
		if r, ok := x.Payload().(*testpb.Reply); !ok || r.GetContent() != rdContent(rdMidN(x.MessageID()), w.chunk) {
			w.payloadBad++
		}
		return []int64{14, ids.sessN(x.SessionID()), rdMidN(x.MessageID()), x.Seq()}
	}
	return []int64{99}
}

func (w *rdWorld) encMsgs(ms []any) []int64 {
	var out []int64
	for _, m := range ms {
		out = append(out, w.encMsg(m)...)
	}
	return out
}

func (w *rdWorld) encP() []int64 {
	x, ids := w.pc, w.ids
	out := []int64{200, x.currentSeq, x.confirmedSeq, int64(len(x.unconfirmed))}
	for _, u := range x.unconfirmed {
		out = append(out, rdMidN(u.id()), u.Seq())
	}
	return append(out, rdB(x.consumerController != nil), ids.nonceN(x.registrationNonce), x.demandUpTo, x.windowSpan,
		int64(x.handshake), ids.tokN(x.token), rdMidN(x.pendingMessageID), x.pendingSeq, rdB(x.storedMessage != nil),
		ids.tokN(x.lastCompletedToken), rdMidN(x.lastCompletedMessageID), rdB(x.failed))
}

func (w *rdWorld) encC() []int64 {
	x, ids := w.cc, w.ids
	out := []int64{210, rdB(x.producerController != nil), ids.sessN(x.sessionID), ids.nonceN(x.registrationNonce),
		x.expectedSeq, x.confirmedSeq, x.requestUpToSeq, int64(len(x.buffer))}
	for _, b := range x.buffer {
		out = append(out, rdMidN(b.MessageID()), b.Seq())
	}
	if x.inFlight != nil {
		out = append(out, 1, rdMidN(x.inFlight.MessageID()), x.inFlight.Seq())
	} else {
		out = append(out, 0, 0, 0)
	}
	return append(out, rdB(x.sawValidTraffic), rdB(x.failed))
}

// observe collects what the last step sent, per recipient, and the state of both controllers.
// collectResults waits for the single durable operation in flight (if any) to complete and parks its result.
func (w *rdWorld) collectResults() {
	if w.queue == nil {
		return
	}
	deadline := time.Now().Add(5 * time.Second)
	for {
		for _, m := range w.pcSh.takeStray() {
			if r, ok := m.(*queueOpResult); ok {
				w.results = append(w.results, r)
			}
		}
		if !w.pc.opInFlight || len(w.results) > 0 || !w.pcPID.IsRunning() || time.Now().After(deadline) {
			return
		}
		time.Sleep(50 * time.Microsecond)
	}
}

func (w *rdWorld) observe(pShut, cShut bool) []int64 {
	w.collectResults()
	rdFlush(w.ctx, w.ccs, w.prod, w.pcs, w.cons)
	toCC, toProd, toPC, toCons := w.ccsRec.take(), w.prodRec.take(), w.pcsRec.take(), w.consRec.take()
	w.netCC = append(w.netCC, toCC...)
	w.netPC = append(w.netPC, toPC...)
	w.newProd, w.newCons = toProd, toCons
	out := []int64{100}
	out = append(out, w.encMsgs(toCC)...)
	out = append(out, 101)
	out = append(out, w.encMsgs(toProd)...)
	out = append(out, 102, rdB(pShut), 110)
	out = append(out, w.encMsgs(toPC)...)
	out = append(out, 111)
	out = append(out, w.encMsgs(toCons)...)
	out = append(out, 112, rdB(cShut))
	out = append(out, w.encP()...)
	return append(out, w.encC()...)
}

func (w *rdWorld) stepPC(sender *PID, msg any) []int64 {
	was := w.pcPID.IsRunning()
	w.pc.Receive(&ReceiveContext{ctx: w.ctx, message: msg, sender: sender, self: w.pcPID})
	return w.observe(was && !w.pcPID.IsRunning(), false)
}

func (w *rdWorld) stepCC(sender *PID, msg any, gapok bool) []int64 {
	was := w.ccPID.IsRunning()
	if gapok {
		w.cc.lastGapRequest = time.Time{}
	} else {
		w.cc.lastGapRequest = time.Now()
	}
	w.cc.Receive(&ReceiveContext{ctx: w.ctx, message: msg, sender: sender, self: w.ccPID})
	return w.observe(false, was && !w.ccPID.IsRunning())
}

func (w *rdWorld) who(auth bool, p *PID) *PID {
	if auth {
		return p
	}
	return w.stranger
}

// apply executes one schedule op on the real controllers and returns the observation.
func (w *rdWorld) apply(o rdOp) ([]int64, error) {
	ids := w.ids
	payload := func(mid int64) any { return &testpb.Reply{Content: rdContent(mid, w.chunk)} }
	switch o.Op {
	case "DeliverPC":
		if o.I >= len(w.netPC) {
			return w.observe(false, false), nil
		}
		return w.stepPC(w.ccs, w.netPC[o.I]), nil
	case "DeliverCC":
		if o.I >= len(w.netCC) {
			return w.observe(false, false), nil
		}
		return w.stepCC(w.pcs, w.netCC[o.I], o.G), nil
	case "QueueResult":
		if len(w.results) == 0 {
			return w.observe(false, false), nil
		}
		r := w.results[0]
		w.results = w.results[1:]
		return w.stepPC(w.pcPID, r), nil
	case "TermCC":
		// the watched consumer controller is reported dead; its replacement registers afresh on its next tick
		return w.stepPC(w.sys.NoSender(), NewTerminated(w.ccs.Path())), nil
	case "TickPC":
		return w.stepPC(w.pcPID, &producerControllerTick{generation: w.pc.generation}), nil
	case "TickCC":
		return w.stepCC(w.ccPID, &consumerControllerTick{generation: w.cc.generation}, o.G), nil
	case "Produced":
		return w.stepPC(w.prod, &Produced{sessionID: ids.sessS(o.S), token: ids.tokS(o.T), messageID: rdMidS(o.M), payload: payload(o.M)}), nil
	case "StoredAck":
		return w.stepPC(w.prod, &StoredAck{sessionID: ids.sessS(o.S), token: ids.tokS(o.T), messageID: rdMidS(o.M)}), nil
	case "Confirmed":
		return w.stepCC(w.cons, &Confirmed{sessionID: ids.sessS(o.S), messageID: rdMidS(o.M), seq: o.Q}, true), nil
	case "RawPC":
		switch o.Kind {
		case "Register":
			m, err := commands.NewRegisterConsumer(ids.nonceS(o.N))
			if err != nil {
				return nil, err
			}
			return w.stepPC(w.who(o.Auth, w.ccs), m), nil
		case "Request":
			m, err := commands.NewRequest(ids.sessS(o.S), ids.nonceS(o.N), o.C, o.U, o.V)
			if err != nil {
				return nil, err
			}
			return w.stepPC(w.who(o.Auth, w.ccs), m), nil
		case "Ack":
			m, err := commands.NewAck(ids.sessS(o.S), ids.nonceS(o.N), o.C)
			if err != nil {
				return nil, err
			}
			return w.stepPC(w.who(o.Auth, w.ccs), m), nil
		case "Produced":
			return w.stepPC(w.who(o.Auth, w.prod), &Produced{sessionID: ids.sessS(o.S), token: ids.tokS(o.T), messageID: rdMidS(o.M), payload: payload(o.M)}), nil
		case "StoredAck":
			return w.stepPC(w.who(o.Auth, w.prod), &StoredAck{sessionID: ids.sessS(o.S), token: ids.tokS(o.T), messageID: rdMidS(o.M)}), nil
		case "Tick":
			return w.stepPC(w.pcPID, &producerControllerTick{generation: w.pc.generation + 7}), nil
		}
	case "RawCC":
		switch o.Kind {
		case "RegAck":
			m, err := commands.NewRegistrationAck(ids.sessS(o.S), o.Q, ids.nonceS(o.N))
			if err != nil {
				return nil, err
			}
			return w.stepCC(w.who(o.Auth, w.pcs), m, o.G), nil
		case "SeqMsg":
			frame, err := w.sys.getRemoting().Serializer(payload(o.M)).Serialize(payload(o.M))
			if err != nil {
				return nil, err
			}
			m, err := commands.NewSequencedMessage(ids.sessS(o.S), rdMidS(o.M), o.Q, frame)
			if err != nil {
				return nil, err
			}
			return w.stepCC(w.who(o.Auth, w.pcs), m, o.G), nil
		case "Confirmed":
			return w.stepCC(w.who(o.Auth, w.cons), &Confirmed{sessionID: ids.sessS(o.S), messageID: rdMidS(o.M), seq: o.Q}, true), nil
		case "Tick":
			return w.stepCC(w.ccPID, &consumerControllerTick{generation: w.cc.generation + 7}, o.G), nil
		}
	}
	return nil, fmt.Errorf("unknown op %+v", o)
}

// ---------------------------------------------------------------- online schedule generation

type rdMode struct {
	name                                                           string
	wDelPC, wDelCC, wDropPC, wDropCC, wOldPC, wOldCC               int
	wTickPC, wTickCC, wProd, wCons, wStaleConf, wRaw, wBadEndpoint int
	dupKeep, reorder                                               int // percent
	gapok                                                          int // percent of steps whose gap-request clock oracle says "allowed"
}

var rdModes = map[string]rdMode{
	"smooth":      {name: "smooth", wDelPC: 40, wDelCC: 40, wOldPC: 1, wOldCC: 1, wTickPC: 2, wTickCC: 2, wProd: 30, wCons: 30, dupKeep: 2, reorder: 3, gapok: 80},
	"lossy":       {name: "lossy", wDelPC: 26, wDelCC: 26, wDropPC: 7, wDropCC: 9, wOldPC: 6, wOldCC: 8, wTickPC: 6, wTickCC: 12, wProd: 22, wCons: 20, wStaleConf: 3, dupKeep: 25, reorder: 40, gapok: 50},
	"slowcons":    {name: "slowcons", wDelPC: 30, wDelCC: 40, wDropCC: 4, wOldCC: 6, wTickPC: 3, wTickCC: 5, wProd: 35, wCons: 5, dupKeep: 10, reorder: 50, gapok: 50},
	"badendpoint": {name: "badendpoint", wDelPC: 26, wDelCC: 26, wDropPC: 5, wDropCC: 6, wOldPC: 4, wOldCC: 6, wTickPC: 6, wTickCC: 10, wProd: 22, wCons: 20, wStaleConf: 3, wBadEndpoint: 1, dupKeep: 20, reorder: 30, gapok: 50},
	"hostile":     {name: "hostile", wDelPC: 24, wDelCC: 24, wDropPC: 5, wDropCC: 5, wOldPC: 5, wOldCC: 5, wTickPC: 6, wTickCC: 8, wProd: 20, wCons: 18, wStaleConf: 4, wRaw: 9, wBadEndpoint: 2, dupKeep: 20, reorder: 30, gapok: 50},
}

type rdSched struct {
	w              *rdWorld
	r              *verifRNG
	m              rdMode
	pendPC, pendCC []int
	seenPC, seenCC int // how much of the nets has been put in the pending lists
	prodInbox      []any
	consInbox      []*Delivery
	answered       map[string]int64 // token -> message number handed over
	nextJob        int64
	delivered      []*Delivery
	c              *rdCase
	producing      bool
}

func (s *rdSched) sync() {
	for ; s.seenPC < len(s.w.netPC); s.seenPC++ {
		s.pendPC = append(s.pendPC, s.seenPC)
	}
	for ; s.seenCC < len(s.w.netCC); s.seenCC++ {
		s.pendCC = append(s.pendCC, s.seenCC)
	}
	s.prodInbox = append(s.prodInbox, s.w.newProd...)
	for _, m := range s.w.newCons {
		if d, ok := m.(*Delivery); ok {
			s.consInbox = append(s.consInbox, d)
			s.delivered = append(s.delivered, d)
		}
	}
	s.w.newProd, s.w.newCons = nil, nil
}

// do applies the op, records it with its observation; false when the case must stop.
func (s *rdSched) do(o rdOp) bool {
	if len(s.c.Ops) >= rdMaxOps {
		s.c.Runaway = true
		return false
	}
	obs, err := s.w.apply(o)
	if err != nil {
		s.c.Error = err.Error()
		return false
	}
	s.c.Ops = append(s.c.Ops, o)
	s.c.Obs = append(s.c.Obs, obs)
	s.sync()
	if s.w.pc.failed || s.w.cc.failed || !s.w.pcPID.IsRunning() || !s.w.ccPID.IsRunning() {
		s.c.Failed = true
		return false
	}
	return true
}

func (s *rdSched) gap() bool { return s.r.intn(100) < s.m.gapok }

func (s *rdSched) pick(pend *[]int) (int, bool) {
	p := *pend
	k := 0
	if len(p) > 1 && s.r.intn(100) < s.m.reorder {
		k = s.r.intn(len(p))
	}
	idx := p[k]
	if s.r.intn(100) >= s.m.dupKeep {
		*pend = append(append([]int{}, p[:k]...), p[k+1:]...)
	}
	return idx, true
}

// producerHandle lets the producer endpoint process its oldest unread message the way a contract-abiding
// endpoint does: the same token is always answered with the same message.
func (s *rdSched) producerHandle() (rdOp, bool) {
	for len(s.prodInbox) > 0 {
		m := s.prodInbox[0]
		s.prodInbox = s.prodInbox[1:]
		switch x := m.(type) {
		case *RequestNext:
			job, ok := s.answered[x.Token()]
			if !ok {
				if !s.producing {
					continue
				}
				s.nextJob++
				job = s.nextJob
				s.answered[x.Token()] = job
			}
			return rdOp{Op: "Produced", S: s.w.ids.sessN(x.SessionID()), T: s.w.ids.tokN(x.Token()), M: job}, true
		case *Stored:
			return rdOp{Op: "StoredAck", S: s.w.ids.sessN(x.SessionID()), T: s.w.ids.tokN(x.Token()), M: rdMidN(x.MessageID())}, true
		}
	}
	return rdOp{}, false
}

func (s *rdSched) consumerHandle() (rdOp, bool) {
	if len(s.consInbox) == 0 {
		return rdOp{}, false
	}
	d := s.consInbox[0]
	s.consInbox = s.consInbox[1:]
	return rdOp{Op: "Confirmed", S: s.w.ids.sessN(d.SessionID()), M: rdMidN(d.MessageID()), Q: d.Seq()}, true
}

func (s *rdSched) rawOp() rdOp {
	r, w := s.r, s.w
	small := func() int64 { return int64(r.intn(6)) }
	sess := int64(1)
	if r.intn(5) == 0 {
		sess = 7
	}
	nonceP := w.ids.nonceN(w.pc.registrationNonce)
	if r.intn(4) == 0 || nonceP == 0 {
		nonceP = 100000 + small()
	}
	nonceC := w.ids.nonceN(w.cc.registrationNonce)
	if r.intn(4) == 0 || nonceC == 0 {
		nonceC = 100000 + small()
	}
	auth := r.intn(5) != 0
	switch r.intn(10) {
	case 0:
		return rdOp{Op: "RawPC", Kind: "Register", Auth: auth, N: 100000 + small()}
	case 1:
		c := w.pc.confirmedSeq + small() - 1
		if c < 0 {
			c = 0
		}
		u := c + int64(r.intn(w.window+3))
		if r.intn(6) == 0 {
			u = c + 10001
		}
		return rdOp{Op: "RawPC", Kind: "Request", Auth: auth, S: sess, N: nonceP, C: c, U: u, V: r.intn(2) == 0}
	case 2:
		c := w.pc.confirmedSeq + small() - 1
		if c < 0 {
			c = 0
		}
		return rdOp{Op: "RawPC", Kind: "Ack", Auth: auth, S: sess, N: nonceP, C: c}
	case 3:
		return rdOp{Op: "RawPC", Kind: "Produced", Auth: false, S: 1, T: w.ids.tokN(w.pc.token), M: 900 + small()}
	case 4:
		return rdOp{Op: "RawPC", Kind: "StoredAck", Auth: false, S: 1, T: w.ids.tokN(w.pc.token), M: rdMidN(w.pc.pendingMessageID)}
	case 5:
		return rdOp{Op: "RawPC", Kind: "Tick"}
	case 6:
		return rdOp{Op: "RawCC", Kind: "RegAck", Auth: auth, G: s.gap(), S: sess, Q: 1 + small(), N: nonceC}
	case 7:
		q := w.cc.expectedSeq + small() - 2
		if q < 1 {
			q = 1
		}
		return rdOp{Op: "RawCC", Kind: "SeqMsg", Auth: auth, G: s.gap(), S: sess, M: 800 + q, Q: q}
	case 8:
		d := rdOp{Op: "RawCC", Kind: "Confirmed", Auth: false, S: 1}
		if w.cc.inFlight != nil {
			d.M, d.Q = rdMidN(w.cc.inFlight.MessageID()), w.cc.inFlight.Seq()
		}
		return d
	}
	return rdOp{Op: "RawCC", Kind: "Tick", G: s.gap()}
}

// next draws the next op of the random phase.
func (s *rdSched) next() rdOp {
	m, r := s.m, s.r
	type cand struct {
		w int
		f func() (rdOp, bool)
	}
	cands := []cand{
		{m.wTickPC, func() (rdOp, bool) { return rdOp{Op: "TickPC"}, true }},
		{m.wTickCC, func() (rdOp, bool) { return rdOp{Op: "TickCC", G: s.gap()}, true }},
		{m.wProd, s.producerHandle},
		{m.wCons, s.consumerHandle},
		{m.wRaw, func() (rdOp, bool) { return s.rawOp(), true }},
	}
	if len(s.w.results) > 0 {
		cands = append(cands, cand{30, func() (rdOp, bool) { return rdOp{Op: "QueueResult"}, true }})
	}
	if s.w.chunk > 0 || s.w.queue != nil {
		// consumer-controller death and replacement, as the producer controller sees it: a Terminated notice, then
		// the (replacement) consumer controller registers under a fresh nonce on its next silent tick
		cands = append(cands, cand{3, func() (rdOp, bool) { return rdOp{Op: "TermCC"}, true }})
	}
	if len(s.pendPC) > 0 {
		cands = append(cands, cand{m.wDelPC, func() (rdOp, bool) {
			if len(s.pendPC) == 0 {
				return rdOp{}, false
			}
			i, _ := s.pick(&s.pendPC)
			return rdOp{Op: "DeliverPC", I: i}, true
		}})
		cands = append(cands, cand{m.wDropPC, func() (rdOp, bool) {
			if len(s.pendPC) > 0 {
				s.pendPC = s.pendPC[1:]
			}
			return rdOp{}, false
		}})
	}
	if len(s.pendCC) > 0 {
		cands = append(cands, cand{m.wDelCC, func() (rdOp, bool) {
			if len(s.pendCC) == 0 {
				return rdOp{}, false
			}
			i, _ := s.pick(&s.pendCC)
			return rdOp{Op: "DeliverCC", I: i, G: s.gap()}, true
		}})
		cands = append(cands, cand{m.wDropCC, func() (rdOp, bool) {
			if len(s.pendCC) > 0 {
				s.pendCC = s.pendCC[1:]
			}
			return rdOp{}, false
		}})
	}
	if len(s.w.netPC) > 0 {
		cands = append(cands, cand{m.wOldPC, func() (rdOp, bool) { return rdOp{Op: "DeliverPC", I: r.intn(len(s.w.netPC) + 1)}, true }})
	}
	if len(s.w.netCC) > 0 {
		cands = append(cands, cand{m.wOldCC, func() (rdOp, bool) { return rdOp{Op: "DeliverCC", I: r.intn(len(s.w.netCC) + 1), G: s.gap()}, true }})
	}
	if len(s.delivered) > 0 {
		cands = append(cands, cand{m.wStaleConf, func() (rdOp, bool) {
			d := s.delivered[r.intn(len(s.delivered))]
			return rdOp{Op: "Confirmed", S: s.w.ids.sessN(d.SessionID()), M: rdMidN(d.MessageID()), Q: d.Seq()}, true
		}})
	}
	cands = append(cands, cand{m.wBadEndpoint, func() (rdOp, bool) {
		// a producer endpoint that breaks the contract (wrong token / wrong message for the open token)
		switch r.intn(3) {
		case 0:
			return rdOp{Op: "Produced", S: 1, T: s.w.ids.tokN(s.w.pc.token), M: 700 + int64(r.intn(3))}, true
		case 1:
			return rdOp{Op: "Produced", S: 1, T: 100000, M: 701}, true
		}
		return rdOp{Op: "StoredAck", S: 1, T: s.w.ids.tokN(s.w.pc.token), M: 702}, true
	}})
	for tries := 0; tries < 50; tries++ {
		total := 0
		for _, c := range cands {
			total += c.w
		}
		x := r.intn(total)
		for _, c := range cands {
			if x < c.w {
				if o, ok := c.f(); ok {
					return o
				}
				break
			}
			x -= c.w
		}
	}
	return rdOp{Op: "TickCC", G: true}
}

// drain is the loss-free, fair tail of a case: every pending message is delivered in order, both
// endpoints answer everything (no new submissions), both timers fire. It backs the "eventually
// confirmed" clause with an observation on the implementation.
func (s *rdSched) drain(maxRounds int) bool {
	s.producing = false
	for round := 0; round < maxRounds; round++ {
		for guard := 0; guard < 400; guard++ {
			progressed := false
			for len(s.w.results) > 0 {
				if !s.do(rdOp{Op: "QueueResult"}) {
					return false
				}
				progressed = true
			}
			for len(s.pendPC) > 0 {
				i := s.pendPC[0]
				s.pendPC = s.pendPC[1:]
				if !s.do(rdOp{Op: "DeliverPC", I: i}) {
					return false
				}
				progressed = true
			}
			for len(s.pendCC) > 0 {
				i := s.pendCC[0]
				s.pendCC = s.pendCC[1:]
				if !s.do(rdOp{Op: "DeliverCC", I: i, G: true}) {
					return false
				}
				progressed = true
			}
			for {
				o, ok := s.producerHandle()
				if !ok {
					break
				}
				if !s.do(o) {
					return false
				}
				progressed = true
			}
			for {
				o, ok := s.consumerHandle()
				if !ok {
					break
				}
				if !s.do(o) {
					return false
				}
				progressed = true
			}
			if !progressed {
				break
			}
		}
		if round >= 2 && s.w.pc.confirmedSeq == s.w.pc.currentSeq {
			return true
		}
		if !s.do(rdOp{Op: "TickPC"}) || !s.do(rdOp{Op: "TickCC", G: true}) {
			return false
		}
	}
	return s.w.pc.confirmedSeq == s.w.pc.currentSeq
}

func rdRunCase(ctx context.Context, sys *actorSystem, id, mode string, window int, notify bool, chunk int, durable bool, steps int, seed uint64, scripted []rdOp) *rdCase {
	c := &rdCase{ID: id, Mode: mode, Window: window, Notify: notify, Chunk: chunk, Durable: durable, Drained: -1}
	w, err := newRdWorld(ctx, sys, id, window, notify, chunk, durable)
	if err != nil {
		c.Error = "setup: " + err.Error()
		return c
	}
	defer w.close()
	s := &rdSched{w: w, r: newVerifRNG(seed), m: rdModes[mode], answered: map[string]int64{}, c: c, producing: true}
	c.Obs = append(c.Obs, w.observe(false, false))
	s.sync()
	alive := true
	if scripted != nil {
		for _, o := range scripted {
			if alive = s.do(o); !alive {
				break
			}
		}
	} else {
		for k := 0; k < steps && alive; k++ {
			alive = s.do(s.next())
		}
		if alive && mode != "hostile" {
			if s.drain(14) {
				c.Drained = 1
			} else if !c.Failed && c.Error == "" {
				c.Drained = 0 // includes a runaway tail
			}
		}
	}
	c.PayloadBad, c.Chunked = w.payloadBad, w.chunked
	if w.queue != nil {
		w.queue.mu.Lock()
		c.QueueConf, c.QueueSeq = w.queue.confirmedSeq, w.queue.currentSeq
		w.queue.mu.Unlock()
	}
	return c
}

func rdSystem(t *testing.T) (context.Context, *actorSystem) {
	ctx := context.Background()
	system, err := NewActorSystem("verifRD", WithLogger(log.DiscardLogger))
	if err != nil {
		t.Fatalf("actor system: %v", err)
	}
	if err := system.Start(ctx); err != nil {
		t.Fatalf("actor system start: %v", err)
	}
	t.Cleanup(func() { _ = system.Stop(context.WithoutCancel(ctx)) })
	return ctx, system.(*actorSystem)
}

type rdPlan struct {
	ID      string `json:"id"`
	Mode    string `json:"mode"`
	Window  int    `json:"window"`
	Notify  bool   `json:"notify"`
	Chunk   int    `json:"chunk,omitempty"`
	Durable bool   `json:"durable,omitempty"`
	Steps   int    `json:"steps"`
	Seed    uint64 `json:"seed"`
	Ops     []rdOp `json:"ops,omitempty"` // scripted case (corpus / replay): executed verbatim
}

func rdRunPlans(t *testing.T, inName, outName string) {
	plans := verifReadJSONL[rdPlan](t, inName)
	out := newVerifWriter(t, outName)
	defer out.close()
	ctx, sys := rdSystem(t)
	for _, p := range plans {
		out.put(rdRunCase(ctx, sys, p.ID, p.Mode, p.Window, p.Notify, p.Chunk, p.Durable, p.Steps, p.Seed, p.Ops))
	}
}

// TestVerifC42 runs the case plans written by checks/C42.py.
func TestVerifC42(t *testing.T) { rdRunPlans(t, "c42_plans.jsonl", "c42_cases.jsonl") }
