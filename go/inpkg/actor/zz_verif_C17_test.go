//go:build verif

package actor

// C17 harness: populations of instrumented user actors (a tree below the user guardian) and grains
// on a REAL actor system, traffic in flight, then ActorSystem.Stop. Every lifecycle event carries
// a timestamp from one atomic counter. checks/C17.py compares the observation after every driver
// action with the Coq model and runs the property's own oracle on the events.

import (
	"context"
	"fmt"
	"sort"
	"sync"
	"sync/atomic"
	"testing"
	"time"

	"github.com/tochemey/goakt/v4/log"
)

type c17Event struct {
	Seq  int64  `json:"seq"`
	Who  string `json:"who"`  // a<i> actor, g<i> grain, driver
	Kind string `json:"kind"` // pre postB postE recvB recvE act deact + driver marks
	Err  string `json:"err,omitempty"`
}

type c17World struct {
	mu     sync.Mutex
	seq    atomic.Int64
	events []c17Event
	n, k   int
	pids   []*PID
	idents []*GrainIdentity
	nPost  []atomic.Int32
	nPre   []atomic.Int32
	nAct   []atomic.Int32
	nDeact []atomic.Int32
	inRecv []atomic.Int32
	gate   []chan struct{} // handler gate per actor
	preG   []chan struct{} // PreStart gate per actor (gated spawns)
	preGOn []bool
	preBeg []chan struct{}
	spDone []chan error
	postG  []chan struct{} // PostStop gate per actor (nil: not gated)
	deactG []chan struct{} // OnDeactivate gate per grain (nil: not gated)
	deactB []chan struct{} // OnDeactivate began
}

func (w *c17World) log(who, kind string, err error) {
	e := c17Event{Seq: w.seq.Add(1), Who: who, Kind: kind}
	if err != nil {
		e.Err = err.Error()
	}
	w.mu.Lock()
	w.events = append(w.events, e)
	w.mu.Unlock()
}

type c17Hold struct{}
type c17Plain struct{}

type c17Actor struct {
	id int
	w  *c17World
}

func (a *c17Actor) who() string { return fmt.Sprintf("a%d", a.id) }
func (a *c17Actor) PreStart(*Context) error {
	if a.w.preGOn[a.id] {
		select {
		case a.w.preBeg[a.id] <- struct{}{}:
		default:
		}
		<-a.w.preG[a.id]
	}
	a.w.nPre[a.id].Add(1)
	a.w.log(a.who(), "pre", nil)
	return nil
}
func (a *c17Actor) Receive(ctx *ReceiveContext) {
	switch ctx.Message().(type) {
	case *c17Hold:
		a.w.inRecv[a.id].Add(1)
		a.w.log(a.who(), "recvB", nil)
		<-a.w.gate[a.id]
		a.w.log(a.who(), "recvE", nil)
		a.w.inRecv[a.id].Add(-1)
	case *c17Plain:
		a.w.log(a.who(), "recvB", nil)
		a.w.log(a.who(), "recvE", nil)
	}
}
func (a *c17Actor) PostStop(*Context) error {
	a.w.log(a.who(), "postB", nil)
	if g := a.w.postG[a.id]; g != nil {
		<-g
	}
	a.w.nPost[a.id].Add(1)
	a.w.log(a.who(), "postE", nil)
	return nil
}

type c17Grain struct {
	id int
	w  *c17World
}

func (g *c17Grain) who() string { return fmt.Sprintf("g%d", g.id) }
func (g *c17Grain) OnActivate(context.Context, *GrainProps) error {
	g.w.nAct[g.id].Add(1)
	g.w.log(g.who(), "act", nil)
	return nil
}
func (g *c17Grain) OnReceive(ctx *GrainContext) {
	g.w.log(g.who(), "grecv", nil)
	ctx.NoErr()
}
func (g *c17Grain) OnDeactivate(context.Context, *GrainProps) error {
	g.w.log(g.who(), "deactB", nil)
	if gate := g.w.deactG[g.id]; gate != nil {
		select {
		case g.w.deactB[g.id] <- struct{}{}:
		default:
		}
		<-gate
	} else if g.id%2 == 1 {
		// odd grains are slow to deactivate: Stop has to wait for them
		time.Sleep(25 * time.Millisecond)
	}
	g.w.nDeact[g.id].Add(1)
	g.w.log(g.who(), "deact", nil)
	return nil
}

type c17Scenario struct {
	N       int       `json:"n"`
	K       int       `json:"k"`
	Gated   []int     `json:"gated"`
	PassG   []int     `json:"pass_grains"`
	Actions [][]any   `json:"actions"`
	Expect  [][][]int `json:"expect"`
}

type c17Step struct {
	F       int     `json:"f"`
	O       [][]int `json:"o"`
	Timeout bool    `json:"timeout"`
}

type c17Out struct {
	Steps  []c17Step  `json:"steps"`
	Events []c17Event `json:"events"`
	Note   string     `json:"note,omitempty"`
}

func c17I(v any) int {
	f, _ := v.(float64)
	return int(f)
}

func c17RunScenario(t *testing.T, idx int, sc c17Scenario) c17Out {
	ctx := context.Background()
	sys, err := NewActorSystem(fmt.Sprintf("verifC17s%d", idx), WithLogger(log.DiscardLogger))
	if err != nil {
		t.Fatal(err)
	}
	if err := sys.Start(ctx); err != nil {
		t.Fatal(err)
	}
	n, k := sc.N, sc.K
	w := &c17World{n: n, k: k, pids: make([]*PID, n), idents: make([]*GrainIdentity, k),
		nPost: make([]atomic.Int32, n), nPre: make([]atomic.Int32, n), nAct: make([]atomic.Int32, k), nDeact: make([]atomic.Int32, k),
		inRecv: make([]atomic.Int32, n), gate: make([]chan struct{}, n), preG: make([]chan struct{}, n), preGOn: make([]bool, n),
		preBeg: make([]chan struct{}, n), spDone: make([]chan error, n), postG: make([]chan struct{}, n),
		deactG: make([]chan struct{}, k), deactB: make([]chan struct{}, k)}
	for _, a := range sc.Gated {
		w.postG[a] = make(chan struct{})
	}
	for _, g := range sc.PassG {
		w.deactG[g] = make(chan struct{})
		w.deactB[g] = make(chan struct{}, 4)
	}
	released := make([]bool, n)
	stopDone := make(chan struct{})
	stopIssued := false
	for i := 0; i < n; i++ {
		w.gate[i] = make(chan struct{})
		w.preG[i] = make(chan struct{})
		w.preBeg[i] = make(chan struct{}, 1)
		w.spDone[i] = make(chan error, 1)
	}
	stopped := false
	phase := 0
	active := make([]bool, k)
	observe := func() [][]int {
		out := [][]int{}
		b := func(x bool) int {
			if x {
				return 1
			}
			return 0
		}
		for a := 1; a < n; a++ {
			w.mu.Lock()
			p := w.pids[a]
			w.mu.Unlock()
			run := false
			if p != nil {
				run = p.IsRunning()
			}
			out = append(out, []int{int(w.nPost[a].Load()), b(run)})
		}
		for g := 0; g < k; g++ {
			act := w.nAct[g].Load() > w.nDeact[g].Load()
			out = append(out, []int{int(w.nAct[g].Load()), int(w.nDeact[g].Load()), b(act)})
		}
		if stopIssued {
			select {
			case <-stopDone:
				phase = 3
				stopped = true
			default:
				phase = 1
			}
		}
		out = append(out, []int{phase})
		return out
	}
	spawn := func(p, c int) (*PID, error) {
		actor := &c17Actor{id: c, w: w}
		name := fmt.Sprintf("a%d", c)
		if p == 0 {
			return sys.Spawn(ctx, name, actor, WithLongLived())
		}
		w.mu.Lock()
		pp := w.pids[p]
		w.mu.Unlock()
		if pp == nil {
			return nil, fmt.Errorf("parent not spawned")
		}
		return pp.SpawnChild(ctx, name, actor, WithLongLived())
	}
	out := c17Out{}
	for ai, act := range sc.Actions {
		kind, _ := act[0].(string)
		flag := 0
		switch kind {
		case "kill":
			a := c17I(act[1])
			w.mu.Lock()
			p := w.pids[a]
			w.mu.Unlock()
			if a == 0 {
				flag = 1
			} else if p != nil {
				w.log(fmt.Sprintf("a%d", a), "killcall", nil)
				go func() {
					err := p.Shutdown(ctx)
					w.log(fmt.Sprintf("a%d", a), "killret", err)
				}()
			}
		case "release_post":
			a := c17I(act[1])
			if w.postG[a] == nil || released[a] || w.nPost[a].Load() > 0 {
				flag = 1
			} else {
				// only legal when the actor sits in its PostStop (the generator knows)
				released[a] = true
				close(w.postG[a])
			}
		case "backlog":
			a := c17I(act[1])
			cnt := c17I(act[2])
			w.mu.Lock()
			p := w.pids[a]
			w.mu.Unlock()
			for i := 0; i < cnt; i++ {
				if p == nil {
					flag = 1
				} else if err := Tell(ctx, p, &c17Plain{}); err != nil {
					flag = 1
				}
			}
		case "spawn":
			p, c := c17I(act[1]), c17I(act[2])
			w.log(fmt.Sprintf("a%d", c), "spawncall", nil)
			pid, err := spawn(p, c)
			w.log(fmt.Sprintf("a%d", c), "spawnret", err)
			if err != nil {
				flag = 1
			} else {
				w.mu.Lock()
				w.pids[c] = pid
				w.mu.Unlock()
			}
		case "spawn_gated":
			p, c := c17I(act[1]), c17I(act[2])
			w.preGOn[c] = true
			w.log(fmt.Sprintf("a%d", c), "spawncall", nil)
			early := make(chan error, 1)
			go func() {
				pid, err := spawn(p, c)
				w.log(fmt.Sprintf("a%d", c), "spawnret", err)
				if err == nil {
					w.mu.Lock()
					w.pids[c] = pid
					w.mu.Unlock()
				}
				early <- err
				w.spDone[c] <- err
			}()
			select {
			case <-w.preBeg[c]:
			case err := <-early:
				if err != nil {
					flag = 1
				}
			case <-time.After(2 * time.Second):
				flag = 7
			}
		case "spawn_release":
			c := c17I(act[1])
			close(w.preG[c])
			select {
			case <-w.spDone[c]:
			case <-time.After(2 * time.Second):
				flag = 7
			}
		case "activate":
			g := c17I(act[1])
			gopts := []GrainOption{}
			if w.deactG[g] != nil {
				gopts = append(gopts, WithGrainDeactivateAfter(30*time.Millisecond))
			}
			id, err := sys.GrainIdentity(ctx, fmt.Sprintf("g%d", g), func(context.Context) (Grain, error) { return &c17Grain{id: g, w: w}, nil }, gopts...)
			if err != nil || active[g] {
				if err != nil {
					flag = 1
				} else {
					flag = 1 // already active: the model refuses a second activation; nothing happened here either
				}
			} else {
				w.idents[g] = id
				active[g] = true
			}
		case "grain_pill":
			g := c17I(act[1])
			if w.idents[g] == nil || !active[g] || stopped {
				flag = 1
				if w.idents[g] != nil && stopped {
					_ = sys.TellGrain(ctx, w.idents[g], &PoisonPill{})
				}
			} else {
				before := w.nDeact[g].Load()
				if err := sys.TellGrain(ctx, w.idents[g], &PoisonPill{}); err != nil {
					flag = 1
				} else {
					c06WaitForC17(func() bool { return w.nDeact[g].Load() > before }, 5*time.Second)
					active[g] = false
				}
			}
		case "grain_pill2":
			// two PoisonPills delivered back to back (the way poisonAllGrains delivers one): the grain's
			// own receive path, so a deactivated grain is not re-activated by the second one
			g := c17I(act[1])
			if w.idents[g] == nil || !active[g] || stopped {
				flag = 1
			} else if gp, ok := sys.(*actorSystem).getGrains().Get(w.idents[g].String()); !ok {
				flag = 1
			} else {
				before := w.nDeact[g].Load()
				for i := 0; i < 2; i++ {
					gctx := getGrainContext()
					gctx.build(ctx, gp, sys, gp.getIdentity(), new(PoisonPill), grainTell)
					gp.receive(gctx)
				}
				c06WaitForC17(func() bool { return w.nDeact[g].Load() > before }, 5*time.Second)
				time.Sleep(5 * time.Millisecond)
				active[g] = false
			}
		case "tell", "tell_hold":
			a := c17I(act[1])
			w.mu.Lock()
			p := w.pids[a]
			w.mu.Unlock()
			var msg any = &c17Plain{}
			if kind == "tell_hold" {
				msg = &c17Hold{}
			}
			if p == nil {
				flag = 1
			} else if err := Tell(ctx, p, msg); err != nil {
				flag = 1
			} else {
				if stopped {
					// accepted by Tell after Stop returned: did anything run?
					flag = 0
				}
				if kind == "tell_hold" {
					c06WaitForC17(func() bool { return w.inRecv[a].Load() > 0 }, 5*time.Second)
				} else {
					time.Sleep(2 * time.Millisecond)
				}
			}
		case "stop":
			if stopIssued {
				select {
				case <-stopDone:
					if err := sys.Stop(ctx); err != nil {
						flag = 1
					}
				default:
					flag = 1
				}
				break
			}
			// a grain whose passivation-driven OnDeactivate is held: Stop is called while it executes
			holding := []int{}
			for _, g := range sc.PassG {
				if active[g] {
					select {
					case <-w.deactB[g]:
						holding = append(holding, g)
					case <-time.After(3 * time.Second):
					}
				}
			}
			stopIssued = true
			w.log("driver", "stop_begin", nil)
			go func() {
				err := sys.Stop(ctx)
				w.log("driver", "stop_end", err)
				close(stopDone)
			}()
			if len(holding) > 0 {
				time.Sleep(60 * time.Millisecond)
				for _, g := range holding {
					close(w.deactG[g])
				}
			}
			for g := range active {
				active[g] = false
			}
		}
		// wait for quiescence: the expected observation, stable, or a timeout
		var obs [][]int
		timeout := false
		deadline := time.Now().Add(4 * time.Second)
		for {
			obs = observe()
			if ai < len(sc.Expect) && c17ObsEq(obs, sc.Expect[ai]) {
				time.Sleep(2 * time.Millisecond)
				if c17ObsEq(observe(), obs) {
					break
				}
				continue
			}
			if time.Now().After(deadline) {
				timeout = true
				break
			}
			time.Sleep(300 * time.Microsecond)
		}
		out.Steps = append(out.Steps, c17Step{F: flag, O: obs, Timeout: timeout})
	}
	// let every held handler and gated PreStart go, then make sure the system is down
	w.log("driver", "release_all", nil)
	for i := 0; i < n; i++ {
		if w.postG[i] != nil && !released[i] {
			released[i] = true
			close(w.postG[i])
		}
		close(w.gate[i])
		if w.preGOn[i] {
			select {
			case <-w.preG[i]:
			default:
				close(w.preG[i])
			}
		}
	}
	for g := 0; g < k; g++ {
		if w.deactG[g] != nil {
			select {
			case <-w.deactG[g]:
			default:
				close(w.deactG[g])
			}
		}
	}
	time.Sleep(40 * time.Millisecond)
	if stopIssued {
		select {
		case <-stopDone:
		case <-time.After(5 * time.Second):
		}
	} else {
		_ = sys.Stop(ctx)
	}
	w.log("driver", "end", nil)
	w.mu.Lock()
	out.Events = append(out.Events, w.events...)
	w.mu.Unlock()
	sort.Slice(out.Events, func(i, j int) bool { return out.Events[i].Seq < out.Events[j].Seq })
	return out
}

func c06WaitForC17(cond func() bool, d time.Duration) bool {
	deadline := time.Now().Add(d)
	for time.Now().Before(deadline) {
		if cond() {
			return true
		}
		time.Sleep(200 * time.Microsecond)
	}
	return cond()
}

func TestVerifC17Stop(t *testing.T) {
	scs := verifReadJSONL[c17Scenario](t, "c17_in.jsonl")
	w := newVerifWriter(t, "c17_out.jsonl")
	defer w.close()
	for i, sc := range scs {
		w.put(c17RunScenario(t, i, sc))
	}
}


// TestVerifC17Gate: the system-stopping gate of doReceive. One actor's PostStop is held so that Stop
// is in progress; a send that passed its IsRunning check before Stop began (emulated: the Tell is
// split at its check/enqueue point with the PID's own doReceive) must not reach the handler.
type c17GateActor struct {
	w        *c17World
	postGate chan struct{}
	postBeg  chan struct{}
	recv     atomic.Int32
}

func (a *c17GateActor) PreStart(*Context) error { return nil }
func (a *c17GateActor) Receive(ctx *ReceiveContext) {
	if _, ok := ctx.Message().(*c17Plain); ok {
		a.recv.Add(1)
		a.w.log("gate", "recvB", nil)
	}
}
func (a *c17GateActor) PostStop(*Context) error {
	a.w.log("gate", "postB", nil)
	a.postBeg <- struct{}{}
	<-a.postGate
	a.w.log("gate", "postE", nil)
	return nil
}

type c17GateOut struct {
	RecvDuringShutdown int        `json:"recv_during_shutdown"`
	CheckedRunning     bool       `json:"checked_running"`
	Stopping           bool       `json:"system_stopping_seen"`
	Events             []c17Event `json:"events"`
}

func TestVerifC17Gate(t *testing.T) {
	ctx := context.Background()
	wr := newVerifWriter(t, "c17_gate_out.jsonl")
	defer wr.close()
	sys, err := NewActorSystem("verifC17gate", WithLogger(log.DiscardLogger))
	if err != nil {
		t.Fatal(err)
	}
	if err := sys.Start(ctx); err != nil {
		t.Fatal(err)
	}
	w := &c17World{}
	a := &c17GateActor{w: w, postGate: make(chan struct{}), postBeg: make(chan struct{}, 1)}
	pid, err := sys.Spawn(ctx, "gate", a, WithLongLived())
	if err != nil {
		t.Fatal(err)
	}
	checked := pid.IsRunning() // the sender's check, before Stop
	done := make(chan struct{})
	w.log("driver", "stop_begin", nil)
	go func() { _ = sys.Stop(ctx); w.log("driver", "stop_end", nil); close(done) }()
	<-a.postBeg
	stopping := sys.(*actorSystem).isStopping()
	if checked {
		rc := getContext()
		rc.build(ctx, sys.NoSender(), pid, &c17Plain{}, true)
		w.log("driver", "enqueue_during_stop", nil)
		pid.doReceive(rc)
	}
	time.Sleep(60 * time.Millisecond)
	n := int(a.recv.Load())
	close(a.postGate)
	select {
	case <-done:
	case <-time.After(3 * time.Second):
	}
	w.mu.Lock()
	ev := append([]c17Event(nil), w.events...)
	w.mu.Unlock()
	sort.Slice(ev, func(i, j int) bool { return ev[i].Seq < ev[j].Seq })
	wr.put(c17GateOut{RecvDuringShutdown: n, CheckedRunning: checked, Stopping: stopping, Events: ev})
}


func c17ObsEq(a, b [][]int) bool {
	if len(a) != len(b) {
		return false
	}
	for i := range a {
		if len(a[i]) != len(b[i]) {
			return false
		}
		for j := range a[i] {
			if a[i][j] != b[i][j] {
				return false
			}
		}
	}
	return true
}
