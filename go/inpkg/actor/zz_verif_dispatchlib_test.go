//go:build verif

package actor

// Shared oracle machinery for the dispatch-protocol harnesses (C01, C02): instrumented test
// actors (handler entry/exit overlap detector, per-message exactly-once ledger) and a gate
// mailbox that turns every Enqueue/Dequeue/IsEmpty of a REAL mailbox into a controllable
// preemption point.

import (
	"context"
	"fmt"
	"runtime"
	"sync"
	"sync/atomic"
	"time"

	"github.com/tochemey/goakt/v4/log"
)

// vdMsg is a user message with an identity.
type vdMsg struct {
	ID      uint64
	Sender  int
	Seq     int
	Spin    int           // busy work inside the handler (Gosched calls)
	Entered chan struct{} // closed when the handler has been entered (optional)
	Block   chan struct{} // the handler waits for this channel to be closed (optional)
}

// vdRecorder is the property oracle of one actor: overlap of handler invocations and the
// ledger of handled message ids.
type vdRecorder struct {
	inHandler atomic.Int32
	maxConc   atomic.Int32
	overlaps  atomic.Int64
	handledN  atomic.Int64
	mu        sync.Mutex
	count     map[uint64]int
	order     []uint64
	overlapAt []string
}

func newVdRecorder() *vdRecorder { return &vdRecorder{count: map[uint64]int{}} }

func (r *vdRecorder) enter(what string) {
	n := r.inHandler.Add(1)
	for {
		m := r.maxConc.Load()
		if n <= m || r.maxConc.CompareAndSwap(m, n) {
			break
		}
	}
	if n > 1 {
		r.overlaps.Add(1)
		r.mu.Lock()
		if len(r.overlapAt) < 4 {
			r.overlapAt = append(r.overlapAt, what)
		}
		r.mu.Unlock()
	}
}
func (r *vdRecorder) exit() { r.inHandler.Add(-1) }

func (r *vdRecorder) record(id uint64) {
	r.mu.Lock()
	r.count[id]++
	r.order = append(r.order, id)
	r.mu.Unlock()
	r.handledN.Add(1)
}

func (r *vdRecorder) snapshot() (map[uint64]int, []uint64) {
	r.mu.Lock()
	defer r.mu.Unlock()
	c := make(map[uint64]int, len(r.count))
	for k, v := range r.count {
		c[k] = v
	}
	return c, append([]uint64(nil), r.order...)
}

// vdActor records every Receive invocation (user and lifecycle messages alike).
type vdActor struct {
	rec      *vdRecorder
	preStart func(n int) // called with the invocation number of PreStart (1 = first start)
	starts   atomic.Int32
	yieldIn  bool
}

func (a *vdActor) PreStart(*Context) error {
	n := int(a.starts.Add(1))
	if a.preStart != nil {
		a.preStart(n)
	}
	return nil
}
func (a *vdActor) PostStop(*Context) error { return nil }
func (a *vdActor) Receive(ctx *ReceiveContext) {
	switch m := ctx.Message().(type) {
	case *vdMsg:
		a.rec.enter(fmt.Sprintf("msg %d", m.ID))
		a.rec.record(m.ID)
		if m.Entered != nil {
			close(m.Entered)
		}
		for i := 0; i < m.Spin; i++ {
			runtime.Gosched()
		}
		if m.Block != nil {
			<-m.Block
		}
		a.rec.exit()
	default:
		a.rec.enter(fmt.Sprintf("%T", m))
		if a.yieldIn {
			runtime.Gosched()
		}
		a.rec.exit()
	}
}

func vdNewSystem(name string, opts ...Option) (ActorSystem, error) {
	opts = append([]Option{WithLogger(log.DiscardLogger)}, opts...)
	sys, err := NewActorSystem(name, opts...)
	if err != nil {
		return nil, err
	}
	if err := sys.Start(context.Background()); err != nil {
		return nil, err
	}
	return sys, nil
}

func vdWait(ch <-chan struct{}, d time.Duration) bool {
	select {
	case <-ch:
		return true
	case <-time.After(d):
		return false
	}
}

func vdWaitUntil(d time.Duration, cond func() bool) bool {
	deadline := time.Now().Add(d)
	for {
		if cond() {
			return true
		}
		if time.Now().After(deadline) {
			return cond()
		}
		time.Sleep(200 * time.Microsecond)
	}
}

// ---------------------------------------------------------------- gate mailbox
// vdGateMailbox wraps a real Mailbox. Each operation announces itself at up to two points
// (before and after delegating to the wrapped mailbox) to a hook which may block, yield or
// run other threads' operations to completion: an emulated preemption of the calling goroutine
// at exactly that point of doReceive / runTurn / finishOrReclaim.
type vdGatePoint int

const (
	gpEnqBefore vdGatePoint = iota
	gpEnqAfter              // Enqueue returned: the producer is between its enqueue and TrySchedule
	gpDeqBefore
	gpDeqAfterNil // Dequeue returned nil: the worker is about to reset to Idle
	gpDeqAfterMsg
	gpEmptyBefore // IsEmpty called: the worker has reset to Idle and is about to re-check
	gpEmptyAfter
	gpNPoints
)

var vdGateNames = [...]string{"enq-before", "enq-after", "deq-before", "deq-after-nil", "deq-after-msg", "empty-before", "empty-after"}

type vdGateMailbox struct {
	inner Mailbox
	hook  atomic.Pointer[func(p vdGatePoint, isEmpty bool)]
	hits  [gpNPoints]atomic.Int64
	// concurrent consumer detector: Dequeue/IsEmpty-after-reset are owner-side operations
	inDeq    atomic.Int32
	deqRaces atomic.Int64
}

func newVdGateMailbox(inner Mailbox) *vdGateMailbox { return &vdGateMailbox{inner: inner} }

func (g *vdGateMailbox) at(p vdGatePoint, b bool) {
	g.hits[p].Add(1)
	if h := g.hook.Load(); h != nil {
		(*h)(p, b)
	}
}
func (g *vdGateMailbox) setHook(h func(p vdGatePoint, isEmpty bool)) {
	if h == nil {
		g.hook.Store(nil)
		return
	}
	g.hook.Store(&h)
}

func (g *vdGateMailbox) Enqueue(m *ReceiveContext) error {
	g.at(gpEnqBefore, false)
	err := g.inner.Enqueue(m)
	if err == nil {
		g.at(gpEnqAfter, false)
	}
	return err
}
func (g *vdGateMailbox) Dequeue() *ReceiveContext {
	if g.inDeq.Add(1) > 1 {
		g.deqRaces.Add(1)
	}
	g.at(gpDeqBefore, false)
	m := g.inner.Dequeue()
	g.inDeq.Add(-1)
	if m == nil {
		g.at(gpDeqAfterNil, false)
	} else {
		g.at(gpDeqAfterMsg, false)
	}
	return m
}
func (g *vdGateMailbox) IsEmpty() bool {
	g.at(gpEmptyBefore, false)
	b := g.inner.IsEmpty()
	g.at(gpEmptyAfter, b)
	return b
}
func (g *vdGateMailbox) Len() int64 { return g.inner.Len() }
func (g *vdGateMailbox) Dispose()   { g.inner.Dispose() }

// vdMailboxByName builds the real mailbox implementations the harness drives.
func vdMailboxByName(name string) Mailbox {
	switch name {
	case "unbounded":
		return NewUnboundedMailbox()
	case "segmented":
		return NewUnboundedSegmentedMailbox()
	case "bounded":
		return NewBoundedMailbox(4096)
	case "nonblocking-bounded":
		return NewNonBlockingBoundedMailbox(4096)
	case "fair":
		return NewUnboundedFairMailbox()
	case "priority":
		return NewUnboundedStablePriorityMailbox(func(a, b any) bool {
			x, ok1 := a.(*vdMsg)
			y, ok2 := b.(*vdMsg)
			if !ok1 || !ok2 {
				return ok2 && !ok1
			}
			return x.Seq%3 < y.Seq%3
		})
	}
	return nil
}
