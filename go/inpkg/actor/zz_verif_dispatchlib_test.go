//go:build verif

package actor

// Shared oracle machinery for the dispatch-protocol harnesses (C01, C02): instrumented test
// actors (handler entry/exit overlap detector, per-message exactly-once ledger) and a gate
// mailbox that turns every Enqueue/Dequeue/IsEmpty of a REAL mailbox into a controllable
// preemption point.

import (
	"context"
	"fmt"
	"runtime"
	"sync"
	"sync/atomic"
	"time"

	"github.com/tochemey/goakt/v4/log"
	"github.com/tochemey/goakt/v4/supervisor"
)

// vdMsg is a user message with an identity.
type vdMsg struct {
	ID      uint64
	Sender  int
	Seq     int
	Spin    int           // busy work inside the handler (Gosched calls)
	Entered chan struct{} // closed when the handler has been entered (optional)
	Block   chan struct{} // the handler waits for this channel to be closed (optional)
	Stop    bool          // the handler calls ctx.Shutdown() before returning
	Panic   bool          // the handler panics after its bookkeeping (supervision: resume / restart)
}

// vdRecorder is the property oracle of one actor: overlap of handler invocations and the
// ledger of handled message ids.
type vdRecorder struct {
	inHandler atomic.Int32
	maxConc   atomic.Int32
	overlaps  atomic.Int64
	handledN  atomic.Int64
	mu        sync.Mutex
	count     map[uint64]int
	order     []uint64
	overlapAt []string
}

func newVdRecorder() *vdRecorder { return &vdRecorder{count: map[uint64]int{}} }

func (r *vdRecorder) enter(what string) {
	n := r.inHandler.Add(1)
	for {
		m := r.maxConc.Load()
		if n <= m || r.maxConc.CompareAndSwap(m, n) {
			break
		}
	}
	if n > 1 {
		r.overlaps.Add(1)
		r.mu.Lock()
		if len(r.overlapAt) < 4 {
			r.overlapAt = append(r.overlapAt, what)
		}
		r.mu.Unlock()
	}
}
func (r *vdRecorder) exit() { r.inHandler.Add(-1) }

func (r *vdRecorder) record(id uint64) {
	r.mu.Lock()
	r.count[id]++
	r.order = append(r.order, id)
	r.mu.Unlock()
	r.handledN.Add(1)
}

func (r *vdRecorder) snapshot() (map[uint64]int, []uint64) {
	r.mu.Lock()
	defer r.mu.Unlock()
	c := make(map[uint64]int, len(r.count))
	for k, v := range r.count {
		c[k] = v
	}
	return c, append([]uint64(nil), r.order...)
}

// vdActor records every Receive invocation (user and lifecycle messages alike).
type vdActor struct {
	rec      *vdRecorder
	preStart func(n int) // called with the invocation number of PreStart (1 = first start)
	starts   atomic.Int32
	yieldIn  bool
}

func (a *vdActor) PreStart(*Context) error {
	n := int(a.starts.Add(1))
	if a.preStart != nil {
		a.preStart(n)
	}
	return nil
}
func (a *vdActor) PostStop(*Context) error { return nil }
func (a *vdActor) Receive(ctx *ReceiveContext) {
	switch m := ctx.Message().(type) {
	case *vdMsg:
		a.rec.enter(fmt.Sprintf("msg %d", m.ID))
		a.rec.record(m.ID)
		if m.Entered != nil {
			close(m.Entered)
		}
		for i := 0; i < m.Spin; i++ {
			runtime.Gosched()
		}
		if m.Block != nil {
			<-m.Block
		}
		if m.Stop {
			ctx.Shutdown()
		}
		a.rec.exit()
		if m.Panic {
			panic("verif: requested failure")
		}
	default:
		a.rec.enter(fmt.Sprintf("%T", m))
		if a.yieldIn {
			runtime.Gosched()
		}
		a.rec.exit()
	}
}

func vdNewSystem(name string, opts ...Option) (ActorSystem, error) {
	opts = append([]Option{WithLogger(log.DiscardLogger)}, opts...)
	sys, err := NewActorSystem(name, opts...)
	if err != nil {
		return nil, err
	}
	if err := sys.Start(context.Background()); err != nil {
		return nil, err
	}
	return sys, nil
}

func vdWait(ch <-chan struct{}, d time.Duration) bool {
	select {
	case <-ch:
		return true
	case <-time.After(d):
		return false
	}
}

func vdWaitUntil(d time.Duration, cond func() bool) bool {
	deadline := time.Now().Add(d)
	for {
		if cond() {
			return true
		}
		if time.Now().After(deadline) {
			return cond()
		}
		time.Sleep(200 * time.Microsecond)
	}
}

// ---------------------------------------------------------------- gate mailbox
// vdGateMailbox wraps a real Mailbox. Each operation announces itself at up to two points
// (before and after delegating to the wrapped mailbox) to a hook which may block, yield or
// run other threads' operations to completion: an emulated preemption of the calling goroutine
// at exactly that point of doReceive / runTurn / finishOrReclaim.
type vdGatePoint int

const (
	gpEnqBefore vdGatePoint = iota
	gpEnqAfter              // Enqueue returned: the producer is between its enqueue and TrySchedule
	gpDeqBefore
	gpDeqAfterNil // Dequeue returned nil: the worker is about to reset to Idle
	gpDeqAfterMsg
	gpEmptyBefore // IsEmpty called: the worker has reset to Idle and is about to re-check
	gpEmptyAfter
	gpNPoints
)

var vdGateNames = [...]string{"enq-before", "enq-after", "deq-before", "deq-after-nil", "deq-after-msg", "empty-before", "empty-after"}

type vdGateMailbox struct {
	inner Mailbox
	hook  atomic.Pointer[func(p vdGatePoint, isEmpty bool)]
	hits  [gpNPoints]atomic.Int64
	// concurrent consumer detector: Dequeue/IsEmpty-after-reset are owner-side operations
	inDeq    atomic.Int32
	deqRaces atomic.Int64
}

func newVdGateMailbox(inner Mailbox) *vdGateMailbox { return &vdGateMailbox{inner: inner} }

func (g *vdGateMailbox) at(p vdGatePoint, b bool) {
	g.hits[p].Add(1)
	if h := g.hook.Load(); h != nil {
		(*h)(p, b)
	}
}
func (g *vdGateMailbox) setHook(h func(p vdGatePoint, isEmpty bool)) {
	if h == nil {
		g.hook.Store(nil)
		return
	}
	g.hook.Store(&h)
}

func (g *vdGateMailbox) Enqueue(m *ReceiveContext) error {
	g.at(gpEnqBefore, false)
	err := g.inner.Enqueue(m)
	if err == nil {
		g.at(gpEnqAfter, false)
	}
	return err
}
func (g *vdGateMailbox) Dequeue() *ReceiveContext {
	if g.inDeq.Add(1) > 1 {
		g.deqRaces.Add(1)
	}
	g.at(gpDeqBefore, false)
	m := g.inner.Dequeue()
	g.inDeq.Add(-1)
	if m == nil {
		g.at(gpDeqAfterNil, false)
	} else {
		g.at(gpDeqAfterMsg, false)
	}
	return m
}
func (g *vdGateMailbox) IsEmpty() bool {
	g.at(gpEmptyBefore, false)
	b := g.inner.IsEmpty()
	g.at(gpEmptyAfter, b)
	return b
}
func (g *vdGateMailbox) Len() int64 { return g.inner.Len() }
func (g *vdGateMailbox) Dispose()   { g.inner.Dispose() }

// vdMailboxByName builds the real mailbox implementations the harness drives.
func vdMailboxByName(name string) Mailbox {
	switch name {
	case "unbounded":
		return NewUnboundedMailbox()
	case "segmented":
		return NewUnboundedSegmentedMailbox()
	case "bounded":
		return NewBoundedMailbox(4096)
	case "nonblocking-bounded":
		return NewNonBlockingBoundedMailbox(4096)
	case "fair":
		return NewUnboundedFairMailbox()
	case "upriority":
		return NewUnboundedPriorityMailBox(vdPrio)
	case "bpriority":
		return NewBoundedPriorityMailbox(4096, vdPrio)
	case "bstable":
		return NewBoundedStablePriorityMailbox(4096, vdPrio)
	case "priority":
		return NewUnboundedStablePriorityMailbox(func(a, b any) bool {
			x, ok1 := a.(*vdMsg)
			y, ok2 := b.(*vdMsg)
			if !ok1 || !ok2 {
				return ok2 && !ok1
			}
			return x.Seq%3 < y.Seq%3
		})
	}
	return nil
}

// ---------------------------------------------------------------- scripted preemption scenarios
// vdPauser blocks the goroutine that reaches gate point `point` for the nth time (and, for
// gpEmptyAfter, only when IsEmpty returned wantEmpty) until resume is closed.
type vdPauser struct {
	point     vdGatePoint
	nth       int32
	wantEmpty int // -1: any, 0: false, 1: true
	seen      atomic.Int32
	reached   chan struct{}
	resume    chan struct{}
	once      sync.Once
}

func newVdPauser(p vdGatePoint, nth int32, wantEmpty int) *vdPauser {
	return &vdPauser{point: p, nth: nth, wantEmpty: wantEmpty, reached: make(chan struct{}), resume: make(chan struct{})}
}
func (pa *vdPauser) hook(p vdGatePoint, isEmpty bool) {
	if p != pa.point {
		return
	}
	if pa.wantEmpty >= 0 && (isEmpty != (pa.wantEmpty == 1)) {
		return
	}
	if pa.seen.Add(1) == pa.nth {
		close(pa.reached)
		<-pa.resume
	}
}
func (pa *vdPauser) release() { pa.once.Do(func() { close(pa.resume) }) }

type vdScenarioOut struct {
	Name      string   `json:"name"`
	Mailbox   string   `json:"mailbox"`
	Completed bool     `json:"completed"` // the scripted preemption point was reached
	Why       string   `json:"why"`
	Overlaps  int64    `json:"overlaps"`
	MaxConc   int32    `json:"max_concurrent"`
	OverlapAt []string `json:"overlap_at"`
	DeqRaces  int64    `json:"concurrent_dequeues"`
	Told      int      `json:"told"`
	Dup       int      `json:"duplicates"`
	Lost      int      `json:"lost"`
	Stalled   bool     `json:"stalled"`
	EarlyRun  bool     `json:"ran_while_turn_held"` // a handler was entered although another invocation held the turn
	FinalSt   string   `json:"final_state"`
	Trace     []string `json:"trace"`
}

type vdScenarioEnv struct {
	sys   ActorSystem
	pid   *PID
	rec   *vdRecorder
	gate  *vdGateMailbox
	out   *vdScenarioOut
	ids   []uint64
	next  uint64
	bound int // segment / ring boundary of the real mailbox to align the race to (0: none)
	rels  []func()
	ctx   context.Context
	trace func(string)
}

func (e *vdScenarioEnv) msg(block, entered bool) *vdMsg {
	e.next++
	m := &vdMsg{ID: e.next}
	if block {
		m.Block = make(chan struct{})
		var o sync.Once
		e.rels = append(e.rels, func() { o.Do(func() { close(m.Block) }) })
	}
	if entered {
		m.Entered = make(chan struct{})
	}
	return m
}
func (e *vdScenarioEnv) tell(m *vdMsg) bool {
	if err := Tell(e.ctx, e.pid, m); err != nil {
		e.out.Why = "tell rejected: " + err.Error()
		return false
	}
	e.ids = append(e.ids, m.ID)
	e.trace(fmt.Sprintf("told %d", m.ID))
	return true
}
func (e *vdScenarioEnv) idle() bool {
	return vdWaitUntil(15*time.Second, func() bool {
		return e.pid.schedState.Load() == dispatchIdle && e.gate.inner.IsEmpty() && e.rec.inHandler.Load() == 0
	})
}

// alignTo sends filler messages (all handled, actor idle again) until the number of successful enqueues into
// the gated mailbox is congruent to boundary-k modulo boundary: the scenario's next k enqueues end exactly on a
// segment / ring boundary of the real mailbox and the racing one is the first beyond it.
func (e *vdScenarioEnv) alignTo(boundary, k int) bool {
	if boundary <= 0 {
		return true
	}
	for guard := 0; guard < 4*boundary; guard++ {
		n := int(e.gate.hits[gpEnqAfter].Load())
		if n%boundary == (boundary-k%boundary)%boundary {
			break
		}
		m := e.msg(false, false)
		if !e.tell(m) {
			return false
		}
	}
	ok := vdWaitUntil(20*time.Second, func() bool {
		c, _ := e.rec.snapshot()
		for _, id := range e.ids {
			if c[id] == 0 {
				return false
			}
		}
		return true
	})
	e.out.Trace = e.out.Trace[:0]
	e.trace(fmt.Sprintf("aligned: %d enqueues so far (boundary %d, %d before the racing one)", e.gate.hits[gpEnqAfter].Load(), boundary, k))
	return ok && e.idle()
}

func (e *vdScenarioEnv) handled(id uint64) bool {
	c, _ := e.rec.snapshot()
	return c[id] > 0
}

// vdRunScenario builds a fresh system + gated actor, runs body, then applies the oracle.
func vdRunScenario(name, mailbox string, budget int, body func(e *vdScenarioEnv) bool) (out vdScenarioOut) {
	return vdRunScenarioAt(name, mailbox, budget, 0, body)
}

func vdRunScenarioAt(name, mailbox string, budget, boundary int, body func(e *vdScenarioEnv) bool) (out vdScenarioOut) {
	out.Name, out.Mailbox = name, mailbox
	if boundary > 0 {
		out.Name = fmt.Sprintf("%s @boundary %d", name, boundary)
	}
	ctx := context.Background()
	sys, err := vdNewSystem("vdscen", WithThroughputBudget(budget))
	if err != nil {
		out.Why = err.Error()
		return
	}
	defer sys.Stop(ctx)
	rec := newVdRecorder()
	gate := newVdGateMailbox(vdMailboxByName(mailbox))
	pid, err := sys.Spawn(ctx, "a", &vdActor{rec: rec}, WithLongLived(), WithMailbox(gate))
	if err != nil {
		out.Why = err.Error()
		return
	}
	var tmu sync.Mutex
	e := &vdScenarioEnv{sys: sys, pid: pid, rec: rec, gate: gate, out: &out, ctx: ctx, bound: boundary}
	e.trace = func(s string) { tmu.Lock(); out.Trace = append(out.Trace, s); tmu.Unlock() }
	if !e.idle() {
		out.Why = "actor did not become idle after start"
		return
	}
	out.Completed = body(e)
	gate.setHook(nil)
	for _, r := range e.rels {
		r()
	}
	out.Told = len(e.ids)
	ok := vdWaitUntil(15*time.Second, func() bool {
		c, _ := rec.snapshot()
		for _, id := range e.ids {
			if c[id] == 0 {
				return false
			}
		}
		return true
	})
	time.Sleep(2 * time.Millisecond)
	out.Stalled = !ok
	c, _ := rec.snapshot()
	for _, id := range e.ids {
		switch n := c[id]; {
		case n == 0:
			out.Lost++
		case n > 1:
			out.Dup += n - 1
		}
	}
	out.Overlaps = rec.overlaps.Load()
	out.MaxConc = rec.maxConc.Load()
	rec.mu.Lock()
	out.OverlapAt = append([]string(nil), rec.overlapAt...)
	rec.mu.Unlock()
	out.DeqRaces = gate.deqRaces.Load()
	vdWaitUntil(time.Second, func() bool { return pid.schedState.Load() == dispatchIdle })
	out.FinalSt = c01StateNameLib(pid.schedState.Load())
	return out
}

func c01StateNameLib(v uint32) string {
	switch v {
	case dispatchIdle:
		return "Idle"
	case dispatchScheduled:
		return "Scheduled"
	case dispatchProcessing:
		return "Processing"
	}
	return fmt.Sprintf("invalid(%d)", v)
}

// vdScenarios: the emulated-preemption witnesses the proofs depend on.
func vdScenarios(mailbox string) []vdScenarioOut {
	var outs []vdScenarioOut
	// S1: a message is enqueued between the worker's last (empty) Dequeue and its reset to Idle.
	outs = append(outs, vdRunScenario(vdS1Name, mailbox, 32, vdS1))
	outs = append(outs, vdRunScenario(vdS8Name, mailbox, 32, vdS8))
	outs = append(outs, vdScenariosRest(mailbox)...)
	return outs
}

const vdS1Name = "S1 enqueue between empty dequeue and reset"
const vdS6Name = "S6 reclaim after a non-empty re-check"
const vdS8Name = "S8 turn consumes exactly the budget, enqueue while the owner checks emptiness"

// vdScenariosAtBoundary: the reclaim races with the real mailbox sitting exactly on a segment / ring boundary.
func vdScenariosAtBoundary(mailbox string, boundary int) []vdScenarioOut {
	return []vdScenarioOut{
		vdRunScenarioAt(vdS1Name, mailbox, 32, boundary, vdS1),
		vdRunScenarioAt(vdS6Name, mailbox, 32, boundary, vdS6),
	}
}

// S8: the turn handles exactly `budget` messages and leaves both mailboxes empty. Wherever the owner next
// evaluates IsEmpty()==true (after its reset in the unmodified protocol), a Tell lands right there.
func vdS8(e *vdScenarioEnv) bool {
	budget := e.pid.dispatcher.throughput
	hold := newVdPauser(gpDeqBefore, 1, -1)
	race := newVdPauser(gpEmptyAfter, 1, 1)
	e.gate.setHook(func(p vdGatePoint, b bool) { hold.hook(p, b); race.hook(p, b) })
	defer hold.release()
	defer race.release()
	if !e.tell(e.msg(false, false)) {
		return false
	}
	if !vdWait(hold.reached, 15*time.Second) {
		e.out.Why = "worker never started its turn"
		return false
	}
	for i := 1; i < budget; i++ { // the turn will find exactly `budget` messages
		if !e.tell(e.msg(false, false)) {
			return false
		}
	}
	hold.release()
	if !vdWait(race.reached, 15*time.Second) {
		e.out.Why = "owner never saw an empty mailbox"
		return false
	}
	e.trace(fmt.Sprintf("owner paused after IsEmpty()==true, state %s, %d handled", c01StateNameLib(e.pid.schedState.Load()), e.rec.handledN.Load()))
	mR := e.msg(false, false)
	if !e.tell(mR) {
		return false
	}
	race.release()
	return true
}

func vdS1(e *vdScenarioEnv) bool {
	{
		if !e.alignTo(e.bound, 1) {
			e.out.Why = "could not align the mailbox to its boundary"
			return false
		}
		pa := newVdPauser(gpDeqAfterNil, 1, -1)
		e.gate.setHook(pa.hook)
		defer pa.release()
		if !e.tell(e.msg(false, false)) {
			return false
		}
		if !vdWait(pa.reached, 15*time.Second) {
			e.out.Why = "worker never observed an empty dequeue"
			return false
		}
		e.trace("worker paused after Dequeue()==nil, state " + c01StateNameLib(e.pid.schedState.Load()))
		m1 := e.msg(false, false)
		if !e.tell(m1) {
			return false
		}
		pa.release()
		return true
	}
}

func vdScenariosRest(mailbox string) []vdScenarioOut {
	var outs []vdScenarioOut
	// S2: after the reset, before the emptiness re-check: a producer wins the schedule, another
	// worker takes the turn and is inside the handler; the first worker must not continue.
	outs = append(outs, vdRunScenario("S2 new owner between reset and re-check", mailbox, 32, func(e *vdScenarioEnv) bool {
		pa := newVdPauser(gpEmptyBefore, 1, -1)
		e.gate.setHook(pa.hook)
		defer pa.release()
		if !e.tell(e.msg(false, false)) {
			return false
		}
		if !vdWait(pa.reached, 15*time.Second) {
			e.out.Why = "worker never reached the emptiness re-check"
			return false
		}
		e.trace("worker paused before IsEmpty, state " + c01StateNameLib(e.pid.schedState.Load()))
		mA := e.msg(true, true)
		if !e.tell(mA) {
			return false
		}
		if !vdWait(mA.Entered, 15*time.Second) {
			e.out.Why = "message told after the reset was not picked up by another worker"
			e.out.Stalled = true
			return true
		}
		mB := e.msg(false, true)
		if !e.tell(mB) {
			return false
		}
		pa.release()
		if vdWait(mB.Entered, 150*time.Millisecond) {
			e.out.EarlyRun = true
		}
		return true
	}))
	// S3: a producer is preempted between its completed enqueue and TrySchedule.
	outs = append(outs, vdRunScenario("S3 producer preempted between enqueue and TrySchedule", mailbox, 32, func(e *vdScenarioEnv) bool {
		pa := newVdPauser(gpEnqAfter, 1, -1)
		e.gate.setHook(pa.hook)
		defer pa.release()
		m1 := e.msg(false, false)
		e.ids = append(e.ids, m1.ID)
		done := make(chan error, 1)
		go func() { done <- Tell(e.ctx, e.pid, m1) }()
		if !vdWait(pa.reached, 15*time.Second) {
			e.out.Why = "producer never completed its enqueue"
			return false
		}
		e.trace("producer paused after Enqueue, state " + c01StateNameLib(e.pid.schedState.Load()))
		m2 := e.msg(false, false)
		if !e.tell(m2) {
			return false
		}
		vdWaitUntil(2*time.Second, func() bool { return e.handled(m2.ID) })
		e.trace(fmt.Sprintf("before resuming the producer: m1 handled=%v m2 handled=%v state %s", e.handled(m1.ID), e.handled(m2.ID), c01StateNameLib(e.pid.schedState.Load())))
		pa.release()
		<-done
		return true
	}))
	// S4: budget exhaustion: the last handler of the budget is held; nobody else may run the actor.
	outs = append(outs, vdRunScenario("S4 handler held at the budget boundary", mailbox, 2, func(e *vdScenarioEnv) bool {
		pa := newVdPauser(gpDeqBefore, 1, -1)
		e.gate.setHook(pa.hook)
		defer pa.release()
		if !e.tell(e.msg(false, false)) {
			return false
		}
		if !vdWait(pa.reached, 15*time.Second) {
			e.out.Why = "worker never started its turn"
			return false
		}
		m2 := e.msg(true, true)
		m3 := e.msg(false, true)
		m4 := e.msg(false, true)
		if !e.tell(m2) || !e.tell(m3) || !e.tell(m4) {
			return false
		}
		pa.release()
		if !vdWait(m2.Entered, 15*time.Second) {
			e.out.Why = "second message of the turn not handled"
			e.out.Stalled = true
			return true
		}
		if vdWait(m3.Entered, 150*time.Millisecond) {
			e.out.EarlyRun = true
		}
		e.trace("state while the handler is held: " + c01StateNameLib(e.pid.schedState.Load()))
		return true
	}))
	// S5: the worker saw an empty mailbox after the reset and is about to leave; a message arrives.
	outs = append(outs, vdRunScenario("S5 enqueue after the re-check saw empty", mailbox, 32, func(e *vdScenarioEnv) bool {
		pa := newVdPauser(gpEmptyAfter, 1, 1)
		e.gate.setHook(pa.hook)
		defer pa.release()
		if !e.tell(e.msg(false, false)) {
			return false
		}
		if !vdWait(pa.reached, 15*time.Second) {
			e.out.Why = "worker never saw an empty mailbox at the re-check"
			return false
		}
		m1 := e.msg(false, false)
		if !e.tell(m1) {
			return false
		}
		vdWaitUntil(2*time.Second, func() bool { return e.handled(m1.ID) })
		e.trace(fmt.Sprintf("worker still paused after IsEmpty()==true; m1 handled=%v", e.handled(m1.ID)))
		pa.release()
		return true
	}))
	// S6: a message told while the first worker is paused after a NON-empty re-check (it will reclaim).
	outs = append(outs, vdRunScenario(vdS6Name, mailbox, 32, vdS6))
	// S7: a producer is preempted on entry to Enqueue (nothing published yet): whatever it did before must not
	// have consumed the wake-up that belongs to the message.
	outs = append(outs, vdRunScenario("S7 producer preempted before its enqueue", mailbox, 32, func(e *vdScenarioEnv) bool {
		pa := newVdPauser(gpEnqBefore, 1, -1)
		e.gate.setHook(pa.hook)
		defer pa.release()
		m1 := e.msg(false, false)
		e.ids = append(e.ids, m1.ID)
		done := make(chan error, 1)
		go func() { done <- Tell(e.ctx, e.pid, m1) }()
		if !vdWait(pa.reached, 15*time.Second) {
			e.out.Why = "producer never reached Enqueue"
			return false
		}
		// give a (wrongly) scheduled worker the time to run an empty turn and go back to Idle
		time.Sleep(20 * time.Millisecond)
		vdWaitUntil(time.Second, func() bool { return e.pid.schedState.Load() == dispatchIdle })
		e.trace("producer paused before Enqueue, state " + c01StateNameLib(e.pid.schedState.Load()))
		pa.release()
		<-done
		return true
	}))
	return outs
}

// ---------------------------------------------------------------- (c) real-goroutine stress
type vdStressCfg struct {
	Mailbox   string
	Senders   int
	PerSender int
	Budget    int
	Procs     int
	Gate      bool // wrap the mailbox in the gate and yield at its preemption points
	SelfTell  bool
	Restarts  int    // number of pid.Restart calls issued concurrently with the senders
	Panics    int    // every Panics-th message makes the handler panic (0: never)
	Directive string // supervisor directive for panics: "restart" | "resume"
}
type vdStressOut struct {
	Cfg       vdStressCfg `json:"cfg"`
	Accepted  int         `json:"accepted"`
	Rejected  int         `json:"rejected"`
	Handled   int64       `json:"handled"`
	Overlaps  int64       `json:"overlaps"`
	MaxConc   int32       `json:"max_concurrent"`
	DeqRaces  int64       `json:"concurrent_dequeues"`
	Dup       int         `json:"duplicates"`
	Lost      int         `json:"lost"`
	Stalled   bool        `json:"stalled"`
	FinalSt   string      `json:"final_state"`
	OverlapAt []string    `json:"overlap_at"`
	GateHits  []int64     `json:"gate_hits"`
	Err       string      `json:"err"`
}

func vdRunStress(cfg vdStressCfg, seed uint64) (out vdStressOut) {
	out.Cfg = cfg
	ctx := context.Background()
	old := runtime.GOMAXPROCS(cfg.Procs)
	defer runtime.GOMAXPROCS(old)
	sys, err := vdNewSystem("c01stress", WithThroughputBudget(cfg.Budget))
	if err != nil {
		out.Err = err.Error()
		return
	}
	defer sys.Stop(ctx)
	rec := newVdRecorder()
	var mb Mailbox = vdMailboxByName(cfg.Mailbox)
	var gate *vdGateMailbox
	if cfg.Gate {
		gate = newVdGateMailbox(mb)
		var ctr atomic.Uint64
		gate.setHook(func(p vdGatePoint, _ bool) {
			// deterministic-per-seed yield noise at the protocol's preemption points
			x := (ctr.Add(1)*0x9E3779B97F4A7C15 + seed) >> 59
			switch {
			case x < 8:
				runtime.Gosched()
			case x < 10:
				for i := 0; i < 4; i++ {
					runtime.Gosched()
				}
			case x == 10 && (p == gpDeqAfterNil || p == gpEmptyBefore || p == gpEnqAfter):
				time.Sleep(20 * time.Microsecond)
			}
		})
		mb = gate
	}
	spawnOpts := []SpawnOption{WithLongLived(), WithMailbox(mb)}
	switch cfg.Directive {
	case "restart":
		spawnOpts = append(spawnOpts, WithSupervisor(supervisor.NewSupervisor(supervisor.WithAnyErrorDirective(supervisor.RestartDirective))))
	case "resume":
		spawnOpts = append(spawnOpts, WithSupervisor(supervisor.NewSupervisor(supervisor.WithAnyErrorDirective(supervisor.ResumeDirective))))
	}
	pid, err := sys.Spawn(ctx, "a", &vdActor{rec: rec, yieldIn: true}, spawnOpts...)
	if err != nil {
		out.Err = err.Error()
		return
	}
	var wg sync.WaitGroup
	var accepted, rejected atomic.Int64
	stopRestarts := make(chan struct{})
	restartsDone := make(chan struct{})
	go func() {
		defer close(restartsDone)
		for i := 0; i < cfg.Restarts; i++ {
			select {
			case <-stopRestarts:
				return
			case <-time.After(time.Duration(1+i%3) * time.Millisecond):
			}
			_ = pid.Restart(ctx)
		}
	}()
	ids := make([][]uint64, cfg.Senders)
	for s := 0; s < cfg.Senders; s++ {
		wg.Add(1)
		go func(s int) {
			defer wg.Done()
			rng := newVerifRNG(seed*1000 + uint64(s))
			for k := 0; k < cfg.PerSender; k++ {
				m := &vdMsg{ID: uint64(s)<<32 | uint64(k+1), Sender: s, Seq: k, Spin: rng.intn(3)}
				if cfg.Panics > 0 && (k+1)%cfg.Panics == 0 {
					m.Panic = true
				}
				err := Tell(ctx, pid, m)
				if err != nil && (cfg.Restarts > 0 || cfg.Directive == "restart") {
					// the actor is between stop and init of a restart: try again for a while
					for r := 0; r < 40 && err != nil; r++ {
						time.Sleep(250 * time.Microsecond)
						err = Tell(ctx, pid, m)
					}
				}
				if err != nil {
					rejected.Add(1)
				} else {
					accepted.Add(1)
					ids[s] = append(ids[s], m.ID)
				}
				switch rng.intn(6) {
				case 0:
					runtime.Gosched()
				case 1, 2:
					// let the mailbox drain so the Processing->Idle transition and the reclaim race are exercised
					for i := 0; i < 400 && pid.schedState.Load() != dispatchIdle; i++ {
						runtime.Gosched()
					}
				}
			}
		}(s)
	}
	wg.Wait()
	close(stopRestarts)
	<-restartsDone
	out.Accepted, out.Rejected = int(accepted.Load()), int(rejected.Load())
	waitFor := 20 * time.Second
	if cfg.Restarts > 0 || cfg.Directive == "restart" {
		waitFor = 500 * time.Millisecond // a restart may drop queued messages: only the overlap oracle applies
	}
	ok := vdWaitUntil(waitFor, func() bool { return rec.handledN.Load() >= accepted.Load() })
	// quiescence: nothing in flight any more
	time.Sleep(2 * time.Millisecond)
	out.Stalled = !ok
	out.Handled = rec.handledN.Load()
	out.Overlaps = rec.overlaps.Load()
	out.MaxConc = rec.maxConc.Load()
	out.FinalSt = c01StateNameLib(pid.schedState.Load())
	counts, _ := rec.snapshot()
	for s := range ids {
		for _, id := range ids[s] {
			switch c := counts[id]; {
			case c == 0:
				out.Lost++
			case c > 1:
				out.Dup += c - 1
			}
		}
	}
	rec.mu.Lock()
	out.OverlapAt = append([]string(nil), rec.overlapAt...)
	rec.mu.Unlock()
	if gate != nil {
		gate.setHook(nil)
		out.DeqRaces = gate.deqRaces.Load()
		for i := range gate.hits {
			out.GateHits = append(out.GateHits, gate.hits[i].Load())
		}
	}
	return out
}

// ---------------------------------------------------------------- grain stress
type vdGrain struct {
	rec            *vdRecorder
	failDeactivate bool
	activations    atomic.Int32
	deactivations  atomic.Int32
}

func (g *vdGrain) OnActivate(context.Context, *GrainProps) error { g.activations.Add(1); return nil }
func (g *vdGrain) OnDeactivate(context.Context, *GrainProps) error {
	g.deactivations.Add(1)
	if g.failDeactivate {
		return fmt.Errorf("verif: flush failed")
	}
	return nil
}
func (g *vdGrain) OnReceive(ctx *GrainContext) {
	switch m := ctx.Message().(type) {
	case *vdMsg:
		g.rec.enter(fmt.Sprintf("grain msg %d", m.ID))
		g.rec.record(m.ID)
		if m.Entered != nil {
			close(m.Entered)
		}
		for i := 0; i < m.Spin; i++ {
			runtime.Gosched()
		}
		if m.Block != nil {
			<-m.Block
		}
		g.rec.exit()
		ctx.NoErr()
	default:
		ctx.Unhandled()
	}
}

type vdGrainOut struct {
	Senders  int      `json:"senders"`
	Budget   int      `json:"budget"`
	Procs    int      `json:"procs"`
	Accepted int64    `json:"accepted"`
	Failed   int64    `json:"failed"`
	Handled  int64    `json:"handled"`
	Overlaps int64    `json:"overlaps"`
	MaxConc  int32    `json:"max_concurrent"`
	Dup      int      `json:"duplicates"`
	Lost     int      `json:"lost"`
	FirstErr string   `json:"first_err"`
	At       []string `json:"overlap_at"`
	Err      string   `json:"err"`
}

// vdRunGrainStress: many goroutines TellGrain/AskGrain one grain. TellGrain returns after the grain
// answered, so "accepted" = calls that returned nil; each must have been handled exactly once.
func vdRunGrainStress(senders, per, budget, procs int, seed uint64) (out vdGrainOut) {
	out.Senders, out.Budget, out.Procs = senders, budget, procs
	old := runtime.GOMAXPROCS(procs)
	defer runtime.GOMAXPROCS(old)
	ctx := context.Background()
	sys, err := vdNewSystem("vdgrain", WithThroughputBudget(budget))
	if err != nil {
		out.Err = err.Error()
		return
	}
	defer sys.Stop(ctx)
	rec := newVdRecorder()
	id, err := sys.GrainIdentity(ctx, "g1", func(context.Context) (Grain, error) { return &vdGrain{rec: rec}, nil }, WithLongLivedGrain())
	if err != nil {
		out.Err = err.Error()
		return
	}
	var wg sync.WaitGroup
	var accepted, failed atomic.Int64
	var emu sync.Mutex
	ids := make([][]uint64, senders)
	for s := 0; s < senders; s++ {
		wg.Add(1)
		go func(s int) {
			defer wg.Done()
			rng := newVerifRNG(seed*977 + uint64(s))
			for k := 0; k < per; k++ {
				m := &vdMsg{ID: uint64(s)<<32 | uint64(k+1), Sender: s, Seq: k, Spin: rng.intn(2)}
				var err error
				if rng.intn(3) == 0 {
					_, err = sys.AskGrain(ctx, id, m, 10*time.Second)
				} else {
					err = sys.TellGrain(ctx, id, m)
				}
				if err != nil {
					failed.Add(1)
					emu.Lock()
					if out.FirstErr == "" {
						out.FirstErr = err.Error()
					}
					emu.Unlock()
				} else {
					accepted.Add(1)
					ids[s] = append(ids[s], m.ID)
				}
				if rng.intn(5) == 0 {
					runtime.Gosched()
				}
			}
		}(s)
	}
	wg.Wait()
	out.Accepted, out.Failed = accepted.Load(), failed.Load()
	out.Handled = rec.handledN.Load()
	out.Overlaps, out.MaxConc = rec.overlaps.Load(), rec.maxConc.Load()
	counts, _ := rec.snapshot()
	for s := range ids {
		for _, id := range ids[s] {
			switch c := counts[id]; {
			case c == 0:
				out.Lost++
			case c > 1:
				out.Dup += c - 1
			}
		}
	}
	rec.mu.Lock()
	out.At = append([]string(nil), rec.overlapAt...)
	rec.mu.Unlock()
	return out
}

func vdPrio(a, b any) bool {
	x, ok1 := a.(*vdMsg)
	y, ok2 := b.(*vdMsg)
	if !ok1 || !ok2 {
		return ok2 && !ok1
	}
	return x.Seq%3 < y.Seq%3
}

// ---------------------------------------------------------------- stash / unstash stress
type vdCtl struct{ Op string } // "stash-on" | "stash-off" | "unstash-one" | "unstash-all"

// vdStashActor stashes user messages while in stashing mode; the oracle counts a message as processed only
// when it is handled outside stashing mode.
type vdStashActor struct {
	rec      *vdRecorder
	stashing bool
	stashed  atomic.Int64
}

func (a *vdStashActor) PreStart(*Context) error { return nil }
func (a *vdStashActor) PostStop(*Context) error { return nil }
func (a *vdStashActor) Receive(ctx *ReceiveContext) {
	switch m := ctx.Message().(type) {
	case *vdMsg:
		a.rec.enter(fmt.Sprintf("msg %d", m.ID))
		if a.stashing {
			ctx.Stash()
			a.stashed.Add(1)
		} else {
			a.rec.record(m.ID)
		}
		a.rec.exit()
	case *vdCtl:
		a.rec.enter("ctl " + m.Op)
		switch m.Op {
		case "stash-on":
			a.stashing = true
		case "stash-off":
			a.stashing = false
		case "unstash-one":
			if a.stashed.Load() > 0 {
				was := a.stashing
				a.stashing = false
				ctx.Unstash()
				a.stashed.Add(-1)
				_ = was
			}
		case "unstash-all":
			a.stashing = false
			ctx.UnstashAll()
			a.stashed.Store(0)
		}
		a.rec.exit()
	default:
		a.rec.enter(fmt.Sprintf("%T", m))
		a.rec.exit()
	}
}

type vdStashOut struct {
	Mailbox  string `json:"mailbox"`
	Senders  int    `json:"senders"`
	Accepted int64  `json:"accepted"`
	Handled  int64  `json:"handled"`
	Overlaps int64  `json:"overlaps"`
	Dup      int    `json:"duplicates"`
	Lost     int    `json:"lost"`
	Stalled  bool   `json:"stalled"`
	Rounds   int    `json:"stash_rounds"`
	Err      string `json:"err"`
}

func vdRunStashStress(mailbox string, senders, per, budget, procs int, seed uint64) (out vdStashOut) {
	out.Mailbox, out.Senders = mailbox, senders
	old := runtime.GOMAXPROCS(procs)
	defer runtime.GOMAXPROCS(old)
	ctx := context.Background()
	sys, err := vdNewSystem("vdstash", WithThroughputBudget(budget))
	if err != nil {
		out.Err = err.Error()
		return
	}
	defer sys.Stop(ctx)
	rec := newVdRecorder()
	act := &vdStashActor{rec: rec}
	pid, err := sys.Spawn(ctx, "a", act, WithLongLived(), WithStashing(), WithMailbox(vdMailboxByName(mailbox)))
	if err != nil {
		out.Err = err.Error()
		return
	}
	var accepted atomic.Int64
	ids := make([][]uint64, senders)
	var idmu sync.Mutex
	const rounds = 10
	crng := newVerifRNG(seed ^ 0xabcdef)
	for r := 0; r < rounds; r++ {
		out.Rounds++
		_ = Tell(ctx, pid, &vdCtl{Op: "stash-on"})
		var wg sync.WaitGroup
		for s := 0; s < senders; s++ {
			wg.Add(1)
			go func(s, r int) {
				defer wg.Done()
				rng := newVerifRNG(seed*313 + uint64(s*100+r))
				for k := 0; k < per/rounds; k++ {
					m := &vdMsg{ID: uint64(s)<<32 | uint64(r*100000+k+1), Sender: s, Seq: k}
					if err := Tell(ctx, pid, m); err == nil {
						accepted.Add(1)
						idmu.Lock()
						ids[s] = append(ids[s], m.ID)
						idmu.Unlock()
					}
					if rng.intn(4) == 0 {
						runtime.Gosched()
					}
				}
			}(s, r)
		}
		// toggle while the senders are still running in some rounds, after them in others
		switch crng.intn(3) {
		case 0:
			wg.Wait()
		case 1:
			time.Sleep(time.Duration(50+crng.intn(200)) * time.Microsecond)
		}
		if crng.intn(2) == 0 {
			_ = Tell(ctx, pid, &vdCtl{Op: "unstash-one"})
			_ = Tell(ctx, pid, &vdCtl{Op: "stash-on"})
		}
		_ = Tell(ctx, pid, &vdCtl{Op: "unstash-all"})
		wg.Wait()
	}
	ok := vdWaitUntil(10*time.Second, func() bool {
		if rec.handledN.Load() >= accepted.Load() {
			return true
		}
		_ = Tell(ctx, pid, &vdCtl{Op: "unstash-all"})
		time.Sleep(2 * time.Millisecond)
		return false
	})
	out.Stalled = !ok
	out.Accepted, out.Handled, out.Overlaps = accepted.Load(), rec.handledN.Load(), rec.overlaps.Load()
	counts, _ := rec.snapshot()
	for s := range ids {
		for _, id := range ids[s] {
			switch c := counts[id]; {
			case c == 0:
				out.Lost++
			case c > 1:
				out.Dup += c - 1
			}
		}
	}
	return out
}

func vdS6(e *vdScenarioEnv) bool {
	if !e.alignTo(e.bound, 1) {
		e.out.Why = "could not align the mailbox to its boundary"
		return false
	}
	pa := newVdPauser(gpDeqAfterNil, 1, -1)
	pb := newVdPauser(gpEmptyAfter, 1, 0)
	e.gate.setHook(func(p vdGatePoint, b bool) { pa.hook(p, b); pb.hook(p, b) })
	defer pa.release()
	defer pb.release()
	if !e.tell(e.msg(false, false)) {
		return false
	}
	if !vdWait(pa.reached, 15*time.Second) {
		e.out.Why = "worker never observed an empty dequeue"
		return false
	}
	m1 := e.msg(false, true)
	if !e.tell(m1) { // TrySchedule fails: state is Processing
		return false
	}
	pa.release()
	if !vdWait(pb.reached, 15*time.Second) {
		e.out.Why = "worker did not see the message at the re-check"
		e.out.Stalled = !e.handled(m1.ID)
		return true
	}
	e.trace("worker paused after IsEmpty()==false, state " + c01StateNameLib(e.pid.schedState.Load()))
	m2 := e.msg(true, true)
	if !e.tell(m2) { // wins Idle->Scheduled, pushes a ticket; some worker takes it
		return false
	}
	vdWait(m1.Entered, 2*time.Second)
	e.trace(fmt.Sprintf("while the first worker is paused: m1 handled=%v", e.handled(m1.ID)))
	pb.release()
	time.Sleep(20 * time.Millisecond)
	m3 := e.msg(false, true)
	if !e.tell(m3) {
		return false
	}
	if vdWait(m2.Entered, 2*time.Second) && vdWait(m3.Entered, 150*time.Millisecond) {
		e.out.EarlyRun = true
	}
	return true
}
