//go:build verif

package actor

// C44 harness: the REAL workPullingProducerController, hosted by a shell actor on a real ActorSystem, is
// driven step by step through its real Receive. Worker endpoints and their consumer companions are real
// actors that really join (spawn), leave (shutdown, so registration fencing really fails afterwards) and
// re-join under a new incarnation; the harness plays the workers' protocol side (registrations, demand,
// confirmations, including stale and illegal traffic), the producer endpoint, the timer and the
// Terminated notices. After every step the traffic per recipient and the controller's observable fields
// are written in the encoding of coq/theories/C44/Model.v (enc_wobs). Uses the stand-ins of the C42 file.

import (
	"context"
	"fmt"
	"sort"
	"sync"
	"testing"
	"time"

	gerrors "github.com/tochemey/goakt/v4/errors"
	"github.com/tochemey/goakt/v4/internal/commands"
	"github.com/tochemey/goakt/v4/test/data/testpb"
)

// wpMemWorkQueue is a linearizable in-memory DurableWorkQueue following the interface contract.
type wpMemWorkQueue struct {
	mu         sync.Mutex
	epoch      QueueEpoch
	currentSeq int64
	stored     []UnconfirmedMessage
	confirmed  map[string]bool
}

func (x *wpMemWorkQueue) ID() string                     { return "wpMemWorkQueue" }
func (x *wpMemWorkQueue) MarshalBinary() ([]byte, error) { return []byte(x.ID()), nil }
func (x *wpMemWorkQueue) UnmarshalBinary([]byte) error   { return nil }

func (x *wpMemWorkQueue) Load(context.Context) (WorkQueueState, QueueEpoch, error) {
	x.mu.Lock()
	defer x.mu.Unlock()
	x.epoch++
	st, err := NewWorkQueueState(x.currentSeq, append([]UnconfirmedMessage(nil), x.stored...))
	return st, x.epoch, err
}

func (x *wpMemWorkQueue) Store(_ context.Context, epoch QueueEpoch, request StoreRequest) (StoreResult, error) {
	x.mu.Lock()
	defer x.mu.Unlock()
	if epoch != x.epoch {
		return StoreResult{}, gerrors.ErrQueueFenced
	}
	for _, m := range x.stored {
		if m.MessageID() == request.MessageID() {
			return NewStoreResult(m.Seq(), true, m.Payload())
		}
	}
	if request.ProposedSeq() != x.currentSeq+1 {
		return StoreResult{}, gerrors.ErrQueueConflict
	}
	m, err := NewUnconfirmedMessage(request.MessageID(), request.ProposedSeq(), request.Payload())
	if err != nil {
		return StoreResult{}, err
	}
	x.currentSeq++
	x.stored = append(x.stored, m)
	return NewStoreResult(m.Seq(), false, m.Payload())
}

func (x *wpMemWorkQueue) Accept(_ context.Context, epoch QueueEpoch, _ string) error {
	x.mu.Lock()
	defer x.mu.Unlock()
	if epoch != x.epoch {
		return gerrors.ErrQueueFenced
	}
	return nil
}

func (x *wpMemWorkQueue) ConfirmMessage(_ context.Context, epoch QueueEpoch, messageID string) error {
	x.mu.Lock()
	defer x.mu.Unlock()
	if epoch != x.epoch {
		return gerrors.ErrQueueFenced
	}
	if x.confirmed == nil {
		x.confirmed = map[string]bool{}
	}
	x.confirmed[messageID] = true
	for k, m := range x.stored {
		if m.MessageID() == messageID {
			x.stored = append(x.stored[:k:k], x.stored[k+1:]...)
			break
		}
	}
	return nil
}

type wpOp struct {
	Op    string  `json:"op"` // Register Request Ack Produced StoredAck Tick Terminated Join Leave
	Ctrl  int64   `json:"ctrl,omitempty"`
	Auth  bool    `json:"auth,omitempty"`
	S     int64   `json:"s,omitempty"`
	N     int64   `json:"n,omitempty"`
	C     int64   `json:"c,omitempty"`
	U     int64   `json:"u,omitempty"`
	V     bool    `json:"v,omitempty"`
	T     int64   `json:"t,omitempty"`
	M     int64   `json:"m,omitempty"`
	Stale bool    `json:"stale,omitempty"`
	Alive []int64 `json:"alive"` // companions whose mailbox is observed at this step (ascending)
}

type wpCase struct {
	ID             string    `json:"id"`
	Mode           string    `json:"mode"`
	Notify         bool      `json:"notify"`
	Window         int       `json:"window"`
	Ops            []wpOp    `json:"ops"` // model inputs only (Join/Leave are environment events, recorded in Events)
	Obs            [][]int64 `json:"obs"`
	Events         []string  `json:"events"`
	Durable        bool      `json:"durable"`
	QueueConfirmed []int64   `json:"queue_confirmed"` // message numbers the durable work queue holds as confirmed at the end
	QueueLeft      []int64   `json:"queue_left"`      // message numbers still stored (unconfirmed) in the queue at the end
	Failed         bool      `json:"failed"`
	Panic          string    `json:"panic,omitempty"` // the controller Receive panicked at the last recorded op
	Error          string    `json:"error,omitempty"`
}

type wpWorker struct {
	w        int64
	gen      int64
	ctrl     int64
	endpoint *PID
	comp     *PID
	rec      *rdRecorder
	alive    bool
	// the simulated worker-side controller
	nonce    int64
	sess     int64
	conf     int64
	got      map[int64]bool
	lastUpTo int64
}

type wpWorld struct {
	ctx      context.Context
	sys      *actorSystem
	tag      string
	ids      *rdIDs
	prodRec  *rdRecorder
	prod     *PID
	wp       *workPullingProducerController
	sh       *rdShell
	pid      *PID
	workers  map[int64]*wpWorker // by ctrl id, every generation ever created
	current  map[int64]*wpWorker // by worker number: latest generation
	newProd  []any
	queue    *wpMemWorkQueue
	results  []any
	panicked string
}

func newWpWorld(ctx context.Context, sys *actorSystem, tag string, notify bool, durable bool) (*wpWorld, error) {
	w := &wpWorld{ctx: ctx, sys: sys, tag: tag, ids: newRdIDs(), prodRec: &rdRecorder{}, workers: map[int64]*wpWorker{}, current: map[int64]*wpWorker{}}
	var err error
	if w.prod, err = sys.Spawn(ctx, "vwprod-"+tag, w.prodRec); err != nil {
		return nil, err
	}
	conf := &reliableProducerConfig{workPulling: true, retryInterval: time.Hour, deliveryConfirmation: notify,
		queueRetry: &reliableQueueRetryConfig{maxAttempts: 1, initialBackoff: time.Millisecond}}
	if durable {
		w.queue = &wpMemWorkQueue{}
		w.wp = newWorkPullingProducerController(w.prod, conf, w.queue)
	} else {
		w.wp = newWorkPullingProducerController(w.prod, conf, nil)
	}
	w.sh = &rdShell{inner: w.wp, started: make(chan struct{})}
	if w.pid, err = sys.Spawn(ctx, "vwp-"+tag, w.sh); err != nil {
		return nil, err
	}
	select {
	case <-w.sh.started:
	case <-time.After(10 * time.Second):
		return nil, fmt.Errorf("controller PostStart not processed")
	}
	w.ids.sess = w.wp.sessionID
	return w, nil
}

func (w *wpWorld) workerName(n int64) string { return fmt.Sprintf("vw%d-%s", n, w.tag) }

// join spawns worker endpoint n under a fresh incarnation together with its consumer companion stand-in.
func (w *wpWorld) join(n int64) (*wpWorker, error) {
	gen := int64(1)
	if old := w.current[n]; old != nil {
		if old.alive {
			return old, nil
		}
		gen = old.gen + 1
	}
	if gen > 15 {
		return nil, nil
	}
	ep, err := w.sys.Spawn(w.ctx, w.workerName(n), &rdRecorder{})
	if err != nil {
		return nil, err
	}
	if old := w.current[n]; old != nil && (old.endpoint == ep || !ep.IsRunning()) {
		return nil, fmt.Errorf("worker %d did not re-join under a new incarnation", n)
	}
	ep.reliableDelivery = &reliableDeliveryConfig{consumer: &reliableConsumerConfig{producerName: w.prod.Name(), flowControlWindow: 4, resendInterval: time.Hour}}
	spec, err := newReliableCompanionSpec(ReliableControllerRoleConsumer, ep.Name(), ep.IncarnationID())
	if err != nil {
		return nil, err
	}
	rec := &rdRecorder{}
	comp, err := w.sys.Spawn(w.ctx, reliableCompanionName(ReliableControllerRoleConsumer, ep.IncarnationID()), rec, asSystem(), asReliableCompanion(spec))
	if err != nil {
		return nil, err
	}
	wk := &wpWorker{w: n, gen: gen, ctrl: 16*n + gen, endpoint: ep, comp: comp, rec: rec, alive: true, got: map[int64]bool{}}
	w.workers[wk.ctrl] = wk
	w.current[n] = wk
	return wk, nil
}

func (w *wpWorld) leave(wk *wpWorker) {
	if !wk.alive {
		return
	}
	rdFlush(w.ctx, wk.comp)
	wk.rec.take()
	compName, epName := wk.comp.Name(), wk.endpoint.Name()
	_ = wk.comp.Shutdown(w.ctx)
	_ = wk.endpoint.Shutdown(w.ctx)
	wk.alive = false
	// the names are released from the actor tree asynchronously: wait, so that a re-join really is a new incarnation
	deadline := time.Now().Add(10 * time.Second)
	for time.Now().Before(deadline) {
		_, a := w.sys.actors.nodeByName(compName)
		_, b := w.sys.actors.nodeByName(epName)
		if !a && !b {
			break
		}
		time.Sleep(200 * time.Microsecond)
	}
	w.collectResults()
}

func (w *wpWorld) close() {
	if w.pid != nil && w.pid.IsRunning() {
		_ = w.pid.Shutdown(w.ctx)
	}
	for _, wk := range w.workers {
		if wk.alive {
			_ = wk.comp.Shutdown(w.ctx)
			_ = wk.endpoint.Shutdown(w.ctx)
		}
	}
	if w.prod != nil && w.prod.IsRunning() {
		_ = w.prod.Shutdown(w.ctx)
	}
}

func (w *wpWorld) aliveCtrls() []int64 {
	var out []int64
	for c, wk := range w.workers {
		if wk.alive {
			out = append(out, c)
		}
	}
	sort.Slice(out, func(i, j int) bool { return out[i] < out[j] })
	return out
}

func (w *wpWorld) ctrlOf(p *PID) int64 {
	for c, wk := range w.workers {
		if wk.comp == p || wk.comp.Equals(p) {
			return c
		}
	}
	return -7
}

func (w *wpWorld) nameNum(name string) int64 {
	for n := int64(0); n < 16; n++ {
		if w.workerName(n) == name {
			return n
		}
	}
	return -9
}

func (w *wpWorld) encMsg(m any) []int64 {
	ids := w.ids
	switch x := m.(type) {
	case *commands.RegistrationAck:
		return []int64{1, ids.sessN(x.SessionID()), x.NextSeq(), ids.nonceN(x.Nonce())}
	case *commands.SequencedMessage:
		return []int64{2, ids.sessN(x.SessionID()), rdMidN(x.MessageID()), x.Seq()}
	case *RequestNext:
		return []int64{3, ids.sessN(x.SessionID()), ids.tokN(x.Token())}
	case *Stored:
		return []int64{4, ids.sessN(x.SessionID()), ids.tokN(x.Token()), rdMidN(x.MessageID()), x.Seq()}
	case *DeliveryConfirmed:
		return []int64{5, ids.sessN(x.SessionID()), rdMidN(x.MessageID()), x.Seq()}
	}
	return []int64{99}
}

func (w *wpWorld) collectResults() {
	if w.queue == nil {
		return
	}
	deadline := time.Now().Add(5 * time.Second)
	for {
		for _, m := range w.sh.takeStray() {
			if r, ok := m.(*queueOpResult); ok {
				w.results = append(w.results, r)
			}
		}
		if !w.wp.opInFlight || len(w.results) > 0 || !w.pid.IsRunning() || time.Now().After(deadline) {
			return
		}
		time.Sleep(50 * time.Microsecond)
	}
}

// observe: traffic per alive companion (ascending id), to the producer endpoint, and the controller state.
func (w *wpWorld) observe(alive []int64, shut bool) []int64 {
	w.collectResults()
	var out []int64
	for _, c := range alive {
		wk := w.workers[c]
		rdFlush(w.ctx, wk.comp)
		out = append(out, 120, c)
		for _, m := range wk.rec.take() {
			out = append(out, w.encMsg(m)...)
			wk.receive(w, m)
		}
	}
	rdFlush(w.ctx, w.prod)
	toProd := w.prodRec.take()
	w.newProd = toProd
	out = append(out, 121)
	for _, m := range toProd {
		out = append(out, w.encMsg(m)...)
	}
	out = append(out, 122, rdB(shut))
	x := w.wp
	out = append(out, 300, x.storeSeq, int64(len(x.pending)))
	for _, p := range x.pending {
		out = append(out, rdMidN(p.messageID), p.storeSeq)
	}
	out = append(out, 301, int64(len(x.bindings)), int64(len(x.bindingOrder)), int64(x.nextWorker))
	for _, name := range x.bindingOrder {
		b := x.bindings[name]
		if b == nil {
			out = append(out, -1, w.nameNum(name))
			continue
		}
		out = append(out, w.nameNum(b.endpointName), w.ctrlOf(b.controller), w.ids.nonceN(b.registrationNonce), b.currentSeq, b.confirmedSeq, b.demandUpTo, int64(len(b.unconfirmed)))
		for _, d := range b.unconfirmed {
			out = append(out, rdMidN(d.messageID), d.workerSeq, d.storeSeq)
		}
	}
	return append(out, 302, int64(x.handshake), w.ids.tokN(x.token), rdMidN(x.pendingMessageID), x.pendingStoreSeq, rdB(x.storedMessage != nil),
		w.ids.tokN(x.lastCompletedToken), rdMidN(x.lastCompletedMessageID), rdB(x.failed))
}

// receive updates the simulated worker-side controller with what the real controller sent it.
func (wk *wpWorker) receive(w *wpWorld, m any) {
	switch x := m.(type) {
	case *commands.RegistrationAck:
		if w.ids.nonceN(x.Nonce()) == wk.nonce && wk.sess == 0 {
			wk.sess = w.ids.sessN(x.SessionID())
			wk.conf = x.NextSeq() - 1
		}
	case *commands.SequencedMessage:
		wk.got[x.Seq()] = true
	}
}

func (w *wpWorld) step(sender *PID, msg any, alive []int64) []int64 {
	was := w.pid.IsRunning()
	func() {
		defer func() {
			if r := recover(); r != nil {
				w.panicked = fmt.Sprint(r)
			}
		}()
		w.wp.Receive(&ReceiveContext{ctx: w.ctx, message: msg, sender: sender, self: w.pid})
	}()
	if w.panicked != "" {
		return []int64{-99}
	}
	return w.observe(alive, was && !w.pid.IsRunning())
}

func (w *wpWorld) apply(o wpOp) ([]int64, error) {
	ids := w.ids
	sender := func() *PID {
		if wk := w.workers[o.Ctrl]; wk != nil {
			return wk.comp
		}
		return w.prod
	}
	switch o.Op {
	case "Register":
		m, err := commands.NewRegisterConsumer(ids.nonceS(o.N))
		if err != nil {
			return nil, err
		}
		return w.step(sender(), m, o.Alive), nil
	case "Request":
		m, err := commands.NewRequest(ids.sessS(o.S), ids.nonceS(o.N), o.C, o.U, o.V)
		if err != nil {
			return nil, err
		}
		return w.step(sender(), m, o.Alive), nil
	case "Ack":
		m, err := commands.NewAck(ids.sessS(o.S), ids.nonceS(o.N), o.C)
		if err != nil {
			return nil, err
		}
		return w.step(sender(), m, o.Alive), nil
	case "Produced":
		from := w.prod
		if !o.Auth {
			from = w.pid
		}
		return w.step(from, &Produced{sessionID: ids.sessS(o.S), token: ids.tokS(o.T), messageID: rdMidS(o.M), payload: &testpb.Reply{Content: rdMidS(o.M)}}, o.Alive), nil
	case "StoredAck":
		from := w.prod
		if !o.Auth {
			from = w.pid
		}
		return w.step(from, &StoredAck{sessionID: ids.sessS(o.S), token: ids.tokS(o.T), messageID: rdMidS(o.M)}, o.Alive), nil
	case "QueueResult":
		if len(w.results) == 0 {
			return w.observe(o.Alive, false), nil
		}
		r := w.results[0]
		w.results = w.results[1:]
		return w.step(w.pid, r, o.Alive), nil
	case "Tick":
		g := w.wp.generation
		if o.Stale {
			g += 5
		}
		return w.step(w.pid, &producerControllerTick{generation: g}, o.Alive), nil
	case "Restart":
		// what the supervisor does on a restart directive: the same actor instance goes through PreStart again
		// (state reset, durable state reloaded) and receives PostStart; workers stay attached and re-register
		if err := w.wp.PreStart(newContext(w.ctx, w.pid.Name(), w.sys)); err != nil {
			return nil, err
		}
		w.ids.sess = w.wp.sessionID
		w.results = nil
		return w.step(w.sys.NoSender(), new(PostStart), o.Alive), nil
	case "Terminated":
		wk := w.workers[o.Ctrl]
		if wk == nil {
			return nil, fmt.Errorf("unknown companion %d", o.Ctrl)
		}
		return w.step(w.sys.NoSender(), NewTerminated(wk.comp.Path()), o.Alive), nil
	}
	return nil, fmt.Errorf("unknown op %+v", o)
}

// ---------------------------------------------------------------- schedule generation

type wpSched struct {
	w         *wpWorld
	r         *verifRNG
	c         *wpCase
	mode      string
	window    int64
	nWorkers  int64
	prodInbox []any
	answered  map[string]int64
	nextJob   int64
	nextNonce int64
	pendingT  []int64 // companions that left and whose Terminated notice has not been delivered yet
	producing bool
}

func (s *wpSched) do(o wpOp) bool {
	o.Alive = s.w.aliveCtrls()
	if o.Alive == nil {
		o.Alive = []int64{}
	}
	if o.Op == "Register" {
		// the registration fence is the environment's oracle: record what the real system answers right now
		// (a worker that re-joined a moment ago may still resolve to its previous incarnation)
		o.Auth = false
		if wk := s.w.workers[o.Ctrl]; wk != nil {
			_, _, err := s.w.sys.authenticateWorkPullingWorker(s.w.ctx, wk.comp, s.w.prod.Name())
			o.Auth = err == nil
		}
	}
	obs, err := s.w.apply(o)
	if err != nil {
		s.c.Error = err.Error()
		return false
	}
	s.c.Ops = append(s.c.Ops, o)
	if s.w.panicked != "" {
		s.c.Panic = s.w.panicked
		return false
	}
	s.c.Obs = append(s.c.Obs, obs)
	s.prodInbox = append(s.prodInbox, s.w.newProd...)
	s.w.newProd = nil
	if s.w.wp.failed || !s.w.pid.IsRunning() {
		s.c.Failed = true
		return false
	}
	return true
}

func (s *wpSched) event(f string, a ...any) {
	s.c.Events = append(s.c.Events, fmt.Sprintf("%d:", len(s.c.Ops))+fmt.Sprintf(f, a...))
}

func (s *wpSched) producerHandle() (wpOp, bool) {
	for len(s.prodInbox) > 0 {
		m := s.prodInbox[0]
		s.prodInbox = s.prodInbox[1:]
		switch x := m.(type) {
		case *RequestNext:
			job, ok := s.answered[x.Token()]
			if !ok {
				if !s.producing {
					continue
				}
				s.nextJob++
				job = s.nextJob
				s.answered[x.Token()] = job
			}
			return wpOp{Op: "Produced", Auth: true, S: s.w.ids.sessN(x.SessionID()), T: s.w.ids.tokN(x.Token()), M: job}, true
		case *Stored:
			return wpOp{Op: "StoredAck", Auth: true, S: s.w.ids.sessN(x.SessionID()), T: s.w.ids.tokN(x.Token()), M: rdMidN(x.MessageID())}, true
		}
	}
	return wpOp{}, false
}

func (s *wpSched) anyWorker(aliveOnly bool) *wpWorker {
	var cs []int64
	for c, wk := range s.w.workers {
		if wk.alive || !aliveOnly {
			cs = append(cs, c)
		}
	}
	if len(cs) == 0 {
		return nil
	}
	sort.Slice(cs, func(i, j int) bool { return cs[i] < cs[j] })
	return s.w.workers[cs[s.r.intn(len(cs))]]
}

// workerOp lets a worker-side controller say something: usually what a correct one would say
// (register, grant demand with its contiguous confirmations, ack), sometimes stale or illegal traffic.
func (s *wpSched) workerOp(hostile bool) (wpOp, bool) {
	r := s.r
	wk := s.anyWorker(!hostile || r.intn(4) != 0)
	if wk == nil {
		return wpOp{}, false
	}
	advance := func() {
		for wk.got[wk.conf+1] && r.intn(4) != 0 {
			wk.conf++
		}
	}
	sess := wk.sess
	if sess == 0 {
		sess = 1
	}
	x := r.intn(100)
	switch {
	case wk.nonce == 0 || x < 10:
		s.nextNonce++
		wk.nonce = s.nextNonce
		return wpOp{Op: "Register", Ctrl: wk.ctrl, Auth: wk.alive, N: wk.nonce}, true
	case hostile && x < 22:
		// stale or illegal traffic
		switch r.intn(5) {
		case 0:
			return wpOp{Op: "Request", Ctrl: wk.ctrl, S: sess, N: wk.nonce, C: wk.conf + 50, U: wk.conf + 50 + s.window, V: false}, true
		case 1:
			return wpOp{Op: "Request", Ctrl: wk.ctrl, S: sess, N: wk.nonce + 1000, C: wk.conf, U: wk.conf + s.window, V: true}, true
		case 2:
			return wpOp{Op: "Ack", Ctrl: wk.ctrl, S: 9, N: wk.nonce, C: wk.conf}, true
		case 3:
			return wpOp{Op: "Request", Ctrl: wk.ctrl, S: sess, N: wk.nonce, C: wk.conf, U: wk.conf + 10001, V: false}, true
		}
		return wpOp{Op: "Ack", Ctrl: wk.ctrl, S: sess, N: wk.nonce, C: wk.conf + 40}, true
	case x < 70:
		advance()
		via := r.intn(3) == 0
		u := wk.conf + s.window
		if r.intn(8) == 0 {
			u = wk.conf + int64(r.intn(int(s.window)+1)) // a smaller (older) grant arriving late
		}
		wk.lastUpTo = u
		return wpOp{Op: "Request", Ctrl: wk.ctrl, S: sess, N: wk.nonce, C: wk.conf, U: u, V: via}, true
	default:
		advance()
		c := wk.conf
		if r.intn(6) == 0 && c > 0 {
			c -= int64(r.intn(int(c)) + 1) // an old confirmation arriving late
		}
		return wpOp{Op: "Ack", Ctrl: wk.ctrl, S: sess, N: wk.nonce, C: c}, true
	}
}

func (s *wpSched) next() (wpOp, bool) {
	r := s.r
	hostile := s.mode == "hostile"
	churn := 4
	if s.mode == "churn" {
		churn = 14
	}
	if len(s.w.results) > 0 && r.intn(100) < 35 {
		return wpOp{Op: "QueueResult"}, true
	}
	if s.w.queue != nil && r.intn(100) < 2 {
		// a supervised restart of the producer controller with its workers attached (durable flow: the accepted
		// jobs are reloaded from the queue); every worker-side controller sees a new session and starts over
		for _, wk := range s.w.workers {
			wk.sess, wk.conf, wk.nonce = 0, 0, 0
			wk.got = map[int64]bool{}
		}
		s.prodInbox = nil
		s.event("restart")
		return wpOp{Op: "Restart"}, true
	}
	if r.intn(100) < 3 {
		// a worker-side controller loses its state (it restarted under the same PID and the producer side missed
		// it): it registers afresh and adopts whatever next sequence the producer controller tells it
		if wk := s.anyWorker(true); wk != nil {
			wk.sess, wk.conf = 0, 0
			wk.got = map[int64]bool{}
			s.nextNonce++
			wk.nonce = s.nextNonce
			s.event("stateloss %d", wk.ctrl)
			return wpOp{Op: "Register", Ctrl: wk.ctrl, Auth: true, N: wk.nonce}, true
		}
	}
	x := r.intn(100)
	switch {
	case x < churn:
		n := int64(r.intn(int(s.nWorkers))) + 1
		cur := s.w.current[n]
		if cur != nil && cur.alive {
			s.w.leave(cur)
			s.pendingT = append(s.pendingT, cur.ctrl)
			s.event("leave %d", cur.ctrl)
		} else {
			wk, err := s.w.join(n)
			if err != nil {
				s.c.Error = "join: " + err.Error()
				return wpOp{}, false
			}
			if wk != nil {
				s.event("join %d", wk.ctrl)
			}
		}
		return wpOp{}, false
	case x < churn+6 && len(s.pendingT) > 0:
		k := r.intn(len(s.pendingT))
		c := s.pendingT[k]
		s.pendingT = append(s.pendingT[:k], s.pendingT[k+1:]...)
		return wpOp{Op: "Terminated", Ctrl: c}, true
	case x < churn+8:
		return wpOp{Op: "Tick", Stale: r.intn(5) == 0}, true
	case x < churn+9 && hostile:
		if wk := s.anyWorker(true); wk != nil && r.intn(3) == 0 {
			return wpOp{Op: "Terminated", Ctrl: wk.ctrl}, true // a spurious notice for a live companion
		}
		switch r.intn(3) {
		case 0:
			return wpOp{Op: "Produced", Auth: true, S: 1, T: s.w.ids.tokN(s.w.wp.token), M: 700 + int64(r.intn(3))}, true
		case 1:
			return wpOp{Op: "Produced", Auth: false, S: 1, T: s.w.ids.tokN(s.w.wp.token), M: 701}, true
		}
		return wpOp{Op: "StoredAck", Auth: true, S: 1, T: 100000, M: 702}, true
	case x < churn+40:
		return s.producerHandle()
	default:
		return s.workerOp(hostile)
	}
}

func wpRunCase(ctx context.Context, sys *actorSystem, p wpPlan) *wpCase {
	c := &wpCase{ID: p.ID, Mode: p.Mode, Notify: p.Notify, Window: p.Window, Events: []string{}, Durable: p.Durable}
	w, err := newWpWorld(ctx, sys, p.ID, p.Notify, p.Durable)
	if err != nil {
		c.Error = "setup: " + err.Error()
		return c
	}
	defer w.close()
	s := &wpSched{w: w, r: newVerifRNG(p.Seed), c: c, mode: p.Mode, window: int64(p.Window), nWorkers: int64(p.Workers), answered: map[string]int64{}, producing: true}
	c.Obs = append(c.Obs, w.observe([]int64{}, false))
	if p.Ops != nil {
		// scripted replay: Join/Leave events are interleaved by position
		ev := map[int][]string{}
		for _, e := range p.Events {
			var at int
			var what string
			var id int64
			if _, err := fmt.Sscanf(e, "%d:%s %d", &at, &what, &id); err == nil {
				ev[at] = append(ev[at], fmt.Sprintf("%s %d", what, id))
			}
		}
		runEvents := func(at int) {
			for _, e := range ev[at] {
				var what string
				var id int64
				fmt.Sscanf(e, "%s %d", &what, &id)
				if what == "join" {
					if _, err := w.join(id / 16); err == nil {
						s.event("join %d", id)
					}
				} else if wk := w.workers[id]; wk != nil {
					w.leave(wk)
					s.event("leave %d", id)
				}
			}
		}
		for k, o := range p.Ops {
			runEvents(k)
			if !s.do(o) {
				break
			}
		}
		s.settle()
		return c
	}
	for n := int64(1); n <= s.nWorkers; n++ {
		if s.r.intn(3) != 0 {
			if wk, err := w.join(n); err == nil && wk != nil {
				s.event("join %d", wk.ctrl)
			}
		}
	}
	for k := 0; k < p.Steps; {
		o, ok := s.next()
		if c.Error != "" {
			break
		}
		if !ok {
			k++
			continue
		}
		k++
		if !s.do(o) {
			break
		}
	}
	s.settle()
	return c
}

// settle lets every outstanding durable operation complete and reach the controller (the storage lane is
// asynchronous but not lossy), then records what the queue holds.
func (s *wpSched) settle() {
	if s.w.queue == nil {
		return
	}
	for guard := 0; guard < 500 && !s.c.Failed && s.c.Error == ""; guard++ {
		s.w.collectResults()
		if len(s.w.results) == 0 {
			break
		}
		if !s.do(wpOp{Op: "QueueResult"}) {
			break
		}
	}
	q := s.w.queue
	q.mu.Lock()
	defer q.mu.Unlock()
	for id := range q.confirmed {
		s.c.QueueConfirmed = append(s.c.QueueConfirmed, rdMidN(id))
	}
	sort.Slice(s.c.QueueConfirmed, func(i, j int) bool { return s.c.QueueConfirmed[i] < s.c.QueueConfirmed[j] })
	for _, m := range q.stored {
		s.c.QueueLeft = append(s.c.QueueLeft, rdMidN(m.MessageID()))
	}
}

type wpPlan struct {
	ID      string   `json:"id"`
	Mode    string   `json:"mode"`
	Notify  bool     `json:"notify"`
	Window  int      `json:"window"`
	Workers int      `json:"workers"`
	Steps   int      `json:"steps"`
	Seed    uint64   `json:"seed"`
	Durable bool     `json:"durable,omitempty"`
	Ops     []wpOp   `json:"ops,omitempty"`
	Events  []string `json:"events,omitempty"`
}

// TestVerifC44 runs the case plans written by checks/C44.py.
func TestVerifC44(t *testing.T) {
	plans := verifReadJSONL[wpPlan](t, "c44_plans.jsonl")
	out := newVerifWriter(t, "c44_cases.jsonl")
	defer out.close()
	ctx, sys := rdSystem(t)
	for _, p := range plans {
		out.put(wpRunCase(ctx, sys, p))
	}
}
