//go:build verif

package actor
