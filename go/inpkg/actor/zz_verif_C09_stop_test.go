//go:build verif

package actor

// C09 harness, part 2: scripted stop/spawn scenarios on REAL actor systems. PostStop (and, for
// gated spawns, PreStart) of the instrumented actors block at gates the driver controls, so the
// interleaving of the stop protocol is the scripted one. After every driver action the harness
// waits until the system is quiescent (what the generator expects, or a timeout) and records what
// the public/in-package accessors show: who sits in PostStop, IsRunning, PostStop completed, tree
// registration and children. All lifecycle events carry a timestamp from one atomic counter.

import (
	"context"
	"fmt"
	"sort"
	"sync"
	"sync/atomic"
	"testing"
	"time"

	"github.com/tochemey/goakt/v4/log"
)

type c09Scenario struct {
	N       int       `json:"n"`
	Gated   []int     `json:"gated"`
	Actions [][]any   `json:"actions"`
	Expect  [][][]int `json:"expect"`
}

type c09Event struct {
	Seq  int64  `json:"seq"`
	Kind string `json:"kind"` // pre, postb, poste, call, ret, spawncall, spawnret
	A    int    `json:"a"`
	Err  string `json:"err,omitempty"`
}

type c09ScStep struct {
	F       int     `json:"f"`
	O       [][]int `json:"o"`
	Timeout bool    `json:"timeout"`
}

type c09ScOut struct {
	Steps  []c09ScStep `json:"steps"`
	Events []c09Event  `json:"events"`
}

type c09World struct {
	mu        sync.Mutex
	seq       atomic.Int64
	events    []c09Event
	n         int
	pids      []*PID
	postGate  []chan struct{}
	preGate   []chan struct{}
	postGated []bool
	preGated  []bool
	postBegan []atomic.Bool
	postEnded []atomic.Bool
	preBegan  []chan struct{}
	spawnDone []chan error
	closedPo  []bool
	closedPr  []bool
	restarting atomic.Bool // a driver restart is in progress: lifecycle events belong to the restart
}

func (w *c09World) log(kind string, a int, err error) {
	e := c09Event{Seq: w.seq.Add(1), Kind: kind, A: a}
	if err != nil {
		e.Err = err.Error()
	}
	w.mu.Lock()
	w.events = append(w.events, e)
	w.mu.Unlock()
}

type c09Actor struct {
	id int
	w  *c09World
}

func (a *c09Actor) PreStart(ctx *Context) error {
	if a.w.restarting.Load() {
		// second incarnation: wait until the death watch has handled the Terminated of the shutdown
		// embedded in the restart (the old registration is gone), so that its timing is not part of
		// the scenario
		tr := ctx.ActorSystem().(*actorSystem).tree()
		deadline := time.Now().Add(3 * time.Second)
		for time.Now().Before(deadline) {
			if _, ok := tr.nodeByName(ctx.ActorName()); !ok {
				break
			}
			time.Sleep(200 * time.Microsecond)
		}
		a.w.log("r_pre", a.id, nil)
		return nil
	}
	if a.w.preGated[a.id] {
		select {
		case a.w.preBegan[a.id] <- struct{}{}:
		default:
		}
		<-a.w.preGate[a.id]
	}
	a.w.log("pre", a.id, nil)
	return nil
}

func (a *c09Actor) Receive(ctx *ReceiveContext) {}

func (a *c09Actor) PostStop(*Context) error {
	if a.w.restarting.Load() {
		a.w.log("r_postb", a.id, nil)
		a.w.log("r_poste", a.id, nil)
		return nil
	}
	a.w.log("postb", a.id, nil)
	a.w.postBegan[a.id].Store(true)
	if a.w.postGated[a.id] {
		<-a.w.postGate[a.id]
	}
	a.w.postEnded[a.id].Store(true)
	a.w.log("poste", a.id, nil)
	return nil
}

func (w *c09World) setPID(i int, p *PID) {
	w.mu.Lock()
	w.pids[i] = p
	w.mu.Unlock()
}

func (w *c09World) pid(i int) *PID {
	w.mu.Lock()
	defer w.mu.Unlock()
	return w.pids[i]
}

func (w *c09World) index(p *PID) int {
	w.mu.Lock()
	defer w.mu.Unlock()
	for i, q := range w.pids {
		if q != nil && q.ID() == p.ID() {
			return i
		}
	}
	return 99
}

func (w *c09World) observe(sys ActorSystem) [][]int {
	tr := sys.tree()
	out := make([][]int, 0, 2*w.n)
	for i := 0; i < w.n; i++ {
		p := w.pid(i)
		if p == nil {
			out = append(out, []int{0, 0, 0, 0}, []int{})
			continue
		}
		b2 := func(b bool) int {
			if b {
				return 1
			}
			return 0
		}
		_, reg := tr.node(p.ID())
		if reg {
			// the node must be THIS incarnation
			if n, ok := tr.node(p.ID()); ok && n.value() != p {
				reg = false
			}
		}
		out = append(out, []int{b2(w.postBegan[i].Load() && !w.postEnded[i].Load()), b2(c09Alive(p)), b2(w.postEnded[i].Load()), b2(reg)})
		ch := []int{}
		for _, c := range tr.children(p) {
			ch = append(ch, w.index(c))
		}
		sort.Ints(ch)
		out = append(out, ch)
	}
	return out
}

// alive: the running bit is set and no stop is in progress (a suspended actor is alive)
func c09Alive(p *PID) bool {
	return p.IsRunning() || (p.IsSuspended() && p.isStateSet(runningState) && !p.isStateSet(stoppingState))
}

func c09ObsEq(a, b [][]int) bool {
	if len(a) != len(b) {
		return false
	}
	for i := range a {
		if len(a[i]) != len(b[i]) {
			return false
		}
		for j := range a[i] {
			if a[i][j] != b[i][j] {
				return false
			}
		}
	}
	return true
}

func c09RunScenario(t *testing.T, idx int, sc c09Scenario) c09ScOut {
	ctx := context.Background()
	sys, err := NewActorSystem(fmt.Sprintf("verifC09s%d", idx), WithLogger(log.DiscardLogger))
	if err != nil {
		t.Fatal(err)
	}
	if err := sys.Start(ctx); err != nil {
		t.Fatal(err)
	}
	n := sc.N
	w := &c09World{n: n, pids: make([]*PID, n), postGate: make([]chan struct{}, n), preGate: make([]chan struct{}, n),
		postGated: make([]bool, n), preGated: make([]bool, n), postBegan: make([]atomic.Bool, n), postEnded: make([]atomic.Bool, n),
		preBegan: make([]chan struct{}, n), spawnDone: make([]chan error, n), closedPo: make([]bool, n), closedPr: make([]bool, n)}
	for i := 0; i < n; i++ {
		w.postGate[i] = make(chan struct{})
		w.preGate[i] = make(chan struct{})
		w.preBegan[i] = make(chan struct{}, 1)
		w.spawnDone[i] = make(chan error, 1)
	}
	for _, g := range sc.Gated {
		w.postGated[g] = true
	}
	root, err := sys.Spawn(ctx, "a0", &c09Actor{id: 0, w: w})
	if err != nil {
		t.Fatal(err)
	}
	w.setPID(0, root)
	out := c09ScOut{}
	name := func(i int) string { return fmt.Sprintf("a%d", i) }
	for ai, act := range sc.Actions {
		kind, _ := act[0].(string)
		flag := 0
		switch kind {
		case "spawn":
			p, c := c09Int(act[1]), c09Int(act[2])
			pp := w.pid(p)
			if pp == nil {
				flag = 1
				break
			}
			w.log("spawncall", c, nil)
			cp, err := pp.SpawnChild(ctx, name(c), &c09Actor{id: c, w: w})
			w.log("spawnret", c, err)
			if err != nil {
				flag = 1
			} else {
				w.setPID(c, cp)
			}
		case "spawn_gated":
			p, c := c09Int(act[1]), c09Int(act[2])
			pp := w.pid(p)
			if pp == nil {
				flag = 1
				break
			}
			w.preGated[c] = true
			w.log("spawncall", c, nil)
			early := make(chan error, 1)
			go func() {
				cp, err := pp.SpawnChild(ctx, name(c), &c09Actor{id: c, w: w})
				w.log("spawnret", c, err)
				if err == nil {
					w.setPID(c, cp)
				}
				early <- err
				w.spawnDone[c] <- err
			}()
			select {
			case <-w.preBegan[c]:
			case err := <-early:
				if err != nil {
					flag = 1
				}
			case <-time.After(3 * time.Second):
				flag = 7
			}
		case "spawn_release":
			c := c09Int(act[1])
			if !w.closedPr[c] {
				w.closedPr[c] = true
				close(w.preGate[c])
			}
			select {
			case <-w.spawnDone[c]:
			case <-time.After(3 * time.Second):
				flag = 7
			}
		case "stop":
			a := c09Int(act[1])
			pp := w.pid(a)
			if pp != nil {
				w.log("call", a, nil)
				go func() {
					err := pp.Shutdown(ctx)
					w.log("ret", a, err)
				}()
			}
		case "suspend":
			// what the supervision path does to a faulty actor it has no directive for
			a := c09Int(act[1])
			pp := w.pid(a)
			if pp == nil || !pp.IsRunning() {
				flag = 1
				break
			}
			pp.suspend("verif: fault without directive")
		case "restart":
			a := c09Int(act[1])
			pp := w.pid(a)
			if pp == nil || !pp.IsRunning() {
				flag = 1
				break
			}
			w.restarting.Store(true)
			w.log("restartcall", a, nil)
			err := pp.Restart(ctx)
			w.log("restartret", a, err)
			w.restarting.Store(false)
			if err != nil {
				flag = 1
			}
		case "release":
			a := c09Int(act[1])
			if !w.postBegan[a].Load() || w.closedPo[a] {
				flag = 1
			} else {
				w.closedPo[a] = true
				close(w.postGate[a])
			}
		}
		// wait for quiescence: the expected observation, stable, or a timeout
		var obs [][]int
		timeout := false
		deadline := time.Now().Add(4 * time.Second)
		for {
			obs = w.observe(sys)
			if ai < len(sc.Expect) && c09ObsEq(obs, sc.Expect[ai]) {
				time.Sleep(3 * time.Millisecond)
				o2 := w.observe(sys)
				if c09ObsEq(o2, obs) {
					break
				}
				continue
			}
			if time.Now().After(deadline) {
				timeout = true
				break
			}
			time.Sleep(500 * time.Microsecond)
		}
		out.Steps = append(out.Steps, c09ScStep{F: flag, O: obs, Timeout: timeout})
	}
	// cleanup: open every gate, stop the system
	for i := 0; i < n; i++ {
		if !w.closedPo[i] {
			w.closedPo[i] = true
			close(w.postGate[i])
		}
		if !w.closedPr[i] {
			w.closedPr[i] = true
			close(w.preGate[i])
		}
	}
	time.Sleep(5 * time.Millisecond)
	w.log("sysstop", -1, nil)
	_ = sys.Stop(ctx)
	w.log("sysstopped", -1, nil)
	w.mu.Lock()
	out.Events = append(out.Events, w.events...)
	w.mu.Unlock()
	sort.Slice(out.Events, func(i, j int) bool { return out.Events[i].Seq < out.Events[j].Seq })
	return out
}

// TestVerifC09Stop runs the scenarios generated by checks/C09.py.
func TestVerifC09Stop(t *testing.T) {
	scs := verifReadJSONL[c09Scenario](t, "c09_stop_in.jsonl")
	w := newVerifWriter(t, "c09_stop_out.jsonl")
	defer w.close()
	for i, sc := range scs {
		w.put(c09RunScenario(t, i, sc))
	}
}
