//go:build verif

package actor

// C10 harness: death watch on REAL actors.
//
//  TestVerifC10Seq     generated sequences of Watch / UnWatch / stop (Shutdown, PoisonPill, parent stop) /
//                      Restart / SpawnChild over a handful of real actors; after every operation (and after the
//                      system has settled) the harness records, for every actor, whether it runs, the tree's
//                      watcher and watchee sets (in-package: tree.watchers/watchees) and every Terminated
//                      message it has received so far.
//  TestVerifC10Tree    the tree's watcher operations alone (addWatcher / removeWatcher / deleteNode / addNode /
//                      watchers / watchees), sequentially, on a real tree populated with real PIDs.
//  TestVerifC10Race    real goroutines calling Watch / UnWatch while the watched actor is being stopped; counts
//                      Terminated per watcher and classifies each watcher by what had completed before the stop
//                      began.

import (
	"context"
	"fmt"
	"sort"
	"sync"
	"sync/atomic"
	"testing"
	"time"

	"github.com/tochemey/goakt/v4/log"
	"github.com/tochemey/goakt/v4/passivation"
	"github.com/tochemey/goakt/v4/supervisor"
)

// ---------------------------------------------------------------------------------------------- actor

type c10Actor struct {
	mu   sync.Mutex
	term []string // names carried by the Terminated messages received, in order
	n    atomic.Int64
	log  []string // busy test: what was handled, in order ("T:<name>", "F")
}

type c10Crash struct{}                                // the handler panics: the supervisor takes over
type c10Park struct{ entered, release chan struct{} } // the handler stays inside Receive until released
type c10Fill struct{}

// every harness actor is supervised with "restart on any failure"
func c10Supervised() SpawnOption {
	return WithSupervisor(supervisor.NewSupervisor(supervisor.WithAnyErrorDirective(supervisor.RestartDirective)))
}

func (a *c10Actor) PreStart(*Context) error { return nil }
func (a *c10Actor) PostStop(*Context) error { return nil }
func (a *c10Actor) Receive(ctx *ReceiveContext) {
	switch m := ctx.Message().(type) {
	case *Terminated:
		a.mu.Lock()
		a.term = append(a.term, m.ActorPath().Name())
		a.log = append(a.log, "T:"+m.ActorPath().Name())
		a.mu.Unlock()
		a.n.Add(1)
	case *c10Spawn:
		child, err := ctx.Self().SpawnChild(context.Background(), m.Name, m.Actor, c10Supervised())
		m.reply <- c10SpawnReply{child, err}
	case *c10Crash:
		panic("c10: scripted failure")
	case *c10Park:
		close(m.entered)
		<-m.release
	case *c10Fill:
		a.mu.Lock()
		a.log = append(a.log, "F")
		a.mu.Unlock()
	default:
	}
}

func (a *c10Actor) terminated() []string {
	a.mu.Lock()
	defer a.mu.Unlock()
	return append([]string{}, a.term...)
}

type c10Spawn struct {
	Name  string
	Actor *c10Actor
	reply chan c10SpawnReply
}
type c10SpawnReply struct {
	pid *PID
	err error
}

func c10System(t *testing.T, name string) ActorSystem {
	sys, err := NewActorSystem(name, WithLogger(log.DiscardLogger))
	if err != nil {
		t.Fatalf("NewActorSystem: %v", err)
	}
	if err := sys.Start(context.Background()); err != nil {
		t.Fatalf("Start: %v", err)
	}
	return sys
}

func c10Idle(pid *PID) bool {
	return pid.mailbox.IsEmpty() && pid.systemMailbox.IsEmpty() && pid.schedState.Load() == dispatchIdle
}

// c10Settle waits until the given actors and the death watch have nothing queued and no turn in progress,
// twice in a row (a turn of one may enqueue to another).
func c10Settle(sys ActorSystem, pids []*PID) error {
	all := append([]*PID{sys.(*actorSystem).getDeathWatch()}, pids...)
	deadline := time.Now().Add(c10Patience())
	calm := 0
	for i := 0; calm < 3; i++ {
		ok := true
		for _, p := range all {
			if p != nil && !c10Idle(p) {
				ok = false
				break
			}
		}
		if ok {
			calm++
		} else {
			calm = 0
		}
		if time.Now().After(deadline) {
			return fmt.Errorf("system did not settle")
		}
		if i < 300 {
			time.Sleep(20 * time.Microsecond)
		} else {
			time.Sleep(time.Millisecond)
		}
	}
	return nil
}

// ---------------------------------------------------------------------------------------------- sequences

type c10Op struct {
	Op string `json:"op"` // watch unwatch stop poison passivate restart crash spawnchild suspend reinstate
	W  int    `json:"w"`  // watcher / parent
	A  int    `json:"a"`  // watchee / subject / new child index
}

type c10Case struct {
	ID  int     `json:"id"`
	N   int     `json:"n"` // top-level actors 0..n-1 spawned up front
	Ops []c10Op `json:"ops"`
}

type c10ActorObs struct {
	Running  bool     `json:"run"`
	InTree   bool     `json:"tree"`
	Watchers []string `json:"wrs"` // sorted; case actors by index, "dw" death watch, "p" any other (guardian)
	Watchees []string `json:"wes"`
	Term     []string `json:"term"` // indices of the actors named by the Terminated messages received so far
}

type c10Step struct {
	Err    string                 `json:"err,omitempty"`
	Actors map[string]c10ActorObs `json:"actors"`
}

type c10Out struct {
	ID      int       `json:"id"`
	Steps   []c10Step `json:"steps"`          // steps[0]: after spawning; steps[i+1]: after ops[i]
	Hung    bool      `json:"hung,omitempty"` // an operation did not return / the system did not settle in time
	HungOp  int       `json:"hung_op"`
	HungHow string    `json:"hung_how,omitempty"`
	Skipped bool      `json:"skipped,omitempty"` // not run: an earlier case hung and was abandoned
	Err     string    `json:"err,omitempty"`
}

func c10Patience() time.Duration {
	return time.Duration(verifEnvInt("VERIF_C10_PATIENCE_MS", 10000)) * time.Millisecond
}

type c10World struct {
	sys    ActorSystem
	caseID int
	pids   map[int]*PID
	acts   map[int]*c10Actor
	names  map[string]int
}

func (w *c10World) name(i int) string { return fmt.Sprintf("c10-%d-%d", w.caseID, i) }

func (w *c10World) label(p *PID) string {
	if i, ok := w.names[p.Name()]; ok {
		return fmt.Sprint(i)
	}
	if p.Equals(w.sys.(*actorSystem).getDeathWatch()) {
		return "dw"
	}
	return "p"
}

func (w *c10World) observe() c10Step {
	st := c10Step{Actors: map[string]c10ActorObs{}}
	tr := w.sys.(*actorSystem).tree()
	for i, p := range w.pids {
		o := c10ActorObs{Running: p.IsRunning(), Watchers: []string{}, Watchees: []string{}, Term: []string{}}
		if n, ok := tr.node(p.ID()); ok && n.value() == p {
			o.InTree = true
			for _, x := range tr.watchers(p) {
				o.Watchers = append(o.Watchers, w.label(x))
			}
			for _, x := range tr.watchees(p) {
				o.Watchees = append(o.Watchees, w.label(x))
			}
		}
		sort.Strings(o.Watchers)
		sort.Strings(o.Watchees)
		for _, nm := range w.acts[i].terminated() {
			if j, ok := w.names[nm]; ok {
				o.Term = append(o.Term, fmt.Sprint(j))
			} else {
				o.Term = append(o.Term, "?"+nm)
			}
		}
		st.Actors[fmt.Sprint(i)] = o
	}
	return st
}

func (w *c10World) all() []*PID {
	var l []*PID
	for _, p := range w.pids {
		l = append(l, p)
	}
	return l
}

func (w *c10World) apply(ctx context.Context, op c10Op) error {
	var opErr error
	switch op.Op {
	case "watch":
		w.pids[op.W].Watch(w.pids[op.A])
	case "unwatch":
		w.pids[op.W].UnWatch(w.pids[op.A])
	case "stop":
		opErr = w.pids[op.A].Shutdown(ctx)
	case "poison":
		opErr = Tell(ctx, w.pids[op.A], &PoisonPill{})
	case "passivate":
		// the passivation stop path (what the passivation manager calls when the actor has been idle)
		// (a reinstate makes the next passivation decision be skipped once: ask twice)
		if !w.pids[op.A].tryPassivation("verif") && w.pids[op.A].IsRunning() && !w.pids[op.A].tryPassivation("verif") && w.pids[op.A].IsRunning() {
			opErr = fmt.Errorf("tryPassivation refused")
		}
	case "suspend":
		// what notifyParent does to an actor whose failure has no directive: registered, but not running
		w.pids[op.A].suspend("verif")
	case "reinstate":
		w.pids[op.A].doReinstate()
	case "restart":
		opErr = w.pids[op.A].Restart(ctx)
	case "crash":
		// the actor panics while handling a message: notifyParent suspends it and its parent applies the
		// RestartDirective (restartChild: parent.UnWatch(child); child.Restart())
		p := w.pids[op.A]
		before := p.RestartCount()
		opErr = Tell(ctx, p, &c10Crash{})
		if opErr == nil {
			deadline := time.Now().Add(c10Patience())
			for p.RestartCount() == before || !p.IsRunning() {
				if time.Now().After(deadline) {
					opErr = fmt.Errorf("crash: the actor was not restarted by its supervisor")
					break
				}
				time.Sleep(100 * time.Microsecond)
			}
		}
	case "spawnchild":
		a := &c10Actor{}
		m := &c10Spawn{Name: w.name(op.A), Actor: a, reply: make(chan c10SpawnReply, 1)}
		opErr = Tell(ctx, w.pids[op.W], m)
		if opErr == nil {
			select {
			case r := <-m.reply:
				opErr = r.err
				if r.err == nil {
					w.pids[op.A], w.acts[op.A], w.names[w.name(op.A)] = r.pid, a, op.A
				}
			case <-time.After(c10Patience()):
				opErr = fmt.Errorf("spawnchild: no reply")
			}
		}
	}
	return opErr
}

// c10RunCase returns (result, hung). A hung case is abandoned: its actors are left alone, nothing waits for them.
func c10RunCase(ctx context.Context, sys ActorSystem, c c10Case) c10Out {
	out := c10Out{ID: c.ID, HungOp: -1}
	w := &c10World{sys: sys, caseID: c.ID, pids: map[int]*PID{}, acts: map[int]*c10Actor{}, names: map[string]int{}}
	cleanup := func() {
		for _, p := range w.pids {
			if p.IsRunning() || p.IsSuspended() {
				_ = p.Shutdown(ctx)
			}
		}
	}
	for i := 0; i < c.N; i++ {
		a := &c10Actor{}
		p, err := sys.Spawn(ctx, w.name(i), a, WithPassivationStrategy(passivation.NewTimeBasedStrategy(time.Hour)), c10Supervised())
		if err != nil {
			out.Err = "spawn: " + err.Error()
			return out
		}
		w.pids[i], w.acts[i], w.names[w.name(i)] = p, a, i
	}
	if err := c10Settle(sys, w.all()); err != nil {
		out.Err = err.Error()
		return out
	}
	out.Steps = append(out.Steps, w.observe())
	for k, op := range c.Ops {
		done := make(chan error, 1)
		go func() { done <- w.apply(ctx, op) }()
		var opErr error
		select {
		case opErr = <-done:
		case <-time.After(c10Patience()):
			out.Hung, out.HungOp, out.HungHow = true, k, "the operation did not return"
			return out
		}
		if err := c10Settle(sys, w.all()); err != nil {
			out.Hung, out.HungOp, out.HungHow = true, k, "after the operation the actors and the death watch did not become idle"
			return out
		}
		st := w.observe()
		if opErr != nil {
			st.Err = opErr.Error()
		}
		out.Steps = append(out.Steps, st)
	}
	cleanup()
	return out
}

func TestVerifC10Seq(t *testing.T) {
	cases := verifReadJSONL[c10Case](t, "c10_in.jsonl")
	w := newVerifWriter(t, "c10_out.jsonl")
	defer w.close()
	ctx := context.Background()
	sys := c10System(t, "verifC10")
	defer func() {
		if sys != nil {
			_ = sys.Stop(ctx)
		}
	}()
	// one case at a time: c10Settle looks at the shared death watch
	hung := false
	for _, c := range cases {
		if hung {
			w.put(c10Out{ID: c.ID, HungOp: -1, Skipped: true})
			continue
		}
		o := c10RunCase(ctx, sys, c)
		hung = o.Hung
		w.put(o)
	}
	if hung {
		sys = nil // do not Stop a system with abandoned, possibly blocked actors
	}
}

// ---------------------------------------------------------------------------------------------- tree ops

type c10TreeOp struct {
	Op string `json:"op"` // addroot addnode attach watch unwatch delete rmdesc
	P  int    `json:"p"`  // parent / watcher
	A  int    `json:"a"`  // subject
}

type c10TreeCase struct {
	ID  int         `json:"id"`
	K   int         `json:"k"`
	Ops []c10TreeOp `json:"ops"`
}

type c10NodeObs struct {
	In  bool  `json:"in"`
	Par int   `json:"par"` // -1 none
	Ch  []int `json:"ch"`
	Wrs []int `json:"wrs"`
	Wes []int `json:"wes"`
}

type c10TreeOut struct {
	ID    int            `json:"id"`
	Steps [][]c10NodeObs `json:"steps"` // after every op, one entry per PID
	Err   string         `json:"err,omitempty"`
}

func TestVerifC10Tree(t *testing.T) {
	cases := verifReadJSONL[c10TreeCase](t, "c10_tree_in.jsonl")
	w := newVerifWriter(t, "c10_tree_out.jsonl")
	defer w.close()
	ctx := context.Background()
	sys := c10System(t, "verifC10tree")
	defer func() { _ = sys.Stop(ctx) }()
	const maxK = 8
	pids := make([]*PID, maxK)
	index := map[string]int{}
	for i := range pids {
		p, err := sys.Spawn(ctx, fmt.Sprintf("c10t-%d", i), &c10Actor{})
		if err != nil {
			t.Fatalf("spawn: %v", err)
		}
		pids[i] = p
		index[p.ID()] = i
	}
	idx := func(l []*PID) []int {
		out := []int{}
		for _, p := range l {
			out = append(out, index[p.ID()])
		}
		sort.Ints(out)
		return out
	}
	for _, c := range cases {
		tr := newTree() // a private tree populated with the real PIDs
		out := c10TreeOut{ID: c.ID}
		for _, op := range c.Ops {
			switch op.Op {
			case "addroot":
				_ = tr.addRootNode(pids[op.A])
			case "addnode":
				_ = tr.addNode(pids[op.P], pids[op.A])
			case "attach":
				_ = tr.addOrAttachNode(pids[op.P], pids[op.A])
			case "watch":
				tr.addWatcher(pids[op.A], pids[op.P])
			case "unwatch":
				tr.removeWatcher(pids[op.A], pids[op.P])
			case "delete":
				tr.deleteNode(pids[op.A])
			case "rmdesc":
				tr.removeDescendant(pids[op.P].ID(), pids[op.A].ID())
			}
			st := make([]c10NodeObs, c.K)
			for i := 0; i < c.K; i++ {
				o := c10NodeObs{Par: -1, Ch: []int{}, Wrs: []int{}, Wes: []int{}}
				if _, ok := tr.node(pids[i].ID()); ok {
					o.In = true
					if pp, ok := tr.parent(pids[i]); ok {
						o.Par = index[pp.ID()]
					}
					o.Ch = idx(tr.children(pids[i]))
					o.Wrs = idx(tr.watchers(pids[i]))
					o.Wes = idx(tr.watchees(pids[i]))
				}
				st[i] = o
			}
			out.Steps = append(out.Steps, st)
		}
		w.put(out)
	}
}

// ---------------------------------------------------------------------------------------------- races

type c10RaceWatcher struct {
	Class string `json:"class"`
	Count int    `json:"count"` // Terminated messages naming the watched actor
	Other int    `json:"other"` // Terminated messages naming anything else
}

type c10RaceOut struct {
	Round    int              `json:"round"`
	Path     string           `json:"path"`
	Watchers []c10RaceWatcher `json:"watchers"`
	Err      string           `json:"err,omitempty"`
}

// classes: what had COMPLETED before the stop began decides what the statement demands
//
//	pre        Watch returned before the stop began, never unwatched            -> exactly 1
//	pretwice   Watch called twice before the stop began                          -> exactly 1
//	rewatch    Watch, UnWatch, Watch all returned before the stop began          -> exactly 1
//	unw        Watch then UnWatch returned before the stop began                 -> 0
//	never      never watched                                                     -> 0
//	racewatch  Watch called concurrently with the stop                           -> at most 1
//	raceunw    watched before, UnWatch called concurrently with the stop         -> at most 1
//	flap       Watch/UnWatch in a loop concurrently with the stop                -> at most 1
var c10Classes = []string{"pre", "pretwice", "rewatch", "unw", "never", "racewatch", "raceunw", "flap", "pre", "racewatch"}

func TestVerifC10Race(t *testing.T) {
	w := newVerifWriter(t, "c10_race_out.jsonl")
	defer w.close()
	ctx := context.Background()
	sys := c10System(t, "verifC10race")
	defer func() {
		if sys != nil {
			_ = sys.Stop(ctx)
		}
	}()
	rounds := verifEnvInt("VERIF_C10_ROUNDS", 40)
	rng := newVerifRNG(verifSeed() + 1010)
	paths := []string{"shutdown", "poison", "parent", "passivate"}
	for r := 0; r < rounds; r++ {
		out := c10RaceOut{Round: r, Path: paths[r%len(paths)]}
		parentActor := &c10Actor{}
		parent, err := sys.Spawn(ctx, fmt.Sprintf("c10r-%d-parent", r), parentActor)
		if err != nil {
			t.Fatalf("spawn: %v", err)
		}
		targetName := fmt.Sprintf("c10r-%d-target", r)
		var target *PID
		if out.Path == "parent" {
			m := &c10Spawn{Name: targetName, Actor: &c10Actor{}, reply: make(chan c10SpawnReply, 1)}
			if err := Tell(ctx, parent, m); err != nil {
				t.Fatalf("tell: %v", err)
			}
			rep := <-m.reply
			if rep.err != nil {
				t.Fatalf("spawnchild: %v", rep.err)
			}
			target = rep.pid
		} else {
			target, err = sys.Spawn(ctx, targetName, &c10Actor{}, WithPassivationStrategy(passivation.NewTimeBasedStrategy(time.Hour)))
			if err != nil {
				t.Fatalf("spawn: %v", err)
			}
		}
		n := len(c10Classes)
		ws := make([]*PID, n)
		was := make([]*c10Actor, n)
		for i := 0; i < n; i++ {
			was[i] = &c10Actor{}
			ws[i], err = sys.Spawn(ctx, fmt.Sprintf("c10r-%d-w%d", r, i), was[i])
			if err != nil {
				t.Fatalf("spawn: %v", err)
			}
		}
		// what completes before the stop begins
		for i, cl := range c10Classes {
			switch cl {
			case "pre", "raceunw":
				ws[i].Watch(target)
			case "pretwice":
				ws[i].Watch(target)
				ws[i].Watch(target)
			case "rewatch":
				ws[i].Watch(target)
				ws[i].UnWatch(target)
				ws[i].Watch(target)
			case "unw":
				ws[i].Watch(target)
				ws[i].UnWatch(target)
			}
		}
		// what runs concurrently with it
		start := make(chan struct{})
		stopFlap := make(chan struct{})
		var wg, flapWg sync.WaitGroup
		for i, cl := range c10Classes {
			delay := time.Duration(rng.intn(60)) * time.Microsecond
			switch cl {
			case "racewatch":
				wg.Add(1)
				go func(p *PID) { defer wg.Done(); <-start; time.Sleep(delay); p.Watch(target) }(ws[i])
			case "raceunw":
				wg.Add(1)
				go func(p *PID) { defer wg.Done(); <-start; time.Sleep(delay); p.UnWatch(target) }(ws[i])
			case "flap":
				flapWg.Add(1)
				go func(p *PID) {
					defer flapWg.Done()
					<-start
					for {
						select {
						case <-stopFlap:
							return
						default:
						}
						p.Watch(target)
						p.UnWatch(target)
					}
				}(ws[i])
			}
		}
		stopDelay := time.Duration(rng.intn(40)) * time.Microsecond
		wg.Add(1)
		go func() {
			defer wg.Done()
			<-start
			time.Sleep(stopDelay)
			switch out.Path {
			case "shutdown":
				_ = target.Shutdown(ctx)
			case "poison":
				_ = Tell(ctx, target, &PoisonPill{})
			case "parent":
				_ = parent.Shutdown(ctx)
			case "passivate":
				target.tryPassivation("verif")
			}
		}()
		close(start)
		waited := make(chan struct{})
		go func() { wg.Wait(); close(waited) }()
		select {
		case <-waited:
		case <-time.After(2 * c10Patience()):
			close(stopFlap)
			out.Err = "hung: Watch/UnWatch/stop calls racing the stop did not all return"
			w.put(out)
			sys = nil
			return
		}
		deadline := time.Now().Add(2 * c10Patience())
		for target.IsRunning() && time.Now().Before(deadline) {
			time.Sleep(50 * time.Microsecond)
		}
		close(stopFlap)
		flapWg.Wait()
		if target.IsRunning() {
			out.Err = "target did not stop"
		}
		if err := c10Settle(sys, ws); err != nil && out.Err == "" {
			out.Err = err.Error()
		}
		// A watcher that must be told (its Watch completed before the stop began and it never unwatched) may still have
		// its Terminated in flight when the settle heuristic returns (seen once on a cold machine): give those
		// notifications a bounded extra wait before counting, so only a notification that never arrives is reported.
		if out.Err == "" {
			extra := time.Now().Add(3 * time.Second)
			for time.Now().Before(extra) {
				missing := false
				for i, cl := range c10Classes {
					if cl != "pre" && cl != "pretwice" && cl != "rewatch" {
						continue
					}
					got := false
					for _, nm := range was[i].terminated() {
						if nm == targetName {
							got = true
						}
					}
					if !got {
						missing = true
					}
				}
				if !missing {
					break
				}
				time.Sleep(2 * time.Millisecond)
			}
		}
		for i, cl := range c10Classes {
			rw := c10RaceWatcher{Class: cl}
			for _, nm := range was[i].terminated() {
				if nm == targetName {
					rw.Count++
				} else {
					rw.Other++
				}
			}
			out.Watchers = append(out.Watchers, rw)
		}
		w.put(out)
		for _, p := range ws {
			_ = p.Shutdown(ctx)
		}
		if parent.IsRunning() {
			_ = parent.Shutdown(ctx)
		}
		if target.IsRunning() {
			_ = target.Shutdown(ctx)
		}
	}
}

// ---------------------------------------------------------------------------------------------- busy watchers

// A watcher that is slow (parked inside Receive) with a backlog of user messages in a mailbox of some kind, possibly
// full, is still a running watcher: it must get its Terminated once it continues.
type c10BusyCase struct {
	ID   int    `json:"id"`
	Kind string `json:"kind"` // default nbbounded bounded segmented fair
	Cap  int    `json:"cap"`
	Fill int    `json:"fill"` // user messages sent to the parked watcher before the stop
	Path string `json:"path"` // shutdown poison passivate
}

type c10BusyOut struct {
	ID       int      `json:"id"`
	Count    int      `json:"count"`    // Terminated naming the target, received by the busy watcher
	Plain    int      `json:"plain"`    // ... by an idle watcher with the default mailbox
	Log      []string `json:"log"`      // what the busy watcher handled after it continued, in order
	Accepted int      `json:"accepted"` // backlog that reached it
	Hung     bool     `json:"hung,omitempty"`
	HungHow  string   `json:"hung_how,omitempty"`
	Err      string   `json:"err,omitempty"`
}

func c10Mailbox(kind string, capacity int) SpawnOption {
	switch kind {
	case "nbbounded":
		return WithMailbox(NewNonBlockingBoundedMailbox(capacity))
	case "bounded":
		return WithMailbox(NewBoundedMailbox(capacity))
	case "segmented":
		return WithMailbox(NewUnboundedSegmentedMailbox())
	case "fair":
		return WithMailbox(NewUnboundedFairMailbox())
	}
	return WithMailbox(NewUnboundedMailbox())
}

func TestVerifC10Busy(t *testing.T) {
	cases := verifReadJSONL[c10BusyCase](t, "c10_busy_in.jsonl")
	w := newVerifWriter(t, "c10_busy_out.jsonl")
	defer w.close()
	ctx := context.Background()
	sys := c10System(t, "verifC10busy")
	defer func() {
		if sys != nil {
			_ = sys.Stop(ctx)
		}
	}()
	for _, c := range cases {
		out := c10BusyOut{ID: c.ID, Log: []string{}}
		targetName := fmt.Sprintf("c10b-%d-target", c.ID)
		target, err := sys.Spawn(ctx, targetName, &c10Actor{}, WithPassivationStrategy(passivation.NewTimeBasedStrategy(time.Hour)))
		if err != nil {
			t.Fatalf("spawn: %v", err)
		}
		busyActor, plainActor := &c10Actor{}, &c10Actor{}
		busy, err := sys.Spawn(ctx, fmt.Sprintf("c10b-%d-busy", c.ID), busyActor, c10Mailbox(c.Kind, c.Cap))
		if err != nil {
			t.Fatalf("spawn: %v", err)
		}
		plain, err := sys.Spawn(ctx, fmt.Sprintf("c10b-%d-plain", c.ID), plainActor)
		if err != nil {
			t.Fatalf("spawn: %v", err)
		}
		if err := c10Settle(sys, []*PID{target, busy, plain}); err != nil {
			out.Err = err.Error()
			w.put(out)
			continue
		}
		busy.Watch(target)
		plain.Watch(target)
		park := &c10Park{entered: make(chan struct{}), release: make(chan struct{})}
		if err := Tell(ctx, busy, park); err != nil {
			out.Err = "park: " + err.Error()
			w.put(out)
			continue
		}
		select {
		case <-park.entered:
		case <-time.After(c10Patience()):
			out.Err = "park: not entered"
			w.put(out)
			continue
		}
		// backlog while it is parked (a full non-blocking mailbox rejects the excess: dead letters, not our concern)
		filled := make(chan struct{})
		go func() {
			defer close(filled)
			for i := 0; i < c.Fill; i++ {
				_ = Tell(ctx, busy, &c10Fill{})
			}
		}()
		select {
		case <-filled:
		case <-time.After(c10Patience()):
			// a blocking bounded mailbox that is full holds the sender: that is its contract, go on
		}
		stopped := make(chan struct{})
		go func() {
			defer close(stopped)
			switch c.Path {
			case "poison":
				_ = Tell(ctx, target, &PoisonPill{})
				deadline := time.Now().Add(c10Patience())
				for target.IsRunning() && time.Now().Before(deadline) {
					time.Sleep(50 * time.Microsecond)
				}
			case "passivate":
				target.tryPassivation("verif")
			default:
				_ = target.Shutdown(ctx)
			}
		}()
		select {
		case <-stopped:
		case <-time.After(c10Patience()):
			out.Hung, out.HungHow = true, "stopping the watched actor did not return while its watcher was busy"
			close(park.release)
			w.put(out)
			sys = nil
			return
		}
		// let the stop's notifications land before the watcher continues
		_ = c10Settle(sys, []*PID{target, plain})
		close(park.release)
		<-filled
		if err := c10Settle(sys, []*PID{busy, plain}); err != nil {
			out.Hung, out.HungHow = true, "the busy watcher did not become idle after it was released"
			w.put(out)
			sys = nil
			return
		}
		busyActor.mu.Lock()
		for _, e := range busyActor.log {
			if e == "F" {
				out.Accepted++
				out.Log = append(out.Log, "F")
			} else if e == "T:"+targetName {
				out.Count++
				out.Log = append(out.Log, "T")
			} else {
				out.Log = append(out.Log, "?")
			}
		}
		busyActor.mu.Unlock()
		for _, nm := range plainActor.terminated() {
			if nm == targetName {
				out.Plain++
			}
		}
		w.put(out)
		_ = busy.Shutdown(ctx)
		_ = plain.Shutdown(ctx)
		if target.IsRunning() {
			_ = target.Shutdown(ctx)
		}
	}
}
