//go:build verif

package actor

// C28 (end to end) — concurrent RemoteAsk / RemoteBatchAsk through the REAL remoteclient (bounded connection
// pool) to a REAL actor system whose actors reply with the id of the request after a per-request delay, with
// client timeouts shorter than some delays. Oracle (in the check): every successful ask returns the id it
// sent; every successful batch ask returns the ids it sent, in order.

import (
	"context"
	"fmt"
	"strconv"
	"strings"
	"sync"
	"testing"
	"time"

	"github.com/tochemey/goakt/v4/internal/address"
	inet "github.com/tochemey/goakt/v4/internal/net"
	"github.com/tochemey/goakt/v4/internal/remoteclient"
	"github.com/tochemey/goakt/v4/log"
	"github.com/tochemey/goakt/v4/remote"
	"github.com/tochemey/goakt/v4/test/data/testpb"
)

type c28Echo struct{}

func (*c28Echo) PreStart(*Context) error { return nil }
func (*c28Echo) PostStop(*Context) error { return nil }
func (*c28Echo) Receive(ctx *ReceiveContext) {
	m, ok := ctx.Message().(*testpb.Reply)
	if !ok {
		return
	}
	parts := strings.SplitN(m.GetContent(), "|", 2)
	if len(parts) == 2 {
		if us, err := strconv.Atoi(parts[1]); err == nil && us > 0 {
			time.Sleep(time.Duration(us) * time.Microsecond)
		}
	}
	ctx.Response(&testpb.Reply{Content: parts[0]})
}

type c28E2ECall struct {
	Round   int      `json:"round"`
	MaxIdle int      `json:"max_idle"`
	T       int      `json:"t"`
	Batch   bool     `json:"batch"`
	Reqs    []string `json:"reqs"`
	Res     []string `json:"res,omitempty"`
	Err     string   `json:"err,omitempty"`
	Panic   string   `json:"panic,omitempty"`
}

func TestVerifC28Actor(t *testing.T) {
	w := newVerifWriter(t, "c28_e2e.jsonl")
	defer w.close()
	ctx := context.Background()
	host := "127.0.0.1"
	port := inet.Get(1)[0]
	sys, err := NewActorSystem("c28sys", WithLogger(log.DiscardLogger), WithRemote(remote.NewConfig(host, port)))
	if err != nil {
		t.Fatalf("actor system: %v", err)
	}
	if err := sys.Start(ctx); err != nil {
		t.Fatalf("start: %v", err)
	}
	defer func() { _ = sys.Stop(ctx) }()
	time.Sleep(200 * time.Millisecond)
	const nActors = 6
	addrs := make([]*address.Address, nActors)
	for i := range addrs {
		pid, err := sys.Spawn(ctx, fmt.Sprintf("c28echo%d", i), &c28Echo{})
		if err != nil {
			t.Fatalf("spawn: %v", err)
		}
		addrs[i] = pid.getAddress()
	}
	rounds := verifEnvInt("VERIF_C28_E2E_ROUNDS", 6)
	rng := newVerifRNG(verifSeed() ^ 0xC28E)
	from := address.NoSender()
	for r := 0; r < rounds; r++ {
		maxIdle := 1 + rng.intn(4)
		callers := 2 + rng.intn(9)
		per := 8
		cl := remoteclient.NewClient(remoteclient.WithClientMaxIdleConns(maxIdle))
		var mu sync.Mutex
		var calls []c28E2ECall
		var wg sync.WaitGroup
		seeds := make([]uint64, callers)
		for k := range seeds {
			seeds[k] = rng.next()
		}
		for k := 0; k < callers; k++ {
			wg.Add(1)
			go func(k int) {
				defer wg.Done()
				lr := newVerifRNG(seeds[k])
				for i := 0; i < per; i++ {
					to := addrs[lr.intn(nActors)]
					batch := lr.intn(3) == 0
					n := 1
					if batch {
						n = 1 + lr.intn(4)
					}
					reqs := make([]string, n)
					msgs := make([]any, n)
					for j := range reqs {
						delay := lr.intn(1500)
						if lr.intn(8) == 0 {
							delay = 70000 + lr.intn(30000) // beyond the 50ms timeout
						}
						reqs[j] = fmt.Sprintf("e%d.c%d.%d.%d", r, k, i, j)
						msgs[j] = &testpb.Reply{Content: fmt.Sprintf("%s|%d", reqs[j], delay)}
					}
					call := c28E2ECall{Round: r, MaxIdle: maxIdle, T: k, Batch: batch, Reqs: reqs}
					func() {
						// a response that is not the caller's own can make the client index past its request list
						defer func() {
							if p := recover(); p != nil {
								call.Panic = fmt.Sprint(p)
							}
						}()
						if batch {
							resps, err := cl.RemoteBatchAsk(ctx, from, to, msgs, 50*time.Millisecond)
							if err != nil {
								call.Err = err.Error()
							} else {
								for _, x := range resps {
									if rr, ok := x.(*testpb.Reply); ok {
										call.Res = append(call.Res, rr.GetContent())
									} else {
										call.Res = append(call.Res, fmt.Sprintf("<%T>", x))
									}
								}
							}
						} else {
							resp, err := cl.RemoteAsk(ctx, from, to, msgs[0], 50*time.Millisecond)
							if err != nil {
								call.Err = err.Error()
							} else if rr, ok := resp.(*testpb.Reply); ok {
								call.Res = []string{rr.GetContent()}
							} else {
								call.Res = []string{fmt.Sprintf("<%T>", resp)}
							}
						}
					}()
					mu.Lock()
					calls = append(calls, call)
					mu.Unlock()
				}
			}(k)
		}
		wg.Wait()
		cl.Close()
		for _, c := range calls {
			w.put(c)
		}
		time.Sleep(25 * time.Millisecond) // let the slow actors finish their late replies
	}
}
