//go:build verif

package actor

// C27 (end to end) — the actor system's own remoting client (coalescing enabled, error handler =
// enqueueCoalescedFailure) sends tells from several goroutines
//   (1) to a recording actor of a real actor system over the real server path: the actor must see every
//       accepted message exactly once and each caller's messages in send order;
//   (2) to a fake destination whose batches succeed, fail with an Error response, or fail at the transport:
//       every accepted message must be delivered there or appear exactly once in the sender's dead letters.
// The oracle runs in the check on the output.

import (
	"context"
	"errors"
	"fmt"
	"net"
	"strconv"
	"sync"
	"testing"
	"time"

	"google.golang.org/protobuf/proto"

	"github.com/tochemey/goakt/v4/internal/address"
	"github.com/tochemey/goakt/v4/internal/internalpb"
	inet "github.com/tochemey/goakt/v4/internal/net"
	"github.com/tochemey/goakt/v4/log"
	"github.com/tochemey/goakt/v4/remote"
	"github.com/tochemey/goakt/v4/test/data/testpb"
)

type c27Rec struct {
	mu  sync.Mutex
	ids []string
}

func (*c27Rec) PreStart(*Context) error { return nil }
func (*c27Rec) PostStop(*Context) error { return nil }
func (a *c27Rec) Receive(ctx *ReceiveContext) {
	if m, ok := ctx.Message().(*testpb.Reply); ok {
		a.mu.Lock()
		a.ids = append(a.ids, m.GetContent())
		a.mu.Unlock()
	}
}
func (a *c27Rec) snapshot() []string {
	a.mu.Lock()
	defer a.mu.Unlock()
	return append([]string(nil), a.ids...)
}

type c27E2EBatch struct {
	IDs []string `json:"ids"`
	V   int      `json:"v"`
}

type c27E2EOut struct {
	Part        string        `json:"part"` // actor | faulty
	Callers     int           `json:"callers"`
	PerCaller   int           `json:"per_caller"`
	Accepted    [][]string    `json:"accepted"`
	Rejected    int           `json:"rejected"`
	Received    []string      `json:"received,omitempty"`    // part actor: what the actor saw, in order
	Batches     []c27E2EBatch `json:"batches,omitempty"`     // part faulty: what reached the destination
	Deadletters []string      `json:"deadletters,omitempty"` // part faulty: ids published on the sender's event stream
	BadDL       []string      `json:"bad_deadletters,omitempty"`
	Anomalies   []string      `json:"anomalies,omitempty"`
}

func TestVerifC27Actor(t *testing.T) {
	w := newVerifWriter(t, "c27_e2e.jsonl")
	defer w.close()
	ctx := context.Background()
	host := "127.0.0.1"
	port := inet.Get(1)[0]
	sys, err := NewActorSystem("c27sys", WithLogger(log.DiscardLogger), WithRemote(remote.NewConfig(host, port)))
	if err != nil {
		t.Fatalf("actor system: %v", err)
	}
	if err := sys.Start(ctx); err != nil {
		t.Fatalf("start: %v", err)
	}
	defer func() { _ = sys.Stop(ctx) }()
	time.Sleep(300 * time.Millisecond)
	x := sys.(*actorSystem)
	rng := newVerifRNG(verifSeed() ^ 0xC27E)
	ser := remote.NewProtoSerializer()
	sender := address.New("c27client", sys.Name(), host, port)

	// ---------------- part 1: real receiver actor
	rec := &c27Rec{}
	pid, err := sys.Spawn(ctx, "c27rec", rec)
	if err != nil {
		t.Fatalf("spawn: %v", err)
	}
	{
		callers, per := 2+rng.intn(5), 60+rng.intn(60)
		out := c27E2EOut{Part: "actor", Callers: callers, PerCaller: per, Accepted: make([][]string, callers)}
		var wg sync.WaitGroup
		var rej int
		var mu sync.Mutex
		for k := 0; k < callers; k++ {
			wg.Add(1)
			go func(k int) {
				defer wg.Done()
				for i := 0; i < per; i++ {
					id := fmt.Sprintf("a.c%d.%d", k, i)
					if err := x.remoting.RemoteTell(ctx, sender, pid.getAddress(), &testpb.Reply{Content: id}); err == nil {
						out.Accepted[k] = append(out.Accepted[k], id)
					} else {
						mu.Lock()
						rej++
						mu.Unlock()
					}
				}
			}(k)
		}
		wg.Wait()
		total := 0
		for _, a := range out.Accepted {
			total += len(a)
		}
		deadline := time.Now().Add(5 * time.Second)
		for time.Now().Before(deadline) && len(rec.snapshot()) < total {
			time.Sleep(2 * time.Millisecond)
		}
		time.Sleep(20 * time.Millisecond)
		out.Received = rec.snapshot()
		out.Rejected = rej
		w.put(out)
	}

	// ---------------- part 2: destination with failing batches; dead letters on the sender
	consumer, err := sys.Subscribe()
	if err != nil {
		t.Fatalf("subscribe: %v", err)
	}
	defer func() { _ = sys.Unsubscribe(consumer) }()
	var bmu sync.Mutex
	var batches []c27E2EBatch
	vr := newVerifRNG(rng.next())
	ps, err := inet.NewProtoServer("127.0.0.1:0", inet.WithProtoHandler("internalpb.RemoteTellRequest",
		func(_ context.Context, _ inet.Connection, req proto.Message) (proto.Message, error) {
			r, ok := req.(*internalpb.RemoteTellRequest)
			if !ok {
				return &internalpb.RemoteTellResponse{}, nil
			}
			ids := make([]string, 0, len(r.GetRemoteMessages()))
			for _, m := range r.GetRemoteMessages() {
				id := "?"
				if v, err := ser.Deserialize(m.GetMessage()); err == nil {
					if rr, ok := v.(*testpb.Reply); ok {
						id = rr.GetContent()
					}
				}
				ids = append(ids, id)
			}
			bmu.Lock()
			v := 0
			if vr.intn(100) < 40 {
				v = 1 + vr.intn(2)
			}
			batches = append(batches, c27E2EBatch{IDs: ids, V: v})
			bmu.Unlock()
			time.Sleep(time.Duration(200+vr.intn(800)) * time.Microsecond)
			switch v {
			case 0:
				return &internalpb.RemoteTellResponse{}, nil
			case 1:
				return &internalpb.Error{Code: internalpb.Code_CODE_UNAVAILABLE, Message: "verif: batch refused"}, nil
			default:
				return nil, errors.New("verif: transport failure")
			}
		}))
	if err != nil {
		t.Fatalf("fake destination: %v", err)
	}
	if err := ps.Listen(); err != nil {
		t.Fatalf("listen: %v", err)
	}
	go func() { _ = ps.Serve() }()
	defer func() { _ = ps.Shutdown(time.Second) }()
	dhost, dportStr, _ := net.SplitHostPort(ps.ListenAddr().String())
	dport, _ := strconv.Atoi(dportStr)
	for i := 0; i < 300; i++ {
		c, err := net.DialTimeout("tcp", ps.ListenAddr().String(), 100*time.Millisecond)
		if err == nil {
			c.Close()
			break
		}
		time.Sleep(5 * time.Millisecond)
	}
	ghost := address.New("c27ghost", "remote", dhost, dport)
	{
		callers, per := 2+rng.intn(4), 40+rng.intn(40)
		out := c27E2EOut{Part: "faulty", Callers: callers, PerCaller: per, Accepted: make([][]string, callers)}
		var wg sync.WaitGroup
		var rej int
		var mu sync.Mutex
		for k := 0; k < callers; k++ {
			wg.Add(1)
			go func(k int) {
				defer wg.Done()
				for i := 0; i < per; i++ {
					id := fmt.Sprintf("f.c%d.%d", k, i)
					if err := x.remoting.RemoteTell(ctx, sender, ghost, &testpb.Reply{Content: id}); err == nil {
						out.Accepted[k] = append(out.Accepted[k], id)
					} else {
						mu.Lock()
						rej++
						mu.Unlock()
					}
					if i%3 == 2 {
						time.Sleep(time.Duration(400+300*k) * time.Microsecond)
					}
				}
			}(k)
		}
		wg.Wait()
		total := 0
		for _, a := range out.Accepted {
			total += len(a)
		}
		dl := map[string]int{}
		var order []string
		collect := func() {
			for message := range consumer.Iterator() {
				d, ok := message.Payload().(*Deadletter)
				if !ok {
					continue
				}
				rr, ok := d.Message().(*testpb.Reply)
				if !ok {
					continue
				}
				if d.Receiver() == nil || d.Receiver().Name() != "c27ghost" || d.Sender() == nil || d.Sender().Name() != "c27client" || d.Reason() == "" {
					out.BadDL = append(out.BadDL, fmt.Sprintf("%s: sender=%v receiver=%v reason=%q", rr.GetContent(), d.Sender(), d.Receiver(), d.Reason()))
				}
				dl[rr.GetContent()]++
				order = append(order, rr.GetContent())
			}
		}
		deadline := time.Now().Add(8 * time.Second)
		for time.Now().Before(deadline) {
			collect()
			bmu.Lock()
			delivered := 0
			for _, b := range batches {
				if b.V == 0 {
					delivered += len(b.IDs)
				}
			}
			bmu.Unlock()
			if delivered+len(dl) >= total {
				break
			}
			time.Sleep(5 * time.Millisecond)
		}
		time.Sleep(50 * time.Millisecond)
		collect()
		out.Deadletters = order
		out.Rejected = rej
		bmu.Lock()
		out.Batches = append([]c27E2EBatch(nil), batches...)
		bmu.Unlock()
		w.put(out)
	}
}
