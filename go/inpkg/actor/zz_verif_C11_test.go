//go:build verif

package actor

// C11 harness on REAL actor systems.
//  (M) TestVerifC11Model: generated driver sequences — concurrent Spawn / SpawnNamedFromFunc /
//      SpawnChild calls of the same and of different names (the winner's PreStart may be gated),
//      Kill(name), and a held death watch (emulated preemption: its dispatch state is parked with the
//      PID's own atomic, so Terminated messages stay queued) — observation after every action.
//  (S) TestVerifC11Stress: many goroutines spawning the same names at once, with stops in between;
//      oracle: distinct running PIDs per name, every successful caller got the same PID, NumActors.

import (
	"context"
	"fmt"
	"sort"
	"strings"
	"sync"
	"sync/atomic"
	"testing"
	"time"

	"github.com/stretchr/testify/mock"

	"github.com/tochemey/goakt/v4/internal/cluster"
	"github.com/tochemey/goakt/v4/internal/internalpb"
	"github.com/tochemey/goakt/v4/log"
	mockcluster "github.com/tochemey/goakt/v4/mocks/cluster"
)

type c11Inst struct {
	name   int
	id     atomic.Int32 // creation index for its name, -1 until PreStart completed
	alive  atomic.Bool
	gated  bool
	gate   chan struct{}
	began  chan struct{}
	w      *c11World
	posted atomic.Int32
}

type c11World struct {
	mu      sync.Mutex
	k       int
	created []int       // per name: number of instances whose PreStart completed
	insts   [][]*c11Inst // per name, creation order
	bound   map[*PID]int
	results [][]int // per name: instance+1 per completed call (0 = error)
	pending sync.WaitGroup
}

// a gated PreStart honours the context of the Spawn call it runs under (ctx.Err() when cancelled)
func (w *c11World) preStart(ctx context.Context, i *c11Inst) error {
	if i.gated {
		select {
		case i.began <- struct{}{}:
		default:
		}
		select {
		case <-i.gate:
		case <-ctx.Done():
			return ctx.Err()
		}
	}
	w.mu.Lock()
	i.id.Store(int32(w.created[i.name]))
	w.created[i.name]++
	w.insts[i.name] = append(w.insts[i.name], i)
	w.mu.Unlock()
	i.alive.Store(true)
	return nil
}

func (w *c11World) postStop(i *c11Inst) {
	i.posted.Add(1)
	i.alive.Store(false)
}

type c11Actor struct{ inst *c11Inst }

func (a *c11Actor) PreStart(c *Context) error { return a.inst.w.preStart(c.Context(), a.inst) }
func (a *c11Actor) Receive(*ReceiveContext)  {}
func (a *c11Actor) PostStop(*Context) error  { a.inst.w.postStop(a.inst); return nil }

// instance index of a PID: exact for struct actors; a func actor's PID is bound, the first time it
// is seen, to the most recently created instance of its name
func (w *c11World) instOf(n int, p *PID) int {
	if p == nil {
		return -1
	}
	if a, ok := p.Actor().(*c11Actor); ok {
		return int(a.inst.id.Load())
	}
	w.mu.Lock()
	defer w.mu.Unlock()
	if id, ok := w.bound[p]; ok {
		return id
	}
	id := w.created[n] - 1
	w.bound[p] = id
	return id
}

type c11Scenario struct {
	K       int       `json:"k"`
	Kinds   []string  `json:"kinds"`
	Actions [][]any   `json:"actions"`
	Expect  [][][]int `json:"expect"`
	Cluster bool      `json:"cluster"` // a registry (mock) is attached: publications can be made to fail
}

type c11Step struct {
	F       int     `json:"f"`
	O       [][]int `json:"o"`
	Timeout bool    `json:"timeout"`
}

type c11ScOut struct {
	Steps []c11Step `json:"steps"`
	Note  string    `json:"note,omitempty"`
}

func c11HoldDeathWatch(sys ActorSystem) {
	dw := sys.(*actorSystem).getDeathWatch()
	for !dw.schedState.v.CompareAndSwap(dispatchIdle, dispatchProcessing) {
		time.Sleep(50 * time.Microsecond)
	}
}

func c11ReleaseDeathWatch(sys ActorSystem) {
	dw := sys.(*actorSystem).getDeathWatch()
	// what the worker does at the end of a turn (finishOrReclaim)
	dw.schedState.reset()
	if !(dw.mailbox.IsEmpty() && dw.systemMailbox.IsEmpty()) {
		if dw.schedState.TrySchedule() {
			dw.dispatcher.schedule(dw)
		}
	}
}

func c11RunScenario(t *testing.T, idx int, sc c11Scenario) c11ScOut {
	ctx := context.Background()
	sys, err := NewActorSystem(fmt.Sprintf("verifC11m%d", idx), WithLogger(log.DiscardLogger))
	if err != nil {
		t.Fatal(err)
	}
	if err := sys.Start(ctx); err != nil {
		t.Fatal(err)
	}
	k := sc.K
	var failMu sync.Mutex
	failNext := map[string]bool{}
	if sc.Cluster {
		as := sys.(*actorSystem)
		cm := mockcluster.NewCluster(t)
		cm.EXPECT().ActorExists(mock.Anything, mock.Anything).Return(false, nil).Maybe()
		cm.EXPECT().GetActor(mock.Anything, mock.Anything).Return(nil, cluster.ErrActorNotFound).Maybe()
		cm.EXPECT().RemoveActor(mock.Anything, mock.Anything).Return(nil).Maybe()
		cm.EXPECT().PutActor(mock.Anything, mock.Anything).RunAndReturn(func(_ context.Context, a *internalpb.Actor) error {
			addr := a.GetAddress()
			failMu.Lock()
			defer failMu.Unlock()
			for nm := range failNext {
				if strings.HasSuffix(addr, "/"+nm) {
					delete(failNext, nm)
					return fmt.Errorf("verif: registry write of %s failed", nm)
				}
			}
			return nil
		}).Maybe()
		as.locker.Lock()
		as.cluster = cm
		as.locker.Unlock()
		as.clusterEnabled.Store(true)
		defer func() {
			as.clusterEnabled.Store(false)
			as.locker.Lock()
			as.cluster = nil
			as.locker.Unlock()
			_ = sys.Stop(ctx)
		}()
	}
	w := &c11World{k: k, created: make([]int, k), insts: make([][]*c11Inst, k), bound: map[*PID]int{}, results: make([][]int, k)}
	parents := make([]*PID, k)
	ids := make([]string, k) // tree id of name n
	name := func(n int) string { return fmt.Sprintf("nm%d", n) }
	for n := 0; n < k; n++ {
		if sc.Kinds[n] == "child" {
			p, err := sys.Spawn(ctx, fmt.Sprintf("par%d", n), &c11Parent{}, WithLongLived())
			if err != nil {
				t.Fatal(err)
			}
			parents[n] = p
			ids[n] = p.childAddress(name(n)).String()
		} else {
			ids[n] = sys.(*actorSystem).actorReference(name(n)).String()
		}
	}
	base := int(sys.NumActors())
	gatedInst := make([]*c11Inst, k) // the gated instance currently blocking name n's flight
	callNo := 0
	held := false
	gatedCancel := make([]context.CancelFunc, k)
	spawn := func(ctx context.Context, n int, inst *c11Inst, kind string) (*PID, error) {
		switch kind {
		case "child":
			return parents[n].SpawnChild(ctx, name(n), &c11Actor{inst: inst}, WithLongLived())
		case "func":
			return sys.SpawnNamedFromFunc(ctx, name(n), func(context.Context, any) error { return nil },
				WithPreStart(func(c context.Context) error { return w.preStart(c, inst) }),
				WithPostStop(func(context.Context) error { w.postStop(inst); return nil }))
		default:
			return sys.Spawn(ctx, name(n), &c11Actor{inst: inst}, WithLongLived())
		}
	}
	observe := func() [][]int {
		out := make([][]int, 0, 2*k+1)
		tr := sys.tree()
		for n := 0; n < k; n++ {
			reg := 0
			if nd, ok := tr.node(ids[n]); ok {
				if p := nd.value(); p != nil {
					reg = w.instOf(n, p) + 1
				}
			}
			alive := 0
			w.mu.Lock()
			for _, i := range w.insts[n] {
				if i.alive.Load() {
					alive++
				}
			}
			res := append([]int{}, w.results[n]...)
			w.mu.Unlock()
			sort.Ints(res)
			out = append(out, []int{reg, alive}, res)
		}
		na := int(int64(sys.NumActors())) - base
		if na < 0 || na > 4999 {
			na = 4999 // the counter went below zero (wrapped)
		}
		out = append(out, []int{na})
		return out
	}
	out := c11ScOut{}
	for ai, act := range sc.Actions {
		kind, _ := act[0].(string)
		flag := 0
		switch kind {
		case "call":
			n := c11Int(act[1])
			g, _ := act[2].(bool)
			inst := &c11Inst{name: n, gated: g, gate: make(chan struct{}), began: make(chan struct{}, 1), w: w}
			inst.id.Store(-1)
			sk := sc.Kinds[n]
			if sk == "mixed" {
				sk = []string{"spawn", "func"}[callNo%2]
			}
			callNo++
			cctx, cancel := context.WithCancel(ctx)
			w.pending.Add(1)
			go func() {
				defer w.pending.Done()
				p, err := spawn(cctx, n, inst, sk)
				r := 0
				if err == nil && p != nil {
					r = w.instOf(n, p) + 1
				}
				w.mu.Lock()
				w.results[n] = append(w.results[n], r)
				w.mu.Unlock()
			}()
			if g {
				// the generator gates winners only; if this call nevertheless joined a flight in
				// progress its own PreStart never runs and the gate is not used
				select {
				case <-inst.began:
					gatedInst[n] = inst
					gatedCancel[n] = cancel
				case <-time.After(300 * time.Millisecond):
				}
			}
		case "cancel":
			// the context of the call whose PreStart is blocked is cancelled
			n := c11Int(act[1])
			if gatedInst[n] == nil {
				flag = 1
			} else {
				gatedCancel[n]()
				gatedInst[n] = nil
			}
		case "call_deadline":
			// a caller with a short deadline joins the blocked flight and gives up
			n := c11Int(act[1])
			if gatedInst[n] == nil {
				flag = 1
			} else {
				inst := &c11Inst{name: n, gate: make(chan struct{}), began: make(chan struct{}, 1), w: w}
				inst.id.Store(-1)
				sk := sc.Kinds[n]
				if sk == "mixed" {
					sk = "spawn"
				}
				dctx, dcancel := context.WithTimeout(ctx, 40*time.Millisecond)
				p, err := spawn(dctx, n, inst, sk)
				dcancel()
				r := 0
				if err == nil && p != nil {
					r = w.instOf(n, p) + 1
				}
				w.mu.Lock()
				w.results[n] = append(w.results[n], r)
				w.mu.Unlock()
			}
		case "set_fail":
			n := c11Int(act[1])
			failMu.Lock()
			failNext[name(n)] = true
			failMu.Unlock()
		case "release_pre":
			n := c11Int(act[1])
			if gatedInst[n] == nil {
				flag = 1
			} else {
				close(gatedInst[n].gate)
				gatedInst[n] = nil
			}
		case "stop":
			n := c11Int(act[1])
			if err := sys.Kill(ctx, name(n)); err != nil {
				flag = 1
			}
		case "hold_dw":
			if !held {
				c11HoldDeathWatch(sys)
				held = true
			}
		case "release_dw":
			if held {
				c11ReleaseDeathWatch(sys)
				held = false
			}
		}
		var obs [][]int
		timeout := false
		deadline := time.Now().Add(4 * time.Second)
		for {
			obs = observe()
			if ai < len(sc.Expect) && c11ObsEq(obs, sc.Expect[ai]) {
				time.Sleep(2 * time.Millisecond)
				if c11ObsEq(observe(), obs) {
					break
				}
				continue
			}
			if time.Now().After(deadline) {
				timeout = true
				break
			}
			time.Sleep(300 * time.Microsecond)
		}
		out.Steps = append(out.Steps, c11Step{F: flag, O: obs, Timeout: timeout})
	}
	for n := 0; n < k; n++ {
		if gatedInst[n] != nil {
			close(gatedInst[n].gate)
		}
	}
	if held {
		c11ReleaseDeathWatch(sys)
	}
	w.pending.Wait()
	if !sc.Cluster {
		_ = sys.Stop(ctx)
	}
	return out
}

type c11Parent struct{}

func (*c11Parent) PreStart(*Context) error { return nil }
func (*c11Parent) Receive(*ReceiveContext) {}
func (*c11Parent) PostStop(*Context) error { return nil }

func TestVerifC11Model(t *testing.T) {
	scs := verifReadJSONL[c11Scenario](t, "c11_model_in.jsonl")
	w := newVerifWriter(t, "c11_model_out.jsonl")
	defer w.close()
	for i, sc := range scs {
		w.put(c11RunScenario(t, i, sc))
	}
}

// ---------------------------------------------------------------------------- (S)
type c11StressOut struct {
	Round        int    `json:"round"`
	Kind         string `json:"kind"`
	Callers      int    `json:"callers"`
	Names        int    `json:"names"`
	DistinctPIDs []int  `json:"distinct_pids"` // per name: distinct PIDs handed to successful callers
	Created      []int  `json:"created"`       // per name: PreStarts run
	Alive        []int  `json:"alive"`         // per name: instances alive afterwards
	NotRunning   []int  `json:"not_running"`   // per name: callers that were handed a PID that is not running
	Errors       int    `json:"errors"`
	NumActors    int    `json:"num_actors"`
	Phase        string `json:"phase"`
}

// TestVerifC11Stress: real goroutines, no gates. Phase "fresh": nothing stopped before (the property
// must hold outright). Phase "respawn": every name is killed and, once the death watch has removed
// it (waited for), spawned again by many callers.
func TestVerifC11Stress(t *testing.T) {
	ctx := context.Background()
	w := newVerifWriter(t, "c11_stress_out.jsonl")
	defer w.close()
	rng := newVerifRNG(verifSeed() + 11)
	rounds := verifEnvInt("VERIF_C11_ROUNDS", 6)
	for round := 0; round < rounds; round++ {
		kind := []string{"spawn", "func", "child", "mixed"}[round%4]
		sys, err := NewActorSystem(fmt.Sprintf("verifC11s%d", round), WithLogger(log.DiscardLogger))
		if err != nil {
			t.Fatal(err)
		}
		if err := sys.Start(ctx); err != nil {
			t.Fatal(err)
		}
		names := 2 + rng.intn(3)
		callers := 2 + rng.intn(7) // 2..8 per name
		wd := &c11World{k: names, created: make([]int, names), insts: make([][]*c11Inst, names), bound: map[*PID]int{}, results: make([][]int, names)}
		var parent *PID
		if kind == "child" {
			parent, _ = sys.Spawn(ctx, "par", &c11Parent{}, WithLongLived())
		}
		base := int(sys.NumActors())
		for _, phase := range []string{"fresh", "respawn"} {
			if phase == "respawn" {
				for n := 0; n < names; n++ {
					_ = sys.Kill(ctx, fmt.Sprintf("nm%d", n))
				}
				// wait until the death watch removed every stopped node
				reaped := c11WaitFor(func() bool {
					for n := 0; n < names; n++ {
						if _, ok := sys.tree().nodeByName(fmt.Sprintf("nm%d", n)); ok {
							return false
						}
					}
					return true
				}, 5*time.Second)
				if !reaped {
					// the race with the death watch is the listed finding, not what this phase is about
					w.put(c11StressOut{Round: round, Kind: kind, Callers: callers, Names: names, Phase: "respawn-skipped"})
					continue
				}
			}
			var mu sync.Mutex
			got := make([][]*PID, names)
			errs := 0
			var wg sync.WaitGroup
			start := make(chan struct{})
			for n := 0; n < names; n++ {
				for c := 0; c < callers; c++ {
					wg.Add(1)
					n, c := n, c
					go func() {
						defer wg.Done()
						inst := &c11Inst{name: n, w: wd}
						inst.id.Store(-1)
						<-start
						var p *PID
						var err error
						k := kind
						if k == "mixed" {
							k = []string{"spawn", "func"}[c%2]
						}
						nm := fmt.Sprintf("nm%d", n)
						switch k {
						case "child":
							p, err = parent.SpawnChild(ctx, nm, &c11Actor{inst: inst}, WithLongLived())
						case "func":
							p, err = sys.SpawnNamedFromFunc(ctx, nm, func(context.Context, any) error { return nil },
								WithPreStart(func(c context.Context) error { return wd.preStart(c, inst) }),
								WithPostStop(func(context.Context) error { wd.postStop(inst); return nil }))
						default:
							p, err = sys.Spawn(ctx, nm, &c11Actor{inst: inst}, WithLongLived())
						}
						mu.Lock()
						if err != nil {
							errs++
						} else {
							got[n] = append(got[n], p)
						}
						mu.Unlock()
					}()
				}
			}
			close(start)
			wg.Wait()
			time.Sleep(20 * time.Millisecond)
			o := c11StressOut{Round: round, Kind: kind, Callers: callers, Names: names, Errors: errs, Phase: phase,
				NumActors: int(sys.NumActors()) - base}
			for n := 0; n < names; n++ {
				distinct := map[*PID]bool{}
				notRunning := 0
				for _, p := range got[n] {
					distinct[p] = true
					if !p.IsRunning() {
						notRunning++
					}
				}
				alive := 0
				wd.mu.Lock()
				for _, i := range wd.insts[n] {
					if i.alive.Load() {
						alive++
					}
				}
				created := wd.created[n]
				wd.mu.Unlock()
				o.DistinctPIDs = append(o.DistinctPIDs, len(distinct))
				o.Created = append(o.Created, created)
				o.Alive = append(o.Alive, alive)
				o.NotRunning = append(o.NotRunning, notRunning)
			}
			w.put(o)
		}
		_ = sys.Stop(ctx)
	}
}

func c11Int(v any) int {
	f, _ := v.(float64)
	return int(f)
}

func c11ObsEq(a, b [][]int) bool {
	if len(a) != len(b) {
		return false
	}
	for i := range a {
		if len(a[i]) != len(b[i]) {
			return false
		}
		for j := range a[i] {
			if a[i][j] != b[i][j] {
				return false
			}
		}
	}
	return true
}

func c11WaitFor(cond func() bool, d time.Duration) bool {
	deadline := time.Now().Add(d)
	for time.Now().Before(deadline) {
		if cond() {
			return true
		}
		time.Sleep(200 * time.Microsecond)
	}
	return cond()
}

var _ = atomic.Int32{}
