//go:build verif

package actor

// C12 harness.
//  TestVerifC12Manager : the real passivationManager (no loop goroutine; the harness plays the loop)
//                        driven by the operation sequences written by checks/C12.py.
//  TestVerifC12Mark    : the real pid.markActivity (touch coalescing) against the real manager.
//  TestVerifC12Guards  : the real pid.tryPassivation under every combination of guard flags.
//  TestVerifC12Live    : real actors, real manager loop, real timers.

import (
	"context"
	"fmt"
	"sort"
	"sync"
	"sync/atomic"
	"testing"
	"time"

	"github.com/tochemey/goakt/v4/log"
	"github.com/tochemey/goakt/v4/passivation"
)

// ---------------------------------------------------------------- manager driven step by step

type c12Fake struct {
	id     string
	latest atomic.Int64 // unix nanos; 0 = zero time
}

func (f *c12Fake) passivationID() string { return f.id }
func (f *c12Fake) passivationLatestActivity() time.Time {
	n := f.latest.Load()
	if n == 0 {
		return time.Time{}
	}
	return time.Unix(0, n)
}
func (f *c12Fake) passivationTry(string) bool { return false }

type c12Actor struct {
	post atomic.Int64
}

func (a *c12Actor) PreStart(*Context) error { return nil }
func (a *c12Actor) PostStop(*Context) error { a.post.Add(1); return nil }
func (a *c12Actor) Receive(*ReceiveContext) {}

// logical time: real = base + (L - c12Offset); L == 0 is the zero time
const c12Offset = int64(1_000_000_000_000_000)

type c12Op struct {
	K      string // setlatest setprocessed register unregister pause resume touch msgprocessed next trigger process
	Id     int
	L      int64 // setlatest: logical time (0: zero)
	N      int64 // setprocessed / register count
	S      int   // register: 0 time 1 count 2 long-lived
	T      int64 // register: timeout ns
	Obj    int   // trigger: expected object
	Script []c12Call
}
type c12Call struct {
	Inner []c12Op
	Res   bool
}
type c12Case struct {
	Id  int
	Ops []c12Op
}
type c12Entry struct {
	Id       int
	Strat    int
	Deadline int64 // logical, time-based only
	InHeap   bool
	Paused   bool
	Pending  bool
	Enq      bool
	Base     int64
	Obj      int
}
type c12Step struct {
	Entries []c12Entry
	Chan    int
	HeapLen int
	Head    int // participant index of the heap head, -1 none
	Out     string
	OutId   int
	OutObj  int
	OutWait int64
	Calls   int
	Decided [][2]int
}
type c12Result struct {
	Id    int
	Steps []c12Step
	Err   string
}

type c12World struct {
	m     *passivationManager
	base  int64
	parts []passivationParticipant
	fakes []*c12Fake
	pids  []*PID
	keys  []string
	objs  map[*passivationEntry]int
	nobj  int
	// current script of the passivate callback
	script  []c12Call
	calls   int
	decided [][2]int
	overrun bool
}

func (w *c12World) real(l int64) int64 {
	if l == 0 {
		return 0
	}
	return w.base + (l - c12Offset)
}
func (w *c12World) logical(r time.Time) int64 { return r.UnixNano() - w.base + c12Offset }

func (w *c12World) indexOf(key string) int {
	for i, k := range w.keys {
		if k == key {
			return i
		}
	}
	return -1
}

func (w *c12World) objOf(e *passivationEntry) int {
	if n, ok := w.objs[e]; ok {
		return n
	}
	return -1
}

func (w *c12World) noteEntry(key string) {
	w.m.mu.Lock()
	e := w.m.entries[key]
	w.m.mu.Unlock()
	if e != nil {
		if _, ok := w.objs[e]; !ok {
			w.objs[e] = w.nobj
			w.nobj++
		}
	}
}

func (w *c12World) apply(op *c12Op, st *c12Step) {
	m := w.m
	switch op.K {
	case "setlatest":
		r := w.real(op.L)
		if op.Id < len(w.fakes) {
			w.fakes[op.Id].latest.Store(r)
		} else {
			w.pids[op.Id-len(w.fakes)].latestReceiveTimeNano.Store(r)
		}
	case "setprocessed":
		if op.Id >= len(w.fakes) {
			w.pids[op.Id-len(w.fakes)].processedCount.Store(op.N)
		}
	case "register":
		var s passivation.Strategy
		switch op.S {
		case 0:
			s = passivation.NewTimeBasedStrategy(time.Duration(op.T))
		case 1:
			s = passivation.NewMessageCountBasedStrategy(int(op.N))
		default:
			s = passivation.NewLongLivedStrategy()
		}
		m.mu.Lock()
		_, existed := m.entries[w.keys[op.Id]]
		m.mu.Unlock()
		m.Register(w.parts[op.Id], s)
		if !existed {
			m.mu.Lock()
			e := m.entries[w.keys[op.Id]]
			m.mu.Unlock()
			if e == nil {
				w.nobj++ // an object was created and dropped again
			}
		}
		w.noteEntry(w.keys[op.Id])
	case "unregister":
		m.Unregister(w.parts[op.Id])
	case "pause":
		m.Pause(w.parts[op.Id])
	case "resume":
		r := m.Resume(w.parts[op.Id])
		if st != nil {
			st.Out = fmt.Sprintf("bool:%v", r)
		}
	case "touch":
		m.Touch(w.parts[op.Id])
	case "msgprocessed":
		if op.Id >= len(w.fakes) {
			m.MessageProcessed(w.pids[op.Id-len(w.fakes)])
		}
	case "next":
		e, wait := m.nextEntry()
		if st != nil {
			if e == nil {
				st.Out = "next:none"
			} else {
				st.Out = "next"
				st.OutId = w.indexOf(e.id)
				st.OutObj = w.objOf(e)
				st.OutWait = int64(wait)
			}
		}
	case "trigger":
		var expected *passivationEntry
		if op.Obj < 0 {
			// the entry object the participant currently has (what nextEntry would have handed to the loop)
			m.mu.Lock()
			expected = m.entries[w.keys[op.Id]]
			m.mu.Unlock()
		}
		for e, n := range w.objs {
			if n == op.Obj {
				expected = e
			}
		}
		if expected == nil {
			expected = &passivationEntry{id: "no-such-entry", index: -1}
		}
		w.script, w.calls, w.decided = op.Script, 0, nil
		m.trigger(expected)
		if st != nil {
			st.Calls, st.Decided = w.calls, w.decided
		}
	case "process":
		w.script, w.calls, w.decided = op.Script, 0, nil
		select {
		case e := <-m.messageTriggers:
			m.processMessageEntry(e)
		default:
		}
		if st != nil {
			st.Calls, st.Decided = w.calls, w.decided
		}
	}
}

func (w *c12World) snapshot(st *c12Step) {
	m := w.m
	m.mu.Lock()
	defer m.mu.Unlock()
	for key, e := range m.entries {
		ce := c12Entry{Id: w.indexOf(key), InHeap: e.index >= 0, Paused: e.paused, Pending: e.pending, Enq: e.enqueued, Obj: w.objOf(e)}
		switch e.strategy.(type) {
		case *passivation.TimeBasedStrategy:
			ce.Strat = 0
			ce.Deadline = w.logical(e.deadline)
		case *passivation.MessagesCountBasedStrategy:
			ce.Strat = 1
			ce.Base = e.baseline
		default:
			ce.Strat = 2
		}
		st.Entries = append(st.Entries, ce)
	}
	sort.Slice(st.Entries, func(i, j int) bool { return st.Entries[i].Id < st.Entries[j].Id })
	st.Chan = len(m.messageTriggers)
	st.HeapLen = len(m.queue)
	st.Head = -1
	if len(m.queue) > 0 {
		st.Head = w.indexOf(m.queue[0].id)
	}
}

const c12NumFakes = 3
const c12NumPids = 2

func TestVerifC12Manager(t *testing.T) {
	cases := verifReadJSONL[c12Case](t, "c12_mgr_in.jsonl")
	out := newVerifWriter(t, "c12_mgr_out.jsonl")
	defer out.close()
	ctx := context.Background()
	sys, err := NewActorSystem("verifC12m", WithLogger(log.DiscardLogger))
	if err != nil {
		t.Fatal(err)
	}
	if err := sys.Start(ctx); err != nil {
		t.Fatal(err)
	}
	defer func() { _ = sys.Stop(ctx) }()
	time.Sleep(30 * time.Millisecond)
	var pids []*PID
	for i := 0; i < c12NumPids; i++ {
		p, err := sys.Spawn(ctx, fmt.Sprintf("c12mp%d", i), &c12Actor{}, WithLongLived())
		if err != nil {
			t.Fatal(err)
		}
		pids = append(pids, p)
	}
	// let every PostStart turn finish: it bumps processedCount and stamps the actor
	for _, p := range pids {
		for dl := time.Now().Add(2 * time.Second); p.processedCount.Load() < 1 && time.Now().Before(dl); {
			time.Sleep(200 * time.Microsecond)
		}
	}
	time.Sleep(2 * time.Millisecond)
	for ci := range cases {
		cs := &cases[ci]
		w := &c12World{m: newPassivationManager(log.DiscardLogger), base: time.Now().UnixNano(), objs: map[*passivationEntry]int{}, pids: pids}
		w.m.started.Store(true) // Register and the trigger channel need the flag; the loop goroutine is NOT started
		for i := 0; i < c12NumFakes; i++ {
			f := &c12Fake{id: fmt.Sprintf("fake-%d", i)}
			w.fakes = append(w.fakes, f)
			w.parts = append(w.parts, f)
			w.keys = append(w.keys, f.id)
		}
		for _, p := range pids {
			p.latestReceiveTimeNano.Store(0)
			p.processedCount.Store(0)
			w.parts = append(w.parts, p)
			w.keys = append(w.keys, p.passivationID())
		}
		w.m.passivateFn = func(e *passivationEntry) bool {
			w.calls++
			w.decided = append(w.decided, [2]int{w.indexOf(e.id), w.objOf(e)})
			if len(w.script) == 0 {
				w.overrun = true
				return true
			}
			call := w.script[0]
			w.script = w.script[1:]
			for i := range call.Inner {
				w.apply(&call.Inner[i], nil)
			}
			return call.Res
		}
		res := c12Result{Id: cs.Id}
		for oi := range cs.Ops {
			st := c12Step{}
			w.apply(&cs.Ops[oi], &st)
			w.snapshot(&st)
			res.Steps = append(res.Steps, st)
		}
		if w.overrun {
			res.Err = "passivate called more often than scripted"
		}
		for _, p := range pids {
			p.latestReceiveTimeNano.Store(0)
			p.processedCount.Store(0)
		}
		out.put(res)
	}
}

// ---------------------------------------------------------------- markActivity coalescing

type c12MarkCase struct {
	Id      int
	Timeout int64   // ns
	Steps   []int64 // successive increments of the stamp, ns
}
type c12MarkObs struct {
	At, Latest, Touch, Deadline int64 // relative to the first stamp's base
}
type c12MarkResult struct {
	Id    int
	Base0 int64 // deadline right after registration, relative
	Steps []c12MarkObs
}

func TestVerifC12Mark(t *testing.T) {
	cases := verifReadJSONL[c12MarkCase](t, "c12_mark_in.jsonl")
	out := newVerifWriter(t, "c12_mark_out.jsonl")
	defer out.close()
	ctx := context.Background()
	sys, err := NewActorSystem("verifC12k", WithLogger(log.DiscardLogger))
	if err != nil {
		t.Fatal(err)
	}
	if err := sys.Start(ctx); err != nil {
		t.Fatal(err)
	}
	defer func() { _ = sys.Stop(ctx) }()
	time.Sleep(30 * time.Millisecond)
	for ci := range cases {
		cs := &cases[ci]
		p, err := sys.Spawn(ctx, fmt.Sprintf("c12k%d", cs.Id), &c12Actor{}, WithLongLived())
		if err != nil {
			t.Fatal(err)
		}
		// let the PostStart turn finish: it stamps the actor too
		for dl := time.Now().Add(time.Second); p.processedCount.Load() < 1 && time.Now().Before(dl); {
			time.Sleep(200 * time.Microsecond)
		}
		time.Sleep(time.Millisecond)
		m := newPassivationManager(log.DiscardLogger)
		m.started.Store(true)
		saved := p.passivationManager
		p.passivationManager = m
		base := time.Now().UnixNano()
		// the first stamp is the registration-time activity: the actor has just handled a message
		p.latestReceiveTimeNano.Store(base)
		p.lastPassivationTouch.Store(base)
		m.Register(p, passivation.NewTimeBasedStrategy(time.Duration(cs.Timeout)))
		res := c12MarkResult{Id: cs.Id}
		read := func() (int64, bool) {
			m.mu.Lock()
			defer m.mu.Unlock()
			e := m.entries[p.passivationID()]
			if e == nil {
				return 0, false
			}
			return e.deadline.UnixNano() - base, true
		}
		res.Base0, _ = read()
		at := base
		for _, inc := range cs.Steps {
			at += inc
			p.markActivity(time.Unix(0, at))
			d, _ := read()
			res.Steps = append(res.Steps, c12MarkObs{At: at - base, Latest: p.latestReceiveTimeNano.Load() - base, Touch: p.lastPassivationTouch.Load() - base, Deadline: d})
		}
		p.passivationManager = saved
		out.put(res)
	}
}

// ---------------------------------------------------------------- tryPassivation guards

type c12GuardCase struct {
	Id                                                    int
	LongLived, SkipNext, Stopping, Suspended, Paused, Mid bool // Mid: skip-next raised while tryPassivation waits for the stop lock
}
type c12GuardResult struct {
	Id                 int
	Passivated         bool
	RunningAfter       bool
	SkipAfter          bool
	PostStops          int64
	PassivatedEvents   int
}

func TestVerifC12Guards(t *testing.T) {
	cases := verifReadJSONL[c12GuardCase](t, "c12_guard_in.jsonl")
	out := newVerifWriter(t, "c12_guard_out.jsonl")
	defer out.close()
	ctx := context.Background()
	sys, err := NewActorSystem("verifC12g", WithLogger(log.DiscardLogger))
	if err != nil {
		t.Fatal(err)
	}
	if err := sys.Start(ctx); err != nil {
		t.Fatal(err)
	}
	defer func() { _ = sys.Stop(ctx) }()
	time.Sleep(30 * time.Millisecond)
	for ci := range cases {
		cs := &cases[ci]
		a := &c12Actor{}
		var opt SpawnOption = WithPassivationStrategy(passivation.NewTimeBasedStrategy(time.Hour))
		if cs.LongLived {
			opt = WithLongLived()
		}
		p, err := sys.Spawn(ctx, fmt.Sprintf("c12g%d", cs.Id), a, opt)
		if err != nil {
			t.Fatal(err)
		}
		time.Sleep(2 * time.Millisecond)
		p.setState(passivationSkipNextState, cs.SkipNext)
		p.setState(stoppingState, cs.Stopping)
		p.setState(suspendedState, cs.Suspended)
		p.setState(passivationPausedState, cs.Paused)
		res := c12GuardResult{Id: cs.Id}
		if cs.Mid {
			p.stopLocker.Lock()
			done := make(chan bool, 1)
			go func() { done <- p.tryPassivation("verif") }()
			// wait until the attempt is inside (passivating flag) or has already refused
			dl := time.Now().Add(500 * time.Millisecond)
			for !p.isStateSet(passivatingState) && time.Now().Before(dl) && len(done) == 0 {
				time.Sleep(100 * time.Microsecond)
			}
			p.setState(passivationSkipNextState, true)
			p.stopLocker.Unlock()
			res.Passivated = <-done
		} else {
			res.Passivated = p.tryPassivation("verif")
		}
		res.SkipAfter = p.isStateSet(passivationSkipNextState)
		res.RunningAfter = p.isStateSet(runningState)
		res.PostStops = a.post.Load()
		// leave no half-configured actor behind
		p.setState(stoppingState, false)
		p.setState(suspendedState, false)
		p.setState(passivationPausedState, false)
		out.put(res)
	}
}

// ---------------------------------------------------------------- live actors

type c12Work struct{ D time.Duration }
type c12Boom struct{}
type c12Err struct{}

func (c12Err) Error() string { return "verif-c12-err" }

type c12Live struct {
	mu      sync.Mutex
	starts  []int64 // handle start, ns since base
	stamps  []int64 // pid.latestReceiveTimeNano seen at handle start, ns since base
	posts   []int64
	pre     atomic.Int64
	base    time.Time
	handled atomic.Int64
}

func (a *c12Live) PreStart(*Context) error { a.pre.Add(1); return nil }
func (a *c12Live) PostStop(*Context) error {
	a.mu.Lock()
	a.posts = append(a.posts, time.Since(a.base).Nanoseconds())
	a.mu.Unlock()
	return nil
}
func (a *c12Live) Receive(ctx *ReceiveContext) {
	switch m := ctx.Message().(type) {
	case *c12Work:
		now := time.Since(a.base).Nanoseconds()
		stamp := ctx.Self().latestReceiveTimeNano.Load() - a.base.UnixNano()
		a.mu.Lock()
		a.starts = append(a.starts, now)
		a.stamps = append(a.stamps, stamp)
		a.mu.Unlock()
		if m.D > 0 {
			time.Sleep(m.D)
		}
		a.handled.Add(1)
	case *c12Boom:
		ctx.Err(c12Err{}) // no directive configured for it: the actor is suspended
	}
}

type c12LiveOut struct {
	Name       string
	Kind       string
	TimeoutNs  int64
	MaxMsgs    int
	Starts     []int64
	Stamps     []int64
	Posts      []int64
	Decisions  []int64 // when the manager called passivate for this actor
	Results    []bool
	SentUntil  int64
	Sent       int
	Running    bool
	Suspended  bool
	Processed  []int64 // processedCount seen at each decision
	PhaseMarks map[string]int64
}

func TestVerifC12Live(t *testing.T) {
	out := newVerifWriter(t, "c12_live_out.jsonl")
	defer out.close()
	ctx := context.Background()
	sys, err := NewActorSystem("verifC12l", WithLogger(log.DiscardLogger))
	if err != nil {
		t.Fatal(err)
	}
	base := time.Now()
	var dmu sync.Mutex
	decisions := map[string][]int64{}
	results := map[string][]bool{}
	processed := map[string][]int64{}
	mgr := sys.(*actorSystem).passivationManager()
	mgr.passivateFn = func(e *passivationEntry) bool {
		at := time.Since(base).Nanoseconds()
		var pc int64 = -1
		if p, ok := e.target.(*PID); ok {
			pc = p.processedCount.Load()
		}
		r := e.target.passivationTry(passivationReason(e))
		dmu.Lock()
		decisions[e.id] = append(decisions[e.id], at)
		results[e.id] = append(results[e.id], r)
		processed[e.id] = append(processed[e.id], pc)
		dmu.Unlock()
		return r
	}
	if err := sys.Start(ctx); err != nil {
		t.Fatal(err)
	}
	defer func() { _ = sys.Stop(ctx) }()
	time.Sleep(50 * time.Millisecond)

	scale := time.Duration(verifEnvInt("VERIF_C12_SCALE", 1))
	T := 400 * time.Millisecond * scale
	type live struct {
		out c12LiveOut
		act *c12Live
		pid *PID
	}
	var all []*live
	var wg sync.WaitGroup
	spawn := func(name, kind string, opts ...SpawnOption) *live {
		a := &c12Live{base: base}
		p, err := sys.Spawn(ctx, name, a, opts...)
		if err != nil {
			t.Fatal(err)
		}
		l := &live{out: c12LiveOut{Name: name, Kind: kind, PhaseMarks: map[string]int64{}}, act: a, pid: p}
		all = append(all, l)
		return l
	}
	mark := func(l *live, k string) { l.out.PhaseMarks[k] = time.Since(base).Nanoseconds() }
	tb := func(d time.Duration) SpawnOption { return WithPassivationStrategy(passivation.NewTimeBasedStrategy(d)) }

	// steady traffic: a quick message every 70ms for 3.5 T, then silence
	for i, period := range []time.Duration{70 * time.Millisecond, 150 * time.Millisecond, 250 * time.Millisecond} {
		l := spawn(fmt.Sprintf("c12steady%d", i), "steady", tb(T))
		l.out.TimeoutNs = int64(T)
		wg.Add(1)
		go func(l *live, period time.Duration) {
			defer wg.Done()
			end := time.Now().Add(T*3 + T/2)
			for time.Now().Before(end) {
				if Tell(ctx, l.pid, &c12Work{}) == nil {
					l.out.Sent++
				}
				time.Sleep(period * scale)
			}
			l.out.SentUntil = time.Since(base).Nanoseconds()
			time.Sleep(T * 2)
		}(l, period)
	}
	// a burst of slow handlers in one dispatcher turn
	{
		l := spawn("c12burst", "burst", tb(300*time.Millisecond*scale))
		l.out.TimeoutNs = int64(300 * time.Millisecond * scale)
		wg.Add(1)
		go func() {
			defer wg.Done()
			for i := 0; i < 6; i++ {
				if Tell(ctx, l.pid, &c12Work{D: 100 * time.Millisecond * scale}) == nil {
					l.out.Sent++
				}
			}
			l.out.SentUntil = time.Since(base).Nanoseconds()
			time.Sleep(1100 * time.Millisecond * scale)
		}()
	}
	// paused, then resumed
	{
		l := spawn("c12paused", "paused", tb(T/2))
		l.out.TimeoutNs = int64(T / 2)
		wg.Add(1)
		go func() {
			defer wg.Done()
			_ = Tell(ctx, l.pid, &PausePassivation{})
			mark(l, "paused")
			time.Sleep(T * 3 / 2)
			mark(l, "resume")
			_ = Tell(ctx, l.pid, &ResumePassivation{})
			time.Sleep(T * 3 / 2)
		}()
	}
	// paused, busy while paused, resumed right after a message: the resume must start from that message
	for i, period := range []time.Duration{70 * time.Millisecond, 120 * time.Millisecond} {
		l := spawn(fmt.Sprintf("c12pausedbusy%d", i), "pausedbusy", tb(T))
		l.out.TimeoutNs = int64(T)
		wg.Add(1)
		go func(l *live, period time.Duration) {
			defer wg.Done()
			_ = Tell(ctx, l.pid, &PausePassivation{})
			mark(l, "paused")
			end := time.Now().Add(T + T/4) // the deadline the entry was parked with has passed by then
			for time.Now().Before(end) {
				if Tell(ctx, l.pid, &c12Work{}) == nil {
					l.out.Sent++
				}
				time.Sleep(period * scale)
			}
			_ = Tell(ctx, l.pid, &c12Work{})
			time.Sleep(5 * time.Millisecond)
			mark(l, "resume")
			_ = Tell(ctx, l.pid, &ResumePassivation{})
			l.out.SentUntil = time.Since(base).Nanoseconds()
			time.Sleep(T * 2)
		}(l, period)
	}
	// suspended (a failure without a directive), later reinstated
	{
		l := spawn("c12susp", "suspended", tb(T/2))
		l.out.TimeoutNs = int64(T / 2)
		wg.Add(1)
		go func() {
			defer wg.Done()
			_ = Tell(ctx, l.pid, &c12Boom{})
			mark(l, "suspended")
			time.Sleep(T * 3 / 2)
			l.out.Suspended = l.pid.IsSuspended()
			mark(l, "reinstate")
			_ = sys.(*actorSystem).getUserGuardian().Reinstate(l.pid)
			time.Sleep(T * 3 / 2)
		}()
	}
	// long-lived
	{
		l := spawn("c12long", "longlived", WithLongLived())
		wg.Add(1)
		go func() {
			defer wg.Done()
			_ = Tell(ctx, l.pid, &c12Work{})
			time.Sleep(T * 2)
		}()
	}
	// message count
	{
		l := spawn("c12count", "count", WithPassivationStrategy(passivation.NewMessageCountBasedStrategy(4)))
		l.out.MaxMsgs = 4
		wg.Add(1)
		go func() {
			defer wg.Done()
			for i := 0; i < 2; i++ {
				if Tell(ctx, l.pid, &c12Work{}) == nil {
					l.out.Sent++
				}
			}
			time.Sleep(T)
			mark(l, "second-batch")
			for i := 0; i < 6; i++ {
				if Tell(ctx, l.pid, &c12Work{}) == nil {
					l.out.Sent++
				}
				time.Sleep(10 * time.Millisecond)
			}
			time.Sleep(T / 2)
		}()
	}
	wg.Wait()
	dmu.Lock()
	defer dmu.Unlock()
	for _, l := range all {
		l.act.mu.Lock()
		l.out.Starts, l.out.Stamps, l.out.Posts = l.act.starts, l.act.stamps, l.act.posts
		l.act.mu.Unlock()
		l.out.Decisions = decisions[l.pid.ID()]
		l.out.Results = results[l.pid.ID()]
		l.out.Processed = processed[l.pid.ID()]
		l.out.Running = l.pid.IsRunning()
		out.put(l.out)
	}
}
