//go:build verif

package actor

import "testing"

// TestVerifC43 runs the case plans written by checks/C43.py on the harness of zz_verif_C42_test.go.
func TestVerifC43(t *testing.T) { rdRunPlans(t, "c43_plans.jsonl", "c43_cases.jsonl") }
