//go:build verif

package actor

// C16 — reentrant requests complete exactly once, on the requester's turn.
// In-package harness injected by checks/C16.py with `go test -overlay`.

import (
	"context"
	"errors"
	"fmt"
	"os"
	"runtime"
	"sort"
	"strconv"
	"strings"
	"sync"
	"sync/atomic"
	"testing"
	"time"

	gerrors "github.com/tochemey/goakt/v4/errors"
	"github.com/tochemey/goakt/v4/internal/commands"
	"github.com/tochemey/goakt/v4/log"
	"github.com/tochemey/goakt/v4/passivation"
	"github.com/tochemey/goakt/v4/reentrancy"
	"github.com/tochemey/goakt/v4/test/data/testpb"
)

// c16Actor is a plain actor whose Receive is a closure.
type c16Actor struct {
	receive func(*ReceiveContext)
}

func (x *c16Actor) PreStart(*Context) error { return nil }
func (x *c16Actor) Receive(ctx *ReceiveContext) {
	if x.receive != nil {
		x.receive(ctx)
	}
}
func (x *c16Actor) PostStop(*Context) error { return nil }

func c16System(t *testing.T, name string) (ActorSystem, context.Context) {
	t.Helper()
	ctx := context.Background()
	sys, err := NewActorSystem(name, WithLogger(log.DiscardLogger))
	if err != nil {
		t.Fatalf("NewActorSystem: %v", err)
	}
	if err := sys.Start(ctx); err != nil {
		t.Fatalf("Start: %v", err)
	}
	t.Cleanup(func() { _ = sys.Stop(ctx) })
	return sys, ctx
}

func c16Spawn(t *testing.T, sys ActorSystem, ctx context.Context, name string, receive func(*ReceiveContext), opts ...SpawnOption) *PID {
	t.Helper()
	pid, err := sys.Spawn(ctx, name, &c16Actor{receive: receive}, opts...)
	if err != nil || pid == nil {
		t.Fatalf("Spawn %s: %v", name, err)
	}
	return pid
}

func c16WaitFor(t *testing.T, what string, cond func() bool) bool {
	t.Helper()
	deadline := time.Now().Add(40 * time.Second)
	for !cond() {
		if time.Now().After(deadline) {
			t.Errorf("timed out waiting for %s", what)
			return false
		}
		time.Sleep(200 * time.Microsecond)
	}
	return true
}

type c16WitnessOut struct {
	Witness string
	Handled []int32 // ordinary messages in the order Receive saw them
	Held    []int32 // messages that were observed in the stash at least once (by StashSize growth)
	Note    string
}

// TestVerifC16WitnessStashOrder replays the Coq witness C16_stash_order_refuted on real actors:
// ordinary messages w1..w4 arrive in that order; every one issues a StashNonReentrant request.
// The reply to w1's request is in the mailbox between w2 and w3. All of it is made deterministic
// by keeping the requester inside w1's Receive until the mailbox holds [w2, reply, w3, w4].
func TestVerifC16WitnessStashOrder(t *testing.T) {
	w := newVerifWriter(t, "c16_witness_order.jsonl")
	defer w.close()
	sys, ctx := c16System(t, "c16-witness-order")

	releaseFirst := make(chan struct{})
	var seenReq atomic.Int32
	target := c16Spawn(t, sys, ctx, "target", func(rc *ReceiveContext) {
		switch rc.Message().(type) {
		case *testpb.TestCount:
			if seenReq.Add(1) == 1 {
				<-releaseFirst
			}
			rc.Response(&testpb.Reply{Content: "ok"})
		}
	})

	var mu sync.Mutex
	var handled []int32
	entered := make(chan struct{})
	gate := make(chan struct{})
	var requester *PID
	requester = c16Spawn(t, sys, ctx, "requester", func(rc *ReceiveContext) {
		switch m := rc.Message().(type) {
		case *testpb.TestCount:
			mu.Lock()
			handled = append(handled, m.GetValue())
			mu.Unlock()
			call := rc.Request(target, &testpb.TestCount{Value: m.GetValue()}, WithReentrancyMode(reentrancy.StashNonReentrant))
			if call != nil {
				call.Then(func(any, error) {})
			}
			if m.GetValue() == 1 {
				close(entered)
				<-gate
			}
		}
	}, WithReentrancy(reentrancy.New(reentrancy.WithMode(reentrancy.StashNonReentrant))))

	must := func(err error) {
		if err != nil {
			t.Fatalf("tell: %v", err)
		}
	}
	must(Tell(ctx, requester, &testpb.TestCount{Value: 1}))
	<-entered
	must(Tell(ctx, requester, &testpb.TestCount{Value: 2}))
	close(releaseFirst) // the target now replies to request #1: the reply is enqueued behind w2
	c16WaitFor(t, "reply #1 enqueued", func() bool { return requester.mailbox.Len() == 2 })
	must(Tell(ctx, requester, &testpb.TestCount{Value: 3}))
	must(Tell(ctx, requester, &testpb.TestCount{Value: 4}))
	close(gate)
	c16WaitFor(t, "all four handled", func() bool {
		mu.Lock()
		defer mu.Unlock()
		return len(handled) == 4
	})
	mu.Lock()
	out := c16WitnessOut{Witness: "stash-order", Handled: append([]int32(nil), handled...)}
	mu.Unlock()
	w.put(out)
}

// ---------------------------------------------------------------------------------------------
// Deterministic tie: generated op sequences on a REAL spawned actor whose turn is owned by the
// harness goroutine (schedState held at Processing, so no dispatcher worker touches it). Every op
// is one call of the real function the Coq model's op stands for; the observable state is recorded
// after every step and compared with C16/Model.v (trace) by checks/C16.py. An oracle that knows
// nothing of the model checks the property's clauses after every step.

const (
	c16OArrive = iota
	c16OReply
	c16OTimerFire
	c16OCancel
	c16OStop
	c16OCancelInFlight
	c16OReset
	c16ORestart
	c16ODispatch
	c16OFinish
	c16OCtl
	c16ORequest
	c16OThen
	c16ORetune
)

type c16Case struct {
	Max int
	Ops [][3]int
}

type c16Obs struct {
	Skip     bool    `json:"skip,omitempty"`
	Table    []int   `json:"t"`
	InFlight int64   `json:"i"`
	Blocking int64   `json:"b"`
	Mbox     []int64 `json:"m"`
	Stash    []int64 `json:"s"`
	Handled  []int32 `json:"h"`
	Ctls     int     `json:"c"`
	Objs     []int64 `json:"o"`
}

type c16Complaint struct {
	Step    int
	Kind    string // calls | offturn | limit | isolation | counters | monotone | exactly-once | lost | tracked | release | order
	Tainted bool   // cancelInFlightRequests had run inside an (emulated) preempted completeRequest since the last reset
	Msg     string
}

type c16CaseOut struct {
	Case       int
	Obs        []c16Obs
	Complaints []c16Complaint
	EverHeld   []int32
	Unresolved []int
	Panics     int
}

func c16Gid() uint64 {
	var buf [64]byte
	n := runtime.Stack(buf[:], false)
	f := strings.Fields(string(buf[:n]))
	if len(f) < 2 {
		return 0
	}
	id, _ := strconv.ParseUint(f[1], 10, 64)
	return id
}

func c16ErrCode(completed bool, err error) int64 {
	switch {
	case !completed:
		return 0
	case err == nil:
		return 1
	case errors.Is(err, gerrors.ErrRequestTimeout):
		return 3
	case errors.Is(err, gerrors.ErrRequestCanceled):
		return 4
	default:
		return 2
	}
}

func c16RespKind(r *commands.AsyncResponse) int64 {
	switch r.Error {
	case "":
		return 1
	case gerrors.ErrRequestTimeout.Error():
		return 3
	case gerrors.ErrRequestCanceled.Error():
		return 4
	default:
		return 2
	}
}

type c16Req struct {
	call      RequestCall
	state     *requestState
	calls     atomic.Int32
	offTurn   atomic.Int32
	armed     bool
	fired     bool
	stashMode bool
	// oracle memory
	wasCompleted bool
	wasCode      int64
	dropped      bool
}

type c16Mid struct {
	state  *requestState
	cb     func(any, error)
	result any
	err    error
}

type c16Driver struct {
	ctx        context.Context
	pid        *PID
	target     *PID
	gid        uint64
	idx        map[string]int
	reqs       []*c16Req
	handled    []int32
	nextu      int32
	ctls       int
	phase      int // 0 run, 1 stopping, 2 cancelled, 3 stopped
	mid        *c16Mid
	taint      bool
	zeroed     bool // cancelInFlightRequests ran at least once (held messages may be stranded from then on)
	step       int
	complaints []c16Complaint
	everHeld   map[int32]bool
	max        int
	panics     int   // continuations that panicked (contained by the harness, as the turn's caller)
	unresolved []int // steps whose OReply named a request that did not exist (yet): sent with an unrelated id
}

func (d *c16Driver) complain(kind, format string, a ...any) {
	if len(d.complaints) < 12 {
		d.complaints = append(d.complaints, c16Complaint{Step: d.step, Kind: kind, Tainted: d.taint, Msg: fmt.Sprintf(format, a...)})
	}
}

func c16WalkBox(mb Mailbox, code func(any) int64) []int64 {
	out := []int64{}
	u, ok := mb.(*UnboundedMailbox)
	if !ok || u == nil {
		return out
	}
	head := (*ReceiveContext)(atomic.LoadPointer(&u.head))
	cur := (*ReceiveContext)(atomic.LoadPointer(&head.next))
	for cur != nil {
		out = append(out, code(cur.message))
		cur = (*ReceiveContext)(atomic.LoadPointer(&cur.next))
	}
	return out
}

func (d *c16Driver) idOf(corr string) int {
	if i, ok := d.idx[corr]; ok {
		return i
	}
	if strings.HasPrefix(corr, "unk-") {
		n, _ := strconv.Atoi(corr[4:])
		return 1000 + n // a correlation id no request of this actor will ever carry (ids are fresh UUIDs)
	}
	return 999999
}

func (d *c16Driver) msgCode(m any) int64 {
	switch v := m.(type) {
	case *testpb.TestCount:
		return int64(v.GetValue())
	case *commands.AsyncRequest:
		if c, ok := v.Message.(*testpb.TestCount); ok {
			return int64(c.GetValue())
		}
		return 1 << 41
	case *commands.AsyncResponse:
		return -(1 + int64(d.idOf(v.CorrelationID))*8 + c16RespKind(v))
	default:
		return 1 << 40
	}
}

// liveStash: uncompleted StashNonReentrant requests present in requestStates
func (d *c16Driver) liveInTable() (live, liveStash, stashEntries int) {
	re := d.pid.reentrancy.Load()
	for _, k := range re.requestStates.Keys() {
		st, ok := re.requestStates.Get(k)
		if !ok || st == nil {
			continue
		}
		if st.mode == reentrancy.StashNonReentrant {
			stashEntries++
		}
		st.mu.Lock()
		c := st.completed
		st.mu.Unlock()
		if !c {
			live++
			if st.mode == reentrancy.StashNonReentrant {
				liveStash++
			}
		}
	}
	return
}

func (d *c16Driver) observe() c16Obs {
	re := d.pid.reentrancy.Load()
	o := c16Obs{Table: []int{}, Handled: append([]int32{}, d.handled...), Ctls: d.ctls, Objs: []int64{}, Stash: []int64{}}
	for _, k := range re.requestStates.Keys() {
		o.Table = append(o.Table, d.idOf(k))
	}
	sort.Ints(o.Table)
	o.InFlight = re.inFlightCount.Load()
	o.Blocking = re.blockingCount.Load()
	o.Mbox = c16WalkBox(d.pid.mailbox, d.msgCode)
	if d.pid.stashState != nil && d.pid.stashState.box != nil {
		o.Stash = c16WalkBox(d.pid.stashState.box, d.msgCode)
	}
	for _, r := range d.reqs {
		st := r.state
		st.mu.Lock()
		var v int64
		if st.completed {
			v |= 1
		}
		v += 2 * c16ErrCode(st.completed, st.err)
		if st.callback != nil {
			v += 16
		}
		v += 32 * int64(r.calls.Load())
		if st.cancelRequested {
			v += 128
		}
		if st.stopTimeout != nil {
			v += 256
		}
		st.mu.Unlock()
		o.Objs = append(o.Objs, v)
	}
	return o
}

// the property's own clauses, evaluated on the real state after every step
func (d *c16Driver) stepOracle(op [3]int, o *c16Obs) {
	re := d.pid.reentrancy.Load()
	inTable := map[int]bool{}
	for _, k := range re.requestStates.Keys() {
		inTable[d.idOf(k)] = true
	}
	for i, r := range d.reqs {
		st := r.state
		st.mu.Lock()
		completed, code, cbset := st.completed, c16ErrCode(st.completed, st.err), st.callback != nil
		st.mu.Unlock()
		calls := r.calls.Load()
		if calls > 1 {
			d.complain("calls", "op %v: continuation of request %d invoked %d times", op, i, calls)
		}
		if r.offTurn.Load() > 0 {
			d.complain("offturn", "op %v: continuation of request %d ran off the requester's turn", op, i)
		}
		if r.wasCompleted && (!completed || code != r.wasCode) {
			d.complain("monotone", "op %v: request %d was completed with outcome %d, now completed=%v outcome %d", op, i, r.wasCode, completed, code)
		}
		r.wasCompleted, r.wasCode = completed, code
		midHere := d.mid != nil && d.mid.state == st
		if d.mid == nil {
			want := int32(0)
			if completed && cbset && !r.dropped {
				want = 1
			}
			if calls != want && !(r.dropped && calls <= 1) { // whether a shutdown cancellation may still run it is left to the model comparison
				d.complain("exactly-once", "op %v: request %d completed=%v continuation-registered=%v shutdown-discarded=%v but continuation ran %d times", op, i, completed, cbset, r.dropped, calls)
			}
		}
		if !completed && !inTable[i] {
			d.complain("tracked", "op %v: request %d is neither completed nor in requestStates (it can never complete)", op, i)
		}
		if completed && inTable[i] && !midHere {
			d.complain("tracked", "op %v: request %d is completed but still in requestStates", op, i)
		}
	}
	live, _, stashEntries := d.liveInTable()
	if max := re.maxInFlight.Load(); max > 0 && int64(live) > max {
		d.complain("limit", "op %v: %d uncompleted requests in flight, limit %d", op, live, max)
	}
	inf, blk := re.inFlightCount.Load(), re.blockingCount.Load()
	if !d.taint {
		if inf != int64(re.requestStates.Len()) || blk != int64(stashEntries) {
			d.complain("counters", "op %v: inFlightCount=%d blockingCount=%d but requestStates has %d entries, %d of them StashNonReentrant", op, inf, blk, re.requestStates.Len(), stashEntries)
		}
	}
	if inf < 0 || blk < 0 {
		d.complain("counters", "op %v: negative counter inFlightCount=%d blockingCount=%d", op, inf, blk)
	}
	// no accepted ordinary message lost or duplicated
	seen := map[int64]int{}
	for _, h := range d.handled {
		seen[int64(h)]++
	}
	for _, m := range append(c16WalkBox(d.pid.mailbox, d.msgCode), o.Stash...) {
		if m >= 0 {
			seen[m]++
		}
	}
	for n := int64(0); n < int64(d.nextu); n++ {
		if seen[n] != 1 {
			d.complain("lost", "op %v: ordinary message %d accounted for %d times (handled+stash+mailbox)", op, n, seen[n])
			break
		}
	}
	for _, m := range o.Stash {
		if m >= 0 {
			d.everHeld[int32(m)] = true
		} else {
			d.complain("isolation", "op %v: a response envelope was stashed", op)
		}
	}
	if !d.zeroed && !d.taint && blk == 0 && len(o.Stash) > 0 {
		d.complain("release", "op %v: no blocking request left but %d messages still held", op, len(o.Stash))
	}
}

// offTurn runs f on another goroutine and waits for it: replies, timer goroutines, Cancel and the
// stopping goroutine are never the requester's turn.
func c16OffTurn(f func()) {
	done := make(chan struct{})
	go func() {
		defer close(done)
		defer func() { _ = recover() }() // a continuation that runs (and panics) here is reported by the oracle, not by a crash
		f()
	}()
	<-done
}

// guarded runs a piece of the turn; a panicking continuation must not take the bookkeeping with it
func (d *c16Driver) guarded(f func()) {
	defer func() {
		if r := recover(); r != nil {
			d.panics++
		}
	}()
	f()
}

func (d *c16Driver) apply(op [3]int, nextIsFinish bool) (skip bool) {
	pid, ctx := d.pid, d.ctx
	switch op[0] {
	case c16OArrive:
		var msg any = &testpb.TestCount{Value: d.nextu}
		if op[1] == 1 {
			// the ordinary message is somebody else's Request: it arrives wrapped in an AsyncRequest envelope
			msg = &commands.AsyncRequest{CorrelationID: "in-" + strconv.Itoa(int(d.nextu)),
				ReplyTo: &commands.AsyncReplyTo{Kind: commands.ReplyToActor, Actor: pathToAddress(d.target.Path())}, Message: msg}
		}
		c16OffTurn(func() {
			if err := d.target.Tell(ctx, pid, msg); err == nil {
				d.nextu++
			}
		})
	case c16OReply:
		corr := "unk-" + strconv.Itoa(op[1])
		if op[1] < len(d.reqs) {
			corr = d.reqs[op[1]].state.id
		} else {
			d.unresolved = append(d.unresolved, d.step)
		}
		resp := &commands.AsyncResponse{CorrelationID: corr}
		switch op[2] {
		case 1:
			resp.Message = &testpb.Reply{Content: "ok"}
		case 2:
			resp.Error = "boom"
		case 3:
			resp.Error = gerrors.ErrRequestTimeout.Error()
		default:
			resp.Error = gerrors.ErrRequestCanceled.Error()
		}
		c16OffTurn(func() { _ = d.target.Tell(ctx, pid, resp) }) // what actorSystem.tellAsyncResponse does
	case c16OTimerFire:
		if op[1] < len(d.reqs) {
			r := d.reqs[op[1]]
			if r.armed && !r.fired {
				r.fired = true
				// the body of the timeout goroutine in requestState.startTimeout
				c16OffTurn(func() {
					_ = r.state.requester.enqueueAsyncError(context.Background(), r.state.id, gerrors.ErrRequestTimeout)
				})
			}
		}
	case c16OCancel:
		if op[1] < len(d.reqs) {
			c16OffTurn(func() { _ = d.reqs[op[1]].call.Cancel() })
		}
	case c16OStop:
		if d.phase == 0 {
			c16OffTurn(func() { pid.setState(stoppingState, true) })
			d.phase = 1
		}
	case c16OCancelInFlight:
		type pre struct{ completed, cb bool }
		before := make([]pre, len(d.reqs))
		for i, r := range d.reqs {
			r.state.mu.Lock()
			before[i] = pre{r.state.completed, r.state.callback != nil}
			r.state.mu.Unlock()
		}
		if d.mid != nil {
			if _, ok := pid.reentrancy.Load().requestStates.Get(d.mid.state.id); ok {
				d.taint = true
			}
		}
		c16OffTurn(func() { pid.cancelInFlightRequests(gerrors.ErrRequestCanceled) })
		d.zeroed = true
		for i, r := range d.reqs {
			r.state.mu.Lock()
			if !before[i].completed && r.state.completed && before[i].cb {
				r.dropped = true // documented: a shutdown cancellation completes the request without running its continuation
			}
			r.state.mu.Unlock()
		}
		if d.phase == 1 {
			d.phase = 2
		}
	case c16OReset:
		if d.phase == 2 {
			c16OffTurn(func() { pid.reentrancy.Load().reset() })
			d.phase = 3
			d.taint = false
		}
	case c16ORestart:
		if d.phase == 3 {
			pid.setState(stoppingState, false)
			d.phase = 0
		}
	case c16ODispatch:
		if d.mid != nil {
			return false
		}
		rc := pid.mailbox.Dequeue()
		if rc == nil {
			return false
		}
		resp, isResp := rc.Message().(*commands.AsyncResponse)
		if nextIsFinish || !isResp {
			// the real path, whole: enableReentrancyStash, stash / handler / completeRequest
			d.guarded(func() { pid.dispatchOne(rc, time.Now()) })
			return nextIsFinish
		}
		// emulated preemption point inside completeRequest: Get + complete now, deregister + continuation at OFinish
		re := pid.reentrancy.Load()
		st, ok := re.requestStates.Get(strings.TrimSpace(resp.CorrelationID))
		if !ok {
			return false
		}
		var result any
		var err error
		if resp.Error != "" {
			err = asyncErrorFromString(resp.Error)
		} else {
			result = resp.Message
		}
		if cb, won := st.complete(result, err); won {
			d.mid = &c16Mid{state: st, cb: cb, result: result, err: err}
		}
	case c16OFinish:
		if d.mid != nil {
			m := d.mid
			d.mid = nil
			pid.deregisterRequestState(m.state)
			if m.cb != nil {
				d.guarded(func() { m.cb(m.result, m.err) })
			}
		}
	case c16OCtl:
		if d.mid != nil {
			return false
		}
		var msg any = new(PausePassivation)
		want := true
		if pid.isStateSet(passivationPausedState) {
			msg, want = new(ResumePassivation), false
		}
		rc := getContext()
		rc.build(ctx, pid, pid, msg, true)
		pid.dispatchOne(rc, time.Now())
		if pid.isStateSet(passivationPausedState) == want {
			d.ctls++
		}
	case c16ORequest:
		if d.mid != nil {
			return false
		}
		mode := reentrancy.AllowAll
		if op[1] == 1 {
			mode = reentrancy.StashNonReentrant
		}
		opts := []RequestOption{WithReentrancyMode(mode)}
		if op[2] == 1 {
			opts = append(opts, WithRequestTimeout(time.Hour))
		}
		call, err := pid.request(ctx, d.target, &testpb.TestCount{Value: int32(len(d.reqs))}, opts...)
		if err == nil && call != nil {
			st := call.(*requestHandle).state
			d.idx[st.id] = len(d.reqs)
			d.reqs = append(d.reqs, &c16Req{call: call, state: st, armed: op[2] == 1, stashMode: op[1] == 1})
		}
	case c16OThen:
		if d.mid != nil || op[1] >= len(d.reqs) {
			return false
		}
		r := d.reqs[op[1]]
		explode := op[2] == 1
		d.guarded(func() {
			r.call.Then(func(any, error) {
				r.calls.Add(1)
				if c16Gid() != d.gid {
					r.offTurn.Add(1)
				}
				if explode {
					panic("c16: continuation exploded")
				}
			})
		})
	case c16ORetune:
		// ReceiveContext.EnableReentrancy / DisableReentrancy: only the default mode of later requests changes
		switch op[1] {
		case 0:
			pid.disableReentrancy()
		case 1:
			_ = pid.enableReentrancy(reentrancy.New(reentrancy.WithMode(reentrancy.AllowAll), reentrancy.WithMaxInFlight(d.max)))
		default:
			_ = pid.enableReentrancy(reentrancy.New(reentrancy.WithMode(reentrancy.StashNonReentrant), reentrancy.WithMaxInFlight(d.max)))
		}
	}
	return false
}

func c16Hijack(t *testing.T, pid *PID) bool {
	// wait until PostStart has been processed and the actor is parked, then take the turn ourselves
	ok := c16WaitFor(t, "requester idle", func() bool {
		return pid.schedState.Load() == dispatchIdle && pid.mailbox.IsEmpty() && pid.systemMailbox.IsEmpty()
	})
	if !ok {
		return false
	}
	time.Sleep(time.Millisecond)
	for i := 0; i < 10000; i++ {
		if pid.schedState.TrySchedule() {
			return pid.schedState.TakeForProcessing()
		}
		time.Sleep(100 * time.Microsecond)
	}
	return false
}

func TestVerifC16Ops(t *testing.T) {
	cases := verifReadJSONL[c16Case](t, "c16_ops.jsonl")
	w := newVerifWriter(t, "c16_ops_out.jsonl")
	defer w.close()
	sys, ctx := c16System(t, "c16-ops")
	target := c16Spawn(t, sys, ctx, "swallow", func(*ReceiveContext) {})
	for ci, c := range cases {
		d := &c16Driver{ctx: ctx, target: target, idx: map[string]int{}, gid: c16Gid(), everHeld: map[int32]bool{}, max: c.Max}
		d.pid = c16Spawn(t, sys, ctx, fmt.Sprintf("req-%d", ci), func(rc *ReceiveContext) {
			if m, ok := rc.Message().(*testpb.TestCount); ok {
				if _, liveStash, _ := d.liveInTable(); liveStash > 0 {
					d.complain("isolation", "ordinary message %d handled while %d uncompleted StashNonReentrant request(s) are in flight", m.GetValue(), liveStash)
				}
				d.handled = append(d.handled, m.GetValue())
			}
		}, WithReentrancy(reentrancy.New(reentrancy.WithMode(reentrancy.AllowAll), reentrancy.WithMaxInFlight(c.Max))),
			WithPassivationStrategy(passivation.NewTimeBasedStrategy(time.Hour)))
		if !c16Hijack(t, d.pid) {
			t.Fatalf("case %d: could not take the requester's turn", ci)
		}
		out := c16CaseOut{Case: ci}
		for i, op := range c.Ops {
			d.step = i
			nextIsFinish := op[0] == c16ODispatch && i+1 < len(c.Ops) && c.Ops[i+1][0] == c16OFinish
			skip := d.apply(op, nextIsFinish)
			if skip {
				out.Obs = append(out.Obs, c16Obs{Skip: true})
				continue
			}
			o := d.observe()
			d.stepOracle(op, &o)
			out.Obs = append(out.Obs, o)
		}
		// held messages must reach the handler in arrival order
		var heldSeq []int32
		for _, h := range d.handled {
			if d.everHeld[h] {
				heldSeq = append(heldSeq, h)
			}
		}
		for i := 1; i < len(heldSeq); i++ {
			if heldSeq[i] < heldSeq[i-1] {
				d.complain("order", "held messages reached the handler in the order %v (arrival order is ascending)", heldSeq)
				break
			}
		}
		for h := range d.everHeld {
			out.EverHeld = append(out.EverHeld, h)
		}
		sort.Slice(out.EverHeld, func(i, j int) bool { return out.EverHeld[i] < out.EverHeld[j] })
		out.Complaints = d.complaints
		out.Unresolved = d.unresolved
		out.Panics = d.panics
		w.put(out)
		// give the turn back and retire the actor
		for _, r := range d.reqs {
			r.state.stopTimeoutIfSet()
		}
		for d.pid.mailbox.Dequeue() != nil {
		}
		d.pid.reentrancy.Load().reset() // nothing left for the retiring Shutdown to cancel (continuations of this case may panic)
		d.pid.setState(stoppingState, false)
		d.pid.schedState.reset()
		d.guarded(func() { _ = d.pid.Shutdown(ctx) })
	}
}

// ---------------------------------------------------------------------------------------------
// Real goroutines: real dispatcher turns, real timers, Cancel from other goroutines, Shutdown while
// requests are in flight. Only the property's oracle is evaluated here (no model).

type c16StressOut struct {
	Requesters, Messages, Requests, Replies, Timeouts, Cancels, ShutdownCancelled, Rejected, Continuations int64
	Violations                                                                                             []string
}

type c16Viol struct {
	mu sync.Mutex
	v  []string
}

func (x *c16Viol) add(format string, a ...any) {
	x.mu.Lock()
	if len(x.v) < 10 {
		x.v = append(x.v, fmt.Sprintf(format, a...))
	}
	x.mu.Unlock()
}

type c16SReq struct {
	call       RequestCall
	state      *requestState
	calls      atomic.Int32
	thenSet    atomic.Bool
	stashMode  bool
	beforeStop bool // Request had returned before Shutdown was called: the shutdown cancellation must find it
}

type c16SActor struct {
	name     string
	pid      *PID
	limit    int
	stashDef bool
	rng      *verifRNG
	viol     *c16Viol
	owner    atomic.Uint64
	depth    int // owner-goroutine only
	blockOut int // owner-goroutine only: stash-mode requests whose continuation has not run yet
	outst    int // owner-goroutine only: requests whose continuation has not run yet (upper bound of in flight)
	deferred []*c16SReq
	mu       sync.Mutex
	reqs     []*c16SReq
	handled  map[int32]int
	stopping atomic.Bool
	tolerant bool
	stats    *c16StressOut
	targets  []*PID
	cancelCh chan *c16SReq
}

func (a *c16SActor) enter(what string) {
	g := c16Gid()
	prev := a.owner.Swap(g)
	if prev != 0 && prev != g {
		a.viol.add("%s: %s ran on goroutine %d while goroutine %d was inside the actor's Receive/continuation", a.name, what, g, prev)
	}
	a.depth++
}

func (a *c16SActor) leave() {
	a.depth--
	if a.depth == 0 {
		a.owner.Store(0)
	}
}

func (a *c16SActor) continuation(r *c16SReq) func(any, error) {
	return func(_ any, err error) {
		a.enter("continuation")
		defer a.leave()
		if n := r.calls.Add(1); n > 1 {
			a.viol.add("%s: continuation invoked %d times for one request", a.name, n)
		}
		if a.pid.schedState.Load() != dispatchProcessing {
			a.viol.add("%s: continuation ran while the actor was not in its processing turn", a.name)
		}
		atomic.AddInt64(&a.stats.Continuations, 1)
		switch {
		case err == nil:
			atomic.AddInt64(&a.stats.Replies, 1)
		case errors.Is(err, gerrors.ErrRequestTimeout):
			atomic.AddInt64(&a.stats.Timeouts, 1)
		case errors.Is(err, gerrors.ErrRequestCanceled):
			atomic.AddInt64(&a.stats.Cancels, 1)
		}
		a.outst--
		if r.stashMode {
			a.blockOut--
		}
	}
}

func (a *c16SActor) receive(rc *ReceiveContext) {
	m, ok := rc.Message().(*testpb.TestCount)
	if !ok {
		return
	}
	a.enter("Receive")
	defer a.leave()
	defer func() {
		if r := recover(); r != nil {
			buf := make([]byte, 2048)
			a.viol.add("%s: harness panic in Receive: %v %s", a.name, r, buf[:runtime.Stack(buf, false)])
		}
	}()
	if a.blockOut > 0 && !a.stopping.Load() {
		a.viol.add("%s: ordinary message %d handled while %d StashNonReentrant request(s) are outstanding", a.name, m.GetValue(), a.blockOut)
	}
	a.mu.Lock()
	a.handled[m.GetValue()]++
	a.mu.Unlock()
	// late Then on requests issued by an earlier message (may already be completed: runs here, synchronously)
	for _, r := range a.deferred {
		r.thenSet.Store(true)
		r.call.Then(a.continuation(r))
	}
	a.deferred = a.deferred[:0]
	if m.GetValue() < 0 {
		return // flush message
	}
	n := 1 + a.rng.intn(2)
	for i := 0; i < n; i++ {
		stash := a.stashDef
		opts := []RequestOption{}
		switch a.rng.intn(4) {
		case 0:
			stash = true
			opts = append(opts, WithReentrancyMode(reentrancy.StashNonReentrant))
		case 1:
			stash = false
			opts = append(opts, WithReentrancyMode(reentrancy.AllowAll))
		}
		ti := a.rng.intn(len(a.targets))
		if ti == 2 || a.rng.intn(3) == 0 { // the silent target always gets a timeout
			opts = append(opts, WithRequestTimeout(time.Duration(200+a.rng.intn(2500))*time.Microsecond))
		}
		before := a.outst
		// PID.request is what ReceiveContext.Request calls; going through rc.Request would also record the
		// rejection with rc.Err, which hands the actor to its supervisor (and stops it)
		call, err := a.pid.request(context.Background(), a.targets[ti], &testpb.TestCount{Value: m.GetValue()}, opts...)
		if err != nil || call == nil {
			atomic.AddInt64(&a.stats.Rejected, 1)
			if errors.Is(err, gerrors.ErrReentrancyInFlightLimit) {
				if a.limit <= 0 || before < a.limit {
					a.viol.add("%s: Request rejected with the in-flight limit %d although at most %d requests can be in flight (counter drift)", a.name, a.limit, before)
				}
			} else if !a.stopping.Load() && !a.tolerant {
				a.viol.add("%s: Request failed unexpectedly: %v", a.name, err)
			}
			continue
		}
		atomic.AddInt64(&a.stats.Requests, 1)
		r := &c16SReq{call: call, state: call.(*requestHandle).state, stashMode: stash, beforeStop: !a.stopping.Load()}
		a.mu.Lock()
		a.reqs = append(a.reqs, r)
		a.mu.Unlock()
		a.outst++
		re := a.pid.reentrancy.Load()
		if a.limit > 0 && !a.stopping.Load() {
			if l := re.requestStates.Len(); l > a.limit {
				a.viol.add("%s: %d requests in flight, limit %d", a.name, l, a.limit)
			}
		}
		if stash {
			a.blockOut++
			r.thenSet.Store(true)
			call.Then(a.continuation(r))
		} else if a.rng.intn(4) == 0 {
			a.deferred = append(a.deferred, r)
		} else {
			r.thenSet.Store(true)
			call.Then(a.continuation(r))
		}
		switch a.rng.intn(8) {
		case 0:
			_ = call.Cancel() // on the turn
		case 1:
			select {
			case a.cancelCh <- r: // from another goroutine, a little later
			default:
			}
		}
	}
}

func TestVerifC16Stress(t *testing.T) {
	w := newVerifWriter(t, "c16_stress_out.jsonl")
	defer w.close()
	seed := verifSeed()
	thorough := os.Getenv("VERIF_TIER") == "thorough"
	nReq, nMsg, rounds := 6, 250, 2
	if thorough {
		nReq, nMsg, rounds = 8, 1500, 6
	}
	for round := 0; round < rounds; round++ {
		out := c16StressRound(t, seed*1000+uint64(round), nReq, nMsg, round)
		w.put(out)
	}
}

func c16StressRound(t *testing.T, seed uint64, nReq, nMsg, round int) c16StressOut {
	out := c16StressOut{}
	viol := &c16Viol{}
	procs := []int{0, 2, 4, 1}[round%4]
	if procs > 0 {
		defer runtime.GOMAXPROCS(runtime.GOMAXPROCS(procs))
	}
	sys, ctx := c16System(t, fmt.Sprintf("c16-stress-%d", round))
	defer func() { _ = sys.Stop(ctx) }()
	tr := newVerifRNG(seed + 7)
	var trMu sync.Mutex
	mkTargets := func(prefix string) []*PID {
		return []*PID{
			c16Spawn(t, sys, ctx, prefix+"fast", func(rc *ReceiveContext) {
				if _, ok := rc.Message().(*testpb.TestCount); ok {
					rc.Response(&testpb.Reply{Content: "ok"})
				}
			}),
			c16Spawn(t, sys, ctx, prefix+"slow", func(rc *ReceiveContext) {
				if _, ok := rc.Message().(*testpb.TestCount); ok {
					trMu.Lock()
					d := tr.intn(1500)
					trMu.Unlock()
					time.Sleep(time.Duration(d) * time.Microsecond)
					rc.Response(&testpb.Reply{Content: "ok"})
				}
			}),
			c16Spawn(t, sys, ctx, prefix+"silent", func(*ReceiveContext) {}),
		}
	}
	// a responder whose reply cannot be delivered (requester stopped) records the failure with rc.Err and is
	// handed to its supervisor, so the requesters that get stopped talk to responders of their own
	targets, targetsOfStopped := mkTargets("a-"), mkTargets("b-")
	cancelCh := make(chan *c16SReq, 1024)
	cancelDone := make(chan struct{})
	go func() {
		defer close(cancelDone)
		for r := range cancelCh {
			runtime.Gosched()
			_ = r.call.Cancel()
		}
	}()
	nStop := 2
	actors := make([]*c16SActor, 0, nReq+nStop)
	for i := 0; i < nReq+nStop; i++ {
		a := &c16SActor{name: fmt.Sprintf("r%d", i), limit: []int{0, 2, 4, 1}[i%4], stashDef: i%2 == 1, rng: newVerifRNG(seed*31 + uint64(i)),
			viol: viol, handled: map[int32]int{}, stats: &out, targets: targets, cancelCh: cancelCh}
		if i >= nReq {
			a.targets, a.tolerant = targetsOfStopped, true
		}
		mode := reentrancy.AllowAll
		if a.stashDef {
			mode = reentrancy.StashNonReentrant
		}
		a.pid = c16Spawn(t, sys, ctx, a.name, a.receive, WithReentrancy(reentrancy.New(reentrancy.WithMode(mode), reentrancy.WithMaxInFlight(a.limit))))
		actors = append(actors, a)
	}
	out.Requesters = int64(len(actors))
	var wg sync.WaitGroup
	for i, a := range actors {
		wg.Add(1)
		go func(i int, a *c16SActor) {
			defer wg.Done()
			r := newVerifRNG(seed*97 + uint64(i))
			stopAt := -1
			if i >= nReq {
				stopAt = nMsg/3 + r.intn(nMsg/3)
			}
			for n := 0; n < nMsg; n++ {
				if n == stopAt {
					a.stopping.Store(true)
					_ = a.pid.Shutdown(ctx)
					return
				}
				if err := Tell(ctx, a.pid, &testpb.TestCount{Value: int32(n)}); err != nil {
					viol.add("%s: Tell failed: %v", a.name, err)
					return
				}
				atomic.AddInt64(&out.Messages, 1)
				switch r.intn(6) {
				case 0:
					time.Sleep(time.Duration(r.intn(300)) * time.Microsecond)
				case 1:
					runtime.Gosched()
				}
			}
		}(i, a)
	}
	wg.Wait()
	// quiescence of the actors that keep running: cancel what can never be answered, flush the late Thens
	deadline := time.Now().Add(45 * time.Second)
	for _, a := range actors[:nReq] {
		for {
			a.mu.Lock()
			reqs := append([]*c16SReq(nil), a.reqs...)
			a.mu.Unlock()
			pending := 0
			for _, r := range reqs {
				r.state.mu.Lock()
				c := r.state.completed
				r.state.mu.Unlock()
				if !c {
					pending++
					_ = r.call.Cancel()
				}
			}
			idle := a.pid.mailbox.IsEmpty() && a.pid.schedState.Load() == dispatchIdle
			a.mu.Lock()
			nh := len(a.handled)
			a.mu.Unlock()
			if pending == 0 && idle && nh >= nMsg {
				break
			}
			if time.Now().After(deadline) {
				viol.add("%s: no quiescence: %d requests never completed, %d of %d messages handled, mailbox empty=%v stash=%d blockingCount=%d",
					a.name, pending, nh, nMsg, a.pid.mailbox.IsEmpty(), a.pid.StashSize(), a.pid.reentrancy.Load().blockingCount.Load())
				break
			}
			time.Sleep(500 * time.Microsecond)
		}
		_ = Tell(ctx, a.pid, &testpb.TestCount{Value: -1}) // flush: registers the late Thens
		c16WaitFor(t, a.name+" flush", func() bool {
			a.mu.Lock()
			defer a.mu.Unlock()
			return a.handled[-1] == 1
		})
		c16WaitFor(t, a.name+" idle", func() bool { return a.pid.mailbox.IsEmpty() && a.pid.schedState.Load() == dispatchIdle })
		re := a.pid.reentrancy.Load()
		if i, b, l := re.inFlightCount.Load(), re.blockingCount.Load(), re.requestStates.Len(); i != 0 || b != 0 || l != 0 {
			viol.add("%s: at quiescence inFlightCount=%d blockingCount=%d len(requestStates)=%d", a.name, i, b, l)
		}
		if s := a.pid.StashSize(); s != 0 {
			viol.add("%s: at quiescence %d messages are still held in the stash", a.name, s)
		}
		a.mu.Lock()
		for n := 0; n < nMsg; n++ {
			if a.handled[int32(n)] != 1 {
				viol.add("%s: ordinary message %d handled %d times", a.name, n, a.handled[int32(n)])
				break
			}
		}
		for k, r := range a.reqs {
			if c := r.calls.Load(); r.thenSet.Load() && c != 1 {
				viol.add("%s: request #%d completed=%v but its continuation ran %d times", a.name, k, r.state.completed, c)
				break
			}
		}
		a.mu.Unlock()
	}
	// the stopped actors: every request they issued is completed, at most one continuation call each, counters zero
	for _, a := range actors[nReq:] {
		c16WaitFor(t, a.name+" stopped", func() bool { return !a.pid.IsRunning() && a.pid.schedState.Load() != dispatchProcessing })
		time.Sleep(2 * time.Millisecond)
		re := a.pid.reentrancy.Load()
		if i, b, l := re.inFlightCount.Load(), re.blockingCount.Load(), re.requestStates.Len(); i != 0 || b != 0 || l != 0 {
			viol.add("%s: after Shutdown inFlightCount=%d blockingCount=%d len(requestStates)=%d", a.name, i, b, l)
		}
		a.mu.Lock()
		for k, r := range a.reqs {
			r.state.mu.Lock()
			c, e := r.state.completed, r.state.err
			r.state.mu.Unlock()
			if !c && r.beforeStop {
				viol.add("%s: request #%d was never completed by Shutdown", a.name, k)
				break
			}
			if r.calls.Load() == 0 && errors.Is(e, gerrors.ErrRequestCanceled) {
				atomic.AddInt64(&out.ShutdownCancelled, 1)
			}
			if r.calls.Load() > 1 {
				viol.add("%s: continuation of request #%d ran %d times", a.name, k, r.calls.Load())
				break
			}
		}
		a.mu.Unlock()
	}
	close(cancelCh)
	<-cancelDone
	out.Violations = viol.v
	return out
}

// ---------------------------------------------------------------------------------------------
// Admission under contention: registerRequestState from many goroutines must never admit more than
// maxInFlight requests, and exactly maxInFlight when enough callers compete.
type c16RaceOut struct {
	Rounds, Goroutines int
	Violations         []string
}

func TestVerifC16RegisterRace(t *testing.T) {
	w := newVerifWriter(t, "c16_race_out.jsonl")
	defer w.close()
	rounds, g, budget := 2500, 12, 5*time.Second
	if os.Getenv("VERIF_TIER") == "thorough" {
		rounds, budget = 20000, 40*time.Second
	}
	out := c16RaceOut{Goroutines: g}
	t0 := time.Now()
	// time-boxed: on an overloaded machine the spinning contenders make a round slow
	for round := 0; round < rounds && len(out.Violations) < 3 && time.Since(t0) < budget; round++ {
		out.Rounds = round + 1
		limit := 1 + round%3
		pid := &PID{logger: log.DiscardLogger}
		pid.reentrancy.Store(newReentrancyState(reentrancy.AllowAll, limit))
		var ready, done sync.WaitGroup
		var start atomic.Bool
		var admitted atomic.Int32
		states := make([][]*requestState, g)
		for i := 0; i < g; i++ {
			ready.Add(1)
			done.Add(1)
			go func(i int) {
				defer done.Done()
				sts := []*requestState{
					newRequestState(fmt.Sprintf("r%d-%d-0", round, i), reentrancy.AllowAll, pid),
					newRequestState(fmt.Sprintf("r%d-%d-1", round, i), reentrancy.AllowAll, pid),
				}
				ready.Done()
				for spins := 0; !start.Load(); spins++ { // spin: all contenders hit the admission check together
					if spins > 20000 {
						runtime.Gosched()
					}
				}
				for _, st := range sts {
					if err := pid.registerRequestState(st); err == nil {
						admitted.Add(1)
						states[i] = append(states[i], st)
					} else if !errors.Is(err, gerrors.ErrReentrancyInFlightLimit) {
						admitted.Add(1000)
					}
				}
			}(i)
		}
		ready.Wait()
		start.Store(true)
		done.Wait()
		re := pid.reentrancy.Load()
		if a := int(admitted.Load()); a != limit || re.requestStates.Len() != limit || re.inFlightCount.Load() != int64(limit) {
			out.Violations = append(out.Violations, fmt.Sprintf("round %d: limit %d, %d goroutines x 2 registrations: admitted=%d len(requestStates)=%d inFlightCount=%d",
				round, limit, g, a, re.requestStates.Len(), re.inFlightCount.Load()))
		}
		for _, ss := range states {
			for _, st := range ss {
				pid.deregisterRequestState(st)
			}
		}
		if re.requestStates.Len() != 0 || re.inFlightCount.Load() != 0 {
			out.Violations = append(out.Violations, fmt.Sprintf("round %d: after deregistering everything len(requestStates)=%d inFlightCount=%d", round, re.requestStates.Len(), re.inFlightCount.Load()))
		}
	}
	w.put(out)
}
