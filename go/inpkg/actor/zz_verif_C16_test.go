//go:build verif

package actor

// C16 — reentrant requests complete exactly once, on the requester's turn.
// In-package harness injected by checks/C16.py with `go test -overlay`.

import (
	"context"
	"sync"
	"sync/atomic"
	"testing"
	"time"

	"github.com/tochemey/goakt/v4/log"
	"github.com/tochemey/goakt/v4/reentrancy"
	"github.com/tochemey/goakt/v4/test/data/testpb"
)

// c16Actor is a plain actor whose Receive is a closure.
type c16Actor struct {
	receive func(*ReceiveContext)
}

func (x *c16Actor) PreStart(*Context) error { return nil }
func (x *c16Actor) Receive(ctx *ReceiveContext) {
	if x.receive != nil {
		x.receive(ctx)
	}
}
func (x *c16Actor) PostStop(*Context) error { return nil }

func c16System(t *testing.T, name string) (ActorSystem, context.Context) {
	t.Helper()
	ctx := context.Background()
	sys, err := NewActorSystem(name, WithLogger(log.DiscardLogger))
	if err != nil {
		t.Fatalf("NewActorSystem: %v", err)
	}
	if err := sys.Start(ctx); err != nil {
		t.Fatalf("Start: %v", err)
	}
	t.Cleanup(func() { _ = sys.Stop(ctx) })
	return sys, ctx
}

func c16Spawn(t *testing.T, sys ActorSystem, ctx context.Context, name string, receive func(*ReceiveContext), opts ...SpawnOption) *PID {
	t.Helper()
	pid, err := sys.Spawn(ctx, name, &c16Actor{receive: receive}, opts...)
	if err != nil || pid == nil {
		t.Fatalf("Spawn %s: %v", name, err)
	}
	return pid
}

func c16WaitFor(t *testing.T, what string, cond func() bool) bool {
	t.Helper()
	deadline := time.Now().Add(10 * time.Second)
	for !cond() {
		if time.Now().After(deadline) {
			t.Errorf("timed out waiting for %s", what)
			return false
		}
		time.Sleep(200 * time.Microsecond)
	}
	return true
}

type c16WitnessOut struct {
	Witness string
	Handled []int32 // ordinary messages in the order Receive saw them
	Held    []int32 // messages that were observed in the stash at least once (by StashSize growth)
	Note    string
}

// TestVerifC16WitnessStashOrder replays the Coq witness C16_stash_order_refuted on real actors:
// ordinary messages w1..w4 arrive in that order; every one issues a StashNonReentrant request.
// The reply to w1's request is in the mailbox between w2 and w3. All of it is made deterministic
// by keeping the requester inside w1's Receive until the mailbox holds [w2, reply, w3, w4].
func TestVerifC16WitnessStashOrder(t *testing.T) {
	w := newVerifWriter(t, "c16_witness_order.jsonl")
	defer w.close()
	sys, ctx := c16System(t, "c16-witness-order")

	releaseFirst := make(chan struct{})
	var seenReq atomic.Int32
	target := c16Spawn(t, sys, ctx, "target", func(rc *ReceiveContext) {
		switch rc.Message().(type) {
		case *testpb.TestCount:
			if seenReq.Add(1) == 1 {
				<-releaseFirst
			}
			rc.Response(&testpb.Reply{Content: "ok"})
		}
	})

	var mu sync.Mutex
	var handled []int32
	entered := make(chan struct{})
	gate := make(chan struct{})
	var requester *PID
	requester = c16Spawn(t, sys, ctx, "requester", func(rc *ReceiveContext) {
		switch m := rc.Message().(type) {
		case *testpb.TestCount:
			mu.Lock()
			handled = append(handled, m.GetValue())
			mu.Unlock()
			call := rc.Request(target, &testpb.TestCount{Value: m.GetValue()}, WithReentrancyMode(reentrancy.StashNonReentrant))
			if call != nil {
				call.Then(func(any, error) {})
			}
			if m.GetValue() == 1 {
				close(entered)
				<-gate
			}
		}
	}, WithReentrancy(reentrancy.New(reentrancy.WithMode(reentrancy.StashNonReentrant))))

	must := func(err error) {
		if err != nil {
			t.Fatalf("tell: %v", err)
		}
	}
	must(Tell(ctx, requester, &testpb.TestCount{Value: 1}))
	<-entered
	must(Tell(ctx, requester, &testpb.TestCount{Value: 2}))
	close(releaseFirst) // the target now replies to request #1: the reply is enqueued behind w2
	c16WaitFor(t, "reply #1 enqueued", func() bool { return requester.mailbox.Len() == 2 })
	must(Tell(ctx, requester, &testpb.TestCount{Value: 3}))
	must(Tell(ctx, requester, &testpb.TestCount{Value: 4}))
	close(gate)
	c16WaitFor(t, "all four handled", func() bool {
		mu.Lock()
		defer mu.Unlock()
		return len(handled) == 4
	})
	mu.Lock()
	out := c16WitnessOut{Witness: "stash-order", Handled: append([]int32(nil), handled...)}
	mu.Unlock()
	w.put(out)
}
