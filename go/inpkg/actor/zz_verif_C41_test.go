//go:build verif

package actor

// C41/C39 harness: drives the REAL replicatorActor (its real Receive) in-package, 2-3 replicas in one
// history. Every outgoing message (published delta / tombstone, full state told to the digest sender)
// is captured by a real capture actor and can be re-delivered to any replica any number of times.
// After every step the observable state of the stepped replica is written as a canonical integer tree.

import (
	"context"
	"fmt"
	"sort"
	"sync"
	"testing"
	"time"

	"github.com/stretchr/testify/mock"

	"github.com/tochemey/goakt/v4/crdt"
	"github.com/tochemey/goakt/v4/internal/address"
	"github.com/tochemey/goakt/v4/internal/cluster"
	"github.com/tochemey/goakt/v4/internal/codec"
	"github.com/tochemey/goakt/v4/internal/ddata"
	"github.com/tochemey/goakt/v4/internal/internalpb"
	"github.com/tochemey/goakt/v4/internal/types"
	"github.com/tochemey/goakt/v4/log"
	mockcluster "github.com/tochemey/goakt/v4/mocks/cluster"
	mocksremote "github.com/tochemey/goakt/v4/mocks/remoteclient"
)

// ---------------------------------------------------------------- canonical trees
func c41Leaf(x any) (neg bool, mag uint64, ok bool) {
	switch v := x.(type) {
	case int64:
		if v < 0 {
			return true, uint64(-(v + 1)), true
		}
		return false, uint64(v), true
	case uint64:
		return false, v, true
	case int:
		return c41Leaf(int64(v))
	}
	return false, 0, false
}
func c41Cmp(a, b any) int {
	an, am, aok := c41Leaf(a)
	bn, bm, bok := c41Leaf(b)
	switch {
	case aok && bok:
		if an != bn {
			if an {
				return -1
			}
			return 1
		}
		if an {
			am, bm = bm, am
		}
		if am < bm {
			return -1
		} else if am > bm {
			return 1
		}
		return 0
	case aok:
		return -1
	case bok:
		return 1
	}
	la, lb := a.([]any), b.([]any)
	for i := 0; i < len(la) && i < len(lb); i++ {
		if c := c41Cmp(la[i], lb[i]); c != 0 {
			return c
		}
	}
	if len(la) < len(lb) {
		return -1
	} else if len(la) > len(lb) {
		return 1
	}
	return 0
}
func c41Sorted(xs []any) []any {
	if xs == nil {
		xs = []any{}
	}
	sort.SliceStable(xs, func(i, j int) bool { return c41Cmp(xs[i], xs[j]) < 0 })
	return xs
}
func c41T(xs ...any) []any { return xs }

var c41Nodes = []string{"n0", "n1", "n2", "zz"}
var c41Elems = []string{"", "x", "y", "z"}

func c41NodeIdx(s string) int64 {
	for i, n := range c41Nodes {
		if n == s {
			return int64(i)
		}
	}
	return -1
}
func c41ElemIdx(v any) int64 {
	s, ok := v.(string)
	if !ok {
		return -1
	}
	for i, e := range c41Elems {
		if e == s {
			return int64(i)
		}
	}
	return -1
}
func c41KeyIdx(id string) int64 {
	var i int64
	if _, err := fmt.Sscanf(id, "k%d", &i); err != nil {
		return -1
	}
	return i
}
func c41U64Map(m map[string]uint64) []any {
	out := []any{}
	for k, v := range m {
		out = append(out, c41T(c41NodeIdx(k), v))
	}
	return c41Sorted(out)
}

// c41Val: [tag, observable value, raw state] with the tags / layout of the crdt slot machine (GCounter 1, ORSet 6)
func c41Val(d crdt.ReplicatedData) any {
	switch v := d.(type) {
	case nil:
		return []any{}
	case *crdt.GCounter:
		if v == nil {
			return []any{}
		}
		return c41T(int64(1), v.Value(), c41U64Map(v.State()))
	case *crdt.ORSet:
		if v == nil {
			return []any{}
		}
		els := []any{}
		for _, e := range v.Elements() {
			els = append(els, c41ElemIdx(e))
		}
		es, clk := v.RawState()
		dots := []any{}
		for _, e := range es {
			for _, dt := range e.Dots {
				dots = append(dots, c41T(c41ElemIdx(e.Element), c41NodeIdx(dt.NodeID), dt.Counter))
			}
		}
		return c41T(int64(6), c41Sorted(els), c41T(c41Sorted(dots), c41U64Map(clk)))
	}
	return c41T(int64(-1))
}

// ---------------------------------------------------------------- capture actor
type c41Flush struct{}
type c41Capture struct {
	mu   sync.Mutex
	msgs []any
}

func (c *c41Capture) PreStart(*Context) error { return nil }
func (c *c41Capture) PostStop(*Context) error { return nil }
func (c *c41Capture) Receive(ctx *ReceiveContext) {
	switch m := ctx.Message().(type) {
	case *PostStart:
	case *c41Flush:
		c.mu.Lock()
		out := c.msgs
		c.msgs = nil
		c.mu.Unlock()
		ctx.Response(out)
	case *Publish:
		c.mu.Lock()
		c.msgs = append(c.msgs, m.Message())
		c.mu.Unlock()
	default:
		c.mu.Lock()
		c.msgs = append(c.msgs, m)
		c.mu.Unlock()
	}
}

type c41Idle struct{}

func (c *c41Idle) PreStart(*Context) error { return nil }
func (c *c41Idle) PostStop(*Context) error { return nil }
func (c *c41Idle) Receive(*ReceiveContext)  {}

// ---------------------------------------------------------------- replica driver (reused by the C39 harness)
type verifRepl struct {
	t      testing.TB
	r      *replicatorActor
	self   *PID
	cap    *PID
	nodeID string
	peers  []*verifRepl // what the fake cluster / remoting expose to a coordinated read
}

var verifReplSeq int

func newVerifRepl(t testing.TB, sys ActorSystem, nodeID string, ttl time.Duration) *verifRepl {
	ctx := context.Background()
	verifReplSeq++
	self, err := sys.Spawn(ctx, fmt.Sprintf("vrepl-self-%d", verifReplSeq), &c41Idle{}, WithLongLived())
	if err != nil {
		t.Fatalf("spawn: %v", err)
	}
	capt, err := sys.Spawn(ctx, fmt.Sprintf("vrepl-cap-%d", verifReplSeq), &c41Capture{}, WithLongLived())
	if err != nil {
		t.Fatalf("spawn: %v", err)
	}
	r := newReplicatorActor()
	r.config = crdt.NewConfig(crdt.WithTombstoneTTL(ttl))
	r.store = make(map[string]crdt.ReplicatedData)
	r.keyTypes = make(map[string]crdt.DataType)
	r.subscriptions = make(map[string]types.Unit)
	r.watchers = make(map[string][]*PID)
	r.tombstones = make(map[string]*tombstone)
	r.versions = make(map[string]uint64)
	r.logger = log.DiscardLogger
	r.actorSystem = sys
	r.pid = self
	r.topicActor = capt
	r.nodeID = nodeID
	r.serializer = ddata.NewCRDTValueSerializer()
	r.originDCProto = &internalpb.DataCenter{}
	v := &verifRepl{t: t, r: r, self: self, cap: capt, nodeID: nodeID}
	// fake cluster + remoting: the peers of a coordinated read are other real replicas of the history
	cl := mockcluster.NewCluster(t)
	cl.EXPECT().Peers(mock.Anything).RunAndReturn(func(context.Context) ([]*cluster.Peer, error) {
		ps := make([]*cluster.Peer, len(v.peers))
		for i := range v.peers {
			ps[i] = &cluster.Peer{Host: "peer", RemotingPort: 9000 + i}
		}
		return ps, nil
	}).Maybe()
	rm := mocksremote.NewClient(t)
	rm.EXPECT().RemoteLookup(mock.Anything, mock.Anything, mock.Anything, mock.Anything).RunAndReturn(
		func(_ context.Context, host string, port int, name string) (*address.Address, error) {
			return address.New(name, "verif", host, port), nil
		}).Maybe()
	rm.EXPECT().RemoteAsk(mock.Anything, mock.Anything, mock.Anything, mock.Anything, mock.Anything).RunAndReturn(
		func(_ context.Context, _ *address.Address, to *address.Address, message any, _ time.Duration) (any, error) {
			i := to.Port() - 9000
			if i < 0 || i >= len(v.peers) {
				return nil, fmt.Errorf("no such peer")
			}
			resp, _ := v.peers[i].step(message, true)
			return resp, nil
		}).Maybe()
	r.clusterRef = cl
	r.remoting = rm
	return v
}

// step feeds one message to the real Receive. Returns the Ask-style response (nil when none) and
// everything the replicator sent out (topic publications unwrapped, tells to the sender).
func (v *verifRepl) step(msg any, withSender bool) (resp any, outgoing []any) {
	rctx := &ReceiveContext{ctx: context.Background(), message: msg, self: v.self, response: make(chan any, 1)}
	if withSender {
		rctx.sender = v.cap
	}
	v.r.Receive(rctx)
	select {
	case resp = <-rctx.response:
	default:
	}
	out, err := Ask(context.Background(), v.cap, &c41Flush{}, 120*time.Second)
	if err != nil {
		v.t.Fatalf("flush: %v", err)
	}
	outgoing, _ = out.([]any)
	return resp, outgoing
}

func (v *verifRepl) snapshot() any {
	r := v.r
	store, vers, tomb, typs := []any{}, []any{}, []any{}, []any{}
	for k, d := range r.store {
		store = append(store, c41T(c41KeyIdx(k), c41Val(d)))
	}
	for k, n := range r.versions {
		vers = append(vers, c41T(c41KeyIdx(k), n))
	}
	for k, ts := range r.tombstones {
		tomb = append(tomb, c41T(c41KeyIdx(k), int64(ts.dataType), ts.deletedAt.UnixNano(), c41NodeIdx(ts.deletedBy)))
	}
	for k, ty := range r.keyTypes {
		typs = append(typs, c41T(c41KeyIdx(k), int64(ty)))
	}
	return c41T(c41Sorted(store), c41Sorted(vers), c41Sorted(tomb), c41Sorted(typs))
}

// ---------------------------------------------------------------- history interpreter
type c41Entry struct {
	K    int    `json:"k"`
	From int    `json:"from"`
	Bad  string `json:"bad"`
}
type c41Msg struct {
	M       string     `json:"m"`
	R       int        `json:"r"`
	K       int        `json:"k"`
	Op      string     `json:"op"`
	V       uint64     `json:"v"`
	E       int        `json:"e"`
	Sender  bool       `json:"sender"`
	Peers   []int      `json:"peers"`
	Src     int        `json:"src"`
	Out     int        `json:"out"`
	Age     int64      `json:"age"`
	By      int        `json:"by"`
	PType   int        `json:"ptype"`
	Kind    string     `json:"kind"`
	Entries []c41Entry `json:"entries"`
	Own     bool       `json:"own"`
	Deltas  []int      `json:"deltas"`
	Tombs   []int      `json:"tombs"`
}
type c41Hist struct {
	ID    int      `json:"id"`
	TTL   int64    `json:"ttl"`
	NRepl int      `json:"nrepl"`
	Msgs  []c41Msg `json:"msgs"`
}
type c41Step struct {
	State any   `json:"state"`
	Out   []any `json:"out"`
	Resp  any   `json:"resp"`
	Lo    int64 `json:"lo"`
	Hi    int64 `json:"hi"`
	At    int64 `json:"at"`
}
type c41Result struct {
	ID    int       `json:"id"`
	Steps []c41Step `json:"steps"`
	Panic string    `json:"panic,omitempty"`
}

func c41Key(k int) crdt.Key {
	id := fmt.Sprintf("k%d", k)
	if k >= 2 {
		return crdt.ORSetKey(id)
	}
	return crdt.GCounterKey(id)
}
func c41Initial(k int) crdt.ReplicatedData {
	if k >= 2 {
		return crdt.NewORSet()
	}
	return crdt.NewGCounter()
}

// outgoing message -> tree. kinds: 1 delta [1,k,ptype,origin,val]; 2 tombstone [2,k,ptype,at,by]; 3 full state [3,[[k,ptype,val]...]]
func c41OutTree(m any, ser *ddata.CRDTValueSerializer) any {
	switch x := m.(type) {
	case *internalpb.CRDTDelta:
		d, err := ddata.DecodeCRDT(x.GetData(), ser)
		if err != nil {
			return c41T(int64(1), int64(-1))
		}
		return c41T(int64(1), c41KeyIdx(x.GetKey().GetId()), int64(x.GetKey().GetDataType()), c41NodeIdx(x.GetOriginNode()), c41Val(d))
	case *internalpb.CRDTTombstone:
		return c41T(int64(2), c41KeyIdx(x.GetKey().GetId()), int64(x.GetKey().GetDataType()), x.GetDeletedAtNanos(), c41NodeIdx(x.GetDeletedByNode()))
	case *internalpb.CRDTFullState:
		es := []any{}
		for _, e := range x.GetEntries() {
			d, err := ddata.DecodeCRDT(e.GetData(), ser)
			if err != nil {
				es = append(es, c41T(int64(-1)))
				continue
			}
			es = append(es, c41T(c41KeyIdx(e.GetKey().GetId()), int64(e.GetKey().GetDataType()), c41Val(d)))
		}
		return c41T(int64(3), c41Sorted(es))
	}
	return c41T(int64(-9))
}

func c41RespTree(resp any, ser *ddata.CRDTValueSerializer) any {
	switch x := resp.(type) {
	case nil:
		return []any{}
	case *crdt.UpdateResponse:
		return c41T(int64(1))
	case *crdt.DeleteResponse:
		return c41T(int64(2))
	case *crdt.GetResponse:
		return c41T(int64(3), c41Val(x.Data))
	case *internalpb.CRDTReadResponse:
		if x.GetData() == nil {
			return c41T(int64(4), []any{})
		}
		d, err := ddata.DecodeCRDT(x.GetData(), ser)
		if err != nil {
			return c41T(int64(4), int64(-1))
		}
		return c41T(int64(4), c41Val(d))
	}
	return c41T(int64(-9))
}

func c41RunHist(t testing.TB, sys ActorSystem, h c41Hist) (res c41Result) {
	res.ID = h.ID
	defer func() {
		if r := recover(); r != nil {
			res.Panic = fmt.Sprint(r)
		}
	}()
	ser := ddata.NewCRDTValueSerializer()
	reps := make([]*verifRepl, h.NRepl)
	for i := range reps {
		reps[i] = newVerifRepl(t, sys, c41Nodes[i], time.Duration(h.TTL))
	}
	defer func() {
		for _, v := range reps {
			_ = v.self.Shutdown(context.Background())
			_ = v.cap.Shutdown(context.Background())
		}
	}()
	var outs []any // every captured outgoing message of the history, in order
	badKey := func(kind string, k int) *internalpb.CRDTKey {
		switch kind {
		case "nilkey":
			return nil
		case "badtype":
			return &internalpb.CRDTKey{Id: fmt.Sprintf("k%d", k), DataType: internalpb.CRDTDataType(99)}
		case "unspec":
			return &internalpb.CRDTKey{Id: fmt.Sprintf("k%d", k), DataType: internalpb.CRDTDataType_CRDT_DATA_TYPE_UNSPECIFIED}
		}
		return codec.EncodeCRDTKey(c41Key(k).ID(), c41Key(k).Type())
	}
	for _, m := range h.Msgs {
		v := reps[m.R]
		var msg any
		var at int64
		lo := time.Now().UnixNano()
		switch m.M {
		case "update":
			mm := m
			node := v.nodeID
			msg = &crdt.Update{Key: c41Key(m.K), Initial: c41Initial(m.K), Modify: func(cur crdt.ReplicatedData) crdt.ReplicatedData {
				switch c := cur.(type) {
				case *crdt.GCounter:
					return c.Increment(node, mm.V)
				case *crdt.ORSet:
					if mm.Op == "rem" {
						return c.Remove(c41Elems[mm.E])
					}
					if mm.Op == "addrem" {
						return c.Add(node, c41Elems[mm.E]).Remove(c41Elems[mm.E])
					}
					return c.Add(node, c41Elems[mm.E])
				}
				return cur
			}}
		case "delete":
			msg = &crdt.Delete{Key: c41Key(m.K)}
		case "get":
			msg = &crdt.Get{Key: c41Key(m.K)}
		case "getc":
			v.peers = nil
			for _, p := range m.Peers {
				v.peers = append(v.peers, reps[p])
			}
			msg = &crdt.Get{Key: c41Key(m.K), ReadFrom: crdt.All}
		case "prune":
			msg = &pruneTick{}
		case "digest":
			msg = reps[m.Src].r.buildDigest()
		case "deliver": // index taken modulo the number of messages captured so far
			if len(outs) == 0 {
				msg = &internalpb.CRDTReadRequest{}
			} else {
				msg = outs[m.Out%len(outs)]
			}
		case "tomb":
			at = lo - m.Age
			key := badKey(m.Kind, m.K)
			if m.Kind == "" && m.PType != 0 {
				key.DataType = internalpb.CRDTDataType(m.PType)
			}
			msg = &internalpb.CRDTTombstone{Key: key, DeletedAtNanos: at, DeletedByNode: c41Nodes[m.By]}
		case "baddelta":
			var data *internalpb.CRDTData
			if m.Kind != "nildata" {
				g := crdt.NewGCounter().Increment("zz", 7)
				data, _ = ddata.EncodeCRDT(g, ser)
			}
			origin := "zz"
			if m.Kind == "own" {
				origin = v.nodeID
			}
			msg = &internalpb.CRDTDelta{Key: badKey(m.Kind, m.K), OriginNode: origin, Data: data}
		case "full":
			fs := &internalpb.CRDTFullState{}
			for _, e := range m.Entries {
				var data *internalpb.CRDTData
				if e.Bad != "nildata" {
					if d, ok := reps[e.From].r.store[fmt.Sprintf("k%d", e.K)]; ok {
						data, _ = ddata.EncodeCRDT(d, ser)
					}
				}
				fs.Entries = append(fs.Entries, &internalpb.CRDTFullStateEntry{Key: badKey(e.Bad, e.K), Data: data})
			}
			msg = fs
		case "batch":
			b := &internalpb.CRDTDeltaBatch{SentAtNanos: lo}
			if m.Own {
				b.OriginDc = &internalpb.DataCenter{}
			} else {
				b.OriginDc = &internalpb.DataCenter{Name: "other-dc"}
			}
			for _, i := range m.Deltas {
				if len(outs) == 0 {
					break
				}
				if d, ok := outs[i%len(outs)].(*internalpb.CRDTDelta); ok {
					b.Deltas = append(b.Deltas, d)
				}
			}
			for _, i := range m.Tombs {
				if len(outs) == 0 {
					break
				}
				if d, ok := outs[i%len(outs)].(*internalpb.CRDTTombstone); ok {
					b.Tombstones = append(b.Tombstones, d)
				}
			}
			msg = b
		case "readreq":
			msg = &internalpb.CRDTReadRequest{Key: badKey(m.Kind, m.K), FromNode: "zz"}
		case "mergeall":
			// oracle helper, no replicator involved: the join (crdt Merge) of every replica's current value of the key
			var acc crdt.ReplicatedData
			for _, rp := range reps {
				if d, ok := rp.r.store[fmt.Sprintf("k%d", m.K)]; ok && d != nil {
					if acc == nil {
						acc = d.Clone()
					} else {
						acc = acc.Merge(d)
					}
				}
			}
			res.Steps = append(res.Steps, c41Step{State: v.snapshot(), Resp: c41T(int64(3), c41Val(acc)), Lo: lo, Hi: lo, Out: []any{}})
			continue
		default:
			panic("unknown message kind " + m.M)
		}
		resp, outgoing := v.step(msg, m.Sender || m.M == "get" || m.M == "getc" || m.M == "digest" || m.M == "readreq")
		hi := time.Now().UnixNano()
		st := c41Step{State: v.snapshot(), Resp: c41RespTree(resp, ser), Lo: lo, Hi: hi, At: at, Out: []any{}}
		for _, o := range outgoing {
			outs = append(outs, o)
			st.Out = append(st.Out, c41OutTree(o, ser))
		}
		res.Steps = append(res.Steps, st)
	}
	return res
}

func c41System(t testing.TB) ActorSystem {
	sys, err := NewActorSystem("verifC41", WithLogger(log.DiscardLogger))
	if err != nil {
		t.Fatalf("actor system: %v", err)
	}
	if err := sys.Start(context.Background()); err != nil {
		t.Fatalf("start: %v", err)
	}
	time.Sleep(300 * time.Millisecond)
	return sys
}

// TestVerifC41Histories runs the message histories chosen by checks/C41.py.
func TestVerifC41Histories(t *testing.T) {
	hs := verifReadJSONL[c41Hist](t, "c41_hist.jsonl")
	w := newVerifWriter(t, "c41_out.jsonl")
	defer w.close()
	sys := c41System(t)
	defer func() { _ = sys.Stop(context.Background()) }()
	for _, h := range hs {
		w.put(c41RunHist(t, sys, h))
	}
}
